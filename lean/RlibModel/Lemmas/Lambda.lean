import RlibModel.Model.Lambda
/-! Helper lemmas for C20 (`rec_lambda!`): the munchers run on the token stream of an invocation. -/
namespace Rlib.Lambda

/-! ### token streams -/

theorem argToks_cons_cons (a b : Name) (as : List Name) (rest : List Tok) :
    argToks (a :: b :: as) rest = .arg a :: .comma :: argToks (b :: as) rest := rfl

theorem capToks_cons_cons (c d : Name × Bool) (cs : List (Name × Bool)) (rest : List Tok) :
    capToks (c :: d :: cs) rest = .cap c.1 c.2 :: .comma :: capToks (d :: cs) rest := by
  obtain ⟨v, m⟩ := c
  rfl

theorem iter_succ (n : Nat) (st st' : St) (h : step st = some st') : iter (n + 1) st = iter n st' := by
  simp [iter, h]

theorem iter_add (m n : Nat) (st st' : St) (h : iter m st = some st') : iter (m + n) st = iter n st' := by
  induction m generalizing st with
  | zero => simp [iter] at h; simp [h]
  | succ m ih =>
    rw [Nat.add_right_comm]
    simp only [iter] at h ⊢
    cases hs : step st with
    | none => simp [hs] at h
    | some st1 =>
      simp only [hs, Option.bind_some] at h ⊢
      exact ih st1 h

/-! ### `_rec_lambda_1_` eats the arguments, in order -/

theorem m1_run (cs ms : List Name) (ret : Option Ty) :
    ∀ (args acc : List Name), args ≠ [] →
      iter args.length (.m1 cs ms acc (argToks args (retToks ret))) =
        some (.m2 (ret.getD "()") cs ms (acc ++ args))
  | [], _, h => absurd rfl h
  | [a], acc, _ => by
    cases ret <;> simp [argToks, retToks, iter, step]
  | a :: b :: as, acc, _ => by
    rw [argToks_cons_cons, List.length_cons, iter_succ _ _ (.m1 cs ms (acc ++ [a]) (argToks (b :: as) (retToks ret))) (by simp [step])]
    rw [m1_run cs ms ret (b :: as) (acc ++ [a]) (by simp)]
    simp

/-! ### `_rec_lambda_0_` sorts the captures into the two lists, prepending -/

theorem sharedOf_cons (v : Name) (m : Bool) (caps : List (Name × Bool)) :
    sharedOf ((v, m) :: caps) = if m then sharedOf caps else v :: sharedOf caps := by
  cases m <;> simp [sharedOf]

theorem mutOf_cons (v : Name) (m : Bool) (caps : List (Name × Bool)) :
    mutOf ((v, m) :: caps) = if m then v :: mutOf caps else mutOf caps := by
  cases m <;> simp [mutOf]

theorem m0_run (rem : List Tok) :
    ∀ (caps : List (Name × Bool)) (cs ms : List Name), caps ≠ [] →
      iter caps.length (.m0 cs ms [] (capToks caps [.group (.bar :: rem)])) =
        some (.m1 ((sharedOf caps).reverse ++ cs) ((mutOf caps).reverse ++ ms) [] rem)
  | [], _, _, h => absurd rfl h
  | [(v, m)], cs, ms, _ => by
    cases m <;> simp [capToks, iter, step, sharedOf, mutOf]
  | (v, m) :: d :: rest, cs, ms, _ => by
    rw [capToks_cons_cons, List.length_cons]
    cases m with
    | true =>
      rw [iter_succ _ _ (.m0 cs (v :: ms) [] (capToks (d :: rest) [.group (.bar :: rem)])) (by simp [step])]
      rw [m0_run rem (d :: rest) cs (v :: ms) (by simp)]
      simp [sharedOf_cons, mutOf_cons]
    | false =>
      rw [iter_succ _ _ (.m0 (v :: cs) ms [] (capToks (d :: rest) [.group (.bar :: rem)])) (by simp [step])]
      rw [m0_run rem (d :: rest) (v :: cs) ms (by simp)]
      simp [sharedOf_cons, mutOf_cons]

theorem emit_eq_spec (inv : Inv) :
    emit (inv.ret.getD "()") ((sharedOf inv.caps).reverse) ((mutOf inv.caps).reverse) inv.args = specExpansion inv := by
  simp [emit, specExpansion, specTail, List.append_assoc]

/-- The whole expansion, counted in macro steps. -/
theorem iter_tokens (inv : Inv) (h : inv.args ≠ []) :
    iter (inv.caps.length + inv.args.length + 2) (.entry (invTokens inv)) = some (.done (specExpansion inv)) := by
  obtain ⟨caps, args, ret⟩ := inv
  simp only at h ⊢
  have hl : lambdaToks args ret = .bar :: argToks args (retToks ret) := by
    cases args with
    | nil => exact absurd rfl h
    | cons a as => rfl
  cases caps with
  | nil =>
    have e1 : step (.entry (invTokens ⟨[], args, ret⟩)) = some (.m1 [] [] [] (argToks args (retToks ret))) := by
      simp [invTokens, hl, step]
    rw [show ([] : List (Name × Bool)).length + args.length + 2 = (args.length + 1) + 1 by simp]
    rw [iter_succ _ _ _ e1, iter_add _ 1 _ _ (m1_run [] [] ret args [] h)]
    simp [iter, step, ← emit_eq_spec, sharedOf, mutOf]
  | cons c cs =>
    have e1 : step (.entry (invTokens ⟨c :: cs, args, ret⟩)) =
        some (.m0 [] [] [] (capToks (c :: cs) [.group (.bar :: argToks args (retToks ret))])) := by
      simp [invTokens, hl, step]
    rw [show (c :: cs).length + args.length + 2 = ((c :: cs).length + (args.length + 1)) + 1 by omega]
    rw [iter_succ _ _ _ e1, iter_add _ _ _ _ (m0_run _ (c :: cs) [] [] (by simp))]
    rw [iter_add _ 1 _ _ (m1_run _ _ ret args [] h)]
    simp [iter, step, ← emit_eq_spec]

theorem step_done (e : Expansion) : step (.done e) = none := rfl

theorem runMacro_of_iter : ∀ (n fuel used : Nat) (st : St) (e : Expansion),
    iter n st = some (.done e) → n ≤ fuel → runMacro fuel used st = some (e, used + n)
  | 0, fuel, used, st, e, h, _ => by
    simp [iter] at h
    subst h
    cases fuel <;> simp [runMacro]
  | n + 1, fuel, used, st, e, h, hle => by
    simp only [iter] at h
    cases hs : step st with
    | none => simp [hs] at h
    | some st1 =>
      simp only [hs, Option.bind_some] at h
      obtain ⟨f, rfl⟩ : ∃ f, fuel = f + 1 := ⟨fuel - 1, by omega⟩
      have hnd : ∀ e', st ≠ .done e' := by
        intro e' he
        rw [he, step_done] at hs
        cases hs
      have : runMacro (f + 1) used st = (step st).bind (runMacro f (used + 1)) := by
        cases st with
        | done e' => exact absurd rfl (hnd e')
        | _ => rfl
      rw [this, hs, Option.bind_some, runMacro_of_iter n f (used + 1) st1 e h (by omega)]
      simp [Nat.add_assoc, Nat.add_comm 1 n]

theorem expandSteps_eq (inv : Inv) (h : inv.args ≠ []) :
    expandSteps inv = some (specExpansion inv, inv.caps.length + inv.args.length + 2) := by
  unfold expandSteps
  rw [runMacro_of_iter _ _ 0 _ _ (iter_tokens inv h) (Nat.le_refl _)]
  simp

theorem expand_eq (inv : Inv) (h : inv.args ≠ []) : expand inv = some (specExpansion inv) := by
  simp [expand, expandSteps_eq inv h]

/-! ## The local macro on the tokens of a call -/

/-- `e₁, e₂, …, eₙ,` : every expression followed by a comma. -/
def terminated {α} (xs : List α) : List (CTok α) := xs.flatMap (fun x => [.expr x, .comma])

/-- `, e₁, e₂ … , eₙ` : every expression preceded by a comma. -/
def preceded {α} (xs : List α) : List (CTok α) := xs.flatMap (fun x => [.comma, .expr x])

theorem terminated_cons {α} (x : α) (xs : List α) : terminated (x :: xs) = .expr x :: .comma :: terminated xs := by
  simp [terminated]

theorem preceded_cons {α} (x : α) (xs : List α) : preceded (x :: xs) = .comma :: .expr x :: preceded xs := by
  simp [preceded]

theorem callToks_true {α} : ∀ (xs : List α), callToks xs true = terminated xs
  | [] => rfl
  | [x] => by simp [callToks, terminated]
  | x :: y :: xs => by
    rw [terminated_cons, ← callToks_true (y :: xs)]
    rfl

theorem callToks_false {α} : ∀ (x : α) (xs : List α), callToks (x :: xs) false = .expr x :: preceded xs
  | x, [] => by simp [callToks, preceded]
  | x, y :: xs => by
    rw [preceded_cons, ← callToks_false y xs]
    rfl

theorem matchArm2_terminated {α} : ∀ (xs : List α), matchArm2 (terminated xs) = some xs
  | [] => rfl
  | x :: xs => by
    rw [terminated_cons]
    simp [matchArm2, matchArm2_terminated xs]

theorem matchCommaExprs_preceded {α} : ∀ (xs : List α), matchCommaExprs (preceded xs) = some xs
  | [] => rfl
  | x :: xs => by
    rw [preceded_cons]
    simp [matchCommaExprs, matchCommaExprs_preceded xs]

/-- Arm 1 does not match a comma-terminated list: after the last comma the repetition finds the end of the input. -/
theorem matchCommaExprs_comma_terminated {α} : ∀ (xs : List α), matchCommaExprs (.comma :: terminated xs) = none
  | [] => rfl
  | x :: xs => by
    rw [terminated_cons]
    simp [matchCommaExprs, matchCommaExprs_comma_terminated xs]

theorem matchArm1_terminated {α} : ∀ (xs : List α), matchArm1 (terminated xs) = none
  | [] => rfl
  | x :: xs => by
    rw [terminated_cons]
    simp [matchArm1, matchCommaExprs_comma_terminated xs]

theorem matchArm1_callToks_false {α} (x : α) (xs : List α) : matchArm1 (callToks (x :: xs) false) = some (x, xs) := by
  rw [callToks_false]
  simp [matchArm1, matchCommaExprs_preceded]

theorem transcribeArm1_eq {α} (x : α) (xs : List α) : transcribeArm1 x xs = terminated (x :: xs) := by
  rw [terminated_cons]
  rfl

/-- A comma-terminated call is transcribed by arm 2 in one step. -/
theorem callStep_terminated {α} (e : Expansion) (xs : List α) :
    callStep e (.inv (terminated xs)) = some (.done xs e.recCallTail) := by
  simp [callStep, matchArm1_terminated, matchArm2_terminated]

/-- A call without trailing comma is re-invoked by arm 1 with the comma added. -/
theorem callStep_callToks_false {α} (e : Expansion) (x : α) (xs : List α) :
    callStep e (.inv (callToks (x :: xs) false)) = some (.inv (terminated (x :: xs))) := by
  simp [callStep, matchArm1_callToks_false, transcribeArm1_eq]

theorem callRun_eq {α} (e : Expansion) (xs : List α) (tc : Bool) :
    callRun e 2 0 (.inv (callToks xs tc)) =
      some (xs, e.recCallTail, if tc = true ∨ xs = [] then 1 else 2) := by
  cases tc with
  | true =>
    rw [callToks_true]
    simp [callRun, callStep_terminated]
  | false =>
    cases xs with
    | nil =>
      have : callToks ([] : List α) false = terminated [] := rfl
      rw [this]
      simp [callRun, callStep_terminated]
    | cons x xs =>
      simp [callRun, callStep_callToks_false, callStep_terminated]

/-- Both call syntaxes, any number of expressions: the inner fn is called with the user's expressions
    unchanged and in order, followed by `recCallTail`. -/
theorem expandCall_eq {α} (e : Expansion) (xs : List α) (tc : Bool) :
    expandCall e xs tc = some (xs, e.recCallTail) := by
  simp [expandCall, callRun_eq]

/-! ## Semantics: frames of the generated code -/

/-- The references the closure passes for the captures (`&c…, &mut m…`), in wiring order. -/
def refs (caps : List (Name × Bool)) : List Slot :=
  (sharedOf caps).reverse.map (fun n => Slot.ref n false) ++ (mutOf caps).reverse.map (fun n => Slot.ref n true)

/-- The capture part of the frame of an activation when the wiring is right: every captured name
    holds a reference to the variable of that very name. -/
def capFrame (caps : List (Name × Bool)) : Frame :=
  (sharedOf caps).reverse.map (fun n => (n, Slot.ref n false)) ++ (mutOf caps).reverse.map (fun n => (n, Slot.ref n true))

def argFrame (args : List Name) (vs : List Val) : Frame := (args.zip vs).map (fun p => (p.1, Slot.val p.2))

/-- The frame of an activation of `_lambda_name_` called with argument values `vs`. -/
def canonFrame (inv : Inv) (vs : List Val) : Frame := argFrame inv.args vs ++ capFrame inv.caps

def tailSlot : Name × Kind → Slot
  | (n, .mutable) => .ref n true
  | (n, _) => .ref n false

theorem specTail_map_borrowOuter (caps : List (Name × Bool)) (s : Store) :
    (specTail caps).map (borrowOuter s) = refs caps := by
  simp [specTail, refs, borrowOuter, Function.comp_def]

theorem specTail_map_tailSlot (caps : List (Name × Bool)) : (specTail caps).map tailSlot = refs caps := by
  simp [specTail, refs, tailSlot, Function.comp_def]

theorem specTail_length (caps : List (Name × Bool)) : (specTail caps).length = (refs caps).length := by
  simp [specTail, refs]

/-! ### positional binding -/

theorem bindGo_args : ∀ (args : List Name) (vs : List Val), args.length = vs.length →
    ∀ (ps : List (Name × Kind)) (xs : List Slot) (fr : Frame), bindGo ps xs = .ok fr →
      bindGo (args.map (·, Kind.arg) ++ ps) (vs.map Slot.val ++ xs) = .ok (argFrame args vs ++ fr)
  | [], [], _, ps, xs, fr, h => by simpa [argFrame] using h
  | [], _ :: _, hl, _, _, _, _ => by simp at hl
  | _ :: _, [], hl, _, _, _, _ => by simp at hl
  | a :: as, v :: vs, hl, ps, xs, fr, h => by
    have ih := bindGo_args as vs (by simpa using hl) ps xs fr h
    simp only [argFrame] at ih
    simp [bindGo, kindOk, coerce, argFrame, ih]

theorem bindGo_names (m : Bool) : ∀ (ns : List Name) (ps : List (Name × Kind)) (xs : List Slot) (fr : Frame),
    bindGo ps xs = .ok fr →
      bindGo (ns.map (·, kindOfMut m) ++ ps) (ns.map (fun n => Slot.ref n m) ++ xs) =
        .ok (ns.map (fun n => (n, Slot.ref n m)) ++ fr)
  | [], ps, xs, fr, h => by simpa using h
  | n :: ns, ps, xs, fr, h => by
    have ih := bindGo_names m ns ps xs fr h
    cases m <;> simp_all [bindGo, kindOk, coerce, kindOfMut]

theorem bindGo_canon (inv : Inv) (vs : List Val) (hv : inv.args.length = vs.length) :
    bindGo (specExpansion inv).params (vs.map Slot.val ++ refs inv.caps) = .ok (canonFrame inv vs) := by
  have h0 : bindGo [] [] = .ok [] := rfl
  have h1 := bindGo_names true (mutOf inv.caps).reverse [] [] [] h0
  have h2 := bindGo_names false (sharedOf inv.caps).reverse _ _ _ h1
  have h3 := bindGo_args inv.args vs hv _ _ _ h2
  simpa [specExpansion, specTail, refs, canonFrame, capFrame, kindOfMut] using h3

theorem bind_canon (inv : Inv) (vs : List Val) :
    bind (specExpansion inv).params (vs.map Slot.val ++ refs inv.caps) =
      if inv.args.length = vs.length then .ok (canonFrame inv vs) else .error .arity := by
  unfold bind
  have hl : ((specExpansion inv).params.length = (vs.map Slot.val ++ refs inv.caps).length) ↔ inv.args.length = vs.length := by
    simp [specExpansion, specTail_length]
  by_cases h : inv.args.length = vs.length
  · rw [if_pos (hl.mpr h), if_pos h, bindGo_canon inv vs h]
  · rw [if_neg (fun h' => h (hl.mp h')), if_neg h]

theorem bindVals_eq : ∀ (args : List Name) (vs : List Val),
    bindVals args vs = if args.length = vs.length then some (args.zip vs) else none
  | [], [] => rfl
  | [], _ :: _ => by simp [bindVals]
  | _ :: _, [] => by simp [bindVals]
  | a :: as, v :: vs => by
    simp only [bindVals, bindVals_eq as vs, List.length_cons, Nat.add_right_cancel_iff, List.zip_cons_cons]
    split <;> simp

/-! ### lookups -/

theorem lookup_iff_mem_of_nodup {β : Type} (l : List (Name × β)) (hn : (l.map (·.1)).Nodup) (n : Name) (b : β) :
    l.lookup n = some b ↔ (n, b) ∈ l := by
  rw [List.lookup_eq_some_iff]
  constructor
  · rintro ⟨l1, l2, rfl, _⟩
    simp
  · intro hm
    obtain ⟨l1, l2, rfl⟩ := List.append_of_mem hm
    refine ⟨l1, l2, rfl, ?_⟩
    intro p hp
    simp only [List.map_append, List.map_cons] at hn
    have := (List.nodup_append.mp hn).2.2 p.1 (List.mem_map_of_mem hp) n (by simp)
    simp only [bne_iff_ne, ne_eq]
    exact fun h => this h.symm

theorem mem_sharedOf (caps : List (Name × Bool)) (n : Name) : n ∈ sharedOf caps ↔ (n, false) ∈ caps := by
  simp [sharedOf]

theorem mem_mutOf (caps : List (Name × Bool)) (n : Name) : n ∈ mutOf caps ↔ (n, true) ∈ caps := by
  simp [mutOf]

theorem capKeys_perm (caps : List (Name × Bool)) :
    ((sharedOf caps).reverse ++ (mutOf caps).reverse).Perm (caps.map (·.1)) := by
  have h := (List.filter_append_perm (fun c : Name × Bool => c.2) caps).map (·.1)
  have h' : ((sharedOf caps).reverse ++ (mutOf caps).reverse).Perm (mutOf caps ++ sharedOf caps) :=
    (List.Perm.append (List.reverse_perm _) (List.reverse_perm _)).trans List.perm_append_comm
  refine h'.trans ?_
  simpa [mutOf, sharedOf] using h

theorem mem_capFrame (caps : List (Name × Bool)) (n : Name) (x : Slot) :
    (n, x) ∈ capFrame caps ↔ ∃ m, (n, m) ∈ caps ∧ x = Slot.ref n m := by
  simp only [capFrame, List.mem_append, List.mem_map, List.mem_reverse, mem_sharedOf, mem_mutOf, Prod.mk.injEq]
  constructor
  · rintro (⟨a, ha, rfl, rfl⟩ | ⟨a, ha, rfl, rfl⟩)
    · exact ⟨false, ha, rfl⟩
    · exact ⟨true, ha, rfl⟩
  · rintro ⟨m, hm, rfl⟩
    cases m
    · exact .inl ⟨n, hm, rfl, rfl⟩
    · exact .inr ⟨n, hm, rfl, rfl⟩

theorem capFrame_keys (caps : List (Name × Bool)) :
    (capFrame caps).map (·.1) = (sharedOf caps).reverse ++ (mutOf caps).reverse := by
  simp [capFrame, Function.comp_def]

theorem lookup_capFrame (caps : List (Name × Bool)) (hn : (caps.map (·.1)).Nodup) (n : Name) :
    (capFrame caps).lookup n = (caps.lookup n).map (fun m => Slot.ref n m) := by
  have hk : ((capFrame caps).map (·.1)).Nodup := by
    rw [capFrame_keys]
    exact (capKeys_perm caps).nodup_iff.mpr hn
  apply Option.ext
  intro x
  rw [lookup_iff_mem_of_nodup _ hk, mem_capFrame, Option.map_eq_some_iff]
  constructor
  · rintro ⟨m, hm, rfl⟩
    exact ⟨m, (lookup_iff_mem_of_nodup _ hn n m).mpr hm, rfl⟩
  · rintro ⟨m, hm, rfl⟩
    exact ⟨m, (lookup_iff_mem_of_nodup _ hn n m).mp hm, rfl⟩

theorem lookup_argFrame (args : List Name) (vs : List Val) (n : Name) :
    (argFrame args vs).lookup n = ((args.zip vs).lookup n).map Slot.val := by
  unfold argFrame
  induction args.zip vs with
  | nil => rfl
  | cons p l ih =>
    obtain ⟨a, v⟩ := p
    simp only [List.map_cons, List.lookup_cons]
    split <;> simp_all

theorem lookup_canon (inv : Inv) (hn : (inv.caps.map (·.1)).Nodup) (vs : List Val) (n : Name) :
    (canonFrame inv vs).lookup n =
      (((inv.args.zip vs).lookup n).map Slot.val).or ((inv.caps.lookup n).map (fun m => Slot.ref n m)) := by
  rw [canonFrame, List.lookup_append, lookup_argFrame, lookup_capFrame _ hn]

theorem lookup_zip_none (args : List Name) (vs : List Val) (n : Name) (h : n ∉ args) :
    (args.zip vs).lookup n = none := by
  rw [List.lookup_eq_none_iff]
  intro p hp
  have : p.1 ∈ args := (List.of_mem_zip (show (p.1, p.2) ∈ args.zip vs from hp)).1
  simp only [bne_iff_ne, ne_eq]
  rintro rfl
  exact h this

/-- In a frame with the right wiring, a captured name denotes the captured variable itself, with the
    declared mutability. -/
theorem lookup_canon_cap (inv : Inv) (hs : Supported inv) (vs : List Val) (n : Name) (m : Bool) (hm : (n, m) ∈ inv.caps) :
    (canonFrame inv vs).lookup n = some (Slot.ref n m) := by
  have hnd := hs.2
  have hcaps : (inv.caps.map (·.1)).Nodup := (List.nodup_append.mp hnd).1
  have hdis : n ∉ inv.args := by
    intro ha
    exact (List.nodup_append.mp hnd).2.2 n (List.mem_map_of_mem (f := (·.1)) hm) n ha rfl
  rw [lookup_canon inv hcaps, lookup_zip_none _ _ _ hdis, (lookup_iff_mem_of_nodup _ hcaps n m).mpr hm]
  rfl

theorem passNames_of_lookup (fr : Frame) (g : Name × Kind → Slot) :
    ∀ (l : List (Name × Kind)), (∀ p ∈ l, fr.lookup p.1 = some (g p)) → passNames fr l = .ok (l.map g)
  | [], _ => rfl
  | (n, k) :: rest, h => by
    have h1 := h (n, k) (by simp)
    have h2 := passNames_of_lookup fr g rest (fun p hp => h p (by simp [hp]))
    simp only at h1
    simp [passNames, h1, h2]

theorem mem_specTail (caps : List (Name × Bool)) (p : Name × Kind) :
    p ∈ specTail caps ↔ ((p.1, false) ∈ caps ∧ p.2 = .shared) ∨ ((p.1, true) ∈ caps ∧ p.2 = .mutable) := by
  obtain ⟨n, k⟩ := p
  simp only [specTail, List.mem_append, List.mem_map, List.mem_reverse, mem_sharedOf, mem_mutOf, Prod.mk.injEq]
  constructor
  · rintro (⟨a, ha, rfl, rfl⟩ | ⟨a, ha, rfl, rfl⟩)
    · exact .inl ⟨ha, rfl⟩
    · exact .inr ⟨ha, rfl⟩
  · rintro (⟨h, rfl⟩ | ⟨h, rfl⟩)
    · exact .inl ⟨n, h, rfl, rfl⟩
    · exact .inr ⟨n, h, rfl, rfl⟩

/-- A recursive call written through the local macro passes on exactly the references the closure
    passed in the first place. -/
theorem passNames_canon (inv : Inv) (hs : Supported inv) (vs : List Val) :
    passNames (canonFrame inv vs) (specTail inv.caps) = .ok (refs inv.caps) := by
  rw [← specTail_map_tailSlot]
  apply passNames_of_lookup
  intro p hp
  rcases (mem_specTail _ p).mp hp with ⟨h, hk⟩ | ⟨h, hk⟩
  · rw [lookup_canon_cap inv hs vs p.1 false h]
    obtain ⟨n, k⟩ := p
    simp only at hk
    subst hk
    rfl
  · rw [lookup_canon_cap inv hs vs p.1 true h]
    obtain ⟨n, k⟩ := p
    simp only at hk
    subst hk
    rfl

/-! ### one activation, then all of them -/

/-- One activation of the generated inner fn in a rightly wired frame behaves like one activation of the
    explicit recursion, provided the callees correspond. -/
theorem run_eq (inv : Inv) (hs : Supported inv) (vs : List Val)
    (cG : List Slot → Store → Res) (cE : List Val → Store → Res)
    (hc : ∀ ws s, cG (ws.map Slot.val ++ refs inv.caps) s = cE ws s) :
    ∀ (body : Body) (s : Store),
      runG (specExpansion inv) cG (canonFrame inv vs) body s = runE inv.caps cE (inv.args.zip vs) body s := by
  have hcaps : (inv.caps.map (·.1)).Nodup := (List.nodup_append.mp hs.2).1
  intro body
  induction body with
  | ret v => intro s; rfl
  | read n k ih =>
    intro s
    simp only [runG, runE, lookup_canon inv hcaps]
    cases (inv.args.zip vs).lookup n with
    | some v => simpa using ih v s
    | none =>
      cases inv.caps.lookup n with
      | none => simp
      | some m => simpa using ih (s n) s
  | write n v k ih =>
    intro s
    simp only [runG, runE, lookup_canon inv hcaps]
    cases (inv.args.zip vs).lookup n with
    | some v => simp
    | none =>
      cases inv.caps.lookup n with
      | none => simp
      | some m =>
        cases m with
        | true => simpa using ih (s.set n v)
        | false => simp
  | call tc ws k ih =>
    intro s
    have hp : passNames (canonFrame inv vs) (specExpansion inv).recCallTail = .ok (refs inv.caps) :=
      passNames_canon inv hs vs
    simp only [runG, runE, expandCall_eq, hp, hc]
    cases cE ws s with
    | error e => rfl
    | ok r => exact ih r.1 r.2

/-- The inner fn called with the closure's references = the explicit recursion. -/
theorem evalG_eq_evalE (inv : Inv) (hs : Supported inv) (body : Body) :
    ∀ (fuel : Nat) (ws : List Val) (s : Store),
      evalG (specExpansion inv) body fuel (ws.map Slot.val ++ refs inv.caps) s = evalE inv body fuel ws s := by
  intro fuel
  induction fuel with
  | zero =>
    intro ws s
    unfold evalG evalE
    rw [bind_canon, bindVals_eq]
    by_cases hl : inv.args.length = ws.length
    · simp only [if_pos hl]
    · simp only [if_neg hl]
  | succ f ih =>
    intro ws s
    unfold evalG evalE
    rw [bind_canon, bindVals_eq]
    by_cases hl : inv.args.length = ws.length
    · simp only [if_pos hl]
      exact run_eq inv hs ws _ _ ih body s
    · simp only [if_neg hl]

theorem mapM_lookup_zip : ∀ (args : List Name) (vs : List Val), args.Nodup → args.length = vs.length →
    args.mapM (fun a => (args.zip vs).lookup a) = some vs := by
  intro args vs hn hl
  -- generalise the frame: any frame that gives `vs[i]` for `args[i]`
  suffices h : ∀ (as : List Name) (ws : List Val) (fr : List (Name × Val)), as.length = ws.length →
      (∀ p ∈ as.zip ws, fr.lookup p.1 = some p.2) → as.mapM (fun a => fr.lookup a) = some ws by
    apply h args vs _ hl
    intro p hp
    have hk : ((args.zip vs).map (·.1)).Nodup := by
      rw [List.map_fst_zip (by omega)]
      exact hn
    exact (lookup_iff_mem_of_nodup _ hk p.1 p.2).mpr hp
  intro as
  induction as with
  | nil =>
    intro ws fr hl _
    cases ws with
    | nil => rfl
    | cons _ _ => simp at hl
  | cons a as ih =>
    intro ws fr hl h
    cases ws with
    | nil => simp at hl
    | cons w ws =>
      have h1 := h (a, w) (by simp)
      have h2 := ih ws fr (by simpa using hl) (fun p hp => h p (by simp [hp]))
      simp only at h1
      simp [List.mapM_cons, h1, h2]

/-- The closure returned by the macro = the explicit recursion. -/
theorem closureG_eq_evalE (inv : Inv) (hs : Supported inv) (body : Body) (fuel : Nat) (vs : List Val) (s : Store) :
    closureG (specExpansion inv) body fuel vs s = evalE inv body fuel vs s := by
  have hargs : inv.args.Nodup := (List.nodup_append.mp hs.2).2.1
  unfold closureG
  simp only [show (specExpansion inv).closureParams = inv.args from rfl,
    show (specExpansion inv).closureCallArgs = inv.args from rfl,
    show (specExpansion inv).closureCallTail = specTail inv.caps from rfl, bindVals_eq]
  by_cases hl : inv.args.length = vs.length
  · rw [if_pos hl]
    simp only [mapM_lookup_zip inv.args vs hargs hl, specTail_map_borrowOuter]
    exact evalG_eq_evalE inv hs body fuel vs s
  · rw [if_neg hl]
    unfold evalE
    rw [bindVals_eq, if_neg hl]

/-! ### the wiring contains every declared capture exactly once -/

theorem specTail_keys (caps : List (Name × Bool)) :
    (specTail caps).map (·.1) = (sharedOf caps).reverse ++ (mutOf caps).reverse := by
  simp [specTail, Function.comp_def]

theorem specTail_perm (caps : List (Name × Bool)) : (specTail caps).Perm (caps.map capParam) := by
  have h := ((List.filter_append_perm (fun c : Name × Bool => c.2) caps).map capParam).symm
  refine List.Perm.trans ?_ h.symm
  rw [List.map_append]
  have hm : (caps.filter (fun c => c.2)).map capParam = (mutOf caps).map (·, Kind.mutable) := by
    simp only [mutOf, List.map_map]
    apply List.map_congr_left
    intro c hc
    have : c.2 = true := by simpa using (List.mem_filter.mp hc).2
    simp [capParam, kindOfMut, this]
  have hsh : (caps.filter (fun c => !c.2)).map capParam = (sharedOf caps).map (·, Kind.shared) := by
    simp only [sharedOf, List.map_map]
    apply List.map_congr_left
    intro c hc
    have : c.2 = false := by simpa using (List.mem_filter.mp hc).2
    simp [capParam, kindOfMut, this]
  rw [hm, hsh, specTail]
  refine List.Perm.trans ?_ List.perm_append_comm
  exact List.Perm.append ((List.reverse_perm _).map _) ((List.reverse_perm _).map _)

theorem iter_add' (m n : Nat) (st : St) : iter (m + n) st = (iter m st).bind (iter n) := by
  induction m generalizing st with
  | zero => simp [iter]
  | succ m ih =>
    rw [Nat.add_right_comm]
    simp only [iter]
    cases step st with
    | none => rfl
    | some st1 => simpa using ih st1

/-! ### name resolution -/

theorem mem_specParams (inv : Inv) (x : Name) :
    x ∈ (specExpansion inv).params.map (·.1) ↔ x ∈ inv.args ++ inv.caps.map (·.1) := by
  show x ∈ (inv.args.map (·, Kind.arg) ++ specTail inv.caps).map (·.1) ↔ _
  rw [List.map_append, specTail_keys, List.map_map]
  have : ((fun x : Name × Kind => x.1) ∘ fun x : Name => (x, Kind.arg)) = id := rfl
  rw [this, List.map_id]
  have hk := (capKeys_perm inv.caps).mem_iff (a := x)
  simp only [List.mem_append] at hk ⊢
  rw [hk]

theorem resolveG_spec (inv : Inv) (hidden : Name) (locals : List Name) (x : Name) (hx : x ≠ hidden) :
    resolveG hidden (specExpansion inv) locals x = resolveE inv locals x := by
  unfold resolveG resolveE
  by_cases h1 : x ∈ locals
  · simp [h1]
  · by_cases h2 : x ∈ inv.args ++ inv.caps.map (·.1)
    · rw [if_neg h1, if_neg h1, if_pos ((mem_specParams inv x).mpr h2), if_pos h2]
    · rw [if_neg h1, if_neg h1, if_neg (fun h => h2 ((mem_specParams inv x).mp h)), if_neg h2, if_neg hx]

/-! ### Histories (long-running use) -/

theorem histG_eq_histE (ls : List Live) (h : ∀ l ∈ ls, Supported l.inv) :
    ∀ (evs : List Event) (s : Store), histG ls evs s = histE ls evs s := by
  intro evs
  induction evs with
  | nil => intro s; rfl
  | cons ev evs ih =>
    intro s
    obtain ⟨i, vs⟩ := ev
    simp only [histG, histE]
    cases hl : ls[i]? with
    | none => rfl
    | some l =>
      have hs : Supported l.inv := h l (List.mem_of_getElem? hl)
      simp only [expand_eq l.inv hs.1, closureG_eq_evalE l.inv hs l.body l.fuel vs s]
      cases evalE l.inv l.body l.fuel vs s with
      | error e => rfl
      | ok r => simp only [ih]

theorem histThen_ok_nil (s : Store) (h₂ : Store → Except Err (List Val × Store)) :
    histThen (.ok ([], s)) h₂ = h₂ s := by
  cases hh : h₂ s with
  | error e => simp [histThen, hh]
  | ok r => simp [histThen, hh]

theorem histThen_cons (v : Val) (r : Except Err (List Val × Store)) (h₂ : Store → Except Err (List Val × Store)) :
    histThen (match r with | .error e => .error e | .ok (rs, sf) => .ok (v :: rs, sf)) h₂ =
      (match histThen r h₂ with | .error e => .error e | .ok (rs, sf) => .ok (v :: rs, sf)) := by
  cases r with
  | error e => simp [histThen]
  | ok p =>
    obtain ⟨rs, sf⟩ := p
    cases hh : h₂ sf with
    | error e => simp [histThen, hh]
    | ok q => simp [histThen, hh]

theorem histG_append (ls : List Live) (evs₂ : List Event) :
    ∀ (evs₁ : List Event) (s : Store), histG ls (evs₁ ++ evs₂) s = histThen (histG ls evs₁ s) (histG ls evs₂) := by
  intro evs₁
  induction evs₁ with
  | nil => intro s; rw [List.nil_append]; exact (histThen_ok_nil s _).symm
  | cons ev evs ih =>
    intro s
    obtain ⟨i, vs⟩ := ev
    simp only [List.cons_append, histG]
    cases h1 : ls[i]? with
    | none => simp [histThen]
    | some l =>
      cases h2 : expand l.inv with
      | none => simp [histThen, h2]
      | some e =>
        cases h3 : closureG e l.body l.fuel vs s with
        | error er => simp [histThen, h2, h3]
        | ok r =>
          obtain ⟨v, s'⟩ := r
          simp only [h2, h3, ih]
          exact (histThen_cons v _ _).symm

theorem histE_append (ls : List Live) (evs₂ : List Event) :
    ∀ (evs₁ : List Event) (s : Store), histE ls (evs₁ ++ evs₂) s = histThen (histE ls evs₁ s) (histE ls evs₂) := by
  intro evs₁
  induction evs₁ with
  | nil => intro s; rw [List.nil_append]; exact (histThen_ok_nil s _).symm
  | cons ev evs ih =>
    intro s
    obtain ⟨i, vs⟩ := ev
    simp only [List.cons_append, histE]
    cases h1 : ls[i]? with
    | none => simp [histThen]
    | some l =>
      cases h3 : evalE l.inv l.body l.fuel vs s with
      | error er => simp [histThen, h3]
      | ok r =>
        obtain ⟨v, s'⟩ := r
        simp only [h3, ih]
        exact (histThen_cons v _ _).symm

end Rlib.Lambda
