import RlibModel.Model.Iter
/-!
Helper lemmas for the mask iterators of C15 (`masks.rs`): bit-level step lemmas.
Core Lean only.
-/
namespace Rlib.Iter

theorem and_mod_two (a b : Nat) : (a &&& b) % 2 = (a % 2) * (b % 2) := by
  have := @Nat.and_mod_two_pow a b 1
  simp at this
  rw [this]
  have ha : a % 2 = 0 ∨ a % 2 = 1 := by omega
  have hb : b % 2 = 0 ∨ b % 2 = 1 := by omega
  rcases ha with h | h <;> rcases hb with h' | h' <;> simp [h, h']

/-- Predecessor among submasks: `(s - 1) &&& x` is at least every submask of `x` below `s`. -/
theorem submask_step_aux : ∀ (s x : Nat), s ≠ 0 → s &&& x = s →
    ∀ u, u &&& x = u → u < s → u ≤ (s - 1) &&& x := by
  intro s
  induction s using Nat.strongRecOn with
  | _ s ih =>
    intro x hs hsx u hux hus
    have hs2 := Nat.div_add_mod s 2
    have hx2 := Nat.div_add_mod x 2
    have hu2 := Nat.div_add_mod u 2
    have hsx1 := and_mod_two s x
    have hsx2 := @Nat.and_div_two s x
    have hux1 := and_mod_two u x
    have hux2 := @Nat.and_div_two u x
    rw [hsx] at hsx1 hsx2; rw [hux] at hux1 hux2
    have ht1 := and_mod_two (s-1) x
    have ht2 := @Nat.and_div_two (s-1) x
    have htd := Nat.div_add_mod ((s-1) &&& x) 2
    rcases Nat.mod_two_eq_zero_or_one s with h | h
    · -- s even, s = 2 s', s' ≠ 0
      have hs' : s / 2 ≠ 0 := by omega
      have hlt : s / 2 < s := by omega
      have e1 : (s - 1) / 2 = s / 2 - 1 := by omega
      have e2 : (s - 1) % 2 = 1 := by omega
      have := ih (s/2) hlt (x/2) hs' hsx2.symm (u/2) hux2.symm (by omega)
      rw [e1] at ht2; rw [e2] at ht1
      rw [← ht2] at this
      have hb : u % 2 ≤ x % 2 := by
        have hx : x % 2 = 0 ∨ x % 2 = 1 := by omega
        rcases hx with hx | hx <;> simp [hx] at hux1 <;> omega
      simp at ht1
      omega
    · -- s odd: (s-1) &&& x = s - 1 ≥ u
      have hx1 : x % 2 = 1 := by
        have hx : x % 2 = 0 ∨ x % 2 = 1 := by omega
        rcases hx with hx | hx <;> simp [h, hx] at hsx1 <;> omega
      have e1 : (s - 1) / 2 = s / 2 := by omega
      have e2 : (s - 1) % 2 = 0 := by omega
      rw [e1, ← hsx2] at ht2; rw [e2] at ht1
      simp at ht1
      omega

theorem or_mod_two (a b : Nat) : (a ||| b) % 2 = a % 2 + b % 2 - (a % 2) * (b % 2) := by
  have := @Nat.or_mod_two_pow a b 1
  simp at this
  rw [this]
  have ha : a % 2 = 0 ∨ a % 2 = 1 := by omega
  have hb : b % 2 = 0 ∨ b % 2 = 1 := by omega
  rcases ha with h | h <;> rcases hb with h' | h' <;> simp [h, h']

/-- `a ⊆ b` ⇒ `b ∪ a = b`. -/
theorem or_eq_of_and_eq {a b : Nat} (h : a &&& b = a) : b ||| a = b := by
  apply Nat.eq_of_testBit_eq
  intro i
  have := congrArg (fun z => z.testBit i) h
  simp only [Nat.testBit_and] at this
  rw [Nat.testBit_or]
  cases ha : a.testBit i <;> cases hb : b.testBit i <;> simp [ha, hb] at this ⊢

theorem and_or_self_right (x a : Nat) : x &&& (a ||| x) = x := by
  apply Nat.eq_of_testBit_eq
  intro i
  rw [Nat.testBit_and, Nat.testBit_or]
  cases x.testBit i <;> cases a.testBit i <;> rfl

/-- `a ⊆ x` bit by bit. -/
theorem and_eq_iff (a x : Nat) : a &&& x = a ↔ (a / 2 &&& x / 2 = a / 2) ∧ (a % 2) * (x % 2) = a % 2 := by
  have h1 := and_mod_two a x
  have h2 := @Nat.and_div_two a x
  constructor
  · intro h
    rw [h] at h1 h2
    exact ⟨h2.symm, h1.symm⟩
  · intro ⟨ha, hb⟩
    have := Nat.div_add_mod (a &&& x) 2
    have := Nat.div_add_mod a 2
    rw [ha] at h2; rw [hb] at h1
    omega

/-- Successor among supermasks: `(s + 1) ||| x` is at most every supermask of `x` above `s`. -/
theorem supermask_step_aux : ∀ (s x : Nat), x &&& s = x →
    ∀ u, x &&& u = x → s < u → (s + 1) ||| x ≤ u := by
  intro s
  induction s using Nat.strongRecOn with
  | _ s ih =>
    intro x hxs u hxu hsu
    have hxs' := (and_eq_iff x s).mp hxs
    have hxu' := (and_eq_iff x u).mp hxu
    have ht1 := or_mod_two (s + 1) x
    have ht2 := @Nat.or_div_two (s + 1) x
    have htd := Nat.div_add_mod ((s + 1) ||| x) 2
    have hs2 := Nat.div_add_mod s 2
    have hu2 := Nat.div_add_mod u 2
    have hx01 : x % 2 = 0 ∨ x % 2 = 1 := by omega
    have hu01 : u % 2 = 0 ∨ u % 2 = 1 := by omega
    rcases Nat.mod_two_eq_zero_or_one s with h | h
    · -- s even: (s+1) ||| x = s + 1
      have e1 : (s + 1) / 2 = s / 2 := by omega
      have e2 : (s + 1) % 2 = 1 := by omega
      rw [e1, or_eq_of_and_eq hxs'.1] at ht2
      rw [e2] at ht1
      have : ((s + 1) ||| x) % 2 = 1 := by
        rcases hx01 with hx | hx <;> rw [hx] at ht1 <;> omega
      omega
    · -- s odd: carry into the upper bits
      have e1 : (s + 1) / 2 = s / 2 + 1 := by omega
      have e2 : (s + 1) % 2 = 0 := by omega
      have hlt : s / 2 < s := by omega
      have := ih (s / 2) hlt (x / 2) hxs'.1 (u / 2) hxu'.1 (by omega)
      rw [e1] at ht2; rw [e2] at ht1
      rw [← ht2] at this
      have hb : x % 2 ≤ u % 2 := by
        have := hxu'.2
        rcases hx01 with hx | hx <;> rcases hu01 with hu | hu <;> simp [hx, hu] at this ⊢
      simp at ht1
      omega

/-! ### strictly sorted lists are determined by their members -/

theorem sorted_ext : ∀ (l1 l2 : List Nat), l1.Pairwise (· < ·) → l2.Pairwise (· < ·) →
    (∀ a, a ∈ l1 ↔ a ∈ l2) → l1 = l2 := by
  intro l1
  induction l1 with
  | nil =>
    intro l2 _ _ h
    cases l2 with
    | nil => rfl
    | cons b t => exact absurd ((h b).mpr (List.mem_cons_self ..)) (by simp)
  | cons a t1 ih =>
    intro l2 h1 h2 h
    cases l2 with
    | nil => exact absurd ((h a).mp (List.mem_cons_self ..)) (by simp)
    | cons b t2 =>
      rw [List.pairwise_cons] at h1 h2
      have hab : a = b := by
        have ha := (h a).mp (List.mem_cons_self ..)
        have hb := (h b).mpr (List.mem_cons_self ..)
        rcases List.mem_cons.mp ha with e | ha'
        · exact e
        · rcases List.mem_cons.mp hb with e | hb'
          · exact e.symm
          · have := h1.1 b hb'; have := h2.1 a ha'; omega
      subst hab
      congr 1
      apply ih t2 h1.2 h2.2
      intro c
      constructor
      · intro hc
        have := (h c).mp (List.mem_cons_of_mem _ hc)
        rcases List.mem_cons.mp this with e | h'
        · have := h1.1 c hc; omega
        · exact h'
      · intro hc
        have := (h c).mpr (List.mem_cons_of_mem _ hc)
        rcases List.mem_cons.mp this with e | h'
        · have := h2.1 c hc; omega
        · exact h'

/-! ### `iter_submasks` -/

theorem isSubmask_iff (s x : Nat) : isSubmask s x = true ↔ s &&& x = s := by
  unfold isSubmask; exact beq_iff_eq

theorem filter_range_skip (p : Nat → Bool) (a b : Nat) (hab : a ≤ b)
    (hnone : ∀ u, a ≤ u → u < b → p u = false) :
    (List.range b).reverse.filter p = (List.range a).reverse.filter p := by
  induction hab with
  | refl => rfl
  | @step b hab ih =>
    rw [List.range_succ, List.reverse_append, List.reverse_singleton, List.singleton_append,
      List.filter_cons_of_neg (by rw [hnone b hab (by omega)]; simp)]
    exact ih (fun u h1 h2 => hnone u h1 (by omega))

theorem submasksFrom_eq (w s x : Nat) : submasksFrom w s x =
    if s = 0 then [] else s :: submasksFrom w (wrappingSub1 w s &&& x) x := by
  rw [submasksFrom]
  split
  · rename_i h
    unfold nextSubmask at h
    split at h
    · rename_i hs; rw [if_pos hs]
    · cases h
  · rename_i cur s' h
    unfold nextSubmask at h
    split at h
    · cases h
    · rename_i hs
      simp only [Option.some.injEq, Prod.mk.injEq] at h
      rw [if_neg hs, ← h.1, ← h.2]

theorem supermasksFrom_eq (w s x : Nat) : supermasksFrom w s x =
    if countZeros w s = 0 then [] else s :: supermasksFrom w (wrappingAdd1 w s ||| x) x := by
  rw [supermasksFrom]
  split
  · rename_i h
    unfold nextSupermask at h
    split at h
    · rename_i hs; rw [if_pos hs]
    · cases h
  · rename_i cur s' h
    unfold nextSupermask at h
    split at h
    · cases h
    · rename_i hs
      simp only [Option.some.injEq, Prod.mk.injEq] at h
      rw [if_neg hs, ← h.1, ← h.2]

theorem submasksFrom_spec (w x : Nat) : ∀ s, s < 2 ^ w → s &&& x = s →
    submasksFrom w s x ++ [0] = (List.range (s + 1)).reverse.filter (fun u => isSubmask u x) := by
  intro s
  induction s using Nat.strongRecOn with
  | _ s ih =>
    intro hsw hsx
    by_cases hs : s = 0
    · subst hs
      rw [submasksFrom_eq]
      simp [isSubmask]
    · have hstep : wrappingSub1 w s &&& x = (s - 1) &&& x := by
        unfold wrappingSub1; rw [if_neg hs, pow2_eq, Nat.mod_eq_of_lt (by omega)]
      have hle : (s - 1) &&& x ≤ s - 1 := Nat.and_le_left
      have e : submasksFrom w s x = s :: submasksFrom w ((s - 1) &&& x) x := by
        rw [submasksFrom_eq, if_neg hs, hstep]
      have hR : (List.range (s + 1)).reverse.filter (fun u => isSubmask u x)
          = s :: (List.range s).reverse.filter (fun u => isSubmask u x) := by
        rw [List.range_succ, List.reverse_append, List.reverse_singleton, List.singleton_append,
          List.filter_cons_of_pos (p := fun u => isSubmask u x) ((isSubmask_iff s x).mpr hsx)]
      rw [e, List.cons_append,
        ih ((s - 1) &&& x) (by omega) (by omega) (by rw [Nat.and_assoc, Nat.and_self]), hR]
      congr 1
      symm
      apply filter_range_skip _ _ _ (by omega)
      intro u h1 h2
      cases hu : isSubmask u x with
      | false => rfl
      | true =>
        have := submask_step_aux s x hs hsx u ((isSubmask_iff u x).mp hu) h2
        omega

/-! ### `iter_supermasks` -/

theorem filter_range'_skip (p : Nat → Bool) (c a b : Nat) (hab : a ≤ b) (hbc : b ≤ c)
    (hnone : ∀ u, a ≤ u → u < b → p u = false) :
    (List.range' a (c - a)).filter p = (List.range' b (c - b)).filter p := by
  induction hab with
  | refl => rfl
  | @step b hab ih =>
    rw [ih (by omega) (fun u h1 h2 => hnone u h1 (by omega))]
    have : c - b = (c - (b + 1)) + 1 := by omega
    rw [this, List.range'_succ, List.filter_cons_of_neg (by rw [hnone b hab (by omega)]; simp)]

theorem submask_ones {x w : Nat} (hx : x < 2 ^ w) : x &&& ones w = x := by
  unfold ones; rw [pow2_eq, Nat.and_two_pow_sub_one_eq_mod, Nat.mod_eq_of_lt hx]

theorem supermasksFrom_spec (w x : Nat) (hx : x < 2 ^ w) : ∀ k s, ones w - s = k → s < 2 ^ w → x &&& s = x →
    supermasksFrom w s x ++ [ones w] = (List.range' s (2 ^ w - s)).filter (fun u => isSubmask x u) := by
  intro k
  induction k using Nat.strongRecOn with
  | _ k ih =>
    intro s hk hsw hxs
    have hpos : 0 < 2 ^ w := Nat.two_pow_pos w
    have hcz : countZeros w s = 0 ↔ s = ones w := by
      rw [countZeros_eq_zero_iff, Nat.mod_eq_of_lt hsw]
    by_cases hs' : s = ones w
    · have hs := hcz.mpr hs'
      rw [supermasksFrom_eq, if_pos hs]
      have : 2 ^ w - s = 1 := by rw [hs']; unfold ones; rw [pow2_eq]; omega
      rw [this]
      simp only [List.range'_one, List.nil_append]
      rw [List.filter_cons_of_pos (by rw [hs']; exact (isSubmask_iff _ _).mpr (submask_ones hx))]
      simp [hs']
    · have hs : ¬ countZeros w s = 0 := fun h => hs' (hcz.mp h)
      have hs1 : s + 1 < 2 ^ w := by unfold ones at hs'; rw [pow2_eq] at hs'; omega
      have hstep : wrappingAdd1 w s ||| x = (s + 1) ||| x := by
        unfold wrappingAdd1; rw [pow2_eq, Nat.mod_eq_of_lt hs1]
      have hge : s + 1 ≤ (s + 1) ||| x := Nat.left_le_or
      have hlt : (s + 1) ||| x < 2 ^ w := Nat.or_lt_two_pow hs1 hx
      have e : supermasksFrom w s x = s :: supermasksFrom w ((s + 1) ||| x) x := by
        rw [supermasksFrom_eq, if_neg hs, hstep]
      rw [e, List.cons_append,
        ih (ones w - ((s + 1) ||| x)) (by unfold ones at hk ⊢; rw [pow2_eq] at hk ⊢; omega) ((s + 1) ||| x) rfl hlt
          (and_or_self_right x (s + 1))]
      have : 2 ^ w - s = (2 ^ w - (s + 1)) + 1 := by omega
      rw [this, List.range'_succ, List.filter_cons_of_pos (p := fun u => isSubmask x u) ((isSubmask_iff x s).mpr hxs)]
      congr 1
      symm
      apply filter_range'_skip _ _ _ _ hge (by omega)
      intro u h1 h2
      cases hu : isSubmask x u with
      | false => rfl
      | true =>
        have := supermask_step_aux s x hxs u ((isSubmask_iff x u).mp hu) (by omega)
        omega

/-! ### the bit-by-bit enumerations `subsAsc`, `supsAsc` -/

theorem subsAsc_eq (x : Nat) : subsAsc x =
    if x = 0 then [0]
    else if x % 2 = 1 then (subsAsc (x / 2)).flatMap (fun s => [2 * s, 2 * s + 1])
    else (subsAsc (x / 2)).map (fun s => 2 * s) := by
  rw [subsAsc]
  split <;> rfl

theorem subsAsc_mem : ∀ x a, a ∈ subsAsc x ↔ a &&& x = a := by
  intro x
  induction x using Nat.strongRecOn with
  | _ x ih =>
    intro a
    rw [subsAsc_eq]
    by_cases hx : x = 0
    · subst hx; simp [eq_comm]
    · rw [if_neg hx, and_eq_iff a x]
      have iha := ih (x / 2) (by omega) (a / 2)
      have ha01 : a % 2 = 0 ∨ a % 2 = 1 := by omega
      by_cases h1 : x % 2 = 1
      · rw [if_pos h1, h1, Nat.mul_one, List.mem_flatMap]
        constructor
        · rintro ⟨s, hs, ha⟩
          have : a / 2 = s := by
            simp only [List.mem_cons, List.not_mem_nil, or_false] at ha
            omega
          rw [this]
          exact ⟨(ih (x / 2) (by omega) s).mp hs, rfl⟩
        · rintro ⟨h, _⟩
          refine ⟨a / 2, iha.mpr h, ?_⟩
          simp only [List.mem_cons, List.not_mem_nil, or_false]
          omega
      · have h0 : x % 2 = 0 := by omega
        rw [if_neg h1, h0, Nat.mul_zero, List.mem_map]
        constructor
        · rintro ⟨s, hs, ha⟩
          have : a / 2 = s := by omega
          rw [this]
          exact ⟨(ih (x / 2) (by omega) s).mp hs, by omega⟩
        · rintro ⟨h, h'⟩
          exact ⟨a / 2, iha.mpr h, by omega⟩

theorem pairwise_double {r : List Nat} (h : r.Pairwise (· < ·)) :
    (r.flatMap (fun s => [2 * s, 2 * s + 1])).Pairwise (· < ·) := by
  rw [List.pairwise_flatMap]
  refine ⟨fun a _ => by simp, h.imp ?_⟩
  intro a b hab u hu v hv
  simp only [List.mem_cons, List.not_mem_nil, or_false] at hu hv
  omega

theorem subsAsc_sorted : ∀ x, (subsAsc x).Pairwise (· < ·) := by
  intro x
  induction x using Nat.strongRecOn with
  | _ x ih =>
    rw [subsAsc_eq]
    by_cases hx : x = 0
    · rw [if_pos hx]; simp
    · rw [if_neg hx]
      have := ih (x / 2) (by omega)
      split
      · exact pairwise_double this
      · exact this.map _ (fun a b h => by omega)

/-- The fast enumeration is the by-definition one (ascending). -/
theorem subsAsc_spec (x : Nat) : subsAsc x = (List.range (x + 1)).filter (fun s => isSubmask s x) := by
  apply sorted_ext _ _ (subsAsc_sorted x) (List.pairwise_lt_range.filter _)
  intro a
  rw [subsAsc_mem, List.mem_filter, List.mem_range, isSubmask_iff]
  constructor
  · intro h
    have : a &&& x ≤ x := Nat.and_le_right
    exact ⟨by omega, h⟩
  · exact fun h => h.2

theorem supsAsc_mem : ∀ w x a, x < 2 ^ w → (a ∈ supsAsc w x ↔ a < 2 ^ w ∧ x &&& a = x) := by
  intro w
  induction w with
  | zero =>
    intro x a hx
    have : x = 0 := by omega
    subst this
    simp [supsAsc]
  | succ w ih =>
    intro x a hx
    have hx2 : x / 2 < 2 ^ w := by rw [Nat.pow_succ] at hx; omega
    have iha := ih (x / 2) (a / 2) hx2
    have hpow : 2 ^ (w + 1) = 2 * 2 ^ w := by rw [Nat.pow_succ]; omega
    rw [and_eq_iff x a, hpow]
    simp only [supsAsc]
    by_cases h1 : x % 2 = 1
    · rw [if_pos h1, h1, Nat.one_mul, List.mem_map]
      constructor
      · rintro ⟨s, hs, ha⟩
        have e : a / 2 = s := by omega
        have := (ih (x / 2) s hx2).mp hs
        rw [e]
        exact ⟨by omega, this.2, by omega⟩
      · rintro ⟨h, h', h''⟩
        exact ⟨a / 2, iha.mpr ⟨by omega, h'⟩, by omega⟩
    · have h0 : x % 2 = 0 := by omega
      rw [if_neg h1, h0, Nat.zero_mul, List.mem_flatMap]
      constructor
      · rintro ⟨s, hs, ha⟩
        have e : a / 2 = s := by
          simp only [List.mem_cons, List.not_mem_nil, or_false] at ha
          omega
        have := (ih (x / 2) s hx2).mp hs
        rw [e]
        exact ⟨by omega, this.2, rfl⟩
      · rintro ⟨h, h', _⟩
        refine ⟨a / 2, iha.mpr ⟨by omega, h'⟩, ?_⟩
        simp only [List.mem_cons, List.not_mem_nil, or_false]
        omega

theorem supsAsc_sorted : ∀ w x, (supsAsc w x).Pairwise (· < ·) := by
  intro w
  induction w with
  | zero => intro x; simp [supsAsc]
  | succ w ih =>
    intro x
    simp only [supsAsc]
    split
    · exact (ih (x / 2)).map _ (fun a b h => by omega)
    · exact pairwise_double (ih (x / 2))

/-- The fast enumeration is the by-definition one. -/
theorem supsAsc_spec (w x : Nat) (hx : x < 2 ^ w) : supsAsc w x = specSupermasks w x := by
  apply sorted_ext _ _ (supsAsc_sorted w x) (List.pairwise_lt_range.filter _)
  intro a
  rw [supsAsc_mem w x a hx, List.mem_filter, List.mem_range, isSubmask_iff]

end Rlib.Iter
