import RlibModel.Lemmas.ReaderOps
/-!
C08 lemmas, part 4: the event list built from a delivery schedule delivers exactly the data.
-/
set_option linter.unusedSimpArgs false
namespace Rlib.Reader

theorem srcBytes_append : ∀ (l₁ l₂ : List Event), srcBytes (l₁ ++ l₂) = srcBytes l₁ ++ srcBytes l₂ := by
  intro l₁
  induction l₁ with
  | nil => intro l₂; rfl
  | cons ev t ih =>
    intro l₂
    cases ev with
    | data bs => simp [srcBytes, ih]
    | intr => simp [srcBytes, ih]

theorem SrcOk_append : ∀ (l₁ l₂ : List Event), SrcOk l₁ → SrcOk l₂ → SrcOk (l₁ ++ l₂) := by
  intro l₁
  induction l₁ with
  | nil => intro l₂ _ h; exact h
  | cons ev t ih =>
    intro l₂ h₁ h₂
    cases ev with
    | data bs => exact ⟨h₁.1, ih l₂ h₁.2 h₂⟩
    | intr => exact ih l₂ h₁ h₂

theorem pushN_spec (ev : Event) : ∀ (n : Nat) (acc : Array Event), (pushN acc ev n).toList = acc.toList ++ List.replicate n ev := by
  intro n
  induction n with
  | zero => intro acc; simp [pushN]
  | succ n ih => intro acc; simp [pushN, ih, List.replicate_succ]

theorem srcBytes_replicate_intr : ∀ n, srcBytes (List.replicate n .intr) = [] ∧ SrcOk (List.replicate n .intr) := by
  intro n
  induction n with
  | zero => simp [srcBytes, SrcOk]
  | succ n ih => simp [List.replicate_succ, srcBytes, SrcOk, ih]

theorem chunkN_spec (k : Nat) (hk : 0 < k) : ∀ (n : Nat) (data : List UInt8) (acc : Array Event), SrcOk acc.toList →
    srcBytes (chunkN k n data acc).2.toList ++ (chunkN k n data acc).1 = srcBytes acc.toList ++ data ∧
    SrcOk (chunkN k n data acc).2.toList := by
  intro n
  induction n with
  | zero => intro data acc h; exact ⟨rfl, h⟩
  | succ n ih =>
    intro data acc h
    simp only [chunkN]
    by_cases he : data.isEmpty = true
    · rw [if_pos he]; exact ⟨rfl, h⟩
    · rw [if_neg he]
      have hne : data ≠ [] := by intro h0; rw [h0] at he; simp at he
      have htake : data.take k ≠ [] := by
        intro h0
        rcases List.take_eq_nil_iff.mp h0 with h1 | h1
        · omega
        · exact hne h1
      have hok : SrcOk (acc.push (.data (data.take k))).toList := by
        rw [Array.toList_push]
        exact SrcOk_append _ _ h ⟨htake, trivial⟩
      obtain ⟨i1, i2⟩ := ih (data.drop k) (acc.push (.data (data.take k))) hok
      refine ⟨?_, i2⟩
      rw [i1, Array.toList_push, srcBytes_append]
      simp [srcBytes, List.append_assoc]

/-- The event list built from a schedule whose chunk sizes are positive is well-formed and delivers exactly `data`. -/
theorem mkEvents_spec : ∀ (sched : Sched) (data : List UInt8) (acc : Array Event),
    (∀ k n, (some k, n) ∈ sched → 0 < k) → SrcOk acc.toList →
    srcBytes (mkEvents sched data acc) = srcBytes acc.toList ++ data ∧ SrcOk (mkEvents sched data acc) := by
  intro sched
  induction sched with
  | nil =>
    intro data acc _ h
    simp only [mkEvents]
    by_cases he : data.isEmpty = true
    · have : data = [] := List.isEmpty_iff.mp he
      simp [he, this, h]
    · have hne : data ≠ [] := by intro h0; rw [h0] at he; simp at he
      simp only [he, Bool.false_eq_true, if_false, Array.toList_push]
      exact ⟨by rw [srcBytes_append]; simp [srcBytes], SrcOk_append _ _ h ⟨hne, trivial⟩⟩
  | cons it t ih =>
    intro data acc hpos h
    have hpos' : ∀ k n, (some k, n) ∈ t → 0 < k := fun k n hm => hpos k n (List.mem_cons_of_mem _ hm)
    obtain ⟨kind, n⟩ := it
    cases kind with
    | none =>
      simp only [mkEvents]
      have hok : SrcOk (pushN acc .intr n).toList := by
        rw [pushN_spec]; exact SrcOk_append _ _ h (srcBytes_replicate_intr n).2
      obtain ⟨i1, i2⟩ := ih data (pushN acc .intr n) hpos' hok
      refine ⟨?_, i2⟩
      rw [i1, pushN_spec, srcBytes_append, (srcBytes_replicate_intr n).1]; simp
    | some k =>
      simp only [mkEvents]
      have hk : 0 < k := hpos k n List.mem_cons_self
      obtain ⟨c1, c2⟩ := chunkN_spec k hk n data acc h
      obtain ⟨i1, i2⟩ := ih (chunkN k n data acc).1 (chunkN k n data acc).2 hpos' c2
      exact ⟨by rw [i1, c1], i2⟩

end Rlib.Reader
