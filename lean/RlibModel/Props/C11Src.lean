import RlibModel.Props.C11
import RlibModel.Lemmas.GcdSrc
/-
C11, second tie: theorems about the definitions REGENERATED from the Rust source text on every run.
Kept in their own module so that a source the translator cannot read (or an equivalence proof that no longer goes
through) leaves the property theorems of Props/C11.lean — and their audit — untouched; `./check` then decides
between `second tie unavailable` (translator subset; the correspondence tie still stands) and a broken obligation.
-/
namespace Rlib.C11
open Rlib.Gcd

/-! ## The model regenerated from the source text equals the hand-written model

`GcdSrc.*` take the recursion budget `fuel` as first argument (loops and recursion are structural on it; running out
is `.error .fuel`).  The hypotheses give an explicit sufficient budget; with it the budget never runs out. -/

/-- Source-derived `gcd` = model `gcd` (never a panic), for every budget `≥ |b| + 1`. -/
theorem src_gcd_eq_model (fuel : Nat) (a b : Int) (h : b.natAbs + 1 ≤ fuel) :
    Rlib.GcdSrc.gcd fuel a b = .ok (gcd a b) := Rlib.GcdSrc.gcd_eq_model fuel a b h

/-- Source-derived `lcm` = model `lcm` — the value, or the same `divzero` panic for `(0, 0)`. -/
theorem src_lcm_eq_model (fuel : Nat) (a b : Int) (h : b.natAbs + 1 ≤ fuel) :
    Rlib.GcdSrc.lcm fuel a b = lcm a b := Rlib.GcdSrc.lcm_eq_model fuel a b h

/-- Source-derived `egcd` = model `egcd` (pair, `none`, or the same panic), for every budget `≥ |a| + 1`. -/
theorem src_egcd_eq_model (fuel : Nat) (a b c : Int) (h : a.natAbs + 1 ≤ fuel) :
    Rlib.GcdSrc.egcd fuel a b c = egcd a b c := Rlib.GcdSrc.egcd_eq_model fuel a b c h

/-- Source-derived `crt` = model `crt`, for every budget `≥ max(|m1|, |m2|) + 1`. -/
theorem src_crt_eq_model (fuel : Nat) (a1 m1 a2 m2 : Int) (h1 : m1.natAbs + 1 ≤ fuel) (h2 : m2.natAbs + 1 ≤ fuel) :
    Rlib.GcdSrc.crt fuel a1 m1 a2 m2 = crt a1 m1 a2 m2 := Rlib.GcdSrc.crt_eq_model fuel a1 m1 a2 m2 h1 h2

/-- The property, stated directly about the definitions regenerated from the source: `gcd` … -/
theorem src_gcd_spec (fuel : Nat) (a b : Int) (h : b.natAbs + 1 ≤ fuel) :
    Rlib.GcdSrc.gcd fuel a b = .ok (Int.gcd a b : Int) := by
  rw [src_gcd_eq_model fuel a b h, gcd_spec]

/-- … `lcm` … -/
theorem src_lcm_spec (fuel : Nat) (a b : Int) (h : b.natAbs + 1 ≤ fuel) :
    Rlib.GcdSrc.lcm fuel a b = if a = 0 ∧ b = 0 then .error .divzero else .ok (Int.lcm a b : Int) := by
  rw [src_lcm_eq_model fuel a b h, lcm_spec]

/-- … the linear solver: never an error for `(a, b) ≠ (0, 0)`, `none` exactly when `gcd(a,b) ∤ c`, and a returned pair
    solves the equation … -/
theorem src_egcd_spec (fuel : Nat) (a b c : Int) (h : a.natAbs + 1 ≤ fuel) (hab : ¬(a = 0 ∧ b = 0)) :
    ∃ r, Rlib.GcdSrc.egcd fuel a b c = .ok r ∧ (r = none ↔ ¬ (Int.gcd a b : Int) ∣ c) ∧
      ∀ x y, r = some (x, y) → a * x + b * y = c := by
  obtain ⟨r, hr, hn⟩ := egcd_complete a b c hab
  refine ⟨r, by rw [src_egcd_eq_model fuel a b c h, hr], hn, ?_⟩
  intro x y hxy
  subst hxy
  exact egcd_sound a b c x y hr

/-- … and the two-congruence solver on its domain. -/
theorem src_crt_spec (fuel : Nat) (a1 m1 a2 m2 : Int) (h1 : m1.natAbs + 1 ≤ fuel) (h2 : m2.natAbs + 1 ≤ fuel)
    (hm1 : 1 ≤ m1) (hm2 : 1 ≤ m2) (ha1 : 0 ≤ a1 ∧ a1 < m1) (ha2 : 0 ≤ a2 ∧ a2 < m2) :
    (¬ (Int.gcd m1 m2 : Int) ∣ a2 - a1 ∧ Rlib.GcdSrc.crt fuel a1 m1 a2 m2 = .ok none) ∨
    ((Int.gcd m1 m2 : Int) ∣ a2 - a1 ∧ ∃ x, Rlib.GcdSrc.crt fuel a1 m1 a2 m2 = .ok (some x) ∧ 0 ≤ x ∧
      x < (Int.lcm m1 m2 : Int) ∧ m1 ∣ x - a1 ∧ m2 ∣ x - a2) := by
  rw [src_crt_eq_model fuel a1 m1 a2 m2 h1 h2]
  exact crt_spec a1 m1 a2 m2 hm1 hm2 ha1 ha2

-- non-vacuity: the generated definitions evaluated by the kernel on concrete inputs (negative operands, a panic,
-- the budget at its stated minimum and one below it)
example : Rlib.GcdSrc.gcd 19 (-12) 18 = .ok 6 := by decide
example : Rlib.GcdSrc.gcd 19 (-12) 18 = .ok (gcd (-12) 18) := src_gcd_eq_model 19 (-12) 18 (by decide)
example : Rlib.GcdSrc.gcd 1 5 0 = .ok 5 := by decide
example : Rlib.GcdSrc.gcd 0 5 0 = .error .fuel := by decide          -- below the bound the budget does run out
example : Rlib.GcdSrc.lcm 7 (-4) 6 = .ok 12 := by decide
example : Rlib.GcdSrc.lcm 1 0 0 = .error .divzero := by decide
example : Rlib.GcdSrc.lcm 1 0 0 = lcm 0 0 := src_lcm_eq_model 1 0 0 (by decide)
example : Rlib.GcdSrc.egcd 5 4 6 2 = .ok (some (-1, 1)) := by decide
example : Rlib.GcdSrc.egcd 7 (-6) 4 9 = .ok none := by decide
example : Rlib.GcdSrc.egcd 1 0 0 3 = .error .divzero := by decide
example : Rlib.GcdSrc.egcd 2 4 6 2 = .error .fuel := by decide          -- too small a budget does run out
example : Rlib.GcdSrc.crt 6 2 3 3 5 = .ok (some 8) := by decide
example : Rlib.GcdSrc.crt 7 1 4 2 6 = .ok none := by decide
example : ∃ x, Rlib.GcdSrc.crt 6 2 3 3 5 = .ok (some x) ∧ 0 ≤ x ∧ x < 15 ∧ (3 : Int) ∣ x - 2 ∧ (5 : Int) ∣ x - 3 := by
  rcases src_crt_spec 6 2 3 3 5 (by decide) (by decide) (by decide) (by decide) (by decide) (by decide)
    with ⟨hn, _⟩ | ⟨_, x, h, h0, hl, d1, d2⟩
  · exact absurd (by decide) hn
  · exact ⟨x, h, h0, hl, d1, d2⟩
example : ∃ r, Rlib.GcdSrc.egcd 7 (-6) 4 10 = .ok r ∧ r ≠ none := by
  obtain ⟨r, h, hn, _⟩ := src_egcd_spec 7 (-6) 4 10 (by decide) (by decide)
  exact ⟨r, h, by rw [Ne, hn]; decide⟩

end Rlib.C11
