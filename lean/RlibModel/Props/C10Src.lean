import RlibModel.Props.C10
import RlibModel.Lemmas.GeometrySrc
import RlibModel.Model.GeometryFloat
/-
C10, second tie: theorems about the definitions REGENERATED from the Rust source text on every run.
Kept in their own module so that a source the translator cannot read (or an equivalence proof that no longer goes
through) leaves the property theorems of Props/C10.lean — and their audit — untouched; `./check` then decides
between `second tie unavailable` (translator subset; the correspondence tie still stands) and a broken obligation.
-/
namespace Rlib.C10
open Rlib Rlib.Geometry

/-! ### Second tie: the definitions regenerated from the source text of this run

`Rlib.GeometrySrc.*` are written by `tools/rs2lean_float.py` from `rlib/geometry/src/{point,line,circle,util}.rs` on every run of
`./check C10` (`Generated/GeometrySrc.lean`): every Rust `f64` expression as the corresponding term over an ABSTRACT arithmetic
`G : Geo K`.  `src_<f>_eq_model`: the regenerated definition IS the hand-written model's — for EVERY arithmetic `G` and every
argument, no hypothesis.  Hence (i) for `floatGeo eps`, the IEEE doubles the native driver executes, the model performs exactly the
operation sequence the source text prescribes (`src_float_eq_model`), and (ii) for `realGeo eps` every theorem of `Props/C10.lean`
speaks about what the source text of this very run says (`src_cl_points_on_both`, `src_ll_point_on_both`, `src_position_spec` restate
three of them directly about the regenerated definitions).  A change that re-associates or algebraically rewrites the arithmetic
breaks these equalities even if it is an identity over the reals: the model promises the ORDER of operations of the source. -/

section
variable {K : Type} (G : Geo K)

/-- `Point::new`, `slen`, `len`, `dp`, `cp` -/
theorem src_point_fns_eq_model (p q : Point K) (x y : K) :
    GeometrySrc.Point_new G x y = ⟨x, y⟩ ∧ GeometrySrc.Point_slen G p = slen G p ∧ GeometrySrc.Point_len G p = len G p ∧
    GeometrySrc.Point_dp G p q = dp G p q ∧ GeometrySrc.Point_cp G p q = cp G p q :=
  ⟨GeometrySrc.point_new_eq_model G x y, GeometrySrc.point_slen_eq_model G p, GeometrySrc.point_len_eq_model G p,
   GeometrySrc.point_dp_eq_model G p q, GeometrySrc.point_cp_eq_model G p q⟩

/-- `+` in its four operand forms (`Point + Point`, `Point + &Point`, `&Point + &Point`, `&Point + Point`: the expansions of `impl_bin!(Add, add)`) -/
theorem src_point_add_eq_model (p q : Point K) :
    GeometrySrc.Point_add_vv G p q = padd G p q ∧ GeometrySrc.Point_add_vr G p q = padd G p q ∧
    GeometrySrc.Point_add_rr G p q = padd G p q ∧ GeometrySrc.Point_add_rv G p q = padd G p q :=
  GeometrySrc.point_add_eq_model G p q

/-- `-` in its four operand forms (`impl_bin!(Sub, sub)`) -/
theorem src_point_sub_eq_model (p q : Point K) :
    GeometrySrc.Point_sub_vv G p q = psub G p q ∧ GeometrySrc.Point_sub_vr G p q = psub G p q ∧
    GeometrySrc.Point_sub_rr G p q = psub G p q ∧ GeometrySrc.Point_sub_rv G p q = psub G p q :=
  GeometrySrc.point_sub_eq_model G p q

theorem src_point_mul_eq_model (p : Point K) (k : K) : GeometrySrc.Point_mul_vv G p k = pmul G p k :=
  GeometrySrc.point_mul_eq_model G p k

theorem src_point_div_eq_model (p : Point K) (k : K) : GeometrySrc.Point_div_vv G p k = pdiv G p k :=
  GeometrySrc.point_div_eq_model G p k

theorem src_line_new_eq_model (a b c : K) : GeometrySrc.Line_new G a b c = lineNew G a b c :=
  GeometrySrc.line_new_eq_model G a b c

theorem src_line_between_eq_model (u v : Point K) : GeometrySrc.Line_between G u v = lineBetween G u v :=
  GeometrySrc.line_between_eq_model G u v

/-- `Line::dist`, `Line::contains`, `Line::ort` -/
theorem src_line_fns_eq_model (l : Line K) (p : Point K) :
    GeometrySrc.Line_dist G l p = lineDist G l p ∧ GeometrySrc.Line_contains G l p = lineContains G l p ∧
    GeometrySrc.Line_ort G l = lineOrt l :=
  ⟨GeometrySrc.line_dist_eq_model G l p, GeometrySrc.line_contains_eq_model G l p, GeometrySrc.line_ort_eq_model G l⟩

/-- `Circle::new`, `Circle::position` -/
theorem src_position_eq_model (c : Circle K) (p : Point K) (o : Point K) (r : K) :
    GeometrySrc.Circle_new G o r = ⟨o, r⟩ ∧ GeometrySrc.Circle_position G c p = position G c p :=
  ⟨GeometrySrc.circle_new_eq_model G o r, GeometrySrc.position_eq_model G c p⟩

theorem src_dist_eq_model (a b : Point K) : GeometrySrc.dist G a b = dist G a b :=
  GeometrySrc.dist_eq_model G a b

theorem src_parallel_eq_model (u v : Line K) : GeometrySrc.parallel G u v = parallel G u v :=
  GeometrySrc.parallel_eq_model G u v

theorem src_intersect_ll_eq_model (u v : Line K) : GeometrySrc.intersect_ll G u v = intersectLL G u v :=
  GeometrySrc.intersect_ll_eq_model G u v

theorem src_intersect_cl_eq_model (c : Circle K) (l : Line K) : GeometrySrc.intersect_cl G c l = intersectCL G c l :=
  GeometrySrc.intersect_cl_eq_model G c l

theorem src_intersect_cc_eq_model (a b : Circle K) : GeometrySrc.intersect_cc G a b = intersectCC G a b :=
  GeometrySrc.intersect_cc_eq_model G a b

end

/-- The instance the native driver executes: over IEEE doubles (`floatGeo eps`) the regenerated definitions and the model are the
    same function — the model's `Float` results are what the operation sequence of the source text yields, bit for bit. -/
theorem src_float_eq_model (eps : Float) (c a b : Circle Float) (l u v : Line Float) (p : Point Float) :
    GeometrySrc.intersect_cl (floatGeo eps) c l = intersectCL (floatGeo eps) c l ∧
    GeometrySrc.intersect_cc (floatGeo eps) a b = intersectCC (floatGeo eps) a b ∧
    GeometrySrc.intersect_ll (floatGeo eps) u v = intersectLL (floatGeo eps) u v ∧
    GeometrySrc.Circle_position (floatGeo eps) c p = position (floatGeo eps) c p ∧
    GeometrySrc.Line_contains (floatGeo eps) l p = lineContains (floatGeo eps) l p :=
  ⟨src_intersect_cl_eq_model _ c l, src_intersect_cc_eq_model _ a b, src_intersect_ll_eq_model _ u v,
   (src_position_eq_model _ c p p eps).2, (src_line_fns_eq_model _ l p).2.1⟩

/-! ### C10 stated directly about the regenerated definitions (over the reals) -/

/-- `cl_points_on_both` about the regenerated `intersect_cl`. -/
theorem src_cl_points_on_both (eps : ℝ) (c : Circle ℝ) (l : Line ℝ) (hu : UnitLine l) :
    match GeometrySrc.intersect_cl (realGeo eps) c l with
    | .none => True
    | .touch p => OnLine l p ∧ |Geometry.edist p c.c - c.r| ≤ eps
    | .intersect p q => OnLine l p ∧ OnCircle c p ∧ OnLine l q ∧ OnCircle c q := by
  rw [src_intersect_cl_eq_model]
  exact cl_points_on_both eps c l hu

/-- `ll_point_on_both` about the regenerated `intersect_ll` and `parallel`. -/
theorem src_ll_point_on_both (eps : ℝ) (heps : 0 < eps) (u v : Line ℝ) :
    (GeometrySrc.intersect_ll (realGeo eps) u v = none ↔ GeometrySrc.parallel (realGeo eps) u v = true) ∧
    ∀ p, GeometrySrc.intersect_ll (realGeo eps) u v = some p → OnLine u p ∧ OnLine v p := by
  rw [src_intersect_ll_eq_model, src_parallel_eq_model]
  exact ll_point_on_both eps heps u v

/-- `cc_points_on_both` about the regenerated `intersect_cc`. -/
theorem src_cc_points_on_both (eps : ℝ) (a b : Circle ℝ) (heps : 0 < eps) (ha : 0 ≤ a.r) (hb : 0 ≤ b.r) :
    CCPointsOK eps a b (GeometrySrc.intersect_cc (realGeo eps) a b) := by
  rw [src_intersect_cc_eq_model]
  exact cc_points_on_both eps a b heps ha hb

/-! ### non-vacuity: the regenerated definitions on concrete configurations -/

example : GeometrySrc.Point_len (realGeo 1e-9) ⟨3, 4⟩ ^ 2 = 25 := by
  rw [(src_point_fns_eq_model (realGeo 1e-9) ⟨3, 4⟩ ⟨1, 2⟩ 0 0).2.2.1,
    (point_ops_spec 1e-9 ⟨3, 4⟩ ⟨1, 2⟩ 2).2.2.2.2.2.2.2.2.2.2, (point_ops_spec 1e-9 ⟨3, 4⟩ ⟨1, 2⟩ 2).2.2.2.2.1]; norm_num
example : GeometrySrc.Point_add_vr (realGeo 1e-9) ⟨3, 4⟩ ⟨1, 2⟩ = padd (realGeo 1e-9) ⟨3, 4⟩ ⟨1, 2⟩ :=
  (src_point_add_eq_model _ _ _).2.1
example : GeometrySrc.Point_sub_rr (realGeo 1e-9) ⟨3, 4⟩ ⟨1, 2⟩ = psub (realGeo 1e-9) ⟨3, 4⟩ ⟨1, 2⟩ :=
  (src_point_sub_eq_model _ _ _).2.2.1
example : GeometrySrc.Point_mul_vv (realGeo 1e-9) ⟨3, 4⟩ 2 = pmul (realGeo 1e-9) ⟨3, 4⟩ 2 := src_point_mul_eq_model _ _ _
example : GeometrySrc.Point_div_vv (realGeo 1e-9) ⟨3, 4⟩ 2 = pdiv (realGeo 1e-9) ⟨3, 4⟩ 2 := src_point_div_eq_model _ _ _
example : UnitLine (GeometrySrc.Line_new (realGeo 1e-9) 3 4 5) := by
  rw [src_line_new_eq_model]; exact (line_new_unit _ 3 4 5 (Or.inl (by norm_num))).1
example := src_line_between_eq_model (realGeo 1e-9) ⟨0, 0⟩ ⟨3, 4⟩
example : GeometrySrc.Line_contains (realGeo 1e-9) ⟨3 / 5, 4 / 5, -5⟩ ⟨3, 4⟩ = true := by
  rw [(src_line_fns_eq_model _ _ _).2.1]; exact (contains_spec _ _ _).mpr (by norm_num)
-- (0,0) is on the border of the circle ((3,4),5)
example : GeometrySrc.Circle_position (realGeo 1e-9) ⟨⟨3, 4⟩, 5⟩ ⟨0, 0⟩ = Position.border := by
  rw [(src_position_eq_model _ _ _ ⟨0, 0⟩ 0).2]
  exact (position_spec 1e-9 (by norm_num) ⟨⟨3, 4⟩, 5⟩ (by norm_num) ⟨0, 0⟩).2.2.mpr (by simp only [edist_345]; norm_num)
example : GeometrySrc.dist (realGeo 1e-9) ⟨0, 0⟩ ⟨3, 4⟩ = 5 := by
  rw [src_dist_eq_model, dist_real, edist_345]
example : GeometrySrc.parallel (realGeo 1e-9) ⟨3 / 5, 4 / 5, 0⟩ ⟨3 / 5, 4 / 5, 7⟩ = true := by
  rw [src_parallel_eq_model]; exact (parallel_iff _ _ _).mpr (by norm_num)
-- the lines x = 1 and y = 2 meet in (1, 2)
example : GeometrySrc.intersect_ll (realGeo 1e-9) ⟨1, 0, -1⟩ ⟨0, 1, -2⟩ = some ⟨1, 2⟩ := by
  rw [src_intersect_ll_eq_model, intersectLL_real]; norm_num [crossN]
-- the F3 configuration: circle ((10,10),5), line y = 15: the regenerated text returns the touch point (10,15)
example : GeometrySrc.intersect_cl (realGeo 1e-9) ⟨⟨10, 10⟩, 5⟩ ⟨0, 1, -15⟩ = CL.touch ⟨10, 15⟩ := by
  rw [src_intersect_cl_eq_model, intersectCL_real _ _ _ (by norm_num [UnitLine])]
  norm_num [sdist, ortX, ortY]
-- the smaller circle first: exercises the swap by radius of the regenerated text
example : ∃ p q, GeometrySrc.intersect_cc (realGeo 1e-9) ⟨⟨0, 0⟩, 3⟩ ⟨⟨3, 4⟩, 4⟩ = CC.intersect p q ∧ p ≠ q := by
  rw [src_intersect_cc_eq_model]
  obtain ⟨p, q, h, hne, _⟩ := cc_kind_intersect 1e-9 ⟨⟨0, 0⟩, 3⟩ ⟨⟨3, 4⟩, 4⟩ (by norm_num) (by norm_num) (by norm_num)
    (by simp only [edist_345]; norm_num) (by simp only [edist_345]; norm_num)
  exact ⟨p, q, h, hne⟩
example := src_float_eq_model 1e-9 ⟨⟨0, 0⟩, 5⟩ ⟨⟨0, 0⟩, 3⟩ ⟨⟨3, 4⟩, 4⟩ ⟨0, 1, -3⟩ ⟨1, 0, -1⟩ ⟨0, 1, -2⟩ ⟨3, 4⟩
example := src_cl_points_on_both 1e-9 ⟨⟨10, 10⟩, 5⟩ ⟨0, 1, -15⟩ (by norm_num [UnitLine])
example := (src_ll_point_on_both 1e-9 (by norm_num) ⟨1, 0, -1⟩ ⟨0, 1, -2⟩).2 ⟨1, 2⟩
  (by rw [src_intersect_ll_eq_model, intersectLL_real]; norm_num [crossN])
example := src_cc_points_on_both 1e-9 ⟨⟨0, 0⟩, 2⟩ ⟨⟨3, 4⟩, 3⟩ (by norm_num) (by norm_num) (by norm_num)

end Rlib.C10
