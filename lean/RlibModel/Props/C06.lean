import RlibModel.Lemmas.MintIo
/-!
# C06 — `Modular<M>` is ℤ/M with canonical representatives and true inverses

Property theorems only; the model is `Model/Mint.lean` (the definitions the driver `drv_mint`
executes), helper lemmas are in `Lemmas/Mint.lean`.

Everywhere: `M` is the modulus with `2 ≤ M < 2^31`; a `Modular<M>` value is its field `v`;
`R M a` is the canonical range `0 ≤ a < M`.  A result `.ok z` says in particular that **none of
the `u32` / `i32` / `i64` overflow checks of the model fired** and no division by zero happened.
`%` is `Int.emod` (the mathematical remainder in `[0, M)`).
-/
namespace Rlib.C06
open Rlib.Mint

/-- `new`: for *every* integer argument (in particular every `i64`, `i64::MIN/MAX` included) the
    narrowing cast does not wrap, the `i32` addition does not overflow, and the stored field is the
    canonical representative. -/
theorem new_spec (M v : Int) (hM : 2 ≤ M) (hM2 : M < 2 ^ 31) :
    new M v = .ok (v % M) ∧ R M (v % M) :=
  ⟨new_eq M v hM hM2, R_red (by omega) v⟩

/-- `+` (and `+=`, which is `*self = *self + rhs`): the `u32` sum does not overflow and one
    conditional subtraction yields the canonical representative of the integer sum. -/
theorem add_spec (M a b : Int) (hM : 2 ≤ M) (hM2 : M < 2 ^ 31) (ha : R M a) (hb : R M b) :
    add M a b = .ok ((a + b) % M) ∧ R M ((a + b) % M) :=
  ⟨add_eq M a b hM hM2 ha hb, R_red (by omega) _⟩

/-- `-` / `-=`: `a + M − b` stays inside `u32`. -/
theorem sub_spec (M a b : Int) (hM : 2 ≤ M) (hM2 : M < 2 ^ 31) (ha : R M a) (hb : R M b) :
    sub M a b = .ok ((a - b) % M) ∧ R M ((a - b) % M) :=
  ⟨sub_eq M a b hM hM2 ha hb, R_red (by omega) _⟩

/-- unary `-`: `0 ↦ 0`, otherwise `M − a`. -/
theorem neg_spec (M a : Int) (hM : 2 ≤ M) (hM2 : M < 2 ^ 31) (ha : R M a) :
    neg M a = .ok ((-a) % M) ∧ R M ((-a) % M) :=
  ⟨neg_eq M a hM hM2 ha, R_red (by omega) _⟩

/-- `*` / `*=`: the `i64` product does not overflow (`a·b < 2^62`) and `new` reduces it. -/
theorem mul_spec (M a b : Int) (hM : 2 ≤ M) (hM2 : M < 2 ^ 31) (ha : R M a) (hb : R M b) :
    mul M a b = .ok ((a * b) % M) ∧ R M ((a * b) % M) :=
  ⟨mul_eq M a b hM hM2 ha hb, R_red (by omega) _⟩

/-- `pow`: for **every** exponent (all of `u64` and beyond) the square-and-multiply loop
    terminates (it is defined by well-founded recursion), never overflows, and returns
    `a^d mod M`. -/
theorem pow_spec (M a : Int) (d : Nat) (hM : 2 ≤ M) (hM2 : M < 2 ^ 31) (ha : R M a) :
    pow M a d = .ok (a ^ d % M) ∧ R M (a ^ d % M) := by
  refine ⟨?_, R_red (by omega) _⟩
  unfold pow
  rw [powLoop_eq M hM hM2 d 1 a ⟨by omega, by omega⟩ ha, Int.one_mul]

/-- The executable specification the driver prints for `pow` (most-significant-bit-first
    exponentiation over plain integers) is `a^d mod M`. -/
theorem specPow_spec (M a : Int) (d : Nat) : specPow M a d = a ^ d % M := specPow_eq M a d

/-- `inv`: the extended-Euclid loop in `i32` terminates, **no `i32` operation overflows**
    (quotient, two products, two differences per round), and the result `r` is canonical with
    `r·a ≡ gcd(a, M) (mod M)` — for coprime `a` the true inverse. -/
theorem inv_spec (M a : Int) (hM : 2 ≤ M) (hM2 : M < 2 ^ 31) (ha : R M a) :
    ∃ r, inv M a = .ok r ∧ R M r ∧ (r * a) % M = (Int.gcd a M : Int) % M :=
  inv_eq M a hM hM2 ha

/-- … hence for `gcd(a, M) = 1`: `inv(a) · a = 1` in `Modular<M>`. -/
theorem inv_mul_cancel (M a : Int) (hM : 2 ≤ M) (hM2 : M < 2 ^ 31) (ha : R M a) (hg : Int.gcd a M = 1) :
    ∃ r, inv M a = .ok r ∧ mul M r a = .ok 1 := by
  obtain ⟨r, hr, hrR, hb⟩ := inv_eq M a hM hM2 ha
  refine ⟨r, hr, ?_⟩
  rw [mul_eq M r a hM hM2 hrR ha, hb, hg]
  congr 1
  exact Int.emod_eq_of_lt (by omega) (by omega)

/-- `/`: `x / y = x · inv(y)` is canonical and `(x / y)·y ≡ x·gcd(y, M)`. -/
theorem div_spec (M x y : Int) (hM : 2 ≤ M) (hM2 : M < 2 ^ 31) (hx : R M x) (hy : R M y) :
    ∃ z, div M x y = .ok z ∧ R M z ∧ (z * y) % M = (x * (Int.gcd y M : Int)) % M :=
  div_eq M x y hM hM2 hx hy

/-- … hence `(x / y) * y = x` whenever `y` is coprime to `M`. -/
theorem div_mul_cancel (M x y : Int) (hM : 2 ≤ M) (hM2 : M < 2 ^ 31) (hx : R M x) (hy : R M y)
    (hg : Int.gcd y M = 1) :
    ∃ z, div M x y = .ok z ∧ mul M z y = .ok x := by
  obtain ⟨z, hz, hzR, hb⟩ := div_eq M x y hM hM2 hx hy
  refine ⟨z, hz, ?_⟩
  rw [mul_eq M z y hM hM2 hzR hy, hb, hg]
  congr 1
  simp only [Nat.cast_one, Int.mul_one]
  exact Int.emod_eq_of_lt hx.1 hx.2

/-- The predicates the driver prints as the *view* of `inv` / `/` are exactly the statements above. -/
theorem inv_view (M a : Int) (hM : 2 ≤ M) (hM2 : M < 2 ^ 31) (ha : R M a) :
    ∃ r, inv M a = .ok r ∧ isInvOf M a r = true := by
  obtain ⟨r, hr, hrR, hb⟩ := inv_eq M a hM hM2 ha
  exact ⟨r, hr, by simp [isInvOf, hrR.1, hrR.2, hb]⟩

theorem div_view (M x y : Int) (hM : 2 ≤ M) (hM2 : M < 2 ^ 31) (hx : R M x) (hy : R M y) :
    ∃ z, div M x y = .ok z ∧ isQuotOf M x y z = true := by
  obtain ⟨z, hz, hzR, hb⟩ := div_eq M x y hM hM2 hx hy
  exact ⟨z, hz, by simp [isQuotOf, hzR.1, hzR.2, hb]⟩

/-- Canonical representatives: the derived `==` on the field decides congruence modulo `M`. -/
theorem repr_canonical (M a b : Int) (ha : R M a) (hb : R M b) :
    eq a b = true ↔ a % M = b % M := by
  rw [Int.emod_eq_of_lt ha.1 ha.2, Int.emod_eq_of_lt hb.1 hb.2]
  simp [eq]

/-- … and two constructor calls give `==` values exactly when the arguments are congruent. -/
theorem new_eq_iff (M v w : Int) (hM : 2 ≤ M) (hM2 : M < 2 ^ 31) :
    new M v = new M w ↔ v % M = w % M := by
  rw [new_eq M v hM hM2, new_eq M w hM hM2]
  constructor
  · intro h; injection h
  · intro h; rw [h]

/-- Construction commutes with the ring operations: building two values from arbitrary integers
    and combining them gives the value built from the integer result (this is literally what the
    driver evaluates for a `pair` / `un` / `pow` case). -/
theorem new_hom (M v w : Int) (d : Nat) (hM : 2 ≤ M) (hM2 : M < 2 ^ 31) :
    (new M v >>= fun x => new M w >>= fun y => add M x y) = new M (v + w) ∧
    (new M v >>= fun x => new M w >>= fun y => sub M x y) = new M (v - w) ∧
    (new M v >>= fun x => new M w >>= fun y => mul M x y) = new M (v * w) ∧
    (new M v >>= fun x => neg M x) = new M (-v) ∧
    (new M v >>= fun x => pow M x d) = new M (v ^ d) := by
  have hpos : 0 < M := by omega
  have rv : R M (v % M) := R_red hpos v
  have rw' : R M (w % M) := R_red hpos w
  simp only [new_eq M _ hM hM2, ok_bind]
  refine ⟨?_, ?_, ?_, ?_, ?_⟩
  · rw [add_eq M _ _ hM hM2 rv rw', ← Int.add_emod]
  · rw [sub_eq M _ _ hM hM2 rv rw', ← Int.sub_emod]
  · rw [mul_eq M _ _ hM hM2 rv rw', ← Int.mul_emod]
  · rw [neg_eq M _ hM hM2 rv]
    congr 1
    have h1 : -(v % M) = -v + M * (v / M) := by have := Int.emod_add_mul_ediv v M; linarith
    rw [h1, Int.add_mul_emod_self_left]
  · rw [(pow_spec M _ d hM hM2 rv).1, pow_emod]
/-- IO, reading: `Readable` is `new(reader.read::<i64>())`: any `i64` token value `t` is reduced to its
    canonical representative. -/
theorem io_spec (M t : Int) (hM : 2 ≤ M) (hM2 : M < 2 ^ 31) : readTok M t = .ok (t % M) :=
  new_eq M t hM hM2

/-- IO, writing and the round trip, through the decimal models of `rlib_io`: for a canonical value
    (i) the bytes `u32::write` produces (C09's digit loop `Decimal.renderU` on a `BASE_10_LEN(u32)` buffer)
    are the text the model prints, the standard decimal text of the field; (ii) parsing that token as an
    `i64` (C08/C09 `Decimal.parseS`) and reducing gives the value back — writing and reading go through
    the same canonical representative. -/
theorem io_roundtrip (M a : Int) (hM : 2 ≤ M) (hM2 : M < 2 ^ 31) (ha : R M a) :
    Decimal.renderU (Decimal.base10len 32) a.toNat = .ok (toBytes (render a).toList) ∧
    toBytes (render a).toList = Decimal.decimalU a.toNat ∧
    readTok M (Decimal.parseS (toBytes (render a).toList)) = .ok a :=
  ⟨writer_bytes M a hM2 ha, render_bytes a, io_roundtrip_eq M a hM hM2 ha⟩

/-! ### Non-vacuity: the hypotheses are met at the boundary of the guard (`M = 2^31 − 1`) -/

example : new 2147483647 (-9223372036854775808) = .ok 2147483645 :=
  (new_spec 2147483647 (-9223372036854775808) (by decide) (by decide)).1
example : add 2147483647 2147483646 2147483646 = .ok 2147483645 :=
  (add_spec 2147483647 2147483646 2147483646 (by decide) (by decide) ⟨by decide, by decide⟩ ⟨by decide, by decide⟩).1
example : sub 2147483647 0 2147483646 = .ok 1 :=
  (sub_spec 2147483647 0 2147483646 (by decide) (by decide) ⟨by decide, by decide⟩ ⟨by decide, by decide⟩).1
example : neg 2147483647 1 = .ok 2147483646 :=
  (neg_spec 2147483647 1 (by decide) (by decide) ⟨by decide, by decide⟩).1
example : mul 2147483647 2147483646 2147483646 = .ok 1 :=
  (mul_spec 2147483647 2147483646 2147483646 (by decide) (by decide) ⟨by decide, by decide⟩ ⟨by decide, by decide⟩).1
example : pow 7 3 18446744073709551615 = .ok (3 ^ 18446744073709551615 % 7) :=
  (pow_spec 7 3 18446744073709551615 (by decide) (by decide) ⟨by decide, by decide⟩).1
example : ∃ r, inv 2147483647 2147483646 = .ok r ∧ mul 2147483647 r 2147483646 = .ok 1 :=
  inv_mul_cancel 2147483647 2147483646 (by decide) (by decide) ⟨by decide, by decide⟩ (by decide)
example : ∃ z, div 15015 5 2 = .ok z ∧ mul 15015 z 2 = .ok 5 :=
  div_mul_cancel 15015 5 2 (by decide) (by decide) ⟨by decide, by decide⟩ ⟨by decide, by decide⟩ (by decide)
/-- composite modulus, non-invertible operand: still a Bézout statement (`gcd(6, 15015) = 3`) -/
example : ∃ r, inv 15015 6 = .ok r ∧ R 15015 r ∧ (r * 6) % 15015 = 3 :=
  inv_spec 15015 6 (by decide) (by decide) ⟨by decide, by decide⟩
example : readTok 2147483647 (Decimal.parseS (toBytes (render 2147483646).toList)) = .ok 2147483646 :=
  (io_roundtrip 2147483647 2147483646 (by decide) (by decide) ⟨by decide, by decide⟩).2.2
example : readTok 7 (-9223372036854775808) = .ok 6 := io_spec 7 _ (by decide) (by decide)
example : eq 5 5 = true ↔ (5 : Int) % 7 = 5 % 7 := repr_canonical 7 5 5 ⟨by decide, by decide⟩ ⟨by decide, by decide⟩

example : (new 2147483647 9223372036854775807 >>= fun x => new 2147483647 (-9223372036854775808) >>= fun y => mul 2147483647 x y)
    = new 2147483647 (9223372036854775807 * -9223372036854775808) :=
  (new_hom 2147483647 9223372036854775807 (-9223372036854775808) 0 (by decide) (by decide)).2.2.1

/-! ### Wave 3: constants, the inverse as a value, histories that feed results back, token sequences -/

/-- `ZERO`, `ONE` are the canonical representatives of 0 and 1 (what `new` returns for them) and `md()` is `M`. -/
theorem consts_spec (M : Int) (hM : 2 ≤ M) (hM2 : M < 2 ^ 31) :
    new M 0 = .ok zero ∧ new M 1 = .ok one ∧ zero = red M 0 ∧ one = red M 1 ∧ md M = M ∧ R M zero ∧ R M one := by
  have h1 : (1 : Int) % M = 1 := Int.emod_eq_of_lt (by omega) (by omega)
  refine ⟨?_, ?_, ?_, ?_, rfl, ⟨le_refl _, by show (0 : Int) < M; omega⟩, ⟨by decide, by show (1 : Int) < M; omega⟩⟩
  · rw [new_eq M 0 hM hM2]; simp [zero]
  · rw [new_eq M 1 hM hM2, h1]; rfl
  · simp [zero, red]
  · simp [one, red, h1]

/-- For an operand coprime to `M` the result of `inv` is pinned as a VALUE: it is the executable spec
    `specInv` (Bézout coefficient by the textbook recursion over unbounded integers, reduced), which is the
    unique canonical `r` with `r·a ≡ 1 (mod M)`. -/
theorem inv_value (M a : Int) (hM : 2 ≤ M) (hM2 : M < 2 ^ 31) (ha : R M a) (hg : Int.gcd a M = 1) :
    inv M a = .ok (specInv M a) ∧ R M (specInv M a) ∧ (specInv M a * a) % M = 1 % M ∧
    ∀ r, R M r → (r * a) % M = 1 % M → r = specInv M a := by
  obtain ⟨hR, hs⟩ := specInv_spec M a (by omega) ha.1 hg
  exact ⟨inv_eq_specInv M a hM hM2 ha hg, hR, hs, fun r hr h => inv_unique M a r _ hr hR h hs⟩

/-- … and `/` likewise: `x / y = x · y⁻¹ mod M` as a value. -/
theorem div_value (M x y : Int) (hM : 2 ≤ M) (hM2 : M < 2 ^ 31) (hx : R M x) (hy : R M y) (hg : Int.gcd y M = 1) :
    div M x y = .ok ((x * specInv M y) % M) :=
  div_eq_specInv M x y hM hM2 hx hy hg

/-- One step of a history on a canonical accumulator (every operation of the type, the same object on both
    sides, constants, re-construction from `inner()`, `==` folded back into the value): inside the domain the
    model's step is the spec's step, none of the machine checks fires, and the result is canonical again. -/
theorem step_spec (M acc : Int) (op : Op) (hM : 2 ≤ M) (hM2 : M < 2 ^ 31) (ha : R M acc)
    (hd : op.dom M acc = true) :
    op.stepM M acc = .ok (op.stepS M acc) ∧ R M (op.stepS M acc) :=
  step_eq M acc op hM hM2 ha hd

/-- Histories: results fed back into further operations, for every length. What the driver prints as `M`
    (`runM`) is what it prints as `S` (`runS`) whenever every inverse taken on the way is of a value coprime to `M`. -/
theorem chain_spec (M : Int) (hM : 2 ≤ M) (hM2 : M < 2 ^ 31) (ops : List Op) :
    ∀ acc, R M acc → domS M acc ops = true → runM M acc ops = (runS M acc ops).map .ok := by
  induction ops with
  | nil => intro acc _ _; rfl
  | cons op ops ih =>
    intro acc ha hd
    simp only [domS, Bool.and_eq_true] at hd
    obtain ⟨h1, h2⟩ := step_eq M acc op hM hM2 ha hd.1
    simp only [runM, runS, h1, List.map_cons, ih _ h2 hd.2]

/-- a sequence of tokens read one after the other: each is reduced on its own -/
theorem ios_spec (M : Int) (hM : 2 ≤ M) (hM2 : M < 2 ^ 31) (ts : List Int) :
    ts.map (readTok M) = ts.map (fun t => .ok (red M t)) :=
  List.map_congr_left (fun t _ => new_eq M t hM hM2)

example : inv 2147483647 2 = .ok 1073741824 ∧ specInv 2147483647 2 = 1073741824 := by
  have h := (inv_value 2147483647 2 (by decide) (by decide) ⟨by decide, by decide⟩ (by decide)).1
  have e : specInv 2147483647 2 = 1073741824 := by
    simp [specInv, red, bez]
  exact ⟨by rw [h, e], e⟩
example : runM 7 3 [.inv, .mul 10, .eqv 1, .selfdiv, .zero, .one, .rsub (-9223372036854775808)]
    = (runS 7 3 [.inv, .mul 10, .eqv 1, .selfdiv, .zero, .one, .rsub (-9223372036854775808)]).map .ok :=
  chain_spec 7 (by decide) (by decide) _ 3 ⟨by decide, by decide⟩ (by simp [domS, Op.dom, Op.stepS, specInv, red, bez]; decide)
example : new 2 0 = .ok zero ∧ new 2 1 = .ok one := ⟨(consts_spec 2 (by decide) (by decide)).1, (consts_spec 2 (by decide) (by decide)).2.1⟩

/-! ### Counter-examples outside the guard (documentation, not part of the claim)

For `M = 2^31` the cast `M as i32` is `i32::MIN`: lifting a negative remainder overflows `i32`
(a panic in a checked build; by luck the wrapped value would be right), and the `i32` loop of
`inv` overflows already for the operand 1.  For `M = 2^31 + 1` the narrowing `as i32` in `new`
wraps: the remainder `2^31` becomes `i32::MIN`. -/
example : new 2147483648 (-1) = .error .overflow := by decide
example : new 2147483649 2147483648 = .error .overflow := by decide
example : new 1 5 = .ok 0 ∧ pow 1 0 0 = .ok 1 := by
  refine ⟨by decide, ?_⟩
  unfold pow; rw [powLoop]; rfl
example : inv 2147483648 1 = .error .overflow := by
  unfold inv
  rw [invLoop]
  decide

end Rlib.C06
