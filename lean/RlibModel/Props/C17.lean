import RlibModel.Lemmas.TreapConc
import RlibModel.Generated.RngDiscipline
/-!
# C17 — treaps can be built concurrently on different threads without racing

Property theorems only.  Model: `Model/TreapConc.lean` (disciplines, micro-step transition system,
schedules, sequential stream; the statements `Serializable`, `SharedExact`, `OwnExact`, `Safe`);
helper lemmas: `Lemmas/TreapConc.lean`; the discipline found in the source:
`Generated/RngDiscipline.lean` (rewritten by `checks/C17.py` on every run).

Everything is for all generators `g` (state type, transition, output), all seeds, any number of
threads, all program lengths and *all* schedules (every list of thread ids is a schedule; an entry
for a thread with nothing enabled is a stutter step, so unfinished runs are covered as well).

Not modelled (partial proof): the hardware/compiler memory model.  `racy` is the most favourable
reading of the undefined behaviour (sequentially consistent load and store, no tearing); that
`thread_local!`, `Mutex` and atomics really give the one-step behaviour is Rust's guarantee.
-/
namespace Rlib.C17
open Rlib.TreapConc

/-- Under the atomic-RMW, mutex and thread-local disciplines every schedule has a serial schedule
    (whole draws, one thread at a time) giving every thread the same result stream. -/
theorem serializable (D : Discipline) (hD : D.isSafe = true) : Serializable D := by
  intro σ ρ g seed progs sched
  have hm : D.mode ≠ .sharedSplit := by cases D <;> simp_all [Discipline.isSafe, Discipline.mode]
  exact ⟨sched, fun i => by rw [expand_atomic D hm]⟩

/-- Shared cell, atomic draw (`AtomicU64::fetch_update`, `Mutex`): for every schedule the results in
    chronological order are exactly the sequential stream `out (next^1 seed), out (next^2 seed), …`
    — no draw lost, none duplicated; the threads' streams together are that stream as a multiset,
    each is a subsequence of it (increasing stream index), at most as long as the thread's program
    and exactly that long once the thread has finished. -/
theorem shared_no_draw_lost_or_duplicated (D : Discipline) (hD : D = .atomicRmw ∨ D = .mutex) :
    SharedExact D := by
  intro σ ρ g seed progs sched
  have hm : D.mode = .sharedAtomic := by rcases hD with rfl | rfl <;> rfl
  have hm' : D.mode ≠ .sharedSplit := by rw [hm]; decide
  have hinv := invShared_exec D hm g seed progs sched
  have hc := counted_exec D hm' g seed progs sched
  have hh : history (exec D g (init seed progs) sched)
      = stream g seed (history (exec D g (init seed progs) sched)).length := by
    rw [history_length]; exact hinv.hist_eq
  refine ⟨hh, ?_, ?_, hc.results_le, hc.results_finished⟩
  · rw [← hh]; exact hc.perm_results
  · intro i
    rw [← hh]
    exact resultsOf_sublist _ i

/-- Thread-local cell: for every schedule every thread's result stream is the sequential stream
    from the seed (as far as the thread got; all of its program once it has finished) — exactly
    what the same thread would have seen running alone. -/
theorem thread_local_sequential : OwnExact .threadLocal := by
  intro σ ρ g seed progs sched i
  have hinv := invOwn_exec .threadLocal rfl g seed progs sched
  have hc := counted_exec .threadLocal (by decide) g seed progs sched
  refine ⟨?_, hc.results_le i, fun hf => hc.results_finished hf i⟩
  cases ht : (exec Discipline.threadLocal g (init seed progs) sched).threads[i]? with
  | some t => exact (hinv i t ht).2
  | none =>
    have hi : (exec Discipline.threadLocal g (init seed progs) sched).threads.length ≤ i := by
      rcases Nat.lt_or_ge i (exec Discipline.threadLocal g (init seed progs) sched).threads.length with hl | hl
      · rw [List.getElem?_eq_getElem hl] at ht; cases ht
      · exact hl
    rw [results_eq, resultsOf_nil_of_bounded _ _ i hc.bounded hi]
    rfl

/-- The racy discipline, two threads with one draw each, schedule `load₀ load₁ store₀ store₁`:
    for *every* generator both threads receive the same draw `out (next seed)` and the cell has
    advanced only once — one draw duplicated, one lost. -/
theorem racy_duplicate {σ ρ : Type} (g : Gen σ ρ) (seed : σ) :
    results (exec .racy g (init seed [1, 1]) [0, 1, 0, 1]) 0 = [g.out (g.next seed)]
    ∧ results (exec .racy g (init seed [1, 1]) [0, 1, 0, 1]) 1 = [g.out (g.next seed)]
    ∧ (exec .racy g (init seed [1, 1]) [0, 1, 0, 1]).shared = g.next seed
    ∧ finished (exec .racy g (init seed [1, 1]) [0, 1, 0, 1]) = true :=
  ⟨rfl, rfl, rfl, rfl⟩

/-- A split (load/store) discipline is not serialisable: with the counter generator the schedule of
    `racy_duplicate` gives both threads the stream `[1]`, while every serial schedule hands out
    distinct values. -/
theorem split_not_serializable (D : Discipline) (hD : D.mode = .sharedSplit) : ¬ Serializable D := by
  intro h
  obtain ⟨order, ho⟩ := h (⟨(· + 1), id⟩ : Gen Nat Nat) 0 [1, 1] [0, 1, 0, 1]
  rw [exec_expand_split D .mutex hD rfl _ _ (allIdle_init 0 [1, 1]) order] at ho
  have hc := counted_exec .mutex (by decide) (⟨(· + 1), id⟩ : Gen Nat Nat) 0 [1, 1] order
  have hinv := invShared_exec .mutex rfl (⟨(· + 1), id⟩ : Gen Nat Nat) 0 [1, 1] order
  have hperm := hc.perm_results
  have l0 : results (exec D (⟨(· + 1), id⟩ : Gen Nat Nat) (init 0 [1, 1]) [0, 1, 0, 1]) 0 = [1] := by
    unfold exec step; simp [hD, init, results]
  have l1 : results (exec D (⟨(· + 1), id⟩ : Gen Nat Nat) (init 0 [1, 1]) [0, 1, 0, 1]) 1 = [1] := by
    unfold exec step; simp [hD, init, results]
  have r0 := (ho 0).symm.trans l0
  have r1 := (ho 1).symm.trans l1
  have hflat : (List.range [1, 1].length).flatMap
      (results (exec .mutex (⟨(· + 1), id⟩ : Gen Nat Nat) (init 0 [1, 1]) order)) = [1, 1] := by
    simp [List.range, List.range.loop, r0, r1]
  rw [hflat, hinv.hist_eq] at hperm
  have hlen := hperm.length_eq
  simp only [List.length_cons, List.length_nil, stream_length] at hlen
  rw [← hlen] at hperm
  have : (2 : Nat) ∈ [1, 1] := hperm.mem_iff.mpr (by simp [stream])
  simp at this

theorem racy_not_serializable : ¬ Serializable .racy := split_not_serializable .racy rfl

/-- The property holds for exactly the three recognised safe disciplines. -/
theorem safe_iff (D : Discipline) : Safe D ↔ D.isSafe = true := by
  constructor
  · intro h
    cases D with
    | racy => exact absurd (@Safe.serializable _ h) (split_not_serializable .racy rfl)
    | unknown => exact absurd (@Safe.serializable _ h) (split_not_serializable .unknown rfl)
    | atomicRmw => rfl
    | mutex => rfl
    | threadLocal => rfl
  · intro h
    refine ⟨serializable D h, fun hs => ?_, fun hs => ?_⟩
    · cases D with
      | atomicRmw => exact shared_no_draw_lost_or_duplicated _ (Or.inl rfl)
      | mutex => exact shared_no_draw_lost_or_duplicated _ (Or.inr rfl)
      | threadLocal => cases hs
      | racy => cases h
      | unknown => cases h
    · cases D with
      | threadLocal => exact thread_local_sequential
      | atomicRmw => cases hs
      | mutex => cases hs
      | racy => cases h
      | unknown => cases h

/-- **C17 for the code as it stands**: the discipline the extractor found in `treap_node.rs` (compiled
    into `Generated/RngDiscipline.lean` on every run) is a safe one.  The side goal is closed by
    evaluating `isSafe` on the generated constant, so this theorem stops type-checking as soon as the
    source is classified `racy` or `unknown`. -/
theorem c17 : Safe RngDiscipline.current := (safe_iff RngDiscipline.current).mpr (by decide)

/-- One level down (`Model/TreapConc.lean`, "fine-grained system"): with the draw split into the
    operations the source performs — `cell.get()`/`cell.set()` on the thread's own cell; `lock`, read,
    write, `unlock`; load and compare-and-swap with retry — every schedule of these operations is
    matched by a schedule of the one-step system with the same log, cells and remaining programs.
    Hence everything above (`serializable`, `shared_no_draw_lost_or_duplicated`,
    `thread_local_sequential`) holds for the fine-grained system as well. -/
theorem fine_refines (D : Discipline) (hD : D.isSafe = true) : Refines D := by
  intro σ ρ _ g seed progs sched
  cases D with
  | threadLocal =>
    obtain ⟨order, h⟩ := fexec_sim .threadLocal g FInvOwn (fun st i h => fsim_own g st i h) _
      (fInvOwn_init seed progs) sched
    exact ⟨order, by rw [h, finit_abs]⟩
  | mutex =>
    obtain ⟨order, h⟩ := fexec_sim .mutex g FInvMutex (fun st i h => fsim_mutex g st i h) _
      (fInvMutex_init seed progs) sched
    exact ⟨order, by rw [h, finit_abs]⟩
  | atomicRmw =>
    obtain ⟨order, h⟩ := fexec_sim .atomicRmw g FInvCas (fun st i h => fsim_cas g st i h) _
      (fInvCas_init seed progs) sched
    exact ⟨order, by rw [h, finit_abs]⟩
  | racy => cases hD
  | unknown => cases hD

/-- Serialisability one level down: every schedule of the fine-grained operations has a *serial*
    fine-grained schedule (each draw's `get`/`set`, `lock`/read/write/`unlock`, load/CAS back to back)
    that gives every thread the same result stream. -/
theorem fine_serializable (D : Discipline) (hD : D.isSafe = true) : FineSerializable D := by
  intro σ ρ _ g seed progs sched
  obtain ⟨order, h⟩ := fine_refines D hD g seed progs sched
  refine ⟨order, fun i => ?_⟩
  rw [h, fexec_fexpand D hD g _ (quiet_init seed progs) order, finit_abs]

/-- **C17 for the code as it stands, one level down**: for the discipline extracted from the source, every
    interleaving of its real micro-operations (get/set, lock/read/write/unlock, load/CAS/retry) refines the
    one-step system `c17` speaks about and is serialisable. Like `c17` it stops type-checking for `racy`/`unknown`. -/
theorem c17_fine : Refines RngDiscipline.current ∧ FineSerializable RngDiscipline.current :=
  ⟨fine_refines _ (by decide), fine_serializable _ (by decide)⟩

/-- Mutual exclusion of the fine-grained mutex discipline: after any schedule at most one thread is
    inside a draw, and it holds the lock. -/
theorem mutex_mutual_exclusion {σ ρ : Type} [DecidableEq σ] (g : Gen σ ρ) (seed : σ) (progs sched : List Nat)
    (i j : Nat) (ti tj : FThread σ)
    (hi : (fexec .mutex g (finit seed progs) sched).threads[i]? = some ti)
    (hj : (fexec .mutex g (finit seed progs) sched).threads[j]? = some tj)
    (hni : ti.pc ≠ .idle) (hnj : tj.pc ≠ .idle) :
    i = j ∧ (fexec .mutex g (finit seed progs) sched).lock = some i := by
  have hinv := fexec_inv .mutex g FInvMutex (fun st k h => (fsim_mutex g st k h).1) _
    (fInvMutex_init seed progs) sched
  have h1 := hinv.holder i ti hi hni
  have h2 := hinv.holder j tj hj hnj
  rw [h1] at h2
  exact ⟨Option.some.inj h2, h1⟩

/-- The fine-grained thread-local system: every thread sees the sequential stream, for every
    interleaving of the `get`s and `set`s. -/
theorem fine_thread_local_sequential {σ ρ : Type} [DecidableEq σ] (g : Gen σ ρ) (seed : σ)
    (progs sched : List Nat) (i : Nat) :
    results (fexec .threadLocal g (finit seed progs) sched).abs i
        = stream g seed (results (fexec .threadLocal g (finit seed progs) sched).abs i).length
    ∧ (results (fexec .threadLocal g (finit seed progs) sched).abs i).length ≤ progs.getD i 0 := by
  obtain ⟨order, h⟩ := fine_refines .threadLocal rfl g seed progs sched
  rw [h]
  exact ⟨(thread_local_sequential g seed progs order i).1, (thread_local_sequential g seed progs order i).2.1⟩

/-- The fine-grained mutex and CAS-loop systems: the chronological results are exactly the sequential
    stream, for every interleaving of lock/read/write/unlock resp. load/compare-and-swap/retry. -/
theorem fine_shared_no_draw_lost_or_duplicated {σ ρ : Type} [DecidableEq σ] (D : Discipline)
    (hD : D = .atomicRmw ∨ D = .mutex) (g : Gen σ ρ) (seed : σ) (progs sched : List Nat) :
    history (fexec D g (finit seed progs) sched).abs
        = stream g seed (history (fexec D g (finit seed progs) sched).abs).length
    ∧ ∀ i, (results (fexec D g (finit seed progs) sched).abs i).Sublist
        (stream g seed (history (fexec D g (finit seed progs) sched).abs).length) := by
  have hs : D.isSafe = true := by rcases hD with rfl | rfl <;> rfl
  obtain ⟨order, h⟩ := fine_refines D hs g seed progs sched
  rw [h]
  have := shared_no_draw_lost_or_duplicated D hD g seed progs order
  exact ⟨this.1, this.2.2.1⟩

/-! ### Non-vacuity: concrete, non-trivial runs (counter generator: draw number `n` returns `n`) -/

/-- two threads × two draws on a shared atomic cell, interleaved: nothing lost, nothing duplicated -/
example : results (exec .mutex (⟨(· + 1), id⟩ : Gen Nat Nat) (init 0 [2, 2]) [0, 1, 1, 0]) 0 = [1, 4]
    ∧ results (exec .mutex (⟨(· + 1), id⟩ : Gen Nat Nat) (init 0 [2, 2]) [0, 1, 1, 0]) 1 = [2, 3]
    ∧ history (exec .mutex (⟨(· + 1), id⟩ : Gen Nat Nat) (init 0 [2, 2]) [0, 1, 1, 0]) = stream ⟨(· + 1), id⟩ 0 4
    ∧ finished (exec .mutex (⟨(· + 1), id⟩ : Gen Nat Nat) (init 0 [2, 2]) [0, 1, 1, 0]) = true := by decide

/-- the same programs and schedule with thread-local cells: both threads see the sequential stream -/
example : results (exec .threadLocal (⟨(· + 1), id⟩ : Gen Nat Nat) (init 0 [2, 2]) [0, 1, 1, 0]) 0 = [1, 2]
    ∧ results (exec .threadLocal (⟨(· + 1), id⟩ : Gen Nat Nat) (init 0 [2, 2]) [0, 1, 1, 0]) 1 = [1, 2]
    ∧ finished (exec .threadLocal (⟨(· + 1), id⟩ : Gen Nat Nat) (init 0 [2, 2]) [0, 1, 1, 0]) = true := by decide

/-- the racy discipline on `load₀ load₁ store₀ store₁`: both threads draw `1`, the draw `2` is lost -/
example : results (exec .racy (⟨(· + 1), id⟩ : Gen Nat Nat) (init 0 [1, 1]) [0, 1, 0, 1]) 0 = [1]
    ∧ results (exec .racy (⟨(· + 1), id⟩ : Gen Nat Nat) (init 0 [1, 1]) [0, 1, 0, 1]) 1 = [1]
    ∧ (exec .racy (⟨(· + 1), id⟩ : Gen Nat Nat) (init 0 [1, 1]) [0, 1, 0, 1]).shared = 1 := by decide

/-- unfinished runs and stutter steps (thread 7 does not exist, thread 1 has nothing to do) are schedules too -/
example : results (exec .atomicRmw (⟨(· + 1), id⟩ : Gen Nat Nat) (init 0 [3, 0]) [7, 0, 1, 0]) 0 = [1, 2]
    ∧ finished (exec .atomicRmw (⟨(· + 1), id⟩ : Gen Nat Nat) (init 0 [3, 0]) [7, 0, 1, 0]) = false := by decide

/-- fine-grained mutex, two threads × one draw: thread 1 is blocked while thread 0 holds the lock
    (its two attempts are stutter steps), then draws; nothing lost, nothing duplicated -/
example : history (fexec .mutex (⟨(· + 1), id⟩ : Gen Nat Nat) (finit 0 [1, 1]) [0, 1, 0, 1, 0, 0, 1, 1, 1, 1]).abs = [1, 2]
    ∧ results (fexec .mutex (⟨(· + 1), id⟩ : Gen Nat Nat) (finit 0 [1, 1]) [0, 1, 0, 1, 0, 0, 1, 1, 1, 1]).abs 1 = [2]
    ∧ finished (fexec .mutex (⟨(· + 1), id⟩ : Gen Nat Nat) (finit 0 [1, 1]) [0, 1, 0, 1, 0, 0, 1, 1, 1, 1]).abs = true := by decide

/-- fine-grained CAS loop: both threads load `0`, thread 0's CAS succeeds, thread 1's fails, reloads and succeeds -/
example : results (fexec .atomicRmw (⟨(· + 1), id⟩ : Gen Nat Nat) (finit 0 [1, 1]) [0, 1, 0, 1, 1]).abs 0 = [1]
    ∧ results (fexec .atomicRmw (⟨(· + 1), id⟩ : Gen Nat Nat) (finit 0 [1, 1]) [0, 1, 0, 1, 1]).abs 1 = [2] := by decide

/-- fine-grained thread-local: `get₀ get₁ set₀ set₁` — the interleaving that breaks the racy discipline is harmless here -/
example : results (fexec .threadLocal (⟨(· + 1), id⟩ : Gen Nat Nat) (finit 0 [1, 1]) [0, 1, 0, 1]).abs 0 = [1]
    ∧ results (fexec .threadLocal (⟨(· + 1), id⟩ : Gen Nat Nat) (finit 0 [1, 1]) [0, 1, 0, 1]).abs 1 = [1]
    ∧ finished (fexec .threadLocal (⟨(· + 1), id⟩ : Gen Nat Nat) (finit 0 [1, 1]) [0, 1, 0, 1]).abs = true := by decide

end Rlib.C17
