import RlibModel.Lemmas.Rational
/-!
# C07 — Rational arithmetic is exact and canonical; order and equality follow the value

Property theorems only; helper lemmas are in `Lemmas/Rational.lean`, the model in `Model/Rational.lean`.

* `Q` = the two public fields; `toRat x = x.a / x.b` in core Lean's `Rat` (= Mathlib's `ℚ`);
  `Canon x` = positive denominator and lowest terms.
* Every model function takes `t : Option IntTy`: `none` = unbounded integers (first group of theorems: exact
  value and canonical form for *all* inputs with non-zero denominators), `some ty` = the machine instantiation with
  every operation checked (`nowrap_*`: under the magnitude guard `|·| ≤ 2^(bits/2−2)` it computes exactly what
  `none` computes — this is what the driver executes, through the same `new … >>= op` pipeline).
* by-value / by-reference / assigning operator forms forward to one implementation in the Rust source; they are
  one model function, and the correspondence run checks that the four forms agree.
-/
namespace Rlib.C07
open Rlib.Rational

/-- `new a b` (any sign of `b ≠ 0`) is in lowest terms with positive denominator and denotes `a / b`. -/
theorem new_canon (a b : Int) (hb : b ≠ 0) :
    ∃ r, new none a b = .ok r ∧ Canon r ∧ toRat r = Rat.divInt a b :=
  ⟨_, new_none a b hb, canon_ofRat _, toRat_ofRat _⟩

/-- `new_int n` (the constructor that skips normalisation) is canonical, denotes the integer `n`, and is the very
    value `new n 1` builds — so `==`, `cmp` and `Hash` cannot tell the two constructors apart. -/
theorem newInt_canon (n : Int) :
    Canon (newInt n) ∧ toRat (newInt n) = (n : Rat) ∧ new none n 1 = .ok (newInt n) := by
  have hc : Canon (newInt n) := ⟨show (0 : Int) < 1 by decide, Int.gcd_one_right n⟩
  have hv : toRat (newInt n) = (n : Rat) := by
    show Rat.divInt n 1 = (n : Rat)
    rw [Rat.divInt_eq_div]; simp
  refine ⟨hc, hv, ?_⟩
  rw [new_none n 1 (by decide), eq_ofRat_of_canon _ hc]
  rfl

/-- What the driver prints as `M` for `newint` equals what it prints as `S`. -/
theorem newInt_machine (n : Int) : newInt n = ofRat (n : Rat) := by
  obtain ⟨hc, hv, _⟩ := newInt_canon n
  rw [eq_ofRat_of_canon _ hc, hv]

/-- `+`: exact sum, canonical result. -/
theorem add_spec (x y : Q) (hx : Canon x) (hy : Canon y) :
    ∃ r, add none x y = .ok r ∧ Canon r ∧ toRat r = toRat x + toRat y :=
  ⟨_, add_none x y (by have := hx.1; omega) (by have := hy.1; omega), canon_ofRat _, toRat_ofRat _⟩

/-- `-`: exact difference, canonical result. -/
theorem sub_spec (x y : Q) (hx : Canon x) (hy : Canon y) :
    ∃ r, sub none x y = .ok r ∧ Canon r ∧ toRat r = toRat x - toRat y :=
  ⟨_, sub_none x y (by have := hx.1; omega) (by have := hy.1; omega), canon_ofRat _, toRat_ofRat _⟩

/-- `*`: exact product, canonical result. -/
theorem mul_spec (x y : Q) (hx : Canon x) (hy : Canon y) :
    ∃ r, mul none x y = .ok r ∧ Canon r ∧ toRat r = toRat x * toRat y :=
  ⟨_, mul_none x y (by have := hx.1; omega) (by have := hy.1; omega), canon_ofRat _, toRat_ofRat _⟩

/-- `/` by a non-zero value: exact quotient, canonical result (the sign of a negative divisor moves to the numerator). -/
theorem div_spec (x y : Q) (hx : Canon x) (_hy : Canon y) (hy0 : y.a ≠ 0) :
    ∃ r, div none x y = .ok r ∧ Canon r ∧ toRat r = toRat x / toRat y :=
  ⟨_, div_none x y (by have := hx.1; omega) hy0, canon_ofRat _, toRat_ofRat _⟩

/-- unary `-`: exact negation, canonical result. -/
theorem neg_spec (x : Q) (hx : Canon x) :
    ∃ r, neg none x = .ok r ∧ Canon r ∧ toRat r = -toRat x :=
  ⟨_, neg_none x hx, canon_ofRat _, toRat_ofRat _⟩

/-- Canonical forms are unique: numeric equality is structural equality (what the derived `==` tests). -/
theorem canon_unique (x y : Q) (hx : Canon x) (hy : Canon y) : toRat x = toRat y ↔ x = y := by
  constructor
  · intro h; rw [eq_ofRat_of_canon x hx, eq_ofRat_of_canon y hy, h]
  · intro h; rw [h]

/-- Equal values have equal field pairs — all that the derived `Hash` consumes — so they hash alike. -/
theorem hash_agrees (x y : Q) (hx : Canon x) (hy : Canon y) (h : toRat x = toRat y) : (x.a, x.b) = (y.a, y.b) := by
  rw [(canon_unique x y hx hy).mp h]

/-- `cmp` is the numeric order: `lt`/`eq`/`gt` exactly when the value is smaller/equal/greater. -/
theorem cmp_spec (x y : Q) (hx : Canon x) (hy : Canon y) :
    ∃ o, cmp none x y = .ok o ∧ (o = .lt ↔ toRat x < toRat y) ∧ (o = .eq ↔ toRat x = toRat y) ∧
      (o = .gt ↔ toRat y < toRat x) := by
  refine ⟨_, cmp_none x y (by have := hx.1; omega) (by have := hy.1; omega), ?_, ?_, ?_⟩
  all_goals unfold specCmp
  · by_cases c1 : toRat x < toRat y <;> by_cases c2 : toRat x = toRat y <;> simp [c1, c2]
  · by_cases c1 : toRat x < toRat y
    · simp only [if_pos c1, reduceCtorEq, false_iff]
      exact fun h => Rat.lt_irrefl (h ▸ c1)
    · by_cases c2 : toRat x = toRat y <;> simp [c1, c2]
  · by_cases c1 : toRat x < toRat y
    · simp only [if_pos c1, reduceCtorEq, false_iff]
      exact fun h => (Rat.not_lt.mpr (Rat.le_of_lt h)) c1
    · by_cases c2 : toRat x = toRat y
      · simp only [if_neg c1, if_pos c2, reduceCtorEq, false_iff]
        rw [c2]; exact Rat.lt_irrefl
      · simp only [if_neg c1, if_neg c2, true_iff]
        rcases Rat.le_iff_lt_or_eq.mp (Rat.not_lt.mp c1) with h | h
        · exact h
        · exact absurd h.symm c2

/-- `cmp` is consistent with structural `==`. -/
theorem cmp_eq_iff_eq (x y : Q) (hx : Canon x) (hy : Canon y) : cmp none x y = .ok .eq ↔ x = y := by
  obtain ⟨o, ho, _, he, _⟩ := cmp_spec x y hx hy
  rw [ho, ← canon_unique x y hx hy, ← he]
  constructor
  · intro h; injection h
  · intro h; rw [h]

/-- `floor` returns the integer `n/1` with `n ≤ x < n + 1`, the greatest integer below `x`, for either sign. -/
theorem floor_spec (x : Q) (hx : Canon x) :
    ∃ n : Int, floor none x = .ok ⟨n, 1⟩ ∧ (n : Rat) ≤ toRat x ∧ toRat x < ((n + 1 : Int) : Rat) ∧
      ∀ m : Int, (m : Rat) ≤ toRat x → m ≤ n :=
  ⟨_, floor_none x hx, Rat.floor_le _, Rat.lt_floor_add_one _, fun _ h => Rat.le_floor_iff.mpr h⟩

/-- `ceil` returns the integer `n/1` with `n − 1 < x ≤ n`, the least integer above `x`, for either sign. -/
theorem ceil_spec (x : Q) (hx : Canon x) :
    ∃ n : Int, ceil none x = .ok ⟨n, 1⟩ ∧ toRat x ≤ (n : Rat) ∧ ∀ m : Int, toRat x ≤ (m : Rat) → n ≤ m :=
  ⟨_, ceil_none x hx, Rat.le_ceil, fun _ h => Rat.ceil_le_iff.mpr h⟩

/-! ### No wrap under the magnitude guard: the machine instantiation equals the unbounded one -/

/-- The guard leaves room in each of the three instantiations of the property. -/
theorem guard_roomy : Roomy ⟨true, 32⟩ ∧ Roomy ⟨true, 64⟩ ∧ Roomy ⟨true, 128⟩ := ⟨roomy_i32, roomy_i64, roomy_i128⟩

theorem nowrap_new (t : IntTy) (ht : Roomy t) (a b : Int) (ha : inGuard t a = true) (hb : inGuard t b = true) :
    new (some t) a b = new none a b :=
  new_nowrap t _ ht.2 ht.1 a b (inGuard_natAbs t a ha) (inGuard_natAbs t b hb)

theorem nowrap_add (t : IntTy) (ht : Roomy t) (a b c d : Int)
    (ha : inGuard t a = true) (hb : inGuard t b = true) (hc : inGuard t c = true) (hd : inGuard t d = true) :
    (new (some t) a b >>= fun x => new (some t) c d >>= fun y => add (some t) x y) =
    (new none a b >>= fun x => new none c d >>= fun y => add none x y) :=
  binary_nowrap t _ ht.1 ht.2 add (add_nowrap t _ ht.2) a b c d
    (inGuard_natAbs t a ha) (inGuard_natAbs t b hb) (inGuard_natAbs t c hc) (inGuard_natAbs t d hd)

theorem nowrap_sub (t : IntTy) (ht : Roomy t) (a b c d : Int)
    (ha : inGuard t a = true) (hb : inGuard t b = true) (hc : inGuard t c = true) (hd : inGuard t d = true) :
    (new (some t) a b >>= fun x => new (some t) c d >>= fun y => sub (some t) x y) =
    (new none a b >>= fun x => new none c d >>= fun y => sub none x y) :=
  binary_nowrap t _ ht.1 ht.2 sub (sub_nowrap t _ ht.2) a b c d
    (inGuard_natAbs t a ha) (inGuard_natAbs t b hb) (inGuard_natAbs t c hc) (inGuard_natAbs t d hd)

theorem nowrap_mul (t : IntTy) (ht : Roomy t) (a b c d : Int)
    (ha : inGuard t a = true) (hb : inGuard t b = true) (hc : inGuard t c = true) (hd : inGuard t d = true) :
    (new (some t) a b >>= fun x => new (some t) c d >>= fun y => mul (some t) x y) =
    (new none a b >>= fun x => new none c d >>= fun y => mul none x y) :=
  binary_nowrap t _ ht.1 ht.2 mul (mul_nowrap t _ ht.2) a b c d
    (inGuard_natAbs t a ha) (inGuard_natAbs t b hb) (inGuard_natAbs t c hc) (inGuard_natAbs t d hd)

theorem nowrap_div (t : IntTy) (ht : Roomy t) (a b c d : Int)
    (ha : inGuard t a = true) (hb : inGuard t b = true) (hc : inGuard t c = true) (hd : inGuard t d = true) :
    (new (some t) a b >>= fun x => new (some t) c d >>= fun y => div (some t) x y) =
    (new none a b >>= fun x => new none c d >>= fun y => div none x y) :=
  binary_nowrap t _ ht.1 ht.2 div (div_nowrap t _ ht.2) a b c d
    (inGuard_natAbs t a ha) (inGuard_natAbs t b hb) (inGuard_natAbs t c hc) (inGuard_natAbs t d hd)

theorem nowrap_cmp (t : IntTy) (ht : Roomy t) (a b c d : Int)
    (ha : inGuard t a = true) (hb : inGuard t b = true) (hc : inGuard t c = true) (hd : inGuard t d = true) :
    (new (some t) a b >>= fun x => new (some t) c d >>= fun y => cmp (some t) x y) =
    (new none a b >>= fun x => new none c d >>= fun y => cmp none x y) :=
  binary_nowrap t _ ht.1 ht.2 cmp (cmp_nowrap t _ ht.2) a b c d
    (inGuard_natAbs t a ha) (inGuard_natAbs t b hb) (inGuard_natAbs t c hc) (inGuard_natAbs t d hd)

theorem nowrap_neg (t : IntTy) (ht : Roomy t) (a b : Int) (ha : inGuard t a = true) (hb : inGuard t b = true) :
    (new (some t) a b >>= fun x => neg (some t) x) = (new none a b >>= fun x => neg none x) :=
  unary_nowrap t _ ht.1 ht.2 neg (neg_nowrap t _ ht.2 ht.1) a b (inGuard_natAbs t a ha) (inGuard_natAbs t b hb)

theorem nowrap_floor (t : IntTy) (ht : Roomy t) (a b : Int) (ha : inGuard t a = true) (hb : inGuard t b = true) :
    (new (some t) a b >>= fun x => floor (some t) x) = (new none a b >>= fun x => floor none x) :=
  unary_nowrap t _ ht.1 ht.2 floor (floor_nowrap t _ ht.2 ht.1) a b (inGuard_natAbs t a ha) (inGuard_natAbs t b hb)

theorem nowrap_ceil (t : IntTy) (ht : Roomy t) (a b : Int) (ha : inGuard t a = true) (hb : inGuard t b = true) :
    (new (some t) a b >>= fun x => ceil (some t) x) = (new none a b >>= fun x => ceil none x) :=
  unary_nowrap t _ ht.1 ht.2 ceil (ceil_nowrap t _ ht.2 ht.1) a b (inGuard_natAbs t a ha) (inGuard_natAbs t b hb)

/-! ### End to end: what the driver prints as `M` (checked machine pipeline) equals what it prints as `S`
(core `Rat` arithmetic on `a/b`, `c/d`) for all guarded inputs with non-zero denominators of either sign -/

theorem new_machine (t : IntTy) (ht : Roomy t) (a b : Int) (hb0 : b ≠ 0)
    (ha : inGuard t a = true) (hb : inGuard t b = true) :
    new (some t) a b = .ok (ofRat (Rat.divInt a b)) := by
  rw [nowrap_new t ht a b ha hb, new_none a b hb0]

theorem add_machine (t : IntTy) (ht : Roomy t) (a b c d : Int) (hb0 : b ≠ 0) (hd0 : d ≠ 0)
    (ha : inGuard t a = true) (hb : inGuard t b = true) (hc : inGuard t c = true) (hd : inGuard t d = true) :
    (new (some t) a b >>= fun x => new (some t) c d >>= fun y => add (some t) x y) =
    .ok (ofRat (Rat.divInt a b + Rat.divInt c d)) := by
  rw [nowrap_add t ht a b c d ha hb hc hd, new_none a b hb0, new_none c d hd0]
  show add none _ _ = _
  rw [add_none _ _ (ofRat_b_ne_zero _) (ofRat_b_ne_zero _), toRat_ofRat, toRat_ofRat]

theorem sub_machine (t : IntTy) (ht : Roomy t) (a b c d : Int) (hb0 : b ≠ 0) (hd0 : d ≠ 0)
    (ha : inGuard t a = true) (hb : inGuard t b = true) (hc : inGuard t c = true) (hd : inGuard t d = true) :
    (new (some t) a b >>= fun x => new (some t) c d >>= fun y => sub (some t) x y) =
    .ok (ofRat (Rat.divInt a b - Rat.divInt c d)) := by
  rw [nowrap_sub t ht a b c d ha hb hc hd, new_none a b hb0, new_none c d hd0]
  show sub none _ _ = _
  rw [sub_none _ _ (ofRat_b_ne_zero _) (ofRat_b_ne_zero _), toRat_ofRat, toRat_ofRat]

theorem mul_machine (t : IntTy) (ht : Roomy t) (a b c d : Int) (hb0 : b ≠ 0) (hd0 : d ≠ 0)
    (ha : inGuard t a = true) (hb : inGuard t b = true) (hc : inGuard t c = true) (hd : inGuard t d = true) :
    (new (some t) a b >>= fun x => new (some t) c d >>= fun y => mul (some t) x y) =
    .ok (ofRat (Rat.divInt a b * Rat.divInt c d)) := by
  rw [nowrap_mul t ht a b c d ha hb hc hd, new_none a b hb0, new_none c d hd0]
  show mul none _ _ = _
  rw [mul_none _ _ (ofRat_b_ne_zero _) (ofRat_b_ne_zero _), toRat_ofRat, toRat_ofRat]

theorem div_machine (t : IntTy) (ht : Roomy t) (a b c d : Int) (hb0 : b ≠ 0) (hd0 : d ≠ 0) (hc0 : c ≠ 0)
    (ha : inGuard t a = true) (hb : inGuard t b = true) (hc : inGuard t c = true) (hd : inGuard t d = true) :
    (new (some t) a b >>= fun x => new (some t) c d >>= fun y => div (some t) x y) =
    .ok (ofRat (Rat.divInt a b / Rat.divInt c d)) := by
  rw [nowrap_div t ht a b c d ha hb hc hd, new_none a b hb0, new_none c d hd0]
  show div none _ _ = _
  rw [div_none _ _ (ofRat_b_ne_zero _) (ofRat_divInt_a_ne_zero c d hc0 hd0), toRat_ofRat, toRat_ofRat]

theorem cmp_machine (t : IntTy) (ht : Roomy t) (a b c d : Int) (hb0 : b ≠ 0) (hd0 : d ≠ 0)
    (ha : inGuard t a = true) (hb : inGuard t b = true) (hc : inGuard t c = true) (hd : inGuard t d = true) :
    (new (some t) a b >>= fun x => new (some t) c d >>= fun y => cmp (some t) x y) =
    .ok (specCmp (Rat.divInt a b) (Rat.divInt c d)) := by
  rw [nowrap_cmp t ht a b c d ha hb hc hd, new_none a b hb0, new_none c d hd0]
  show cmp none _ _ = _
  rw [cmp_none _ _ (ofRat_b_ne_zero _) (ofRat_b_ne_zero _), toRat_ofRat, toRat_ofRat]

/-- `==` on the two constructed values is numeric equality (and then the field pairs fed to `Hash` coincide). -/
theorem eq_machine (t : IntTy) (ht : Roomy t) (a b c d : Int) (hb0 : b ≠ 0) (hd0 : d ≠ 0)
    (ha : inGuard t a = true) (hb : inGuard t b = true) (hc : inGuard t c = true) (hd : inGuard t d = true) :
    (new (some t) a b >>= fun x => new (some t) c d >>= fun y => (pure (decide (x = y)) : Except Panic Bool)) =
    .ok (decide (Rat.divInt a b = Rat.divInt c d)) := by
  rw [new_machine t ht a b hb0 ha hb, new_machine t ht c d hd0 hc hd]
  show Except.ok _ = _
  congr 1
  rw [decide_eq_decide, ← canon_unique _ _ (canon_ofRat _) (canon_ofRat _), toRat_ofRat, toRat_ofRat]

theorem neg_machine (t : IntTy) (ht : Roomy t) (a b : Int) (hb0 : b ≠ 0)
    (ha : inGuard t a = true) (hb : inGuard t b = true) :
    (new (some t) a b >>= fun x => neg (some t) x) = .ok (ofRat (-Rat.divInt a b)) := by
  rw [nowrap_neg t ht a b ha hb, new_none a b hb0]
  show neg none _ = _
  rw [neg_none _ (canon_ofRat _), toRat_ofRat]

theorem floor_machine (t : IntTy) (ht : Roomy t) (a b : Int) (hb0 : b ≠ 0)
    (ha : inGuard t a = true) (hb : inGuard t b = true) :
    (new (some t) a b >>= fun x => floor (some t) x) = .ok ⟨(Rat.divInt a b).floor, 1⟩ := by
  rw [nowrap_floor t ht a b ha hb, new_none a b hb0]
  show floor none _ = _
  rw [floor_none _ (canon_ofRat _), toRat_ofRat]

theorem ceil_machine (t : IntTy) (ht : Roomy t) (a b : Int) (hb0 : b ≠ 0)
    (ha : inGuard t a = true) (hb : inGuard t b = true) :
    (new (some t) a b >>= fun x => ceil (some t) x) = .ok ⟨(Rat.divInt a b).ceil, 1⟩ := by
  rw [nowrap_ceil t ht a b ha hb, new_none a b hb0]
  show ceil none _ = _
  rw [ceil_none _ (canon_ofRat _), toRat_ofRat]

/-! ### Non-vacuity: the hypotheses are satisfiable by concrete, non-trivial states -/

example : Canon ⟨-3, 4⟩ := by decide
example : Canon (newInt (-7)) ∧ toRat (newInt (-7)) = ((-7 : Int) : Rat) ∧ new none (-7) 1 = .ok (newInt (-7)) :=
  newInt_canon (-7)
example : newInt (2 ^ 30) = ofRat ((2 ^ 30 : Int) : Rat) := newInt_machine _
example : new none 6 (-8) = .ok ⟨-3, 4⟩ := by rw [new_none _ _ (by decide)]; decide +kernel
example : ∃ r, new none 6 (-8) = .ok r ∧ Canon r ∧ toRat r = Rat.divInt 6 (-8) := new_canon 6 (-8) (by decide)
example : add none ⟨7, 10⟩ ⟨5, 6⟩ = .ok ⟨23, 15⟩ := by rw [add_none _ _ (by decide) (by decide)]; decide +kernel
example : ∃ r, add none ⟨7, 10⟩ ⟨5, 6⟩ = .ok r ∧ Canon r ∧ toRat r = toRat ⟨7, 10⟩ + toRat ⟨5, 6⟩ :=
  add_spec _ _ (by decide) (by decide)
example : sub none ⟨7, 10⟩ ⟨5, 6⟩ = .ok ⟨-2, 15⟩ := by rw [sub_none _ _ (by decide) (by decide)]; decide +kernel
example : ∃ r, sub none ⟨7, 10⟩ ⟨5, 6⟩ = .ok r ∧ Canon r ∧ toRat r = toRat ⟨7, 10⟩ - toRat ⟨5, 6⟩ :=
  sub_spec _ _ (by decide) (by decide)
example : mul none ⟨7, 10⟩ ⟨-5, 6⟩ = .ok ⟨-7, 12⟩ := by rw [mul_none _ _ (by decide) (by decide)]; decide +kernel
example : ∃ r, mul none ⟨7, 10⟩ ⟨-5, 6⟩ = .ok r ∧ Canon r ∧ toRat r = toRat ⟨7, 10⟩ * toRat ⟨-5, 6⟩ :=
  mul_spec _ _ (by decide) (by decide)
example : div none ⟨7, 10⟩ ⟨-5, 6⟩ = .ok ⟨-21, 25⟩ := by rw [div_none _ _ (by decide) (by decide)]; decide +kernel
example : ∃ r, div none ⟨7, 10⟩ ⟨-5, 6⟩ = .ok r ∧ Canon r ∧ toRat r = toRat ⟨7, 10⟩ / toRat ⟨-5, 6⟩ :=
  div_spec _ _ (by decide) (by decide) (by decide)
example : ∃ r, neg none ⟨-3, 4⟩ = .ok r ∧ Canon r ∧ toRat r = -toRat ⟨-3, 4⟩ := neg_spec _ (by decide)
example : toRat ⟨-3, 4⟩ = toRat ⟨-3, 4⟩ ↔ (⟨-3, 4⟩ : Q) = ⟨-3, 4⟩ := canon_unique _ _ (by decide) (by decide)
example : toRat ⟨1, 2⟩ ≠ toRat ⟨2, 3⟩ := by rw [Ne, canon_unique _ _ (by decide) (by decide)]; decide +kernel
example : ((⟨1, 2⟩ : Q).a, (⟨1, 2⟩ : Q).b) = ((⟨1, 2⟩ : Q).a, (⟨1, 2⟩ : Q).b) :=
  hash_agrees ⟨1, 2⟩ ⟨1, 2⟩ (by decide) (by decide) rfl
example : cmp none ⟨-1, 2⟩ ⟨1, 3⟩ = .ok .lt := by rw [cmp_none _ _ (by decide) (by decide)]; decide +kernel
example : ∃ o, cmp none ⟨-1, 2⟩ ⟨1, 3⟩ = .ok o ∧ (o = .lt ↔ toRat ⟨-1, 2⟩ < toRat ⟨1, 3⟩) :=
  let ⟨o, h, hlt, _⟩ := cmp_spec ⟨-1, 2⟩ ⟨1, 3⟩ (by decide) (by decide); ⟨o, h, hlt⟩
example : cmp none ⟨-1, 2⟩ ⟨-1, 2⟩ = .ok .eq := (cmp_eq_iff_eq _ _ (by decide) (by decide)).mpr rfl
example : floor none ⟨-3, 4⟩ = .ok ⟨-1, 1⟩ := by rw [floor_none _ (by decide)]; decide +kernel
example : floor none ⟨-8, 1⟩ = .ok ⟨-8, 1⟩ := by rw [floor_none _ (by decide)]; decide +kernel
example : ∃ n : Int, floor none ⟨-3, 4⟩ = .ok ⟨n, 1⟩ ∧ (n : Rat) ≤ toRat ⟨-3, 4⟩ :=
  let ⟨n, h, hle, _⟩ := floor_spec ⟨-3, 4⟩ (by decide); ⟨n, h, hle⟩
example : ceil none ⟨-3, 4⟩ = .ok ⟨0, 1⟩ := by rw [ceil_none _ (by decide)]; decide +kernel
example : ceil none ⟨7, 2⟩ = .ok ⟨4, 1⟩ := by rw [ceil_none _ (by decide)]; decide +kernel
example : ∃ n : Int, ceil none ⟨7, 2⟩ = .ok ⟨n, 1⟩ ∧ toRat ⟨7, 2⟩ ≤ (n : Rat) :=
  let ⟨n, h, hle, _⟩ := ceil_spec ⟨7, 2⟩ (by decide); ⟨n, h, hle⟩
-- the guard at its boundary (2^30 for i64, negative denominators)
example : new (some ⟨true, 64⟩) (2 ^ 30) (-(2 ^ 30) + 1) = new none (2 ^ 30) (-(2 ^ 30) + 1) :=
  nowrap_new _ guard_roomy.2.1 _ _ (by decide) (by decide)
example : (new (some ⟨true, 64⟩) (2 ^ 30) (-(2 ^ 30) + 1) >>= fun x => new (some ⟨true, 64⟩) (-(2 ^ 30)) (2 ^ 30 - 3) >>= fun y =>
      add (some ⟨true, 64⟩) x y) =
    .ok (ofRat (Rat.divInt (2 ^ 30) (-(2 ^ 30) + 1) + Rat.divInt (-(2 ^ 30)) (2 ^ 30 - 3))) :=
  add_machine _ guard_roomy.2.1 _ _ _ _ (by decide) (by decide) (by decide) (by decide) (by decide) (by decide)
example : (new (some ⟨true, 32⟩) (2 ^ 14) (-3) >>= fun x => new (some ⟨true, 32⟩) 5 (2 ^ 14) >>= fun y => mul (some ⟨true, 32⟩) x y) =
    (new none (2 ^ 14) (-3) >>= fun x => new none 5 (2 ^ 14) >>= fun y => mul none x y) :=
  nowrap_mul _ guard_roomy.1 _ _ _ _ (by decide) (by decide) (by decide) (by decide)
example : (new (some ⟨true, 128⟩) (-(2 ^ 62)) 7 >>= fun x => floor (some ⟨true, 128⟩) x) =
    (new none (-(2 ^ 62)) 7 >>= fun x => floor none x) :=
  nowrap_floor _ guard_roomy.2.2 _ _ (by decide) (by decide)
example : (new (some ⟨true, 128⟩) (-(2 ^ 62)) 7 >>= fun x => floor (some ⟨true, 128⟩) x) =
    .ok ⟨(Rat.divInt (-(2 ^ 62)) 7).floor, 1⟩ :=
  floor_machine _ guard_roomy.2.2 _ _ (by decide) (by decide) (by decide)
example : (new (some ⟨true, 128⟩) (2 ^ 62 - 1) (-7) >>= fun x => ceil (some ⟨true, 128⟩) x) =
    .ok ⟨(Rat.divInt (2 ^ 62 - 1) (-7)).ceil, 1⟩ :=
  ceil_machine _ guard_roomy.2.2 _ _ (by decide) (by decide) (by decide)
example : new (some ⟨true, 32⟩) (-(2 ^ 14)) (-6) = .ok (ofRat (Rat.divInt (-(2 ^ 14)) (-6))) :=
  new_machine _ guard_roomy.1 _ _ (by decide) (by decide) (by decide)
example : (new (some ⟨true, 64⟩) 3 (-(2 ^ 30)) >>= fun x => new (some ⟨true, 64⟩) (-(2 ^ 30)) 7 >>= fun y => sub (some ⟨true, 64⟩) x y) =
    .ok (ofRat (Rat.divInt 3 (-(2 ^ 30)) - Rat.divInt (-(2 ^ 30)) 7)) :=
  sub_machine _ guard_roomy.2.1 _ _ _ _ (by decide) (by decide) (by decide) (by decide) (by decide) (by decide)
example : (new (some ⟨true, 64⟩) 3 (-(2 ^ 30)) >>= fun x => new (some ⟨true, 64⟩) (-(2 ^ 30)) 7 >>= fun y => mul (some ⟨true, 64⟩) x y) =
    .ok (ofRat (Rat.divInt 3 (-(2 ^ 30)) * Rat.divInt (-(2 ^ 30)) 7)) :=
  mul_machine _ guard_roomy.2.1 _ _ _ _ (by decide) (by decide) (by decide) (by decide) (by decide) (by decide)
example : (new (some ⟨true, 64⟩) 3 (-(2 ^ 30)) >>= fun x => new (some ⟨true, 64⟩) (-(2 ^ 30)) 7 >>= fun y => div (some ⟨true, 64⟩) x y) =
    .ok (ofRat (Rat.divInt 3 (-(2 ^ 30)) / Rat.divInt (-(2 ^ 30)) 7)) :=
  div_machine _ guard_roomy.2.1 _ _ _ _ (by decide) (by decide) (by decide) (by decide) (by decide) (by decide) (by decide)
example : (new (some ⟨true, 64⟩) 3 (-(2 ^ 30)) >>= fun x => new (some ⟨true, 64⟩) (-(2 ^ 30)) 7 >>= fun y => cmp (some ⟨true, 64⟩) x y) =
    .ok (specCmp (Rat.divInt 3 (-(2 ^ 30))) (Rat.divInt (-(2 ^ 30)) 7)) :=
  cmp_machine _ guard_roomy.2.1 _ _ _ _ (by decide) (by decide) (by decide) (by decide) (by decide) (by decide)
example : (new (some ⟨true, 64⟩) 3 (-6) >>= fun x => new (some ⟨true, 64⟩) (-2) 4 >>= fun y => (pure (decide (x = y)) : Except Panic Bool)) =
    .ok (decide (Rat.divInt 3 (-6) = Rat.divInt (-2) 4)) :=
  eq_machine _ guard_roomy.2.1 _ _ _ _ (by decide) (by decide) (by decide) (by decide) (by decide) (by decide)
example : (new (some ⟨true, 32⟩) 5 (-(2 ^ 14)) >>= fun x => neg (some ⟨true, 32⟩) x) = .ok (ofRat (-Rat.divInt 5 (-(2 ^ 14)))) :=
  neg_machine _ guard_roomy.1 _ _ (by decide) (by decide) (by decide)

end Rlib.C07
