import RlibModel.Lemmas.Rational
/-!
# C07 — Rational arithmetic is exact and canonical; order and equality follow the value

Property theorems only; helper lemmas are in `Lemmas/Rational.lean`, the model in `Model/Rational.lean`.

* `Q` = the two public fields; `toRat x = x.a / x.b` in core Lean's `Rat` (= Mathlib's `ℚ`);
  `Canon x` = positive denominator and lowest terms.
* Every model function takes `t : Option IntTy`: `none` = unbounded integers (first group of theorems: exact
  value and canonical form for *all* inputs with non-zero denominators), `some ty` = the machine instantiation with
  every operation checked (`nowrap_*`: under the magnitude guard `|·| ≤ 2^(bits/2−2)` it computes exactly what
  `none` computes — this is what the driver executes, through the same `new … >>= op` pipeline).
* by-value / by-reference / assigning operator forms forward to one implementation in the Rust source; they are
  one model function, and the correspondence run checks that the four forms agree.
-/
namespace Rlib.C07
open Rlib.Rational

/-- `new a b` (any sign of `b ≠ 0`) is in lowest terms with positive denominator and denotes `a / b`. -/
theorem new_canon (a b : Int) (hb : b ≠ 0) :
    ∃ r, new none a b = .ok r ∧ Canon r ∧ toRat r = Rat.divInt a b :=
  ⟨_, new_none a b hb, canon_ofRat _, toRat_ofRat _⟩

/-- `new_int n` (the constructor that skips normalisation) is canonical, denotes the integer `n`, and is the very
    value `new n 1` builds — so `==`, `cmp` and `Hash` cannot tell the two constructors apart. -/
theorem newInt_canon (n : Int) :
    Canon (newInt n) ∧ toRat (newInt n) = (n : Rat) ∧ new none n 1 = .ok (newInt n) := by
  have hc : Canon (newInt n) := ⟨show (0 : Int) < 1 by decide, Int.gcd_one_right n⟩
  have hv : toRat (newInt n) = (n : Rat) := by
    show Rat.divInt n 1 = (n : Rat)
    rw [Rat.divInt_eq_div]; simp
  refine ⟨hc, hv, ?_⟩
  rw [new_none n 1 (by decide), eq_ofRat_of_canon _ hc]
  rfl

/-- What the driver prints as `M` for `newint` equals what it prints as `S`. -/
theorem newInt_machine (n : Int) : newInt n = ofRat (n : Rat) := by
  obtain ⟨hc, hv, _⟩ := newInt_canon n
  rw [eq_ofRat_of_canon _ hc, hv]

/-- `+`: exact sum, canonical result. -/
theorem add_spec (x y : Q) (hx : Canon x) (hy : Canon y) :
    ∃ r, add none x y = .ok r ∧ Canon r ∧ toRat r = toRat x + toRat y :=
  ⟨_, add_none x y (by have := hx.1; omega) (by have := hy.1; omega), canon_ofRat _, toRat_ofRat _⟩

/-- `-`: exact difference, canonical result. -/
theorem sub_spec (x y : Q) (hx : Canon x) (hy : Canon y) :
    ∃ r, sub none x y = .ok r ∧ Canon r ∧ toRat r = toRat x - toRat y :=
  ⟨_, sub_none x y (by have := hx.1; omega) (by have := hy.1; omega), canon_ofRat _, toRat_ofRat _⟩

/-- `*`: exact product, canonical result. -/
theorem mul_spec (x y : Q) (hx : Canon x) (hy : Canon y) :
    ∃ r, mul none x y = .ok r ∧ Canon r ∧ toRat r = toRat x * toRat y :=
  ⟨_, mul_none x y (by have := hx.1; omega) (by have := hy.1; omega), canon_ofRat _, toRat_ofRat _⟩

/-- `/` by a non-zero value: exact quotient, canonical result (the sign of a negative divisor moves to the numerator). -/
theorem div_spec (x y : Q) (hx : Canon x) (_hy : Canon y) (hy0 : y.a ≠ 0) :
    ∃ r, div none x y = .ok r ∧ Canon r ∧ toRat r = toRat x / toRat y :=
  ⟨_, div_none x y (by have := hx.1; omega) hy0, canon_ofRat _, toRat_ofRat _⟩

/-- unary `-`: exact negation, canonical result. -/
theorem neg_spec (x : Q) (hx : Canon x) :
    ∃ r, neg none x = .ok r ∧ Canon r ∧ toRat r = -toRat x :=
  ⟨_, neg_none x hx, canon_ofRat _, toRat_ofRat _⟩

/-- Canonical forms are unique: numeric equality is structural equality (what the derived `==` tests). -/
theorem canon_unique (x y : Q) (hx : Canon x) (hy : Canon y) : toRat x = toRat y ↔ x = y := by
  constructor
  · intro h; rw [eq_ofRat_of_canon x hx, eq_ofRat_of_canon y hy, h]
  · intro h; rw [h]

/-- Equal values have equal field pairs — all that the derived `Hash` consumes — so they hash alike. -/
theorem hash_agrees (x y : Q) (hx : Canon x) (hy : Canon y) (h : toRat x = toRat y) : (x.a, x.b) = (y.a, y.b) := by
  rw [(canon_unique x y hx hy).mp h]

/-- `cmp` is the numeric order: `lt`/`eq`/`gt` exactly when the value is smaller/equal/greater. -/
theorem cmp_spec (x y : Q) (hx : Canon x) (hy : Canon y) :
    ∃ o, cmp none x y = .ok o ∧ (o = .lt ↔ toRat x < toRat y) ∧ (o = .eq ↔ toRat x = toRat y) ∧
      (o = .gt ↔ toRat y < toRat x) := by
  refine ⟨_, cmp_none x y (by have := hx.1; omega) (by have := hy.1; omega), ?_, ?_, ?_⟩
  all_goals unfold specCmp
  · by_cases c1 : toRat x < toRat y <;> by_cases c2 : toRat x = toRat y <;> simp [c1, c2]
  · by_cases c1 : toRat x < toRat y
    · simp only [if_pos c1, reduceCtorEq, false_iff]
      exact fun h => Rat.lt_irrefl (h ▸ c1)
    · by_cases c2 : toRat x = toRat y <;> simp [c1, c2]
  · by_cases c1 : toRat x < toRat y
    · simp only [if_pos c1, reduceCtorEq, false_iff]
      exact fun h => (Rat.not_lt.mpr (Rat.le_of_lt h)) c1
    · by_cases c2 : toRat x = toRat y
      · simp only [if_neg c1, if_pos c2, reduceCtorEq, false_iff]
        rw [c2]; exact Rat.lt_irrefl
      · simp only [if_neg c1, if_neg c2, true_iff]
        rcases Rat.le_iff_lt_or_eq.mp (Rat.not_lt.mp c1) with h | h
        · exact h
        · exact absurd h.symm c2

/-- `cmp` is consistent with structural `==`. -/
theorem cmp_eq_iff_eq (x y : Q) (hx : Canon x) (hy : Canon y) : cmp none x y = .ok .eq ↔ x = y := by
  obtain ⟨o, ho, _, he, _⟩ := cmp_spec x y hx hy
  rw [ho, ← canon_unique x y hx hy, ← he]
  constructor
  · intro h; injection h
  · intro h; rw [h]

/-- `floor` returns the integer `n/1` with `n ≤ x < n + 1`, the greatest integer below `x`, for either sign. -/
theorem floor_spec (x : Q) (hx : Canon x) :
    ∃ n : Int, floor none x = .ok ⟨n, 1⟩ ∧ (n : Rat) ≤ toRat x ∧ toRat x < ((n + 1 : Int) : Rat) ∧
      ∀ m : Int, (m : Rat) ≤ toRat x → m ≤ n :=
  ⟨_, floor_none x hx, Rat.floor_le _, Rat.lt_floor_add_one _, fun _ h => Rat.le_floor_iff.mpr h⟩

/-- `ceil` returns the integer `n/1` with `n − 1 < x ≤ n`, the least integer above `x`, for either sign. -/
theorem ceil_spec (x : Q) (hx : Canon x) :
    ∃ n : Int, ceil none x = .ok ⟨n, 1⟩ ∧ toRat x ≤ (n : Rat) ∧ ∀ m : Int, toRat x ≤ (m : Rat) → n ≤ m :=
  ⟨_, ceil_none x hx, Rat.le_ceil, fun _ h => Rat.ceil_le_iff.mpr h⟩

/-! ### No wrap under the magnitude guard: the machine instantiation equals the unbounded one -/

/-- The guard leaves room in each of the three instantiations of the property. -/
theorem guard_roomy : Roomy ⟨true, 32⟩ ∧ Roomy ⟨true, 64⟩ ∧ Roomy ⟨true, 128⟩ := ⟨roomy_i32, roomy_i64, roomy_i128⟩

theorem nowrap_new (t : IntTy) (ht : Roomy t) (a b : Int) (ha : inGuard t a = true) (hb : inGuard t b = true) :
    new (some t) a b = new none a b :=
  new_nowrap t _ ht.2 ht.1 a b (inGuard_natAbs t a ha) (inGuard_natAbs t b hb)

theorem nowrap_add (t : IntTy) (ht : Roomy t) (a b c d : Int)
    (ha : inGuard t a = true) (hb : inGuard t b = true) (hc : inGuard t c = true) (hd : inGuard t d = true) :
    (new (some t) a b >>= fun x => new (some t) c d >>= fun y => add (some t) x y) =
    (new none a b >>= fun x => new none c d >>= fun y => add none x y) :=
  binary_nowrap t _ ht.1 ht.2 add (add_nowrap t _ ht.2) a b c d
    (inGuard_natAbs t a ha) (inGuard_natAbs t b hb) (inGuard_natAbs t c hc) (inGuard_natAbs t d hd)

theorem nowrap_sub (t : IntTy) (ht : Roomy t) (a b c d : Int)
    (ha : inGuard t a = true) (hb : inGuard t b = true) (hc : inGuard t c = true) (hd : inGuard t d = true) :
    (new (some t) a b >>= fun x => new (some t) c d >>= fun y => sub (some t) x y) =
    (new none a b >>= fun x => new none c d >>= fun y => sub none x y) :=
  binary_nowrap t _ ht.1 ht.2 sub (sub_nowrap t _ ht.2) a b c d
    (inGuard_natAbs t a ha) (inGuard_natAbs t b hb) (inGuard_natAbs t c hc) (inGuard_natAbs t d hd)

theorem nowrap_mul (t : IntTy) (ht : Roomy t) (a b c d : Int)
    (ha : inGuard t a = true) (hb : inGuard t b = true) (hc : inGuard t c = true) (hd : inGuard t d = true) :
    (new (some t) a b >>= fun x => new (some t) c d >>= fun y => mul (some t) x y) =
    (new none a b >>= fun x => new none c d >>= fun y => mul none x y) :=
  binary_nowrap t _ ht.1 ht.2 mul (mul_nowrap t _ ht.2) a b c d
    (inGuard_natAbs t a ha) (inGuard_natAbs t b hb) (inGuard_natAbs t c hc) (inGuard_natAbs t d hd)

theorem nowrap_div (t : IntTy) (ht : Roomy t) (a b c d : Int)
    (ha : inGuard t a = true) (hb : inGuard t b = true) (hc : inGuard t c = true) (hd : inGuard t d = true) :
    (new (some t) a b >>= fun x => new (some t) c d >>= fun y => div (some t) x y) =
    (new none a b >>= fun x => new none c d >>= fun y => div none x y) :=
  binary_nowrap t _ ht.1 ht.2 div (div_nowrap t _ ht.2) a b c d
    (inGuard_natAbs t a ha) (inGuard_natAbs t b hb) (inGuard_natAbs t c hc) (inGuard_natAbs t d hd)

theorem nowrap_cmp (t : IntTy) (ht : Roomy t) (a b c d : Int)
    (ha : inGuard t a = true) (hb : inGuard t b = true) (hc : inGuard t c = true) (hd : inGuard t d = true) :
    (new (some t) a b >>= fun x => new (some t) c d >>= fun y => cmp (some t) x y) =
    (new none a b >>= fun x => new none c d >>= fun y => cmp none x y) :=
  binary_nowrap t _ ht.1 ht.2 cmp (cmp_nowrap t _ ht.2) a b c d
    (inGuard_natAbs t a ha) (inGuard_natAbs t b hb) (inGuard_natAbs t c hc) (inGuard_natAbs t d hd)

theorem nowrap_neg (t : IntTy) (ht : Roomy t) (a b : Int) (ha : inGuard t a = true) (hb : inGuard t b = true) :
    (new (some t) a b >>= fun x => neg (some t) x) = (new none a b >>= fun x => neg none x) :=
  unary_nowrap t _ ht.1 ht.2 neg (neg_nowrap t _ ht.2 ht.1) a b (inGuard_natAbs t a ha) (inGuard_natAbs t b hb)

theorem nowrap_floor (t : IntTy) (ht : Roomy t) (a b : Int) (ha : inGuard t a = true) (hb : inGuard t b = true) :
    (new (some t) a b >>= fun x => floor (some t) x) = (new none a b >>= fun x => floor none x) :=
  unary_nowrap t _ ht.1 ht.2 floor (floor_nowrap t _ ht.2 ht.1) a b (inGuard_natAbs t a ha) (inGuard_natAbs t b hb)

theorem nowrap_ceil (t : IntTy) (ht : Roomy t) (a b : Int) (ha : inGuard t a = true) (hb : inGuard t b = true) :
    (new (some t) a b >>= fun x => ceil (some t) x) = (new none a b >>= fun x => ceil none x) :=
  unary_nowrap t _ ht.1 ht.2 ceil (ceil_nowrap t _ ht.2 ht.1) a b (inGuard_natAbs t a ha) (inGuard_natAbs t b hb)

/-! ### End to end: what the driver prints as `M` (checked machine pipeline) equals what it prints as `S`
(core `Rat` arithmetic on `a/b`, `c/d`) for all guarded inputs with non-zero denominators of either sign -/

theorem new_machine (t : IntTy) (ht : Roomy t) (a b : Int) (hb0 : b ≠ 0)
    (ha : inGuard t a = true) (hb : inGuard t b = true) :
    new (some t) a b = .ok (ofRat (Rat.divInt a b)) := by
  rw [nowrap_new t ht a b ha hb, new_none a b hb0]

theorem add_machine (t : IntTy) (ht : Roomy t) (a b c d : Int) (hb0 : b ≠ 0) (hd0 : d ≠ 0)
    (ha : inGuard t a = true) (hb : inGuard t b = true) (hc : inGuard t c = true) (hd : inGuard t d = true) :
    (new (some t) a b >>= fun x => new (some t) c d >>= fun y => add (some t) x y) =
    .ok (ofRat (Rat.divInt a b + Rat.divInt c d)) := by
  rw [nowrap_add t ht a b c d ha hb hc hd, new_none a b hb0, new_none c d hd0]
  show add none _ _ = _
  rw [add_none _ _ (ofRat_b_ne_zero _) (ofRat_b_ne_zero _), toRat_ofRat, toRat_ofRat]

theorem sub_machine (t : IntTy) (ht : Roomy t) (a b c d : Int) (hb0 : b ≠ 0) (hd0 : d ≠ 0)
    (ha : inGuard t a = true) (hb : inGuard t b = true) (hc : inGuard t c = true) (hd : inGuard t d = true) :
    (new (some t) a b >>= fun x => new (some t) c d >>= fun y => sub (some t) x y) =
    .ok (ofRat (Rat.divInt a b - Rat.divInt c d)) := by
  rw [nowrap_sub t ht a b c d ha hb hc hd, new_none a b hb0, new_none c d hd0]
  show sub none _ _ = _
  rw [sub_none _ _ (ofRat_b_ne_zero _) (ofRat_b_ne_zero _), toRat_ofRat, toRat_ofRat]

theorem mul_machine (t : IntTy) (ht : Roomy t) (a b c d : Int) (hb0 : b ≠ 0) (hd0 : d ≠ 0)
    (ha : inGuard t a = true) (hb : inGuard t b = true) (hc : inGuard t c = true) (hd : inGuard t d = true) :
    (new (some t) a b >>= fun x => new (some t) c d >>= fun y => mul (some t) x y) =
    .ok (ofRat (Rat.divInt a b * Rat.divInt c d)) := by
  rw [nowrap_mul t ht a b c d ha hb hc hd, new_none a b hb0, new_none c d hd0]
  show mul none _ _ = _
  rw [mul_none _ _ (ofRat_b_ne_zero _) (ofRat_b_ne_zero _), toRat_ofRat, toRat_ofRat]

theorem div_machine (t : IntTy) (ht : Roomy t) (a b c d : Int) (hb0 : b ≠ 0) (hd0 : d ≠ 0) (hc0 : c ≠ 0)
    (ha : inGuard t a = true) (hb : inGuard t b = true) (hc : inGuard t c = true) (hd : inGuard t d = true) :
    (new (some t) a b >>= fun x => new (some t) c d >>= fun y => div (some t) x y) =
    .ok (ofRat (Rat.divInt a b / Rat.divInt c d)) := by
  rw [nowrap_div t ht a b c d ha hb hc hd, new_none a b hb0, new_none c d hd0]
  show div none _ _ = _
  rw [div_none _ _ (ofRat_b_ne_zero _) (ofRat_divInt_a_ne_zero c d hc0 hd0), toRat_ofRat, toRat_ofRat]

theorem cmp_machine (t : IntTy) (ht : Roomy t) (a b c d : Int) (hb0 : b ≠ 0) (hd0 : d ≠ 0)
    (ha : inGuard t a = true) (hb : inGuard t b = true) (hc : inGuard t c = true) (hd : inGuard t d = true) :
    (new (some t) a b >>= fun x => new (some t) c d >>= fun y => cmp (some t) x y) =
    .ok (specCmp (Rat.divInt a b) (Rat.divInt c d)) := by
  rw [nowrap_cmp t ht a b c d ha hb hc hd, new_none a b hb0, new_none c d hd0]
  show cmp none _ _ = _
  rw [cmp_none _ _ (ofRat_b_ne_zero _) (ofRat_b_ne_zero _), toRat_ofRat, toRat_ofRat]

/-- `==` on the two constructed values is numeric equality (and then the field pairs fed to `Hash` coincide). -/
theorem eq_machine (t : IntTy) (ht : Roomy t) (a b c d : Int) (hb0 : b ≠ 0) (hd0 : d ≠ 0)
    (ha : inGuard t a = true) (hb : inGuard t b = true) (hc : inGuard t c = true) (hd : inGuard t d = true) :
    (new (some t) a b >>= fun x => new (some t) c d >>= fun y => (pure (decide (x = y)) : Except Panic Bool)) =
    .ok (decide (Rat.divInt a b = Rat.divInt c d)) := by
  rw [new_machine t ht a b hb0 ha hb, new_machine t ht c d hd0 hc hd]
  show Except.ok _ = _
  congr 1
  rw [decide_eq_decide, ← canon_unique _ _ (canon_ofRat _) (canon_ofRat _), toRat_ofRat, toRat_ofRat]

theorem neg_machine (t : IntTy) (ht : Roomy t) (a b : Int) (hb0 : b ≠ 0)
    (ha : inGuard t a = true) (hb : inGuard t b = true) :
    (new (some t) a b >>= fun x => neg (some t) x) = .ok (ofRat (-Rat.divInt a b)) := by
  rw [nowrap_neg t ht a b ha hb, new_none a b hb0]
  show neg none _ = _
  rw [neg_none _ (canon_ofRat _), toRat_ofRat]

theorem floor_machine (t : IntTy) (ht : Roomy t) (a b : Int) (hb0 : b ≠ 0)
    (ha : inGuard t a = true) (hb : inGuard t b = true) :
    (new (some t) a b >>= fun x => floor (some t) x) = .ok ⟨(Rat.divInt a b).floor, 1⟩ := by
  rw [nowrap_floor t ht a b ha hb, new_none a b hb0]
  show floor none _ = _
  rw [floor_none _ (canon_ofRat _), toRat_ofRat]

theorem ceil_machine (t : IntTy) (ht : Roomy t) (a b : Int) (hb0 : b ≠ 0)
    (ha : inGuard t a = true) (hb : inGuard t b = true) :
    (new (some t) a b >>= fun x => ceil (some t) x) = .ok ⟨(Rat.divInt a b).ceil, 1⟩ := by
  rw [nowrap_ceil t ht a b ha hb, new_none a b hb0]
  show ceil none _ = _
  rw [ceil_none _ (canon_ofRat _), toRat_ofRat]

/-! ### Up to the true edge of the type: every signed width, no guard box

`domNew`, `BinOp.dom` (= `domAdd domSub domMul domDiv`), `domFloor`, `domCeil` (`Model/Rational.lean`) say for ONE concrete
input that the cross products the operation is specified to form fit the type (and have an absolute value where `norm`'s
gcd needs one).  On exactly that domain — which contains the guard box (`guard_inside_edge`) and reaches the limit of the
type — the checked machine pipeline the driver executes returns the value of core `Rat` arithmetic.  The driver prints a
definite `S` precisely when these predicates hold, so `i8`, `i16`, `i32`, `i64`, `i128`, `isize` are all compared with the
specification up to their own overflow threshold.  `==`, `Hash`, `neg`, `Display` need nothing beyond `domNew`. -/

theorem new_edge_machine (t : IntTy) (hs : t.signed = true) (a b : Int) (h : domNew t a b = true) :
    new (some t) a b = .ok (ofRat (Rat.divInt a b)) := (new_edge_ofRat t hs a b h).1

/-- `+ − × ÷` (`op.apply` is `add`/`sub`/`mul`/`div` of the model, `op.spec` the operation of `Rat`). -/
theorem binop_edge_machine (t : IntTy) (hs : t.signed = true) (op : BinOp) (a b c d : Int)
    (h1 : domNew t a b = true) (h2 : domNew t c d = true)
    (h : op.dom t (ofRat (Rat.divInt a b)) (ofRat (Rat.divInt c d)) = true) :
    (new (some t) a b >>= fun x => new (some t) c d >>= fun y => op.apply (some t) x y) =
    .ok (ofRat (op.spec (Rat.divInt a b) (Rat.divInt c d))) := by
  rw [new_edge_machine t hs a b h1, new_edge_machine t hs c d h2]
  show op.apply (some t) _ _ = _
  rw [binop_edge t hs op _ _ h, binop_none op _ _ (ofRat_b_ne_zero _) (ofRat_b_ne_zero _), toRat_ofRat, toRat_ofRat]
  intro hop
  subst hop
  simp only [BinOp.dom, domDiv, Bool.and_eq_true, decide_eq_true_eq] at h
  exact h.1.1

theorem cmp_edge_machine (t : IntTy) (hs : t.signed = true) (a b c d : Int)
    (h1 : domNew t a b = true) (h2 : domNew t c d = true)
    (h : domSub t (ofRat (Rat.divInt a b)) (ofRat (Rat.divInt c d)) = true) :
    (new (some t) a b >>= fun x => new (some t) c d >>= fun y => cmp (some t) x y) =
    .ok (specCmp (Rat.divInt a b) (Rat.divInt c d)) := by
  rw [new_edge_machine t hs a b h1, new_edge_machine t hs c d h2]
  show cmp (some t) _ _ = _
  rw [cmp_edge t hs _ _ h, cmp_none _ _ (ofRat_b_ne_zero _) (ofRat_b_ne_zero _), toRat_ofRat, toRat_ofRat]

/-- `==` (structural) is numeric equality for ALL representable operands: it forms no product, so it has no overflow
    domain beyond the one of the two constructor calls. -/
theorem eq_edge_machine (t : IntTy) (hs : t.signed = true) (a b c d : Int)
    (h1 : domNew t a b = true) (h2 : domNew t c d = true) :
    (new (some t) a b >>= fun x => new (some t) c d >>= fun y => (pure (decide (x = y)) : Except Panic Bool)) =
    .ok (decide (Rat.divInt a b = Rat.divInt c d)) := by
  rw [new_edge_machine t hs a b h1, new_edge_machine t hs c d h2]
  show Except.ok _ = _
  congr 1
  rw [decide_eq_decide, ← canon_unique _ _ (canon_ofRat _) (canon_ofRat _), toRat_ofRat, toRat_ofRat]

theorem neg_edge_machine (t : IntTy) (hs : t.signed = true) (a b : Int) (h : domNew t a b = true) :
    (new (some t) a b >>= fun x => neg (some t) x) = .ok (ofRat (-Rat.divInt a b)) := by
  obtain ⟨hn, ha, _⟩ := new_edge_ofRat t hs a b h
  rw [hn]
  show neg (some t) _ = _
  rw [neg_edge t hs _ ha, neg_none _ (canon_ofRat _), toRat_ofRat]

theorem floor_edge_machine (t : IntTy) (hs : t.signed = true) (a b : Int) (h : domNew t a b = true)
    (hf : domFloor t (ofRat (Rat.divInt a b)) = true) :
    (new (some t) a b >>= fun x => floor (some t) x) = .ok ⟨(Rat.divInt a b).floor, 1⟩ := by
  obtain ⟨hn, ha, _⟩ := new_edge_ofRat t hs a b h
  rw [hn]
  show floor (some t) _ = _
  rw [floor_edge t hs _ (canon_ofRat _).1 (fits_of_magOk t hs _ ha) hf, floor_none _ (canon_ofRat _), toRat_ofRat]

theorem ceil_edge_machine (t : IntTy) (hs : t.signed = true) (a b : Int) (h : domNew t a b = true)
    (hf : domCeil t (ofRat (Rat.divInt a b)) = true) :
    (new (some t) a b >>= fun x => ceil (some t) x) = .ok ⟨(Rat.divInt a b).ceil, 1⟩ := by
  obtain ⟨hn, ha, _⟩ := new_edge_ofRat t hs a b h
  rw [hn]
  show ceil (some t) _ = _
  rw [ceil_edge t hs _ (canon_ofRat _).1 (fits_of_magOk t hs _ ha) hf, ceil_none _ (canon_ofRat _), toRat_ofRat]

/-- Re-use of a returned value: `(x op1 y) op2 z` with the intermediate result fed back as an operand. -/
theorem chain_edge_machine (t : IntTy) (hs : t.signed = true) (op1 op2 : BinOp) (a b c d e f : Int)
    (h1 : domNew t a b = true) (h2 : domNew t c d = true) (h3 : domNew t e f = true)
    (hop1 : op1.dom t (ofRat (Rat.divInt a b)) (ofRat (Rat.divInt c d)) = true)
    (hop2 : op2.dom t (ofRat (op1.spec (Rat.divInt a b) (Rat.divInt c d))) (ofRat (Rat.divInt e f)) = true) :
    (new (some t) a b >>= fun x => new (some t) c d >>= fun y => new (some t) e f >>= fun z =>
      op1.apply (some t) x y >>= fun r => op2.apply (some t) r z) =
    .ok (ofRat (op2.spec (op1.spec (Rat.divInt a b) (Rat.divInt c d)) (Rat.divInt e f))) := by
  have hd1 : op1 = .div → (ofRat (Rat.divInt c d)).a ≠ 0 := by
    intro hop; subst hop
    simp only [BinOp.dom, domDiv, Bool.and_eq_true, decide_eq_true_eq] at hop1
    exact hop1.1.1
  have hd2 : op2 = .div → (ofRat (Rat.divInt e f)).a ≠ 0 := by
    intro hop; subst hop
    simp only [BinOp.dom, domDiv, Bool.and_eq_true, decide_eq_true_eq] at hop2
    exact hop2.1.1
  rw [new_edge_machine t hs a b h1, new_edge_machine t hs c d h2, new_edge_machine t hs e f h3]
  show (op1.apply (some t) _ _ >>= fun r => op2.apply (some t) r _) = _
  rw [binop_edge t hs op1 _ _ hop1, binop_none op1 _ _ (ofRat_b_ne_zero _) (ofRat_b_ne_zero _) hd1, toRat_ofRat, toRat_ofRat]
  show op2.apply (some t) _ _ = _
  rw [binop_edge t hs op2 _ _ hop2, binop_none op2 _ _ (ofRat_b_ne_zero _) (ofRat_b_ne_zero _) hd2, toRat_ofRat, toRat_ofRat]

/-- The guard box of the property lies inside the edge domain: the definite answers of the driver cover it. -/
theorem guard_inside_edge (t : IntTy) (hs : t.signed = true) (ht : Roomy t) (a b c d : Int) (hb0 : b ≠ 0) (hd0 : d ≠ 0)
    (ha : inGuard t a = true) (hb : inGuard t b = true) (hc : inGuard t c = true) (hd : inGuard t d = true) :
    let x := ofRat (Rat.divInt a b); let y := ofRat (Rat.divInt c d)
    domAdd t x y = true ∧ domSub t x y = true ∧ domMul t x y = true ∧ (y.a ≠ 0 → domDiv t x y = true) :=
  small_dom t hs _ ht.2 _ _
    (new_small _ a b (inGuard_natAbs t a ha) (inGuard_natAbs t b hb) _ (new_none a b hb0))
    (new_small _ c d (inGuard_natAbs t c hc) (inGuard_natAbs t d hd) _ (new_none c d hd0))

/-- Several values at once (`sort`, `min`, `max`, `BTreeSet`, `binary_search`, `clamp`): inside `domPairs` every
    comparison the standard library may ask for — any ordered pair, a value with itself included — is answered by the
    machine `cmp` exactly as the numeric order says, so a correct comparison sort returns `sortSpec`. -/
theorem cmp_pairs_edge (t : IntTy) (hs : t.signed = true) (xs : List Q) (h : domPairs t xs = true)
    (x y : Q) (hx : x ∈ xs) (hy : y ∈ xs) (hxb : x.b ≠ 0) (hyb : y.b ≠ 0) :
    cmp (some t) x y = .ok (specCmp (toRat x) (toRat y)) := by
  simp only [domPairs, List.all_eq_true] at h
  rw [cmp_edge t hs x y (h x hx y hy), cmp_none x y hxb hyb]

/-- The specification of the sorted order is a permutation of the values in non-decreasing numeric order. -/
theorem sortSpec_spec (ps : List Rat) : (sortSpec ps).Perm ps ∧ (sortSpec ps).Pairwise (fun p q => p ≤ q) :=
  ⟨sortSpec_perm ps, sortSpec_sorted ps⟩

/-- …and it is the only such arrangement: whatever correct sort / ordered collection the caller uses returns `sortSpec`. -/
theorem sortSpec_only (ps qs : List Rat) (hperm : qs.Perm ps) (hsorted : qs.Pairwise (fun p q => p ≤ q)) :
    sortSpec ps = qs := sortSpec_unique ps qs hperm hsorted

/-! ### Non-vacuity: the hypotheses are satisfiable by concrete, non-trivial states -/

example : Canon ⟨-3, 4⟩ := by decide
example : Canon (newInt (-7)) ∧ toRat (newInt (-7)) = ((-7 : Int) : Rat) ∧ new none (-7) 1 = .ok (newInt (-7)) :=
  newInt_canon (-7)
example : newInt (2 ^ 30) = ofRat ((2 ^ 30 : Int) : Rat) := newInt_machine _
example : new none 6 (-8) = .ok ⟨-3, 4⟩ := by rw [new_none _ _ (by decide)]; decide +kernel
example : ∃ r, new none 6 (-8) = .ok r ∧ Canon r ∧ toRat r = Rat.divInt 6 (-8) := new_canon 6 (-8) (by decide)
example : add none ⟨7, 10⟩ ⟨5, 6⟩ = .ok ⟨23, 15⟩ := by rw [add_none _ _ (by decide) (by decide)]; decide +kernel
example : ∃ r, add none ⟨7, 10⟩ ⟨5, 6⟩ = .ok r ∧ Canon r ∧ toRat r = toRat ⟨7, 10⟩ + toRat ⟨5, 6⟩ :=
  add_spec _ _ (by decide) (by decide)
example : sub none ⟨7, 10⟩ ⟨5, 6⟩ = .ok ⟨-2, 15⟩ := by rw [sub_none _ _ (by decide) (by decide)]; decide +kernel
example : ∃ r, sub none ⟨7, 10⟩ ⟨5, 6⟩ = .ok r ∧ Canon r ∧ toRat r = toRat ⟨7, 10⟩ - toRat ⟨5, 6⟩ :=
  sub_spec _ _ (by decide) (by decide)
example : mul none ⟨7, 10⟩ ⟨-5, 6⟩ = .ok ⟨-7, 12⟩ := by rw [mul_none _ _ (by decide) (by decide)]; decide +kernel
example : ∃ r, mul none ⟨7, 10⟩ ⟨-5, 6⟩ = .ok r ∧ Canon r ∧ toRat r = toRat ⟨7, 10⟩ * toRat ⟨-5, 6⟩ :=
  mul_spec _ _ (by decide) (by decide)
example : div none ⟨7, 10⟩ ⟨-5, 6⟩ = .ok ⟨-21, 25⟩ := by rw [div_none _ _ (by decide) (by decide)]; decide +kernel
example : ∃ r, div none ⟨7, 10⟩ ⟨-5, 6⟩ = .ok r ∧ Canon r ∧ toRat r = toRat ⟨7, 10⟩ / toRat ⟨-5, 6⟩ :=
  div_spec _ _ (by decide) (by decide) (by decide)
example : ∃ r, neg none ⟨-3, 4⟩ = .ok r ∧ Canon r ∧ toRat r = -toRat ⟨-3, 4⟩ := neg_spec _ (by decide)
example : toRat ⟨-3, 4⟩ = toRat ⟨-3, 4⟩ ↔ (⟨-3, 4⟩ : Q) = ⟨-3, 4⟩ := canon_unique _ _ (by decide) (by decide)
example : toRat ⟨1, 2⟩ ≠ toRat ⟨2, 3⟩ := by rw [Ne, canon_unique _ _ (by decide) (by decide)]; decide +kernel
example : ((⟨1, 2⟩ : Q).a, (⟨1, 2⟩ : Q).b) = ((⟨1, 2⟩ : Q).a, (⟨1, 2⟩ : Q).b) :=
  hash_agrees ⟨1, 2⟩ ⟨1, 2⟩ (by decide) (by decide) rfl
example : cmp none ⟨-1, 2⟩ ⟨1, 3⟩ = .ok .lt := by rw [cmp_none _ _ (by decide) (by decide)]; decide +kernel
example : ∃ o, cmp none ⟨-1, 2⟩ ⟨1, 3⟩ = .ok o ∧ (o = .lt ↔ toRat ⟨-1, 2⟩ < toRat ⟨1, 3⟩) :=
  let ⟨o, h, hlt, _⟩ := cmp_spec ⟨-1, 2⟩ ⟨1, 3⟩ (by decide) (by decide); ⟨o, h, hlt⟩
example : cmp none ⟨-1, 2⟩ ⟨-1, 2⟩ = .ok .eq := (cmp_eq_iff_eq _ _ (by decide) (by decide)).mpr rfl
example : floor none ⟨-3, 4⟩ = .ok ⟨-1, 1⟩ := by rw [floor_none _ (by decide)]; decide +kernel
example : floor none ⟨-8, 1⟩ = .ok ⟨-8, 1⟩ := by rw [floor_none _ (by decide)]; decide +kernel
example : ∃ n : Int, floor none ⟨-3, 4⟩ = .ok ⟨n, 1⟩ ∧ (n : Rat) ≤ toRat ⟨-3, 4⟩ :=
  let ⟨n, h, hle, _⟩ := floor_spec ⟨-3, 4⟩ (by decide); ⟨n, h, hle⟩
example : ceil none ⟨-3, 4⟩ = .ok ⟨0, 1⟩ := by rw [ceil_none _ (by decide)]; decide +kernel
example : ceil none ⟨7, 2⟩ = .ok ⟨4, 1⟩ := by rw [ceil_none _ (by decide)]; decide +kernel
example : ∃ n : Int, ceil none ⟨7, 2⟩ = .ok ⟨n, 1⟩ ∧ toRat ⟨7, 2⟩ ≤ (n : Rat) :=
  let ⟨n, h, hle, _⟩ := ceil_spec ⟨7, 2⟩ (by decide); ⟨n, h, hle⟩
-- the guard at its boundary (2^30 for i64, negative denominators)
example : new (some ⟨true, 64⟩) (2 ^ 30) (-(2 ^ 30) + 1) = new none (2 ^ 30) (-(2 ^ 30) + 1) :=
  nowrap_new _ guard_roomy.2.1 _ _ (by decide) (by decide)
example : (new (some ⟨true, 64⟩) (2 ^ 30) (-(2 ^ 30) + 1) >>= fun x => new (some ⟨true, 64⟩) (-(2 ^ 30)) (2 ^ 30 - 3) >>= fun y =>
      add (some ⟨true, 64⟩) x y) =
    .ok (ofRat (Rat.divInt (2 ^ 30) (-(2 ^ 30) + 1) + Rat.divInt (-(2 ^ 30)) (2 ^ 30 - 3))) :=
  add_machine _ guard_roomy.2.1 _ _ _ _ (by decide) (by decide) (by decide) (by decide) (by decide) (by decide)
example : (new (some ⟨true, 32⟩) (2 ^ 14) (-3) >>= fun x => new (some ⟨true, 32⟩) 5 (2 ^ 14) >>= fun y => mul (some ⟨true, 32⟩) x y) =
    (new none (2 ^ 14) (-3) >>= fun x => new none 5 (2 ^ 14) >>= fun y => mul none x y) :=
  nowrap_mul _ guard_roomy.1 _ _ _ _ (by decide) (by decide) (by decide) (by decide)
example : (new (some ⟨true, 128⟩) (-(2 ^ 62)) 7 >>= fun x => floor (some ⟨true, 128⟩) x) =
    (new none (-(2 ^ 62)) 7 >>= fun x => floor none x) :=
  nowrap_floor _ guard_roomy.2.2 _ _ (by decide) (by decide)
example : (new (some ⟨true, 128⟩) (-(2 ^ 62)) 7 >>= fun x => floor (some ⟨true, 128⟩) x) =
    .ok ⟨(Rat.divInt (-(2 ^ 62)) 7).floor, 1⟩ :=
  floor_machine _ guard_roomy.2.2 _ _ (by decide) (by decide) (by decide)
example : (new (some ⟨true, 128⟩) (2 ^ 62 - 1) (-7) >>= fun x => ceil (some ⟨true, 128⟩) x) =
    .ok ⟨(Rat.divInt (2 ^ 62 - 1) (-7)).ceil, 1⟩ :=
  ceil_machine _ guard_roomy.2.2 _ _ (by decide) (by decide) (by decide)
example : new (some ⟨true, 32⟩) (-(2 ^ 14)) (-6) = .ok (ofRat (Rat.divInt (-(2 ^ 14)) (-6))) :=
  new_machine _ guard_roomy.1 _ _ (by decide) (by decide) (by decide)
example : (new (some ⟨true, 64⟩) 3 (-(2 ^ 30)) >>= fun x => new (some ⟨true, 64⟩) (-(2 ^ 30)) 7 >>= fun y => sub (some ⟨true, 64⟩) x y) =
    .ok (ofRat (Rat.divInt 3 (-(2 ^ 30)) - Rat.divInt (-(2 ^ 30)) 7)) :=
  sub_machine _ guard_roomy.2.1 _ _ _ _ (by decide) (by decide) (by decide) (by decide) (by decide) (by decide)
example : (new (some ⟨true, 64⟩) 3 (-(2 ^ 30)) >>= fun x => new (some ⟨true, 64⟩) (-(2 ^ 30)) 7 >>= fun y => mul (some ⟨true, 64⟩) x y) =
    .ok (ofRat (Rat.divInt 3 (-(2 ^ 30)) * Rat.divInt (-(2 ^ 30)) 7)) :=
  mul_machine _ guard_roomy.2.1 _ _ _ _ (by decide) (by decide) (by decide) (by decide) (by decide) (by decide)
example : (new (some ⟨true, 64⟩) 3 (-(2 ^ 30)) >>= fun x => new (some ⟨true, 64⟩) (-(2 ^ 30)) 7 >>= fun y => div (some ⟨true, 64⟩) x y) =
    .ok (ofRat (Rat.divInt 3 (-(2 ^ 30)) / Rat.divInt (-(2 ^ 30)) 7)) :=
  div_machine _ guard_roomy.2.1 _ _ _ _ (by decide) (by decide) (by decide) (by decide) (by decide) (by decide) (by decide)
example : (new (some ⟨true, 64⟩) 3 (-(2 ^ 30)) >>= fun x => new (some ⟨true, 64⟩) (-(2 ^ 30)) 7 >>= fun y => cmp (some ⟨true, 64⟩) x y) =
    .ok (specCmp (Rat.divInt 3 (-(2 ^ 30))) (Rat.divInt (-(2 ^ 30)) 7)) :=
  cmp_machine _ guard_roomy.2.1 _ _ _ _ (by decide) (by decide) (by decide) (by decide) (by decide) (by decide)
example : (new (some ⟨true, 64⟩) 3 (-6) >>= fun x => new (some ⟨true, 64⟩) (-2) 4 >>= fun y => (pure (decide (x = y)) : Except Panic Bool)) =
    .ok (decide (Rat.divInt 3 (-6) = Rat.divInt (-2) 4)) :=
  eq_machine _ guard_roomy.2.1 _ _ _ _ (by decide) (by decide) (by decide) (by decide) (by decide) (by decide)
example : (new (some ⟨true, 32⟩) 5 (-(2 ^ 14)) >>= fun x => neg (some ⟨true, 32⟩) x) = .ok (ofRat (-Rat.divInt 5 (-(2 ^ 14)))) :=
  neg_machine _ guard_roomy.1 _ _ (by decide) (by decide) (by decide)

-- the true edge of i32 (the guard stops at 2^14): cross products between 2^30 and 2^31, numerator below denominator
example : (new (some ⟨true, 32⟩) 30000 40001 >>= fun x => new (some ⟨true, 32⟩) 1 40000 >>= fun y =>
      BinOp.add.apply (some ⟨true, 32⟩) x y) = .ok (ofRat (BinOp.add.spec (Rat.divInt 30000 40001) (Rat.divInt 1 40000))) :=
  binop_edge_machine _ rfl .add _ _ _ _ (by decide) (by decide) (by decide +kernel)
example : ofRat (BinOp.add.spec (Rat.divInt 30000 40001) (Rat.divInt 1 40000)) = ⟨1200040001, 1600040000⟩ := by decide +kernel
-- one step further the product of the denominators leaves i32: outside the domain
example : domAdd ⟨true, 32⟩ (ofRat (Rat.divInt 2 46341)) (ofRat (Rat.divInt 1 46341)) = false := by decide +kernel
example : (new (some ⟨true, 8⟩) (-127) 1 >>= fun x => new (some ⟨true, 8⟩) 1 (-127) >>= fun y =>
      BinOp.mul.apply (some ⟨true, 8⟩) x y) = .ok (ofRat (BinOp.mul.spec (Rat.divInt (-127) 1) (Rat.divInt 1 (-127)))) :=
  binop_edge_machine _ rfl .mul _ _ _ _ (by decide) (by decide) (by decide +kernel)
example : (new (some ⟨true, 32⟩) 65537 3 >>= fun x => new (some ⟨true, 32⟩) 43691 65537 >>= fun y =>
      (pure (decide (x = y)) : Except Panic Bool)) = .ok (decide (Rat.divInt 65537 3 = Rat.divInt 43691 65537)) :=
  eq_edge_machine _ rfl _ _ _ _ (by decide) (by decide)
example : (new (some ⟨true, 32⟩) 46341 46340 >>= fun x => new (some ⟨true, 32⟩) 46340 46339 >>= fun y => cmp (some ⟨true, 32⟩) x y) =
    .ok (specCmp (Rat.divInt 46341 46340) (Rat.divInt 46340 46339)) :=
  cmp_edge_machine _ rfl _ _ _ _ (by decide) (by decide) (by decide +kernel)
example : (new (some ⟨true, 32⟩) (-2147483647) (-1) >>= fun x => neg (some ⟨true, 32⟩) x) = .ok (ofRat (-Rat.divInt (-2147483647) (-1))) :=
  neg_edge_machine _ rfl _ _ (by decide)
example : (new (some ⟨true, 32⟩) (-2147483647) 2 >>= fun x => ceil (some ⟨true, 32⟩) x) = .ok ⟨(Rat.divInt (-2147483647) 2).ceil, 1⟩ :=
  ceil_edge_machine _ rfl _ _ (by decide) (by decide +kernel)
example : (new (some ⟨true, 16⟩) (-32766) 1 >>= fun x => floor (some ⟨true, 16⟩) x) = .ok ⟨(Rat.divInt (-32766) 1).floor, 1⟩ :=
  floor_edge_machine _ rfl _ _ (by decide) (by decide +kernel)
-- observed on the unchanged library, outside the domain: floor moves the numerator by b − 1 first
example : domFloor ⟨true, 32⟩ (ofRat (Rat.divInt (-2147483647) 3)) = false := by decide +kernel
example : (new (some ⟨true, 64⟩) 1 2 >>= fun x => new (some ⟨true, 64⟩) 1 3 >>= fun y => new (some ⟨true, 64⟩) 6 (-1) >>= fun z =>
      BinOp.add.apply (some ⟨true, 64⟩) x y >>= fun r => BinOp.div.apply (some ⟨true, 64⟩) r z) =
    .ok (ofRat (BinOp.div.spec (BinOp.add.spec (Rat.divInt 1 2) (Rat.divInt 1 3)) (Rat.divInt 6 (-1)))) :=
  chain_edge_machine _ rfl .add .div _ _ _ _ _ _ (by decide) (by decide) (by decide) (by decide +kernel) (by decide +kernel)
example : domAdd ⟨true, 32⟩ (ofRat (Rat.divInt (2 ^ 14) (-(2 ^ 14) + 1))) (ofRat (Rat.divInt 3 (2 ^ 14))) = true :=
  (guard_inside_edge _ rfl guard_roomy.1 _ _ _ _ (by decide) (by decide) (by decide) (by decide) (by decide) (by decide)).1
example : cmp (some ⟨true, 8⟩) ⟨-9, 10⟩ ⟨1, 11⟩ = .ok (specCmp (toRat ⟨-9, 10⟩) (toRat ⟨1, 11⟩)) :=
  cmp_pairs_edge _ rfl [⟨-9, 10⟩, ⟨1, 11⟩, ⟨1, 1⟩] (by decide) _ _ (by decide) (by decide) (by decide) (by decide)
example : sortSpec [1/2, -1/3, 1/2, 0] = [-1/3, 0, 1/2, 1/2] := sortSpec_only _ _ (by decide +kernel) (by decide +kernel)
example : (sortSpec [1/2, -1/3, 1/2, 0]).Perm [1/2, -1/3, 1/2, 0] := (sortSpec_spec _).1

end Rlib.C07
