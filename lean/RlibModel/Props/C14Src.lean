import RlibModel.Props.C14
import RlibModel.Lemmas.RandSrc
/-
C14, second tie: theorems about the definitions REGENERATED from the Rust source text on every run.
Kept in their own module so that a source the translator cannot read (or an equivalence proof that no longer goes
through) leaves the property theorems of Props/C14.lean — and their audit — untouched; `./check` then decides
between `second tie unavailable` (translator subset; the correspondence tie still stands) and a broken obligation.
-/
namespace Rlib.C14
open Rlib.Rand

/-! ## The model regenerated from the source text equals the hand-written model

`Rlib.RandSrc.*` and `Rlib.LcgSrc.next_raw` are NOT hand-written: `tools/rs2lean_typed.py` regenerates them from the text of
`rlib/rand/src/randomable.rs` (the integer impls inside `make_randomable!` / `implement_ranges!`, translated once with the macro's
type parameters as `IntTy` parameters) and `rlib/rand/src/lcg.rs` on every run (`checks/C14.py: extract`).  `src_*_eq_model`: the
regenerated definitions return exactly what the hand-written model returns (value or the same panic), so the theorems above are
statements about what the source says now; a change of meaning in the source makes these proofs fail to compile. -/

/-- All ten integer impls of `Randomable` (five range forms × `$it`/`$ut`), at every width `≤ 64`: the generated impl that
    `range.gen_from_u64(raw)` runs at element type `⟨sg, w⟩` (`RandSrc.genSrc`) is the model's `gen`. -/
theorem src_gen_eq_model (fuel w : Nat) (hw : w ≤ 64) (sg : Bool) (f : Form) (raw : Nat) :
    Rlib.RandSrc.genSrc fuel sg w f raw = gen ⟨sg, w⟩ f raw := Rlib.RandSrc.gen_eq_model fuel w hw sg f raw

/-- `impl Randomable<$it> for Range<$it>` and `impl Randomable<$ut> for Range<$ut>` = `genRange`. -/
theorem src_range_it_eq_model (fuel w : Nat) (hw : w ≤ 64) (s e : Int) (raw : Nat) :
    Rlib.RandSrc.Range_a0_gen_from_u64 fuel ⟨true, w⟩ ⟨false, w⟩ s e raw = genRange ⟨true, w⟩ s e raw :=
  Rlib.RandSrc.range_it_eq_model fuel w hw s e raw
theorem src_range_ut_eq_model (fuel w : Nat) (hw : w ≤ 64) (s e : Int) (raw : Nat) :
    Rlib.RandSrc.Range_a1_gen_from_u64 fuel ⟨true, w⟩ ⟨false, w⟩ s e raw = genRange ⟨false, w⟩ s e raw :=
  Rlib.RandSrc.range_ut_eq_model fuel w hw s e raw

/-- `impl Randomable<$t> for RangeInclusive<$t>` at `$t = $it` and `$t = $ut` = `genIncl`. -/
theorem src_incl_it_eq_model (fuel w : Nat) (hw : w ≤ 64) (s e : Int) (raw : Nat) :
    Rlib.RandSrc.RangeInclusive_a0_gen_from_u64 fuel ⟨true, w⟩ ⟨false, w⟩ s e raw = genIncl ⟨true, w⟩ s e raw :=
  Rlib.RandSrc.incl_it_eq_model fuel w hw s e raw
theorem src_incl_ut_eq_model (fuel w : Nat) (hw : w ≤ 64) (s e : Int) (raw : Nat) :
    Rlib.RandSrc.RangeInclusive_a1_gen_from_u64 fuel ⟨true, w⟩ ⟨false, w⟩ s e raw = genIncl ⟨false, w⟩ s e raw :=
  Rlib.RandSrc.incl_ut_eq_model fuel w hw s e raw

/-- The types the macro is invoked at in the source (`RandSrc.instances`, regenerated with the impls) all have the shape the
    theorems above assume: a signed and an unsigned type of the same width `1 ≤ w ≤ 64`. -/
theorem src_instances_shape : ∀ p ∈ Rlib.RandSrc.instances, ∃ w, 1 ≤ w ∧ w ≤ 64 ∧ p = (⟨true, w⟩, ⟨false, w⟩) :=
  Rlib.RandSrc.instances_shape

/-- `next_raw` of lcg.rs = the model's `nextRaw` (new state, output word), for every multiplier, increment and state; the
    scramble constants are those extracted into `Params`. -/
theorem src_next_raw_eq_model (fuel A C s : Nat) :
    Rlib.LcgSrc.next_raw fuel A C s =
      .ok (((nextRaw (Rlib.LcgSrc.genAC A C) s).1 : Int), ((nextRaw (Rlib.LcgSrc.genAC A C) s).2 : Int)) :=
  Rlib.LcgSrc.next_raw_eq_model fuel A C s

/-- … in particular for `Rng` itself. -/
theorem src_next_raw_rng (fuel s : Nat) :
    Rlib.LcgSrc.next_raw fuel Params.lcgA Params.lcgC s = .ok (((nextRaw rng s).1 : Int), ((nextRaw rng s).2 : Int)) := by
  rw [src_next_raw_eq_model, Rlib.LcgSrc.genAC_rng]

-- non-vacuity: the generated definitions evaluated by the kernel (full signed range of i8, an empty range, an inclusive range
-- ending at MAX, the whole type) and the shape hypothesis at a real invocation
example : Rlib.RandSrc.Range_a0_gen_from_u64 0 ⟨true, 8⟩ ⟨false, 8⟩ (-128) 127 300 = .ok (-83) := by decide
example : Rlib.RandSrc.Range_a1_gen_from_u64 0 ⟨true, 8⟩ ⟨false, 8⟩ 5 5 300 = .error .assert := by decide
example : Rlib.RandSrc.RangeInclusive_a1_gen_from_u64 0 ⟨true, 8⟩ ⟨false, 8⟩ 250 255 7 = .ok 251 := by decide
example : Rlib.RandSrc.RangeFull_a0_gen_from_u64 0 ⟨true, 8⟩ ⟨false, 8⟩ 200 = .ok (-56) := by decide
example : Rlib.RandSrc.genSrc 0 true 64 (.upToIncl 9) 12345 = gen ⟨true, 64⟩ (.upToIncl 9) 12345 :=
  src_gen_eq_model 0 64 (by decide) true _ _
example : ((⟨true, 32⟩, ⟨false, 32⟩) : IntTy × IntTy) ∈ Rlib.RandSrc.instances := by decide
example : ∃ r, Rlib.LcgSrc.next_raw 0 Params.lcgA Params.lcgC 0 = .ok r ∧ r.1 = (Params.lcgC : Int) := by
  refine ⟨_, src_next_raw_rng 0 0, ?_⟩
  decide

end Rlib.C14
