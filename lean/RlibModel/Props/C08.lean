import RlibModel.Lemmas.ReaderDecimal
import RlibModel.Lemmas.ReaderSched
import RlibModel.Lemmas.ReaderDomain
import RlibModel.Lemmas.ReaderMulti
/-!
# C08 — Reader results depend only on the input bytes, not on delivery

Property theorems only. Model and executable specification: `Model/Reader.lean` (the same
definitions the driver `drv_io` runs); helper lemmas: `Lemmas/Reader.lean`, `Lemmas/ReaderOps.lean`.

Vocabulary: `RState` is the Rust struct (buffer with stale contents, `b` = begin, `e` = end, `eof`,
`src` = the source as a list of data chunks and `intr` = Interrupted events); `R s` = the bytes still
to be read (`buf[b..e]` followed by all data of the source); `Inv BUF s` the reader invariant for buffer
size `BUF`; `SrcOk src` = data chunks are non-empty. Every loop takes a fuel argument; the
hypothesis `(R s).length < fuel` is all that is needed, so `fuel` errors are unreachable
(`op_no_fuel_error`). `Refines BUF res spec`: where the specification is defined (`some _`), the model
panics iff the spec does (same panic), otherwise it returns the spec's value and a state `s'` with
`R s' =` the spec's remaining bytes and `Inv BUF s'`.
-/
namespace Rlib.C08
open Rlib.Reader

/-- `refill` on an empty window: the remaining byte string `R` is unchanged, the invariant is kept,
    `eof` is set iff nothing is left — for every buffer size, chunking and interrupt placement. -/
theorem refill_spec (BUF : Nat) (hB : 0 < BUF) (s : RState) (hi : Inv BUF s) (hemp : s.b = s.e) :
    ∃ s', refill s = .ok s' ∧ R s' = R s ∧ Inv BUF s' ∧ (s'.eof = true ↔ R s = []) ∧
      (s'.eof = false → s'.b < s'.e) :=
  Rlib.Reader.refill_spec BUF hB s hi hemp

/-- `skip_whitespace` drops exactly the leading ASCII whitespace. -/
theorem skip_whitespace_refines (BUF : Nat) (hB : 0 < BUF) (fuel : Nat) (s : RState) (hi : Inv BUF s)
    (hf : (R s).length < fuel) :
    ∃ s', skipWs fuel s = .ok s' ∧ R s' = (R s).dropWhile isWs ∧ Inv BUF s' := by
  obtain ⟨s', h1, h2, h3⟩ := skipWs_spec BUF hB fuel s hi hf
  exact ⟨s', h1, h2, h3.1⟩

/-- `read::<String>()` returns the next whitespace-delimited token, wherever refills split it. -/
theorem read_string_refines (BUF : Nat) (hB : 0 < BUF) (fuel : Nat) (s : RState) (hi : Inv BUF s)
    (hf : (R s).length < fuel) :
    ∃ s', readString fuel s = .ok ((specString (R s)).1, s') ∧ R s' = (specString (R s)).2 ∧ Inv BUF s' :=
  readString_spec BUF hB fuel s hi hf

/-- `read::<char>()` returns the next non-whitespace byte (when there is one). -/
theorem read_char_refines (BUF : Nat) (hB : 0 < BUF) (fuel : Nat) (s : RState) (hi : Inv BUF s)
    (hf : (R s).length < fuel) (c : UInt8) (r : List UInt8) (hs : specChar (R s) = some (c, r)) :
    ∃ s', readChar fuel s = .ok (c, s') ∧ R s' = r ∧ Inv BUF s' :=
  readChar_spec BUF hB fuel s hi hf c r hs

/-- `read::<$t>()` for the 12 integer types: value and overflow panics are those of the decimal fold
    over the next token of the remaining bytes (sign, digits and refills may be split anywhere). -/
theorem read_int_refines (t : IntTy) (BUF : Nat) (hB : 0 < BUF) (fuel : Nat) (s : RState) (hi : Inv BUF s)
    (hf : (R s).length < fuel) :
    (∀ e, specInt t (R s) = .error e → readInt t fuel s = .error e) ∧
    (∀ v r, specInt t (R s) = .ok (v, r) → ∃ s', readInt t fuel s = .ok (v, s') ∧ R s' = r ∧ Inv BUF s') :=
  readInt_spec t BUF hB fuel s hi hf

/-- `read_line()`: `None` at end of input; else the bytes up to the first LF, without the LF and without
    one CR directly before it; an unterminated last line verbatim — also when CR and LF arrive in
    different reads or the input ends right after a CR. -/
theorem read_line_refines (BUF : Nat) (hB : 0 < BUF) (fuel : Nat) (s : RState) (hi : Inv BUF s)
    (hf : (R s).length < fuel) :
    ∃ s', readLine fuel s = .ok ((specLine (R s)).1, s') ∧ R s' = (specLine (R s)).2 ∧ Inv BUF s' :=
  readLine_spec BUF hB fuel s hi hf

/-- `read_lines()` returns all remaining lines and consumes everything. -/
theorem read_lines_refines (BUF : Nat) (hB : 0 < BUF) (fuel : Nat) (s : RState) (hi : Inv BUF s)
    (hf : (R s).length < fuel) :
    ∃ s', readLines fuel fuel s #[] = .ok (specLines fuel (R s), s') ∧ R s' = [] ∧ Inv BUF s' := by
  obtain ⟨s', h1, h2, h3⟩ := readLines_spec BUF hB fuel fuel s #[] hi hf hf
  exact ⟨s', by simpa using h1, h2, h3⟩

/-- `is_eof()` is true iff only whitespace is left (which it consumes). -/
theorem is_eof_refines (BUF : Nat) (hB : 0 < BUF) (fuel : Nat) (s : RState) (hi : Inv BUF s)
    (hf : (R s).length < fuel) :
    ∃ s', isEof fuel s = .ok (((R s).dropWhile isWs).isEmpty, s') ∧ R s' = (R s).dropWhile isWs ∧ Inv BUF s' :=
  isEof_spec BUF hB fuel s hi hf

/-- Tuples read their components left to right. -/
theorem read_tuple_refines (BUF : Nat) (hB : 0 < BUF) (fuel : Nat) (as : List Atom) (s : RState) (hi : Inv BUF s)
    (hf : (R s).length < fuel) : Refines BUF (readTuple fuel as s) (specTuple as (R s)) :=
  readTuple_spec BUF hB fuel as s hi hf

/-- `read_vec(n)` reads `n` values (atoms or tuples) in order. -/
theorem read_vec_refines (BUF : Nat) (hB : 0 < BUF) (fuel : Nat) (as : List Atom) (n : Nat) (s : RState)
    (hi : Inv BUF s) (hf : (R s).length < fuel) : Refines BUF (readVec fuel as n s) (specVec as n (R s)) :=
  readVec_spec BUF hB fuel as n s hi hf

/-- **op_refines**: every call of the public API refines the pure function `specOp` of the remaining bytes. -/
theorem op_refines (BUF : Nat) (hB : 0 < BUF) (fuel : Nat) (op : Op) (s : RState) (hi : Inv BUF s)
    (hf : (R s).length < fuel) : Refines BUF (runOp fuel op s) (specOp op (R s)) :=
  runOp_spec BUF hB fuel op s hi hf

/-- Termination: with `fuel > |remaining bytes|` no loop of any operation runs out of fuel. -/
theorem op_no_fuel_error (BUF : Nat) (hB : 0 < BUF) (fuel : Nat) (op : Op) (s : RState) (hi : Inv BUF s)
    (hf : (R s).length < fuel) (hdef : specOp op (R s) ≠ none) : runOp fuel op s ≠ .error .fuel := by
  have h := runOp_spec BUF hB fuel op s hi hf
  cases hs : specOp op (R s) with
  | none => exact absurd hs hdef
  | some x =>
    rw [hs] at h
    cases x with
    | error e =>
      simp only [Refines] at h
      rw [h]
      have := specOp_error_overflow op (R s) e hs
      rw [this]; simp
    | ok p => obtain ⟨s', k, _, _⟩ := h; rw [k]; simp

/-- A script whose specification trace is defined (no `char` is read when only whitespace is left)
    yields exactly the specification's trace, from any reachable state. -/
theorem script_refines (BUF : Nat) (hB : 0 < BUF) (fuel : Nat) (ops : List Op) (s : RState) (hi : Inv BUF s)
    (hf : (R s).length < fuel) (hdef : Res.undef ∉ specScript ops (R s)) :
    runScript fuel ops s = specScript ops (R s) :=
  runScript_spec BUF hB fuel ops s hi hf hdef

/-- **delivery_independent**: two sources that deliver the same bytes — under any chunking, with
    `Interrupted` errors anywhere, read through buffers of any two sizes ≥ 1 — give, for every script, the
    same results: those of the specification on the concatenated bytes. -/
theorem delivery_independent (BUF₁ BUF₂ : Nat) (h₁ : 0 < BUF₁) (h₂ : 0 < BUF₂) (src₁ src₂ : List Event)
    (ok₁ : SrcOk src₁) (ok₂ : SrcOk src₂) (hsame : srcBytes src₁ = srcBytes src₂)
    (f₁ f₂ : Nat) (hf₁ : (srcBytes src₁).length < f₁) (hf₂ : (srcBytes src₁).length < f₂)
    (script : List Op) (hdef : Res.undef ∉ specScript script (srcBytes src₁)) :
    runScript f₁ script (init BUF₁ src₁) = specScript script (srcBytes src₁) ∧
    runScript f₂ script (init BUF₂ src₂) = specScript script (srcBytes src₁) := by
  constructor
  · have := runScript_spec BUF₁ h₁ f₁ script (init BUF₁ src₁) (init_inv BUF₁ src₁ ok₁)
      (by rw [init_R]; exact hf₁) (by rw [init_R]; exact hdef)
    rw [this, init_R]
  · have := runScript_spec BUF₂ h₂ f₂ script (init BUF₂ src₂) (init_inv BUF₂ src₂ ok₂)
      (by rw [init_R, ← hsame]; exact hf₂) (by rw [init_R, ← hsame]; exact hdef)
    rw [this, init_R, hsame]

/-- The source built from a delivery schedule (what harness and driver execute for a case line) is
    well-formed and delivers exactly the input bytes, whatever the schedule. -/
theorem schedule_delivers (sched : Sched) (data : List UInt8) (hpos : ∀ k n, (some k, n) ∈ sched → 0 < k) :
    srcBytes (mkEvents sched data #[]) = data ∧ SrcOk (mkEvents sched data #[]) := by
  have h := mkEvents_spec sched data #[] hpos (by simp [SrcOk])
  simpa [srcBytes] using h

/-- **schedule_independent** — `delivery_independent` in the vocabulary of the case lines: for every input,
    every delivery schedule (chunk sizes ≥ 1, Interrupted anywhere, repetitions), every buffer size ≥ 1 and
    every script with a defined specification trace, the model's answer (the `M` field the driver prints)
    is the specification's answer on the plain input bytes (the `S` field). -/
theorem schedule_independent (BUF : Nat) (hB : 0 < BUF) (sched : Sched) (data : List UInt8)
    (hpos : ∀ k n, (some k, n) ∈ sched → 0 < k) (script : List Op)
    (hdef : Res.undef ∉ specScript script data) :
    runScript (data.length + 1) script (init BUF (mkEvents sched data #[])) = specScript script data := by
  obtain ⟨hb, hok⟩ := schedule_delivers sched data hpos
  have := runScript_spec BUF hB (data.length + 1) script (init BUF (mkEvents sched data #[]))
    (init_inv BUF _ hok) (by rw [init_R, hb]; exact Nat.lt_succ_self _) (by rw [init_R, hb]; exact hdef)
  rw [this, init_R, hb]

/-- **consumed_bytes_irrelevant**: what was read before (buffer contents, positions, buffer size, how the
    rest will be delivered) does not influence later results — two reachable states with the same
    remaining bytes answer every script identically. -/
theorem consumed_bytes_irrelevant (BUF₁ BUF₂ : Nat) (h₁ : 0 < BUF₁) (h₂ : 0 < BUF₂) (s₁ s₂ : RState)
    (i₁ : Inv BUF₁ s₁) (i₂ : Inv BUF₂ s₂) (hsame : R s₁ = R s₂) (f₁ f₂ : Nat)
    (hf₁ : (R s₁).length < f₁) (hf₂ : (R s₁).length < f₂) (script : List Op)
    (hdef : Res.undef ∉ specScript script (R s₁)) :
    runScript f₁ script s₁ = runScript f₂ script s₂ := by
  rw [runScript_spec BUF₁ h₁ f₁ script s₁ i₁ hf₁ hdef,
      runScript_spec BUF₂ h₂ f₂ script s₂ i₂ (by rw [← hsame]; exact hf₂) (by rw [← hsame]; exact hdef), hsame]

/-- **parse_render** (specification level): after any whitespace, the decimal text of `x` (optional `-`, digits
    of `|x|`) followed by whitespace or the end of input reads back as `x`, for every integer type of at
    least 8 bits that can represent `x` — `MIN` (negative accumulation never overflows) and `MAX` included. -/
theorem parse_render (t : IntTy) (h8 : 8 ≤ t.bits) (x : Int) (hx : t.fits x = true) (hs : x < 0 → t.signed = true)
    (ws tail : List UInt8) (hws : ∀ c ∈ ws, isWs c = true)
    (htail : tail = [] ∨ ∃ c r, tail = c :: r ∧ isWs c = true) :
    specInt t (ws ++ render x ++ tail) = .ok (x, tail) :=
  specInt_render t h8 x hx hs ws tail hws htail

/-- … and therefore the reader returns `x` whenever the remaining bytes start with that text, however
    they are delivered (any chunking, interrupts, buffer size). -/
theorem read_rendered_int (t : IntTy) (h8 : 8 ≤ t.bits) (x : Int) (hx : t.fits x = true) (hs : x < 0 → t.signed = true)
    (ws tail : List UInt8) (hws : ∀ c ∈ ws, isWs c = true)
    (htail : tail = [] ∨ ∃ c r, tail = c :: r ∧ isWs c = true)
    (BUF : Nat) (hB : 0 < BUF) (fuel : Nat) (s : RState) (hi : Inv BUF s) (hf : (R s).length < fuel)
    (hR : R s = ws ++ render x ++ tail) :
    ∃ s', readInt t fuel s = .ok (x, s') ∧ R s' = tail ∧ Inv BUF s' :=
  (readInt_spec t BUF hB fuel s hi hf).2 x tail (by rw [hR]; exact specInt_render t h8 x hx hs ws tail hws htail)

/-- **in_domain_int** — what the property promises for integers, stated without the model's digit loop: when the
    next token is `-?[0-9]+` (`-` only for signed types) and its positional value `tokValue` is representable in `t`
    (`validIntTok`), the specification of `read::<t>()` is that value, no panic; with `read_int_refines` the
    reader returns it under every delivery. Outside `validIntTok` the driver prints no constraint (`~`). -/
theorem in_domain_int (t : IntTy) (h8 : 8 ≤ t.bits) (rest : List UInt8) (hv : validIntTok t (specString rest).1 = true) :
    specInt t rest = .ok (tokValue (specString rest).1, (specString rest).2) :=
  specInt_valid t h8 rest hv

/-- Inside the domain (`inDomAtom`: valid integer token / some token / some non-blank byte left) every atom read is
    specified and panic-free. -/
theorem in_domain_atom (a : Atom) (rest : List UInt8) (h8 : atomBits8 a) (hd : inDomAtom a rest = true) :
    ∃ v r, specAtom a rest = some (.ok (v, r)) ∧ (∀ t, a = .int t → v = .int (tokValue (specString rest).1)) :=
  specAtom_inDom a rest h8 hd

/-! ### Non-vacuity: the hypotheses are met by concrete, non-trivial states, and the conclusions say
something (all evaluated by the kernel on the definitions the driver runs) -/

/-- `-12 x␍␊y␍` delivered as `-` | Interrupted | `12` | ` x␍` | Interrupted ×2 | `␊y␍`: the minus sign is
    separated from the digits, the token is split by refills, CR and LF arrive in different reads,
    the input ends in a lone CR. -/
def srcA : List Event :=
  [.data [45], .intr, .data [49, 50], .data [32, 120, 13], .intr, .intr, .data [10, 121, 13]]
/-- The same bytes in one chunk. -/
def srcB : List Event := [.data [45, 49, 50, 32, 120, 13, 10, 121, 13]]
/-- The same bytes one at a time, an Interrupted before each. -/
def srcC : List Event :=
  [.intr, .data [45], .intr, .data [49], .intr, .data [50], .intr, .data [32], .intr, .data [120], .intr, .data [13],
   .intr, .data [10], .intr, .data [121], .intr, .data [13], .intr]
def scriptA : List Op := [.read (.int ⟨true, 32⟩), .line, .line, .line, .eof]
def traceA : List Res :=
  [.out (.val (.int (-12))), .out (.line (some [32, 120])), .out (.line (some [121, 13])), .out (.line none), .out (.bool true)]

example : SrcOk srcA ∧ SrcOk srcB ∧ SrcOk srcC := by simp [srcA, srcB, srcC, SrcOk]
example : srcBytes srcA = srcBytes srcB ∧ srcBytes srcC = srcBytes srcB := by decide +kernel
example : Res.undef ∉ specScript scriptA (srcBytes srcA) := by decide +kernel
example : specScript scriptA (srcBytes srcA) = traceA := by decide +kernel
/-- model runs: buffer of 4 bytes (so the 9-byte input wraps the buffer twice), of 64 bytes, of 1 byte -/
example : runScript 10 scriptA (init 4 srcA) = traceA := by decide +kernel
example : runScript 10 scriptA (init 64 srcB) = traceA := by decide +kernel
example : runScript 10 scriptA (init 1 srcC) = traceA := by decide +kernel
/-- the same fact obtained from the theorem (its hypotheses are satisfiable) -/
example : runScript 10 scriptA (init 4 srcA) = traceA ∧ runScript 10 scriptA (init 1 srcC) = traceA := by
  have h := delivery_independent 4 1 (by decide) (by decide) srcA srcC (by simp [srcA, SrcOk]) (by simp [srcC, SrcOk])
    (by decide +kernel) 10 10 (by decide +kernel) (by decide +kernel) scriptA (by decide +kernel)
  have e : specScript scriptA (srcBytes srcA) = traceA := by decide +kernel
  rw [e] at h; exact h

/-- a schedule as written in a case line: `1,i,2,ix2,3x2` on the 9 input bytes; the rest is one chunk -/
example : mkEvents [(some 1, 1), (none, 1), (some 2, 1), (none, 2), (some 3, 2)] [45, 49, 50, 32, 120, 13, 10, 121, 13] #[]
    = [.data [45], .intr, .data [49, 50], .intr, .intr, .data [32, 120, 13], .data [10, 121, 13]] := by decide +kernel
example : runScript 10 scriptA (init 4 (mkEvents [(some 1, 1), (none, 1), (some 2, 1), (none, 2), (some 3, 2)]
    [45, 49, 50, 32, 120, 13, 10, 121, 13] #[])) = traceA := by
  have h := schedule_independent 4 (by decide) [(some 1, 1), (none, 1), (some 2, 1), (none, 2), (some 3, 2)]
    [45, 49, 50, 32, 120, 13, 10, 121, 13] (by intro k n h; simp at h; omega) scriptA (by decide +kernel)
  have e : specScript scriptA [45, 49, 50, 32, 120, 13, 10, 121, 13] = traceA := by decide +kernel
  rw [e] at h; exact h

/-- regression F2 (fixed by 30a182a): `"\nabc\r"`, `read_line` ×3, one big read vs byte by byte. Before the
    fix the one-big-read delivery answered `"abc"` for the second line (stale `buf[0] = LF` seen by `peek`). -/
example : runScript 6 [.line, .line, .line] (init 100 [.data [10, 97, 98, 99, 13]])
    = [.out (.line (some [])), .out (.line (some [97, 98, 99, 13])), .out (.line none)] := by decide +kernel
example : runScript 6 [.line, .line, .line] (init 100 [.data [10], .data [97], .data [98], .data [99], .data [13]])
    = [.out (.line (some [])), .out (.line (some [97, 98, 99, 13])), .out (.line none)] := by decide +kernel
/-- regression F1 (fixed by 5f141f5): a source that answers Interrupted. -/
example : runScript 6 [.read (.int ⟨false, 8⟩), .read (.int ⟨true, 64⟩)] (init 100 [.intr, .data [55, 32], .intr, .intr, .data [45, 56]])
    = [.out (.val (.int 7)), .out (.val (.int (-8)))] := by decide +kernel

/-- a state in the middle of a run: stale bytes `1 2 3` in the buffer, empty window at its end (`b = e = 4 = BUF`),
    so the next refill compacts at the buffer boundary; hypotheses of `refill_spec` / `op_refines` hold. -/
def midState : RState := { buf := #[49, 50, 51, 32], b := 4, e := 4, eof := false, src := [.intr, .data [52, 10]] }
example : Inv 4 midState := ⟨rfl, Nat.le_refl _, Nat.le_refl _, by simp [midState, SrcOk], by simp [midState]⟩
example : midState.b = midState.e := rfl
example : R midState = [52, 10] := by decide +kernel
example : (refill midState).toOption.map (fun s => (s.buf, s.b, s.e, s.eof)) = some (#[52, 10, 51, 32], 0, 2, false) := by
  decide +kernel
/-- consumed bytes are irrelevant: `midState` (after reading `123 `) and a fresh reader on `4\n` -/
example : runScript 3 [.read (.int ⟨false, 16⟩), .eof] midState = runScript 3 [.read (.int ⟨false, 16⟩), .eof] (init 7 [.data [52, 10]]) :=
  consumed_bytes_irrelevant 4 7 (by decide) (by decide) midState (init 7 [.data [52, 10]])
    ⟨rfl, Nat.le_refl _, Nat.le_refl _, by simp [midState, SrcOk], by simp [midState]⟩
    (init_inv 7 _ (by simp [SrcOk])) (by decide +kernel) 3 3 (by decide +kernel) (by decide +kernel) _ (by decide +kernel)
/-- overflow is a function of the bytes too: `128` as `i8` panics under every delivery -/
example : runScript 5 [.read (.int ⟨true, 8⟩)] (init 2 [.data [49], .intr, .data [50, 56]]) = [.panic .overflow] ∧
    specScript [.read (.int ⟨true, 8⟩)] [49, 50, 56] = [.panic .overflow] := by decide +kernel
/-- `-128` as `i8` does not (negative accumulation) -/
example : specScript [.read (.int ⟨true, 8⟩)] [45, 49, 50, 56] = [.out (.val (.int (-128)))] := by decide +kernel
/-- outside the domain: a `char` read with only whitespace left is `undef` in the specification -/
example : specScript [.read .chr] [32, 10] = [.undef] := by decide +kernel

/-- NUL is a token byte like any other, although it is also the value `peek` yields at end of input (seeded C09_m10 ended
    tokens at a NUL): `a␀b ␀` read as two strings, byte-wise delivery with an Interrupted, BUF = 2; a line containing NUL and VT -/
example : specScript [.read .str, .read .str, .eof] [97, 0, 98, 32, 0] =
    [.out (.val (.str [97, 0, 98])), .out (.val (.str [0])), .out (.bool true)] := by decide +kernel
example : runScript 6 [.read .str, .read .str, .eof] (init 2 [.data [97], .intr, .data [0, 98, 32], .data [0]]) =
    [.out (.val (.str [97, 0, 98])), .out (.val (.str [0])), .out (.bool true)] := by decide +kernel
example : runScript 7 [.read .chr, .line, .line] (init 3 [.data [0, 11, 0, 13], .data [10, 0]]) =
    [.out (.val (.chr 0)), .out (.line (some [11, 0])), .out (.line (some [0]))] := by decide +kernel

/-- `parse_render` at the extremes: `i8::MIN`, `u8::MAX`, `i64::MIN` -/
example : render (-128) = [45, 49, 50, 56] ∧ render 255 = [50, 53, 53] := by decide +kernel
example : specInt ⟨true, 8⟩ ([32, 10] ++ render (-128) ++ [13, 10]) = .ok (-128, [13, 10]) :=
  parse_render ⟨true, 8⟩ (by decide) (-128) (by decide +kernel) (fun _ => rfl) [32, 10] [13, 10] (by decide) (Or.inr ⟨13, [10], rfl, by decide⟩)
example : specInt ⟨false, 8⟩ (render 255) = .ok (255, []) := by
  have := parse_render ⟨false, 8⟩ (by decide) 255 (by decide +kernel) (by decide) [] [] (by simp) (Or.inl rfl)
  simpa using this
example : specInt IntTy.i64 (render (-9223372036854775808) ++ [32]) = .ok (-9223372036854775808, [32]) := by
  have := parse_render IntTy.i64 (by decide) (-9223372036854775808) (by decide +kernel) (fun _ => rfl) [] [32] (by simp)
    (Or.inr ⟨32, [], rfl, by decide⟩)
  simpa using this

/-- domain: `007`, `-0`, `-128` are valid `i8` tokens with values 7, 0, −128; `128`, `+5`, `:`, `-` and `-5` as `u8` are not -/
example : validIntTok ⟨true, 8⟩ [48, 48, 55] = true ∧ tokValue [48, 48, 55] = 7 ∧ validIntTok ⟨true, 8⟩ [45, 48] = true ∧
    validIntTok ⟨true, 8⟩ [45, 49, 50, 56] = true ∧ tokValue [45, 49, 50, 56] = -128 ∧
    validIntTok ⟨true, 8⟩ [49, 50, 56] = false ∧ validIntTok ⟨true, 32⟩ [43, 53] = false ∧ validIntTok ⟨false, 8⟩ [58] = false ∧
    validIntTok ⟨true, 8⟩ [45] = false ∧ validIntTok ⟨false, 8⟩ [45, 53] = false := by decide +kernel
example : specInt ⟨true, 8⟩ [32, 45, 49, 50, 56, 10, 55] = .ok (-128, [10, 55]) :=
  in_domain_int ⟨true, 8⟩ (by decide) [32, 45, 49, 50, 56, 10, 55] (by decide +kernel)
/-- the in-domain prefix of a script ends at the first invalid token: `1 1234 5` read as three `u8` -/
example : domPrefix [.read (.int ⟨false, 8⟩), .read (.int ⟨false, 8⟩), .read (.int ⟨false, 8⟩)] [49, 32, 49, 50, 51, 52, 32, 53] = 1 := by
  decide +kernel

/-! ### Several live readers (wave 3, class (B); seeded C08_m10: the buffer moved into a thread-local shared by all
readers of a thread).  `runMulti` / `specMulti` / `projOps` / `projRes` / `domPrefixM` / `initMulti` are the definitions
the driver runs for a case line with more than one reader (`Model/ReaderMulti.lean`). -/

/-- **multi_refines**: a script over several readers, each in a reachable state of its own (own buffer size, own
    pending source), yields the specification's trace on the list of remaining byte strings. -/
theorem multi_refines (fuel : Nat) (ops : List MOp) (st : List RState) (hall : AllInv fuel st)
    (hdef : some Res.undef ∉ specMulti ops (st.map R)) :
    runMulti fuel ops st = specMulti ops (st.map R) :=
  runMulti_spec fuel ops st hall hdef

/-- **multi_schedule_independent** — in the vocabulary of the case lines: for every list of (schedule, input) pairs
    (chunk sizes ≥ 1, Interrupted anywhere), every buffer size ≥ 1 and every interleaved script with a defined
    specification trace, the model's answer (field `M`) is the specification's answer on the plain inputs (field `S`). -/
theorem multi_schedule_independent (BUF : Nat) (hB : 0 < BUF) (ins : List (Sched × List UInt8))
    (hpos : ∀ p ∈ ins, ∀ k n, (some k, n) ∈ p.1 → 0 < k) (script : List MOp)
    (hdef : some Res.undef ∉ specMulti script (ins.map (·.2))) :
    runMulti (maxLen (ins.map (·.2)) + 1) script (initMulti BUF ins) = specMulti script (ins.map (·.2)) := by
  obtain ⟨hall, hR⟩ := initMulti_spec BUF hB ins hpos
  have := runMulti_spec _ script (initMulti BUF ins) hall (by rw [hR]; exact hdef)
  rw [this, hR]

/-- The specification is an interleaving: the results addressed to reader `k` are a prefix of the trace of reader
    `k`'s own script on reader `k`'s own input (the multi-reader trace ends at the first panic of any reader) … -/
theorem spec_reader_independent_prefix (k : Nat) (ops : List MOp) (rest : List (List UInt8)) (input : List UInt8)
    (hk : rest[k]? = some input) : projRes k ops (specMulti ops rest) <+: specScript (projOps k ops) input :=
  projRes_specMulti_prefix k ops rest input hk

/-- … and exactly that trace when no reader panics and nothing is undefined. -/
theorem spec_reader_independent (k : Nat) (ops : List MOp) (rest : List (List UInt8)) (input : List UInt8)
    (hk : rest[k]? = some input) (hc : cleanTrace (specMulti ops rest) = true) :
    projRes k ops (specMulti ops rest) = specScript (projOps k ops) input :=
  projRes_specMulti_eq k ops rest input hk hc

/-- **readers_independent**: what reader `k` returns in an interleaved run with other live readers (each over its own
    input, delivery schedule and buffer) is what the same calls return on a reader used ALONE over the same bytes —
    under any other delivery and buffer size. The other readers' inputs, schedules and calls do not appear on the right. -/
theorem readers_independent (fuel : Nat) (ops : List MOp) (st : List RState) (hall : AllInv fuel st)
    (hc : cleanTrace (specMulti ops (st.map R)) = true)
    (k : Nat) (s : RState) (hk : st[k]? = some s)
    (BUF' : Nat) (hB' : 0 < BUF') (s' : RState) (hi' : Inv BUF' s') (hsame : R s' = R s)
    (fuel' : Nat) (hf' : (R s').length < fuel') :
    projRes k ops (runMulti fuel ops st) = runScript fuel' (projOps k ops) s' := by
  have hu := undef_not_mem_of_clean _ hc
  rw [runMulti_spec fuel ops st hall hu]
  have hk' : (st.map R)[k]? = some (R s) := by simp [hk]
  have he := projRes_specMulti_eq k ops (st.map R) (R s) hk' hc
  rw [he]
  have hd : Res.undef ∉ specScript (projOps k ops) (R s') := by
    rw [hsame, ← he]
    intro hm
    -- an `undef` among the results of reader `k` would be an `undef` of the whole trace
    have : ∀ (ops : List MOp) (rs : List MRes), Res.undef ∈ projRes k ops rs → some Res.undef ∈ rs := by
      intro ops
      induction ops with
      | nil => intro rs h; simp [projRes] at h
      | cons mop ops ih =>
        intro rs h
        cases rs with
        | nil => cases mop <;> simp [projRes] at h
        | cons r rs =>
          cases mop with
          | life j => simp only [projRes] at h; exact List.mem_cons_of_mem _ (ih rs h)
          | run j op =>
            cases r with
            | none => simp only [projRes] at h; exact List.mem_cons_of_mem _ (ih rs h)
            | some x =>
              simp only [projRes] at h
              split at h
              · rcases List.mem_cons.mp h with h | h
                · subst h; exact List.mem_cons_self
                · exact List.mem_cons_of_mem _ (ih rs h)
              · exact List.mem_cons_of_mem _ (ih rs h)
    exact hu (this _ _ hm)
  rw [runScript_spec BUF' hB' fuel' (projOps k ops) s' hi' hf' hd, hsame]

/-- The part of a multi-reader script that the driver constrains (`domPrefixM`: every call judged on the remaining
    input of its own reader) has a clean specification trace: no panic, nothing undefined. -/
theorem multi_dom_prefix_clean (ops : List MOp) (rest : List (List UInt8)) :
    cleanTrace ((specMulti ops rest).take (domPrefixM ops rest)) = true :=
  domPrefixM_clean ops rest

/-! non-vacuity: reader 0 over `-12 x␍␊y␍` (three deliveries as above), reader 1 over `7 ab␊` delivered byte by byte
    with interrupts; reader 1 is created after reader 0 has buffered input, used between two calls of reader 0 and dropped -/
def srcD : List Event := [.intr, .data [55], .data [32], .intr, .data [97], .data [98], .data [10]]
def scriptM : List MOp :=
  [.life 0, .run 0 (.read (.int ⟨true, 32⟩)), .life 1, .run 1 (.read (.int ⟨false, 8⟩)), .run 0 .line, .run 1 (.read .str),
   .run 0 .line, .life 1, .run 0 .line, .run 0 .eof]
def traceM : List MRes :=
  [none, some (.out (.val (.int (-12)))), none, some (.out (.val (.int 7))), some (.out (.line (some [32, 120]))),
   some (.out (.val (.str [97, 98]))), some (.out (.line (some [121, 13]))), none, some (.out (.line none)), some (.out (.bool true))]

example : runMulti 10 scriptM [init 4 srcA, init 2 srcD] = traceM := by decide +kernel
example : runMulti 10 scriptM [init 1 srcC, init 64 srcD] = traceM := by decide +kernel
example : specMulti scriptM [srcBytes srcA, srcBytes srcD] = traceM := by decide +kernel
example : cleanTrace traceM = true := by decide +kernel
example : projOps 0 scriptM = scriptA ∧ projRes 0 scriptM traceM = traceA := by decide +kernel
example : projOps 1 scriptM = [.read (.int ⟨false, 8⟩), .read .str] ∧
    projRes 1 scriptM traceM = [.out (.val (.int 7)), .out (.val (.str [97, 98]))] := by decide +kernel
example : domPrefixM scriptM [srcBytes srcA, srcBytes srcD] = 10 := by decide +kernel
/-- the hypotheses of `multi_refines` / `readers_independent` hold for these states -/
example : AllInv 10 [init 4 srcA, init 2 srcD] := by
  intro s hs
  simp only [List.mem_cons, List.not_mem_nil, or_false] at hs
  rcases hs with rfl | rfl
  · exact ⟨4, by decide, init_inv 4 _ (by simp [srcA, SrcOk]), by rw [init_R]; decide +kernel⟩
  · exact ⟨2, by decide, init_inv 2 _ (by simp [srcD, SrcOk]), by rw [init_R]; decide +kernel⟩
/-- the theorem instantiated: reader 0 interleaved with reader 1 answers like reader 0 alone under another delivery -/
example : projRes 0 scriptM (runMulti 10 scriptM [init 4 srcA, init 2 srcD]) = runScript 10 scriptA (init 1 srcC) := by
  have hall : AllInv 10 [init 4 srcA, init 2 srcD] := by
    intro s hs
    simp only [List.mem_cons, List.not_mem_nil, or_false] at hs
    rcases hs with rfl | rfl
    · exact ⟨4, by decide, init_inv 4 _ (by simp [srcA, SrcOk]), by rw [init_R]; decide +kernel⟩
    · exact ⟨2, by decide, init_inv 2 _ (by simp [srcD, SrcOk]), by rw [init_R]; decide +kernel⟩
  have h := readers_independent 10 scriptM [init 4 srcA, init 2 srcD] hall (by decide +kernel) 0 (init 4 srcA) rfl
    1 (by decide) (init 1 srcC) (init_inv 1 _ (by simp [srcC, SrcOk])) (by rw [init_R, init_R]; decide +kernel)
    10 (by rw [init_R]; decide +kernel)
  have e : projOps 0 scriptM = scriptA := by decide +kernel
  rw [e] at h; exact h
/-- a panic of one reader ends the multi-reader trace; the other reader's results are then a proper prefix -/
example : specMulti [.run 0 (.read (.int ⟨true, 8⟩)), .run 1 (.read (.int ⟨true, 8⟩)), .run 0 .eof] [[53, 32], [49, 50, 56]]
    = [some (.out (.val (.int 5))), some (.panic .overflow)] ∧
    domPrefixM [.run 0 (.read (.int ⟨true, 8⟩)), .run 1 (.read (.int ⟨true, 8⟩)), .run 0 .eof] [[53, 32], [49, 50, 56]] = 1 := by
  decide +kernel
/-- a case line: two (schedule, input) pairs -/
example : runMulti (maxLen [[45, 49, 50, 32, 120, 13, 10, 121, 13], [55, 32, 97, 98, 10]] + 1) scriptM
    (initMulti 4 [([(some 1, 1), (none, 1), (some 2, 1)], [45, 49, 50, 32, 120, 13, 10, 121, 13]), ([(some 1, 5)], [55, 32, 97, 98, 10])])
    = traceM := by
  have h := multi_schedule_independent 4 (by decide)
    [([(some 1, 1), (none, 1), (some 2, 1)], [45, 49, 50, 32, 120, 13, 10, 121, 13]), ([(some 1, 5)], [55, 32, 97, 98, 10])]
    (by intro p hp k n h; simp at hp; rcases hp with rfl | rfl <;> simp at h <;> omega) scriptM (by decide +kernel)
  have e : specMulti scriptM [[45, 49, 50, 32, 120, 13, 10, 121, 13], [55, 32, 97, 98, 10]] = traceM := by decide +kernel
  simp only [List.map] at h
  rw [e] at h; exact h

/-! ## Wave 4: degenerate arguments — `read_vec(0)` consumes nothing

Motivated by `seeded/C08_m13` (a `debug_assert!` in `read_vec` that calls `is_eof()`, which skips whitespace: in the debug
build `read_vec(0)` swallows blanks and line ends, visible in the next `read_line`). In the model and in the specification a
`read_vec(0)` of any element shape looks at no byte: inserting one ANYWHERE in a script changes nothing but the inserted
`[]` itself — from every state, for every fuel (no invariant needed), also when the script panics or leaves the domain. -/

/-- the model: a `read_vec(0)` at the front returns `[]` and leaves the state as it is (buffer, positions, eof flag, source) -/
theorem read_vec_zero_consumes_nothing (fuel : Nat) (as : List Atom) (ops : List Op) (s : RState) :
    runScript fuel (.vec as 0 :: ops) s = .out (.vec []) :: runScript fuel ops s := by
  simp [runScript, runOp, readVec]

/-- the model: a `read_vec(0)` inserted after any prefix `pre`: deleting its result gives the trace of the script without it -/
theorem read_vec_zero_anywhere (fuel : Nat) (as : List Atom) (pre post : List Op) (s : RState) :
    (runScript fuel (pre ++ .vec as 0 :: post) s).eraseIdx pre.length = runScript fuel (pre ++ post) s := by
  induction pre generalizing s with
  | nil => simp [runScript, runOp, readVec]
  | cons op pre ih =>
    simp only [List.cons_append, runScript, List.length_cons]
    split
    · simp
    · simp [ih]

/-- the specification: the same, and the call is inside the property's domain wherever it stands -/
theorem spec_read_vec_zero_anywhere (as : List Atom) (pre post : List Op) (rest : List UInt8) :
    (specScript (pre ++ .vec as 0 :: post) rest).eraseIdx pre.length = specScript (pre ++ post) rest ∧
    inDomOp (.vec as 0) rest = true := by
  refine ⟨?_, by simp [inDomOp, inDomVec]⟩
  induction pre generalizing rest with
  | nil => simp [specScript, specOp, specVec]
  | cons op pre ih =>
    simp only [List.cons_append, specScript, List.length_cons]
    split
    · simp
    · simp
    · simp [ih]

/-! non-vacuity: `5 ␠␊␠x␊` — `read_vec(0)` of a tuple shape between the number and the line reads: the first line is the blank
    rest of line one, the second line keeps its indentation (what `seeded/C08_m13` loses in the debug build) -/
def scriptV0 : List Op := [.read (.int ⟨false, 8⟩), .vec [.int ⟨true, 32⟩, .str] 0, .line, .line, .line]
example : specScript scriptV0 [53, 32, 10, 32, 120, 10] =
    [.out (.val (.int 5)), .out (.vec []), .out (.line (some [32])), .out (.line (some [32, 120])), .out (.line none)] := by decide +kernel
example : runScript 7 scriptV0 (init 2 [.data [53], .intr, .data [32, 10], .data [32, 120, 10]]) =
    [.out (.val (.int 5)), .out (.vec []), .out (.line (some [32])), .out (.line (some [32, 120])), .out (.line none)] := by decide +kernel
example : domPrefix scriptV0 [53, 32, 10, 32, 120, 10] = 5 := by decide +kernel
/-- the theorem instantiated (prefix of one call), and on a script that panics BEFORE the inserted call (both traces end there) -/
example : (specScript scriptV0 [53, 32, 10, 32, 120, 10]).eraseIdx 1 =
    specScript [.read (.int ⟨false, 8⟩), .line, .line, .line] [53, 32, 10, 32, 120, 10] :=
  (spec_read_vec_zero_anywhere [.int ⟨true, 32⟩, .str] [.read (.int ⟨false, 8⟩)] [.line, .line, .line] _).1
example : specScript ([.read (.int ⟨true, 8⟩)] ++ .vec [.chr] 0 :: [.line]) [49, 50, 56] = [.panic .overflow] := by decide +kernel

end Rlib.C08
