import RlibModel.Props.C13
import RlibModel.Lemmas.SieveSrc
/-
C13, second tie: theorems about the definitions REGENERATED from the Rust source text on every run.
Kept in their own module so that a source the translator cannot read (or an equivalence proof that no longer goes
through) leaves the property theorems of Props/C13.lean — and their audit — untouched; `./check` then decides
between `second tie unavailable` (translator subset; the correspondence tie still stands) and a broken obligation.
-/
namespace Rlib.C13
open Rlib Rlib.Sieve

/-! ### Second tie: the definitions regenerated from the source text of this run

`Rlib.SieveSrc.new / min_prime / is_prime / primes` are written by `tools/rs2lean_typed.py` from `rlib/sieve/src/lib.rs` on every run
of `./check C13` (`Generated/SieveSrc.lean`: `isp` an `Array Bool`, `mnp` and `primes` `Array Int`s with checked indexing, `as i32` /
`as usize` = `IntTy.wrap`, `n + 1` and `primes[j] as usize * i` checked `usize` operations, the nested `for` loops with `break` behind a
short-circuit `||` on `fuel`).  `emb : Array Nat → Array Int` embeds the model's `Nat` tables.  `src_new_eq_model`: for every limit with
`N + 1 < 2^31` (the casts are the identity — the residue named in the model) and `2 N + 1 ≤ fuel`, the regenerated constructor returns
exactly the three tables of `sieve N`; in particular none of its index / overflow checks fires.  The accessors agree with the model's for
EVERY table and every `usize` argument (value or `index` panic).  `src_min_prime_spec`, `src_is_prime_spec`, `src_primes_spec` state the
property directly about the regenerated definitions.  `PrimeIter::next` / `factorize` are NOT covered by this tie (differential only). -/

open Rlib.SrcVec (emb)

theorem src_new_eq_model (fuel N : Nat) (hN : N + 1 < 2 ^ 31) (hf : 2 * N + 1 ≤ fuel) :
    Rlib.SieveSrc.new fuel (N : Int) = .ok ((sieve N).isp, emb (sieve N).mnp, emb (sieve N).primes) :=
  Rlib.SieveSrc.new_eq_model fuel N hN hf

theorem src_min_prime_eq_model (fuel : Nat) (s : St) (n : Nat) (hn : n < 2 ^ 64) :
    Rlib.SieveSrc.min_prime fuel s.isp (emb s.mnp) (emb s.primes) (n : Int) = (minPrime s n).map (fun (x : Nat) => (x : Int)) :=
  Rlib.SieveSrc.min_prime_eq_model fuel s n hn

theorem src_is_prime_eq_model (fuel : Nat) (s : St) (n : Nat) (hn : n < 2 ^ 64) :
    Rlib.SieveSrc.is_prime fuel s.isp (emb s.mnp) (emb s.primes) (n : Int) = isPrime s n :=
  Rlib.SieveSrc.is_prime_eq_model fuel s n hn

theorem src_primes_eq_model (fuel : Nat) (s : St) :
    Rlib.SieveSrc.primes fuel s.isp (emb s.mnp) (emb s.primes) = .ok (emb s.primes) ∧
      (emb s.primes).toList = (primesOf s).map (fun (x : Nat) => (x : Int)) :=
  Rlib.SieveSrc.primes_eq_model fuel s

/-- the property about the regenerated text: build the tables with the regenerated `new`, read them with the regenerated `min_prime` —
    the least prime factor, for every `2 ≤ n ≤ N`. -/
theorem src_min_prime_spec (fuel N n : Nat) (hN : N + 1 < 2 ^ 31) (hf : 2 * N + 1 ≤ fuel) (h2 : 2 ≤ n) (hn : n ≤ N) :
    ∃ isp mnp primes, Rlib.SieveSrc.new fuel (N : Int) = .ok (isp, mnp, primes) ∧
      Rlib.SieveSrc.min_prime fuel isp mnp primes (n : Int) = .ok ((n.minFac : Nat) : Int) := by
  refine ⟨_, _, _, src_new_eq_model fuel N hN hf, ?_⟩
  rw [src_min_prime_eq_model fuel (sieve N) n (by omega), minPrime_spec N n h2 hn]
  rfl

/-- … and with the regenerated `is_prime`: primality, for every `n ≤ N`. -/
theorem src_is_prime_spec (fuel N n : Nat) (hN : N + 1 < 2 ^ 31) (hf : 2 * N + 1 ≤ fuel) (hn : n ≤ N) :
    ∃ isp mnp primes, Rlib.SieveSrc.new fuel (N : Int) = .ok (isp, mnp, primes) ∧
      Rlib.SieveSrc.is_prime fuel isp mnp primes (n : Int) = .ok (decide n.Prime) := by
  refine ⟨_, _, _, src_new_eq_model fuel N hN hf, ?_⟩
  rw [src_is_prime_eq_model fuel (sieve N) n (by omega), isPrime_spec N n hn]

/-- … and the regenerated `primes`: all primes `≤ N` in increasing order. -/
theorem src_primes_spec (fuel N : Nat) (hN : N + 1 < 2 ^ 31) (hf : 2 * N + 1 ≤ fuel) :
    ∃ isp mnp primes, Rlib.SieveSrc.new fuel (N : Int) = .ok (isp, mnp, primes) ∧
      Rlib.SieveSrc.primes fuel isp mnp primes = .ok primes ∧
      primes.toList = ((List.range (N + 1)).filter Nat.Prime).map (fun (x : Nat) => (x : Int)) := by
  refine ⟨_, _, _, src_new_eq_model fuel N hN hf, (src_primes_eq_model fuel (sieve N)).1, ?_⟩
  rw [(src_primes_eq_model fuel (sieve N)).2, primes_spec]

/-! ### non-vacuity of the second tie -/

example : ∃ isp mnp primes, Rlib.SieveSrc.new 201 (100 : Nat) = .ok (isp, mnp, primes) ∧
    Rlib.SieveSrc.min_prime 201 isp mnp primes (91 : Nat) = .ok 7 := by
  obtain ⟨isp, mnp, primes, h1, h2⟩ := src_min_prime_spec 201 100 91 (by omega) (by omega) (by omega) (by omega)
  refine ⟨isp, mnp, primes, h1, ?_⟩
  have e : Nat.minFac 91 = 7 := by decide +kernel
  rw [h2, e]; rfl
example : ∃ isp mnp primes, Rlib.SieveSrc.new 201 (100 : Nat) = .ok (isp, mnp, primes) ∧
    Rlib.SieveSrc.is_prime 201 isp mnp primes (97 : Nat) = .ok true := by
  obtain ⟨isp, mnp, primes, h1, h2⟩ := src_is_prime_spec 201 100 97 (by omega) (by omega) (by omega)
  refine ⟨isp, mnp, primes, h1, ?_⟩
  rw [h2]; congr 1
example : ∃ isp mnp primes, Rlib.SieveSrc.new 41 (20 : Nat) = .ok (isp, mnp, primes) ∧ primes.toList = [2, 3, 5, 7, 11, 13, 17, 19] := by
  obtain ⟨isp, mnp, primes, h1, _, h3⟩ := src_primes_spec 41 20 (by omega) (by omega)
  refine ⟨isp, mnp, primes, h1, ?_⟩
  rw [h3]; decide +kernel
-- the accessor theorems cover the panic as well: one past the end of the table
example : Rlib.SieveSrc.min_prime 0 (sieve 10).isp (emb (sieve 10).mnp) (emb (sieve 10).primes) (11 : Nat) = .error .index := by
  rw [src_min_prime_eq_model 0 (sieve 10) 11 (by omega), minPrime_out_of_range 10 11 (by omega)]; rfl

end Rlib.C13
