import RlibModel.Lemmas.DsuHistory
/-!
# C05 — DSU tracks connectivity and sizes and stays log-depth

Property theorems only.  Model: `Model/Dsu.lean` (`par`/`un`/`check`/`size`/`reset`/`new`, histories `run` on the
current structure and a saved clone).  Vocabulary (`Lemmas/Dsu*.lean`):

* `get a i`        proof-level array read; `Reach p v r` : following parents from `v` ends in the root `r`;
                   `ReachN p v r k` : … in exactly `k` steps (the recursion depth of `par v`).
* `Inv s n`        the invariant: both arrays have length `n`, parents are `< n`, and there EXISTS a rank function that
                   increases strictly along parent links, with `2^rank r ≤ sz[r]` and `sz[r]` = number of vertices whose
                   root is `r` (as the length of a duplicate-free member list) at every root `r`.
* `Conn U`         `Relation.EqvGen` of the union pairs `U` since the last reset (connectivity by definition);
                   `IsCard n U v k` : `k` is the number of `x < n` with `Conn U x v`.
* `Sound c d ops rs`  what the property says about the results `rs` of a history `ops` (specification states `c`, `d` =
                   element count, union list, representative function of the current structure / the clone).
-/
namespace Rlib.C05
open Rlib Rlib.Dsu

/-- `DSU::new(n)` establishes the invariant. -/
theorem inv_new (n : Nat) : Inv (new n) n := ⟨_, inv_new_rank n⟩

/-- `reset(n)` yields exactly the state `DSU::new(n)` from any state (growing or shrinking) … -/
theorem reset_spec (s : S) (n : Nat) : reset s n = new n := reset_eq_new s n

/-- … hence re-establishes the invariant. -/
theorem inv_reset (s : S) (n : Nat) : Inv (reset s n) n := by rw [reset_eq_new]; exact inv_new n

/-- `par` (find with full path compression), for every state satisfying the invariant and every `v < n`:
    with fuel `> log2 n` it returns normally (no `fuel` error = `log2 n + 1` stack frames always suffice; no
    index panic), the result is the root of `v`, the invariant still holds, every vertex keeps its root, and the
    sizes are untouched. -/
theorem par_spec (s : S) (n v fuel : Nat) (hi : Inv s n) (hv : v < n) (hf : Nat.log2 n < fuel) :
    ∃ s' r, par fuel s v = .ok (s', r) ∧ Reach s.p v r ∧ Inv s' n ∧ s'.sz = s.sz ∧
      (∀ x q, x < n → Reach s.p x q → Reach s'.p x q) := by
  obtain ⟨rank, h⟩ := hi
  obtain ⟨s', r, e, hr, h', hsz, hpres⟩ := par_ok h hv hf
  exact ⟨s', r, e, hr, ⟨rank, h'⟩, hsz, hpres⟩

/-- `par` preserves the invariant. -/
theorem inv_par (s : S) (n v fuel : Nat) (hi : Inv s n) (hv : v < n) (hf : Nat.log2 n < fuel) :
    ∃ s' r, par fuel s v = .ok (s', r) ∧ Inv s' n := by
  obtain ⟨s', r, e, _, h', _, _⟩ := par_spec s n v fuel hi hv hf
  exact ⟨s', r, e, h'⟩

/-- `un` preserves the invariant (and never panics or runs out of fuel on in-range arguments). -/
theorem inv_un (s : S) (n u v fuel : Nat) (hi : Inv s n) (hu : u < n) (hv : v < n) (hf : Nat.log2 n < fuel) :
    ∃ s' b, un fuel s u v = .ok (s', b) ∧ Inv s' n := by
  obtain ⟨U, ρ, habs⟩ := hi.exists_abs
  obtain ⟨s', b, ρ', e, habs', _, _, _⟩ := un_abs habs hu hv hf
  exact ⟨s', b, e, habs'.inv⟩

/-- The forest never gets deeper than log2 of the component size: if `v` reaches its root `r` in `k` parent steps
    (`k` + 1 = number of `par` frames), then `k ≤ log2 sz[r]` (and `sz[r] ≤ n`, so `k ≤ log2 n`). -/
theorem depth_le_log (s : S) (n v r k : Nat) (hi : Inv s n) (hv : v < n) (h : ReachN s.p v r k) :
    k ≤ Nat.log2 (get s.sz r) ∧ get s.sz r ≤ n := by
  obtain ⟨rank, hR⟩ := hi
  have hrn : r < n := h.reach.lt hR hv
  have hroot := h.reach.isRoot
  have h1 := h.rank_le hR hv
  have h2 := hR.big r hrn hroot
  have hpos : get s.sz r ≠ 0 := by
    intro h0; rw [h0] at h2; have := Nat.two_pow_pos (rank r); omega
  refine ⟨?_, hR.sz_le hrn hroot⟩
  rw [Nat.le_log2 hpos]
  calc 2 ^ k ≤ 2 ^ rank r := Nat.pow_le_pow_right (by decide) (by omega)
    _ ≤ get s.sz r := h2

/-- One-step refinement, `check`: on a state representing the union list `U`, `check u v` answers `Conn U u v`. -/
theorem check_spec (s : S) (n : Nat) (U : List (Nat × Nat)) (ρ : Nat → Nat) (u v fuel : Nat)
    (h : Abs s n U ρ) (hu : u < n) (hv : v < n) (hf : Nat.log2 n < fuel) :
    ∃ s' b, check fuel s u v = .ok (s', b) ∧ Abs s' n U ρ ∧ (b = true ↔ Conn U u v) :=
  check_abs h hu hv hf

/-- One-step refinement, `un`: returns `true` iff the two elements were in different classes; afterwards the state
    represents `(u, v) :: U`; representatives change only inside the two joined classes, and not at all when the
    answer is `false`. -/
theorem un_spec (s : S) (n : Nat) (U : List (Nat × Nat)) (ρ : Nat → Nat) (u v fuel : Nat)
    (h : Abs s n U ρ) (hu : u < n) (hv : v < n) (hf : Nat.log2 n < fuel) :
    ∃ s' b ρ', un fuel s u v = .ok (s', b) ∧ Abs s' n ((u, v) :: U) ρ' ∧ (b = true ↔ ¬ Conn U u v) ∧
      (b = false → ρ' = ρ) ∧ (∀ x, ρ x ≠ ρ u → ρ x ≠ ρ v → ρ' x = ρ x) :=
  un_abs h hu hv hf

/-- One-step refinement, `size`: the cardinality of the class. -/
theorem size_spec (s : S) (n : Nat) (U : List (Nat × Nat)) (ρ : Nat → Nat) (v fuel : Nat)
    (h : Abs s n U ρ) (hv : v < n) (hf : Nat.log2 n < fuel) :
    ∃ s' k, size fuel s v = .ok (s', k) ∧ Abs s' n U ρ ∧ IsCard n U v k :=
  size_abs h hv hf

/-- One-step refinement, `par`: returns the representative `ρ v` — a member of `v`'s class (`Conn U v (ρ v)`, `ρ v < n`),
    the same for all members (`Conn U x y → ρ x = ρ y`) — and the state still represents `U` with the SAME `ρ`
    (so `par`, and likewise `check`/`size` above, never change any representative). -/
theorem par_rep (s : S) (n : Nat) (U : List (Nat × Nat)) (ρ : Nat → Nat) (v fuel : Nat)
    (h : Abs s n U ρ) (hv : v < n) (hf : Nat.log2 n < fuel) :
    ∃ s', par fuel s v = .ok (s', ρ v) ∧ Abs s' n U ρ ∧ ρ v < n ∧ Conn U v (ρ v) ∧
      (∀ x y, Conn U x y → ρ x = ρ y) := by
  obtain ⟨s', e, h', _, _⟩ := par_abs h hv hf
  exact ⟨s', e, h', h.rep_lt hv, h.rep_conn hv, h.sound⟩

/-- **History refinement.**  For every initial size and every history of `un / par / check / size / reset / clone / swap /
    cloneFrom / restore` (the last two are `Clone::clone_from` between the two live structures, in either direction) whose arguments are in range (`Valid`), the model — which gives every find only `fuelFor s = log2 n + 1` stack frames —
    runs to completion (no panic, no `fuel` error) and its results are `Sound`:
    `check u v = true ↔ Conn U u v` with `U` the unions since the last reset of that structure; `un u v` returns
    `true ↔ ¬ Conn U u v`; `size v` is the cardinality of the class of `v`; `par v = ρ v` where the representative
    function `ρ` satisfies `RepOK` (member of the class, equal for all members), is left unchanged by
    `par/check/size` and by a `un` answering `false`, and changes only on the two joined classes otherwise;
    `clone` duplicates the specification state, after which both copies evolve independently; `cloneFrom` / `restore`
    overwrite the specification state of the destination with that of the source, whatever the destination was before.
    Moreover the state reached (current structure and clone) satisfies the invariant again. -/
theorem history_refines (n0 : Nat) (ops : List Op) (hv : Valid n0 n0 ops) :
    ∃ y rs, run (initSys n0) ops = .ok (y, rs) ∧ Sound ⟨n0, [], id⟩ ⟨n0, [], id⟩ ops rs ∧
      Inv y.cur y.cur.p.size ∧ Inv y.saved y.saved.p.size := by
  obtain ⟨y, rs, c', d', e, hs, hc, hd⟩ :=
    run_sound ops (initSys n0) ⟨n0, [], id⟩ ⟨n0, [], id⟩ (abs_new n0) (abs_new n0) hv
  have h1 : y.cur.p.size = c'.n := by obtain ⟨_, hi⟩ := hc.inv; exact hi.lp
  have h2 : y.saved.p.size = d'.n := by obtain ⟨_, hi⟩ := hd.inv; exact hi.lp
  exact ⟨y, rs, e, hs, h1 ▸ hc.inv, h2 ▸ hd.inv⟩

/-- **Log depth after every history** (the "stays log-depth / cannot exhaust the stack" clause at history level):
    in the state reached by any valid history — and, since a valid history cut short is valid (`history_prefix_valid`),
    in every intermediate state — every vertex `v` is at most `log2 K` parent steps away from its root, where `K` is the
    stored size of that root, `K` is the cardinality of `v`'s class w.r.t. the unions since the last reset, and `K ≤ n`.
    (`par v` uses `k + 1` frames; the executed model allows `log2 n + 1`.) -/
theorem history_depth (n0 : Nat) (ops : List Op) (hv : Valid n0 n0 ops) :
    ∃ y rs U, run (initSys n0) ops = .ok (y, rs) ∧
      ∀ v r k, v < y.cur.p.size → ReachN y.cur.p v r k →
        k ≤ Nat.log2 (get y.cur.sz r) ∧ IsCard y.cur.p.size U v (get y.cur.sz r) ∧ get y.cur.sz r ≤ y.cur.p.size := by
  obtain ⟨y, rs, c', d', e, _, hc, _⟩ :=
    run_sound ops (initSys n0) ⟨n0, [], id⟩ ⟨n0, [], id⟩ (abs_new n0) (abs_new n0) hv
  have h1 : y.cur.p.size = c'.n := by obtain ⟨_, hi⟩ := hc.inv; exact hi.lp
  refine ⟨y, rs, c'.U, e, fun v r k hvn hr => ?_⟩
  rw [h1] at hvn ⊢
  obtain ⟨hk, hle⟩ := depth_le_log y.cur c'.n v r k hc.inv hvn hr
  have hrv : r = c'.ρ v := Reach.det hr.reach (hc.rep v hvn)
  exact ⟨hk, hrv ▸ hc.card_root hvn, hle⟩

/-- a valid history cut short is valid: `history_refines` / `history_depth` therefore speak about every intermediate state -/
theorem history_prefix_valid (n0 : Nat) (ops : List Op) (k : Nat) (hv : Valid n0 n0 ops) : Valid n0 n0 (ops.take k) :=
  Valid.take ops n0 n0 k hv

/-- `saved.clone_from(&current)` is `saved = current.clone()` (std's contract for the provided method `Clone::clone_from`):
    as a step of the model it is the step `clone`, for every pair of states (destination fresh, used, shorter, longer). -/
theorem cloneFrom_spec (y : Sys) : step y .cloneFrom = step y .clone := by
  obtain ⟨cur, saved⟩ := y; rfl

/-- `current.clone_from(&saved)` (rolling back to the snapshot) is `swap` followed by `clone`: the current structure becomes
    the snapshot, the snapshot stays, nothing of the overwritten structure survives. -/
theorem restore_spec (y : Sys) :
    ∃ y', step y .restore = .ok (y', .unit) ∧ run y [.swap, .clone] = .ok (y', [.unit, .unit]) ∧
      y'.cur = y.saved ∧ y'.saved = y.saved := by
  obtain ⟨cur, saved⟩ := y
  exact ⟨⟨saved, saved⟩, rfl, rfl, rfl, rfl⟩

/-- the budget `log2 n + 1` is what makes the executed model notice a degenerate forest: on a plain chain of depth 3 over
    4 elements (which violates the invariant) a find from the deepest vertex runs out of fuel. -/
theorem chain_exhausts_budget :
    par (fuelFor ⟨#[0, 0, 1, 2], #[4, 1, 1, 1]⟩) ⟨#[0, 0, 1, 2], #[4, 1, 1, 1]⟩ 3 = .error .fuel := by
  have h : fuelFor ⟨#[0, 0, 1, 2], #[4, 1, 1, 1]⟩ = 3 := by decide
  rw [h]; rfl

/-! ### non-vacuity -/

-- the hypotheses of the one-step theorems are satisfiable by a state with a non-trivial forest: after `un 0 1` on
-- four singletons the state represents `[(0,1)]`, and 0 and 1 share their root
example : ∃ s ρ, Abs s 4 [(0, 1)] ρ ∧ Inv s 4 ∧ ρ 0 = ρ 1 ∧ Reach s.p 0 (ρ 1) := by
  obtain ⟨s', b, ρ', _, habs, _, _, _⟩ :=
    un_spec (new 4) 4 [] id 0 1 4 (abs_new 4) (by omega) (by omega) (by decide)
  have e := habs.sound 0 1 (Conn.head 0 1)
  exact ⟨s', ρ', habs, habs.inv, e, e ▸ habs.rep 0 (by omega)⟩

-- a history with every kind of operation is `Valid`, so `history_refines` speaks about it
example : Valid 3 3 [.un 0 1, .check 0 1, .size 1, .par 0, .clone, .reset 5, .un 4 0, .swap, .check 0 1, .size 2] := by
  simp [Valid]

-- … also with `clone_from` in both directions onto used destinations of a different size: the snapshot (3 elements, one
-- union) is overwritten by the 5-element structure, then the 2-element structure is rolled back to that snapshot
example : Valid 3 3 [.un 0 1, .clone, .reset 5, .un 4 0, .cloneFrom, .reset 2, .un 0 1, .restore, .size 4, .check 4 0] := by
  simp [Valid]

-- `Sound` after a roll-back speaks about the SNAPSHOT's unions, not about those of the overwritten structure
example (c d : Spec) (u v : Nat) (b : Bool) (h : Sound c d [.restore, .check u v] [.unit, .bool b]) :
    b = true ↔ Conn d.U u v := by
  cases h with
  | restore _ _ _ _ h' =>
    cases h' with
    | check _ _ _ _ _ _ _ hb _ => exact hb

-- … and the size reported after a roll-back is the cardinality w.r.t. the snapshot's unions
example (c d : Spec) (v k : Nat) (h : Sound c d [.restore, .size v] [.unit, .nat k]) : IsCard d.n d.U v k := by
  cases h with
  | restore _ _ _ _ h' =>
    cases h' with
    | size _ _ _ _ _ _ hk _ => exact hk

-- `Sound` is not trivially true: it pins the answer of `check`
example (c d : Spec) (u v : Nat) (b : Bool) (h : Sound c d [.check u v] [.bool b]) : b = true ↔ Conn c.U u v := by
  cases h with
  | check _ _ _ _ _ _ _ hb _ => exact hb

-- … and distinguishes connected from unconnected pairs: 0 and 2 are not connected by the single union (0,1)
example : ¬ Conn [(0, 1)] 0 2 := by
  intro h
  have := Conn.cons_sound (U := []) (u := 0) (v := 1) (fun x => if x = 2 then 1 else 0)
    (fun x y hxy => by rw [hxy.nil_eq]) (by decide) 0 2 h
  simp at this

-- the depth bound is tight: after un(0,1), un(2,3), un(1,3) vertex 0 is 2 = log2 4 steps from the root
example : ReachN (#[1, 3, 3, 3] : Array Nat) 0 3 2 :=
  ReachN.step (by decide) (ReachN.step (by decide) (ReachN.root (by decide)))

end Rlib.C05
