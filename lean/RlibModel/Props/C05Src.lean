import RlibModel.Props.C05
import RlibModel.Lemmas.DsuSrc
/-
C05, second tie: theorems about the definitions REGENERATED from the Rust source text on every run.
Kept in their own module so that a source the translator cannot read (or an equivalence proof that no longer goes
through) leaves the property theorems of Props/C05.lean — and their audit — untouched; `./check` then decides
between `second tie unavailable` (translator subset; the correspondence tie still stands) and a broken obligation.
-/
namespace Rlib.C05
open Rlib Rlib.Dsu

/-! ### Second tie: the definitions regenerated from the source text of this run

`Rlib.DsuSrc.new/reset/par/un/check/size` are written by `tools/rs2lean_typed.py` from `rlib/dsu/src/lib.rs` on every run of
`./check C05` (`Generated/DsuSrc.lean`; `Vec<usize>` = `Array Int` with checked indexing, `+=` = checked `usize` addition, the
recursion of `par` and the `for` loops of `reset` on `fuel`).  `emb : Array Nat → Array Int` embeds the model's vectors, `outN`/`outB`
a model result `(state, value)` into what the generated functions return: `(emb p, emb sz, value)`.
`src_<f>_eq_model`: the regenerated definition returns exactly what the hand-written model returns — value or the same panic —
for EVERY state, argument and fuel, with these stated exceptions: `reset` needs `n + 1 ≤ fuel` (its loops run on fuel; the model's
`reset` is a fold); where the model, out of fuel at an out-of-range vertex, answers `index` (it checks the index before the fuel) the
generated `par`/`un`/`check`/`size` answer `fuel` (second disjunct); `un` is stated for states whose two vectors have the same
length (the model checks both arguments against both vectors, the code only what it touches) and in which the sum of any two
stored sizes fits `usize` (the code's `+=` is overflow-checked, the model does not have the check).  Hence every theorem above
about `new/reset/par/un/check/size` speaks about what the source text of this very run says; `src_par_spec`, `src_check_spec`
and `src_un_spec` state parts of the property directly about the regenerated definitions. -/

open Rlib.SrcVec (emb)
open Rlib.DsuSrc (outN outB)

theorem src_new_eq_model (fuel n : Nat) :
    Rlib.DsuSrc.new fuel (n : Int) = .ok (emb (new n).p, emb (new n).sz) :=
  Rlib.DsuSrc.new_eq_model fuel n

theorem src_reset_eq_model (fuel : Nat) (s : S) (n : Nat) (hf : n + 1 ≤ fuel) :
    Rlib.DsuSrc.reset fuel (emb s.p) (emb s.sz) (n : Int) = .ok (emb (reset s n).p, emb (reset s n).sz) :=
  Rlib.DsuSrc.reset_eq_model fuel s n hf

theorem src_par_eq_model (fuel : Nat) (s : S) (v : Nat) :
    Rlib.DsuSrc.par fuel (emb s.p) (emb s.sz) (v : Int) = (par fuel s v).map outN ∨
    (Rlib.DsuSrc.par fuel (emb s.p) (emb s.sz) (v : Int) = .error .fuel ∧ par fuel s v = .error .index) :=
  Rlib.DsuSrc.par_agree fuel s v

theorem src_un_eq_model (fuel : Nat) (s : S) (u v : Nat) (hlen : s.p.size = s.sz.size)
    (hsz : ∀ (i j : Nat) (hi : i < s.sz.size) (hj : j < s.sz.size), s.sz[i] + s.sz[j] < 2 ^ 64) :
    Rlib.DsuSrc.un fuel (emb s.p) (emb s.sz) (u : Int) (v : Int) = (un fuel s u v).map outB ∨
    (Rlib.DsuSrc.un fuel (emb s.p) (emb s.sz) (u : Int) (v : Int) = .error .fuel ∧ un fuel s u v = .error .index) :=
  Rlib.DsuSrc.un_agree fuel s u v hlen hsz

theorem src_check_eq_model (fuel : Nat) (s : S) (u v : Nat) :
    Rlib.DsuSrc.check fuel (emb s.p) (emb s.sz) (u : Int) (v : Int) = (check fuel s u v).map outB ∨
    (Rlib.DsuSrc.check fuel (emb s.p) (emb s.sz) (u : Int) (v : Int) = .error .fuel ∧ check fuel s u v = .error .index) :=
  Rlib.DsuSrc.check_agree fuel s u v

theorem src_size_eq_model (fuel : Nat) (s : S) (v : Nat) :
    Rlib.DsuSrc.size fuel (emb s.p) (emb s.sz) (v : Int) = (size fuel s v).map outN ∨
    (Rlib.DsuSrc.size fuel (emb s.p) (emb s.sz) (v : Int) = .error .fuel ∧ size fuel s v = .error .index) :=
  Rlib.DsuSrc.size_agree fuel s v

/-- `par_spec` about the regenerated `par`: on a state satisfying the invariant, with `log2 n + 1` frames, it returns the root of `v`
    (no panic, no `fuel` error), the new state satisfies the invariant and the sizes are untouched. -/
theorem src_par_spec (s : S) (n v fuel : Nat) (hi : Inv s n) (hv : v < n) (hf : Nat.log2 n < fuel) :
    ∃ (s' : S) (r : Nat), Rlib.DsuSrc.par fuel (emb s.p) (emb s.sz) (v : Int) = .ok (emb s'.p, emb s'.sz, ((r : Nat) : Int)) ∧
      Reach s.p v r ∧ Inv s' n ∧ s'.sz = s.sz := by
  obtain ⟨s', r, e, hr, hi', hsz, _⟩ := par_spec s n v fuel hi hv hf
  refine ⟨s', r, ?_, hr, hi', hsz⟩
  rcases src_par_eq_model fuel s v with h | ⟨_, h⟩
  · rw [h, e]; rfl
  · rw [e] at h; cases h

/-- `check_spec` about the regenerated `check`: it answers connectivity w.r.t. the unions since the last reset. -/
theorem src_check_spec (s : S) (n : Nat) (U : List (Nat × Nat)) (ρ : Nat → Nat) (u v fuel : Nat)
    (h : Abs s n U ρ) (hu : u < n) (hv : v < n) (hf : Nat.log2 n < fuel) :
    ∃ s' b, Rlib.DsuSrc.check fuel (emb s.p) (emb s.sz) (u : Int) (v : Int) = .ok (emb s'.p, emb s'.sz, b) ∧
      Abs s' n U ρ ∧ (b = true ↔ Conn U u v) := by
  obtain ⟨s', b, e, ha, hb⟩ := check_spec s n U ρ u v fuel h hu hv hf
  refine ⟨s', b, ?_, ha, hb⟩
  rcases src_check_eq_model fuel s u v with h' | ⟨_, h'⟩
  · rw [h', e]; rfl
  · rw [e] at h'; cases h'

/-- `un_spec` about the regenerated `un` (the stored sizes must not overflow `usize` when added): `true` iff the classes differed,
    afterwards the state represents `(u, v) :: U`. -/
theorem src_un_spec (s : S) (n : Nat) (U : List (Nat × Nat)) (ρ : Nat → Nat) (u v fuel : Nat)
    (h : Abs s n U ρ) (hu : u < n) (hv : v < n) (hf : Nat.log2 n < fuel)
    (hsz : ∀ (i j : Nat) (hi : i < s.sz.size) (hj : j < s.sz.size), s.sz[i] + s.sz[j] < 2 ^ 64) :
    ∃ s' b ρ', Rlib.DsuSrc.un fuel (emb s.p) (emb s.sz) (u : Int) (v : Int) = .ok (emb s'.p, emb s'.sz, b) ∧
      Abs s' n ((u, v) :: U) ρ' ∧ (b = true ↔ ¬ Conn U u v) := by
  obtain ⟨s', b, ρ', e, ha, hb, _, _⟩ := un_spec s n U ρ u v fuel h hu hv hf
  have hlen : s.p.size = s.sz.size := by
    obtain ⟨_, hi⟩ := h.inv
    rw [hi.lp, hi.ls]
  refine ⟨s', b, ρ', ?_, ha, hb⟩
  rcases src_un_eq_model fuel s u v hlen hsz with h' | ⟨_, h'⟩
  · rw [h', e]; rfl
  · rw [e] at h'; cases h'

/-! ### non-vacuity of the second tie -/

-- the regenerated `new`/`reset` really build the vectors `0..n` and `1,…,1`
example : Rlib.DsuSrc.new 0 (3 : Nat) = .ok (emb #[0, 1, 2], emb #[1, 1, 1]) := by
  rw [src_new_eq_model]; rfl
example : Rlib.DsuSrc.reset 4 (emb #[5, 5]) (emb #[7]) (3 : Nat) = .ok (emb #[0, 1, 2], emb #[1, 1, 1]) := by
  rw [src_reset_eq_model 4 ⟨#[5, 5], #[7]⟩ 3 (by omega), reset_spec]; rfl

-- the first disjunct of `src_par_eq_model` is the one that holds on a real forest: path compression on the chain 0 → 1 → 2 → 3
example : Rlib.DsuSrc.par 4 (emb #[1, 2, 3, 3]) (emb #[1, 1, 1, 4]) (0 : Nat) = .ok (emb #[3, 3, 3, 3], emb #[1, 1, 1, 4], 3) := by
  have e : par 4 ⟨#[1, 2, 3, 3], #[1, 1, 1, 4]⟩ 0 = .ok (⟨#[3, 3, 3, 3], #[1, 1, 1, 4]⟩, 3) := rfl
  rcases src_par_eq_model 4 ⟨#[1, 2, 3, 3], #[1, 1, 1, 4]⟩ 0 with h | ⟨_, h⟩
  · rw [h, e]; rfl
  · rw [e] at h; cases h

-- … and the second disjunct is not vacuous either: fuel 1, the parent of 0 is out of range
example : Rlib.DsuSrc.par 1 (emb #[7]) (emb #[1]) ((0 : Nat) : Int) = .error .fuel ∧ par 1 ⟨#[7], #[1]⟩ 0 = .error .index := by
  refine ⟨?_, rfl⟩
  rw [Rlib.DsuSrc.par, Rlib.SrcVec.index_emb]
  simp [Rlib.DsuSrc.par]

-- the hypotheses of `src_un_eq_model` hold on a fresh structure; `un` there joins and reports `true`
example : Rlib.DsuSrc.un 3 (emb (new 4).p) (emb (new 4).sz) (1 : Nat) (2 : Nat) = .ok (emb #[0, 2, 2, 3], emb #[1, 1, 2, 1], true) := by
  have e : un 3 (new 4) 1 2 = .ok (⟨#[0, 2, 2, 3], #[1, 1, 2, 1]⟩, true) := rfl
  rcases src_un_eq_model 3 (new 4) 1 2 (by decide) (by intro i j hi hj; simp [new]) with h | ⟨_, h⟩
  · rw [h, e]; rfl
  · rw [e] at h; cases h

example : Rlib.DsuSrc.check 3 (emb #[0, 2, 2, 3]) (emb #[1, 1, 2, 1]) (1 : Nat) (2 : Nat) = .ok (emb #[0, 2, 2, 3], emb #[1, 1, 2, 1], true) := by
  have e : check 3 ⟨#[0, 2, 2, 3], #[1, 1, 2, 1]⟩ 1 2 = .ok (⟨#[0, 2, 2, 3], #[1, 1, 2, 1]⟩, true) := rfl
  rcases src_check_eq_model 3 ⟨#[0, 2, 2, 3], #[1, 1, 2, 1]⟩ 1 2 with h | ⟨_, h⟩
  · rw [h, e]; rfl
  · rw [e] at h; cases h

example : Rlib.DsuSrc.size 3 (emb #[0, 2, 2, 3]) (emb #[1, 1, 2, 1]) (1 : Nat) = .ok (emb #[0, 2, 2, 3], emb #[1, 1, 2, 1], 2) := by
  have e : size 3 ⟨#[0, 2, 2, 3], #[1, 1, 2, 1]⟩ 1 = .ok (⟨#[0, 2, 2, 3], #[1, 1, 2, 1]⟩, 2) := rfl
  rcases src_size_eq_model 3 ⟨#[0, 2, 2, 3], #[1, 1, 2, 1]⟩ 1 with h | ⟨_, h⟩
  · rw [h, e]; rfl
  · rw [e] at h; cases h

-- the hypotheses of the `src_*_spec` corollaries are those of `par_spec` / `check_spec` / `un_spec` (satisfiable: see above);
-- the size hypothesis of `src_un_spec` holds on `new n` for every `n`
example (n : Nat) : ∀ (i j : Nat) (hi : i < (new n).sz.size) (hj : j < (new n).sz.size), (new n).sz[i] + (new n).sz[j] < 2 ^ 64 := by
  intro i j hi hj
  simp [new]

end Rlib.C05
