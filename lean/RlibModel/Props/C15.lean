import RlibModel.Lemmas.IterMasks
/-!
# C15 — combinatorial iterators enumerate exactly the specified set, once each, in order
-/
namespace Rlib.C15
open Rlib.Iter

/-- The step of `next_submask`: for a non-zero submask `s` of `x`, `(s − 1) & x` is a submask of `x`
    below `s`, and it is the **largest** one (no submask is skipped). -/
theorem submask_step (s x : Nat) (hs : s ≠ 0) (hsx : s &&& x = s) :
    ((s - 1) &&& x) &&& x = (s - 1) &&& x ∧ (s - 1) &&& x < s ∧
    ∀ u, u &&& x = u → u < s → u ≤ (s - 1) &&& x := by
  refine ⟨by rw [Nat.and_assoc, Nat.and_self], ?_, submask_step_aux s x hs hsx⟩
  have : (s - 1) &&& x ≤ s - 1 := Nat.and_le_left
  omega

example : (12 - 1) &&& 13 = 9 := by decide

end Rlib.C15
