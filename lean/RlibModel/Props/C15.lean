import RlibModel.Lemmas.IterMasks
import RlibModel.Lemmas.IterPermSpec
import RlibModel.Lemmas.IterNeigh
import RlibModel.Lemmas.IterProto
/-!
# C15 — combinatorial iterators enumerate exactly the specified set, once each, in order

Property theorems only; the models are in `Model/Iter.lean`, helper lemmas in
`Lemmas/IterMasks.lean`, `Lemmas/IterPerm.lean`, `Lemmas/IterPermAll.lean`, `Lemmas/IterPermSpec.lean`,
`Lemmas/IterNeigh.lean`.

Masks are bit patterns `x < 2^w` for an arbitrary width `w` (signed and unsigned types of one width share
them).  Sequences are lists of integers, `<` on them is the lexicographic order, `Perm` = "is an
arrangement of".
-/
namespace Rlib.C15
open Rlib.Iter

/-! ## `iter_submasks` -/

/-- The step of `next_submask`: for a non-zero submask `s` of `x`, `(s − 1) & x` is a submask of `x`
    below `s`, and it is the **largest** one (no submask is skipped). -/
theorem submask_step (s x : Nat) (hs : s ≠ 0) (hsx : s &&& x = s) :
    ((s - 1) &&& x) &&& x = (s - 1) &&& x ∧ (s - 1) &&& x < s ∧
    ∀ u, u &&& x = u → u < s → u ≤ (s - 1) &&& x := by
  refine ⟨by rw [Nat.and_assoc, Nat.and_self], ?_, submask_step_aux s x hs hsx⟩
  have : (s - 1) &&& x ≤ s - 1 := Nat.and_le_left
  omega

example : (12 - 1) &&& 13 = 9 ∧ 12 &&& 13 = 12 := by decide

/-- `iter_submasks(x)` yields exactly the list "all numbers from `x` down to 0 that are submasks of `x`",
    for every width `w` and every `w`-bit mask (the wrapping subtraction never wraps, the iterator
    terminates — it is defined by well-founded recursion). -/
theorem submasks_spec (w x : Nat) (hx : x < 2 ^ w) : iterSubmasks w x = specSubmasks x := by
  unfold iterSubmasks specSubmasks
  exact submasksFrom_spec w x x hx (Nat.and_self x)

example : iterSubmasks 8 13 = [13, 12, 9, 8, 5, 4, 1, 0] := by
  rw [submasks_spec 8 13 (by decide)]; decide

/-- Spelled out: every submask of `x` exactly once (the list is strictly decreasing, so it has no
    repetitions), nothing else, ending with 0. -/
theorem submasks_enumeration (w x : Nat) (hx : x < 2 ^ w) :
    (iterSubmasks w x).Pairwise (· > ·) ∧ (∀ s, s ∈ iterSubmasks w x ↔ s &&& x = s) ∧
    (iterSubmasks w x).getLast? = some 0 := by
  refine ⟨?_, ?_, by unfold iterSubmasks; exact List.getLast?_concat⟩
  · rw [submasks_spec w x hx]
    unfold specSubmasks
    exact (List.pairwise_reverse.mpr List.pairwise_lt_range).filter _
  · intro s
    rw [submasks_spec w x hx]
    unfold specSubmasks
    rw [List.mem_filter, List.mem_reverse, List.mem_range, isSubmask_iff]
    constructor
    · exact fun h => h.2
    · intro h
      have : s &&& x ≤ x := Nat.and_le_right
      exact ⟨by omega, h⟩

example : 9 ∈ iterSubmasks 16 13 := ((submasks_enumeration 16 13 (by decide)).2.1 9).mpr (by decide)

/-- The fast bit-by-bit enumeration the driver uses as specification for large masks is the
    by-definition one. -/
theorem subsAsc_reverse_spec (x : Nat) : (subsAsc x).reverse = specSubmasks x := by
  unfold specSubmasks
  rw [subsAsc_spec, List.filter_reverse]

example : (subsAsc 5).reverse = [5, 4, 1, 0] := by rw [subsAsc_reverse_spec]; decide

/-! ## `iter_supermasks` -/

/-- The step of `next_supermask`: for a supermask `s` of `x`, `(s + 1) | x` is a supermask of `x`
    above `s`, and the **least** one. -/
theorem supermask_step (s x : Nat) (hxs : x &&& s = x) :
    x &&& ((s + 1) ||| x) = x ∧ s < (s + 1) ||| x ∧
    ∀ u, x &&& u = x → s < u → (s + 1) ||| x ≤ u := by
  refine ⟨and_or_self_right x (s + 1), ?_, supermask_step_aux s x hxs⟩
  have : s + 1 ≤ (s + 1) ||| x := Nat.left_le_or
  omega

example : (11 + 1) ||| 3 = 15 ∧ 3 &&& 11 = 3 := by decide

/-- `iter_supermasks(x)` yields exactly the list "all `w`-bit numbers in increasing order that are
    supermasks of `x`", for every width `w` and every `w`-bit mask — including the all-ones mask
    (`-1` of a signed type), where the answer is `[ones]`. -/
theorem supermasks_spec (w x : Nat) (hx : x < 2 ^ w) : iterSupermasks w x = specSupermasks w x := by
  unfold iterSupermasks specSupermasks
  rw [supermasksFrom_spec w x hx (ones w - x) x rfl hx (Nat.and_self x)]
  rw [List.range_eq_range']
  have := filter_range'_skip (fun u => isSubmask x u) (2 ^ w) 0 x (Nat.zero_le _) (by omega) (by
    intro u _ hu
    cases h : isSubmask x u with
    | false => rfl
    | true =>
      have h' := (isSubmask_iff x u).mp h
      have : x &&& u ≤ u := Nat.and_le_right
      omega)
  rw [Nat.sub_zero] at this
  exact this.symm

example : iterSupermasks 4 5 = [5, 7, 13, 15] := by
  rw [supermasks_spec 4 5 (by decide)]; decide
example : iterSupermasks 8 255 = [255] := by
  rw [supermasks_spec 8 255 (by decide)]; decide

/-- Spelled out: every `w`-bit supermask of `x` exactly once (strictly increasing), nothing else,
    ending with all-ones. -/
theorem supermasks_enumeration (w x : Nat) (hx : x < 2 ^ w) :
    (iterSupermasks w x).Pairwise (· < ·) ∧
    (∀ s, s ∈ iterSupermasks w x ↔ s < 2 ^ w ∧ x &&& s = x) ∧
    (iterSupermasks w x).getLast? = some (ones w) := by
  refine ⟨?_, ?_, by unfold iterSupermasks; exact List.getLast?_concat⟩
  · rw [supermasks_spec w x hx]
    exact List.pairwise_lt_range.filter _
  · intro s
    rw [supermasks_spec w x hx]
    unfold specSupermasks
    rw [List.mem_filter, List.mem_range, isSubmask_iff]

example : 13 ∈ iterSupermasks 4 5 := ((supermasks_enumeration 4 5 (by decide)).2.1 13).mpr (by decide)

/-- The fast bit-by-bit enumeration the driver uses as specification for wide types is the
    by-definition one. -/
theorem supsAsc_eq_spec (w x : Nat) (hx : x < 2 ^ w) : supsAsc w x = specSupermasks w x :=
  supsAsc_spec w x hx

example : supsAsc 4 5 = [5, 7, 13, 15] := by rw [supsAsc_eq_spec 4 5 (by decide)]; decide

/-! ## `next_permutation` -/

/-- The Rust loop, modelled index by index (`findAscent`, `findJ`, `swapAt`, `reverseFrom`), never
    goes out of bounds and computes exactly the structural formulation the proofs below work on. -/
theorem nextPermIdx_structural (d : List Int) : nextPermutationIdx d = .ok (nextPermutation d) :=
  nextPermutationIdx_eq d

example : nextPermutationIdx [1, 3, 2, 2] = .ok ([2, 1, 2, 3], true) := by
  rw [nextPermIdx_structural, show nextPermutation [1, 3, 2, 2] = ([2, 1, 2, 3], true) by decide]

/-- `true` case: the new content is the lexicographic successor of the old one among **all**
    arrangements of the same elements (repeated elements allowed): an arrangement, greater, and not
    greater than any other greater arrangement. -/
theorem nextPerm_spec (xs ys : List Int) (h : nextPermutationIdx xs = .ok (ys, true)) :
    ys.Perm xs ∧ xs < ys ∧ ∀ zs, zs.Perm xs → xs < zs → ys ≤ zs := by
  rw [nextPermutationIdx_eq] at h
  unfold nextPermutation at h
  cases hnp : np xs with
  | none => rw [hnp] at h; simp at h
  | some v =>
    rw [hnp] at h
    simp only [Except.ok.injEq, Prod.mk.injEq, and_true] at h
    subst h
    obtain ⟨h1, h2, h3⟩ := np_spec xs v hnp
    exact ⟨h1, h2, fun zs hz hlt => List.not_lt.mp (h3 zs hz hlt)⟩

example : nextPermutationIdx [2, 0, 2, 1, 1] = .ok ([2, 1, 0, 1, 2], true) := by
  rw [nextPermIdx_structural, show nextPermutation [2, 0, 2, 1, 1] = ([2, 1, 0, 1, 2], true) by decide]

/-- `false` is returned exactly on non-increasing input (the last arrangement) … -/
theorem nextPerm_false_iff (xs : List Int) :
    (∃ ys, nextPermutationIdx xs = .ok (ys, false)) ↔ xs.Pairwise (· ≥ ·) := by
  rw [nextPermutationIdx_eq]
  constructor
  · rintro ⟨ys, h⟩
    simp only [Except.ok.injEq] at h
    exact (nextPermutation_false xs).mp (by rw [h])
  · intro h
    refine ⟨(nextPermutation xs).1, ?_⟩
    have := (nextPermutation_false xs).mpr h
    rw [← this]

/-- … and then the content is left reversed, which is the sorted (first) arrangement. -/
theorem nextPerm_wrap (xs : List Int) (h : xs.Pairwise (· ≥ ·)) :
    nextPermutationIdx xs = .ok (xs.reverse, false) ∧ xs.reverse.Pairwise (· ≤ ·) := by
  rw [nextPermutationIdx_eq]
  have h1 := (nextPermutation_false xs).mpr h
  obtain ⟨h2, h3⟩ := nextPermutation_wrap xs h
  refine ⟨?_, h3⟩
  rw [← h1, ← h2]

example : nextPermutationIdx [3, 2, 2, 1] = .ok ([1, 2, 2, 3], false) :=
  (nextPerm_wrap [3, 2, 2, 1] (by decide)).1

/-- In executable form: `next_permutation` returns what the by-definition specification returns — the
    first arrangement above the input in the sorted duplicate-free list of all arrangements, or, when
    there is none, the sorted arrangement and `false`. -/
theorem nextPerm_eq_spec (xs : List Int) : nextPermutationIdx xs = .ok (specNextPermutation xs) := by
  rw [nextPermutationIdx_eq, specNextPermutation_eq]

example : nextPermutationIdx [0, 2, 2, 1] = .ok ([1, 0, 2, 2], true) := by
  rw [nextPerm_eq_spec, show specNextPermutation [0, 2, 2, 1] = ([1, 0, 2, 2], true) by rw [specNextPermutation_eq]; decide]

/-! ## `iter_permutations` -/

/-- `iter_permutations(d).collect()`: the fuel of the model always suffices (the iterator terminates
    within `len! + 1` steps) and no step panics; the output starts with the sorted content; every
    element is produced from the previous one by a `true` step of `next_permutation` and the last one
    is non-increasing (the next step returns `false`); the output is strictly increasing in the
    lexicographic order — so no arrangement is listed twice — and its members are exactly the
    arrangements of `d`. -/
theorem iterPermutations_spec (d : List Int) :
    ∃ r, iterPermutations d = .ok (sortInts d :: r) ∧
      (sortInts d).Pairwise (· ≤ ·) ∧
      StepChain (sortInts d) r ∧
      (sortInts d :: r).Pairwise (· < ·) ∧
      (∀ zs, zs ∈ sortInts d :: r ↔ zs.Perm d) ∧
      ((sortInts d :: r).getLast (by simp)).Pairwise (· ≥ ·) := by
  have hs := sortInts_perm d
  have hfuel : (allPerms (sortInts d)).countP (fun z => decide (sortInts d < z)) < factorial d.length + 1 := by
    have h1 : (allPerms (sortInts d)).countP (fun z => decide (sortInts d < z)) ≤ (allPerms (sortInts d)).length :=
      List.countP_le_length
    rw [length_allPerms, hs.length_eq] at h1
    omega
  obtain ⟨r, hr⟩ := permIterRest_fuel (sortInts d) _ (sortInts d) (List.Perm.refl _) hfuel
  have hchain := permIterRest_chain _ _ _ hr
  refine ⟨r, ?_, sortInts_nonDec d, hchain, chain_sorted r _ hchain, ?_, chain_last_nonInc r _ hchain⟩
  · unfold iterPermutations
    simp only [hr]
  · intro zs
    constructor
    · intro h
      rcases List.mem_cons.mp h with rfl | h
      · exact hs
      · exact (chain_perm r _ hchain zs h).trans hs
    · intro h
      exact chain_cover r _ hchain zs (h.trans hs.symm)
        (nonDec_min _ zs (sortInts_nonDec d) (h.trans hs.symm))

/-- The by-definition specification (all arrangements, sorted, duplicates dropped) is strictly increasing
    and contains exactly the arrangements of `d` … -/
theorem specPermutations_enumeration (d : List Int) :
    (specPermutations d).Pairwise (· < ·) ∧ ∀ z, z ∈ specPermutations d ↔ z.Perm d :=
  specPermutations_char d

/-- … and it is, as a list, what `iter_permutations(d).collect()` returns. -/
theorem iterPermutations_eq_spec (d : List Int) : iterPermutations d = .ok (specPermutations d) := by
  obtain ⟨r, h1, _, _, h4, h5, _⟩ := iterPermutations_spec d
  obtain ⟨s1, s2⟩ := specPermutations_char d
  rw [h1]
  congr 1
  exact sorted_ext_lex _ _ h4 s1 (fun a => by rw [h5 a, s2 a])

example : ∃ out, iterPermutations [2, 1, 2] = .ok out ∧ out.Pairwise (· < ·) ∧ [2, 2, 1] ∈ out :=
  ⟨_, iterPermutations_eq_spec _, (specPermutations_enumeration _).1,
    ((specPermutations_enumeration _).2 _).mpr (by decide)⟩

/-- The link between the chain and the Rust function: a chain step is a `true` step. -/
theorem stepChain_step (u v : List Int) : np u = some v ↔ nextPermutationIdx u = .ok (v, true) := by
  rw [nextPermutationIdx_eq]
  unfold nextPermutation
  cases np u <;> simp

example : ∃ r, iterPermutations [2, 1, 2] = .ok (sortInts [2, 1, 2] :: r) ∧
    [2, 2, 1] ∈ sortInts [2, 1, 2] :: r ∧ [1, 2, 2] ∈ sortInts [2, 1, 2] :: r := by
  obtain ⟨r, h1, _, _, _, h5, _⟩ := iterPermutations_spec [2, 1, 2]
  exact ⟨r, h1, (h5 _).mpr (by decide), (h5 _).mpr (by decide)⟩

/-! ## grid neighbours -/

/-- The three iterators equal "the fixed offset list, each offset kept iff the target cell lies in the
    `n × m` grid" over the mathematical integers (the `isize`/`usize` casts are the identity for
    arguments below `isize::MAX`).  Holds for any offset list with components in `{-1, 0, 1}`. -/
theorem neighbours_spec (offs : List (Int × Int)) (hoffs : SmallOffsets offs) (n m i j : Nat)
    (hn : n < 2 ^ 63 - 1) (hm : m < 2 ^ 63 - 1) (hi : i < 2 ^ 63 - 1) (hj : j < 2 ^ 63 - 1) :
    neighbours offs n m i j = specNeighbours offs n m i j :=
  neighbours_eq_spec offs hoffs n m i j hn hm hi hj

example : neighbours4 3 3 1 1 = [(1, 2), (0, 1), (1, 0), (2, 1)] := by
  unfold neighbours4
  rw [neighbours_spec _ smallOffsets4 3 3 1 1 (by decide) (by decide) (by decide) (by decide)]; decide
example : neighbours8 2 2 0 0 = [(0, 1), (1, 0), (1, 1)] := by
  unfold neighbours8
  rw [neighbours_spec _ smallOffsets8 2 2 0 0 (by decide) (by decide) (by decide) (by decide)]; decide

/-- `iter_neighbours_4`: exactly the in-grid cells at Manhattan distance 1, each once. -/
theorem neighbours4_mem (n m i j a b : Nat)
    (hn : n < 2 ^ 63 - 1) (hm : m < 2 ^ 63 - 1) (hi : i < 2 ^ 63 - 1) (hj : j < 2 ^ 63 - 1) :
    ((a, b) ∈ neighbours4 n m i j ↔
      a < n ∧ b < m ∧ ((a : Int) - i).natAbs + ((b : Int) - j).natAbs = 1) := by
  unfold neighbours4
  rw [neighbours_spec _ smallOffsets4 n m i j hn hm hi hj, specNeighbours_mem]
  have : (((a : Int) - i, (b : Int) - j) ∈ offsets4) ↔ ((a : Int) - i).natAbs + ((b : Int) - j).natAbs = 1 := by
    simp [offsets4]; omega
  rw [this]

/-- `iter_neighbours_4d`: exactly the in-grid diagonal cells. -/
theorem neighbours4d_mem (n m i j a b : Nat)
    (hn : n < 2 ^ 63 - 1) (hm : m < 2 ^ 63 - 1) (hi : i < 2 ^ 63 - 1) (hj : j < 2 ^ 63 - 1) :
    ((a, b) ∈ neighbours4d n m i j ↔
      a < n ∧ b < m ∧ ((a : Int) - i).natAbs = 1 ∧ ((b : Int) - j).natAbs = 1) := by
  unfold neighbours4d
  rw [neighbours_spec _ smallOffsets4d n m i j hn hm hi hj, specNeighbours_mem]
  have : (((a : Int) - i, (b : Int) - j) ∈ offsets4d) ↔ (((a : Int) - i).natAbs = 1 ∧ ((b : Int) - j).natAbs = 1) := by
    simp [offsets4d]; omega
  rw [this]

/-- `iter_neighbours_8`: exactly the in-grid cells at Chebyshev distance 1. -/
theorem neighbours8_mem (n m i j a b : Nat)
    (hn : n < 2 ^ 63 - 1) (hm : m < 2 ^ 63 - 1) (hi : i < 2 ^ 63 - 1) (hj : j < 2 ^ 63 - 1) :
    ((a, b) ∈ neighbours8 n m i j ↔
      a < n ∧ b < m ∧ max ((a : Int) - i).natAbs ((b : Int) - j).natAbs = 1) := by
  unfold neighbours8
  rw [neighbours_spec _ smallOffsets8 n m i j hn hm hi hj, specNeighbours_mem]
  have : (((a : Int) - i, (b : Int) - j) ∈ offsets8) ↔ max ((a : Int) - i).natAbs ((b : Int) - j).natAbs = 1 := by
    simp [offsets8]; omega
  rw [this]

example : (0, 1) ∈ neighbours4 3 3 1 1 :=
  (neighbours4_mem 3 3 1 1 0 1 (by decide) (by decide) (by decide) (by decide)).mpr (by decide)
example : (5, 5) ∈ neighbours4d 6 6 4 4 :=
  (neighbours4d_mem 6 6 4 4 5 5 (by decide) (by decide) (by decide) (by decide)).mpr (by decide)
example : (0, 0) ∈ neighbours8 1 5 0 1 :=
  (neighbours8_mem 1 5 0 1 0 0 (by decide) (by decide) (by decide) (by decide)).mpr (by decide)

/-- No cell is yielded twice (for any duplicate-free offset list, in particular the three of rlib). -/
theorem neighbours_nodup (offs : List (Int × Int)) (hoffs : SmallOffsets offs) (hnd : offs.Nodup)
    (n m i j : Nat)
    (hn : n < 2 ^ 63 - 1) (hm : m < 2 ^ 63 - 1) (hi : i < 2 ^ 63 - 1) (hj : j < 2 ^ 63 - 1) :
    (neighbours offs n m i j).Nodup := by
  rw [neighbours_spec offs hoffs n m i j hn hm hi hj]
  unfold specNeighbours
  refine List.Pairwise.filterMap _ ?_ hnd
  intro p q hpq c hc c' hc' hcc
  apply hpq
  simp only at hc hc'
  split at hc
  · split at hc'
    · simp only [Option.some.injEq] at hc hc'
      subst hcc
      rw [← hc'] at hc
      simp only [Prod.mk.injEq] at hc
      apply Prod.ext <;> omega
    · cases hc'
  · cases hc

example : offsets4.Nodup ∧ offsets4d.Nodup ∧ offsets8.Nodup := by decide

/-! ## the iterator protocol: every provided method of `Iterator`, also after partial consumption

The iterators are observed not only through `collect()`: `Model/IterProto.lean` models std's default bodies of the
provided methods as loops over `next` (`stdSem`) and states what they mean on the sequence still to come
(`specSem`); scripts of such calls are run by the driver on the model's sequence with `stdSem` (`M`) and on the
specification's sequence with `specSem` (`S`). -/

/-- std's default bodies of `nth`, `by_ref().take(k)`, `find`, `position`, `any`, `all`, `count`, `last`,
    `fold`/`for_each`/`collect`, `reduce`, `min`/`max`, `min_by_key`/`max_by_key`/`min_by`/`max_by` compute what the
    methods mean: `l[n]?` and `drop (n+1)`; `take k` and `drop k`; first match and what follows it; `length`;
    `getLast?`; the sequence itself; the **first** element `≤` all others; the **last** element `≥` all others
    (for the element order and for keys with ties). -/
theorem provided_methods_spec : stdSem = specSem := stdSem_eq_specSem

example : stdNth 1 [[13], [12], [9], [8]] = (some [12], some [[9], [8]]) := by decide
example : stdNth 4 [[13], [12], [9], [8]] = (none, none) := by decide
example : stdCount [[13], [12], [9], [8]] = 4 ∧ stdLast [[13], [12]] = some [12] := by decide
example : stdMinBy (leKey .par) [[3], [2], [5], [4]] = some [2] ∧ stdMaxBy (leKey .par) [[3], [2], [5], [4]] = some [5] := by
  decide
example : specMinBy (leKey .par) [[3], [2], [5], [4]] = some [2] ∧ specMaxBy (leKey .par) [[3], [2], [5], [4]] = some [5] := by
  decide
example : stdMaxBy leElem [[-1], [-2], [127]] = some [127] := by decide

/-- Hence a script of calls answers the same on the model side and on the specification side. -/
theorem script_model_eq_spec (k : Kind) (ops : List Op) (st : Option (List Elem)) :
    runScript stdSem k ops st = runScript specSem k ops st := by
  rw [provided_methods_spec]

example : (runScript stdSem ⟨fun _ => "e", fun _ => "c", none⟩ [.next, .hint, .count, .next] (some [[13], [12], [9]])).length = 4 := by
  decide

/-- `min` / `min_by_key`: the answer is an element of the sequence that is `≤` every element, and no element before
    it is (for any total preorder `le`); `max` dually with the **last** such element. -/
theorem minBy_maxBy_spec (le : Elem → Elem → Bool) (h : TotalPre le) (l : List Elem) (m : Elem) :
    (stdMinBy le l = some m ↔
      ∃ pre post, l = pre ++ m :: post ∧ (∀ y ∈ l, le m y = true) ∧ ∀ a ∈ pre, ∃ y ∈ l, le a y = false) ∧
    (stdMaxBy le l = some m ↔
      ∃ pre post, l = pre ++ m :: post ∧ (∀ y ∈ l, le y m = true) ∧ ∀ a ∈ post, ∃ y ∈ l, le y a = false) := by
  constructor
  · rw [stdMinBy_eq h, specMinBy, List.find?_eq_some_iff_append]
    constructor
    · rintro ⟨hm, pre, post, e, hpre⟩
      refine ⟨pre, post, e, List.all_eq_true.mp hm, fun a ha => ?_⟩
      have := hpre a ha
      simp only [Bool.not_eq_eq_eq_not, Bool.not_true] at this
      rw [List.all_eq_false] at this
      obtain ⟨y, hy, hay⟩ := this
      exact ⟨y, hy, by simpa using hay⟩
    · rintro ⟨pre, post, e, hm, hpre⟩
      refine ⟨List.all_eq_true.mpr hm, pre, post, e, fun a ha => ?_⟩
      obtain ⟨y, hy, hay⟩ := hpre a ha
      simp only [Bool.not_eq_eq_eq_not, Bool.not_true]
      rw [List.all_eq_false]
      exact ⟨y, hy, by rw [hay]; simp⟩
  · rw [stdMaxBy_eq h, specMaxBy, List.find?_eq_some_iff_append]
    constructor
    · rintro ⟨hm, as, bs, e, has⟩
      have e' : l = bs.reverse ++ m :: as.reverse := by
        have := congrArg List.reverse e
        simpa using this
      refine ⟨bs.reverse, as.reverse, e', List.all_eq_true.mp hm, fun a ha => ?_⟩
      have := has a (List.mem_reverse.mp ha)
      simp only [Bool.not_eq_eq_eq_not, Bool.not_true] at this
      rw [List.all_eq_false] at this
      obtain ⟨y, hy, hay⟩ := this
      exact ⟨y, hy, by simpa using hay⟩
    · rintro ⟨pre, post, e, hm, hpost⟩
      refine ⟨List.all_eq_true.mpr hm, post.reverse, pre.reverse, by rw [e]; simp, fun a ha => ?_⟩
      obtain ⟨y, hy, hay⟩ := hpost a (List.mem_reverse.mp ha)
      simp only [Bool.not_eq_eq_eq_not, Bool.not_true]
      rw [List.all_eq_false]
      exact ⟨y, hy, by rw [hay]; simp⟩

example : TotalPre leElem ∧ TotalPre (leKey .par) ∧ TotalPre (leKey .c0) :=
  ⟨totalPre_leElem, totalPre_leKey _, totalPre_leKey _⟩

/-- `sum()` / `product()` with overflow checks: when no partial result leaves the type, the answer is the
    mathematical sum / product of the values. -/
theorem sum_product_value (t : IntTy) (l : List Elem) (v : Int) :
    (sumChecked t l = .ok v → v = (l.map (·.headD 0)).foldl (· + ·) 0) ∧
    (productChecked t l = .ok v → v = (l.map (·.headD 0)).foldl (· * ·) 1) :=
  ⟨foldChecked_ok t _ _ _ _, foldChecked_ok t _ _ _ _⟩

example : sumChecked ⟨false, 8⟩ [[5], [4], [1], [0]] = .ok 10 ∧ sumChecked ⟨false, 8⟩ [[255], [254]] = .error .overflow ∧
    sumChecked ⟨true, 8⟩ [[-1], [-2], [-3]] = .ok (-6) := ⟨rfl, rfl, rfl⟩

/-! ## long sequences with few arrangements -/

/-- The direct enumeration of the distinct arrangements of a multiset (the driver's `S` for `iter_permutations` on
    sequences longer than 9, where the `n!` orderings of `specPermutations` cannot be built) is the by-definition one. -/
theorem specPermutationsFast_eq (d : List Int) : specPermutationsFast d = specPermutations d :=
  specPermutationsFast_eq' d

/-- … so it is what `iter_permutations(d).collect()` returns. -/
theorem iterPermutations_eq_specFast (d : List Int) : iterPermutations d = .ok (specPermutationsFast d) := by
  rw [specPermutationsFast_eq, iterPermutations_eq_spec]

example : arrangements 4 [0, 0, 1, 1] = [[0, 0, 1, 1], [0, 1, 0, 1], [0, 1, 1, 0], [1, 0, 0, 1], [1, 0, 1, 0], [1, 1, 0, 0]] := by
  decide
example : [1, 0, 1, 0] ∈ specPermutationsFast [1, 0, 0, 1] ∧ (specPermutationsFast [1, 0, 0, 1]).Pairwise (· < ·) :=
  ⟨((specPermutationsFast_char _).2 _).mpr (by decide), (specPermutationsFast_char _).1⟩

end Rlib.C15
