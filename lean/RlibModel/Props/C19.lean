import RlibModel.Lemmas.TensorIo
import RlibModel.Lemmas.TensorGen
/-!
# C19 — tensor indexing is a row-major bijection with per-dimension bounds checks

Property theorems only; the model is `Model/Tensor.lean` (the definitions the driver `drv_tensor`
executes), helper lemmas are in `Lemmas/Tensor.lean`.  All theorems hold for **every rank** (the
lists `dims`, `idx` have arbitrary length) and all extents.

* `InRange dims idx` : equal lengths and `idxᵢ < dimsᵢ` for all `i`  (`inRange_iff`);
* `SomeOob dims idx` : some `idxᵢ ≥ dimsᵢ`                             (`someOob_iff`);
* `flat dims idx`    : `Σ idxᵢ · Π_{j>i} dimsⱼ`, the row-major offset;
* `WF t`             : what the constructors establish (positive extents, `data.len() = Π dims`).
-/
namespace Rlib.C19
open Rlib.Tensor

/-- The recursive predicates used below are the pointwise statements. -/
theorem inRange_iff (dims idx : List Nat) :
    InRange dims idx ↔ idx.length = dims.length ∧
      ∀ k (h1 : k < idx.length) (h2 : k < dims.length), idx[k] < dims[k] :=
  inRange_iff_forall dims idx

theorem someOob_iff (dims idx : List Nat) (hl : idx.length = dims.length) :
    SomeOob dims idx ↔ ∃ k, ∃ (h1 : k < idx.length) (h2 : k < dims.length), dims[k] ≤ idx[k] :=
  someOob_iff_exists dims idx hl

/-- `get_index` on an in-range index: no assertion fires, the result is the row-major offset
    (the loop folds from the last dimension, `flat` is Horner from the first), and it is inside
    the storage. -/
theorem getIndex_ok (dims idx : List Nat) (h : InRange dims idx) :
    getIndex dims idx = .ok (flat dims idx) ∧ flat dims idx < prod dims :=
  ⟨getIndex_eq_flat dims idx h, flat_lt_prod dims idx h⟩

/-- Distinct valid multi-indices address distinct elements. -/
theorem getIndex_inj (dims a b : List Nat) (ha : InRange dims a) (hb : InRange dims b) (hne : a ≠ b) :
    flat dims a ≠ flat dims b ∧ getIndex dims a ≠ getIndex dims b := by
  have h : flat dims a ≠ flat dims b := fun e => hne (flat_inj dims a b ha hb e)
  refine ⟨h, ?_⟩
  rw [getIndex_eq_flat _ _ ha, getIndex_eq_flat _ _ hb]
  intro e; injection e with e; exact h e

/-- Row-major: the offset is strictly monotone for the lexicographic order (last index fastest). -/
theorem getIndex_lex (dims a b : List Nat) (ha : InRange dims a) (hb : InRange dims b) (h : LexLt a b) :
    flat dims a < flat dims b :=
  flat_lex dims a b ha hb h

/-- Every storage position is addressed by a valid multi-index (`unflat`, the mixed-radix digits),
    and `unflat` / `flat` are inverse to each other: a bijection onto `[0, Π dims)`. -/
theorem getIndex_onto (dims : List Nat) (n : Nat) (h : n < prod dims) :
    InRange dims (unflat dims n) ∧ getIndex dims (unflat dims n) = .ok n := by
  obtain ⟨h1, h2⟩ := unflat_inRange dims n h
  exact ⟨h1, by rw [getIndex_eq_flat _ _ h1, h2]⟩

theorem unflat_flat_inverse (dims idx : List Nat) (h : InRange dims idx) : unflat dims (flat dims idx) = idx :=
  unflat_flat dims idx h

/-- An index out of range in **any** dimension is rejected by the per-dimension `assert!` —
    whatever the other coordinates are, in particular when the flattened offset would still be
    inside the storage (the aliasing case, see the `example` below). -/
theorem getIndex_oob (dims idx : List Nat) (hl : idx.length = dims.length) (h : SomeOob dims idx) :
    getIndex dims idx = .error .assert :=
  getIndex_assert dims idx hl h

/-- … and so do `t[idx]` and `t[idx] = v`; nothing is read or written. -/
theorem index_oob {α} (t : Tensor α) (idx : List Nat) (v : α) (hl : idx.length = t.dims.length)
    (h : SomeOob t.dims idx) :
    index t idx = .error .assert ∧ setAt t idx v = .error .assert :=
  ⟨Rlib.Tensor.index_oob t idx hl h, setAt_oob t idx v hl h⟩

/-- For equal lengths there is nothing in between: in range or out of range in some dimension. -/
theorem getIndex_total (dims idx : List Nat) (hl : idx.length = dims.length) :
    (∃ k, getIndex dims idx = .ok k ∧ k < prod dims) ∨ getIndex dims idx = .error .assert := by
  rcases inRange_or_someOob dims idx hl with h | h
  · exact Or.inl ⟨_, getIndex_eq_flat _ _ h, flat_lt_prod _ _ h⟩
  · exact Or.inr (getIndex_assert _ _ hl h)

/-- Machine arithmetic: with every `usize` operation of `get_index` checked against 64 bits
    (`getIndexU`, what the driver executes for a `get` case), no overflow check fires for a shape
    with positive extents whose product fits `usize` — for **every** index, valid or not — so all of
    the statements above hold for the checked loop too. -/
theorem getIndex_no_overflow (dims idx : List Nat) (hpos : ∀ d ∈ dims, 0 < d) (hb : prod dims < 2 ^ 64) :
    getIndexU dims idx = getIndex dims idx :=
  getIndexU_eq dims idx hpos hb

/-- Constructors: a zero extent or a length that is not the product is rejected by an assertion;
    otherwise the tensor is well-formed and holds exactly the given shape and elements. -/
theorem ctor_rejects {α σ} (dims : List Nat) (data : List α) (value : α) (rd : σ → α × σ) (s : σ) :
    ((0 ∈ dims ∨ prod dims ≠ data.length) → fromVec dims data = .error .assert ∧ fromSlice dims data = .error .assert) ∧
    (0 ∈ dims → new dims value = .error .assert ∧ Tensor.read dims rd s = .error .assert) := by
  refine ⟨fun h => ?_, fun h => ?_⟩
  · unfold fromVec fromSlice
    by_cases h0 : 0 ∈ dims
    · simp [h0]
    · rcases h with h | h
      · exact absurd h h0
      · simp [h0, h]
  · unfold new Tensor.read
    simp [h]

theorem ctor_accepts {α σ} (dims : List Nat) (data : List α) (value : α) (rd : σ → α × σ) (s : σ)
    (h0 : ¬ 0 ∈ dims) :
    (prod dims = data.length → fromVec dims data = .ok ⟨dims, data⟩ ∧ fromSlice dims data = .ok ⟨dims, data⟩ ∧
        WF (⟨dims, data⟩ : Tensor α)) ∧
    (new dims value = .ok ⟨dims, List.replicate (prod dims) value⟩ ∧
        WF (⟨dims, List.replicate (prod dims) value⟩ : Tensor α)) ∧
    (∃ t s', Tensor.read dims rd s = .ok (t, s') ∧ t.dims = dims ∧ WF t) := by
  have hpos := (no_zero_iff dims).1 h0
  refine ⟨fun h => ?_, ?_, ?_⟩
  · unfold fromVec fromSlice
    simp [h0, h]
    exact ⟨hpos, h.symm⟩
  · unfold new
    simp [h0]
    exact ⟨hpos, by simp⟩
  · unfold Tensor.read
    simp only [contains_zero_iff, h0, if_false]
    refine ⟨_, _, rfl, rfl, hpos, ?_⟩
    have hl : ∀ (n : Nat) (s : σ), (readVec rd n s).1.length = n := by
      intro n
      induction n with
      | zero => intro s; rfl
      | succ n ih => intro s; simp [readVec, ih]
    exact hl _ _

/-- The constructors as the checked build executes them (`dims.iter().product()` through checked
    `usize` multiplications): (i) they are the plain constructors whenever the product fits `usize`;
    (ii) a zero extent is still an assertion failure; (iii) a product that does not fit is a
    `panic:overflow` — so **every** bad shape is rejected (`ctorU_rejects_all`). -/
theorem ctorU_spec {α σ} (dims : List Nat) (data : List α) (value : α) (rd : σ → α × σ) (s : σ) :
    ((∀ d ∈ dims, 0 < d) → prod dims < 2 ^ 64 →
        fromVecU dims data = fromVec dims data ∧ fromSliceU dims data = fromSlice dims data ∧
        newU dims value = new dims value ∧ readU dims rd s = Tensor.read dims rd s) ∧
    (0 ∈ dims →
        fromVecU dims data = .error .assert ∧ fromSliceU dims data = .error .assert ∧
        newU dims value = .error .assert ∧ readU dims rd s = .error .assert) ∧
    (¬ 0 ∈ dims → 2 ^ 64 ≤ prod dims →
        fromVecU dims data = .error .overflow ∧ fromSliceU dims data = .error .overflow ∧
        newU dims value = .error .overflow ∧ readU dims rd s = .error .overflow) := by
  refine ⟨fun hpos hb => ?_, fun h0 => ?_, fun h0 hb => ?_⟩
  · have h0 : ¬ 0 ∈ dims := (no_zero_iff dims).2 hpos
    unfold fromVecU fromSliceU newU readU fromVec fromSlice new Tensor.read
    simp [prodU_ok dims hpos hb, h0]
  · unfold fromVecU fromSliceU newU readU
    simp [h0]
  · unfold fromVecU fromSliceU newU readU
    simp [prodU_overflow dims hb, h0]

theorem ctorU_rejects_all {α} (dims : List Nat) (data : List α) (h : 0 ∈ dims ∨ prod dims ≠ data.length) :
    ∃ e, fromVecU dims data = .error e ∧ fromSliceU dims data = .error e := by
  by_cases h0 : 0 ∈ dims
  · exact ⟨.assert, by unfold fromVecU fromSliceU; simp [h0]⟩
  · have hne : prod dims ≠ data.length := by rcases h with h | h; exact absurd h h0; exact h
    unfold fromVecU fromSliceU
    simp only [contains_zero_iff, h0, if_false]
    cases hp : prodU dims with
    | error e => exact ⟨e, rfl, rfl⟩
    | ok p =>
      have : p = prod dims := by have := prodUFrom_sound dims 1 p hp; omega
      subst this
      exact ⟨.assert, by simp [hne]⟩

/-- `iter()` is the storage in order, and the element at storage position `k` is the one
    addressed by the `k`-th multi-index in row-major order: iteration order = increasing `flat`. -/
theorem iter_rowmajor {α} (t : Tensor α) (hwf : WF t) :
    iter t = t.data ∧
    (∀ k (hk : k < t.data.length), index t (unflat t.dims k) = .ok t.data[k]) ∧
    (∀ idx, InRange t.dims idx → ∃ a, (iter t)[flat t.dims idx]? = some a ∧ index t idx = .ok a) :=
  ⟨rfl, fun k hk => index_unflat t hwf k hk, fun idx h => index_ok t idx hwf h⟩

/-- `t[idx] = v` then `t[idx']`: the written cell reads back `v`, every other valid cell is
    unchanged, the shape is unchanged. -/
theorem index_mut_then_index {α} (t : Tensor α) (hwf : WF t) (idx : List Nat) (v : α) (h : InRange t.dims idx) :
    ∃ t', setAt t idx v = .ok t' ∧ t'.dims = t.dims ∧ WF t' ∧ index t' idx = .ok v ∧
      ∀ idx', InRange t.dims idx' → idx' ≠ idx → index t' idx' = index t idx' := by
  refine ⟨_, setAt_ok t idx v hwf h, rfl, ⟨hwf.1, by simp [hwf.2]⟩, ?_, ?_⟩
  · rw [index_setAt t hwf idx idx v h h, if_pos rfl]
  · intro idx' h' hne
    rw [index_setAt t hwf idx idx' v h h', if_neg hne]

/-- `Writable::write`: for a well-formed tensor the odometer loop terminates within `Π dims` rounds
    (no `fuel` error), never hits an assertion or an index panic, and emits exactly the elements in
    storage order, the `k`-th and `k+1`-th separated by one blank when no trailing block of
    dimensions ends there and by `j` newlines when `j` of them do (`sepCount`). -/
theorem write_spec {α} (t : Tensor α) (hwf : WF t) :
    writePieces t = .ok (specPieces t.dims t.data) ∧ elems (specPieces t.dims t.data) = t.data :=
  ⟨writePieces_spec t hwf, elems_specPiecesFrom t.dims t.data 0⟩

/-- `Debug`: the same walk with bracket separators — `[`×D, the elements in storage order, between
    the `k`-th and `k+1`-th `]`×j `", "` `[`×j with `j = sepCount dims (k+1)`, then `]`×D. -/
theorem debug_spec {α} (render : α → List Char) (t : Tensor α) (hwf : WF t) :
    debugText render t = .ok (List.replicate t.dims.length '[' ++
      ((specPieces t.dims t.data).map (renderPieceDbg render)).flatten ++ List.replicate t.dims.length ']') := by
  unfold debugText
  rw [writePieces_spec t hwf]

/-- The separator written before the element at offset `n` (`0 < n < Π dims`) has as many newlines as the
    multi-index of `n` has trailing zero coordinates — i.e. as many as dimensions just rolled over, the
    code's `D − pos − 1` — and is one blank when there is none. -/
theorem sep_trailing_zeros (dims : List Nat) (n : Nat) (h0 : 0 < n) (h : n < prod dims) :
    sepCount dims n = trailingZeros (unflat dims n) :=
  sepCount_eq_trailingZeros dims n h0 h

/-- Tokenising the written text on ASCII whitespace gives back the renderings of the elements in
    storage order, provided an element's rendering is non-empty and whitespace-free (true for
    integers and for the `String`s the reader can return). -/
theorem write_tokens {α} (render : α → List Char) (t : Tensor α) (hwf : WF t)
    (hr : ∀ a ∈ t.data, render a ≠ [] ∧ ∀ c ∈ render a, isWs c = false) :
    ∃ txt, writeText render t = .ok txt ∧ splitWs txt = t.data.map render := by
  refine ⟨renderPieces render (specPieces t.dims t.data), ?_, ?_⟩
  · unfold writeText; rw [writePieces_spec t hwf]
  · exact splitWs_specPiecesFrom render t.dims t.data 0 hr

/-- Write → read round trip: reading `Π dims` tokens of the written text with the same shape gives
    an equal tensor and consumes the whole text, for every element type whose parser inverts its
    rendering (`parse_render`, C09). -/
theorem write_read {α} (render : α → List Char) (parse : List Char → α) (dflt : α) (t : Tensor α) (hwf : WF t)
    (hr : ∀ a ∈ t.data, render a ≠ [] ∧ ∀ c ∈ render a, isWs c = false)
    (hp : ∀ a ∈ t.data, parse (render a) = a) :
    ∃ txt, writeText render t = .ok txt ∧ Tensor.read t.dims (tokRd parse dflt) (splitWs txt) = .ok (t, []) := by
  obtain ⟨txt, h1, h2⟩ := write_tokens render t hwf hr
  refine ⟨txt, h1, ?_⟩
  have h0 : ¬ 0 ∈ t.dims := (no_zero_iff t.dims).2 hwf.1
  have hlen : prod t.dims = (t.data.map render).length := by simp [hwf.2]
  unfold Tensor.read
  simp only [contains_zero_iff, h0, if_false]
  rw [h2, hlen, readVec_tokRd]
  have : (t.data.map render).map parse = t.data := by
    rw [List.map_map]
    conv_rhs => rw [← List.map_id t.data]
    exact List.map_congr_left (fun a ha => hp a ha)
  simp only [this]

/-- The round trip for the element type the harness uses: `i64` elements rendered as `rlib_io` renders
    them (`Decimal.decimalS`, C09) and parsed as it parses them (`Decimal.parseS`, C08/C09) — the hypotheses
    of `write_read` are discharged, nothing is assumed about the elements. -/
theorem write_read_i64 (t : Tensor Int) (hwf : WF t) :
    ∃ txt, writeText renderI64 t = .ok txt ∧ Tensor.read t.dims (tokRd parseI64 0) (splitWs txt) = .ok (t, []) :=
  write_read renderI64 parseI64 0 t hwf (fun a _ => renderI64_clean a) (fun a _ => parse_renderI64 a)

/-- … and for `String` elements that are non-empty and whitespace-free (the only strings `read::<String>()`
    can return). -/
theorem write_read_str (t : Tensor String) (hwf : WF t)
    (hs : ∀ s ∈ t.data, s.toList ≠ [] ∧ ∀ c ∈ s.toList, isWs c = false) :
    ∃ txt, writeText String.toList t = .ok txt ∧
      Tensor.read t.dims (tokRd String.ofList "") (splitWs txt) = .ok (t, []) :=
  write_read String.toList String.ofList "" t hwf hs (fun s _ => by simp)

/-- `==` (after fix 40d6c9a) holds exactly when shape **and** elements agree. -/
theorem eq_spec {α} [BEq α] [LawfulBEq α] (t u : Tensor α) :
    eq t u = true ↔ t.dims = u.dims ∧ t.data = u.data := by
  simp [eq]

/-- `Clone` (derived) has value semantics: the clone has the same shape and the same elements in the same
    order, compares equal to the original, and every access — valid or not — behaves as on the original. -/
theorem clone_spec {α} [BEq α] [LawfulBEq α] (t : Tensor α) :
    clone t = t ∧ (clone t).dims = t.dims ∧ iter (clone t) = iter t ∧ eq (clone t) t = true ∧
    (∀ idx, getIndex (clone t).dims idx = getIndex t.dims idx ∧ index (clone t) idx = index t idx) ∧
    (∀ idx v, setAt (clone t) idx v = setAt t idx v) ∧ (WF t → WF (clone t)) :=
  ⟨rfl, rfl, rfl, by simp [clone, eq], fun _ => ⟨rfl, rfl⟩, fun _ _ => rfl, fun h => h⟩

/-- `clone_from` (the trait's default, `*self = source.clone()`): **whatever `self` was before** — another shape
    with the same number of elements (`2×3 ← 3×2`), another number of elements, the same shape — afterwards it is
    `source`: the shape is the source's, `==` holds, `iter` gives the source's elements, every valid index of the
    source reads the source's element at its row-major offset, and every index out of range for the *source's*
    shape panics. -/
theorem cloneFrom_spec {α} [BEq α] [LawfulBEq α] (self source : Tensor α) :
    cloneFrom self source = source ∧ (cloneFrom self source).dims = source.dims ∧
    iter (cloneFrom self source) = iter source ∧ eq (cloneFrom self source) source = true ∧
    (∀ idx v, setAt (cloneFrom self source) idx v = setAt source idx v) ∧
    (WF source → WF (cloneFrom self source) ∧
      ∀ idx, InRange source.dims idx →
        ∃ a, source.data[flat source.dims idx]? = some a ∧ index (cloneFrom self source) idx = .ok a) ∧
    (∀ idx, idx.length = source.dims.length → SomeOob source.dims idx →
        index (cloneFrom self source) idx = .error .assert) :=
  ⟨rfl, rfl, rfl, by simp [cloneFrom, clone, eq], fun _ _ => rfl,
   fun h => ⟨h, fun idx hi => index_ok source idx h hi⟩,
   fun idx hl ho => Rlib.Tensor.index_oob source idx hl ho⟩

/-- `dim(i)` is the `i`-th extent, and a panic (array index) for `i ≥ D`. -/
theorem dim_spec {α} (t : Tensor α) (i : Nat) :
    (∀ h : i < t.dims.length, dim t i = .ok t.dims[i]) ∧ (t.dims.length ≤ i → dim t i = .error .index) := by
  refine ⟨fun h => ?_, fun h => ?_⟩
  · simp [dim, h]
  · simp [dim, h]

/-- Histories over several tensor variables (`from_vec`, `clone`, `clone_from`, `==`, `dims`, `dim`, `get_index`,
    `t[idx]`, `t[idx] = v`, `iter`, `Writable::write`, in any order, starting from nothing): what the model shows at
    every step — panics seen as "a panic" — is what the specification says (`stepSpec`: a variable holds a shape and
    the elements in row-major order, `clone`/`clone_from` copy both, indexing is `InRange`/`flat`, output is
    `specPieces`).  This is the `M`/`V` = `S` identity of the driver's `h` cases. -/
theorem hist_spec (ops : List HOp) : (runModel ops).map Obs.view = runSpec ops :=
  runWith_spec ops HState.empty HWF_empty

/-! ### every element type (wave 4): `==` / `!=` without lawfulness, std iterators, element-generic histories -/

/-- `==` for an **arbitrary** element `==` (not assumed reflexive — `f64` with `NaN` — nor to distinguish values —
    zero-sized elements, records compared by key): it holds exactly when the shapes agree, the numbers of elements agree
    and every pair of corresponding elements compares equal.  In particular nothing else (an address, the identity of
    the two operands) enters: `t == t` is `false` for a tensor holding an element with `a != a`, and two tensors of a
    zero-sized element type with different shapes are unequal (the `example`s below; seeded C19_m13). -/
theorem eq_spec_any {α} [BEq α] (t u : Tensor α) :
    eq t u = true ↔ t.dims = u.dims ∧ t.data.length = u.data.length ∧
      ∀ i (h1 : i < t.data.length) (h2 : i < u.data.length), (t.data[i] == u.data[i]) = true := by
  rw [eq_specEq, specEq]
  constructor
  · intro h
    simp only [Bool.and_eq_true, decide_eq_true_eq, beq_iff_eq] at h
    exact ⟨h.1.1, h.1.2, (zip_all_iff _ _ h.1.2).1 h.2⟩
  · intro ⟨h1, h2, h3⟩
    simp only [Bool.and_eq_true, decide_eq_true_eq, beq_iff_eq]
    exact ⟨⟨h1, h2⟩, (zip_all_iff _ _ h2).2 h3⟩

/-- `!=` is the negation of `==` (the trait's provided method), hence: some shape / count / element pair differs. -/
theorem ne_spec {α} [BEq α] (t u : Tensor α) :
    ne t u = !(eq t u) ∧ (ne t u = true ↔ ¬ (t.dims = u.dims ∧ t.data.length = u.data.length ∧
      ∀ i (h1 : i < t.data.length) (h2 : i < u.data.length), (t.data[i] == u.data[i]) = true)) := by
  refine ⟨rfl, ?_⟩
  rw [← eq_spec_any]
  simp [ne]

/-- The iterators (`iter`, `iter_mut`, `into_iter`: the storage in order) after `k` calls of `next` and `j` calls of
    `next_back` hold exactly the storage positions `k ≤ p < len − j` in row-major order, and every provided method asked
    of that state (`count`, `len`, `last`, `nth`, `nth_back`, `rev`, collecting — modelled by their std definitions in terms
    of `next` / `next_back`) answers as the window does; for a well-formed tensor position `k + i` is the element at the
    multi-index `unflat dims (k + i)`. -/
theorem iter_partial {α} (t : Tensor α) (k j : Nat) :
    let w := itSkipBack j (itSkip k (iter t))
    w = specWindow t.data k j ∧ w.length = t.data.length - k - j ∧
    (∀ i, w[i]? = if k + i + j < t.data.length then t.data[k + i]? else none) ∧
    (∀ q, iterAnswer w q = specIterAnswer w q) ∧
    (WF t → ∀ i (h : k + i + j < t.data.length), index t (unflat t.dims (k + i)) = .ok (t.data[k + i]'(by omega))) := by
  intro w
  have hw : w = specWindow t.data k j := window_eq t.data k j
  refine ⟨hw, ?_, ?_, fun q => iterAnswer_spec w q, fun hwf i h => index_unflat t hwf (k + i) (by omega)⟩
  · rw [hw, specWindow_length]
  · intro i; rw [hw, specWindow_getElem?]

/-- Element-generic histories: for **every element type and every element `==`** (lawful or not), every history of
    `from_vec` / `from_slice` / `new` / `read` / rebuilding from returned shapes and elements / `clone` / `clone_from` / `==` / `!=` /
    `dims` / `dim` / `get_index` / `t[idx]` / `t[idx] = v` / `iter` / partially consumed iterators / `Writable` / `{:?}` steps over
    several tensors, from nothing, shows what the specification says (`gStepSpec`).  This is the `M`/`V` = `S` identity of the
    driver's `g` cases. -/
theorem ghist_spec {α} [BEq α] (rw rd : α → List Char) (ops : List (GOp α)) :
    (gRunModel rw rd ops).map GObs.view = gRunSpec rw rd ops :=
  gRunWith_spec rw rd ops GState.empty GWF_empty

/-! ### Non-vacuity and documentation examples -/

/-- a valid index of a rank-3 shape -/
example : getIndex [3, 2, 2] [2, 1, 0] = .ok 10 ∧ 10 < prod [3, 2, 2] :=
  getIndex_ok [3, 2, 2] [2, 1, 0] (by decide)
/-- the aliasing case: `[0, 3]` in a `2×3` tensor flattens to offset 3 `< 6`, yet it panics -/
example : getIndex [2, 3] [0, 3] = .error .assert ∧ 0 * 3 + 3 < prod [2, 3] :=
  ⟨getIndex_oob [2, 3] [0, 3] rfl (by simp [SomeOob]), by decide⟩
example : getIndexU [4294967296, 2147483648] [4294967295, 2147483647] = .ok 9223372036854775807 := by
  rw [getIndex_no_overflow _ _ (by decide) (by decide)]
  exact (getIndex_ok _ _ (by decide)).1
example : flat [2, 3] [0, 2] < flat [2, 3] [1, 0] :=
  getIndex_lex [2, 3] [0, 2] [1, 0] (by decide) (by decide) (by simp [LexLt])
example : flat [2, 3] [0, 2] ≠ flat [2, 3] [1, 0] :=
  (getIndex_inj [2, 3] [0, 2] [1, 0] (by decide) (by decide) (by decide)).1
example : getIndex [2, 3] (unflat [2, 3] 5) = .ok 5 := (getIndex_onto [2, 3] 5 (by decide)).2
example : fromVec [2, 0] ([] : List Int) = .error .assert :=
  ((ctor_rejects [2, 0] ([] : List Int) 0 (fun (s : Unit) => ((0 : Int), s)) ()).1 (Or.inl (by decide))).1
example : fromVec [2, 3] [1, 2, 3, 4, (5 : Int)] = .error .assert :=
  ((ctor_rejects [2, 3] [1, 2, 3, 4, (5 : Int)] 0 (fun (s : Unit) => ((0 : Int), s)) ()).1 (Or.inr (by decide))).1
/-- a shape whose product wraps to 0 in `usize`: rejected by the checked build (an unchecked build
    accepts `from_vec([2^32, 2^32], vec![])` — see docs/notes/C19.md) -/
example : fromVecU [4294967296, 4294967296] ([] : List Int) = .error .overflow :=
  ((ctorU_spec [4294967296, 4294967296] ([] : List Int) 0 (fun (s : Unit) => ((0 : Int), s)) ()).2.2
    (by decide) (by decide)).1
/-- a well-formed `2×2×3` tensor: rows separated by one newline, planes by two -/
example : WF (⟨[2, 2, 3], List.range 12⟩ : Tensor Nat) := ⟨by decide, by decide⟩
example : specPieces [2, 3] [1, 2, 3, 4, 5, (6 : Nat)] =
    [.elem 1, .sep 0, .elem 2, .sep 0, .elem 3, .sep 1, .elem 4, .sep 0, .elem 5, .sep 0, .elem 6] := by decide
example : (specPieces [2, 2, 1] [1, 2, 3, (4 : Nat)]) =
    [.elem 1, .sep 1, .elem 2, .sep 2, .elem 3, .sep 1, .elem 4] := by decide
example := index_oob (⟨[2, 3], [1, 2, 3, 4, 5, 6]⟩ : Tensor Nat) [0, 3] 9 rfl (by simp [SomeOob])
example := getIndex_total [2, 3] [1, 7] rfl
example := (ctor_accepts [2, 2] [1, 2, 3, (4 : Int)] 0 (fun (s : Unit) => ((0 : Int), s)) () (by decide)).1 (by decide)
example := ctorU_rejects_all [4294967296, 4294967296] ([] : List Int) (Or.inr (by decide))
example := iter_rowmajor (⟨[2, 3], [1, 2, 3, 4, 5, 6]⟩ : Tensor Nat) ⟨by decide, by decide⟩
example := index_mut_then_index (⟨[2, 3], [1, 2, 3, 4, 5, 6]⟩ : Tensor Nat) ⟨by decide, by decide⟩ [1, 0] 9 (by decide)
example := write_spec (⟨[2, 2, 3], List.range 12⟩ : Tensor Nat) ⟨by decide, by decide⟩
example := debug_spec (fun (n : Nat) => (toString n).toList) (⟨[2, 3], [1, 2, 3, 4, 5, 6]⟩ : Tensor Nat) ⟨by decide, by decide⟩
example := write_read_i64 ⟨[2, 2], [-9223372036854775808, 0, -1, 9223372036854775807]⟩ ⟨by decide, by decide⟩
example := write_read_str ⟨[2], ["ab", "c"]⟩ ⟨by decide, by decide⟩ (by decide)
example : sepCount [2, 2, 3] 6 = 2 ∧ trailingZeros (unflat [2, 2, 3] 6) = 2 := by decide
example := sep_trailing_zeros [2, 2, 3] 6 (by decide) (by decide)
/-- value semantics of `clone` on a `2×3` tensor -/
example := clone_spec (⟨[2, 3], [1, 2, 3, 4, 5, 6]⟩ : Tensor Int)
/-- the seeded C19_m5 situation: a `2×3` tensor is overwritten by `clone_from` of a `3×2` tensor with the same
    number of elements: afterwards `[2,1]` (valid for `3×2` only) reads element 5 and `[0,2]` (valid for `2×3` only) panics -/
example : index (cloneFrom (⟨[2, 3], [9, 9, 9, 9, 9, 9]⟩ : Tensor Int) ⟨[3, 2], [0, 1, 2, 3, 4, 5]⟩) [2, 1] = .ok 5 ∧
    index (cloneFrom (⟨[2, 3], [9, 9, 9, 9, 9, 9]⟩ : Tensor Int) ⟨[3, 2], [0, 1, 2, 3, 4, 5]⟩) [0, 2] = .error .assert :=
  ⟨by
    obtain ⟨a, h1, h2⟩ := ((cloneFrom_spec (⟨[2, 3], [9, 9, 9, 9, 9, 9]⟩ : Tensor Int) ⟨[3, 2], [0, 1, 2, 3, 4, 5]⟩).2.2.2.2.2.1
      ⟨by decide, by decide⟩).2 [2, 1] (by decide)
    rw [h2]; simp [flat, prod] at h1; rw [h1],
   (cloneFrom_spec (⟨[2, 3], [9, 9, 9, 9, 9, 9]⟩ : Tensor Int) ⟨[3, 2], [0, 1, 2, 3, 4, 5]⟩).2.2.2.2.2.2 [0, 2] rfl
     (by simp [SomeOob])⟩
example : dim (⟨[2, 3], [1, 2, 3, 4, 5, 6]⟩ : Tensor Int) 1 = .ok 3 ∧ dim (⟨[2, 3], [1, 2, 3, 4, 5, 6]⟩ : Tensor Int) 2 = .error .index :=
  ⟨(dim_spec _ 1).1 (by decide), (dim_spec _ 2).2 (by decide)⟩
/-- a history: `a = 2×3`, `b = 3×2`, `a.clone_from(&b)`, then shape, `==`, a read valid only for `3×2`, a `get_index`
    valid only for `2×3`, a write, and the source is unchanged -/
example : runSpec [.mk 0 [2, 3] 100, .mk 1 [3, 2] 0, .cf 0 1, .dims 0, .eq 0 1, .rd 0 [2, 1], .get 0 [0, 2],
      .wr 0 [1, 1] 7, .it 1, .eq 0 1, .dim 0 2] =
    [.done, .done, .done, .nats [3, 2], .bool true, .int 5, .panic none,
      .ints [0, 1, 2, 7, 4, 5], .ints [0, 1, 2, 3, 4, 5], .bool false, .panic none] := by decide
example := hist_spec [.mk 0 [2, 3] 100, .mk 1 [3, 2] 0, .cf 0 1, .dims 0, .eq 0 1, .rd 0 [2, 1], .get 0 [0, 2], .w 0]
/-- rank 0: one element, offset 0, no separator -/
example : getIndex [] [] = .ok 0 ∧ specPieces [] [(7 : Nat)] = [.elem 7] := ⟨rfl, rfl⟩
/-- F8, the behaviour before the fix: data-only equality cannot tell a `2×3` from a `3×2` tensor;
    the fixed `==` can. -/
example : eqDataOnly (⟨[2, 3], [1, 2, 3, 4, 5, 6]⟩ : Tensor Nat) ⟨[3, 2], [1, 2, 3, 4, 5, 6]⟩ = true ∧
    eq (⟨[2, 3], [1, 2, 3, 4, 5, 6]⟩ : Tensor Nat) ⟨[3, 2], [1, 2, 3, 4, 5, 6]⟩ = false := by decide

/-- seeded C19_m13, zero-sized elements: a `2×3` and a `3×2` tensor of `()` (all such vectors share one dangling address) are unequal -/
example : eq (⟨[2, 3], List.replicate 6 ()⟩ : Tensor Unit) ⟨[3, 2], List.replicate 6 ()⟩ = false ∧
    ne (⟨[2, 3], List.replicate 6 ()⟩ : Tensor Unit) ⟨[3, 2], List.replicate 6 ()⟩ = true := by decide
/-- a non-reflexive element `==` (here `0` plays `NaN`): `t == t` is false, `t != t` is true; without such an element it is true -/
example : @eq Nat ⟨fun a b => a != 0 && a == b⟩ ⟨[2], [1, 0]⟩ ⟨[2], [1, 0]⟩ = false ∧
    @ne Nat ⟨fun a b => a != 0 && a == b⟩ ⟨[2], [1, 0]⟩ ⟨[2], [1, 0]⟩ = true ∧
    @eq Nat ⟨fun a b => a != 0 && a == b⟩ ⟨[2], [1, 2]⟩ ⟨[2], [1, 2]⟩ = true := by decide
example : eq (⟨[2], [1, 2]⟩ : Tensor Nat) ⟨[2], [1, 2]⟩ = true :=
  (eq_spec_any _ _).2 ⟨rfl, rfl, by decide⟩
example := (ne_spec (⟨[2, 3], List.replicate 6 ()⟩ : Tensor Unit) ⟨[3, 2], List.replicate 6 ()⟩).2.2 (by decide)
/-- an iterator over a `2×3` tensor after one `next` and two `next_back`: three elements left, `last` is storage position 3 -/
example : iterAnswer (itSkipBack 2 (itSkip 1 (iter (⟨[2, 3], [10, 11, 12, 13, 14, 15]⟩ : Tensor Nat)))) .last = .opt (some 13) ∧
    specWindow [10, 11, 12, 13, 14, 15] 1 2 = [11, 12, 13] := by decide
example := (iter_partial (⟨[2, 3], [10, 11, 12, 13, 14, 15]⟩ : Tensor Nat) 1 2).2.2.2.2 ⟨by decide, by decide⟩ 2 (by decide)
/-- an element-generic history over records compared by their first component: `from_slice`, `new` from the returned shape,
    `clone_from`, `==` / `!=`, an iterator after partial consumption, rebuilding from the returned elements -/
example : @gRunSpec (Nat × Nat) ⟨fun a b => a.1 == b.1⟩ (fun _ => []) (fun _ => [])
      [.sl 0 [2, 2] [(1, 0), (2, 0), (3, 0), (4, 0)], .like 1 0 (1, 9), .eq 0 1, .wr 1 [0, 1] (2, 9), .cl 2 1, .ne 0 1,
       .itx 0 1 1 .count, .coll 2 0, .vec 3 [2, 2] [(1, 7), (2, 7), (3, 7), (4, 7)], .eq 3 2, .get 3 [1, 2]] =
    [.done, .done, .bool false, .elems [(1, 9), (2, 9), (1, 9), (1, 9)], .done, .bool true, .nat 2, .done, .done, .bool true,
      .panic none] := by decide
example := @ghist_spec (Nat × Nat) ⟨fun a b => a.1 == b.1⟩ (fun _ => []) (fun _ => [])
      [.sl 0 [2, 2] [(1, 0), (2, 0), (3, 0), (4, 0)], .like 1 0 (1, 9), .eq 0 1, .itx 0 1 1 .rev, .dbg 0]
example : gRunSpec (fun (_ : Nat) => []) (fun (_ : Nat) => [])
      [.vec 0 [2, 3] [1, 2, 3, 4, 5, 6], .new 1 [3, 2] 1, .eq 0 1, .cf 1 0, .eq 1 0, .itx 1 2 1 (.nth 1), .rd 1 [0, 3]] =
    [.done, .done, .bool false, .done, .bool true, .opt (some 4), .panic none] := by decide

end Rlib.C19
