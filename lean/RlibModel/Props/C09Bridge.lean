import RlibModel.Lemmas.IoBridge
/-!
# C09 bridge — what the Writer model produces, the Reader model reads back

C09 says "… and reading the produced text back with the reader returns the original values".
`Props/C09.lean` proves the write half about the Writer model and a round trip against the Writer
author's *own* spec tokenizer (`Decimal.tokenize`, `parseU/parseS`); `Props/C08.lean` proves that the
Reader model refines a pure specification on the byte list for every delivery. This file joins the
two, about the existing definitions of both models (nothing is redefined):

* Writer side: `Writer.runOps c ops WState.init` (any `c.buf ≥ 39`, both values of `c.dbg`), `Writer.drop`,
  the sink bytes `Writer.txt (drop s).sink`;
* Reader side: `Reader.runScript fuel script (Reader.init BUF src)` for **any** event list `src` whose data
  concatenation (`srcBytes`) is that sink text — any chunking, any placement of `Interrupted` events —
  and any `BUF ≥ 1`. `SrcOk src` (no *empty* data chunk: by the `Read` contract `Ok(0)` means end of input)
  and `fuel > number of bytes` (loop fuel of the Reader model; C08 proves it is enough) are the only
  other hypotheses.

Script language: the Writer model's own `Op` scripts (`write` of integers / strings / `Vec`s / tuples,
`write_char`, `flush`, `out!`, `outln!`) restricted by the Writer model's own `sepOK` (values are
integers or ASCII words; `write`/`out!` are followed by a whitespace `write_char` or nothing; `outln!`
lines are always fine) — the same domain as C09's `roundtrip`. Elements of vectors/tuples and `out!`
arguments are separated by the space the library writes, lines by the LF of `outln!`.
-/
namespace Rlib.C09Bridge
open Rlib.Reader (Event srcBytes SrcOk)
open Rlib.IoBridge

/-! ### (1) The two decimal renderings are the same bytes -/

/-- The decimal text the Writer model produces for an integer `v` of type `t` — by running the backward
    digit loop in a `BASE_10_LEN` buffer (`renderS` / `renderU`), as the calls of its `Writable` instance
    (`acts`), and as its specification text (`specVal`, `decimalS`) — is exactly `Reader.render v`, the byte
    string that C08's `parse_render` / `read_rendered_int` invert. -/
theorem render_agree (t : IntTy) (v : Int) (hv : (Writer.Val.int t v).valid = true) :
    (if t.signed then Decimal.renderS (Decimal.base10len t.bits) v
      else Decimal.renderU (Decimal.base10len t.bits) v.toNat) = .ok (Reader.render v) ∧
    Decimal.decimalS v = Reader.render v ∧
    Writer.specVal (.int t v) = (Reader.render v).toByteArray ∧
    ∀ buf, 39 ≤ buf → Writer.piecesConcat (Writer.acts buf (.int t v)) = (Reader.render v).toByteArray := by
  have hv' := hv
  simp only [Writer.Val.valid, Bool.and_eq_true, Bool.or_eq_true, beq_iff_eq] at hv'
  have hbits : 1 ≤ t.bits ∧ t.bits ≤ 128 := by omega
  obtain ⟨hn, hpos⟩ := Writer.natAbs_lt_of_fits hbits.1 hv'.2
  refine ⟨?_, (render_eq v).symm, by rw [render_eq]; rfl, ?_⟩
  · rw [render_eq]
    cases hs : t.signed with
    | true =>
      rw [if_pos rfl, Decimal.renderS, Decimal.renderU_of_room _ _ (Decimal.ndig_le_base10len hn), Decimal.decimalS]
    | false =>
      have h0 : 0 ≤ v := hpos hs
      have e : v.toNat = v.natAbs := by omega
      rw [if_neg (by simp), e, Decimal.renderU_of_room _ _ (Decimal.ndig_le_base10len hn), Decimal.decimalS,
        if_neg (by omega)]
  · intro buf hb
    rw [render_eq]
    exact (Writer.int_good hb hv).2

/-- Hence C08's `read_rendered_int` applies to Writer output: a Reader state whose remaining bytes are
    whitespace, then what the Writer hands over for `v`, then whitespace or nothing, returns `v` — under
    any delivery and buffer size. -/
theorem read_written_int (t : IntTy) (v : Int) (hv : (Writer.Val.int t v).valid = true)
    (ws tail : List UInt8) (hws : ∀ c ∈ ws, Reader.isWs c = true)
    (htail : tail = [] ∨ ∃ c r, tail = c :: r ∧ Reader.isWs c = true)
    (BUF : Nat) (hB : 0 < BUF) (fuel : Nat) (s : Reader.RState) (hi : Reader.Inv BUF s)
    (hf : (Reader.R s).length < fuel)
    (hR : Reader.R s = ws ++ Writer.txt (Writer.specVal (.int t v)) ++ tail) :
    ∃ s', Reader.readInt t fuel s = .ok (v, s') ∧ Reader.R s' = tail ∧ Reader.Inv BUF s' := by
  obtain ⟨h8, hx, hs⟩ := int_side hv
  have e : Writer.txt (Writer.specVal (.int t v)) = Reader.render v := by
    rw [(render_agree t v hv).2.2.1, Writer.txt_toByteArray]
  rw [e] at hR
  exact (Reader.readInt_spec t BUF hB fuel s hi hf).2 v tail
    (by rw [hR]; exact Reader.specInt_render t h8 v hx hs ws tail hws htail)

/-- The two independently written specification tokenizers agree: the Writer side's `Decimal.tokenize`
    (used by C09's `roundtrip`) obeys the recursion of the Reader specification (`skip_whitespace`, then the
    token `read::<String>()` returns, then the rest). -/
theorem tokenizers_agree (bs : List UInt8) :
    Decimal.tokenize bs =
      if Reader.specSkipWs bs = [] then []
      else (Reader.specString bs).1 :: Decimal.tokenize (Reader.specString bs).2 :=
  tokenize_unfold bs

/-! ### (2)+(3) write, drop, deliver anyhow, read -/

/-- **write_then_read** (integers and words mixed). For every valid, readable Writer script `ops`, every
    `BUF_w ≥ 39`, both build profiles: the writer does not panic, after drop the sink holds the specification
    text, and the Reader model fed those bytes by *any* well-formed source (any chunking, `Interrupted`
    anywhere), with *any* buffer size ≥ 1, answers the script "`read::<T>()` for every written leaf (its own
    integer type / `String`), then `is_eof()`" with exactly the written values, in order, and `true`. -/
theorem write_then_read (c : Writer.Cfg) (hb : 39 ≤ c.buf) (ops : List Writer.Op)
    (hv : Writer.Op.validAll ops = true) (hs : Writer.sepOK ops = true) :
    ∃ s, Writer.runOps c ops Writer.WState.init = .ok s ∧ (Writer.drop s).sink = Writer.specOps ops ∧
      ∀ (src : List Event), SrcOk src → srcBytes src = Writer.txt (Writer.drop s).sink →
      ∀ (BUF : Nat), 0 < BUF → ∀ (fuel : Nat), (srcBytes src).length < fuel →
        Reader.runScript fuel ((Writer.opsLeaves ops).map readOf ++ [Reader.Op.eof]) (Reader.init BUF src)
          = (Writer.opsLeaves ops).map expect ++ [.out (.bool true)] := by
  obtain ⟨s, e, hsink⟩ := fresh_drop c hb ops hv
  refine ⟨s, e, hsink, ?_⟩
  intro src ok hsrc BUF hB fuel hf
  rw [hsink] at hsrc
  exact read_back ops hv hs src ok hsrc BUF hB fuel hf

/-- A written integer leaf. -/
def intLeaf (p : IntTy × Int) : Writer.Val := .int p.1 p.2

/-- **write_then_read_ints.** The leaves of the script are the integers `xs = [(t₁,v₁), (t₂,v₂), …]` (each `vᵢ`
    in the range of `tᵢ`, any of the 12 types, `MIN`/`MAX` included), written with the library's separators
    (space inside vectors / tuples / `out!`, LF per `outln!`, explicit whitespace `write_char`s). For every
    `BUF_w ≥ 39`, both profiles, every delivery of the dropped writer's sink bytes and every `BUF_r ≥ 1`, the
    script `read::<t₁>(), read::<t₂>(), …, is_eof()` returns `v₁, v₂, …, true`. -/
theorem write_then_read_ints (c : Writer.Cfg) (hb : 39 ≤ c.buf) (ops : List Writer.Op)
    (hv : Writer.Op.validAll ops = true) (hs : Writer.sepOK ops = true)
    (xs : List (IntTy × Int)) (hx : Writer.opsLeaves ops = xs.map intLeaf) :
    ∃ s, Writer.runOps c ops Writer.WState.init = .ok s ∧ (Writer.drop s).sink = Writer.specOps ops ∧
      ∀ (src : List Event), SrcOk src → srcBytes src = Writer.txt (Writer.drop s).sink →
      ∀ (BUF : Nat), 0 < BUF → ∀ (fuel : Nat), (srcBytes src).length < fuel →
        Reader.runScript fuel (xs.map (fun p => Reader.Op.read (.int p.1)) ++ [Reader.Op.eof]) (Reader.init BUF src)
          = xs.map (fun p => Reader.Res.out (.val (.int p.2))) ++ [.out (.bool true)] := by
  obtain ⟨s, e, hsink, h⟩ := write_then_read c hb ops hv hs
  refine ⟨s, e, hsink, ?_⟩
  intro src ok hsrc BUF hB fuel hf
  have := h src ok hsrc BUF hB fuel hf
  rw [hx] at this
  simpa [List.map_map, Function.comp_def, intLeaf, readOf, atomOf, expect] using this

/-- **write_then_read_words.** The same for ASCII words without whitespace written as strings
    (`&str` / `String`) and read back with `read::<String>()`; the values are the bytes of the words. -/
theorem write_then_read_words (c : Writer.Cfg) (hb : 39 ≤ c.buf) (ops : List Writer.Op)
    (hv : Writer.Op.validAll ops = true) (hs : Writer.sepOK ops = true)
    (ws : List ByteArray) (hx : Writer.opsLeaves ops = ws.map Writer.Val.str) :
    ∃ s, Writer.runOps c ops Writer.WState.init = .ok s ∧ (Writer.drop s).sink = Writer.specOps ops ∧
      ∀ (src : List Event), SrcOk src → srcBytes src = Writer.txt (Writer.drop s).sink →
      ∀ (BUF : Nat), 0 < BUF → ∀ (fuel : Nat), (srcBytes src).length < fuel →
        Reader.runScript fuel (ws.map (fun _ => Reader.Op.read .str) ++ [Reader.Op.eof]) (Reader.init BUF src)
          = ws.map (fun w => Reader.Res.out (.val (.str (Writer.txt w)))) ++ [.out (.bool true)] := by
  obtain ⟨s, e, hsink, h⟩ := write_then_read c hb ops hv hs
  refine ⟨s, e, hsink, ?_⟩
  intro src ok hsrc BUF hB fuel hf
  have := h src ok hsrc BUF hB fuel hf
  rw [hx] at this
  simpa [List.map_map, Function.comp_def, readOf, atomOf, expect, Writer.txt] using this

/-! #### The hypotheses of `write_then_read_ints` are met by every list of integers -/

/-- One `outln!` per row; a row is a tuple (`tuple = true`) or a `Vec` (`tuple = false`) of integers. -/
def rowsOps (tuple : Bool) (rows : List (List (IntTy × Int))) : List Writer.Op :=
  rows.map (fun r => Writer.Op.out true [.seq tuple (r.map intLeaf)])

theorem row_facts : ∀ r : List (IntTy × Int), (∀ p ∈ r, (intLeaf p).valid = true) →
    Writer.Val.validList (r.map intLeaf) = true ∧ Writer.Val.wordyList (r.map intLeaf) = true ∧
    Writer.leavesList (r.map intLeaf) = r.map intLeaf
  | [], _ => ⟨rfl, rfl, rfl⟩
  | p :: r, h => by
    obtain ⟨a, b, d⟩ := row_facts r (fun q hq => h q (List.mem_cons_of_mem _ hq))
    have hp := h p List.mem_cons_self
    refine ⟨?_, ?_, ?_⟩
    · simp only [List.map_cons, Writer.Val.validList, Bool.and_eq_true]; exact ⟨hp, a⟩
    · simp only [List.map_cons, Writer.Val.wordyList, Bool.and_eq_true]; exact ⟨rfl, b⟩
    · simp only [List.map_cons, Writer.leavesList, d]; rfl

theorem rows_facts (tuple : Bool) : ∀ rows : List (List (IntTy × Int)),
    (∀ r ∈ rows, ∀ p ∈ r, (intLeaf p).valid = true) →
    Writer.Op.validAll (rowsOps tuple rows) = true ∧ Writer.sepOK (rowsOps tuple rows) = true ∧
    Writer.opsLeaves (rowsOps tuple rows) = rows.flatten.map intLeaf
  | [], _ => ⟨rfl, rfl, rfl⟩
  | r :: rows, h => by
    obtain ⟨a, b, d⟩ := rows_facts tuple rows (fun q hq => h q (List.mem_cons_of_mem _ hq))
    obtain ⟨a1, b1, d1⟩ := row_facts r (h r List.mem_cons_self)
    simp only [rowsOps] at a b d
    refine ⟨?_, ?_, ?_⟩
    · simp only [rowsOps, List.map_cons, Writer.Op.validAll, Writer.Op.valid, Writer.Val.validList, Writer.Val.valid,
        Bool.and_eq_true]
      exact ⟨⟨a1, trivial⟩, a⟩
    · simp only [rowsOps, List.map_cons, Writer.sepOK, Writer.Val.wordyList, Writer.Val.wordy, Bool.and_eq_true]
      exact ⟨⟨b1, trivial⟩, b⟩
    · simp only [rowsOps, List.map_cons, Writer.opsLeaves, Writer.opLeaves, Writer.leavesList, Writer.leaves, d1, d,
        List.flatten_cons, List.map_append, List.append_nil]

/-- **Every** list of rows of in-range integers, each row written by `outln!` as a tuple or a `Vec` (space
    between the elements, LF after the row): all of them come back, in order, whatever the two buffer sizes,
    the build profile and the delivery. No hypothesis besides "the values fit their types". -/
theorem write_rows_then_read_ints (c : Writer.Cfg) (hb : 39 ≤ c.buf) (tuple : Bool)
    (rows : List (List (IntTy × Int))) (hfit : ∀ r ∈ rows, ∀ p ∈ r, (intLeaf p).valid = true) :
    ∃ s, Writer.runOps c (rowsOps tuple rows) Writer.WState.init = .ok s ∧
      ∀ (src : List Event), SrcOk src → srcBytes src = Writer.txt (Writer.drop s).sink →
      ∀ (BUF : Nat), 0 < BUF → ∀ (fuel : Nat), (srcBytes src).length < fuel →
        Reader.runScript fuel (rows.flatten.map (fun p => Reader.Op.read (.int p.1)) ++ [Reader.Op.eof])
            (Reader.init BUF src)
          = rows.flatten.map (fun p => Reader.Res.out (.val (.int p.2))) ++ [.out (.bool true)] := by
  obtain ⟨a, b, d⟩ := rows_facts tuple rows hfit
  obtain ⟨s, e, _, h⟩ := write_then_read_ints c hb (rowsOps tuple rows) a b rows.flatten d
  exact ⟨s, e, h⟩

/-! ### (2b) every read plan: tuples `read::<(A,B,…)>()`, `read_vec(n)`, `read::<char>()` -/
open Rlib.IoRT

/-- **write_then_read_plan.** A *read plan* `gs` is any list of reader calls — `read::<T>()` for one leaf (`T` the leaf's
    integer type, `String`, or `char` when the leaf is a one-byte word), `read::<(A,B,…)>()` for any number of consecutive
    leaves, `read_vec::<T>(n)` for `n` consecutive rows of one shape (`T` an atom or a tuple) — whose leaves, in order, are
    the leaves the script wrote (`hl`). Hypothesis `ht` (weaker than `sepOK`, see `write_then_read_harness_plan`): the
    specification text splits at whitespace into the leaf texts. Then, for every `BUF_w ≥ 39`, both profiles, every
    delivery of the dropped writer's sink bytes and every `BUF_r ≥ 1`, the Reader model answers `gs` followed by `is_eof()`
    with exactly the written values, grouped as the plan groups them, and `true`. -/
theorem write_then_read_plan (c : Writer.Cfg) (hb : 39 ≤ c.buf) (ops : List Writer.Op)
    (hv : Writer.Op.validAll ops = true)
    (ht : Decimal.tokenize (Writer.txt (Writer.specOps ops)) = (Writer.opsLeaves ops).map Writer.leafText)
    (gs : List Grp) (hg : ∀ g ∈ gs, g.okB = true)
    (hl : (gs.flatMap Grp.leaves).map Prod.fst = Writer.opsLeaves ops) :
    ∃ s, Writer.runOps c ops Writer.WState.init = .ok s ∧ (Writer.drop s).sink = Writer.specOps ops ∧
      ∀ (src : List Event), SrcOk src → srcBytes src = Writer.txt (Writer.drop s).sink →
      ∀ (BUF : Nat), 0 < BUF → ∀ (fuel : Nat), (srcBytes src).length < fuel →
        Reader.runScript fuel (script gs) (Reader.init BUF src) = expected gs := by
  obtain ⟨s, e, hsink⟩ := fresh_drop c hb ops hv
  refine ⟨s, e, hsink, ?_⟩
  intro src ok hsrc BUF hB fuel hf
  rw [hsink] at hsrc
  obtain ⟨h1, h2⟩ := plan_hyps ops hv gs hl
  exact read_back_plan gs hg h1 src ok (by rw [hsrc, ht, h2]) BUF hB fuel hf

/-- The plan of the harness (`IoRT.planOps alt`: integers by their type, one-byte words as `char` and homogeneous integer
    tuples / `Vec`s through `read::<($t,…)>()` / `read_vec::<$t>(n)` when `alt`) is a read plan of every script; so for
    every valid `sepOK` script the real harness's read-back procedure, run on the models, returns the written values. -/
theorem write_then_read_harness_plan (c : Writer.Cfg) (hb : 39 ≤ c.buf) (ops : List Writer.Op)
    (hv : Writer.Op.validAll ops = true) (hs : Writer.sepOK ops = true) (alt : Bool) :
    ∃ s, Writer.runOps c ops Writer.WState.init = .ok s ∧ (Writer.drop s).sink = Writer.specOps ops ∧
      ∀ (src : List Event), SrcOk src → srcBytes src = Writer.txt (Writer.drop s).sink →
      ∀ (BUF : Nat), 0 < BUF → ∀ (fuel : Nat), (srcBytes src).length < fuel →
        Reader.runScript fuel (script (planOps alt ops)) (Reader.init BUF src) = expected (planOps alt ops) :=
  write_then_read_plan c hb ops hv (Writer.tokenize_ops ops hs) (planOps alt ops) (planOps_spec alt ops).2
    (planOps_spec alt ops).1

/-- **readback_driver** — the `M` field `drv_writer` prints for an `r` line equals its `S` field: for every valid,
    eligible script (`IoRT.eligible`, the domain test harness and driver apply), every `BUF_w ≥ 39`, both profiles, every
    reader buffer size ≥ 1, every harness delivery parameter `rc` and both read styles, the composed computation
    `IoRT.readBack` (Reader model on the Writer model's sink bytes under the harness schedule) returns the written values. -/
theorem readback_driver (c : Writer.Cfg) (hb : 39 ≤ c.buf) (ops : List Writer.Op)
    (hv : Writer.Op.validAll ops = true) (he : eligible ops = true) (rbuf : Nat) (hr : 0 < rbuf) (rc : Nat) (alt : Bool) :
    ∃ s, Writer.runOps c ops Writer.WState.init = .ok s ∧
      readBack rbuf rc alt ops (Writer.txt (Writer.drop s).sink) = expected (planOps alt ops) := by
  have ht : Decimal.tokenize (Writer.txt (Writer.specOps ops)) = (Writer.opsLeaves ops).map Writer.leafText := by
    simp only [eligible, Bool.and_eq_true] at he
    exact eq_of_beq he.1
  obtain ⟨s, e, _, h⟩ := write_then_read_plan c hb ops hv ht (planOps alt ops) (planOps_spec alt ops).2
    (planOps_spec alt ops).1
  refine ⟨s, e, ?_⟩
  obtain ⟨h1, h2⟩ := harness_src rc (Writer.txt (Writer.drop s).sink)
  exact h _ h2 h1 rbuf hr _ (by rw [h1]; exact Nat.lt_succ_self _)

/-- **write_chars_then_read.** Characters written with `write_char` (any code points; the byte written is `c as u8`):
    after drop, under any delivery and buffer sizes, every non-whitespace byte comes back from one `read::<char>()`, in
    order — whether or not whitespace separates them — and then `is_eof()` is true. -/
theorem write_chars_then_read (c : Writer.Cfg) (hb : 39 ≤ c.buf) (codes : List Nat) :
    ∃ s, Writer.runOps c (charOps codes) Writer.WState.init = .ok s ∧
      (Writer.drop s).sink = Writer.specOps (charOps codes) ∧
      Writer.txt (Writer.drop s).sink = codes.map UInt8.ofNat ∧
      ∀ (src : List Event), SrcOk src → srcBytes src = Writer.txt (Writer.drop s).sink →
      ∀ (BUF : Nat), 0 < BUF → ∀ (fuel : Nat), (srcBytes src).length < fuel →
        Reader.runScript fuel
            (((codes.map UInt8.ofNat).filter (fun b => !Reader.isWs b)).map (fun _ => Reader.Op.read .chr) ++ [.eof])
            (Reader.init BUF src)
          = ((codes.map UInt8.ofNat).filter (fun b => !Reader.isWs b)).map (fun b => Reader.Res.out (.val (.chr b)))
              ++ [.out (.bool true)] := by
  obtain ⟨s, e, hsink⟩ := fresh_drop c hb (charOps codes) (charOps_valid codes)
  have htxt : Writer.txt (Writer.drop s).sink = codes.map UInt8.ofNat := by rw [hsink, charOps_text]
  refine ⟨s, e, hsink, htxt, ?_⟩
  intro src ok hsrc BUF hB fuel hf
  rw [htxt] at hsrc
  have hspec := spec_reads_chars (codes.map UInt8.ofNat)
  have := Reader.runScript_spec BUF hB fuel _ (Reader.init BUF src) (Reader.init_inv BUF src ok)
    (by rw [Reader.init_R]; exact hf) (by rw [Reader.init_R, hsrc, hspec]; simp)
  rw [this, Reader.init_R, hsrc, hspec]

/-! ### (3b) lines -/

/-- **write_lines_then_read.** Lines (arbitrary bytes except LF, not ending in CR — blanks, tabs and empty
    lines allowed) written with `outln!(line)` each; after drop, under any delivery and buffer sizes, `read_line()`
    returns each line verbatim, then `None`, and `is_eof()` is true; `read_lines()` returns them all at once. -/
theorem write_lines_then_read (c : Writer.Cfg) (hb : 39 ≤ c.buf) (ls : List ByteArray)
    (hok : ∀ l ∈ ls, LineOK (Writer.txt l)) :
    ∃ s, Writer.runOps c (lineOps ls) Writer.WState.init = .ok s ∧
      (Writer.drop s).sink = Writer.specOps (lineOps ls) ∧
      ∀ (src : List Event), SrcOk src → srcBytes src = Writer.txt (Writer.drop s).sink →
      ∀ (BUF : Nat), 0 < BUF → ∀ (fuel : Nat), (srcBytes src).length < fuel →
        Reader.runScript fuel (ls.map (fun _ => Reader.Op.line) ++ [.line, .eof]) (Reader.init BUF src)
          = ls.map (fun l => Reader.Res.out (.line (some (Writer.txt l)))) ++ [.out (.line none), .out (.bool true)] ∧
        Reader.runScript fuel [.lines, .eof] (Reader.init BUF src)
          = [.out (.lines (ls.map Writer.txt)), .out (.bool true)] := by
  obtain ⟨s, e, hsink⟩ := fresh_drop c hb (lineOps ls) (lineOps_valid ls)
  refine ⟨s, e, hsink, ?_⟩
  intro src ok hsrc BUF hB fuel hf
  rw [hsink, lineOps_text] at hsrc
  have hok' : ∀ l ∈ ls.map Writer.txt, LineOK l := by
    intro l hl
    obtain ⟨b, hb, rfl⟩ := List.mem_map.mp hl
    exact hok b hb
  have h1 := spec_reads_lines (ls.map Writer.txt) hok'
  have h2 := spec_read_lines (ls.map Writer.txt) hok'
  simp only [List.map_map, Function.comp_def] at h1
  constructor
  · have := Reader.runScript_spec BUF hB fuel (ls.map (fun _ => Reader.Op.line) ++ [.line, .eof])
      (Reader.init BUF src) (Reader.init_inv BUF src ok) (by rw [Reader.init_R]; exact hf)
      (by rw [Reader.init_R, hsrc, h1]; simp)
    rw [this, Reader.init_R, hsrc, h1]
  · have := Reader.runScript_spec BUF hB fuel [.lines, .eof]
      (Reader.init BUF src) (Reader.init_inv BUF src ok) (by rw [Reader.init_R]; exact hf)
      (by rw [Reader.init_R, hsrc, h2]; simp)
    rw [this, Reader.init_R, hsrc, h2]

/-! ### Non-vacuity -/

/-- `outln!((i8::MIN, u64::MAX, i128::MIN))`. -/
def demoRow : List (IntTy × Int) := [(⟨true, 8⟩, -128), (⟨false, 64⟩, 2 ^ 64 - 1), (⟨true, 128⟩, -(2 ^ 127))]

example : ∀ r ∈ [demoRow], ∀ p ∈ r, (intLeaf p).valid = true := by decide

/-- The three extreme values, smallest admissible writer buffer, release (buffered) profile, delivered one byte
    at a time with an `Interrupted` before every byte, reader buffer of a single byte. -/
example : ∃ s, Writer.runOps ⟨39, false⟩ (rowsOps true [demoRow]) Writer.WState.init = .ok s ∧
    Reader.runScript ((Writer.txt (Writer.drop s).sink).length + 1)
      [.read (.int ⟨true, 8⟩), .read (.int ⟨false, 64⟩), .read (.int ⟨true, 128⟩), .eof]
      (Reader.init 1 (bytewise (Writer.txt (Writer.drop s).sink)))
    = [.out (.val (.int (-128))), .out (.val (.int 18446744073709551615)),
       .out (.val (.int (-170141183460469231731687303715884105728))), .out (.bool true)] := by
  obtain ⟨s, e, h⟩ := write_rows_then_read_ints ⟨39, false⟩ (by decide) true [demoRow] (by decide)
  have hb := bytewise_spec (Writer.txt (Writer.drop s).sink)
  exact ⟨s, e, h _ hb.2 hb.1 1 (by decide) _ (by rw [hb.1]; exact Nat.lt_succ_self _)⟩

/-- The same in the debug (flush-per-write) profile, as a `Vec`-style sequence, 7-byte chunks, 64 KiB reader. -/
example : ∃ s, Writer.runOps ⟨65536, true⟩ (rowsOps false [demoRow, [], demoRow]) Writer.WState.init = .ok s ∧
    Reader.runScript ((Writer.txt (Writer.drop s).sink).length + 1)
      (([demoRow, [], demoRow] : List (List (IntTy × Int))).flatten.map (fun p => Reader.Op.read (.int p.1)) ++ [.eof])
      (Reader.init 65536 (chunked 6 (Writer.txt (Writer.drop s).sink)))
    = ([demoRow, [], demoRow] : List (List (IntTy × Int))).flatten.map (fun p => Reader.Res.out (.val (.int p.2)))
        ++ [.out (.bool true)] := by
  obtain ⟨s, e, h⟩ := write_rows_then_read_ints ⟨65536, true⟩ (by decide) false [demoRow, [], demoRow] (by decide)
  have hb := chunked_spec 6 (Writer.txt (Writer.drop s).sink)
  exact ⟨s, e, h _ hb.2 hb.1 65536 (by decide) _ (by rw [hb.1]; exact Nat.lt_succ_self _)⟩

/-- The text of that row is what one expects, and `Reader.render` agrees with the Writer's text on the extremes. -/
example : Writer.txt (Writer.specOps (rowsOps true [demoRow])) =
    "-128 18446744073709551615 -170141183460469231731687303715884105728\n".toUTF8.data.toList := by decide +kernel
example : Reader.render (-(2 ^ 127)) = Decimal.decimalS (-(2 ^ 127)) := ((render_agree ⟨true, 128⟩ _ (by decide)).2.1).symm
example : Decimal.renderS (Decimal.base10len 8) (-128) = .ok (Reader.render (-128)) :=
  (render_agree ⟨true, 8⟩ (-128) (by decide)).1

/-- The Reader model evaluated by the kernel on those 67 bytes, byte by byte with interrupts, 1-byte buffer
    (no theorem involved: the conclusion of `write_then_read_ints` is what the model really computes). -/
example : Reader.runScript 68
    [.read (.int ⟨true, 8⟩), .read (.int ⟨false, 64⟩), .read (.int ⟨true, 128⟩), .eof]
    (Reader.init 1 (bytewise "-128 18446744073709551615 -170141183460469231731687303715884105728\n".toUTF8.data.toList))
    = [.out (.val (.int (-128))), .out (.val (.int 18446744073709551615)),
       .out (.val (.int (-170141183460469231731687303715884105728))), .out (.bool true)] := by decide +kernel

/-- Mixed script (integers, a word, a vector, `out!` + explicit separator, `flush`): hypotheses hold, and the
    general theorem applies under byte-by-byte delivery. -/
def demoMixed : List Writer.Op :=
  [ .write (.int ⟨false, 128⟩ (2 ^ 128 - 1)), .wchar 32, .write (.int ⟨true, 128⟩ (-(2 ^ 127))), .flush, .wchar 10,
    .out true [.int ⟨true, 8⟩ (-128), .str "word".toUTF8, .seq false [.int ⟨false, 16⟩ 65535, .int ⟨false, 16⟩ 0]],
    .out false [.str "a-b".toUTF8, .int ⟨true, 64⟩ (-1)], .wchar 9, .write (.seq true [.int ⟨true, 64⟩ 7, .str "x".toUTF8]) ]

example : Writer.Op.validAll demoMixed = true ∧ Writer.sepOK demoMixed = true := by decide
example : (Writer.opsLeaves demoMixed).map readOf =
    [.read (.int ⟨false, 128⟩), .read (.int ⟨true, 128⟩), .read (.int ⟨true, 8⟩), .read .str, .read (.int ⟨false, 16⟩),
     .read (.int ⟨false, 16⟩), .read .str, .read (.int ⟨true, 64⟩), .read (.int ⟨true, 64⟩), .read .str] := by decide
example : ∃ s, Writer.runOps ⟨39, false⟩ demoMixed Writer.WState.init = .ok s ∧
    Reader.runScript ((Writer.txt (Writer.drop s).sink).length + 1)
      ((Writer.opsLeaves demoMixed).map readOf ++ [.eof]) (Reader.init 3 (bytewise (Writer.txt (Writer.drop s).sink)))
    = (Writer.opsLeaves demoMixed).map expect ++ [.out (.bool true)] := by
  obtain ⟨s, e, _, h⟩ := write_then_read ⟨39, false⟩ (by decide) demoMixed (by decide) (by decide)
  have hb := bytewise_spec (Writer.txt (Writer.drop s).sink)
  exact ⟨s, e, h _ hb.2 hb.1 3 (by decide) _ (by rw [hb.1]; exact Nat.lt_succ_self _)⟩

/-- Words only. -/
example : ∃ s, Writer.runOps ⟨39, true⟩ [.out true [.str "hello".toUTF8, .str "w0rld!".toUTF8]] Writer.WState.init = .ok s ∧
    Reader.runScript ((Writer.txt (Writer.drop s).sink).length + 1) [.read .str, .read .str, .eof]
      (Reader.init 2 (bytewise (Writer.txt (Writer.drop s).sink)))
    = [.out (.val (.str "hello".toUTF8.data.toList)), .out (.val (.str "w0rld!".toUTF8.data.toList)), .out (.bool true)] := by
  obtain ⟨s, e, _, h⟩ := write_then_read_words ⟨39, true⟩ (by decide) [.out true [.str "hello".toUTF8, .str "w0rld!".toUTF8]]
    (by decide) (by decide) ["hello".toUTF8, "w0rld!".toUTF8] rfl
  have hb := bytewise_spec (Writer.txt (Writer.drop s).sink)
  exact ⟨s, e, h _ hb.2 hb.1 2 (by decide) _ (by rw [hb.1]; exact Nat.lt_succ_self _)⟩

/-- Read plans: `outln!((i128::MIN, i128::MAX))` read as a tuple, a `Vec<u8>` read with `read_vec`, a one-byte word read as
    `char`, a two-leaf tuple `(u64, String)` read with a *heterogeneous* tuple read — a plan the harness does not use. -/
def demoPlanOps : List Writer.Op :=
  [ .out true [.seq true [.int ⟨true, 128⟩ (-(2 ^ 127)), .int ⟨true, 128⟩ (2 ^ 127 - 1)]],
    .write (.seq false [.int ⟨false, 8⟩ 0, .int ⟨false, 8⟩ 255, .int ⟨false, 8⟩ 7]), .wchar 9,
    .out true [.str "x".toUTF8, .int ⟨false, 64⟩ (2 ^ 64 - 1), .str "word".toUTF8] ]
def demoPlan : List Grp :=
  [ .tup [(.int ⟨true, 128⟩ (-(2 ^ 127)), false), (.int ⟨true, 128⟩ (2 ^ 127 - 1), false)],
    .vec [.int ⟨false, 8⟩] [[(.int ⟨false, 8⟩ 0, false)], [(.int ⟨false, 8⟩ 255, false)], [(.int ⟨false, 8⟩ 7, false)]],
    .one (.str "x".toUTF8, true), .tup [(.int ⟨false, 64⟩ (2 ^ 64 - 1), false), (.str "word".toUTF8, false)] ]
example : Writer.Op.validAll demoPlanOps = true ∧ Writer.sepOK demoPlanOps = true ∧ eligible demoPlanOps = true := by
  decide +kernel
example : script demoPlan = [.tuple [.int ⟨true, 128⟩, .int ⟨true, 128⟩], .vec [.int ⟨false, 8⟩] 3, .read .chr,
    .tuple [.int ⟨false, 64⟩, .str], .eof] := by decide
example : ∃ s, Writer.runOps ⟨39, false⟩ demoPlanOps Writer.WState.init = .ok s ∧
    Reader.runScript ((Writer.txt (Writer.drop s).sink).length + 1) (script demoPlan)
      (Reader.init 1 (bytewise (Writer.txt (Writer.drop s).sink))) = expected demoPlan := by
  obtain ⟨s, e, _, h⟩ := write_then_read_plan ⟨39, false⟩ (by decide) demoPlanOps (by decide)
    (Writer.tokenize_ops _ (by decide)) demoPlan (by decide) rfl
  have hb := bytewise_spec (Writer.txt (Writer.drop s).sink)
  exact ⟨s, e, h _ hb.2 hb.1 1 (by decide) _ (by rw [hb.1]; exact Nat.lt_succ_self _)⟩
/-- The harness plan of the same script with `alt`: tuple read, `read_vec`, `char`, then leaf by leaf. -/
example : script (planOps true demoPlanOps) = [.tuple [.int ⟨true, 128⟩, .int ⟨true, 128⟩], .vec [.int ⟨false, 8⟩] 3,
    .read .chr, .read (.int ⟨false, 64⟩), .read .str, .eof] := by decide
/-- What the driver computes for `r … rbuf=5 rc=3 alt=1` on this script's text, evaluated by the kernel, is the expected
    answer (and `readback_driver` says so for every script). -/
example : readBack 5 3 true demoPlanOps (Writer.txt (Writer.specOps demoPlanOps)) = expected (planOps true demoPlanOps) := by
  decide +kernel
example : ∃ s, Writer.runOps ⟨64, true⟩ demoPlanOps Writer.WState.init = .ok s ∧
    readBack 65536 4095 false demoPlanOps (Writer.txt (Writer.drop s).sink) = expected (planOps false demoPlanOps) :=
  readback_driver ⟨64, true⟩ (by decide) demoPlanOps (by decide) (by decide +kernel) 65536 (by decide) 4095 false
/-- the schedule of the harness source for `rc = 3` on 8 bytes: two chunks, an `Interrupted`, the last chunk -/
example : Reader.mkEvents (harnessSched 3 8) [1, 2, 3, 4, 5, 6, 7, 8] #[] =
    [.data [1, 2, 3], .data [4, 5, 6], .intr, .data [7, 8]] := by decide +kernel

/-- `write_char('a'); write_char(' '); write_char('b'); write_char('c'); write_char('\n')` → `a`, `b`, `c` -/
example : ∃ s, Writer.runOps ⟨39, false⟩ (charOps [97, 32, 98, 99, 10]) Writer.WState.init = .ok s ∧
    Reader.runScript 6 [.read .chr, .read .chr, .read .chr, .eof] (Reader.init 1 (bytewise (Writer.txt (Writer.drop s).sink)))
    = [.out (.val (.chr 97)), .out (.val (.chr 98)), .out (.val (.chr 99)), .out (.bool true)] := by
  obtain ⟨s, e, _, ht, h⟩ := write_chars_then_read ⟨39, false⟩ (by decide) [97, 32, 98, 99, 10]
  have hb := bytewise_spec (Writer.txt (Writer.drop s).sink)
  exact ⟨s, e, h _ hb.2 hb.1 1 (by decide) 6 (by rw [hb.1, ht]; decide)⟩

/-- Lines with blanks, an empty line, a CR in the middle of a line. -/
def demoLines : List ByteArray := ["a b  c".toUTF8, ByteArray.empty, "x\ry\t".toUTF8]
example : ∀ l ∈ demoLines, LineOK (Writer.txt l) := by decide
example : ∃ s, Writer.runOps ⟨39, false⟩ (lineOps demoLines) Writer.WState.init = .ok s ∧
    Reader.runScript ((Writer.txt (Writer.drop s).sink).length + 1) [.lines, .eof]
      (Reader.init 1 (bytewise (Writer.txt (Writer.drop s).sink)))
    = [.out (.lines (demoLines.map Writer.txt)), .out (.bool true)] := by
  obtain ⟨s, e, _, h⟩ := write_lines_then_read ⟨39, false⟩ (by decide) demoLines (by decide)
  have hb := bytewise_spec (Writer.txt (Writer.drop s).sink)
  exact ⟨s, e, (h _ hb.2 hb.1 1 (by decide) _ (by rw [hb.1]; exact Nat.lt_succ_self _)).2⟩

end Rlib.C09Bridge
