import RlibModel.Lemmas.Sieve
/-!
# C13 — sieve tables equal the arithmetic definitions for every n up to the limit

Property theorems only; the linear-sieve invariant (`Inv`, `inner_spec`, `step_inv`, `fold_inv`) and the
factorisation lemmas are in `Lemmas/Sieve.lean`, the model in `Model/Sieve.lean`.  All statements are about
`sieve N` — the definition the driver executes (array index loop `innerA`) — for **every** limit `N`.
-/
namespace Rlib.C13
open Rlib Rlib.Sieve

/-- The constructor never leaves its tables: both have exactly `N + 1` entries (so the unchecked
    `getD`/`setIfInBounds` used inside the constructor model never hit their default branch silently
    changing a length; accessor calls are bounds-checked separately). -/
theorem sieve_sizes (N : Nat) : (sieve N).mnp.size = N + 1 ∧ (sieve N).isp.size = N + 1 :=
  ⟨(sieve_tables N).1, (sieve_tables N).2.1⟩

/-- `min_prime(n)` is the least prime factor of `n`, for every limit and every `2 ≤ n ≤ N`. -/
theorem minPrime_spec (N n : Nat) (h2 : 2 ≤ n) (hn : n ≤ N) :
    minPrime (sieve N) n = .ok n.minFac :=
  (sieve_minTable N).ge2 n h2 hn

/-- entries 0 and 1 are 0 (what `factorize` relies on to stop at `n = 1`). -/
theorem minPrime_small (N n : Nat) (h2 : n < 2) (hn : n ≤ N) : minPrime (sieve N) n = .ok 0 := by
  obtain ⟨hm, _, _, h0, _, _⟩ := sieve_tables N
  rw [minPrime_eq_getD _ _ (by rw [hm]; omega), h0 n h2]

/-- outside the table the accessor panics like the Rust slice index. -/
theorem minPrime_out_of_range (N n : Nat) (hn : N < n) : minPrime (sieve N) n = .error .index := by
  unfold minPrime
  rw [dif_neg (by rw [(sieve_sizes N).1]; omega)]

/-- `is_prime(n)` decides primality for every `0 ≤ n ≤ N`. -/
theorem isPrime_spec (N n : Nat) (hn : n ≤ N) : isPrime (sieve N) n = .ok (decide n.Prime) := by
  obtain ⟨_, hi, _, _, hp, _⟩ := sieve_tables N
  rw [isPrime_eq_getD _ _ (by rw [hi]; omega)]
  congr 1
  have := hp n hn
  by_cases hpr : n.Prime
  · simp [hpr, this.mpr hpr]
  · have : ¬ (sieve N).isp.getD n false = true := fun h => hpr (this.mp h)
    simp only [hpr, decide_false]
    exact Bool.eq_false_iff.mpr this

/-- `primes()` is the list of all primes `≤ N` in increasing order. -/
theorem primes_spec (N : Nat) : primesOf (sieve N) = (List.range (N + 1)).filter Nat.Prime :=
  (sieve_tables N).2.2.2.2.2

/-- …in particular it is strictly increasing and complete. -/
theorem primes_sorted_complete (N : Nat) :
    (primesOf (sieve N)).Pairwise (· < ·) ∧ ∀ p, p ∈ primesOf (sieve N) ↔ p.Prime ∧ p ≤ N := by
  rw [primes_spec]
  refine ⟨sorted_filter_range _, fun p => ?_⟩
  simp only [List.mem_filter, List.mem_range, decide_eq_true_eq]
  constructor
  · rintro ⟨a, b⟩; exact ⟨b, by omega⟩
  · rintro ⟨a, b⟩; exact ⟨by omega, a⟩

/-- `factorize(n)` for `1 ≤ n ≤ N` (any fuel with `n < 2^fuel`, e.g. `log2 n + 1`: never a `fuel` error, never a
    panic): the pairs `(p, e)` come with strictly increasing `p`, every `p` prime, `e` the exact exponent of
    `p` in `n` (positive), and the product of the `p^e` is `n`. -/
theorem factorize_spec (N n fuel : Nat) (h1 : 1 ≤ n) (hn : n ≤ N) (hf : n < 2 ^ fuel) :
    ∃ l, factorize (sieve N) fuel n = .ok l ∧
      (l.map Prod.fst).Pairwise (· < ·) ∧
      (∀ pe ∈ l, pe.1.Prime ∧ pe.2 = n.factorization pe.1 ∧ 0 < pe.2) ∧
      (l.map (fun pe => pe.1 ^ pe.2)).prod = n := by
  obtain ⟨l, e, hF, _⟩ := factorize_ok (sieve_minTable N) fuel n h1 hn hf
  exact ⟨l, e, hF.increasing, hF.exact, hF.prod⟩

/-- every prime divisor of `n` is listed (with, by `factorize_spec`, its exact exponent). -/
theorem factorize_complete (N n fuel : Nat) (h1 : 1 ≤ n) (hn : n ≤ N) (hf : n < 2 ^ fuel)
    (p : Nat) (hp : p.Prime) (hd : p ∣ n) :
    ∃ l, factorize (sieve N) fuel n = .ok l ∧ (p, n.factorization p) ∈ l := by
  obtain ⟨l, e, hF, _⟩ := factorize_ok (sieve_minTable N) fuel n h1 hn hf
  obtain ⟨k, hk⟩ := hF.complete hp hd
  refine ⟨l, e, ?_⟩
  have := (hF.exact _ hk).2.1
  simp only at this
  rw [← this]; exact hk

/-- the driver's fuel `log2 n + 1` is enough. -/
theorem factorize_fuel (n : Nat) : n < 2 ^ (n.log2 + 1) := Nat.lt_log2_self

/-- nothing for `1`. -/
theorem factorize_one (N fuel : Nat) (hf : 0 < fuel) : factorize (sieve N) fuel 1 = .ok [] := by
  cases fuel with
  | zero => omega
  | succ f => simp [factorize]

/-- The executable specification the driver prints in the `S` column (trial division) *is* the arithmetic definition:
    so "implementation view = S" on a case is literally "implementation = `Nat.minFac` / `Nat.Prime`" on that case. -/
theorem spec_is_arithmetic (n N : Nat) :
    (2 ≤ n → specMinFac n = n.minFac) ∧ specIsPrime n = decide n.Prime ∧
    specPrimes N = (List.range (N + 1)).filter Nat.Prime :=
  ⟨specMinFac_eq n, specIsPrime_eq n, specPrimes_eq N⟩

/-- … and the model's `factorize` returns literally the trial-division factorisation of the `S` column
    (a factorisation with strictly increasing primes and exact exponents is unique). -/
theorem factorize_eq_spec (N n fuel : Nat) (h1 : 1 ≤ n) (hn : n ≤ N) (hf : n < 2 ^ fuel) :
    factorize (sieve N) fuel n = .ok (specFactorize fuel n) := by
  obtain ⟨l, e, hF, _⟩ := factorize_ok (sieve_minTable N) fuel n h1 hn hf
  rw [e, hF.unique (specFactorize_ok fuel n h1 hf)]

/-! ### non-vacuity: concrete limits and arguments satisfy the hypotheses, and the statements say something -/

example : minPrime (sieve 100) 91 = .ok 7 := by
  rw [minPrime_spec 100 91 (by omega) (by omega)]; congr 1; decide +kernel
example : isPrime (sieve 100) 97 = .ok true := by
  rw [isPrime_spec 100 97 (by omega)]; congr 1
example : isPrime (sieve 100) 1 = .ok false := by
  rw [isPrime_spec 100 1 (by omega)]; congr 1
example : primesOf (sieve 20) = [2, 3, 5, 7, 11, 13, 17, 19] := by
  rw [primes_spec]; decide +kernel
-- limit equal to the argument (the tightest table) and a prime square
example : ∃ l, factorize (sieve 49) 6 49 = .ok l ∧ (7, Nat.factorization 49 7) ∈ l := by
  obtain ⟨l, e, h⟩ := factorize_complete 49 49 6 (by omega) (by omega) (by omega) 7 (by decide +kernel) (by decide)
  exact ⟨l, e, h⟩
example : factorize (sieve 0) 1 1 = .ok [] := factorize_one 0 1 (by omega)

end Rlib.C13
