import RlibModel.Lemmas.Sieve
/-!
# C13 — sieve tables equal the arithmetic definitions for every n up to the limit

Property theorems only; the linear-sieve invariant (`Inv`, `inner_spec`, `step_inv`, `fold_inv`) and the
factorisation lemmas are in `Lemmas/Sieve.lean`, the model in `Model/Sieve.lean`.  All statements are about
`sieve N` — the definition the driver executes (array index loop `innerA`) — for **every** limit `N`.
-/
namespace Rlib.C13
open Rlib Rlib.Sieve

/-- The constructor never leaves its tables: both have exactly `N + 1` entries (so the unchecked
    `getD`/`setIfInBounds` used inside the constructor model never hit their default branch silently
    changing a length; accessor calls are bounds-checked separately). -/
theorem sieve_sizes (N : Nat) : (sieve N).mnp.size = N + 1 ∧ (sieve N).isp.size = N + 1 :=
  ⟨(sieve_tables N).1, (sieve_tables N).2.1⟩

/-- `min_prime(n)` is the least prime factor of `n`, for every limit and every `2 ≤ n ≤ N`. -/
theorem minPrime_spec (N n : Nat) (h2 : 2 ≤ n) (hn : n ≤ N) :
    minPrime (sieve N) n = .ok n.minFac :=
  (sieve_minTable N).ge2 n h2 hn

/-- entries 0 and 1 are 0 (what `factorize` relies on to stop at `n = 1`). -/
theorem minPrime_small (N n : Nat) (h2 : n < 2) (hn : n ≤ N) : minPrime (sieve N) n = .ok 0 := by
  obtain ⟨hm, _, _, h0, _, _⟩ := sieve_tables N
  rw [minPrime_eq_getD _ _ (by rw [hm]; omega), h0 n h2]

/-- outside the table the accessor panics like the Rust slice index. -/
theorem minPrime_out_of_range (N n : Nat) (hn : N < n) : minPrime (sieve N) n = .error .index := by
  unfold minPrime
  rw [dif_neg (by rw [(sieve_sizes N).1]; omega)]

/-- `is_prime(n)` decides primality for every `0 ≤ n ≤ N`. -/
theorem isPrime_spec (N n : Nat) (hn : n ≤ N) : isPrime (sieve N) n = .ok (decide n.Prime) := by
  obtain ⟨_, hi, _, _, hp, _⟩ := sieve_tables N
  rw [isPrime_eq_getD _ _ (by rw [hi]; omega)]
  congr 1
  have := hp n hn
  by_cases hpr : n.Prime
  · simp [hpr, this.mpr hpr]
  · have : ¬ (sieve N).isp.getD n false = true := fun h => hpr (this.mp h)
    simp only [hpr, decide_false]
    exact Bool.eq_false_iff.mpr this

/-- `primes()` is the list of all primes `≤ N` in increasing order. -/
theorem primes_spec (N : Nat) : primesOf (sieve N) = (List.range (N + 1)).filter Nat.Prime :=
  (sieve_tables N).2.2.2.2.2

/-- …in particular it is strictly increasing and complete. -/
theorem primes_sorted_complete (N : Nat) :
    (primesOf (sieve N)).Pairwise (· < ·) ∧ ∀ p, p ∈ primesOf (sieve N) ↔ p.Prime ∧ p ≤ N := by
  rw [primes_spec]
  refine ⟨sorted_filter_range _, fun p => ?_⟩
  simp only [List.mem_filter, List.mem_range, decide_eq_true_eq]
  constructor
  · rintro ⟨a, b⟩; exact ⟨b, by omega⟩
  · rintro ⟨a, b⟩; exact ⟨by omega, a⟩

/-- `factorize(n)` for `1 ≤ n ≤ N` (any fuel with `n < 2^fuel`, e.g. `log2 n + 1`: never a `fuel` error, never a
    panic): the pairs `(p, e)` come with strictly increasing `p`, every `p` prime, `e` the exact exponent of
    `p` in `n` (positive), and the product of the `p^e` is `n`. -/
theorem factorize_spec (N n fuel : Nat) (h1 : 1 ≤ n) (hn : n ≤ N) (hf : n < 2 ^ fuel) :
    ∃ l, factorize (sieve N) fuel n = .ok l ∧
      (l.map Prod.fst).Pairwise (· < ·) ∧
      (∀ pe ∈ l, pe.1.Prime ∧ pe.2 = n.factorization pe.1 ∧ 0 < pe.2) ∧
      (l.map (fun pe => pe.1 ^ pe.2)).prod = n := by
  obtain ⟨l, e, hF, _⟩ := factorize_ok (sieve_minTable N) fuel n h1 hn hf
  exact ⟨l, e, hF.increasing, hF.exact, hF.prod⟩

/-- every prime divisor of `n` is listed (with, by `factorize_spec`, its exact exponent). -/
theorem factorize_complete (N n fuel : Nat) (h1 : 1 ≤ n) (hn : n ≤ N) (hf : n < 2 ^ fuel)
    (p : Nat) (hp : p.Prime) (hd : p ∣ n) :
    ∃ l, factorize (sieve N) fuel n = .ok l ∧ (p, n.factorization p) ∈ l := by
  obtain ⟨l, e, hF, _⟩ := factorize_ok (sieve_minTable N) fuel n h1 hn hf
  obtain ⟨k, hk⟩ := hF.complete hp hd
  refine ⟨l, e, ?_⟩
  have := (hF.exact _ hk).2.1
  simp only at this
  rw [← this]; exact hk

/-- the driver's fuel `log2 n + 1` is enough. -/
theorem factorize_fuel (n : Nat) : n < 2 ^ (n.log2 + 1) := Nat.lt_log2_self

/-- nothing for `1`. -/
theorem factorize_one (N fuel : Nat) (hf : 0 < fuel) : factorize (sieve N) fuel 1 = .ok [] := by
  cases fuel with
  | zero => omega
  | succ f => simp [factorize]

/-- The executable specification the driver prints in the `S` column (trial division) *is* the arithmetic definition:
    so "implementation view = S" on a case is literally "implementation = `Nat.minFac` / `Nat.Prime`" on that case. -/
theorem spec_is_arithmetic (n N : Nat) :
    (2 ≤ n → specMinFac n = n.minFac) ∧ specIsPrime n = decide n.Prime ∧
    specPrimes N = (List.range (N + 1)).filter Nat.Prime :=
  ⟨specMinFac_eq n, specIsPrime_eq n, specPrimes_eq N⟩

/-- … and the model's `factorize` returns literally the trial-division factorisation of the `S` column
    (a factorisation with strictly increasing primes and exact exponents is unique). -/
theorem factorize_eq_spec (N n fuel : Nat) (h1 : 1 ≤ n) (hn : n ≤ N) (hf : n < 2 ^ fuel) :
    factorize (sieve N) fuel n = .ok (specFactorize fuel n) := by
  obtain ⟨l, e, hF, _⟩ := factorize_ok (sieve_minTable N) fuel n h1 hn hf
  rw [e, hF.unique (specFactorize_ok fuel n h1 hf)]

/-! ### one large table answers for every smaller limit (the driver's dense limit sweep `new N`) -/

/-- The prime list of a table built for a limit `M ≥ N`, cut at `N`, is the list of all primes `≤ N` … -/
theorem primesUpTo_spec (M N : Nat) (h : N ≤ M) :
    primesUpTo (sieve M) N = (List.range (N + 1)).filter Nat.Prime := by
  unfold primesUpTo primesUpToL
  rw [primes_spec]
  exact takeWhile_le_filter_range (fun a => decide a.Prime) N M h

/-- … that is, literally what `Sieve::new(N).primes()` is in the model. -/
theorem primesUpTo_prefix (M N : Nat) (h : N ≤ M) : primesUpTo (sieve M) N = primesOf (sieve N) := by
  rw [primesUpTo_spec M N h, primes_spec]

/-- The early-exit fold the driver runs over the prime list of the large table is the fold over `Sieve::new(N).primes()`
    (count, FNV hash and last element of the `new N` summary are such folds). -/
theorem foldUpTo_prefix {β : Type} (f : β → Nat → β) (M N : Nat) (h : N ≤ M) (b : β) :
    foldUpTo f N (primesOf (sieve M)) b = (primesOf (sieve N)).foldl f b := by
  rw [foldUpTo_eq, ← primesUpTo_prefix M N h]; rfl

/-- Below the smaller limit the least-prime entries of the two tables coincide (entries 0 and 1 included). -/
theorem minPrime_prefix (M N n : Nat) (h : N ≤ M) (hn : n ≤ N) : minPrime (sieve M) n = minPrime (sieve N) n := by
  by_cases h2 : 2 ≤ n
  · rw [minPrime_spec M n h2 (by omega), minPrime_spec N n h2 hn]
  · rw [minPrime_small M n (by omega) (by omega), minPrime_small N n (by omega) hn]

theorem isPrime_prefix (M N n : Nat) (h : N ≤ M) (hn : n ≤ N) : isPrime (sieve M) n = isPrime (sieve N) n := by
  rw [isPrime_spec M n (by omega), isPrime_spec N n hn]

/-- `factorize` on the larger table is `factorize` on the smaller one (for arguments the smaller one covers). -/
theorem factorize_prefix (M N n fuel : Nat) (h : N ≤ M) (h1 : 1 ≤ n) (hn : n ≤ N) (hf : n < 2 ^ fuel) :
    factorize (sieve M) fuel n = factorize (sieve N) fuel n := by
  rw [factorize_eq_spec M n fuel h1 (by omega) hf, factorize_eq_spec N n fuel h1 hn hf]

/-! ### every way of consuming `factorize(n)` (the driver's `itm` cases)

`modesOf L k` is std's definition of each provided `Iterator` method on an iterator yielding `L`, after `k` calls of
`next`.  What the model's iterator yields is the trial-division factorisation of the `S` column, so every consumption
mode of the model equals the same mode of the specification. -/
theorem iterModes_eq_spec (N n fuel k : Nat) (h1 : 1 ≤ n) (hn : n ≤ N) (hf : n < 2 ^ fuel) :
    (factorize (sieve N) fuel n).map (fun L => modesOf L k) = .ok (modesOf (specFactorize fuel n) k) := by
  rw [factorize_eq_spec N n fuel h1 hn hf]; rfl

/-- `count()` is the number of distinct prime divisors, and `k` calls of `next` consume exactly `min k (count)` of them. -/
theorem iterModes_count (N n fuel k : Nat) (h1 : 1 ≤ n) (hn : n ≤ N) (hf : n < 2 ^ fuel) :
    ∃ L, factorize (sieve N) fuel n = .ok L ∧ L.length = n.primeFactors.card ∧
      (modesOf L k).count = n.primeFactors.card - k := by
  obtain ⟨l, e, hF, _⟩ := factorize_ok (sieve_minTable N) fuel n h1 hn hf
  refine ⟨l, e, hF.length_eq (by omega), ?_⟩
  simp only [modesOf, List.length_drop]
  rw [hF.length_eq (by omega)]

/-- `map(|(_, e)| e + 1).product()` over the whole iterator is the number of divisors of `n`. -/
theorem iterModes_divisor_count (N n fuel : Nat) (h1 : 1 ≤ n) (hn : n ≤ N) (hf : n < 2 ^ fuel) :
    ∃ L, factorize (sieve N) fuel n = .ok L ∧ (modesOf L 0).prodExp1 = n.divisors.card := by
  obtain ⟨l, e, hF, _⟩ := factorize_ok (sieve_minTable N) fuel n h1 hn hf
  refine ⟨l, e, ?_⟩
  simp only [modesOf, List.drop_zero]
  exact hF.prod_succ_eq_card_divisors (by omega)

/-! ### non-vacuity: concrete limits and arguments satisfy the hypotheses, and the statements say something -/

example : primesUpTo (sieve 100) 20 = [2, 3, 5, 7, 11, 13, 17, 19] := by
  rw [primesUpTo_spec 100 20 (by omega)]; decide +kernel
example : foldUpTo (fun a _ => a + 1) 20 (primesOf (sieve 100)) 0 = 8 := by
  rw [foldUpTo_prefix _ 100 20 (by omega), primes_spec]; decide +kernel
example : minPrime (sieve 100) 91 = minPrime (sieve 91) 91 := minPrime_prefix 100 91 91 (by omega) (by omega)
example : isPrime (sieve 128) 64 = isPrime (sieve 64) 64 := isPrime_prefix 128 64 64 (by omega) (by omega)
example : factorize (sieve 100) 6 49 = factorize (sieve 49) 6 49 :=
  factorize_prefix 100 49 49 6 (by omega) (by omega) (by omega) (by omega)
-- 360 = 2^3 * 3^2 * 5: after one `next` two items are left; 24 divisors
example : ∃ L, factorize (sieve 400) 9 360 = .ok L ∧ L.length = 3 ∧ (modesOf L 1).count = 2 := by
  obtain ⟨L, e, hl, hc⟩ := iterModes_count 400 360 9 1 (by omega) (by omega) (by omega)
  have h3 : (Nat.primeFactors 360).card = 3 := by decide +kernel
  exact ⟨L, e, by omega, by omega⟩
example : (modesOf [(2, 3), (3, 2), (5, 1)] 1).collect = [(3, 2), (5, 1)] ∧ (modesOf [(2, 3), (3, 2), (5, 1)] 0).prodExp1 = 24 ∧
    (modesOf [(2, 3), (3, 2), (5, 1)] 1).pre = [some (2, 3)] ∧ (modesOf [(2, 3), (3, 2), (5, 1)] 0).maxByExp = some (2, 3) ∧
    (modesOf [(2, 1), (3, 1)] 0).maxByExp = some (3, 1) ∧ (modesOf [(2, 1), (3, 1)] 0).minByExp = some (2, 1) := by decide

example : minPrime (sieve 100) 91 = .ok 7 := by
  rw [minPrime_spec 100 91 (by omega) (by omega)]; congr 1; decide +kernel
example : isPrime (sieve 100) 97 = .ok true := by
  rw [isPrime_spec 100 97 (by omega)]; congr 1
example : isPrime (sieve 100) 1 = .ok false := by
  rw [isPrime_spec 100 1 (by omega)]; congr 1
example : primesOf (sieve 20) = [2, 3, 5, 7, 11, 13, 17, 19] := by
  rw [primes_spec]; decide +kernel
-- limit equal to the argument (the tightest table) and a prime square
example : ∃ l, factorize (sieve 49) 6 49 = .ok l ∧ (7, Nat.factorization 49 7) ∈ l := by
  obtain ⟨l, e, h⟩ := factorize_complete 49 49 6 (by omega) (by omega) (by omega) 7 (by decide +kernel) (by decide)
  exact ⟨l, e, h⟩
example : factorize (sieve 0) 1 1 = .ok [] := factorize_one 0 1 (by omega)

end Rlib.C13
