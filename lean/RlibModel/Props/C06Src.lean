import RlibModel.Props.C06
import RlibModel.Lemmas.MintSrc
/-
C06, second tie: theorems about the definitions REGENERATED from the Rust source text on every run.
Kept in their own module so that a source the translator cannot read (or an equivalence proof that no longer goes
through) leaves the property theorems of Props/C06.lean — and their audit — untouched; `./check` then decides
between `second tie unavailable` (translator subset; the correspondence tie still stands) and a broken obligation.
-/
namespace Rlib.C06
open Rlib.Mint

/-! ## The model regenerated from the source text equals the hand-written model

`Rlib.MintSrc.*` are NOT hand-written: `tools/rs2lean_typed.py` regenerates them from the text of `rlib/mint/src/lib.rs` on
every run (`checks/C06.py: extract`) — every cast a `wrap`, every `+ - * /` a `checked`, the const generic `M` the parameter after
the recursion budget `fuel`.  `src_<f>_eq_model`: the regenerated definition returns exactly what the hand-written model returns
(value or the same panic); together with the theorems above every statement of C06 is a statement about what the source says now.
A change of meaning in the source makes these proofs fail to compile (a broken obligation of this property). -/

/-- `Modular::new`: for every `u32` modulus (0 included) and every argument. -/
theorem src_new_eq_model (fuel : Nat) (M v : Int) (hM : 0 ≤ M) (hM2 : M < 2 ^ 32) :
    Rlib.MintSrc.new fuel M v = new M v := Rlib.MintSrc.new_eq_model fuel M v hM hM2

/-- `Add::add`, `Sub::sub`, `Neg::neg`: for all integers, overflow panics included. -/
theorem src_add_eq_model (fuel : Nat) (M a b : Int) : Rlib.MintSrc.add fuel M a b = add M a b :=
  Rlib.MintSrc.add_eq_model fuel M a b
theorem src_sub_eq_model (fuel : Nat) (M a b : Int) : Rlib.MintSrc.sub fuel M a b = sub M a b :=
  Rlib.MintSrc.sub_eq_model fuel M a b
theorem src_neg_eq_model (fuel : Nat) (M a : Int) : Rlib.MintSrc.neg fuel M a = neg M a :=
  Rlib.MintSrc.neg_eq_model fuel M a

/-- `Mul::mul`: for every `u32` modulus and all operands that fit `i64` (every `u32` field value does). -/
theorem src_mul_eq_model (fuel : Nat) (M a b : Int) (hM : 0 ≤ M) (hM2 : M < 2 ^ 32)
    (ha : -2 ^ 63 ≤ a ∧ a < 2 ^ 63) (hb : -2 ^ 63 ≤ b ∧ b < 2 ^ 63) :
    Rlib.MintSrc.mul fuel M a b = mul M a b := Rlib.MintSrc.mul_eq_model fuel M a b hM hM2 ha hb

/-- `pow`: guard of C06, every `u64` exponent; a budget of 65 rounds suffices (the loop halves the exponent). -/
theorem src_pow_eq_model (fuel : Nat) (M a d : Int) (hM : 2 ≤ M) (hM2 : M < 2 ^ 31) (ha : R M a)
    (hd : 0 ≤ d ∧ d < 2 ^ 64) (hf : 65 ≤ fuel) :
    Rlib.MintSrc.pow fuel M a d = pow M a d.toNat := Rlib.MintSrc.pow_eq_model fuel M a d hM hM2 ha hd hf

/-- `inv`: guard of C06, canonical operand, budget `a + 1` (the `i32` Euclid loop strictly decreases `|a|`). -/
theorem src_inv_eq_model (fuel : Nat) (M a : Int) (hM : 2 ≤ M) (hM2 : M < 2 ^ 31) (ha : R M a)
    (hf : a.natAbs + 1 ≤ fuel) : Rlib.MintSrc.inv fuel M a = inv M a :=
  Rlib.MintSrc.inv_eq_model fuel M a hM hM2 ha hf

/-- `Div::div`: guard of C06, canonical operands, budget `y + 1`. -/
theorem src_div_eq_model (fuel : Nat) (M x y : Int) (hM : 2 ≤ M) (hM2 : M < 2 ^ 31) (hx : R M x) (hy : R M y)
    (hf : y.natAbs + 1 ≤ fuel) : Rlib.MintSrc.div fuel M x y = div M x y :=
  Rlib.MintSrc.div_eq_model fuel M x y hM hM2 hx hy hf

/-- The property stated directly about the regenerated definitions: the source-derived `mul` returns the canonical
    representative of the true product, none of its overflow checks fires. -/
theorem src_mul_spec (fuel : Nat) (M a b : Int) (hM : 2 ≤ M) (hM2 : M < 2 ^ 31) (ha : R M a) (hb : R M b) :
    Rlib.MintSrc.mul fuel M a b = .ok ((a * b) % M) := by
  rw [src_mul_eq_model fuel M a b (by omega) (by omega) (Rlib.MintSrc.R_i64 hM2 ha) (Rlib.MintSrc.R_i64 hM2 hb)]
  exact mul_eq M a b hM hM2 ha hb

-- non-vacuity: the generated definitions evaluated by the kernel (boundary modulus 2^31 - 1, a negative argument, an overflow
-- outside the guard, a panic, budgets at and below the bound)
example : Rlib.MintSrc.new 0 2147483647 (-9223372036854775808) = .ok 2147483645 := by decide
example : Rlib.MintSrc.new 0 2147483648 (-1) = .error .overflow := by decide
example : Rlib.MintSrc.new 0 0 5 = .error .divzero := by decide
example : Rlib.MintSrc.add 0 7 5 6 = .ok 4 := by decide
example : Rlib.MintSrc.sub 0 7 2 6 = .ok 3 := by decide
example : Rlib.MintSrc.neg 0 7 2 = .ok 5 := by decide
example : Rlib.MintSrc.mul 0 2147483647 2147483646 2147483646 = .ok 1 := by decide
example : Rlib.MintSrc.pow 65 7 3 4 = .ok 4 := by decide
example : Rlib.MintSrc.pow 2 7 3 4 = .error .fuel := by decide
example : Rlib.MintSrc.inv 4 7 3 = .ok 5 := by decide
example : Rlib.MintSrc.div 4 7 6 3 = .ok 2 := by decide
example : Rlib.MintSrc.mul 0 2147483647 2147483646 2147483646 = .ok 1 :=
  src_mul_spec 0 2147483647 2147483646 2147483646 (by decide) (by decide) ⟨by decide, by decide⟩ ⟨by decide, by decide⟩

end Rlib.C06
