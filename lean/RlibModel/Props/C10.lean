import RlibModel.Lemmas.Geometry
import RlibModel.Lemmas.GeometrySpec
/-!
# C10 — intersections return points on both objects and the right kind of contact

Property theorems only (exact real arithmetic: the model of `Model/Geometry.lean` instantiated with
`realGeo eps`); helper lemmas are in `Lemmas/Geometry.lean`.  The native driver executes the *same*
definitions instantiated with `Float`.

PARTIAL: what is proved is the correctness of points and kinds in exact arithmetic, outside the
`eps` band.  The `1e-7` bound under IEEE rounding and the behaviour inside the band are tested by the
differential run, not proved.
-/
namespace Rlib.C10
open Rlib.Geometry

/-- `Line::new(a, b, c)` stores a unit normal whenever `(a, b) ≠ (0, 0)`, and the stored line is the
    line `a x + b y + c = 0`. -/
theorem line_new_unit (eps a b c : ℝ) (h : a ≠ 0 ∨ b ≠ 0) :
    UnitLine (lineNew (realGeo eps) a b c) ∧
    ∀ p : Point ℝ, OnLine (lineNew (realGeo eps) a b c) p ↔ a * p.x + b * p.y + c = 0 := by
  have hpos : 0 < a * a + b * b := by
    rcases h with h | h
    · have := mul_self_pos.mpr h; nlinarith [mul_self_nonneg b]
    · have := mul_self_pos.mpr h; nlinarith [mul_self_nonneg a]
  have hs : 0 < Real.sqrt (a * a + b * b) := Real.sqrt_pos.mpr hpos
  have hss : Real.sqrt (a * a + b * b) ^ 2 = a * a + b * b := Real.sq_sqrt hpos.le
  constructor
  · simp only [UnitLine, lineNew, len, slen, realGeo]
    generalize Real.sqrt (a * a + b * b) = s at hs hss
    rw [div_pow, div_pow, ← add_div, div_eq_one_iff_eq (pow_pos hs 2).ne']
    linarith
  · intro p
    simp only [OnLine, lineNew, len, slen, realGeo]
    generalize Real.sqrt (a * a + b * b) = s at hs hss
    have e : a / s * p.x + b / s * p.y + c / s = (a * p.x + b * p.y + c) / s := by ring
    rw [e, div_eq_zero_iff]
    constructor
    · rintro (h | h)
      · exact h
      · exact absurd h hs.ne'
    · exact Or.inl

/-- `intersect_cl`, line with unit normal: both points of the two-point branch satisfy the line and the
    circle equation exactly; the touch point is exactly on the line and within `eps` of the circle. -/
theorem cl_points_on_both (eps : ℝ) (c : Circle ℝ) (l : Line ℝ) (hu : UnitLine l) :
    match intersectCL (realGeo eps) c l with
    | .none => True
    | .touch p => OnLine l p ∧ |Geometry.edist p c.c - c.r| ≤ eps
    | .intersect p q => OnLine l p ∧ OnCircle c p ∧ OnLine l q ∧ OnCircle c q := by
  rw [intersectCL_real eps c l hu]
  have hfoot := ort_foot l c.c hu
  have hunit := ort_unit l c.c hu
  have hpar := ort_par l c.c
  by_cases hA : c.r + eps < |sdist l c.c|
  · simp only [hA, if_true]
  · by_cases hB : c.r - eps < |sdist l c.c|
    · simp only [hA, hB, if_true, if_false]
      refine ⟨hfoot, ?_⟩
      have hd : Geometry.edist ⟨c.c.x + ortX l c.c * |sdist l c.c|, c.c.y + ortY l c.c * |sdist l c.c|⟩ c.c
          = |sdist l c.c| := by
        unfold Geometry.edist
        have : (c.c.x + ortX l c.c * |sdist l c.c| - c.c.x) ^ 2 + (c.c.y + ortY l c.c * |sdist l c.c| - c.c.y) ^ 2
            = |sdist l c.c| ^ 2 := by
          linear_combination (|sdist l c.c| ^ 2) * hunit
        rw [this, Real.sqrt_sq (abs_nonneg _)]
      rw [hd, abs_le]
      constructor <;> linarith
    · simp only [hA, hB, if_false]
      have hd : |sdist l c.c| ≤ c.r := by
        have h1 : |sdist l c.c| ≤ c.r - eps := not_lt.mp hB
        have h2 : |sdist l c.c| ≤ c.r + eps := not_lt.mp hA
        linarith
      have hside := halfChord_sq l c hd
      generalize ortX l c.c = ox at *
      generalize ortY l c.c = oy at *
      generalize halfChord l c = t at *
      generalize |sdist l c.c| = d at *
      simp only [OnLine, OnCircle]
      refine ⟨?_, ?_, ?_, ?_⟩
      · linear_combination hfoot + t * hpar
      · linear_combination (d ^ 2 + t ^ 2) * hunit + hside
      · linear_combination hfoot - t * hpar
      · linear_combination (d ^ 2 + t ^ 2) * hunit + hside

/-- far from the circle (`d > r + eps`): `None`, and the line and the circle really have no common point -/
theorem cl_kind_none (eps : ℝ) (c : Circle ℝ) (l : Line ℝ) (hu : UnitLine l) (heps : 0 ≤ eps) (hr : 0 ≤ c.r)
    (h : c.r + eps < |sdist l c.c|) :
    intersectCL (realGeo eps) c l = CL.none ∧ ∀ p, ¬(OnLine l p ∧ OnCircle c p) := by
  constructor
  · rw [intersectCL_real eps c l hu, if_pos h]
  · rintro p ⟨hp, hc⟩
    have := sdist_le_of_onLine l hu c.c p c.r hr hp hc
    linarith

/-- within `eps` of tangency the touch branch is taken (the property accepts any kind there) -/
theorem cl_kind_touch (eps : ℝ) (c : Circle ℝ) (l : Line ℝ) (hu : UnitLine l)
    (h1 : c.r - eps < |sdist l c.c|) (h2 : |sdist l c.c| ≤ c.r + eps) :
    ∃ p, intersectCL (realGeo eps) c l = CL.touch p := by
  rw [intersectCL_real eps c l hu, if_neg (not_lt.mpr h2), if_pos h1]
  exact ⟨_, rfl⟩

/-- well inside (`d < r - eps`): `Intersect` with two *distinct* points, both on the line and on the circle -/
theorem cl_kind_intersect (eps : ℝ) (c : Circle ℝ) (l : Line ℝ) (hu : UnitLine l) (heps : 0 < eps)
    (h : |sdist l c.c| < c.r - eps) :
    ∃ p q, intersectCL (realGeo eps) c l = CL.intersect p q ∧ p ≠ q ∧
      OnLine l p ∧ OnCircle c p ∧ OnLine l q ∧ OnCircle c q := by
  have hA : ¬ c.r + eps < |sdist l c.c| := by linarith
  have hB : ¬ c.r - eps < |sdist l c.c| := by linarith
  have hall := cl_points_on_both eps c l hu
  rw [intersectCL_real eps c l hu, if_neg hA, if_neg hB] at hall ⊢
  refine ⟨_, _, rfl, ?_, hall⟩
  have hside := halfChord_sq l c (by linarith)
  have hunit := ort_unit l c.c hu
  have h0 : 0 ≤ |sdist l c.c| := abs_nonneg _
  have hpos : 0 < halfChord l c ^ 2 := by rw [hside]; nlinarith
  intro heq
  rw [Point.mk.injEq] at heq
  obtain ⟨hx, hy⟩ := heq
  generalize ortX l c.c = ox at *
  generalize ortY l c.c = oy at *
  generalize halfChord l c = t at *
  have e1 : oy * t = 0 := by linarith
  have e2 : ox * t = 0 := by linarith
  have : t ^ 2 = 0 := by linear_combination (t ^ 2) * (-hunit) + (ox * t) * e2 + (oy * t) * e1
  linarith

/-- `intersect_cc`, *any* two circles with non-negative radii (concentric ones included — after fix 542ea35 the code
    answers `Same` / `None` there and reports no point): the two points of the crossing branch lie exactly on both
    circles; a touch point lies exactly on the larger circle and within `eps` of the other one. -/
theorem cc_points_on_both (eps : ℝ) (a b : Circle ℝ) (heps : 0 < eps) (ha : 0 ≤ a.r) (hb : 0 ≤ b.r) :
    match intersectCC (realGeo eps) a b with
    | .none => True
    | .same => True
    | .touchInside p => (OnCircle a p ∨ OnCircle b p) ∧ |Geometry.edist p a.c - a.r| ≤ eps ∧ |Geometry.edist p b.c - b.r| ≤ eps
    | .touchOutside p => (OnCircle a p ∨ OnCircle b p) ∧ |Geometry.edist p a.c - a.r| ≤ eps ∧ |Geometry.edist p b.c - b.r| ≤ eps
    | .intersect p q => OnCircle a p ∧ OnCircle b p ∧ OnCircle a q ∧ OnCircle b q := by
  have h := cc_points eps a b heps ha hb
  revert h
  cases intersectCC (realGeo eps) a b <;> exact id

/-- concentric circles are answered `Same` or `None` — no point is reported, whatever the radii (fix 542ea35) -/
theorem cc_concentric_no_point (eps : ℝ) (a b : Circle ℝ) (heps : 0 < eps) (hc : a.c = b.c) :
    intersectCC (realGeo eps) a b = CC.same ∨ intersectCC (realGeo eps) a b = CC.none := by
  rcases intersectCC_cases eps a b with ⟨h, e⟩ | ⟨h, e⟩
  · rw [e]; exact ccOrdered_zero_kind eps b a heps h.le (by rw [hc, edist_self])
  · rw [e]; exact ccOrdered_zero_kind eps a b heps h (by rw [hc, edist_self])

/-- centres farther apart than `r1 + r2 + eps`: `None`, and the circles really have no common point -/
theorem cc_kind_none_outside (eps : ℝ) (a b : Circle ℝ) (heps : 0 ≤ eps) (ha : 0 ≤ a.r) (hb : 0 ≤ b.r)
    (h : a.r + b.r + eps < Geometry.edist a.c b.c) :
    intersectCC (realGeo eps) a b = CC.none ∧ ∀ p, ¬(OnCircle a p ∧ OnCircle b p) := by
  refine ⟨?_, no_common_outside a b ha hb (by linarith)⟩
  rcases intersectCC_cases eps a b with ⟨hlt, e⟩ | ⟨hle, e⟩
  · rw [e]; exact ccOrdered_none_outside eps b a heps ha hlt.le (by rw [edist_comm]; linarith)
  · rw [e]; exact ccOrdered_none_outside eps a b heps hb hle (by linarith)

/-- one circle well inside the other (`d < |r1 - r2| - eps`): `None`, and no common point -/
theorem cc_kind_none_inside (eps : ℝ) (a b : Circle ℝ) (heps : 0 ≤ eps) (ha : 0 ≤ a.r) (hb : 0 ≤ b.r)
    (h : Geometry.edist a.c b.c < |a.r - b.r| - eps) :
    intersectCC (realGeo eps) a b = CC.none ∧ ∀ p, ¬(OnCircle a p ∧ OnCircle b p) := by
  rcases intersectCC_cases eps a b with ⟨hlt, e⟩ | ⟨hle, e⟩
  · have habs : |a.r - b.r| = b.r - a.r := by rw [abs_of_neg (by linarith)]; ring
    rw [habs] at h
    refine ⟨?_, ?_⟩
    · rw [e]; exact ccOrdered_none_inside eps b a (by rw [edist_comm]; linarith)
    · intro p hp
      exact no_common_inside b a ha (by rw [edist_comm]; linarith) p ⟨hp.2, hp.1⟩
  · rw [abs_of_nonneg (by linarith)] at h
    refine ⟨?_, no_common_inside a b hb (by linarith)⟩
    rw [e]; exact ccOrdered_none_inside eps a b h

/-- identical circles are reported as `Same` -/
theorem cc_kind_same (eps : ℝ) (a b : Circle ℝ) (heps : 0 < eps) (hc : a.c = b.c) (hr : a.r = b.r) :
    intersectCC (realGeo eps) a b = CC.same := by
  rcases intersectCC_cases eps a b with ⟨hlt, e⟩ | ⟨hle, e⟩
  · rw [e]; exact ccOrdered_same eps b a heps hc.symm hr.symm
  · rw [e]; exact ccOrdered_same eps a b heps hc hr

/-- within `eps` of outer tangency (`d ≈ r1 + r2`, radii at least `eps`) the result is `TouchOutside` -/
theorem cc_kind_touch_outside (eps : ℝ) (a b : Circle ℝ) (ha : eps ≤ a.r) (hb : eps ≤ b.r)
    (h1 : a.r + b.r - eps ≤ Geometry.edist a.c b.c) (h2 : Geometry.edist a.c b.c < a.r + b.r + eps) :
    ∃ p, intersectCC (realGeo eps) a b = CC.touchOutside p := by
  rcases intersectCC_cases eps a b with ⟨hlt, e⟩ | ⟨hle, e⟩
  · rw [e]; exact ccOrdered_touch_outside eps b a ha hlt.le (by rw [edist_comm]; linarith) (by rw [edist_comm]; linarith)
  · rw [e]; exact ccOrdered_touch_outside eps a b hb hle (by linarith) (by linarith)

/-- within `eps` of inner tangency (`d ≈ |r1 - r2|`, centres at least `eps` apart) the result is `TouchInside` -/
theorem cc_kind_touch_inside (eps : ℝ) (a b : Circle ℝ) (heps : 0 < eps) (h0 : eps ≤ Geometry.edist a.c b.c)
    (h1 : |a.r - b.r| - eps ≤ Geometry.edist a.c b.c) (h2 : Geometry.edist a.c b.c < |a.r - b.r| + eps) :
    ∃ p, intersectCC (realGeo eps) a b = CC.touchInside p := by
  rcases intersectCC_cases eps a b with ⟨hlt, e⟩ | ⟨hle, e⟩
  · have habs : |a.r - b.r| = b.r - a.r := by rw [abs_of_neg (by linarith)]; ring
    rw [habs] at h1 h2
    rw [e]; exact ccOrdered_touch_inside eps b a heps (by rw [edist_comm]; linarith) (by rw [edist_comm]; linarith) (by rw [edist_comm]; linarith)
  · rw [abs_of_nonneg (by linarith)] at h1 h2
    rw [e]; exact ccOrdered_touch_inside eps a b heps h0 h1 h2

/-- properly crossing circles (`|r1 - r2| + eps ≤ d < r1 + r2 - eps`), in either argument order (the swap by radius):
    `Intersect` with two *distinct* points, each exactly on both circles -/
theorem cc_kind_intersect (eps : ℝ) (a b : Circle ℝ) (heps : 0 < eps) (ha : 0 ≤ a.r) (hb : 0 ≤ b.r)
    (h1 : |a.r - b.r| + eps ≤ Geometry.edist a.c b.c) (h2 : Geometry.edist a.c b.c < a.r + b.r - eps) :
    ∃ p q, intersectCC (realGeo eps) a b = CC.intersect p q ∧ p ≠ q ∧
      OnCircle a p ∧ OnCircle b p ∧ OnCircle a q ∧ OnCircle b q := by
  have hpts := cc_points eps a b heps ha hb
  have hex : ∃ p q, intersectCC (realGeo eps) a b = CC.intersect p q ∧ p ≠ q := by
    rcases intersectCC_cases eps a b with ⟨hlt, e⟩ | ⟨hle, e⟩
    · have habs : |a.r - b.r| = b.r - a.r := by rw [abs_of_neg (by linarith)]; ring
      rw [habs] at h1
      rw [e]; exact ccOrdered_intersect eps b a heps ha hlt.le (by rw [edist_comm]; linarith) (by rw [edist_comm]; linarith)
    · rw [abs_of_nonneg (by linarith)] at h1
      rw [e]; exact ccOrdered_intersect eps a b heps hb hle h1 h2
  obtain ⟨p, q, e, hne⟩ := hex
  rw [e] at hpts
  exact ⟨p, q, e, hne, hpts⟩

/-- `parallel` is exactly the test `|cp of the stored normals| < eps` -/
theorem parallel_iff (eps : ℝ) (u v : Line ℝ) :
    parallel (realGeo eps) u v = true ↔ |u.a * v.b - u.b * v.a| < eps :=
  parallel_real eps u v

/-- `intersect_ll` answers `None` exactly for `parallel` lines, and otherwise returns a point that satisfies
    both line equations exactly. -/
theorem ll_point_on_both (eps : ℝ) (heps : 0 < eps) (u v : Line ℝ) :
    (intersectLL (realGeo eps) u v = none ↔ parallel (realGeo eps) u v = true) ∧
    ∀ p, intersectLL (realGeo eps) u v = some p → OnLine u p ∧ OnLine v p := by
  rw [intersectLL_real, parallel_real]
  by_cases h : |crossN u v| < eps
  · simp only [h, if_true, true_and]
    intro p hp; cases hp
  · rw [if_neg h]
    refine ⟨⟨fun hp => (by cases hp), fun hf => (h hf).elim⟩, ?_⟩
    intro p hp
    have hne : u.a * v.b - u.b * v.a ≠ 0 := by
      intro h0; apply h; unfold crossN; rw [h0, abs_zero]; exact heps
    have e : u.b * v.a - u.a * v.b = -(u.a * v.b - u.b * v.a) := by ring
    rw [e] at hp
    cases hp
    unfold OnLine
    generalize hD : u.a * v.b - u.b * v.a = D at hne ⊢
    constructor
    · field_simp
      linear_combination (-u.c) * hD
    · field_simp
      linear_combination (-v.c) * hD
/-- `Circle::position`: `Inside` / `Outside` / `Border` ⇔ the sign of `|p - c| - r` relative to `eps·r`. -/
theorem position_spec (eps : ℝ) (heps : 0 ≤ eps) (c : Circle ℝ) (hr : 0 < c.r) (p : Point ℝ) :
    (position (realGeo eps) c p = Position.inside ↔ Geometry.edist p c.c - c.r < -(eps * c.r)) ∧
    (position (realGeo eps) c p = Position.outside ↔ eps * c.r < Geometry.edist p c.c - c.r) ∧
    (position (realGeo eps) c p = Position.border ↔ |Geometry.edist p c.c - c.r| ≤ eps * c.r) := by
  rw [position_real]
  have e1 : (Geometry.edist p c.c - c.r) / c.r < -eps ↔ Geometry.edist p c.c - c.r < -(eps * c.r) := by
    rw [div_lt_iff₀ hr]; constructor <;> intro h <;> linarith
  have e2 : eps < (Geometry.edist p c.c - c.r) / c.r ↔ eps * c.r < Geometry.edist p c.c - c.r := by
    rw [lt_div_iff₀ hr]
  simp only [e1, e2]
  have hpos : 0 ≤ eps * c.r := mul_nonneg heps hr.le
  by_cases h1 : Geometry.edist p c.c - c.r < -(eps * c.r)
  · simp only [h1, if_true, reduceCtorEq, false_iff, true_and]
    refine ⟨by linarith, ?_⟩
    intro h; have := (abs_le.mp h).1; linarith
  · by_cases h2 : eps * c.r < Geometry.edist p c.c - c.r
    · simp only [h1, h2, if_true, if_false, reduceCtorEq, false_iff, true_and]
      intro h; have := (abs_le.mp h).2; linarith
    · simp only [h1, h2, if_false, reduceCtorEq, true_iff, true_and]
      rw [abs_le]; constructor <;> linarith

/-- `Line::contains` is exactly the test `|signed distance| < eps` -/
theorem contains_spec (eps : ℝ) (l : Line ℝ) (p : Point ℝ) :
    lineContains (realGeo eps) l p = true ↔ |l.a * p.x + l.b * p.y + l.c| < eps :=
  lineContains_real eps l p

/-- `Line::between(u, v)` for `u ≠ v`: unit normal, and both defining points satisfy the line equation exactly. -/
theorem line_between_spec (eps : ℝ) (u v : Point ℝ) (h : u ≠ v) :
    UnitLine (lineBetween (realGeo eps) u v) ∧ OnLine (lineBetween (realGeo eps) u v) u ∧
      OnLine (lineBetween (realGeo eps) u v) v := by
  have hab : u.y - v.y ≠ 0 ∨ v.x - u.x ≠ 0 := by
    by_contra hn
    rw [not_or, not_not, not_not] at hn
    apply h
    cases u; cases v
    simp only [Point.mk.injEq] at *
    constructor <;> linarith
  have key := line_new_unit eps (u.y - v.y) (v.x - u.x) (-((u.y - v.y) * u.x + (v.x - u.x) * u.y)) hab
  have e : lineBetween (realGeo eps) u v =
      lineNew (realGeo eps) (u.y - v.y) (v.x - u.x) (-((u.y - v.y) * u.x + (v.x - u.x) * u.y)) := by
    simp only [lineBetween, realGeo]
  rw [e]
  refine ⟨key.1, (key.2 u).mpr (by ring), (key.2 v).mpr (by ring)⟩

/-- radical-line identity behind the crossing branch of `intersect_cc`: every point of the perpendicular to the
    line of centres at distance `h = (d² + r1² - r2²) / (2d)` from the first centre has the same power with
    respect to both circles (so a point of it that is on one circle is on the other). -/
theorem cc_radical_identity (a b : Circle ℝ) (hc : a.c ≠ b.c) (t : ℝ) :
    let d := Geometry.edist a.c b.c
    let h := ccH a b
    let px := a.c.x + (b.c.x - a.c.x) / d * h + -((b.c.y - a.c.y) / d) * t
    let py := a.c.y + (b.c.y - a.c.y) / d * h + (b.c.x - a.c.x) / d * t
    (px - a.c.x) ^ 2 + (py - a.c.y) ^ 2 - a.r ^ 2 = (px - b.c.x) ^ 2 + (py - b.c.y) ^ 2 - b.r ^ 2 := by
  have hd := edist_pos hc
  have hd2 := edist_sq a.c b.c
  obtain ⟨⟨ax, ay⟩, R⟩ := a
  obtain ⟨⟨bx, by'⟩, s⟩ := b
  simp only [ccH] at hd hd2 ⊢
  generalize Geometry.edist ⟨ax, ay⟩ ⟨bx, by'⟩ = d at hd hd2 ⊢
  obtain ⟨ux, uy, hu, rfl, rfl, e1, e2⟩ := dir_exists ax ay bx by' d hd hd2
  simp only [e1, e2]
  generalize hhdef : (d * d + R * R - s * s) / (2 * d) = h
  have hh : 2 * d * h = d ^ 2 + R ^ 2 - s ^ 2 := by
    rw [← hhdef]; field_simp
  linear_combination (2 * d * h - d ^ 2) * hu + hh

/-! ### the executable exact specification agrees with the model in exact arithmetic

`S` in the driver's output is computed by `specKind*` / `specPosition` / `specContains` over exact fractions.
These theorems say that whenever that code commits to an answer, the real-number instance of the model gives the
same answer; `nearCircle_iff` / `nearLine_iff` say that the point predicate of mode `P` is the stated distance bound. -/

/-- whenever the executable exact spec commits to a circle–line kind, the real-number model returns that kind
    (for every `0 < eps < 1.01e-9`, so in particular for `util::EPS = 1e-9`) -/
theorem specKindCL_sound (eps : ℝ) (heps : 0 < eps) (hm : eps < 101 / 10 ^ 11) (qc : QCircle) (ql : QLine)
    (hc : qc.WF) (hl : ql.WF) (hr : 0 ≤ qc.r.val) (k : String) (h : specKindCL qc ql = some k) :
    (intersectCL (realGeo eps) qc.val (ql.val eps)).kind = k := by
  obtain ⟨hcc, hcr⟩ := hc
  have wfE := QLine.wf_eval hl hcc
  have wfN := QLine.wf_n2 hl
  have vE := QLine.val_eval hl hcc
  have vN := QLine.val_n2 hl
  have wfS := Q.wf_sq wfE
  have vS := Q.val_sq wfE
  simp only [specKindCL] at h
  by_cases hz : ql.n2.isZero = true
  · rw [if_pos hz] at h; cases h
  rw [if_neg hz] at h
  have hn0 : ql.n2.val ≠ 0 := fun e => hz ((Q.isZero_iff wfN).mpr e)
  have hnpos : 0 < ql.A.val ^ 2 + ql.B.val ^ 2 := by
    rw [← vN]; exact lt_of_le_of_ne (by rw [vN]; positivity) (Ne.symm hn0)
  have hAB : ql.A.val ≠ 0 ∨ ql.B.val ≠ 0 := by
    by_contra hn
    rw [not_or, not_not, not_not] at hn
    rw [hn.1, hn.2] at hnpos; norm_num at hnpos
  have hu : UnitLine (ql.val eps) := (line_new_unit eps _ _ _ hAB).1
  have hsd : |sdist (ql.val eps) qc.val.c| = |(ql.eval qc.c).val| / Real.sqrt (ql.A.val ^ 2 + ql.B.val ^ 2) := by
    unfold QLine.val
    rw [sdist_lineNew, abs_div, abs_of_pos (Real.sqrt_pos.mpr hnpos), vE]
    rfl
  have hmv := margin_val
  have hmw := margin_wf
  by_cases c1 : (((qc.r + margin).sq * ql.n2).le (ql.eval qc.c).sq) = true
  · rw [if_pos c1] at h
    cases h
    rw [Q.le_iff (Q.wf_mul (Q.wf_sq (Q.wf_add hcr hmw)) wfN) wfS,
      Q.val_mul (Q.wf_sq (Q.wf_add hcr hmw)) wfN, Q.val_sq (Q.wf_add hcr hmw), Q.val_add hcr hmw, vS, vN, hmv] at c1
    have := (le_abs_div_sqrt hnpos (by linarith : (0:ℝ) ≤ qc.r.val + 101 / 10 ^ 11)).mpr c1
    rw [(cl_kind_none eps qc.val (ql.val eps) hu heps.le hr (by rw [hsd]; show qc.r.val + eps < _; linarith)).1]
    rfl
  rw [if_neg c1] at h
  by_cases c2 : (margin.le qc.r && (ql.eval qc.c).sq.le ((qc.r - margin).sq * ql.n2)) = true
  · rw [if_pos c2] at h
    cases h
    rw [Bool.and_eq_true, Q.le_iff hmw hcr, Q.le_iff wfS (Q.wf_mul (Q.wf_sq (Q.wf_sub hcr hmw)) wfN),
      Q.val_mul (Q.wf_sq (Q.wf_sub hcr hmw)) wfN, Q.val_sq (Q.wf_sub hcr hmw), Q.val_sub hcr hmw, vS, vN, hmv] at c2
    have := (abs_div_sqrt_le hnpos (by linarith : (0:ℝ) ≤ qc.r.val - 101 / 10 ^ 11)).mpr c2.2
    obtain ⟨p, q, e, _⟩ := cl_kind_intersect eps qc.val (ql.val eps) hu heps
      (by rw [hsd]; show _ < qc.r.val - eps; linarith)
    rw [e]; rfl
  rw [if_neg c2] at h
  by_cases c3 : ((ql.eval qc.c).sq.eq (qc.r.sq * ql.n2)) = true
  · rw [if_pos c3] at h
    cases h
    rw [Q.eq_iff wfS (Q.wf_mul (Q.wf_sq hcr) wfN), Q.val_mul (Q.wf_sq hcr) wfN, Q.val_sq hcr, vS, vN] at c3
    have h1 := (le_abs_div_sqrt hnpos hr).mpr c3.ge
    have h2 := (abs_div_sqrt_le hnpos hr).mpr c3.le
    obtain ⟨p, e⟩ := cl_kind_touch eps qc.val (ql.val eps) hu
      (by rw [hsd]; show qc.r.val - eps < _; linarith) (by rw [hsd]; show _ ≤ qc.r.val + eps; linarith)
    rw [e]; rfl
  · rw [if_neg c3] at h; cases h
/-- the same for circle–circle kinds (radii at least `eps`, centres identical or at least `eps` apart) -/
theorem specKindCC_sound (eps : ℝ) (heps : 0 < eps) (hm : eps < 101 / 10 ^ 11) (qa qb : QCircle)
    (ha : qa.WF) (hb : qb.WF) (hra : eps ≤ qa.r.val) (hrb : eps ≤ qb.r.val)
    (hsep : (qDist2 qa.c qb.c).val = 0 ∨ eps ≤ Geometry.edist qa.val.c qb.val.c)
    (k : String) (h : specKindCC qa qb = some k) :
    (intersectCC (realGeo eps) qa.val qb.val).kind = k := by
  obtain ⟨hac, har⟩ := ha
  obtain ⟨hbc, hbr⟩ := hb
  obtain ⟨vD, wD⟩ := qDist2_val hac hbc
  have hmv := margin_val
  have hmw := margin_wf
  have hd2 : Geometry.edist qa.val.c qb.val.c ^ 2 = (qDist2 qa.c qb.c).val := by rw [edist_sq, vD]; rfl
  have hd0 := edist_nonneg qa.val.c qb.val.c
  -- the larger and the smaller radius, as the spec computes them
  obtain ⟨R, s, hR, hs, wR, ws, hsum, hdiff, heq⟩ : ∃ R s : Q,
      R = (if qa.r.lt qb.r = true then qb.r else qa.r) ∧ s = (if qa.r.lt qb.r = true then qa.r else qb.r) ∧
      R.WF ∧ s.WF ∧ R.val + s.val = qa.r.val + qb.r.val ∧ R.val - s.val = |qa.r.val - qb.r.val| ∧
      (R.val = s.val → qa.r.val = qb.r.val) := by
    by_cases c : qa.r.lt qb.r = true
    · have c' := (Q.lt_iff har hbr).mp c
      refine ⟨qb.r, qa.r, by rw [if_pos c], by rw [if_pos c], hbr, har, by ring, ?_, fun e => e.symm⟩
      rw [abs_of_neg (by linarith)]; ring
    · have c' : ¬ qa.r.val < qb.r.val := fun e => c ((Q.lt_iff har hbr).mpr e)
      refine ⟨qa.r, qb.r, by rw [if_neg c], by rw [if_neg c], har, hbr, rfl, ?_, id⟩
      rw [abs_of_nonneg (by linarith)]
  simp only [specKindCC] at h
  rw [← hR, ← hs] at h
  set d := Geometry.edist qa.val.c qb.val.c with hddef
  have hs0 : 0 ≤ s.val := by
    have : s.val = qa.r.val ∨ s.val = qb.r.val := by
      rw [hs]; split_ifs <;> simp
    rcases this with e | e <;> rw [e] <;> linarith
  have hRs : s.val ≤ R.val := by have := abs_nonneg (qa.r.val - qb.r.val); linarith
  by_cases c1 : ((qDist2 qa.c qb.c).isZero && R.eq s) = true
  · rw [if_pos c1] at h; cases h
    rw [Bool.and_eq_true, Q.isZero_iff wD, Q.eq_iff wR ws] at c1
    have hx : qa.c.x.val - qb.c.x.val = 0 := by nlinarith [sq_nonneg (qa.c.x.val - qb.c.x.val), sq_nonneg (qa.c.y.val - qb.c.y.val), vD, c1.1]
    have hy : qa.c.y.val - qb.c.y.val = 0 := by nlinarith [sq_nonneg (qa.c.x.val - qb.c.x.val), sq_nonneg (qa.c.y.val - qb.c.y.val), vD, c1.1]
    have hcc : qa.val.c = qb.val.c := by
      show (⟨qa.c.x.val, qa.c.y.val⟩ : Point ℝ) = ⟨qb.c.x.val, qb.c.y.val⟩
      rw [Point.mk.injEq]; constructor <;> linarith
    rw [cc_kind_same eps qa.val qb.val heps hcc (heq c1.2)]; rfl
  rw [if_neg c1] at h
  by_cases c2 : ((R + s + margin).sq.le (qDist2 qa.c qb.c)) = true
  · rw [if_pos c2] at h; cases h
    rw [Q.le_iff (Q.wf_sq (Q.wf_add (Q.wf_add wR ws) hmw)) wD, Q.val_sq (Q.wf_add (Q.wf_add wR ws) hmw),
      Q.val_add (Q.wf_add wR ws) hmw, Q.val_add wR ws, hmv, ← hd2] at c2
    have := (sq_le_sq_iff (by linarith) hd0).mp c2
    rw [(cc_kind_none_outside eps qa.val qb.val heps.le (by show 0 ≤ qa.r.val; linarith) (by show 0 ≤ qb.r.val; linarith)
      (by show qa.r.val + qb.r.val + eps < d; linarith)).1]
    rfl
  rw [if_neg c2] at h
  by_cases c3 : (margin.le (R - s) && (qDist2 qa.c qb.c).le (R - s - margin).sq) = true
  · rw [if_pos c3] at h; cases h
    rw [Bool.and_eq_true, Q.le_iff hmw (Q.wf_sub wR ws), Q.le_iff wD (Q.wf_sq (Q.wf_sub (Q.wf_sub wR ws) hmw)),
      Q.val_sq (Q.wf_sub (Q.wf_sub wR ws) hmw), Q.val_sub (Q.wf_sub wR ws) hmw, Q.val_sub wR ws, hmv, ← hd2] at c3
    have := (sq_le_sq_iff hd0 (by linarith)).mp c3.2
    rw [(cc_kind_none_inside eps qa.val qb.val heps.le (by show 0 ≤ qa.r.val; linarith) (by show 0 ≤ qb.r.val; linarith)
      (by show d < |qa.r.val - qb.r.val| - eps; linarith)).1]
    rfl
  rw [if_neg c3] at h
  by_cases c4 : ((qDist2 qa.c qb.c).eq (R + s).sq) = true
  · rw [if_pos c4] at h; cases h
    rw [Q.eq_iff wD (Q.wf_sq (Q.wf_add wR ws)), Q.val_sq (Q.wf_add wR ws), Q.val_add wR ws, ← hd2] at c4
    have h1 := (sq_le_sq_iff hd0 (by linarith)).mp c4.le
    have h2 := (sq_le_sq_iff (by linarith) hd0).mp c4.ge
    obtain ⟨p, e⟩ := cc_kind_touch_outside eps qa.val qb.val hra hrb
      (by show qa.r.val + qb.r.val - eps ≤ d; linarith) (by show d < qa.r.val + qb.r.val + eps; linarith)
    rw [e]; rfl
  rw [if_neg c4] at h
  by_cases c5 : ((qDist2 qa.c qb.c).eq (R - s).sq && !(R.eq s)) = true
  · rw [if_pos c5] at h; cases h
    rw [Bool.and_eq_true, Bool.not_eq_true', Q.eq_iff wD (Q.wf_sq (Q.wf_sub wR ws)), Q.val_sq (Q.wf_sub wR ws),
      Q.val_sub wR ws, ← hd2] at c5
    have hne : R.val ≠ s.val := fun e => by
      have := (Q.eq_iff wR ws).mpr e; rw [this] at c5; exact absurd c5.2 (by simp)
    have h1 := (sq_le_sq_iff hd0 (by linarith)).mp c5.1.le
    have h2 := (sq_le_sq_iff (by linarith) hd0).mp c5.1.ge
    have hdpos : eps ≤ d := by
      rcases hsep with e | e
      · exfalso
        have : d ^ 2 = 0 := by rw [hd2, e]
        have hd' : d = 0 := by nlinarith
        apply hne; linarith
      · exact e
    obtain ⟨p, e⟩ := cc_kind_touch_inside eps qa.val qb.val heps hdpos
      (by show |qa.r.val - qb.r.val| - eps ≤ d; linarith) (by show d < |qa.r.val - qb.r.val| + eps; linarith)
    rw [e]; rfl
  rw [if_neg c5] at h
  by_cases c6 : ((R - s + margin).sq.le (qDist2 qa.c qb.c) && margin.le (R + s) && (qDist2 qa.c qb.c).le (R + s - margin).sq) = true
  · rw [if_pos c6] at h; cases h
    rw [Bool.and_eq_true, Bool.and_eq_true, Q.le_iff (Q.wf_sq (Q.wf_add (Q.wf_sub wR ws) hmw)) wD,
      Q.le_iff hmw (Q.wf_add wR ws), Q.le_iff wD (Q.wf_sq (Q.wf_sub (Q.wf_add wR ws) hmw)),
      Q.val_sq (Q.wf_add (Q.wf_sub wR ws) hmw), Q.val_sq (Q.wf_sub (Q.wf_add wR ws) hmw),
      Q.val_add (Q.wf_sub wR ws) hmw, Q.val_sub (Q.wf_add wR ws) hmw, Q.val_sub wR ws, Q.val_add wR ws, hmv, ← hd2] at c6
    have h1 := (sq_le_sq_iff (by linarith) hd0).mp c6.1.1
    have h2 := (sq_le_sq_iff hd0 (by linarith)).mp c6.2
    obtain ⟨p, q, e, _⟩ := cc_kind_intersect eps qa.val qb.val heps (by show 0 ≤ qa.r.val; linarith) (by show 0 ≤ qb.r.val; linarith)
      (by show |qa.r.val - qb.r.val| + eps ≤ d; linarith) (by show d < qa.r.val + qb.r.val - eps; linarith)
    rw [e]; rfl
  · rw [if_neg c6] at h; cases h
/-- the same for `Circle::position` -/
theorem specPosition_sound (eps : ℝ) (heps : 0 ≤ eps) (hm : eps < 101 / 10 ^ 11) (qc : QCircle) (qp : QPoint)
    (hc : qc.WF) (hp : qp.WF) (hr : 0 < qc.r.val) (k : String) (h : specPosition qc qp = some k) :
    (position (realGeo eps) qc.val qp.val).toString = k := by
  obtain ⟨hcc, hcr⟩ := hc
  obtain ⟨vD, wD⟩ := qDist2_val hp hcc
  have hmv := margin_val
  have hmw := margin_wf
  have hd2 : Geometry.edist qp.val qc.val.c ^ 2 = (qDist2 qp qc.c).val := by rw [edist_sq, vD]; rfl
  have hd0 := edist_nonneg qp.val qc.val.c
  have spec := position_spec eps heps qc.val hr qp.val
  set d := Geometry.edist qp.val qc.val.c with hddef
  have hrv : qc.val.r = qc.r.val := rfl
  have hmr : eps * qc.r.val ≤ 101 / 10 ^ 11 * qc.r.val := by nlinarith
  simp only [specPosition] at h
  by_cases c1 : ((qDist2 qp qc.c).eq qc.r.sq) = true
  · rw [if_pos c1] at h; cases h
    rw [Q.eq_iff wD (Q.wf_sq hcr), Q.val_sq hcr, ← hd2] at c1
    have h1 := (sq_le_sq_iff hd0 hr.le).mp c1.le
    have h2 := (sq_le_sq_iff hr.le hd0).mp c1.ge
    rw [spec.2.2.mpr (by rw [hrv, abs_le]; constructor <;> nlinarith)]; rfl
  rw [if_neg c1] at h
  by_cases c2 : ((qc.r + margin * qc.r).sq.le (qDist2 qp qc.c)) = true
  · rw [if_pos c2] at h; cases h
    rw [Q.le_iff (Q.wf_sq (Q.wf_add hcr (Q.wf_mul hmw hcr))) wD, Q.val_sq (Q.wf_add hcr (Q.wf_mul hmw hcr)),
      Q.val_add hcr (Q.wf_mul hmw hcr), Q.val_mul hmw hcr, hmv, ← hd2] at c2
    have h1 := (sq_le_sq_iff (by nlinarith) hd0).mp c2
    rw [spec.2.1.mpr (by rw [hrv]; nlinarith)]; rfl
  rw [if_neg c2] at h
  by_cases c3 : ((qDist2 qp qc.c).le (qc.r - margin * qc.r).sq) = true
  · rw [if_pos c3] at h; cases h
    rw [Q.le_iff wD (Q.wf_sq (Q.wf_sub hcr (Q.wf_mul hmw hcr))), Q.val_sq (Q.wf_sub hcr (Q.wf_mul hmw hcr)),
      Q.val_sub hcr (Q.wf_mul hmw hcr), Q.val_mul hmw hcr, hmv, ← hd2] at c3
    have h1 := (sq_le_sq_iff hd0 (by nlinarith)).mp c3
    rw [spec.1.mpr (by rw [hrv]; nlinarith)]; rfl
  · rw [if_neg c3] at h; cases h

/-- the same for `Line::contains` -/
theorem specContains_sound (eps : ℝ) (heps : 0 < eps) (hm : eps < 101 / 10 ^ 11) (ql : QLine) (qp : QPoint)
    (hl : ql.WF) (hp : qp.WF) (k : String) (h : specContains ql qp = some k) :
    showBool (lineContains (realGeo eps) (ql.val eps) qp.val) = k := by
  have wfE := QLine.wf_eval hl hp
  have wfN := QLine.wf_n2 hl
  have vE := QLine.val_eval hl hp
  have vN := QLine.val_n2 hl
  have wfS := Q.wf_sq wfE
  have vS := Q.val_sq wfE
  have hmv := margin_val
  have hmw := margin_wf
  simp only [specContains] at h
  by_cases hz : ql.n2.isZero = true
  · rw [if_pos hz] at h; cases h
  rw [if_neg hz] at h
  have hn0 : ql.n2.val ≠ 0 := fun e => hz ((Q.isZero_iff wfN).mpr e)
  have hnpos : 0 < ql.A.val ^ 2 + ql.B.val ^ 2 := by
    rw [← vN]; exact lt_of_le_of_ne (by rw [vN]; positivity) (Ne.symm hn0)
  have hsd : |sdist (ql.val eps) qp.val| = |(ql.eval qp).val| / Real.sqrt (ql.A.val ^ 2 + ql.B.val ^ 2) := by
    unfold QLine.val
    rw [sdist_lineNew, abs_div, abs_of_pos (Real.sqrt_pos.mpr hnpos), vE]
    rfl
  by_cases c1 : (ql.eval qp).sq.isZero = true
  · rw [if_pos c1] at h; cases h
    rw [Q.isZero_iff wfS, vS] at c1
    have h0 : (ql.eval qp).val = 0 := by nlinarith [sq_nonneg (ql.eval qp).val]
    rw [(lineContains_real eps _ _).mpr (by rw [hsd, h0, abs_zero, zero_div]; exact heps)]; rfl
  rw [if_neg c1] at h
  by_cases c2 : ((margin.sq * ql.n2).le (ql.eval qp).sq) = true
  · rw [if_pos c2] at h; cases h
    rw [Q.le_iff (Q.wf_mul (Q.wf_sq hmw) wfN) wfS, Q.val_mul (Q.wf_sq hmw) wfN, Q.val_sq hmw, vS, vN, hmv] at c2
    have := (le_abs_div_sqrt hnpos (by norm_num : (0:ℝ) ≤ 101 / 10 ^ 11)).mpr c2
    have hf : lineContains (realGeo eps) (ql.val eps) qp.val = false := by
      rw [Bool.eq_false_iff]
      intro ht
      have := (lineContains_real eps _ _).mp ht
      rw [hsd] at this; linarith
    rw [hf]; rfl
  · rw [if_neg c2] at h; cases h
/-- the same for `intersect_ll`: exactly parallel ⇒ `None`, `|sin| ≥ 1.01e-9` ⇒ `Some` -/
theorem specKindLL_sound (eps : ℝ) (heps : 0 < eps) (hm : eps < 101 / 10 ^ 11) (qu qv : QLine)
    (hu : qu.WF) (hv : qv.WF) (k : String) (h : specKindLL qu qv = some k) :
    llKind (intersectLL (realGeo eps) (qu.val eps) (qv.val eps)) = k := by
  have wN1 := QLine.wf_n2 hu
  have wN2 := QLine.wf_n2 hv
  have vN1 := QLine.val_n2 hu
  have vN2 := QLine.val_n2 hv
  have hmv := margin_val
  have hmw := margin_wf
  have wcr : (qu.A * qv.B - qu.B * qv.A).WF := Q.wf_sub (Q.wf_mul hu.1 hv.2.1) (Q.wf_mul hu.2.1 hv.1)
  have vcr : (qu.A * qv.B - qu.B * qv.A).val = qu.A.val * qv.B.val - qu.B.val * qv.A.val := by
    rw [Q.val_sub (Q.wf_mul hu.1 hv.2.1) (Q.wf_mul hu.2.1 hv.1), Q.val_mul hu.1 hv.2.1, Q.val_mul hu.2.1 hv.1]
  simp only [specKindLL] at h
  by_cases hz : (qu.n2 * qv.n2).isZero = true
  · rw [if_pos hz] at h; cases h
  rw [if_neg hz] at h
  have hnn : (qu.n2 * qv.n2).val ≠ 0 := fun e => hz ((Q.isZero_iff (Q.wf_mul wN1 wN2)).mpr e)
  rw [Q.val_mul wN1 wN2, vN1, vN2] at hnn
  have h1pos : 0 < qu.A.val ^ 2 + qu.B.val ^ 2 :=
    lt_of_le_of_ne (by positivity) (fun e => hnn (by rw [← e, zero_mul]))
  have h2pos : 0 < qv.A.val ^ 2 + qv.B.val ^ 2 :=
    lt_of_le_of_ne (by positivity) (fun e => hnn (by rw [← e, mul_zero]))
  have hs1 := Real.sqrt_pos.mpr h1pos
  have hs2 := Real.sqrt_pos.mpr h2pos
  -- `cp` of the two stored unit normals
  have hcross : crossN (qu.val eps) (qv.val eps) =
      (qu.A.val * qv.B.val - qu.B.val * qv.A.val) /
        Real.sqrt ((qu.A.val ^ 2 + qu.B.val ^ 2) * (qv.A.val ^ 2 + qv.B.val ^ 2)) := by
    rw [Real.sqrt_mul h1pos.le]
    simp only [crossN, QLine.val, lineNew, len, slen, realGeo]
    rw [show qu.A.val * qu.A.val + qu.B.val * qu.B.val = qu.A.val ^ 2 + qu.B.val ^ 2 by ring,
      show qv.A.val * qv.A.val + qv.B.val * qv.B.val = qv.A.val ^ 2 + qv.B.val ^ 2 by ring]
    field_simp
  have hprod : 0 < (qu.A.val ^ 2 + qu.B.val ^ 2) * (qv.A.val ^ 2 + qv.B.val ^ 2) := mul_pos h1pos h2pos
  rw [intersectLL_real]
  by_cases c1 : (qu.A * qv.B - qu.B * qv.A).isZero = true
  · rw [if_pos c1] at h; cases h
    rw [Q.isZero_iff wcr, vcr] at c1
    rw [if_pos (by rw [hcross, c1, zero_div, abs_zero]; exact heps)]; rfl
  rw [if_neg c1] at h
  by_cases c2 : ((margin.sq * (qu.n2 * qv.n2)).le (qu.A * qv.B - qu.B * qv.A).sq) = true
  · rw [if_pos c2] at h; cases h
    rw [Q.le_iff (Q.wf_mul (Q.wf_sq hmw) (Q.wf_mul wN1 wN2)) (Q.wf_sq wcr), Q.val_mul (Q.wf_sq hmw) (Q.wf_mul wN1 wN2),
      Q.val_sq hmw, Q.val_mul wN1 wN2, vN1, vN2, Q.val_sq wcr, vcr, hmv] at c2
    have := (le_abs_div_sqrt hprod (by norm_num : (0:ℝ) ≤ 101 / 10 ^ 11)).mpr c2
    rw [if_neg (by rw [hcross, abs_div, abs_of_pos (Real.sqrt_pos.mpr hprod)]; linarith)]; rfl
  · rw [if_neg c2] at h; cases h

/-- the exact point predicates the driver evaluates on returned coordinates mean what they say -/
theorem nearCircle_iff (qc : QCircle) (qp : QPoint) (hc : qc.WF) (hp : qp.WF) :
    nearCircle qc qp = true ↔ 1 / 10 ^ 7 ≤ qc.val.r ∧ |Geometry.edist qp.val qc.val.c - qc.val.r| ≤ 1 / 10 ^ 7 := by
  obtain ⟨hcc, hcr⟩ := hc
  obtain ⟨vD, wD⟩ := qDist2_val hp hcc
  have htv := tol_val
  have htw := tol_wf
  have hd2 : Geometry.edist qp.val qc.val.c ^ 2 = (qDist2 qp qc.c).val := by rw [edist_sq, vD]; rfl
  have hd0 := edist_nonneg qp.val qc.val.c
  have hrv : qc.val.r = qc.r.val := rfl
  simp only [nearCircle]
  rw [Bool.and_eq_true, Bool.and_eq_true, Q.le_iff (Q.wf_sq (Q.wf_sub hcr htw)) wD, Q.le_iff wD (Q.wf_sq (Q.wf_add hcr htw)),
    Q.le_iff htw hcr, Q.val_sq (Q.wf_sub hcr htw), Q.val_sq (Q.wf_add hcr htw), Q.val_sub hcr htw, Q.val_add hcr htw, htv,
    ← hd2, hrv]
  constructor
  · rintro ⟨⟨h1, h2⟩, h3⟩
    have h1' := (sq_le_sq_iff (by linarith) hd0).mp h1
    have h2' := (sq_le_sq_iff hd0 (by linarith)).mp h2
    exact ⟨h3, abs_le.mpr ⟨by linarith, by linarith⟩⟩
  · rintro ⟨h3, h⟩
    have := abs_le.mp h
    exact ⟨⟨(sq_le_sq_iff (by linarith) hd0).mpr (by linarith), (sq_le_sq_iff hd0 (by linarith)).mpr (by linarith)⟩, h3⟩

theorem nearLine_iff (ql : QLine) (qp : QPoint) (hl : ql.WF) (hp : qp.WF) (hn : 0 < ql.A.val ^ 2 + ql.B.val ^ 2) :
    nearLine ql qp = true ↔
      |ql.A.val * qp.val.x + ql.B.val * qp.val.y + ql.C.val| / Real.sqrt (ql.A.val ^ 2 + ql.B.val ^ 2) ≤ 1 / 10 ^ 7 := by
  have wfE := QLine.wf_eval hl hp
  have wfN := QLine.wf_n2 hl
  have vE := QLine.val_eval hl hp
  have vN := QLine.val_n2 hl
  have htv := tol_val
  have htw := tol_wf
  simp only [nearLine]
  rw [Q.le_iff (Q.wf_sq wfE) (Q.wf_mul (Q.wf_sq htw) wfN), Q.val_sq wfE, Q.val_mul (Q.wf_sq htw) wfN, Q.val_sq htw, vE, vN, htv]
  exact (abs_div_sqrt_le hn (by norm_num)).symm

/-! ### the point algebra (`pt` cases of the driver) -/

/-- `Point`'s operators and `slen len dp cp` over the reals are the textbook ones; dividing and multiplying back by a
    non-zero `k` is the identity; `len` is the non-negative root of `slen`. -/
theorem point_ops_spec (eps : ℝ) (p q : Point ℝ) (k : ℝ) :
    padd (realGeo eps) p q = ⟨p.x + q.x, p.y + q.y⟩ ∧ psub (realGeo eps) p q = ⟨p.x - q.x, p.y - q.y⟩ ∧
    pmul (realGeo eps) p k = ⟨p.x * k, p.y * k⟩ ∧ pdiv (realGeo eps) p k = ⟨p.x / k, p.y / k⟩ ∧
    slen (realGeo eps) p = p.x ^ 2 + p.y ^ 2 ∧ len (realGeo eps) p = Real.sqrt (p.x ^ 2 + p.y ^ 2) ∧
    dp (realGeo eps) p q = p.x * q.x + p.y * q.y ∧ cp (realGeo eps) p q = p.x * q.y - p.y * q.x ∧
    (k ≠ 0 → (pdiv (realGeo eps) p k).x * k = p.x ∧ (pdiv (realGeo eps) p k).y * k = p.y) ∧
    0 ≤ len (realGeo eps) p ∧ len (realGeo eps) p ^ 2 = slen (realGeo eps) p := by
  have hs : slen (realGeo eps) p = p.x ^ 2 + p.y ^ 2 := by simp only [slen, realGeo]; ring
  have h0 : 0 ≤ p.x ^ 2 + p.y ^ 2 := by positivity
  refine ⟨rfl, rfl, rfl, rfl, hs, ?_, rfl, rfl, ?_, ?_, ?_⟩
  · simp only [len, hs]; rfl
  · intro hk
    exact ⟨div_mul_cancel₀ _ hk, div_mul_cancel₀ _ hk⟩
  · exact Real.sqrt_nonneg _
  · show Real.sqrt (slen (realGeo eps) p) ^ 2 = _
    rw [hs, Real.sq_sqrt h0]

/-- the executable `pt` predicate of the driver (`S = ok`) says exactly: every observed value is within `4e-15` (relative to
    the magnitudes of the terms) of what the real-arithmetic model returns — the quotient after multiplying back by `k`,
    the length as a non-negative number whose square is `slen`. -/
theorem ptOk_iff (eps : ℝ) (a b : QPoint) (k : Q) (o : PtObs) (ha : a.WF) (hb : b.WF) (hk : k.WF) (ho : o.WF) :
    ptOk a b k o = true ↔
      (Within o.add.x.val (padd (realGeo eps) a.val b.val).x (|a.val.x| + |b.val.x|) ∧
       Within o.add.y.val (padd (realGeo eps) a.val b.val).y (|a.val.y| + |b.val.y|) ∧
       Within o.sub.x.val (psub (realGeo eps) a.val b.val).x (|a.val.x| + |b.val.x|) ∧
       Within o.sub.y.val (psub (realGeo eps) a.val b.val).y (|a.val.y| + |b.val.y|) ∧
       Within o.mul.x.val (pmul (realGeo eps) a.val k.val).x |(pmul (realGeo eps) a.val k.val).x| ∧
       Within o.mul.y.val (pmul (realGeo eps) a.val k.val).y |(pmul (realGeo eps) a.val k.val).y| ∧
       Within (o.div.x.val * k.val) a.val.x |a.val.x| ∧
       Within (o.div.y.val * k.val) a.val.y |a.val.y| ∧
       Within o.slen.val (slen (realGeo eps) a.val) (slen (realGeo eps) a.val) ∧
       0 ≤ o.len.val ∧
       Within (o.len.val ^ 2) (slen (realGeo eps) a.val) (slen (realGeo eps) a.val) ∧
       Within o.dp.val (dp (realGeo eps) a.val b.val) (|a.val.x * b.val.x| + |a.val.y * b.val.y|) ∧
       Within o.cp.val (cp (realGeo eps) a.val b.val) (|a.val.x * b.val.y| + |a.val.y * b.val.x|)) := by
  obtain ⟨hax, hay⟩ := ha
  obtain ⟨hbx, hby⟩ := hb
  obtain ⟨⟨h1x, h1y⟩, ⟨h2x, h2y⟩, ⟨h3x, h3y⟩, ⟨h4x, h4y⟩, h5, h6, h7, h8⟩ := ho
  simp (disch := qwf) only [ptOk, Bool.and_eq_true, within_iff, Q.le_iff, Q.val_add, Q.val_sub, Q.val_mul, Q.val_sq,
    Q.val_abs, Q.val_ofInt]
  simp only [Within, padd, psub, pmul, slen, dp, cp, realGeo, QPoint.val, Int.cast_zero, and_assoc, sq]

/-! ### non-vacuity: every theorem applies to a concrete, non-trivial configuration -/

example : UnitLine (lineNew (realGeo 1e-9) 3 4 5) := (line_new_unit _ 3 4 5 (Or.inl (by norm_num))).1

-- the F3 configuration: circle ((10,10),5), line y = 15 (stored as 0·x + 1·y - 15): the touch point is (10,15)
example : intersectCL (realGeo 1e-9) ⟨⟨10, 10⟩, 5⟩ ⟨0, 1, -15⟩ = CL.touch ⟨10, 15⟩ := by
  rw [intersectCL_real _ _ _ (by norm_num [UnitLine])]
  norm_num [sdist, ortX, ortY]

example : ∃ p q, intersectCL (realGeo 1e-9) ⟨⟨0, 0⟩, 5⟩ ⟨0, 1, -3⟩ = CL.intersect p q ∧ p ≠ q ∧
    OnLine ⟨0, 1, -3⟩ p ∧ OnCircle ⟨⟨0, 0⟩, 5⟩ p ∧ OnLine ⟨0, 1, -3⟩ q ∧ OnCircle ⟨⟨0, 0⟩, 5⟩ q :=
  cl_kind_intersect 1e-9 ⟨⟨0, 0⟩, 5⟩ ⟨0, 1, -3⟩ (by norm_num [UnitLine]) (by norm_num) (by norm_num [sdist])

example : intersectCL (realGeo 1e-9) ⟨⟨0, 0⟩, 5⟩ ⟨0, 1, -7⟩ = CL.none :=
  (cl_kind_none 1e-9 ⟨⟨0, 0⟩, 5⟩ ⟨0, 1, -7⟩ (by norm_num [UnitLine]) (by norm_num) (by norm_num) (by norm_num [sdist])).1

example : ∃ p, intersectCL (realGeo 1e-9) ⟨⟨0, 0⟩, 5⟩ ⟨3 / 5, 4 / 5, -5⟩ = CL.touch p :=
  cl_kind_touch 1e-9 ⟨⟨0, 0⟩, 5⟩ ⟨3 / 5, 4 / 5, -5⟩ (by norm_num [UnitLine]) (by norm_num [sdist]) (by norm_num [sdist])

example : intersectCC (realGeo 1e-9) ⟨⟨0, 0⟩, 1⟩ ⟨⟨3, 4⟩, 2⟩ = CC.none :=
  (cc_kind_none_outside 1e-9 ⟨⟨0, 0⟩, 1⟩ ⟨⟨3, 4⟩, 2⟩ (by norm_num) (by norm_num) (by norm_num)
    (by simp only [edist_345]; norm_num)).1

example : intersectCC (realGeo 1e-9) ⟨⟨0, 0⟩, 1⟩ ⟨⟨3, 4⟩, 10⟩ = CC.none :=
  (cc_kind_none_inside 1e-9 ⟨⟨0, 0⟩, 1⟩ ⟨⟨3, 4⟩, 10⟩ (by norm_num) (by norm_num) (by norm_num)
    (by simp only [edist_345]; norm_num)).1

-- the smaller circle first: exercises the swap by radius
example : ∃ p q, intersectCC (realGeo 1e-9) ⟨⟨0, 0⟩, 3⟩ ⟨⟨3, 4⟩, 4⟩ = CC.intersect p q ∧ p ≠ q ∧
    OnCircle ⟨⟨0, 0⟩, 3⟩ p ∧ OnCircle ⟨⟨3, 4⟩, 4⟩ p ∧ OnCircle ⟨⟨0, 0⟩, 3⟩ q ∧ OnCircle ⟨⟨3, 4⟩, 4⟩ q :=
  cc_kind_intersect 1e-9 ⟨⟨0, 0⟩, 3⟩ ⟨⟨3, 4⟩, 4⟩ (by norm_num) (by norm_num) (by norm_num)
    (by simp only [edist_345]; norm_num) (by simp only [edist_345]; norm_num)

example : intersectCC (realGeo 1e-9) ⟨⟨3, 4⟩, 5⟩ ⟨⟨3, 4⟩, 5⟩ = CC.same :=
  cc_kind_same 1e-9 _ _ (by norm_num) rfl rfl

example : ∃ p, intersectCC (realGeo 1e-9) ⟨⟨0, 0⟩, 2⟩ ⟨⟨3, 4⟩, 3⟩ = CC.touchOutside p :=
  cc_kind_touch_outside 1e-9 ⟨⟨0, 0⟩, 2⟩ ⟨⟨3, 4⟩, 3⟩ (by norm_num) (by norm_num)
    (by simp only [edist_345]; norm_num) (by simp only [edist_345]; norm_num)

example : ∃ p, intersectCC (realGeo 1e-9) ⟨⟨0, 0⟩, 2⟩ ⟨⟨3, 4⟩, 7⟩ = CC.touchInside p :=
  cc_kind_touch_inside 1e-9 ⟨⟨0, 0⟩, 2⟩ ⟨⟨3, 4⟩, 7⟩ (by norm_num) (by simp only [edist_345]; norm_num)
    (by simp only [edist_345]; norm_num) (by simp only [edist_345]; norm_num)

example := cc_points_on_both 1e-9 ⟨⟨0, 0⟩, 2⟩ ⟨⟨3, 4⟩, 3⟩ (by norm_num) (by norm_num) (by norm_num)
-- concentric circles whose radii differ by exactly eps (the 542ea35 corner): no hypothesis excludes them
example := cc_points_on_both 1e-9 ⟨⟨3, 4⟩, 1 + 1e-9⟩ ⟨⟨3, 4⟩, 1⟩ (by norm_num) (by norm_num) (by norm_num)

example := cc_concentric_no_point 1e-9 ⟨⟨3, 4⟩, 1 + 1e-9⟩ ⟨⟨3, 4⟩, 1⟩ (by norm_num) rfl

example := cc_radical_identity ⟨⟨0, 0⟩, 4⟩ ⟨⟨3, 4⟩, 3⟩ (by simp only [ne_eq, Point.mk.injEq]; norm_num) 1

example := cl_points_on_both 1e-9 ⟨⟨10, 10⟩, 5⟩ ⟨0, 1, -15⟩ (by norm_num [UnitLine])

-- the lines x = 1 and y = 2 meet in (1, 2)
example : intersectLL (realGeo 1e-9) ⟨1, 0, -1⟩ ⟨0, 1, -2⟩ = some ⟨1, 2⟩ := by
  rw [intersectLL_real]; norm_num [crossN]
example := (ll_point_on_both 1e-9 (by norm_num) ⟨1, 0, -1⟩ ⟨0, 1, -2⟩).2 ⟨1, 2⟩
  (by rw [intersectLL_real]; norm_num [crossN])
example : parallel (realGeo 1e-9) ⟨3 / 5, 4 / 5, 0⟩ ⟨3 / 5, 4 / 5, 7⟩ = true :=
  (parallel_iff _ _ _).mpr (by norm_num)

-- (0,0) is on the border of the circle ((3,4),5); (3,5) is inside
example : position (realGeo 1e-9) ⟨⟨3, 4⟩, 5⟩ ⟨0, 0⟩ = Position.border :=
  (position_spec 1e-9 (by norm_num) ⟨⟨3, 4⟩, 5⟩ (by norm_num) ⟨0, 0⟩).2.2.mpr
    (by simp only [edist_345]; norm_num)

example : lineContains (realGeo 1e-9) ⟨3 / 5, 4 / 5, -5⟩ ⟨3, 4⟩ = true :=
  (contains_spec _ _ _).mpr (by norm_num)

example := line_between_spec 1e-9 ⟨0, 0⟩ ⟨3, 4⟩ (by simp only [ne_eq, Point.mk.injEq]; norm_num)

-- the executable spec on concrete fractions, and the soundness theorems applied to it
example : specKindCL ⟨⟨⟨0, 1⟩, ⟨0, 1⟩⟩, ⟨5, 1⟩⟩ ⟨⟨3, 1⟩, ⟨4, 1⟩, ⟨-25, 1⟩⟩ = some "Touch" := by decide
example := specKindCL_sound (1 / 10 ^ 9) (by norm_num) (by norm_num) ⟨⟨⟨0, 1⟩, ⟨0, 1⟩⟩, ⟨5, 1⟩⟩ ⟨⟨3, 1⟩, ⟨4, 1⟩, ⟨-25, 1⟩⟩
  ⟨⟨Nat.one_pos, Nat.one_pos⟩, Nat.one_pos⟩ ⟨Nat.one_pos, Nat.one_pos, Nat.one_pos⟩ (by norm_num [Q.val]) "Touch" (by decide)

example : specKindCC ⟨⟨⟨0, 1⟩, ⟨0, 1⟩⟩, ⟨3, 1⟩⟩ ⟨⟨⟨3, 1⟩, ⟨4, 1⟩⟩, ⟨4, 1⟩⟩ = some "Intersect" := by decide
example : specKindCC ⟨⟨⟨0, 1⟩, ⟨0, 1⟩⟩, ⟨3, 1⟩⟩ ⟨⟨⟨0, 1⟩, ⟨0, 1⟩⟩, ⟨5, 1⟩⟩ = some "None" := by decide
example := specKindCC_sound (1 / 10 ^ 9) (by norm_num) (by norm_num) ⟨⟨⟨0, 1⟩, ⟨0, 1⟩⟩, ⟨3, 1⟩⟩ ⟨⟨⟨0, 1⟩, ⟨0, 1⟩⟩, ⟨5, 1⟩⟩
  ⟨⟨Nat.one_pos, Nat.one_pos⟩, Nat.one_pos⟩ ⟨⟨Nat.one_pos, Nat.one_pos⟩, Nat.one_pos⟩
  (by norm_num [Q.val]) (by norm_num [Q.val])
  (Or.inl ((Q.isZero_iff (qDist2_val (p := ⟨⟨0, 1⟩, ⟨0, 1⟩⟩) (q := ⟨⟨0, 1⟩, ⟨0, 1⟩⟩) ⟨Nat.one_pos, Nat.one_pos⟩ ⟨Nat.one_pos, Nat.one_pos⟩).2).mp (by decide)))
  "None" (by decide)

example := specPosition_sound (1 / 10 ^ 9) (by norm_num) (by norm_num) ⟨⟨⟨3, 1⟩, ⟨4, 1⟩⟩, ⟨5, 1⟩⟩ ⟨⟨0, 1⟩, ⟨0, 1⟩⟩
  ⟨⟨Nat.one_pos, Nat.one_pos⟩, Nat.one_pos⟩ ⟨Nat.one_pos, Nat.one_pos⟩ (by norm_num [Q.val]) "Border" (by decide)

example := specContains_sound (1 / 10 ^ 9) (by norm_num) (by norm_num) ⟨⟨3, 1⟩, ⟨4, 1⟩, ⟨-25, 1⟩⟩ ⟨⟨3, 1⟩, ⟨4, 1⟩⟩
  ⟨Nat.one_pos, Nat.one_pos, Nat.one_pos⟩ ⟨Nat.one_pos, Nat.one_pos⟩ "true" (by decide)

example := specKindLL_sound (1 / 10 ^ 9) (by norm_num) (by norm_num) ⟨⟨1, 1⟩, ⟨0, 1⟩, ⟨-1, 1⟩⟩ ⟨⟨0, 1⟩, ⟨1, 1⟩, ⟨-2, 1⟩⟩
  ⟨Nat.one_pos, Nat.one_pos, Nat.one_pos⟩ ⟨Nat.one_pos, Nat.one_pos, Nat.one_pos⟩ "Some" (by decide)

-- the point (3,4) passes the exact point predicates for the circle ((0,0),5) and the line 3x + 4y = 25
example : nearCircle ⟨⟨⟨0, 1⟩, ⟨0, 1⟩⟩, ⟨5, 1⟩⟩ ⟨⟨3, 1⟩, ⟨4, 1⟩⟩ = true := by decide
example := (nearCircle_iff ⟨⟨⟨0, 1⟩, ⟨0, 1⟩⟩, ⟨5, 1⟩⟩ ⟨⟨3, 1⟩, ⟨4, 1⟩⟩ ⟨⟨Nat.one_pos, Nat.one_pos⟩, Nat.one_pos⟩
  ⟨Nat.one_pos, Nat.one_pos⟩).mp (by decide)
example := (nearLine_iff ⟨⟨3, 1⟩, ⟨4, 1⟩, ⟨-25, 1⟩⟩ ⟨⟨3, 1⟩, ⟨4, 1⟩⟩ ⟨Nat.one_pos, Nat.one_pos, Nat.one_pos⟩
  ⟨Nat.one_pos, Nat.one_pos⟩ (by norm_num [Q.val])).mp (by decide)

-- the point algebra on (3,4), (1,2), k = 2: exact observations pass the `pt` predicate, an observation off by 1e-9 does not
example := point_ops_spec 1e-9 ⟨3, 4⟩ ⟨1, 2⟩ 2
example : len (realGeo 1e-9) ⟨3, 4⟩ ^ 2 = 25 := by
  rw [(point_ops_spec 1e-9 ⟨3, 4⟩ ⟨1, 2⟩ 2).2.2.2.2.2.2.2.2.2.2, (point_ops_spec 1e-9 ⟨3, 4⟩ ⟨1, 2⟩ 2).2.2.2.2.1]; norm_num
example : ptOk ⟨⟨3, 1⟩, ⟨4, 1⟩⟩ ⟨⟨1, 1⟩, ⟨2, 1⟩⟩ ⟨2, 1⟩
    ⟨⟨⟨4, 1⟩, ⟨6, 1⟩⟩, ⟨⟨2, 1⟩, ⟨2, 1⟩⟩, ⟨⟨6, 1⟩, ⟨8, 1⟩⟩, ⟨⟨3, 2⟩, ⟨2, 1⟩⟩, ⟨25, 1⟩, ⟨5, 1⟩, ⟨11, 1⟩, ⟨2, 1⟩⟩ = true := by decide
example : ptOk ⟨⟨3, 1⟩, ⟨4, 1⟩⟩ ⟨⟨1, 1⟩, ⟨2, 1⟩⟩ ⟨2, 1⟩
    ⟨⟨⟨4, 1⟩, ⟨6, 1⟩⟩, ⟨⟨2, 1⟩, ⟨2, 1⟩⟩, ⟨⟨6, 1⟩, ⟨8, 1⟩⟩, ⟨⟨3, 2⟩, ⟨2, 1⟩⟩, ⟨25, 1⟩, ⟨5, 1⟩, ⟨11000000001, 1000000000⟩, ⟨2, 1⟩⟩ = false := by
  decide
example := (ptOk_iff 1e-9 ⟨⟨3, 1⟩, ⟨4, 1⟩⟩ ⟨⟨1, 1⟩, ⟨2, 1⟩⟩ ⟨2, 1⟩
    ⟨⟨⟨4, 1⟩, ⟨6, 1⟩⟩, ⟨⟨2, 1⟩, ⟨2, 1⟩⟩, ⟨⟨6, 1⟩, ⟨8, 1⟩⟩, ⟨⟨3, 2⟩, ⟨2, 1⟩⟩, ⟨25, 1⟩, ⟨5, 1⟩, ⟨11, 1⟩, ⟨2, 1⟩⟩
    ⟨Nat.one_pos, Nat.one_pos⟩ ⟨Nat.one_pos, Nat.one_pos⟩ Nat.one_pos
    ⟨⟨Nat.one_pos, Nat.one_pos⟩, ⟨Nat.one_pos, Nat.one_pos⟩, ⟨Nat.one_pos, Nat.one_pos⟩, ⟨Nat.two_pos, Nat.one_pos⟩,
      Nat.one_pos, Nat.one_pos, Nat.one_pos, Nat.one_pos⟩).mp (by decide)

end Rlib.C10
