import RlibModel.Props.C12
import RlibModel.Lemmas.BitsetSrc
/-
C12, second tie: theorems about the definitions REGENERATED from the Rust source text on every run.
Kept in their own module so that a source the translator cannot read (or an equivalence proof that no longer goes
through) leaves the property theorems of Props/C12.lean — and their audit — untouched; `./check` then decides
between `second tie unavailable` (translator subset; the correspondence tie still stands) and a broken obligation.
-/
namespace Rlib.C12
open Rlib Rlib.Bitset

/-! ### Second tie: the definitions regenerated from the source text of this run

`Rlib.BitsetSrc.*` (from `rlib/bitset/src/bitset.rs`) and `Rlib.BitsIterSrc.*` (from `bits_iter.rs`) are written by
`tools/rs2lean_typed.py` on every run of `./check C12`: `data : [u64; N]` is an `Array Int` with checked indexing; `x / 64`, `x % 64`,
`1u64 << k`, `>>`, `| & ^ !` are the translator's machine operations on `Int`; `count` is `SrcVec.sum` (checked `usize` additions) over
`SrcInt.countOnes` — the translator's trusted primitive for `u64::count_ones`.  `embl : List Nat → Array Int` embeds the model's words.

`src_<f>_eq_model`: the regenerated definition returns exactly what the hand-written model returns — the value or the same `index`
panic — for every word list whose entries are `u64`s (`∀ w ∈ b, w < 2^64`, the representation invariant `WF`) and every `usize`
position (`x < 2^64`), whatever `N`.  Hence the theorems of `Props/C12.lean` about `new`, `fromU64`, `set`, `remove`, `flip`, `test`,
`clear`, `count` speak about what the source text of this very run says.

TRANSLATED on every run but NOT (yet) proved equal to the model — differential tie only, see docs/notes/C12.md: the word-wise operators
`bitand/bitor/bitxor`, `bitand_assign/bitor_assign/bitxor_assign`, `not` (seven `for` loops over `iter()/iter_mut()/zip/enumerate`) and
`BitsIter::next` (the `while` loop with `trailing_zeros`).  Not translated: `iter_bits`, `Default`, `Display`/`Debug`, the derived traits. -/

open Rlib.SrcVec (embl)

theorem src_new_eq_model (fuel N : Nat) : Rlib.BitsetSrc.new fuel (N : Int) = .ok (embl (Bitset.new N)) :=
  Rlib.BitsetSrc.new_eq_model fuel N

theorem src_from_u64_eq_model (fuel N x : Nat) :
    Rlib.BitsetSrc.from_u64 fuel (N : Int) (x : Int) = (Bitset.fromU64 N x).map embl :=
  Rlib.BitsetSrc.from_u64_eq_model fuel N x

theorem src_set_eq_model (fuel : Nat) (N : Int) (b : Bits) (x : Nat) (hw : ∀ w ∈ b, w < 2 ^ 64) (hx : x < 2 ^ 64) :
    Rlib.BitsetSrc.set fuel N (embl b) (x : Int) = (Bitset.set b x).map embl :=
  Rlib.BitsetSrc.set_eq_model fuel N b x hw hx

theorem src_remove_eq_model (fuel : Nat) (N : Int) (b : Bits) (x : Nat) (hw : ∀ w ∈ b, w < 2 ^ 64) (hx : x < 2 ^ 64) :
    Rlib.BitsetSrc.remove fuel N (embl b) (x : Int) = (Bitset.remove b x).map embl :=
  Rlib.BitsetSrc.remove_eq_model fuel N b x hw hx

theorem src_flip_eq_model (fuel : Nat) (N : Int) (b : Bits) (x : Nat) (hw : ∀ w ∈ b, w < 2 ^ 64) (hx : x < 2 ^ 64) :
    Rlib.BitsetSrc.flip fuel N (embl b) (x : Int) = (Bitset.flip b x).map embl :=
  Rlib.BitsetSrc.flip_eq_model fuel N b x hw hx

theorem src_test_eq_model (fuel : Nat) (N : Int) (b : Bits) (x : Nat) (hw : ∀ w ∈ b, w < 2 ^ 64) (hx : x < 2 ^ 64) :
    Rlib.BitsetSrc.test fuel N (embl b) (x : Int) = Bitset.test b x :=
  Rlib.BitsetSrc.test_eq_model fuel N b x hw hx

theorem src_clear_eq_model (fuel : Nat) (N : Int) (b : Bits) :
    Rlib.BitsetSrc.clear fuel N (embl b) = .ok (embl (Bitset.clear b)) :=
  Rlib.BitsetSrc.clear_eq_model fuel N b

theorem src_count_eq_model (fuel : Nat) (N : Int) (b : Bits) (hw : ∀ w ∈ b, w < 2 ^ 64) :
    Rlib.BitsetSrc.count fuel N (embl b) = (Bitset.count b).map (fun (x : Nat) => (x : Int)) :=
  Rlib.BitsetSrc.count_eq_model fuel N b hw

theorem src_iter_new_eq_model (fuel : Nat) (N : Int) (d : Bits) :
    Rlib.BitsIterSrc.new fuel N (embl d) = .ok (embl d, (0 : Int)) :=
  Rlib.BitsIterSrc.new_eq_model fuel N d

/-- The property stated directly about the regenerated `set` and `test`: on a well-formed `Bitset<n>` that represents the set `m`,
    the regenerated `set x` (for `x < 64 n`) returns words on which the regenerated `test y` answers `y = x ∨ y ∈ m` for every position. -/
theorem src_set_test_spec {n : Nat} {b : Bits} {m : Spec} {x : Nat} (fuel : Nat) (N : Int) (h : Abs n b m) (hx : x < 64 * n)
    (hcap : Cap n) :
    ∃ b', Rlib.BitsetSrc.set fuel N (embl b) (x : Int) = .ok (embl b') ∧
      ∀ y, y < 64 * n → Rlib.BitsetSrc.test fuel N (embl b') (y : Int) = .ok ((m.set x).mem y) := by
  obtain ⟨b', hb', habs⟩ := test_set h hx
  have hcap' : 64 * n + 64 ≤ 2 ^ 64 := hcap
  refine ⟨b', ?_, fun y hy => ?_⟩
  · rw [src_set_eq_model fuel N b x h.1.2 (by omega), hb']; rfl
  · rw [src_test_eq_model fuel N b' y habs.1.2 (by omega)]
    exact habs.2 y hy

/-! non-vacuity: the regenerated definitions evaluated on concrete values -/
example : Rlib.BitsetSrc.set 0 2 (embl [0, 0]) 65 = .ok (embl [0, 2]) := by
  rw [show ((65 : Int)) = ((65 : Nat) : Int) from rfl, src_set_eq_model 0 2 [0, 0] 65 (by decide) (by decide)]; decide
example : Rlib.BitsetSrc.set 0 2 (embl [0, 0]) 128 = .error .index := by
  rw [show ((128 : Int)) = ((128 : Nat) : Int) from rfl, src_set_eq_model 0 2 [0, 0] 128 (by decide) (by decide)]; decide
example : Rlib.BitsetSrc.test 0 2 (embl [0, 2]) 65 = .ok true := by
  rw [show ((65 : Int)) = ((65 : Nat) : Int) from rfl, src_test_eq_model 0 2 [0, 2] 65 (by decide) (by decide)]; decide
example : Rlib.BitsetSrc.remove 0 3 (embl [7]) ((1 : Nat) : Int) = .ok (embl [5]) := by
  rw [src_remove_eq_model 0 3 [7] 1 (by decide) (by decide)]; decide
example : Rlib.BitsetSrc.flip 0 1 (embl [7]) 3 = .ok (embl [15]) := by
  rw [show ((3 : Int)) = ((3 : Nat) : Int) from rfl, src_flip_eq_model 0 1 [7] 3 (by decide) (by decide)]; decide
example : Rlib.BitsetSrc.count 0 2 (embl [7, 1]) = .ok 4 := by
  rw [src_count_eq_model 0 2 [7, 1] (by decide)]; decide
example : Rlib.BitsetSrc.from_u64 0 (2 : Nat) (5 : Nat) = .ok (embl [5, 0]) := by
  rw [src_from_u64_eq_model]; decide
example : Rlib.BitsetSrc.from_u64 0 (0 : Nat) (5 : Nat) = .error .index := by
  rw [src_from_u64_eq_model]; decide
example := src_new_eq_model 0 3
example := src_clear_eq_model 0 2 [7, 1]
example := src_iter_new_eq_model 0 2 [7, 1]
example := src_set_test_spec (n := 1) (b := Bitset.new 1) (m := Spec.empty) (x := 3) 0 1 (test_new 1) (by decide) (by unfold Cap; decide)

end Rlib.C12
