import RlibModel.Lemmas.F80
import RlibModel.Lemmas.F80Soft
import RlibModel.Lemmas.F80Round
import RlibModel.Lemmas.F80Encode
import RlibModel.Lemmas.F80Exact
import RlibModel.Lemmas.F80Prog
/-!
# C18 — f80 arithmetic correctly rounded; comparisons follow IEEE order

Property theorems only.  Model: `Model/F80Soft.lean` (formats, exact soft-float = the executable meaning of
"correctly rounded"), `Model/F80.lean` (the Rust logic on top of the x87 compare flags, and the IEEE
relations it is specified against).  Lemmas: `Lemmas/F80.lean`, `Lemmas/F80Soft.lean`.

Part 1 (all bit patterns of the ten bytes — NaNs, ±0, denormals, pseudo-denormals, ±∞ and the
unsupported encodings included): `<  >  <=  >=  partial_cmp  ==  min  max  abs` as written in
`rlib/f80/src/lib.rs` agree with the IEEE order of the operand classes.

Part 2: the executable soft-float that defines "correctly rounded" (`roundPos`, used by `add sub mul div
ofF64 toF64`) really is round-to-nearest-even: nearest / half an ulp, ties to even, monotone, exact and
idempotent on representable values, overflow exactly at `2^(emax+1)`, full precision unless subnormal; and
`f64 → f80 → f64` is the identity on every non-NaN binary64 pattern.

Part 3: the arithmetic is "the exact real result rounded once": `roundRat f z q` rounds the rational number `q`
(`roundRat_spec`: sign, within half a quantum of `q`, precision, overflow); `add_exact … div_exact`, `toF64_exact`: the
model's class-level operations are `roundRat` of the exact rational sum / difference / product / quotient / value, with
the IEEE sign of an exact zero; `*_special`: the ∞/NaN tables; `add_bits_exact …`: the same for the decoded result bytes;
`spec_add_eq …`: the independent fraction-arithmetic specification printed by the driver as `S` equals the model (`M`).

Part 4 (wave 3): programs over four live `f80` objects whose results are fed back (`Model/F80Prog.lean`): for every
step the view the driver prints of the model equals the step's specification (`prog_step_view`), significands stay below
`2^64` (`prog_step_wf`), hence for whole programs (`prog_run_view`); the provided / derived trait methods (`!=`, `Clone`,
`clone_from`, `Copy`, `Default`) are the identity / the negation they are defined to be.

What the FPU instructions themselves do (`fcomi`/`fucomi` flag outcome, `fadd` … `fstp`) is *modelled*
(by `fcomi`, `add` …) and compared with the hardware on every check; it is not verified here.
-/
namespace Rlib.C18
open Rlib.F80

/-- `a < b` (`seta` after `fcomip` with `rhs` on top of the stack) is the IEEE `<` for every pair of bit patterns. -/
theorem lt_spec (a b : F80) : lt a b = specLt a b := lt_eq a b

/-- `a > b` is the IEEE `>`. -/
theorem gt_spec (a b : F80) : gt a b = specGt a b := lt_eq b a

/-- `a <= b` is the IEEE `≤`: in particular false as soon as an operand is a NaN. -/
theorem le_spec (a b : F80) : le a b = specLe a b := by
  unfold le gt specLe Class.le
  rw [unordered_eq, lt_eq]
  have e := Class.eq_iff (classify a) (classify b)
  have n := Class.lt_not_nan (classify a) (classify b)
  have s := Class.lt_asymm (classify a) (classify b)
  cases h1 : (classify a).isNaN <;> cases h2 : (classify b).isNaN <;>
    cases h3 : (classify a).lt (classify b) <;> cases h4 : (classify b).lt (classify a) <;>
    cases h5 : (classify a).eq (classify b) <;> simp_all

/-- `a >= b` is the IEEE `≥`. -/
theorem ge_spec (a b : F80) : ge a b = specGe a b := by
  unfold ge specGe Class.le
  rw [unordered_eq, lt_eq]
  have e := Class.eq_iff (classify b) (classify a)
  have n := Class.lt_not_nan (classify b) (classify a)
  have s := Class.lt_asymm (classify b) (classify a)
  cases h1 : (classify a).isNaN <;> cases h2 : (classify b).isNaN <;>
    cases h3 : (classify a).lt (classify b) <;> cases h4 : (classify b).lt (classify a) <;>
    cases h5 : (classify b).eq (classify a) <;> simp_all

/-- `==` (the hand-written `PartialEq`) is the IEEE equality: `-0 == +0`, `NaN != NaN`. -/
theorem eq_spec (a b : F80) : beq a b = specEq a b := by
  unfold beq specEq
  rw [unordered_eq, lt_eq, lt_eq]
  have e := Class.eq_iff (classify a) (classify b)
  cases h1 : (classify a).isNaN <;> cases h2 : (classify b).isNaN <;>
    cases h3 : (classify a).lt (classify b) <;> cases h4 : (classify b).lt (classify a) <;>
    cases h5 : (classify a).eq (classify b) <;> simp_all

/-- `partial_cmp` is the IEEE partial order: `None` exactly when an operand is a NaN. -/
theorem partialCmp_spec (a b : F80) : partialCmp a b = specPcmp a b := by
  unfold partialCmp
  rw [le_spec, ge_spec]
  unfold specLe specGe specPcmp Class.pcmp Class.le
  have e := Class.eq_iff (classify a) (classify b)
  have e' := Class.eq_comm (classify a) (classify b)
  have n := Class.lt_not_nan (classify a) (classify b)
  have n' := Class.lt_not_nan (classify b) (classify a)
  have s := Class.lt_asymm (classify a) (classify b)
  cases h1 : (classify a).isNaN <;> cases h2 : (classify b).isNaN <;>
    cases h3 : (classify a).lt (classify b) <;> cases h4 : (classify b).lt (classify a) <;>
    cases h5 : (classify a).eq (classify b) <;> cases h6 : (classify b).eq (classify a) <;> simp_all

/-- `==` is consistent with `partial_cmp`. -/
theorem eq_consistent (a b : F80) : beq a b = true ↔ partialCmp a b = some .eq := by
  rw [eq_spec, partialCmp_spec]
  unfold specEq specPcmp Class.pcmp
  have e := Class.eq_iff (classify a) (classify b)
  cases h1 : (classify a).isNaN <;> cases h2 : (classify b).isNaN <;>
    cases h3 : (classify a).lt (classify b) <;> cases h4 : (classify b).lt (classify a) <;>
    cases h5 : (classify a).eq (classify b) <;> simp_all

/-- `partial_cmp` returns `None` exactly on NaN operands (so `<=`/`>=` cannot both be taken for NaN). -/
theorem partialCmp_none_iff (a b : F80) : partialCmp a b = none ↔ (isNaN a = true ∨ isNaN b = true) := by
  rw [partialCmp_spec]
  unfold specPcmp Class.pcmp isNaN
  cases h1 : classify a <;> cases h2 : classify b <;> simp [Class.isNaN] <;> (repeat' split) <;> simp_all

/-- `min` (fucomi + fcmovnbe) on non-NaN operands returns one of the two operands, and it is IEEE-≤ both
    (for two zeros of different sign either may be returned: they are equal as values). -/
theorem min_spec (a b : F80) (ha : isNaN a = false) (hb : isNaN b = false) :
    (min a b = a ∨ min a b = b) ∧ specLe (min a b) a = true ∧ specLe (min a b) b = true := by
  rw [isNaN_iff] at ha hb
  rw [min_eq]
  unfold specLe
  cases h : (classify a).lt (classify b)
  · rw [if_neg (by simp)]
    exact ⟨Or.inr rfl, Class.le_of_not_lt _ _ ha hb h, Class.le_refl _ hb⟩
  · rw [if_pos rfl]
    exact ⟨Or.inl rfl, Class.le_refl _ ha, by simp [Class.le, h]⟩

/-- `max` (fucomi + fcmovbe) on non-NaN operands returns one of the two operands, and both are IEEE-≤ it. -/
theorem max_spec (a b : F80) (ha : isNaN a = false) (hb : isNaN b = false) :
    (max a b = a ∨ max a b = b) ∧ specLe a (max a b) = true ∧ specLe b (max a b) = true := by
  rw [isNaN_iff] at ha hb
  rw [max_eq]
  unfold specLe
  cases h : (classify a).lt (classify b)
  · rw [if_neg (by simp)]
    exact ⟨Or.inl rfl, Class.le_refl _ ha, Class.le_of_not_lt _ _ ha hb h⟩
  · rw [if_pos rfl]
    exact ⟨Or.inr rfl, by simp [Class.le, h], Class.le_refl _ hb⟩

/-- What the x87 selection does when an operand is a NaN (the property leaves it open; recorded so that a change
    is noticed): `min` returns `rhs`, `max` returns `self`. -/
theorem min_max_nan (a b : F80) (h : isNaN a = true ∨ isNaN b = true) : min a b = b ∧ max a b = a := by
  rw [min_eq, max_eq]
  have : (classify a).lt (classify b) = false := by
    rw [isNaN_iff, isNaN_iff] at h
    cases h1 : classify a <;> cases h2 : classify b <;> simp_all [Class.lt, Class.isNaN]
  simp [this]

/-- `abs` (`if self < 0 { -self } else { self }`) on a non-NaN operand: the result is `self` or `-self`, its
    value is the magnitude (IEEE-equal to the operand with the sign bit cleared) and it is not below zero.
    (As bits `abs(-0.0)` stays `-0.0`: `-0.0 < 0.0` is false; as a value that is zero.) -/
theorem abs_spec (a : F80) (ha : isNaN a = false) :
    (abs a = a ∨ abs a = neg a) ∧ specEq (abs a) (specAbs a) = true ∧ specLt (abs a) zero = false := by
  rw [isNaN_iff] at ha
  refine ⟨?_, ?_⟩
  · rw [abs_eq]
    cases (classify a).lt (classify zero)
    · exact Or.inl (if_neg (by simp))
    · exact Or.inr (if_pos rfl)
  · unfold specEq specLt
    rw [classify_specAbs, classify_abs, classify_zero]
    exact Class.abs_ok (classify a) ha _

/-- What `./check` compares for `min` (result seen as a value: both zeros alike, a pseudo-denormal like the denormal
    of the same value) is the IEEE-smaller operand `specMin`. -/
theorem min_view (a b : F80) (wa : a.sig < 2 ^ 64) (wb : b.sig < 2 ^ 64) (ha : isNaN a = false) (hb : isNaN b = false) :
    canonBits (min a b) = canonBits (specMin a b) := by
  rw [isNaN_iff] at ha hb
  exact min_view_core a b wa wb ha hb

/-- `max` returns exactly the executable specification `specMax` (the IEEE-larger operand, `self` on a tie). -/
theorem max_view (a b : F80) : max a b = specMax a b := max_view_core a b

/-- What `./check` compares for `abs`: as a value the result is the operand with the sign cleared. -/
theorem abs_view (a : F80) (wa : a.sig < 2 ^ 64) (ha : isNaN a = false) :
    canonBits (Rlib.F80.abs a) = canonBits (specAbs a) := by
  have h := (abs_spec a ha).2.1
  unfold specEq at h
  exact canonBits_eq_of_eq _ _ (by rw [abs_sig]; exact wa) wa h

/-- `abs` leaves a NaN as it is. -/
theorem abs_nan (a : F80) (ha : isNaN a = true) : abs a = a := by
  rw [abs_eq]
  rw [isNaN_iff] at ha
  cases hc : classify a <;> simp_all [Class.lt, Class.isNaN]

/-! ## Part 2 — the soft-float specification -/

/-- For finite operands the modelled `<` is the order of the rational numbers the bit patterns denote. -/
theorem lt_value (a b : F80) (x y : Dy) (ha : classify a = .fin x) (hb : classify b = .fin y) :
    lt a b = true ↔ x.toQ < y.toQ := by
  rw [lt_spec, specLt, ha, hb]
  exact Dy.lt_iff_toQ x y

/-- For finite operands the modelled `==` is equality of the denoted rational numbers (so `-0 == +0`). -/
theorem eq_value (a b : F80) (x y : Dy) (ha : classify a = .fin x) (hb : classify b = .fin y) :
    beq a b = true ↔ x.toQ = y.toQ := by
  rw [eq_spec, specEq, ha, hb]
  exact Dy.veq_iff_toQ x y

/-- `f64 → f80 → f64` is the identity on every non-NaN binary64 pattern (fields in range). -/
theorem f64_roundtrip (x : F64) (hE : x.exp ≤ 2047) (hF : x.frac < two52) (hn : isNaN64 x = false) :
    toF64 (ofF64 x) = x := f64_roundtrip_core x hE hF hn

/-- The same on 64-bit words. -/
theorem f64_roundtrip_bits (n : Nat) (h : n < 2 ^ 64) (hn : isNaN64 (F64.ofNat n) = false) :
    (toF64 (ofF64 (F64.ofNat n))).toNat = n := by
  rw [f64_roundtrip _ (F64_ofNat_wf n).1 (F64_ofNat_wf n).2 hn, F64_toNat_ofNat n h]

/-- `rne a b` is a nearest integer to `a/b`: no integer `z` is closer. -/
theorem round_nearest (a b : Nat) (hb : 0 < b) (z : Int) :
    ((a : Int) - b * (rne a b : Nat)).natAbs ≤ ((a : Int) - b * z).natAbs := rne_nearest a b hb z

/-- Half an ulp: a finite result `r * 2^k` of rounding `n/d * 2^e` differs from it by at most `2^k / 2`,
    where `2^k` is the quantum of the binade of the exact value (`k = max(⌊log2 v⌋ - (p-1), qmin)`). -/
theorem round_half_ulp (f : Fmt) (n d : Nat) (e : Int) (hd : 0 < d) (r : Nat) (k : Int)
    (h : roundPos f n d e = .fin r k) :
    |valQ n d e - r * 2 ^ k| ≤ 2 ^ k / 2 ∧ k = quantum f (ilog2q n d e) := by
  obtain ⟨hv, hk⟩ := roundPos_fin f n d e r k h
  refine ⟨?_, hk⟩
  have := roundVal_half_ulp f n d e hd
  rw [hv, ← hk] at this
  exact this

/-- `ilog2q` used to pick the binade is the floor of the binary logarithm of the exact value. -/
theorem round_binade (n d : Nat) (e : Int) (hn : 0 < n) (hd : 0 < d) :
    (2 : ℚ) ^ (ilog2q n d e) ≤ valQ n d e ∧ valQ n d e < 2 ^ (ilog2q n d e + 1) := ilog2q_spec n d e hn hd

/-- Precision: the result has at most `p` significant bits (`r ≤ 2^p`, with `r = 2^p` only when the rounding
    carried into the next binade) and at least `p` unless it is subnormal (`k = qmin`). -/
theorem round_precision (f : Fmt) (n d : Nat) (e : Int) (hn : 0 < n) (hd : 0 < d) (hp : 1 ≤ f.p) (r : Nat) (k : Int)
    (h : roundPos f n d e = .fin r k) : r ≤ 2 ^ f.p ∧ f.qmin ≤ k ∧ (f.qmin < k → 2 ^ (f.p - 1) ≤ r) := by
  have hu := roundPos_unfold f n d e
  rw [h] at hu
  split at hu
  · cases hu
  · injection hu with h1 h2
    obtain ⟨a, b⟩ := roundVal_normal f n d e hn hd hp
    subst h1 h2
    exact ⟨a, by unfold quantum; omega, b⟩

/-- Overflow to ∞ happens exactly when the value rounded with unbounded exponent reaches `2^(emax+1)`. -/
theorem round_overflow_iff (f : Fmt) (n d : Nat) (e : Int) (hn : 0 < n) (hd : 0 < d) (hp : 1 ≤ f.p) (hq : f.qmin ≤ f.emax) :
    roundPos f n d e = .ovf ↔ (2 : ℚ) ^ (f.emax + 1) ≤ roundVal f n d e := roundPos_ovf_iff f n d e hn hd hp hq

/-- Rounding is monotone: a larger exact value never gets a smaller result (∞ counts as the largest). -/
theorem round_mono (f : Fmt) (n d n' d' : Nat) (e e' : Int) (hn : 0 < n) (hd : 0 < d) (hn' : 0 < n') (hd' : 0 < d')
    (hp : 1 ≤ f.p) (hq : f.qmin ≤ f.emax) (h : valQ n d e ≤ valQ n' d' e') :
    Rounded.le (roundPos f n d e) (roundPos f n' d' e') := roundPos_mono f n d n' d' e e' hn hd hn' hd' hp hq h

/-- Representable values are fixed points: `m * 2^j` with `m < 2^p`, `j ≥ qmin` rounds to itself. -/
theorem round_exact (f : Fmt) (m : Nat) (j : Int) (hm : 0 < m) (hmp : m < 2 ^ f.p) (hj : f.qmin ≤ j) :
    roundVal f m 1 j = m * 2 ^ j := roundVal_exact f m j hm hmp hj

/-- Rounding is idempotent: rounding a (non-carry) result again gives the same value. -/
theorem round_idempotent (f : Fmt) (n d : Nat) (e : Int) (r : Nat) (k : Int)
    (h : roundPos f n d e = .fin r k) (hr : 0 < r) (hrp : r < 2 ^ f.p) :
    roundVal f r 1 k = roundVal f n d e := roundPos_idem f n d e r k h hr hrp

/-- Ties to even: if the exact value is exactly halfway between `z * 2^k` and `(z+1) * 2^k`, the result's
    integer significand is even. -/
theorem round_ties_even (f : Fmt) (n d : Nat) (e : Int) (hd : 0 < d) (r : Nat) (k : Int) (z : Nat)
    (h : roundPos f n d e = .fin r k) (hv : valQ n d e = ((z : ℚ) + 1 / 2) * 2 ^ k) : r % 2 = 0 :=
  roundPos_tie_even f n d e hd r k z h hv

/-- `+` of the soft-float: decoding the ten result bytes gives (same class, sign and exact value) the exact sum of
    the decoded operands rounded once to 64 bits — with the IEEE special cases (`∞ - ∞ = NaN`, signs of zero). -/
theorem add_correct (a b : F80) : Class.same (classify (add a b)) (addC fmt80 (classify a) (classify b)) := add_decode a b
theorem sub_correct (a b : F80) : Class.same (classify (sub a b)) (subC fmt80 (classify a) (classify b)) := sub_decode a b
theorem mul_correct (a b : F80) : Class.same (classify (mul a b)) (mulC fmt80 (classify a) (classify b)) := mul_decode a b
theorem div_correct (a b : F80) : Class.same (classify (div a b)) (divC fmt80 (classify a) (classify b)) := div_decode a b
/-- negation is exact on every class -/
theorem neg_correct (a : F80) : classify (neg a) = negC (classify a) := classify_neg a
/-- f80 → f64 is the operand rounded once to binary64 (53 bits, gradual underflow, overflow to ∞). -/
theorem toF64_correct (a : F80) : Class.same (classify64 (toF64 a)) (roundClass fmt64 (classify a)) := toF64_decode a
/-- f64 → f80 is exact for every binary64 pattern. -/
theorem ofF64_exact (x : F64) (hE : x.exp ≤ 2047) (hF : x.frac < two52) :
    Class.same (classify (ofF64 x)) (classify64 x) := ofF64_decode x hE hF

/-! ## Part 3 — the arithmetic is the exact rational result, rounded once -/

/-- What "`q` correctly rounded to format `f`" (`roundRat`) is, for `q ≠ 0`: never NaN; a finite result has the sign of
    `q`, differs from `q` by at most half the quantum of `q`'s binade, has at most `p` significant bits (exactly `p` unless
    subnormal); it is `±∞` exactly when the nearest-even value with unbounded exponent reaches `2^(emax+1)`.
    (Ties-to-even, monotonicity, idempotence: `round_ties_even`, `round_mono`, `round_idempotent` above — `roundRat` calls
    the same `roundPos`, and `roundPos_congr` shows the result does not depend on how `q` is written.) -/
theorem roundRat_correct (f : Fmt) (z : Bool) (q : ℚ) (hq : q ≠ 0) (hp : 1 ≤ f.p) (hqm : f.qmin ≤ f.emax) :
    match roundRat f z q with
    | .nan => False
    | .inf s => s = decide (q < 0) ∧ (2 : ℚ) ^ (f.emax + 1) ≤ roundVal f q.num.natAbs q.den 0
    | .fin d => d.neg = decide (q < 0) ∧ |q - d.toQ| ≤ 2 ^ d.e / 2 ∧
        d.e = quantum f (ilog2q q.num.natAbs q.den 0) ∧ d.m ≤ 2 ^ f.p ∧ (f.qmin < d.e → 2 ^ (f.p - 1) ≤ d.m) :=
  roundRat_spec f z q hq hp hqm

/-- An exact zero result is a zero with the sign the operation prescribes. -/
theorem roundRat_of_zero (f : Fmt) (z : Bool) : roundRat f z 0 = .fin ⟨z, 0, 0⟩ := roundRat_zero f z

/-- The rounding does not depend on the representation `n/d * 2^e` of the value. -/
theorem round_value_only (f : Fmt) (n d n' d' : Nat) (e e' : Int) (hn : 0 < n) (hd : 0 < d) (hn' : 0 < n') (hd' : 0 < d')
    (h : valQ n d e = valQ n' d' e') : roundPos f n d e = roundPos f n' d' e' := roundPos_congr f n d n' d' e e' hn hd hn' hd' h

/-- Finite + finite: the exact rational sum rounded once; an exact zero sum is `-0` only if both operands are negative. -/
theorem add_exact (f : Fmt) (x y : Dy) : addC f (.fin x) (.fin y) = roundRat f (x.neg && y.neg) (x.toQ + y.toQ) := addC_exact f x y
/-- Finite − finite: the exact rational difference rounded once (`x - x = +0`, `-0 - +0 = -0`). -/
theorem sub_exact (f : Fmt) (x y : Dy) : subC f (.fin x) (.fin y) = roundRat f (x.neg && !y.neg) (x.toQ - y.toQ) := subC_exact f x y
/-- Finite × finite: the exact rational product rounded once; sign (also of a zero) = xor of the signs. -/
theorem mul_exact (f : Fmt) (x y : Dy) : mulC f (.fin x) (.fin y) = roundRat f (x.neg != y.neg) (x.toQ * y.toQ) := mulC_exact f x y
/-- Finite ÷ finite non-zero: the exact rational quotient rounded once; sign (also of a zero) = xor of the signs. -/
theorem div_exact (f : Fmt) (x y : Dy) (hy : y.m ≠ 0) :
    divC f (.fin x) (.fin y) = roundRat f (x.neg != y.neg) (x.toQ / y.toQ) := divC_exact f x y hy
/-- Conversion to a narrower format (f80 → f64): the operand's value rounded once, a zero keeps its sign. -/
theorem toF64_exact (f : Fmt) (x : Dy) : roundClass f (.fin x) = roundRat f x.neg x.toQ := roundClass_exact f x

/-- The special-value table of `+` (IEEE 754 / x87 with masked exceptions). -/
theorem add_special (f : Fmt) (a b : Class) (s t : Bool) (x : Dy) :
    addC f .nan b = .nan ∧ addC f a .nan = .nan ∧
    addC f (.inf s) (.inf s) = .inf s ∧ addC f (.inf s) (.inf (!s)) = .nan ∧
    addC f (.inf s) (.fin x) = .inf s ∧ addC f (.fin x) (.inf t) = .inf t := by
  refine ⟨by cases b <;> rfl, by cases a <;> rfl, by simp [addC], by cases s <;> simp [addC], rfl, rfl⟩

/-- The special-value table of `*`: `0 × ∞` is invalid. -/
theorem mul_special (f : Fmt) (a b : Class) (s t : Bool) (x : Dy) :
    mulC f .nan b = .nan ∧ mulC f a .nan = .nan ∧ mulC f (.inf s) (.inf t) = .inf (s != t) ∧
    mulC f (.inf s) (.fin x) = (if x.m = 0 then .nan else .inf (s != x.neg)) ∧
    mulC f (.fin x) (.inf t) = (if x.m = 0 then .nan else .inf (x.neg != t)) := by
  refine ⟨by cases b <;> rfl, by cases a <;> rfl, rfl, rfl, rfl⟩

/-- The special-value table of `/`: `∞/∞` and `0/0` are invalid, `x/0 = ±∞`, `x/∞ = ±0`, `∞/x = ±∞`. -/
theorem div_special (f : Fmt) (a b : Class) (s t : Bool) (x y : Dy) (hy : y.m = 0) :
    divC f .nan b = .nan ∧ divC f a .nan = .nan ∧ divC f (.inf s) (.inf t) = .nan ∧
    divC f (.inf s) (.fin x) = .inf (s != x.neg) ∧ divC f (.fin x) (.inf t) = .fin ⟨x.neg != t, 0, 0⟩ ∧
    divC f (.fin x) (.fin y) = (if x.m = 0 then .nan else .inf (x.neg != y.neg)) := by
  refine ⟨by cases b <;> rfl, by cases a <;> rfl, rfl, rfl, rfl, by simp [divC, hy]⟩

/-- Bits: for finite operands, decoding the ten result bytes of `a + b` gives (same class, sign, value) the exact rational
    sum of the operands' values rounded once to the x87 format — overflow to ±∞, gradual underflow and the sign of an exact
    zero included.  Likewise `-`, `*`, `/` and the conversion to binary64. -/
theorem add_bits_exact (a b : F80) (x y : Dy) (ha : classify a = .fin x) (hb : classify b = .fin y) :
    Class.same (classify (add a b)) (roundRat fmt80 (x.neg && y.neg) (x.toQ + y.toQ)) := by
  have h := add_correct a b; rwa [ha, hb, add_exact] at h
theorem sub_bits_exact (a b : F80) (x y : Dy) (ha : classify a = .fin x) (hb : classify b = .fin y) :
    Class.same (classify (sub a b)) (roundRat fmt80 (x.neg && !y.neg) (x.toQ - y.toQ)) := by
  have h := sub_correct a b; rwa [ha, hb, sub_exact] at h
theorem mul_bits_exact (a b : F80) (x y : Dy) (ha : classify a = .fin x) (hb : classify b = .fin y) :
    Class.same (classify (mul a b)) (roundRat fmt80 (x.neg != y.neg) (x.toQ * y.toQ)) := by
  have h := mul_correct a b; rwa [ha, hb, mul_exact] at h
theorem div_bits_exact (a b : F80) (x y : Dy) (ha : classify a = .fin x) (hb : classify b = .fin y) (hy : y.m ≠ 0) :
    Class.same (classify (div a b)) (roundRat fmt80 (x.neg != y.neg) (x.toQ / y.toQ)) := by
  have h := div_correct a b; rwa [ha, hb, div_exact _ _ _ hy] at h
theorem toF64_bits_exact (a : F80) (x : Dy) (ha : classify a = .fin x) :
    Class.same (classify64 (toF64 a)) (roundRat fmt64 x.neg x.toQ) := by
  have h := toF64_correct a; rwa [ha, toF64_exact] at h

/-- The driver's `S` for arithmetic — ordinary fraction arithmetic on the decoded operands, one call of the specification
    rounding (`Model/F80Exact.lean`) — equals its `M`, the bit-level model, for every pair of bit patterns. -/
theorem spec_add_eq (a b : F80) : specAdd a b = add a b := by unfold specAdd add; rw [specAddC_eq]
theorem spec_sub_eq (a b : F80) : specSub a b = sub a b := by unfold specSub sub; rw [specSubC_eq]
theorem spec_mul_eq (a b : F80) : specMul a b = mul a b := by unfold specMul mul; rw [specMulC_eq]
theorem spec_div_eq (a b : F80) : specDiv a b = div a b := by unfold specDiv div; rw [specDivC_eq]
theorem spec_toF64_eq (a : F80) : specToF64 a = toF64 a := by unfold specToF64 toF64; rw [specRoundClass_eq]
theorem spec_ofF64_eq (x : F64) : specOfF64 x = ofF64 x := by unfold specOfF64 ofF64; rw [specRoundClass_eq]

/-- NaN half of the f64 round trip: a NaN stays a NaN (the model, like the comparison of results, does not track NaN
    payloads or the quieting of a signalling NaN; "identity" for NaN means NaN-ness). -/
theorem f64_roundtrip_nan (x : F64) (hn : isNaN64 x = true) : isNaN64 (toF64 (ofF64 x)) = true := by
  have hc : classify64 x = .nan := by
    unfold isNaN64 at hn
    cases h : classify64 x <;> simp_all
  unfold toF64 ofF64
  rw [hc]
  decide


/-! ## Part 4 — programs over several live objects, results fed back (wave 3) -/

theorem binop_spec_eq (o : BinOp) (a b : F80) : o.spec a b = o.model a b := by
  cases o
  · exact spec_add_eq a b
  · exact spec_sub_eq a b
  · exact spec_mul_eq a b
  · exact spec_div_eq a b

/-- One step of a register program: the view of the model's step (what `./check` compares with the implementation's view)
    is the specification of that step - exact fraction arithmetic rounded once for `+ - * /` and their `op=` forms, the sign
    flip for `-x`, `specAbs / specMin / specMax` as values, the correctly rounded `f64` and its exact widening for the round
    trip, the IEEE relations on the operand classes (also when both operands are the same object), the identity for
    `Copy / clone / clone_from`, the literals for `ZERO / ONE / default`, nothing for a repeated `f80_init()`. -/
theorem prog_step_view (R : Regs) (op : Op) (h : R.wf) : (stepM R op).view = stepS R op := by
  cases op with
  | bin o d a b => simp only [stepM, stepS, binop_spec_eq]
  | asg o d b => simp only [stepM, stepS, binop_spec_eq]
  | neg d a => rfl
  | abs d a =>
    simp only [stepM, stepS]
    congr 2
    cases hn : (classify (R a).v).isNaN
    · exact abs_view _ (h a) (by rw [isNaN_iff]; exact hn)
    · exact abs_view_nan _ hn
  | min d a b =>
    simp only [stepM, stepS]
    cases hl : ((R a).loose || (R b).loose || isNaN (R a).v || isNaN (R b).v)
    · simp only [Bool.or_eq_false_iff] at hl
      simp only [hide, Bool.false_eq_true, if_false]
      rw [min_view _ _ (h a) (h b) hl.1.2 hl.2]
    · rfl
  | max d a b => simp only [stepM, stepS, max_view]
  | rt d a => simp only [stepM, stepS, spec_toF64_eq, spec_ofF64_eq]
  | cmp a b =>
    simp only [stepM, stepS, lt_spec, gt_spec, le_spec, ge_spec, eq_spec, partialCmp_spec, Rlib.F80.bne]
  | copy d a => rfl
  | const d o => cases o <;> rfl
  | init => rfl

/-- every register keeps a significand below `2^64` (so `canonBits` stays faithful along the program) -/
theorem prog_step_wf (R : Regs) (op : Op) (h : R.wf) : (stepM R op).regs.wf := by
  cases op with
  | bin o d a b => exact Regs.set_wf R h _ _ (BinOp.model_sig_lt _ _ _)
  | asg o d b => exact Regs.set_wf R h _ _ (BinOp.model_sig_lt _ _ _)
  | neg d a => exact Regs.set_wf R h _ _ (h a)
  | abs d a => exact Regs.set_wf R h _ _ (by show (Rlib.F80.abs (R a).v).sig < 2 ^ 64; rw [abs_sig]; exact h a)
  | min d a b => exact Regs.set_wf R h _ _ (min_sig_lt _ _ (h a) (h b))
  | max d a b => exact Regs.set_wf R h _ _ (max_sig_lt _ _ (h a) (h b))
  | rt d a => exact Regs.set_wf R h _ _ (ofF64_sig_lt _)
  | cmp a b => exact h
  | copy d a => exact Regs.set_wf R h _ _ (h a)
  | const d o => exact Regs.set_wf R h _ _ (by cases o <;> decide)
  | init => exact h

/-- whole programs: the list of views the driver prints as `V` equals the list it prints as `S` -/
theorem prog_run_view (ops : List Op) (R : Regs) (h : R.wf) : (runM R ops).map (·.2) = runS R ops := by
  induction ops generalizing R with
  | nil => rfl
  | cons op rest ih =>
    simp only [runM, runS, List.map_cons]
    rw [prog_step_view R op h, ih _ (prog_step_wf R op h)]

/-- the registers the driver starts from (parsed tokens) are well formed -/
theorem prog_init_wf (a b c d : Nat) :
    (Regs.ofList (F80.ofNat a) (F80.ofNat b) (F80.ofNat c) (F80.ofNat d)).wf := by
  intro i
  match i with
  | 0 => exact ofNat_sig_lt a
  | 1 => exact ofNat_sig_lt b
  | 2 => exact ofNat_sig_lt c
  | 3 => exact ofNat_sig_lt d

/-- `!=` is the provided method: the negation of `==`, hence `true` exactly when IEEE-unequal or unordered -/
theorem ne_spec (a b : F80) : Rlib.F80.bne a b = !specEq a b := by
  unfold Rlib.F80.bne; rw [eq_spec]

/-! non-vacuity / the former counterexamples (F7), evaluated on the model -/
-- NaN <= 1.0 is false, partial_cmp(NaN, 1.0) = None
example : le ⟨false, 0x7FFF, 0xC000000000000000⟩ one = false := by decide
example : partialCmp ⟨false, 0x7FFF, 0xC000000000000000⟩ one = none := by decide
-- -0.0 == 0.0, NaN != NaN
example : beq ⟨true, 0, 0⟩ zero = true := by decide
example : beq ⟨false, 0x7FFF, 0xC000000000000000⟩ ⟨false, 0x7FFF, 0xC000000000000000⟩ = false := by decide
example : lt zero one = true ∧ gt one zero = true ∧ ge one one = true := by decide
-- min/max/abs: hypotheses are satisfiable, and the results are the expected operands
example : isNaN zero = false ∧ isNaN one = false ∧ min one zero = zero ∧ max zero one = one := by decide
example : Rlib.F80.abs (neg one) = one ∧ Rlib.F80.abs ⟨true, 0, 0⟩ = ⟨true, 0, 0⟩ := by decide
example : min ⟨false, 0x7FFF, 0xC000000000000000⟩ one = one ∧ max ⟨false, 0x7FFF, 0xC000000000000000⟩ one ≠ one := by decide

-- f64 round trip: the hypotheses hold for 0.1, the smallest subnormal, -∞; the conversion is not a constant
example : isNaN64 (F64.ofNat 0x3FB999999999999A) = false ∧ ofF64 (F64.ofNat 0x3FB999999999999A) = ⟨false, 0x3FFB, 0xCCCCCCCCCCCCD000⟩ := by decide
example : toF64 (ofF64 (F64.ofNat 1)) = F64.ofNat 1 ∧ ofF64 (F64.ofNat 1) = ⟨false, 0x3BCD, two63⟩ := by decide
-- rounding: 1/3 to 64 bits is 0xAAAAAAAAAAAAAAAB * 2^-65 (a finite, non-carry result: hypotheses of round_half_ulp /
-- round_precision / round_idempotent are satisfiable); 2^64 - 1/2 ... ties and carries occur
example : roundPos fmt80 1 3 0 = .fin 0xAAAAAAAAAAAAAAAB (-65) := by decide
example : roundPos fmt64 1 10 0 = .fin 0x1999999999999A (-56) := by decide
-- a tie: 2^53 + 1 at 53 bits is halfway between 2^53 and 2^53 + 2 and goes to the even significand
example : roundPos fmt64 9007199254740993 1 0 = .fin 4503599627370496 1 := by decide
-- overflow and gradual underflow
example : roundPos fmt64 1 1 1024 = .ovf ∧ roundPos fmt64 3 1 (-1076) = .fin 1 (-1074) ∧ roundPos fmt64 1 1 (-1075) = .fin 0 (-1074) := by decide

-- exact arithmetic: 1/3 (inexact, nonzero quotient: hypotheses of div_exact / roundRat_correct are satisfiable),
-- 2^16383 * 2 overflows to +∞, smallest denormal / 2 underflows to +0 (tie to even), (-1) + 1 = +0, (-0) + (-0) = -0
example : div one ⟨false, 0x4000, 0xC000000000000000⟩ = ⟨false, 0x3FFD, 0xAAAAAAAAAAAAAAAB⟩ := by decide
example : mul ⟨false, 0x7FFE, two63⟩ ⟨false, 0x4000, two63⟩ = ⟨false, 0x7FFF, two63⟩ := by decide
example : mul ⟨false, 0, 1⟩ ⟨false, 0x3FFE, two63⟩ = ⟨false, 0, 0⟩ ∧ mul ⟨false, 0, 3⟩ ⟨false, 0x3FFE, two63⟩ = ⟨false, 0, 2⟩ := by decide
example : add (neg one) one = ⟨false, 0, 0⟩ ∧ add ⟨true, 0, 0⟩ ⟨true, 0, 0⟩ = ⟨true, 0, 0⟩ ∧ sub ⟨true, 0, 0⟩ zero = ⟨true, 0, 0⟩ := by decide
example : specDiv one ⟨false, 0x4000, 0xC000000000000000⟩ = ⟨false, 0x3FFD, 0xAAAAAAAAAAAAAAAB⟩ := by decide

-- programs: r0 = 1, r1 = 3: r2 = r0 / r1; r2 *= r1 gives 1 again; abs(-0) stays -0 and is loose, so 1 / abs(-0) is hidden;
-- a NaN compared with itself (same object) is unordered and `!=`
example : (runM (Regs.ofList one ⟨false, 0x4000, 0xC000000000000000⟩ ⟨true, 0, 0⟩ ⟨false, 0x7FFF, 0xC000000000000000⟩)
    [.bin .div 2 0 1, .asg .mul 2 1, .cmp 2 0]).map (·.2)
  = [.bits ⟨false, 0x3FFD, 0xAAAAAAAAAAAAAAAB⟩, .bits one, .rel false false true true true false (some .eq)] := by decide
example : (runM (Regs.ofList one one ⟨true, 0, 0⟩ ⟨false, 0x7FFF, 0xC000000000000000⟩)
    [.abs 1 2, .bin .div 0 0 1, .cmp 3 3]).map (·.2)
  = [.value (some 0), .hidden, .rel false false false false false true none] := by decide
example : (Regs.ofList one one zero zero).wf := by intro i; match i with | 0 | 1 | 2 | 3 => decide

end Rlib.C18
