import RlibModel.Lemmas.SegtreeHistory
import RlibModel.Lemmas.SegtreeItems
/-!
# C02 — segment-tree boundary search returns the exact first / last satisfying index

Property theorems only.  `lb` / `lbr` (`Model/Segtree.lean`) mirror `lower_bound_internal` /
`lower_bound_rev_internal` and additionally log every value the predicate is applied to.
`Spec.first I xs l f` tries every `r = l, l+1, …` in turn on the plain list and returns the first one with
`f (aggregate of [l, r])`; `Spec.last` is the mirror image.

Assumptions on the predicate, exactly those of the property: it only looks at the observable value
(`f x = g (I.val x)`) and it is monotone along the ranges it is asked about (`MonoFwd` / `MonoBwd`: once true it
stays true when *this* range grows — nothing is required of values that do not occur).
-/
namespace Rlib.C02
open Rlib.Segtree
variable {T M A : Type}

/-! ## the internal searches on a well-formed tree of any size, with an arbitrary carried aggregate -/

/-- `lower_bound_internal`: answer *and* carried aggregate equal the left-to-right linear scan over the logical
    contents of `[l, vr]`; the pushes change neither contents nor well-formedness nor shape; every probe is the
    carried aggregate merged with a range `[l, k]`. -/
theorem lowerBound_internal_spec (I : Item T M A) (L : Lawful I) (f : T → Bool) (g : A → Bool)
    (hf : ∀ x, f x = g (I.val x)) (t : Tree T) (item : T) (l vl vr : Nat) (hwf : WF I t) (hs : Shaped t vl vr)
    (h1 : vl ≤ l) (h2 : l ≤ vr)
    (hm : MonoOn I.op g (I.val item) (slice (den I t) (l - vl) (vr + 1 - vl))) :
    (I.val (lb I t item f l vl vr).carry, (lb I t item f l vl vr).res) =
        scan I g (I.val item) (slice (den I t) (l - vl) (vr + 1 - vl)) l ∧
    den I (lb I t item f l vl vr).tree = den I t ∧ WF I (lb I t item f l vl vr).tree ∧
    Shaped (lb I t item f l vl vr).tree vl vr ∧
    LogOK I (den I t) (I.val item) l vl vr (lb I t item f l vl vr).log :=
  lb_spec I L f g hf t item l vl vr hwf hs h1 h2 hm

/-- mirror image for `lower_bound_rev_internal` (the scan runs right to left, the node is merged on the left). -/
theorem lowerBoundRev_internal_spec (I : Item T M A) (L : Lawful I) (f : T → Bool) (g : A → Bool)
    (hf : ∀ x, f x = g (I.val x)) (t : Tree T) (item : T) (r vl vr : Nat) (hwf : WF I t) (hs : Shaped t vl vr)
    (h1 : vl ≤ r) (h2 : r ≤ vr)
    (hm : MonoOn (fun c a => I.op a c) g (I.val item) (slice (den I t) 0 (r + 1 - vl)).reverse) :
    (I.val (lbr I t item f r vl vr).carry, (lbr I t item f r vl vr).res) =
        scanR I g (I.val item) (slice (den I t) 0 (r + 1 - vl)).reverse r ∧
    den I (lbr I t item f r vl vr).tree = den I t ∧ WF I (lbr I t item f r vl vr).tree ∧
    Shaped (lbr I t item f r vl vr).tree vl vr ∧
    LogOKR I (den I t) (I.val item) r vl (lbr I t item f r vl vr).log :=
  lbr_spec I L f g hf t item r vl vr hwf hs h1 h2 hm

/-! ## the public searches against the plain list -/

/-- `lower_bound(l, f)` on a tree that represents `xs` (after any history): the answer is the specification's
    first satisfying index; the tree still represents `xs`. -/
theorem lowerBound_spec (I : Item T M A) (L : Lawful I) (s : Seg T) (xs : List T) (hI : Inv I s xs)
    (l : Nat) (f : T → Bool) (g : A → Bool) (hf : ∀ x, f x = g (I.val x)) (hl : l < xs.length)
    (hm : MonoFwd I xs l f) :
    (s.lowerBound I l f).1 = Spec.first I xs l f ∧ Inv I (s.lowerBound I l f).2.2 xs :=
  ⟨(lowerBound_refines I L s xs hI l f g hf hl hm).1, (lowerBound_refines I L s xs hI l f g hf hl hm).2.1⟩

/-- `lower_bound_rev(r, f)`: mirror image. -/
theorem lowerBoundRev_spec (I : Item T M A) (L : Lawful I) (s : Seg T) (xs : List T) (hI : Inv I s xs)
    (r : Nat) (f : T → Bool) (g : A → Bool) (hf : ∀ x, f x = g (I.val x)) (hr : r < xs.length)
    (hm : MonoBwd I xs r f) :
    (s.lowerBoundRev I r f).1 = Spec.last I xs r f ∧ Inv I (s.lowerBoundRev I r f).2.2 xs :=
  ⟨(lowerBoundRev_refines I L s xs hI r f g hf hr hm).1, (lowerBoundRev_refines I L s xs hI r f g hf hr hm).2.1⟩

/-- For **any** predicate whatsoever (no monotonicity, no factoring through `val`): every value shown to it by
    `lower_bound(l, ·)` observes the aggregate of a range `[l, k]` of the plain list, `l ≤ k < n` — in order, pending
    modifications applied, whatever the lazy state of the tree — and the tree still represents the same list afterwards. -/
theorem probes_are_ranges (I : Item T M A) (L : Lawful I) (s : Seg T) (xs : List T) (hI : Inv I s xs)
    (l : Nat) (f : T → Bool) (hl : l < xs.length) :
    Inv I (s.lowerBound I l f).2.2 xs ∧
    ∀ kp ∈ (s.lowerBound I l f).2.1, l ≤ kp.1 ∧ kp.1 < xs.length ∧
      I.val kp.2 = I.val (Spec.aggFwd I xs l kp.1) :=
  lowerBound_probes I L s xs hI l f hl

/-- the same for `lower_bound_rev(r, ·)`: every probe observes the aggregate of a range `[k, r]`. -/
theorem probes_are_ranges_rev (I : Item T M A) (L : Lawful I) (s : Seg T) (xs : List T) (hI : Inv I s xs)
    (r : Nat) (f : T → Bool) (hr : r < xs.length) :
    Inv I (s.lowerBoundRev I r f).2.2 xs ∧
    ∀ kp ∈ (s.lowerBoundRev I r f).2.1, kp.1 ≤ r ∧ I.val kp.2 = I.val (Spec.aggBwd I xs kp.1 r) :=
  lowerBoundRev_probes I L s xs hI r f hr

/-! ## what the specification means -/

/-- `Spec.first` is `none` exactly when no `r ∈ [l, n)` satisfies the predicate, otherwise the smallest such `r`. -/
theorem first_is_least (I : Item T M A) (xs : List T) (l : Nat) (f : T → Bool) (hl : l ≤ xs.length) :
    (Spec.first I xs l f = none ∧ ∀ r, l ≤ r → r < xs.length → f (Spec.aggFwd I xs l r) = false) ∨
    (∃ r, Spec.first I xs l f = some r ∧ l ≤ r ∧ r < xs.length ∧ f (Spec.aggFwd I xs l r) = true ∧
      ∀ r', l ≤ r' → r' < r → f (Spec.aggFwd I xs l r') = false) := by
  have := find?_range_cases (fun r => f (Spec.aggFwd I xs l r)) l (xs.length - l)
  rw [show l + (xs.length - l) = xs.length by omega] at this
  exact this

/-- `Spec.last` is `none` exactly when no `l ∈ [0, r]` satisfies the predicate, otherwise the largest such `l`. -/
theorem last_is_greatest (I : Item T M A) (xs : List T) (r : Nat) (f : T → Bool) :
    (Spec.last I xs r f = none ∧ ∀ l, l ≤ r → f (Spec.aggBwd I xs l r) = false) ∨
    (∃ l, Spec.last I xs r f = some l ∧ l ≤ r ∧ f (Spec.aggBwd I xs l r) = true ∧
      ∀ l', l < l' → l' ≤ r → f (Spec.aggBwd I xs l' r) = false) := by
  rcases find?_rev_range (fun l => f (Spec.aggBwd I xs l r)) (r + 1) with ⟨h1, h2⟩ | ⟨k, h1, h2, h3, h4⟩
  · left; exact ⟨h1, fun l hl => h2 l (by omega)⟩
  · right; exact ⟨k, h1, by omega, h3, fun l' a b => h4 l' a (by omega)⟩

/-- The aggregate the specification shows to the predicate is the in-order fold of precisely `[l, r]`, provided
    `Default` is a left identity of `merge` (up to the observable value) on the elements present. -/
theorem agg_is_range_fold (I : Item T M A) (L : Lawful I) (xs : List T) (l r : Nat) (hlr : l ≤ r) (hr : r < xs.length)
    (hid : ∀ a ∈ xs.map I.val, I.op (I.val I.dflt) a = a) :
    some (I.val (Spec.aggFwd I xs l r)) = foldO I (slice (xs.map I.val) l (r + 1)) :=
  aggFwd_is_fold I L xs l r hlr hr hid

/-- mirror image, with `Default` a right identity. -/
theorem agg_is_range_fold_rev (I : Item T M A) (L : Lawful I) (xs : List T) (l r : Nat) (hlr : l ≤ r)
    (hr : r < xs.length) (hid : ∀ a ∈ xs.map I.val, I.op a (I.val I.dflt) = a) :
    some (I.val (Spec.aggBwd I xs l r)) = foldO I (slice (xs.map I.val) l (r + 1)) :=
  aggBwd_is_fold I L xs l r hlr hr hid

/-- the driver's executable monotonicity test (`nm` in the protocol) implies the hypothesis of the theorems -/
theorem mono_test_sound (I : Item T M A) (xs : List T) (p : Nat) (f : T → Bool) :
    (Spec.monoFwd I xs p f = true → MonoFwd I xs p f) ∧ (Spec.monoBwd I xs p f = true → MonoBwd I xs p f) :=
  ⟨monoFwd_sound I xs p f, monoBwd_sound I xs p f⟩

/-! ## `Default` is the identity the searches need, for every item that exists -/

/-- `Min<T>`/`MinAdd<T>` (`Default = <T as MinMax>::MAX`) and `Max<T>`/`MaxAdd<T>` (`<T as MinMax>::MIN`), for **every**
    integer element type `ty` (signed or unsigned, any width): two-sided identity on every value of that type.  The
    bounds are the instantiated type's real bounds `ty.minVal` / `ty.maxVal` (`Model/Common.lean`); that the crate's
    trait constants are these numbers is compared on every run (`const <type>` lines of the correspondence). -/
theorem minmax_default_identity (ty : IntTy) (a : Int) (h1 : ty.minVal ≤ a) (h2 : a ≤ ty.maxVal) :
    ((minItem ty).op ((minItem ty).val (minItem ty).dflt) a = a ∧ (minItem ty).op a ((minItem ty).val (minItem ty).dflt) = a) ∧
    ((maxItem ty).op ((maxItem ty).val (maxItem ty).dflt) a = a ∧ (maxItem ty).op a ((maxItem ty).val (maxItem ty).dflt) = a) ∧
    ((minAddItem ty).op ((minAddItem ty).val (minAddItem ty).dflt) a = a ∧
      (minAddItem ty).op a ((minAddItem ty).val (minAddItem ty).dflt) = a) ∧
    ((maxAddItem ty).op ((maxAddItem ty).val (maxAddItem ty).dflt) a = a ∧
      (maxAddItem ty).op a ((maxAddItem ty).val (maxAddItem ty).dflt) = a) :=
  ⟨⟨minItem_dflt_left ty a h2, minItem_dflt_right ty a h2⟩, ⟨maxItem_dflt_left ty a h1, maxItem_dflt_right ty a h1⟩,
   ⟨minAddItem_dflt_left ty a h2, minAddItem_dflt_right ty a h2⟩, ⟨maxAddItem_dflt_left ty a h1, maxAddItem_dflt_right ty a h1⟩⟩

/-- the instance the first version of this file stated: at `i64` the bounds are the literals `i64::MIN` / `i64::MAX` -/
theorem minmax_default_identity_i64 (a : Int) (h1 : i64Min ≤ a) (h2 : a ≤ i64Max) :
    ((minItem .i64).op ((minItem .i64).val (minItem .i64).dflt) a = a ∧ (minItem .i64).op a ((minItem .i64).val (minItem .i64).dflt) = a) ∧
    ((maxItem .i64).op ((maxItem .i64).val (maxItem .i64).dflt) a = a ∧ (maxItem .i64).op a ((maxItem .i64).val (maxItem .i64).dflt) = a) ∧
    ((minAddItem .i64).op ((minAddItem .i64).val (minAddItem .i64).dflt) a = a ∧
      (minAddItem .i64).op a ((minAddItem .i64).val (minAddItem .i64).dflt) = a) ∧
    ((maxAddItem .i64).op ((maxAddItem .i64).val (maxAddItem .i64).dflt) a = a ∧
      (maxAddItem .i64).op a ((maxAddItem .i64).val (maxAddItem .i64).dflt) = a) :=
  minmax_default_identity .i64 a (by rw [i64_bounds.2]; exact h1) (by rw [i64_bounds.1]; exact h2)

/-- the hypothesis is needed, and it is the *type's own* bound that matters: a `Default` below the type's maximum (what a
    wrong `<T as MinMax>::MAX` amounts to: e.g. `Min<u64>` seeded with `i64::MAX`) is **not** an identity on the values
    above it — the search would show the predicate the seed instead of the range minimum. -/
theorem min_default_needs_type_max (ty : IntTy) (a : Int) (h : ty.maxVal < a) :
    (minItem ty).op ((minItem ty).val (minItem ty).dflt) a ≠ a := minItem_dflt_not_identity ty a h

/-- identities lift through the overflow guard (`guardItem` keeps `Default` and the observable algebra of the item) -/
theorem guard_default_identity (I : Item T M A) (G : Guard T M) (a : A) :
    ((guardItem I G).op ((guardItem I G).val (guardItem I G).dflt) a = I.op (I.val I.dflt) a) ∧
    ((guardItem I G).op a ((guardItem I G).val (guardItem I G).dflt) = I.op a (I.val I.dflt)) := ⟨rfl, rfl⟩

/-- `Sum`, `SumAdd`, `strCat`: unconditional two-sided identity. -/
theorem sum_default_identity :
    (∀ a, sumItem.op (sumItem.val sumItem.dflt) a = a ∧ sumItem.op a (sumItem.val sumItem.dflt) = a) ∧
    (∀ a, sumAddItem.op (sumAddItem.val sumAddItem.dflt) a = a ∧ sumAddItem.op a (sumAddItem.val sumAddItem.dflt) = a) ∧
    (∀ a, strCatItem.op (strCatItem.val strCatItem.dflt) a = a ∧ strCatItem.op a (strCatItem.val strCatItem.dflt) = a) :=
  ⟨fun a => ⟨sumItem_dflt_left a, sumItem_dflt_right a⟩, fun a => ⟨sumAddItem_dflt_left a, sumAddItem_dflt_right a⟩,
   fun a => ⟨strCatItem_dflt_left a, strCatItem_dflt_right a⟩⟩

/-- `Sum` over the non-commutative concatenation type (`sum:cat`): the empty word is a two-sided identity -/
theorem sum_noncommutative_default_identity (a : List Nat) :
    catSumItem.op (catSumItem.val catSumItem.dflt) a = a ∧ catSumItem.op a (catSumItem.val catSumItem.dflt) = a :=
  catSumItem_dflt a

/-- the two flip / count-ones items (zero-sized and one-byte modifier): unconditional two-sided identity. -/
theorem flip_default_identity (a : Int × Int) :
    (flipZItem.op (flipZItem.val flipZItem.dflt) a = a ∧ flipZItem.op a (flipZItem.val flipZItem.dflt) = a) ∧
    (flipBItem.op (flipBItem.val flipBItem.dflt) a = a ∧ flipBItem.op a (flipBItem.val flipBItem.dflt) = a) :=
  flipItems_dflt a

/-- `ap` (wave 4, add-an-arithmetic-progression; lazy item asymmetric in its children): `Default` (no element, no first
    position) is an unconditional two-sided identity. -/
theorem ap_default_identity (a : ApV) :
    apItem.op (apItem.val apItem.dflt) a = a ∧ apItem.op a (apItem.val apItem.dflt) = a :=
  apItem_dflt a

/-- `affHash`: identity on canonical residues (all values the item ever produces). -/
theorem affHash_default_identity (a : Int × Int × Int) (h : AffCanon a) :
    affHashItem.op (affHashItem.val affHashItem.dflt) a = a ∧ affHashItem.op a (affHashItem.val affHashItem.dflt) = a :=
  ⟨affHashItem_dflt_left a h, affHashItem_dflt_right a h⟩

/-- identities lift through `Combinator`. -/
theorem combinator_default_identity {U B : Type} (I : Item T M A) (J : Item U M B) (a : A × B)
    (hl1 : I.op (I.val I.dflt) a.1 = a.1) (hl2 : J.op (J.val J.dflt) a.2 = a.2)
    (hr1 : I.op a.1 (I.val I.dflt) = a.1) (hr2 : J.op a.2 (J.val J.dflt) = a.2) :
    (prodItem I J).op ((prodItem I J).val (prodItem I J).dflt) a = a ∧
    (prodItem I J).op a ((prodItem I J).val (prodItem I J).dflt) = a :=
  ⟨prodItem_dflt_left I J a hl1 hl2, prodItem_dflt_right I J a hr1 hr2⟩

/-- Element types whose order ignores part of the value (records ordered by key, floats): `Default` of the keyed `Min` /
    `MinAdd` (`d` = the type's `MAX`) is a left identity on every element whose key does not exceed `d`'s — the forward search
    starts from it — and a right identity on the elements strictly below (and on `d` itself); mirror image for `Max` / `MaxAdd`
    (`d` = the type's `MIN`).  For `f64` / `f32`: `d` = `f64::MAX` / `f64::MIN`, i.e. every finite element (and `-∞` under
    `Min`, `+∞` under `Max`). -/
theorem keyed_default_identity (d a : KV) :
    (a.k ≤ d.k → (minKItem d).op ((minKItem d).val (minKItem d).dflt) a = a ∧
      (minAddKItem d).op ((minAddKItem d).val (minAddKItem d).dflt) a = a) ∧
    (a.k < d.k ∨ a = d → (minKItem d).op a ((minKItem d).val (minKItem d).dflt) = a ∧
      (minAddKItem d).op a ((minAddKItem d).val (minAddKItem d).dflt) = a) ∧
    (d.k ≤ a.k → (maxKItem d).op ((maxKItem d).val (maxKItem d).dflt) a = a ∧
      (maxAddKItem d).op ((maxAddKItem d).val (maxAddKItem d).dflt) a = a) ∧
    (a.k > d.k ∨ a = d → (maxKItem d).op a ((maxKItem d).val (maxKItem d).dflt) = a ∧
      (maxAddKItem d).op a ((maxAddKItem d).val (maxAddKItem d).dflt) = a) :=
  ⟨fun h => ⟨minKItem_dflt_left d a h, minAddKItem_dflt_left d a h⟩,
   fun h => ⟨minKItem_dflt_right d a h, minAddKItem_dflt_right d a h⟩,
   fun h => ⟨maxKItem_dflt_left d a h, maxAddKItem_dflt_left d a h⟩,
   fun h => ⟨maxKItem_dflt_right d a h, maxAddKItem_dflt_right d a h⟩⟩

/-- it is the type's real `MIN` that `Max` needs: a `Default` above an element (what `MinMax::MIN = MIN_POSITIVE` is for every
    float element `≤ 0`, seeded change C02_m10) is **not** an identity on it — the search shows the predicate the seed
    instead of the range maximum -/
theorem max_default_needs_type_min (d a : KV) (h : a.k < d.k) (hne : a ≠ d) :
    (maxKItem d).op ((maxKItem d).val (maxKItem d).dflt) a ≠ a := maxKItem_dflt_not_identity d a h hne

/-- the float constants the driver prints for `const f64` / `const f32` are the IEEE bit patterns of `MAX`, `MIN = -MAX`,
    `1.0`; the integer `maxInt` (the `Default` of the additive float items in the model) is `MAX`; both zeros have key 0 and
    the key is monotone in the value on either side of zero (`ordKey`) -/
theorem float_constants :
    (f64Fmt.maxBits = 0x7FEFFFFFFFFFFFFF ∧ f64Fmt.minBits = 0xFFEFFFFFFFFFFFFF ∧ f64Fmt.oneBits = 0x3FF0000000000000) ∧
    (f32Fmt.maxBits = 0x7F7FFFFF ∧ f32Fmt.minBits = 0xFF7FFFFF ∧ f32Fmt.oneBits = 0x3F800000) ∧
    (f64Fmt.ofInt f64Fmt.maxInt = f64Fmt.maxBits ∧ f64Fmt.ofInt (-f64Fmt.maxInt) = f64Fmt.minBits) ∧
    (f32Fmt.ofInt f32Fmt.maxInt = f32Fmt.maxBits ∧ f32Fmt.ofInt (-f32Fmt.maxInt) = f32Fmt.minBits) ∧
    (∀ f : FloatFmt, f.ordKey 0 = 0 ∧ f.ordKey f.signBit = 0) ∧
    (∀ (f : FloatFmt) (a b : Nat), b < f.signBit → a < b → f.ordKey a < f.ordKey b) ∧
    (∀ (f : FloatFmt) (a b : Nat), f.signBit ≤ a → a < b → f.ordKey b < f.ordKey a) :=
  ⟨⟨f64_consts.1, f64_consts.2.1, f64_consts.2.2.1⟩, ⟨f32_consts.1, f32_consts.2.1, f32_consts.2.2.1⟩,
   by decide +kernel, by decide +kernel, ordKey_zeros, ordKey_mono_pos, ordKey_anti_neg⟩

/-! ## non-vacuity -/

section examples

private def xs5 : List MinAdd := [⟨3, 0⟩, ⟨1, 0⟩, ⟨4, 0⟩, ⟨1, 0⟩, ⟨5, 0⟩]

/-- a threshold predicate on a `MinAdd` tree after a range modification: the hypotheses are satisfiable and the
    answers are the expected indices (searches interleaved with a modification, via `history_refines`). -/
example : ∃ s, Seg.fromSlice (minAddItem .i64) xs5 = .ok s ∧
    s.run (minAddItem .i64) [.modify 0 1 10, .lb 0 (fun x => decide (x.v < 5)), .lbr 4 (fun x => decide (x.v < 5)),
                      .lb 4 (fun x => decide (x.v < 5)), .lb 0 (fun _ => true), .lbr 2 (fun _ => false)] =
      [.done, .idx (some 2), .idx (some 3), .idx none, .idx (some 0), .idx none] := by
  obtain ⟨s, e, h⟩ := fromSlice_refines (minAddItem .i64) (minAddItem_lawful .i64) xs5 (by simp [xs5])
  refine ⟨s, e, ?_⟩
  rw [run_refines (minAddItem .i64) (minAddItem_lawful .i64) _ s xs5 h]
  · decide
  · refine ⟨trivial, ⟨by decide, ⟨fun a => decide (a < 5), fun _ => rfl⟩, monoFwd_sound _ _ _ _ (by decide)⟩,
      ⟨by decide, ⟨fun a => decide (a < 5), fun _ => rfl⟩, monoBwd_sound _ _ _ _ (by decide)⟩,
      ⟨by decide, ⟨fun a => decide (a < 5), fun _ => rfl⟩, monoFwd_sound _ _ _ _ (by decide)⟩,
      ⟨by decide, ⟨fun _ => true, fun _ => rfl⟩, monoFwd_sound _ _ _ _ (by decide)⟩,
      ⟨by decide, ⟨fun _ => false, fun _ => rfl⟩, monoBwd_sound _ _ _ _ (by decide)⟩, trivial⟩

/-- an order-sensitive predicate on the non-commutative `strCat` item: "the range is not a prefix of `abd`";
    the contents are `ab`,`c`,`d` so the first range from 0 that is not a prefix is `[0, 1]`. -/
example : Spec.first strCatItem [⟨[0, 1], none⟩, ⟨[2], none⟩, ⟨[3], none⟩] 0 (fun x => !(x.s.isPrefixOf [0, 1, 3])) = some 1 ∧
    Spec.monoFwd strCatItem [⟨[0, 1], none⟩, ⟨[2], none⟩, ⟨[3], none⟩] 0 (fun x => !(x.s.isPrefixOf [0, 1, 3])) = true := by
  decide

/-- why monotonicity is a hypothesis: with `sum ≥ 3` on `[5, -5]` (true on `[0,0]`, false on `[0,1]`) the code's
    search, which tests the whole node first, answers `none`, while index 0 satisfies the predicate. -/
example : (lb sumItem (.node ⟨0⟩ (.leaf ⟨5⟩) (.leaf ⟨-5⟩)) ⟨0⟩ (fun x => decide (x.v ≥ 3)) 0 0 1).res = none ∧
    Spec.first sumItem [⟨5⟩, ⟨-5⟩] 0 (fun x => decide (x.v ≥ 3)) = some 0 ∧
    Spec.monoFwd sumItem [⟨5⟩, ⟨-5⟩] 0 (fun x => decide (x.v ≥ 3)) = false := by
  refine ⟨?_, by decide, by decide⟩
  rw [lb, if_pos (by decide)]

/-- the domain of `minmax_default_identity` is inhabited at its boundary -/
example : (minItem .i64).op ((minItem .i64).val (minItem .i64).dflt) i64Max = i64Max ∧
    (maxItem .i64).op ((maxItem .i64).val (maxItem .i64).dflt) i64Min = i64Min := by
  decide

/-- …and at the unsigned / narrow types the correspondence instantiates: the all-ones `u64::MAX`, `u8::MAX`, `i8::MIN`
    are values of the type and the default is an identity on them; `i64::MAX` as the seed of a `Min<u64>` search is not -/
example : (minItem ⟨false, 64⟩).op ((minItem ⟨false, 64⟩).val (minItem ⟨false, 64⟩).dflt) 18446744073709551615 = 18446744073709551615 ∧
    (minAddItem ⟨false, 8⟩).op 255 ((minAddItem ⟨false, 8⟩).val (minAddItem ⟨false, 8⟩).dflt) = 255 ∧
    (maxAddItem ⟨true, 8⟩).op ((maxAddItem ⟨true, 8⟩).val (maxAddItem ⟨true, 8⟩).dflt) (-128) = -128 ∧
    (minItem .i64).op ((minItem .i64).val (minItem .i64).dflt) 18446744073709551615 ≠ 18446744073709551615 := by
  decide

/-- a search on a guarded `Min<u64>` whose elements are above `i64::MAX` (an all-ones "free slot" marker): the first index
    whose prefix minimum is below the marker -/
example : Spec.first (guardItem (minItem ⟨false, 64⟩) noGuard)
      [(⟨18446744073709551615⟩, true), (⟨18446744073709551615⟩, true), (⟨5⟩, true), (⟨18446744073709551615⟩, true)] 0
      (fun x => decide (x.1.v < 18446744073709551615)) = some 2 := by decide

/-- canonical residues exist (e.g. a leaf), so `affHash_default_identity` is not vacuous -/
example : AffCanon (affHashItem.val (affLeaf 5)) := by unfold AffCanon; decide

/-- `Max<f64>` over `[-3.0, -1.5, -2.0]`, `lower_bound(0, v >= -2.0)` (as `v > pred(-2.0)` is not needed: the keys are
    integers, `v > -2.5`): the first index is 1; with `MIN_POSITIVE` as the seed the very first probe would be the seed -/
example :
    let e : Nat → KV := fun b => ⟨f64Fmt.ordKey b, b⟩
    let xs := [e 0xC008000000000000, e 0xBFF8000000000000, e 0xC000000000000000]
    Spec.first (maxKItem (e f64Fmt.minBits)) xs 0 (fun x => decide (x.k > f64Fmt.ordKey 0xC004000000000000)) = some 1 ∧
    Spec.monoFwd (maxKItem (e f64Fmt.minBits)) xs 0 (fun x => decide (x.k > f64Fmt.ordKey 0xC004000000000000)) = true ∧
    (maxKItem (e 0x0010000000000000)).op ((maxKItem (e 0x0010000000000000)).val (maxKItem (e 0x0010000000000000)).dflt)
      (e 0xC008000000000000) ≠ e 0xC008000000000000 := by decide

/-- `keyed_default_identity` at its boundary: the element equal to the default, both zeros under `Max<f64>` -/
example : (maxKItem ⟨f64Fmt.ordKey f64Fmt.minBits, f64Fmt.minBits⟩).op ⟨f64Fmt.ordKey f64Fmt.minBits, f64Fmt.minBits⟩
      ⟨f64Fmt.ordKey 0x8000000000000000, 0x8000000000000000⟩ = ⟨0, 0x8000000000000000⟩ ∧
    (minKItem ⟨i64Max, 0⟩).op ⟨i64Max, 0⟩ ⟨i64Max, 7⟩ = ⟨i64Max, 7⟩ := by decide

end examples

end Rlib.C02
