import RlibModel.Lemmas.SegtreeHistory
import RlibModel.Lemmas.SegtreeItems
/-!
# C02 — segment-tree boundary search returns the exact first / last satisfying index

Property theorems only.  `lb` / `lbr` (`Model/Segtree.lean`) mirror `lower_bound_internal` /
`lower_bound_rev_internal` and additionally log every value the predicate is applied to.
`Spec.first I xs l f` tries every `r = l, l+1, …` in turn on the plain list and returns the first one with
`f (aggregate of [l, r])`; `Spec.last` is the mirror image.

Assumptions on the predicate, exactly those of the property: it only looks at the observable value
(`f x = g (I.val x)`) and it is monotone along the ranges it is asked about (`MonoFwd` / `MonoBwd`: once true it
stays true when *this* range grows — nothing is required of values that do not occur).
-/
namespace Rlib.C02
open Rlib.Segtree
variable {T M A : Type}

/-! ## the internal searches on a well-formed tree of any size, with an arbitrary carried aggregate -/

/-- `lower_bound_internal`: answer *and* carried aggregate equal the left-to-right linear scan over the logical
    contents of `[l, vr]`; the pushes change neither contents nor well-formedness nor shape; every probe is the
    carried aggregate merged with a range `[l, k]`. -/
theorem lowerBound_internal_spec (I : Item T M A) (L : Lawful I) (f : T → Bool) (g : A → Bool)
    (hf : ∀ x, f x = g (I.val x)) (t : Tree T) (item : T) (l vl vr : Nat) (hwf : WF I t) (hs : Shaped t vl vr)
    (h1 : vl ≤ l) (h2 : l ≤ vr)
    (hm : MonoOn I.op g (I.val item) (slice (den I t) (l - vl) (vr + 1 - vl))) :
    (I.val (lb I t item f l vl vr).carry, (lb I t item f l vl vr).res) =
        scan I g (I.val item) (slice (den I t) (l - vl) (vr + 1 - vl)) l ∧
    den I (lb I t item f l vl vr).tree = den I t ∧ WF I (lb I t item f l vl vr).tree ∧
    Shaped (lb I t item f l vl vr).tree vl vr ∧
    LogOK I (den I t) (I.val item) l vl vr (lb I t item f l vl vr).log :=
  lb_spec I L f g hf t item l vl vr hwf hs h1 h2 hm

/-- mirror image for `lower_bound_rev_internal` (the scan runs right to left, the node is merged on the left). -/
theorem lowerBoundRev_internal_spec (I : Item T M A) (L : Lawful I) (f : T → Bool) (g : A → Bool)
    (hf : ∀ x, f x = g (I.val x)) (t : Tree T) (item : T) (r vl vr : Nat) (hwf : WF I t) (hs : Shaped t vl vr)
    (h1 : vl ≤ r) (h2 : r ≤ vr)
    (hm : MonoOn (fun c a => I.op a c) g (I.val item) (slice (den I t) 0 (r + 1 - vl)).reverse) :
    (I.val (lbr I t item f r vl vr).carry, (lbr I t item f r vl vr).res) =
        scanR I g (I.val item) (slice (den I t) 0 (r + 1 - vl)).reverse r ∧
    den I (lbr I t item f r vl vr).tree = den I t ∧ WF I (lbr I t item f r vl vr).tree ∧
    Shaped (lbr I t item f r vl vr).tree vl vr ∧
    LogOKR I (den I t) (I.val item) r vl (lbr I t item f r vl vr).log :=
  lbr_spec I L f g hf t item r vl vr hwf hs h1 h2 hm

/-! ## the public searches against the plain list -/

/-- `lower_bound(l, f)` on a tree that represents `xs` (after any history): the answer is the specification's
    first satisfying index; the tree still represents `xs`. -/
theorem lowerBound_spec (I : Item T M A) (L : Lawful I) (s : Seg T) (xs : List T) (hI : Inv I s xs)
    (l : Nat) (f : T → Bool) (g : A → Bool) (hf : ∀ x, f x = g (I.val x)) (hl : l < xs.length)
    (hm : MonoFwd I xs l f) :
    (s.lowerBound I l f).1 = Spec.first I xs l f ∧ Inv I (s.lowerBound I l f).2.2 xs :=
  ⟨(lowerBound_refines I L s xs hI l f g hf hl hm).1, (lowerBound_refines I L s xs hI l f g hf hl hm).2.1⟩

/-- `lower_bound_rev(r, f)`: mirror image. -/
theorem lowerBoundRev_spec (I : Item T M A) (L : Lawful I) (s : Seg T) (xs : List T) (hI : Inv I s xs)
    (r : Nat) (f : T → Bool) (g : A → Bool) (hf : ∀ x, f x = g (I.val x)) (hr : r < xs.length)
    (hm : MonoBwd I xs r f) :
    (s.lowerBoundRev I r f).1 = Spec.last I xs r f ∧ Inv I (s.lowerBoundRev I r f).2.2 xs :=
  ⟨(lowerBoundRev_refines I L s xs hI r f g hf hr hm).1, (lowerBoundRev_refines I L s xs hI r f g hf hr hm).2.1⟩

/-- For **any** predicate whatsoever (no monotonicity, no factoring through `val`): every value shown to it by
    `lower_bound(l, ·)` observes the aggregate of a range `[l, k]` of the plain list, `l ≤ k < n` — in order, pending
    modifications applied, whatever the lazy state of the tree — and the tree still represents the same list afterwards. -/
theorem probes_are_ranges (I : Item T M A) (L : Lawful I) (s : Seg T) (xs : List T) (hI : Inv I s xs)
    (l : Nat) (f : T → Bool) (hl : l < xs.length) :
    Inv I (s.lowerBound I l f).2.2 xs ∧
    ∀ kp ∈ (s.lowerBound I l f).2.1, l ≤ kp.1 ∧ kp.1 < xs.length ∧
      I.val kp.2 = I.val (Spec.aggFwd I xs l kp.1) :=
  lowerBound_probes I L s xs hI l f hl

/-- the same for `lower_bound_rev(r, ·)`: every probe observes the aggregate of a range `[k, r]`. -/
theorem probes_are_ranges_rev (I : Item T M A) (L : Lawful I) (s : Seg T) (xs : List T) (hI : Inv I s xs)
    (r : Nat) (f : T → Bool) (hr : r < xs.length) :
    Inv I (s.lowerBoundRev I r f).2.2 xs ∧
    ∀ kp ∈ (s.lowerBoundRev I r f).2.1, kp.1 ≤ r ∧ I.val kp.2 = I.val (Spec.aggBwd I xs kp.1 r) :=
  lowerBoundRev_probes I L s xs hI r f hr

/-! ## what the specification means -/

/-- `Spec.first` is `none` exactly when no `r ∈ [l, n)` satisfies the predicate, otherwise the smallest such `r`. -/
theorem first_is_least (I : Item T M A) (xs : List T) (l : Nat) (f : T → Bool) (hl : l ≤ xs.length) :
    (Spec.first I xs l f = none ∧ ∀ r, l ≤ r → r < xs.length → f (Spec.aggFwd I xs l r) = false) ∨
    (∃ r, Spec.first I xs l f = some r ∧ l ≤ r ∧ r < xs.length ∧ f (Spec.aggFwd I xs l r) = true ∧
      ∀ r', l ≤ r' → r' < r → f (Spec.aggFwd I xs l r') = false) := by
  have := find?_range_cases (fun r => f (Spec.aggFwd I xs l r)) l (xs.length - l)
  rw [show l + (xs.length - l) = xs.length by omega] at this
  exact this

/-- `Spec.last` is `none` exactly when no `l ∈ [0, r]` satisfies the predicate, otherwise the largest such `l`. -/
theorem last_is_greatest (I : Item T M A) (xs : List T) (r : Nat) (f : T → Bool) :
    (Spec.last I xs r f = none ∧ ∀ l, l ≤ r → f (Spec.aggBwd I xs l r) = false) ∨
    (∃ l, Spec.last I xs r f = some l ∧ l ≤ r ∧ f (Spec.aggBwd I xs l r) = true ∧
      ∀ l', l < l' → l' ≤ r → f (Spec.aggBwd I xs l' r) = false) := by
  rcases find?_rev_range (fun l => f (Spec.aggBwd I xs l r)) (r + 1) with ⟨h1, h2⟩ | ⟨k, h1, h2, h3, h4⟩
  · left; exact ⟨h1, fun l hl => h2 l (by omega)⟩
  · right; exact ⟨k, h1, by omega, h3, fun l' a b => h4 l' a (by omega)⟩

/-- The aggregate the specification shows to the predicate is the in-order fold of precisely `[l, r]`, provided
    `Default` is a left identity of `merge` (up to the observable value) on the elements present. -/
theorem agg_is_range_fold (I : Item T M A) (L : Lawful I) (xs : List T) (l r : Nat) (hlr : l ≤ r) (hr : r < xs.length)
    (hid : ∀ a ∈ xs.map I.val, I.op (I.val I.dflt) a = a) :
    some (I.val (Spec.aggFwd I xs l r)) = foldO I (slice (xs.map I.val) l (r + 1)) :=
  aggFwd_is_fold I L xs l r hlr hr hid

/-- mirror image, with `Default` a right identity. -/
theorem agg_is_range_fold_rev (I : Item T M A) (L : Lawful I) (xs : List T) (l r : Nat) (hlr : l ≤ r)
    (hr : r < xs.length) (hid : ∀ a ∈ xs.map I.val, I.op a (I.val I.dflt) = a) :
    some (I.val (Spec.aggBwd I xs l r)) = foldO I (slice (xs.map I.val) l (r + 1)) :=
  aggBwd_is_fold I L xs l r hlr hr hid

/-- the driver's executable monotonicity test (`nm` in the protocol) implies the hypothesis of the theorems -/
theorem mono_test_sound (I : Item T M A) (xs : List T) (p : Nat) (f : T → Bool) :
    (Spec.monoFwd I xs p f = true → MonoFwd I xs p f) ∧ (Spec.monoBwd I xs p f = true → MonoBwd I xs p f) :=
  ⟨monoFwd_sound I xs p f, monoBwd_sound I xs p f⟩

/-! ## `Default` is the identity the searches need, for every item that exists -/

/-- `Min`/`MinAdd` (`Default = i64::MAX`) and `Max`/`MaxAdd` (`i64::MIN`): identity on every `i64` value. -/
theorem minmax_default_identity (a : Int) (h1 : i64Min ≤ a) (h2 : a ≤ i64Max) :
    (minItem.op (minItem.val minItem.dflt) a = a ∧ minItem.op a (minItem.val minItem.dflt) = a) ∧
    (maxItem.op (maxItem.val maxItem.dflt) a = a ∧ maxItem.op a (maxItem.val maxItem.dflt) = a) ∧
    (minAddItem.op (minAddItem.val minAddItem.dflt) a = a ∧ minAddItem.op a (minAddItem.val minAddItem.dflt) = a) ∧
    (maxAddItem.op (maxAddItem.val maxAddItem.dflt) a = a ∧ maxAddItem.op a (maxAddItem.val maxAddItem.dflt) = a) :=
  ⟨⟨minItem_dflt_left a h2, minItem_dflt_right a h2⟩, ⟨maxItem_dflt_left a h1, maxItem_dflt_right a h1⟩,
   ⟨minAddItem_dflt_left a h2, minAddItem_dflt_right a h2⟩, ⟨maxAddItem_dflt_left a h1, maxAddItem_dflt_right a h1⟩⟩

/-- `Sum`, `SumAdd`, `strCat`: unconditional two-sided identity. -/
theorem sum_default_identity :
    (∀ a, sumItem.op (sumItem.val sumItem.dflt) a = a ∧ sumItem.op a (sumItem.val sumItem.dflt) = a) ∧
    (∀ a, sumAddItem.op (sumAddItem.val sumAddItem.dflt) a = a ∧ sumAddItem.op a (sumAddItem.val sumAddItem.dflt) = a) ∧
    (∀ a, strCatItem.op (strCatItem.val strCatItem.dflt) a = a ∧ strCatItem.op a (strCatItem.val strCatItem.dflt) = a) :=
  ⟨fun a => ⟨sumItem_dflt_left a, sumItem_dflt_right a⟩, fun a => ⟨sumAddItem_dflt_left a, sumAddItem_dflt_right a⟩,
   fun a => ⟨strCatItem_dflt_left a, strCatItem_dflt_right a⟩⟩

/-- the two flip / count-ones items (zero-sized and one-byte modifier): unconditional two-sided identity. -/
theorem flip_default_identity (a : Int × Int) :
    (flipZItem.op (flipZItem.val flipZItem.dflt) a = a ∧ flipZItem.op a (flipZItem.val flipZItem.dflt) = a) ∧
    (flipBItem.op (flipBItem.val flipBItem.dflt) a = a ∧ flipBItem.op a (flipBItem.val flipBItem.dflt) = a) :=
  flipItems_dflt a

/-- `affHash`: identity on canonical residues (all values the item ever produces). -/
theorem affHash_default_identity (a : Int × Int × Int) (h : AffCanon a) :
    affHashItem.op (affHashItem.val affHashItem.dflt) a = a ∧ affHashItem.op a (affHashItem.val affHashItem.dflt) = a :=
  ⟨affHashItem_dflt_left a h, affHashItem_dflt_right a h⟩

/-- identities lift through `Combinator`. -/
theorem combinator_default_identity {U B : Type} (I : Item T M A) (J : Item U M B) (a : A × B)
    (hl1 : I.op (I.val I.dflt) a.1 = a.1) (hl2 : J.op (J.val J.dflt) a.2 = a.2)
    (hr1 : I.op a.1 (I.val I.dflt) = a.1) (hr2 : J.op a.2 (J.val J.dflt) = a.2) :
    (prodItem I J).op ((prodItem I J).val (prodItem I J).dflt) a = a ∧
    (prodItem I J).op a ((prodItem I J).val (prodItem I J).dflt) = a :=
  ⟨prodItem_dflt_left I J a hl1 hl2, prodItem_dflt_right I J a hr1 hr2⟩

/-! ## non-vacuity -/

section examples

private def xs5 : List MinAdd := [⟨3, 0⟩, ⟨1, 0⟩, ⟨4, 0⟩, ⟨1, 0⟩, ⟨5, 0⟩]

/-- a threshold predicate on a `MinAdd` tree after a range modification: the hypotheses are satisfiable and the
    answers are the expected indices (searches interleaved with a modification, via `history_refines`). -/
example : ∃ s, Seg.fromSlice minAddItem xs5 = .ok s ∧
    s.run minAddItem [.modify 0 1 10, .lb 0 (fun x => decide (x.v < 5)), .lbr 4 (fun x => decide (x.v < 5)),
                      .lb 4 (fun x => decide (x.v < 5)), .lb 0 (fun _ => true), .lbr 2 (fun _ => false)] =
      [.done, .idx (some 2), .idx (some 3), .idx none, .idx (some 0), .idx none] := by
  obtain ⟨s, e, h⟩ := fromSlice_refines minAddItem minAddItem_lawful xs5 (by simp [xs5])
  refine ⟨s, e, ?_⟩
  rw [run_refines minAddItem minAddItem_lawful _ s xs5 h]
  · decide
  · refine ⟨trivial, ⟨by decide, ⟨fun a => decide (a < 5), fun _ => rfl⟩, monoFwd_sound _ _ _ _ (by decide)⟩,
      ⟨by decide, ⟨fun a => decide (a < 5), fun _ => rfl⟩, monoBwd_sound _ _ _ _ (by decide)⟩,
      ⟨by decide, ⟨fun a => decide (a < 5), fun _ => rfl⟩, monoFwd_sound _ _ _ _ (by decide)⟩,
      ⟨by decide, ⟨fun _ => true, fun _ => rfl⟩, monoFwd_sound _ _ _ _ (by decide)⟩,
      ⟨by decide, ⟨fun _ => false, fun _ => rfl⟩, monoBwd_sound _ _ _ _ (by decide)⟩, trivial⟩

/-- an order-sensitive predicate on the non-commutative `strCat` item: "the range is not a prefix of `abd`";
    the contents are `ab`,`c`,`d` so the first range from 0 that is not a prefix is `[0, 1]`. -/
example : Spec.first strCatItem [⟨[0, 1], none⟩, ⟨[2], none⟩, ⟨[3], none⟩] 0 (fun x => !(x.s.isPrefixOf [0, 1, 3])) = some 1 ∧
    Spec.monoFwd strCatItem [⟨[0, 1], none⟩, ⟨[2], none⟩, ⟨[3], none⟩] 0 (fun x => !(x.s.isPrefixOf [0, 1, 3])) = true := by
  decide

/-- why monotonicity is a hypothesis: with `sum ≥ 3` on `[5, -5]` (true on `[0,0]`, false on `[0,1]`) the code's
    search, which tests the whole node first, answers `none`, while index 0 satisfies the predicate. -/
example : (lb sumItem (.node ⟨0⟩ (.leaf ⟨5⟩) (.leaf ⟨-5⟩)) ⟨0⟩ (fun x => decide (x.v ≥ 3)) 0 0 1).res = none ∧
    Spec.first sumItem [⟨5⟩, ⟨-5⟩] 0 (fun x => decide (x.v ≥ 3)) = some 0 ∧
    Spec.monoFwd sumItem [⟨5⟩, ⟨-5⟩] 0 (fun x => decide (x.v ≥ 3)) = false := by
  refine ⟨?_, by decide, by decide⟩
  rw [lb, if_pos (by decide)]

/-- the domain of `minmax_default_identity` is inhabited at its boundary -/
example : minItem.op (minItem.val minItem.dflt) i64Max = i64Max ∧ maxItem.op (maxItem.val maxItem.dflt) i64Min = i64Min := by
  decide

/-- canonical residues exist (e.g. a leaf), so `affHash_default_identity` is not vacuous -/
example : AffCanon (affHashItem.val (affLeaf 5)) := by unfold AffCanon; decide

end examples

end Rlib.C02
