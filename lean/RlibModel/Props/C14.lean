import RlibModel.Lemmas.Rand
import RlibModel.Lemmas.RandLcg
import RlibModel.Lemmas.RandShuffle
import RlibModel.Lemmas.RandFloat
import RlibModel.Lemmas.RandRne
import RlibModel.Lemmas.RandMulti
import RlibModel.Model.RandRng
/-!
# C14 — random draws respect range and seed; shuffle is a fair permutation

Property theorems only; the model is `Model/Rand.lean` + `Model/RandFloat.lean`, helper lemmas are in
`Lemmas/Rand*.lean`.  What is *not* a theorem (permutation frequencies, absence of short periods) is
tested by `e_rand stat` and labelled as testing in the evidence.
-/
namespace Rlib.C14
open Rlib.Rand

/-! ## Integer draws: all five range forms, both signednesses, every width, every raw word -/

/-- Every draw lies in the range: for every integer type (any width ≥ 1), every range form whose
    bounds are values of the type and which is non-empty, and **every** raw word, `gen_from_u64`
    returns (no panic, no overflow) a value `v` with `lo ≤ v ≤ hi`. -/
theorem int_range_in (t : IntTy) (hw : 1 ≤ t.bits) (f : Form) (raw : Nat)
    (hty : f.wellTyped t = true) (hne : f.lo t ≤ f.hi t) :
    ∃ v, gen t f raw = .ok v ∧ f.lo t ≤ v ∧ v ≤ f.hi t := by
  cases f with
  | range s e =>
    simp only [Form.wellTyped, Bool.and_eq_true, fits_iff] at hty
    simp only [Form.lo, Form.hi] at hne ⊢
    exact genRange_in t hw s e raw hty.1 hty.2 (by omega)
  | incl s e =>
    simp only [Form.wellTyped, Bool.and_eq_true, fits_iff] at hty
    simp only [Form.lo, Form.hi] at hne ⊢
    exact genIncl_in t hw s e raw hty.1 hty.2 hne
  | upTo e =>
    simp only [Form.wellTyped, fits_iff] at hty
    simp only [Form.lo, Form.hi] at hne ⊢
    exact genRange_in t hw 0 e raw (zero_fits t hw) hty (by omega)
  | upToIncl e =>
    simp only [Form.wellTyped, fits_iff] at hty
    simp only [Form.lo, Form.hi] at hne ⊢
    exact genIncl_in t hw 0 e raw (zero_fits t hw) hty hne
  | full =>
    exact ⟨_, rfl, wrap_range t hw raw⟩

/-- Every value of the range is reachable: for every `v` with `lo ≤ v ≤ hi` some raw 64-bit word
    produces exactly `v` (types of at most 64 bits; the full range `..` is onto the whole type). -/
theorem int_range_onto (t : IntTy) (hw : 1 ≤ t.bits) (hw64 : t.bits ≤ 64) (f : Form)
    (hty : f.wellTyped t = true) (v : Int) (h1 : f.lo t ≤ v) (h2 : v ≤ f.hi t) :
    ∃ raw : Nat, raw < 2 ^ 64 ∧ gen t f raw = .ok v := by
  have hp : 2 ^ t.bits ≤ 2 ^ 64 := Nat.pow_le_pow_right (by decide) hw64
  suffices h : ∃ raw : Nat, raw < 2 ^ t.bits ∧ gen t f raw = .ok v by
    obtain ⟨raw, hr, hg⟩ := h
    exact ⟨raw, by omega, hg⟩
  cases f with
  | range s e =>
    simp only [Form.wellTyped, Bool.and_eq_true, fits_iff] at hty
    simp only [Form.lo, Form.hi] at h1 h2
    exact genRange_onto t hw s e v hty.1 hty.2 h1 h2
  | incl s e =>
    simp only [Form.wellTyped, Bool.and_eq_true, fits_iff] at hty
    simp only [Form.lo, Form.hi] at h1 h2
    exact genIncl_onto t hw s e v hty.1 hty.2 h1 h2
  | upTo e =>
    simp only [Form.wellTyped, fits_iff] at hty
    simp only [Form.lo, Form.hi] at h1 h2
    exact genRange_onto t hw 0 e v (zero_fits t hw) hty h1 h2
  | upToIncl e =>
    simp only [Form.wellTyped, fits_iff] at hty
    simp only [Form.lo, Form.hi] at h1 h2
    exact genIncl_onto t hw 0 e v (zero_fits t hw) hty h1 h2
  | full =>
    simp only [Form.lo, Form.hi] at h1 h2
    have h := genIncl_onto t hw t.minVal t.maxVal v ⟨le_refl _, minVal_le_maxVal t hw⟩ ⟨minVal_le_maxVal t hw, le_refl _⟩ h1 h2
    obtain ⟨raw, hr, hg⟩ := h
    rw [genIncl_full] at hg
    exact ⟨raw, hr, hg⟩

/-- An empty range panics in `assert!(!self.is_empty())`, for every raw word (`s..e` with `e ≤ s`,
    `s..=e` with `e < s`, `..e` with `e ≤ 0`, `..=e` with `e < 0`). -/
theorem int_range_empty (t : IntTy) (hw : 1 ≤ t.bits) (f : Form) (raw : Nat)
    (hty : f.wellTyped t = true) (hemp : f.hi t < f.lo t) :
    gen t f raw = .error .assert := by
  cases f with
  | range s e =>
    simp only [Form.lo, Form.hi] at hemp
    exact genRange_empty t s e raw (by omega)
  | incl s e =>
    simp only [Form.wellTyped, Bool.and_eq_true, fits_iff] at hty
    simp only [Form.lo, Form.hi] at hemp
    exact genIncl_empty t s e raw hty.1 hty.2 hemp
  | upTo e =>
    simp only [Form.lo, Form.hi] at hemp
    exact genRange_empty t 0 e raw (by omega)
  | upToIncl e =>
    simp only [Form.wellTyped, fits_iff] at hty
    simp only [Form.lo, Form.hi] at hemp
    exact genIncl_empty t 0 e raw (zero_fits t hw) hty hemp
  | full =>
    simp only [Form.lo, Form.hi] at hemp
    have := minVal_le_maxVal t hw
    omega

/-! non-vacuity: concrete ranges at the corners of the types, evaluated by the model itself -/
example : gen ⟨true, 8⟩ (.range (-128) 127) (2 ^ 64 - 1) = .ok (-128) := by decide
example : gen ⟨true, 8⟩ (.incl (-128) 127) 255 = .ok (-1) := by decide
example : gen ⟨false, 64⟩ (.upToIncl (2 ^ 64 - 1)) (2 ^ 64 - 1) = .ok (2 ^ 64 - 1) := by decide
example : gen ⟨true, 64⟩ (.range (-(2 ^ 63)) (2 ^ 63 - 1)) (2 ^ 64 - 1) = .ok (-(2 ^ 63)) := by decide
example : gen ⟨true, 16⟩ (.upTo 0) 5 = .error .assert := by decide
example : (Form.range (-128) 127).wellTyped ⟨true, 8⟩ = true ∧ (Form.range (-128) 127).lo ⟨true, 8⟩ ≤ (Form.range (-128) 127).hi ⟨true, 8⟩ := by decide
example : ∃ raw : Nat, raw < 2 ^ 64 ∧ gen ⟨true, 32⟩ (.incl (-5) 7) raw = .ok 7 :=
  int_range_onto ⟨true, 32⟩ (by decide) (by decide) _ (by decide) 7 (by decide) (by decide)

/-! ## The generator: determinism, the output scramble, period -/

/-- The stream is a function of the seed alone: the `k`-th word returned by `next_raw` is the
    scramble of the `(k+1)`-fold LCG step applied to the seed, and the state left behind after `n`
    calls is the `n`-fold step. (Equal seeds therefore give equal streams.) -/
theorem seed_determinism (g : Gen) (seed n : Nat) :
    (rawStream g n seed).1 = (List.range n).map (fun k => mix g (iter (lcgStep g) (k + 1) seed)) ∧
    (rawStream g n seed).2 = iter (lcgStep g) n seed :=
  ⟨rawStream_fst g n seed, rawStream_snd g n seed⟩

/-- Copies evolve equally: a generator copied after `k` words produces, from the copied state, exactly
    the continuation of the original stream. -/
theorem copy_continues_stream (g : Gen) (seed k n : Nat) :
    (rawStream g (k + n) seed).1 = (rawStream g k seed).1 ++ (rawStream g n (rawStream g k seed).2).1 := by
  rw [rawStream_fst, rawStream_fst, rawStream_fst, rawStream_snd, List.range_add, List.map_append, List.map_map]
  congr 1
  apply List.map_congr_left
  intro j _
  exact (rawAt_shift g seed k j).symm

/-- The output function of `next_raw` is a bijection on 64-bit words (odd multiplier, shifts ≥ 32):
    it maps words to words and every word has exactly one preimage. -/
theorem mix_bijective (g : Gen) (hm : g.mul % 2 = 1) (h1 : 32 ≤ g.sh1) (h2 : 32 ≤ g.sh2) :
    (∀ z, z < 2 ^ 64 → mix g z < 2 ^ 64) ∧ ∀ y, y < 2 ^ 64 → ∃! z, z < 2 ^ 64 ∧ mix g z = y := by
  refine ⟨fun z _ => mix_lt g z, fun y hy => ?_⟩
  obtain ⟨z, hz, hzy⟩ := surj_of_inj_words (mix g) (fun z _ => mix_lt g z) (mix_inj g hm h1 h2) y hy
  refine ⟨z, ⟨hz, hzy⟩, fun z' hz' => ?_⟩
  exact mix_inj g hm h1 h2 z' z hz'.1 hz (hz'.2.trans hzy.symm)

/-- Why the raw state must not be returned (the defect F5, fixed by the scramble): for every seed the
    low `k` bits of the LCG state repeat after `2^k` steps — needs only an odd multiplier. -/
theorem lcg_state_low_bits_periodic (g : Gen) (hA : g.A % 2 = 1) (k : Nat) (hk : k ≤ 64) (s n : Nat) :
    iter (lcgStep g) (n + 2 ^ k) s % 2 ^ k = iter (lcgStep g) n s % 2 ^ k := by
  rw [Nat.add_comm, iter_add]
  exact iter_lcg_low_bits g hA k hk _

/-- …hence `next(0..2^k)` computed from the *unscrambled* state would have a period dividing `2^k`
    (`next(0..4)`: period 4), whatever the seed. -/
theorem unscrambled_small_range_periodic (g : Gen) (hA : g.A % 2 = 1) (k : Nat) (hk : k < 64) (s n : Nat) :
    gen ⟨false, 64⟩ (.range 0 (2 ^ k)) (iter (lcgStep g) (n + 2 ^ k) s) =
    gen ⟨false, 64⟩ (.range 0 (2 ^ k)) (iter (lcgStep g) n s) := by
  have hp : (2 : Int) ^ k < 2 ^ 64 := by
    have : (2 : Nat) ^ k < 2 ^ 64 := Nat.pow_lt_pow_right (by decide) hk
    exact_mod_cast this
  have hpos : (0 : Int) < 2 ^ k := by positivity
  have hmin : (⟨false, 64⟩ : IntTy).minVal = 0 := rfl
  have hmax : (⟨false, 64⟩ : IntTy).maxVal = 2 ^ 64 - 1 := rfl
  have e : ∀ raw : Nat, gen ⟨false, 64⟩ (.range 0 (2 ^ k)) raw = .ok (((raw % 2 ^ k : Nat) : Int)) := by
    intro raw
    show genRange _ _ _ _ = _
    rw [genRange_eq ⟨false, 64⟩ (by decide) 0 (2 ^ k) raw (by rw [hmin, hmax]; omega) (by rw [hmin, hmax]; omega) hpos]
    congr 1
    simp
  rw [e, e, lcg_state_low_bits_periodic g hA k (by omega) s n]

/-- **Full period** (Hull–Dobell for modulus `2^64`): with `A ≡ 1 (mod 4)` and `C` odd the state returns
    to a 64-bit starting value exactly after multiples of `2^64` steps. -/
theorem lcg_full_period (g : Gen) (hA : g.A % 4 = 1) (hC : g.C % 2 = 1) (s : Nat) (hs : s < 2 ^ 64) (n : Nat) :
    iter (lcgStep g) n s = s ↔ 2 ^ 64 ∣ n :=
  iter_lcg_fixed_iff g hA hC s hs n

/-- Within one period no output word repeats … -/
theorem outputs_distinct_within_period (g : Gen) (hA : g.A % 4 = 1) (hC : g.C % 2 = 1) (hm : g.mul % 2 = 1)
    (h1 : 32 ≤ g.sh1) (h2 : 32 ≤ g.sh2) (s i j : Nat) (hij : i < j) (hj : j < i + 2 ^ 64) :
    rawAt g s i ≠ rawAt g s j := by
  intro h
  unfold rawAt at h
  have hlt : ∀ k, iter (lcgStep g) (k + 1) s < 2 ^ 64 := fun k => by rw [iter_succ']; exact lcgStep_lt _ _
  have h3 := mix_inj g hm h1 h2 _ _ (hlt i) (hlt j) h
  have e : j + 1 = (j - i) + (i + 1) := by omega
  rw [e, iter_add (lcgStep g) (j - i) (i + 1) s] at h3
  have h4 := (lcg_full_period g hA hC _ (hlt i) (j - i)).mp h3.symm
  have := Nat.le_of_dvd (by omega) h4
  omega

/-- … so over a full period every 64-bit word is output exactly once. -/
theorem every_word_once_per_period (g : Gen) (hA : g.A % 4 = 1) (hC : g.C % 2 = 1) (hm : g.mul % 2 = 1)
    (h1 : 32 ≤ g.sh1) (h2 : 32 ≤ g.sh2) (s y : Nat) (hy : y < 2 ^ 64) :
    ∃! i, i < 2 ^ 64 ∧ rawAt g s i = y := by
  have hinj : ∀ a b, a < 2 ^ 64 → b < 2 ^ 64 → rawAt g s a = rawAt g s b → a = b := by
    intro a b ha hb hab
    rcases Nat.lt_trichotomy a b with hlt | heq | hgt
    · exact absurd hab (outputs_distinct_within_period g hA hC hm h1 h2 s a b hlt (by omega))
    · exact heq
    · exact absurd hab.symm (outputs_distinct_within_period g hA hC hm h1 h2 s b a hgt (by omega))
  obtain ⟨i, hi, hiy⟩ := surj_of_inj_words (rawAt g s) (fun z _ => mix_lt g _) hinj y hy
  exact ⟨i, ⟨hi, hiy⟩, fun i' hi' => hinj i' i hi'.1 hi (hi'.2.trans hiy.symm)⟩

/-! The constants extracted from the source satisfy the side conditions (re-proved at every build of this
    file, i.e. whenever `Generated/RandParams.lean` changes). -/
theorem rng_side_conditions :
    rng.A % 4 = 1 ∧ rng.C % 2 = 1 ∧ rng.mul % 2 = 1 ∧ 32 ≤ rng.sh1 ∧ 32 ≤ rng.sh2 ∧ rng.A < 2 ^ 64 ∧ rng.C < 2 ^ 64
      ∧ Params.floatShift + Params.floatBits = 64 ∧ Params.floatBits ≤ 53 := by
  decide

/-- the real `Rng`: scramble bijective, full period, every word once per period -/
theorem rng_every_word_once_per_period (seed y : Nat) (hy : y < 2 ^ 64) :
    ∃! i, i < 2 ^ 64 ∧ rawAt rng seed i = y :=
  every_word_once_per_period rng rng_side_conditions.1 rng_side_conditions.2.1 rng_side_conditions.2.2.1
    rng_side_conditions.2.2.2.1 rng_side_conditions.2.2.2.2.1 seed y hy

/-- Every call of `next(range)` on any generator state lies in the range (`next` = `gen_from_u64 ∘ next_raw`). -/
theorem next_in_range (g : Gen) (t : IntTy) (hw : 1 ≤ t.bits) (f : Form) (hty : f.wellTyped t = true)
    (hne : f.lo t ≤ f.hi t) (state : Nat) :
    ∃ v, (next g t f state).2 = .ok v ∧ f.lo t ≤ v ∧ v ≤ f.hi t :=
  int_range_in t hw f _ hty hne

/-! non-vacuity: the hypotheses of the period/bijection theorems are met by the real constants
    (`rng_side_conditions`); concrete evaluations of the model -/
/-- the constants of `Rng` at the time of writing, as literals (the examples must not depend on the
    extracted file: a legitimate change of the constants may not break them) -/
def exampleGen : Gen := ⟨6364136223846793005, 1442695040888963407, 33, 0xff51afd7ed558ccd, 33⟩
example : exampleGen.A % 4 = 1 ∧ exampleGen.C % 2 = 1 ∧ exampleGen.mul % 2 = 1 ∧ 32 ≤ exampleGen.sh1 ∧ 32 ≤ exampleGen.sh2 := by decide
example : (rawStream exampleGen 2 42).1 = [5761867088736727952, 8179765220119699510] := by decide
example : iter (lcgStep exampleGen) (3 + 2 ^ 2) 42 % 2 ^ 2 = iter (lcgStep exampleGen) 3 42 % 2 ^ 2 := by decide
example : iter (lcgStep exampleGen) 4 42 ≠ 42 := by decide
example : (next exampleGen ⟨true, 32⟩ (.range 0 4) 42).2 = .ok 0 := by decide
example : mix exampleGen 0 = 0 ∧ mix exampleGen 1 < 2 ^ 64 := by decide

/-! ## several live generators, copies made mid-history (the `multi` case lines) -/

/-- **Copies give equal streams, for every history.** Any number of generators alive at once and used
    interleaved, copied at any moment by any means (`Op.dup`: `let b = a`, `a.clone()`, a derived `Clone` of a
    holder, …; `Op.assign`: `=` / `clone_from` into a used generator; `Op.dupAll`: `Vec<Rng>::clone`), re-seeded
    from drawn words (`Op.fork`): every operation of the model (a generator is its state) returns exactly the
    words the specification assigns to the generator's LINEAGE `(seed, k)` — the words number `k, k+1, …` of the
    stream of `seed` — and the states left behind are the states of the final lineages. -/
theorem multi_run_eq_spec (g : Gen) (seeds : List Nat) (ops : List Multi.Op) :
    (Multi.run g seeds ops).1 = (Multi.specRun g (Multi.fresh seeds) ops).1 ∧
    (Multi.run g seeds ops).2 = (Multi.specRun g (Multi.fresh seeds) ops).2.map (Multi.Lin.state g) := by
  have h := Multi.run_eq_spec g (Multi.fresh seeds) ops
  rw [Multi.fresh_state] at h
  rw [h]
  exact ⟨rfl, rfl⟩

/-- The literal clause: after generator `i` has been copied (the copy is pushed as generator number `len`),
    `c` words drawn from the original and then `c` words drawn from the copy are the same words, whatever the
    other live generators are. -/
theorem copy_and_original_agree (g : Gen) (slots : List Nat) (i c : Nat) (hi : i < slots.length) :
    (Multi.run g slots [.dup i, .use i c, .use slots.length c]).1 =
      [[], (rawStream g c slots[i]).1, (rawStream g c slots[i]).1] := by
  have hm : i % slots.length = i := Nat.mod_eq_of_lt hi
  have hm1 : i % (slots.length + 1) = i := Nat.mod_eq_of_lt (by omega)
  have hm2 : slots.length % (slots.length + 1) = slots.length := Nat.mod_eq_of_lt (by omega)
  simp [Multi.run, Multi.step, hm, hm1, hm2, hi, List.getElem?_append_left]

/-- … and the same for a copy ASSIGNED into a generator that was already in use (`b = a`, `b.clone_from(&a)`). -/
theorem assigned_copy_agrees (g : Gen) (slots : List Nat) (i j c : Nat) (hi : i < slots.length) (hj : j < slots.length)
    (hij : i ≠ j) :
    (Multi.run g slots [.assign i j, .use i c, .use j c]).1 =
      [[], (rawStream g c slots[i]).1, (rawStream g c slots[i]).1] := by
  have hm : i % slots.length = i := Nat.mod_eq_of_lt hi
  have hmj : j % slots.length = j := Nat.mod_eq_of_lt hj
  have hji : j ≠ i := fun h => hij h.symm
  simp [Multi.run, Multi.step, hm, hmj, hi, hj, hij, hji]

/-! non-vacuity: two generators from equal seeds, a copy taken after one word, a re-seeded generator; evaluated
    by the model itself -/
example : (Multi.run exampleGen [42, 42] [.use 0 1, .dup 0, .use 1 2, .use 0 1, .use 2 1, .assign 1 0, .use 0 1, .dupAll, .use 5 1]).1 =
    [[5761867088736727952], [], [5761867088736727952, 8179765220119699510], [8179765220119699510], [8179765220119699510], [],
     [(rawStream exampleGen 3 42).1.getD 2 0], [], [(rawStream exampleGen 3 42).1.getD 2 0]] := by decide
example : (Multi.specRun exampleGen (Multi.fresh [7]) [.fork 0, .use 1 1]).2 = [⟨7, 1⟩, ⟨(rawStream exampleGen 1 7).1.getD 0 0, 1⟩] := by decide

/-! ## shuffle -/

/-- For **every** stream of raw words and every slice (shorter than `2^64`) `shuffle` does not panic and
    returns a rearrangement of the same elements. -/
theorem shuffle_perm {α : Type} (draw : Nat → Nat) (v : List α) (h64 : v.length < 2 ^ 64) :
    ∃ v', shuffle draw v = .ok v' ∧ v'.Perm v := by
  unfold shuffle
  exact shuffleLoop_perm draw (v.length - 1) 1 v (by omega) h64

/-- Fisher–Yates is onto: every rearrangement `u` of `v` is produced by some stream of in-range draws
    (`draw (i-1) ≤ i`, the value used in iteration `i`). -/
theorem shuffle_onto {α : Type} (v u : List α) (hp : u.Perm v) (h64 : v.length < 2 ^ 64) :
    ∃ draw : Nat → Nat, (∀ x, draw x ≤ x + 1) ∧ shuffle draw v = .ok u := by
  unfold shuffle
  refine shuffleLoop_onto v h64 (v.length - 1) (by omega) u hp ?_
  intro idx hidx
  have hl := hp.length_eq
  rw [List.getElem?_eq_none (by omega), List.getElem?_eq_none (by omega)]

/-- `shuffle` driven by the generator itself is `shuffle` on the generator's stream, and leaves the
    generator advanced by `len - 1` steps. -/
theorem shuffleRng_spec {α : Type} (g : Gen) (s : Nat) (v : List α) :
    (shuffleRng g s v).1 = shuffle (rawAt g s) v ∧ (shuffleRng g s v).2 = iter (lcgStep g) (v.length - 1) s := by
  unfold shuffleRng
  constructor
  · simp only []
    unfold shuffle
    apply shuffleLoop_congr _ _ _ 1 v (le_refl _)
    intro x _ hx
    simp only [Nat.sub_self, Nat.zero_add] at hx
    rw [rawStream_fst]
    simp [hx]
  · exact rawStream_snd g _ s

example : shuffle (fun k => [0, 1, 2].getD k 0) [10, 20, 30, 40] = .ok [20, 30, 40, 10] := by decide
example : ∃ draw : Nat → Nat, (∀ x, draw x ≤ x + 1) ∧ shuffle draw [1, 2, 3] = .ok [3, 1, 2] :=
  shuffle_onto [1, 2, 3] [3, 1, 2] (by decide) (by decide)

/-! ## float draws -/

/-- An empty (or NaN-bounded) float range panics in the `assert!`. -/
theorem float_range_empty {α : Type} (o : FloatOps α) (sh b : Nat) (s e : α) (raw : Nat) (h : o.lt s e = false) :
    genF o sh b s e raw = .error .assert :=
  genF_empty o sh b s e raw h

/-- Upper bound for **any** arithmetic (IEEE-754 with rounding, overflow to ∞ and NaN included): if
    `start < end` holds in that arithmetic the draw does not panic and the returned `x` satisfies
    `x < end` in the same arithmetic — the final guard of the repaired code. -/
theorem float_range_lt_end {α : Type} (o : FloatOps α) (sh b : Nat) (s e : α) (raw : Nat) (h : o.lt s e = true) :
    ∃ x, genF o sh b s e raw = .ok x ∧ o.lt x e = true := by
  obtain ⟨x, hx, hlt, _⟩ := genF_guard o sh b s e raw h
  exact ⟨x, hx, hlt⟩

/-- Both bounds, for exact rational arithmetic followed by **any** rounding function that is monotone,
    fixes `0` and fixes the representable bound `start`: `start ≤ x < end` for every raw word. -/
theorem float_range_in (rnd : ℚ → ℚ) (hmono : ∀ a b, a ≤ b → rnd a ≤ rnd b) (h0 : rnd 0 = 0)
    (sh b : Nat) (s e : ℚ) (hs : rnd s = s) (hlt : s < e) (raw : Nat) :
    ∃ x, genF (roundedOps rnd) sh b s e raw = .ok x ∧ s ≤ x ∧ x < e :=
  genF_rounded_in rnd hmono h0 sh b s e hs hlt raw

/-- The instance for **IEEE-754 binary64 rounding**: round to nearest, ties to even, 53-bit significands, gradual
    underflow at `2^-1074` (`rne 53 (-1074)`, proved monotone with `rne 0 = 0` and every double-precision number a
    fixed point). For every representable `start = m·2^j` (`|m| < 2^53`, `j ≥ -1074`), every `end > start` and every
    raw word: `start ≤ x < end`. The only thing binary64 has beyond this arithmetic is overflow to ±∞ / NaN; there
    `float_range_lt_end` applies (the guard returns `start`). -/
theorem float_range_in_binary64 (sh b : Nat) (m j : ℤ) (hm : |m| < 2 ^ 53) (hj : -1074 ≤ j) (e : ℚ)
    (hlt : (m : ℚ) * 2 ^ j < e) (raw : Nat) :
    ∃ x, genF (roundedOps (rne 53 (-1074))) sh b ((m : ℚ) * 2 ^ j) e raw = .ok x ∧ (m : ℚ) * 2 ^ j ≤ x ∧ x < e :=
  float_range_in (rne 53 (-1074)) (rne_mono 53 (by decide) (-1074)) (rne_zero 53 (-1074)) sh b _ e
    (rne_fix 53 (-1074) m j hm hj) hlt raw

example (raw : Nat) : ∃ x, genF (roundedOps (rne 53 (-1074))) 11 53 ((-3 : ℤ) * 2 ^ (-1074 : ℤ)) (1 / 3) raw = .ok x ∧
    ((-3 : ℤ) : ℚ) * 2 ^ (-1074 : ℤ) ≤ x ∧ x < 1 / 3 :=
  float_range_in_binary64 11 53 (-3) (-1074) (by decide) (by decide) (1 / 3)
    (by have : (0 : ℚ) < 2 ^ (-1074 : ℤ) := zpow_pos (by norm_num) _
        have h3 : ((-3 : ℤ) : ℚ) = -3 := by norm_num
        rw [h3]; linarith) raw

/-! non-vacuity: a genuine rounding (down to multiples of 1/8) meets the hypotheses -/
example (raw : Nat) : ∃ x, genF (roundedOps floor8) 11 53 (1 / 8) (7 / 8) raw = .ok x ∧ 1 / 8 ≤ x ∧ x < 7 / 8 :=
  float_range_in floor8 floor8_mono floor8_zero 11 53 (1 / 8) (7 / 8) (by simpa using floor8_fix 1) (by norm_num) raw

end Rlib.C14
