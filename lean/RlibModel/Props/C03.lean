import RlibModel.Lemmas.TreapHistory
import RlibModel.Lemmas.TreapItems
/-!
# C03 — a treap behaves as a sequence under split / merge / insert / remove with lazy updates

Property theorems only (model: `Model/Treap.lean`, `Model/TreapItems.lean`; helper lemmas:
`Lemmas/Treap*.lean`). `I` is an arbitrary item, `hI : Lawful I` its laws (nothing commutes).
Priorities are universally quantified in every statement and never occur in a conclusion:
the represented sequence `seq` does not depend on the shape. `WFt` = at every node the stored
size and aggregate are the length and the in-order fold of the sequence below it.
-/
namespace Rlib.C03
open Rlib.Treap
variable {T E G M V : Type} (I : TItem T E G M V)

/-- `merge` concatenates, for every assignment of priorities (ties included), and keeps the
    size/aggregate invariant. -/
theorem merge_seq (hI : Lawful I) (a b : Tree T) (ha : WFt I a) (hb : WFt I b) :
    seq I (merge I a b) = seq I a ++ seq I b ∧ WFt I (merge I a b) :=
  ⟨merge_seq' I hI a b, merge_WFt I hI a b ha hb⟩

/-- `split_at` returns `take k` / `drop k` — for every `k`, also past the end. -/
theorem splitAt_seq (hI : Lawful I) (t : Tree T) (k : Nat) (h : WFt I t) :
    seq I (splitAt I t k).1 = (seq I t).take k ∧ seq I (splitAt I t k).2 = (seq I t).drop k ∧
    WFt I (splitAt I t k).1 ∧ WFt I (splitAt I t k).2 :=
  splitAt_spec I hI t k h

/-- `split_by` with a predicate on the visible element that is true on a prefix and false after
    it returns exactly that prefix and the rest. -/
theorem splitBy_seq (hI : Lawful I) (g : E → Bool) (t : Tree T) (h : WFt I t)
    (hg : (seq I t).Pairwise (fun a b => g b = true → g a = true)) :
    seq I (splitBy I (fun it => g (I.own it)) t).1 = (seq I t).takeWhile g ∧
    seq I (splitBy I (fun it => g (I.own it)) t).2 = (seq I t).dropWhile g ∧
    WFt I (splitBy I (fun it => g (I.own it)) t).1 ∧ WFt I (splitBy I (fun it => g (I.own it)) t).2 :=
  splitBy_spec I hI g t h hg

/-- `insert_at(k, new v)` inserts at position `k` (at the end when `k` is past it), whatever
    priority the new node draws. -/
theorem insertAt_seq (hI : Lawful I) (t : Tree T) (k : Nat) (v : V) (p : Nat) (h : WFt I t) :
    seq I (insertAt I t k (I.new v) p) = (seq I t).take k ++ I.own (I.new v) :: (seq I t).drop k ∧
    WFt I (insertAt I t k (I.new v) p) :=
  insertAt_spec I hI t k v p h

/-- `remove_at(k)` returns the `k`-th element and leaves the sequence without it. **What is returned**
    is an item and not only a value: it is the item of a one-node treap — stored size 1, stored
    aggregate = the aggregate of its own element (`Singleton`), no pending modification — so the
    caller can hand it to `insert_at` / `from_item` again (`insertItem_seq`, `fromItem_seq`, `moveAt_seq`). -/
theorem removeAt_seq (hI : Lawful I) (t : Tree T) (k : Nat) (h : WFt I t) (hk : k < (seq I t).length) :
    (removeAt I t k).1.map I.own = .ok (seq I t)[k] ∧
    seq I (removeAt I t k).2 = (seq I t).eraseIdx k ∧ WFt I (removeAt I t k).2 ∧
    (∃ it, (removeAt I t k).1 = .ok it) ∧
    ∀ it, (removeAt I t k).1 = .ok it → Singleton I it ∧ ∀ a, I.pa it a = a := by
  obtain ⟨h1, h2, h3⟩ := removeAt_spec I hI t k h
  rw [List.getElem?_eq_getElem hk] at h1 h2
  exact ⟨h1, h2, h3, (removeAt_ok_iff I hI t k h).2 hk, fun it hr => removeAt_item I hI t k h it hr⟩

/-- `insert_at(k, it)` for ANY item that stands for one element — a fresh `Item::new(v)`
    (`Singleton_new`) or an item an earlier `remove_at` returned — whatever priority the node draws. -/
theorem insertItem_seq (hI : Lawful I) (t : Tree T) (k : Nat) (it : T) (p : Nat) (h : WFt I t)
    (hs : Singleton I it) :
    seq I (insertAt I t k it p) = (seq I t).take k ++ I.own it :: (seq I t).drop k ∧
    WFt I (insertAt I t k it p) :=
  insertAt_item_spec I hI t k it p h hs

/-- `Treap::from_item(it)` of such an item is the one-element sequence `[own it]` -/
theorem fromItem_seq (hI : Lawful I) (it : T) (p : Nat) (hs : Singleton I it) :
    seq I (single it p) = [I.own it] ∧ WFt I (single it p) :=
  ⟨by simp [single, seq], (WFt_single_iff I hI it p).2 hs⟩

/-- a fresh item is such an item -/
theorem new_singleton (hI : Lawful I) (v : V) : Singleton I (I.new v) := Singleton_new I hI v

/-- modifying an item that stands for one element (`it.modify(m)` on a fresh item, or on one the API
    returned) gives an item that stands for the modified element; the modification stays PENDING in it
    (`I.pa (I.tag m it) = I.act m ∘ I.pa it`, law `tag_pa`) — `insertItem_seq` / `fromItem_seq` apply to it -/
theorem tagged_singleton (hI : Lawful I) (m : M) (it : T) (hs : Singleton I it) :
    Singleton I (I.tag m it) ∧ I.own (I.tag m it) = I.act m (I.own it) ∧
    ∀ a, I.pa (I.tag m it) a = I.act m (I.pa it a) :=
  ⟨Singleton_tag I hI m it hs, hI.tag_own m it, hI.tag_pa m it⟩

/-- **`insert_at` of an item that carries a pending modification** (`let mut it = Item::new(v); it.modify(m);
    t.insert_at(k, it)`): the modified element appears at position `k` and NO other element changes — the
    modification was attached to the one-element subtree `[v]`, not to whatever ends up below the new node —
    whatever priority the new node draws (i.e. also when it is linked above its neighbours). -/
theorem insertTagged_seq (hI : Lawful I) (t : Tree T) (k : Nat) (v : V) (m : M) (p : Nat) (h : WFt I t) :
    seq I (insertAt I t k (I.tag m (I.new v)) p) =
      (seq I t).take k ++ I.act m (I.own (I.new v)) :: (seq I t).drop k ∧
    WFt I (insertAt I t k (I.tag m (I.new v)) p) := by
  have hs := Singleton_tag I hI m _ (Singleton_new I hI v)
  obtain ⟨q1, q2⟩ := insertAt_item_spec I hI t k _ p h hs
  exact ⟨by rw [q1, hI.tag_own], q2⟩

/-- **the item at the root of a one-element treap, read through the public `root` field** (`t.size() == 1`;
    nobody pushed it: it carries every modification attached to that treap since it was cut out): the treap is
    that single node, the item stands for its element, and `insert_at(pos, it)` into ANY treap `u` puts exactly
    that element at `pos` and changes nothing else, whatever priority the new node draws. -/
theorem rootItem_seq (hI : Lawful I) (t : Tree T) (h : WFt I t) (it : T) (ho : onlyItem? I t = some it)
    (u : Tree T) (hu : WFt I u) (pos p : Nat) :
    seq I t = [I.own it] ∧ Singleton I it ∧
    seq I (insertAt I u pos it p) = (seq I u).take pos ++ I.own it :: (seq I u).drop pos ∧
    WFt I (insertAt I u pos it p) := by
  obtain ⟨_, h2, h3⟩ := onlyItem_some I hI t h it ho
  exact ⟨h2, h3, insertAt_item_spec I hI u pos it p hu h3⟩

/-- `onlyItem?` answers exactly for the treaps that represent one element -/
theorem rootItem_iff (hI : Lawful I) (t : Tree T) (h : WFt I t) :
    (∃ it, onlyItem? I t = some it) ↔ (seq I t).length = 1 := by
  constructor
  · rintro ⟨it, ho⟩
    rw [(onlyItem_some I hI t h it ho).2.1]; rfl
  · intro hl
    cases ho : onlyItem? I t with
    | some it => exact ⟨it, rfl⟩
    | none => exact absurd hl (onlyItem_none I t h ho)

/-- **moving an element**: `let it = t.remove_at(k); t.insert_at(j, it)` — the item the removal
    returned is re-used as it is. The sequence loses position `k` and gets that element at `j`. -/
theorem moveAt_seq (hI : Lawful I) (t : Tree T) (k j : Nat) (p : Nat) (h : WFt I t) (hk : k < (seq I t).length)
    (it : T) (hr : (removeAt I t k).1 = .ok it) :
    I.own it = (seq I t)[k] ∧
    seq I (insertAt I (removeAt I t k).2 j it p) =
      ((seq I t).eraseIdx k).take j ++ (seq I t)[k] :: ((seq I t).eraseIdx k).drop j ∧
    WFt I (insertAt I (removeAt I t k).2 j it p) := by
  obtain ⟨h1, h2, h3, _, h5⟩ := removeAt_seq I hI t k h hk
  rw [hr] at h1
  have hx : I.own it = (seq I t)[k] := by simpa [Except.map] using h1
  obtain ⟨q1, q2⟩ := insertAt_item_spec I hI _ j it p h3 (h5 it hr).1
  exact ⟨hx, by rw [q1, h2, hx], q2⟩

/-- cloning the only element of a treap through `first()`, `last()` or `collect()[0]` and building
    a treap from the clone gives the same one-element sequence (a clone of an INTERIOR node's item is
    not a fresh item — it carries its subtree's size and aggregate — and is outside the property) -/
theorem cloneOnly_seq (hI : Lawful I) (w : Nat) (t : Tree T) (h : WFt I t) (hc : (seq I t).length ≤ 1) (p : Nat) :
    (pick I w t).1.map I.own = (if w = 1 then (seq I t).getLast? else (seq I t).head?) ∧
    seq I (pick I w t).2 = seq I t ∧ WFt I (pick I w t).2 ∧
    seq I (ofItem? (pick I w t).1 p) = seq I t ∧ WFt I (ofItem? (pick I w t).1 p) :=
  pick_spec I hI w t h hc p

/-- `collect_into` of one treap after the other into the same vector appends, pending tags applied -/
theorem collectInto_seq (hI : Lawful I) (a b : Tree T) (ha : WFt I a) (hb : WFt I b) :
    ((collect I a).1 ++ (collect I b).1).map I.own = seq I a ++ seq I b := by
  rw [List.map_append, (collect_spec' I hI a ha).1, (collect_spec' I hI b hb).1]

/-- past the end `remove_at` panics in `unwrap` and the treap still holds the whole sequence. -/
theorem removeAt_past_end (hI : Lawful I) (t : Tree T) (k : Nat) (h : WFt I t) (hk : (seq I t).length ≤ k) :
    (removeAt I t k).1.map I.own = .error .unwrap ∧
    seq I (removeAt I t k).2 = seq I t ∧ WFt I (removeAt I t k).2 := by
  obtain ⟨h1, h2, h3⟩ := removeAt_spec I hI t k h
  rw [List.getElem?_eq_none_iff.2 hk] at h1 h2
  exact ⟨h1, h2, h3⟩

/-- `first` returns the first element; the pushes it performs change nothing observable. -/
theorem first_spec (hI : Lawful I) (t : Tree T) (h : WFt I t) :
    (first I t).1.map I.own = (seq I t).head? ∧ seq I (first I t).2 = seq I t ∧ WFt I (first I t).2 :=
  first_spec' I hI t h

theorem last_spec (hI : Lawful I) (t : Tree T) (h : WFt I t) :
    (last I t).1.map I.own = (seq I t).getLast? ∧ seq I (last I t).2 = seq I t ∧ WFt I (last I t).2 :=
  last_spec' I hI t h

theorem collect_spec (hI : Lawful I) (t : Tree T) (h : WFt I t) :
    (collect I t).1.map I.own = seq I t ∧ seq I (collect I t).2 = seq I t ∧ WFt I (collect I t).2 :=
  collect_spec' I hI t h

theorem size_spec (t : Tree T) (h : WFt I t) : size I t = (seq I t).length :=
  size_eq I t h

/-- the aggregate stored at a (sub)tree root is the in-order fold of exactly that subsequence -/
theorem root_agg (t : Tree T) (h : WFt I t) :
    rootAgg I t = if (seq I t).isEmpty then none else some (foldG I (seq I t)) :=
  rootAgg_spec I t h

/-- the aggregate of a split-out middle part is the fold of exactly `[l, r]` -/
theorem range_agg (hI : Lawful I) (t : Tree T) (l r : Nat) (h : WFt I t)
    (hne : (((seq I t).take (r + 1)).drop l).isEmpty = false) :
    rangeAgg I t l r = some (foldG I (((seq I t).take (r + 1)).drop l)) := by
  obtain ⟨a1, _, a3, _⟩ := splitAt_spec I hI t (r + 1) h
  obtain ⟨_, b2, _, b4⟩ := splitAt_spec I hI (splitAt I t (r + 1)).1 l a3
  unfold rangeAgg
  rw [rootAgg_spec I _ b4, b2, a1, hne]; rfl

/-- a modifier attached at a root is applied to every element of that tree, once -/
theorem tagRoot_seq (hI : Lawful I) (m : M) (t : Tree T) (h : WFt I t) :
    seq I (tagRoot I m t) = (seq I t).map (I.act m) ∧ WFt I (tagRoot I m t) :=
  tagRoot_spec I hI m t h

/-- split out `[l, r]`, tag it, merge back: exactly the elements of `[l, r]` are modified -/
theorem rangeTag_seq (hI : Lawful I) (t : Tree T) (l r : Nat) (m : M) (h : WFt I t) :
    seq I (rangeTag I t l r m) =
      (seq I t).take (min l (r + 1)) ++ (((seq I t).take (r + 1)).drop l).map (I.act m) ++ (seq I t).drop (r + 1) ∧
    WFt I (rangeTag I t l r m) := by
  obtain ⟨a1, a2, a3, a4⟩ := splitAt_spec I hI t (r + 1) h
  obtain ⟨b1, b2, b3, b4⟩ := splitAt_spec I hI (splitAt I t (r + 1)).1 l a3
  obtain ⟨c1, c2⟩ := tagRoot_spec I hI m _ b4
  have hw := merge_WFt I hI _ _ b3 c2
  unfold rangeTag
  refine ⟨?_, merge_WFt I hI _ _ hw a4⟩
  rw [merge_seq' I hI, merge_seq' I hI, c1, b1, b2, a1, a2, List.take_take]

/-- **History refinement.** For any number of live treaps, named by index, and any history of
    operations inside the property's domain (`split_by` predicates prefix-monotone on the sequence
    they split): running the specification on the represented sequences gives the image of the
    model run — same validity, same observations in order, same final sequences — and every
    live treap stays well-formed. In particular every lazily attached modifier ends up applied
    to exactly the elements that were in the tagged tree at tagging time, once, in attachment order
    (that is what the list-level `tag` of `stepS` does). -/
theorem history_refines (hI : Lawful I) (ops : List (Op E M V)) (ts : List (Tree T)) (hwf : AllWF I ts)
    (hd : runInDomB (G := G) I (ts.map (seq I)) ops = true) :
    runS I (ts.map (seq I)) ops = (runM I ts ops).map (fun r => (r.1.map (seq I), r.2)) ∧
    ∀ r, runM I ts ops = some r → AllWF I r.1 :=
  run_refines I hI ops ts hwf hd

/-- the form the correspondence check uses: starting from no treaps at all, the observations of
    the model are the observations of the list specification -/
theorem history_observations (hI : Lawful I) (ops : List (Op E M V))
    (hd : runInDomB (G := G) I [] ops = true) :
    (runS (G := G) I [] ops).map (·.2) = (runM I [] ops).map (·.2) := by
  have h := (run_refines I hI ops [] (fun _ ht => by cases ht) hd).1
  simp only [List.map_nil] at h
  rw [h]; cases runM I [] ops <;> rfl

/-- two modifiers attached one after the other act in attachment order (they need not commute) -/
theorem tags_apply_in_order (hI : Lawful I) (m1 m2 : M) (t : Tree T) (h : WFt I t) :
    seq I (tagRoot I m2 (tagRoot I m1 t)) = (seq I t).map (fun e => I.act m2 (I.act m1 e)) := by
  obtain ⟨a1, a2⟩ := tagRoot_spec I hI m1 t h
  rw [(tagRoot_spec I hI m2 _ a2).1, a1, List.map_map]; rfl

/-- the domain check the driver runs is the stated hypothesis of `splitBy_seq` -/
theorem prefixMono_iff (g : E → Bool) (l : List E) :
    prefixMonoB g l = true ↔ l.Pairwise (fun a b => g b = true → g a = true) :=
  prefixMonoB_iff g l

/-- the driver answers with the spec (instead of `any`) only inside the **stated** domain
    (`split_at`/`insert_at` positions in `0..=len`, `remove_at` positions in `0..len`, monotone
    predicates); that domain is inside the one `history_refines` is proved for -/
theorem stated_in_domain (ops : List (Op E M V)) (ls : List (List E))
    (h : runStatedB (G := G) I ls ops = true) : runInDomB (G := G) I ls ops = true := by
  induction ops generalizing ls with
  | nil => rfl
  | cons op ops ih =>
    simp only [runStatedB, runInDomB, Bool.and_eq_true] at h ⊢
    refine ⟨?_, ?_⟩
    · cases op <;> first | rfl | exact h.1
    · cases hs : stepS (G := G) I ls op with
      | none => rfl
      | some r => have h2 := h.2; rw [hs] at h2; exact ih _ h2

/-! ### the items the correspondence runs are lawful -/

theorem sumAdd_lawful : Lawful sumAdd := sumAdd_lawful'
theorem affHash_lawful : Lawful affHash := affHash_lawful'
/-- the item that relies on the default (empty) `update`/`push` of the trait, with its ghost size -/
theorem keyOnly_lawful : Lawful keyOnly := keyOnly_lawful'

/-! ### non-vacuity -/

-- the laws are satisfiable, by items whose modifiers and aggregates do not commute
example : affHash.act (0, 5) (affHash.act (1, 3) 7) ≠ affHash.act (1, 3) (affHash.act (0, 5) 7) := by decide
example : affHash.mul (affHash.inj 1) (affHash.inj 2) ≠ affHash.mul (affHash.inj 2) (affHash.inj 1) := by decide

-- a well-formed non-trivial tree with a pending tag, built by the model functions themselves
example : WFt affHash (tagRoot affHash (-1, 4) (merge affHash (single (affHash.new 3) 5)
    (merge affHash (single (affHash.new 8) 2) (single (affHash.new 1) 2)))) :=
  (tagRoot_seq affHash affHash_lawful _ _
    (merge_seq affHash affHash_lawful _ _ (WFt_single _ affHash_lawful _ _)
      (merge_seq affHash affHash_lawful _ _ (WFt_single _ affHash_lawful _ _) (WFt_single _ affHash_lawful _ _)).2).2).2

example : seq affHash (tagRoot affHash (-1, 4) (merge affHash (single (affHash.new 3) 5)
    (merge affHash (single (affHash.new 8) 2) (single (affHash.new 1) 2)))) = [1, -4, 3] := by
  have w := WFt_single affHash affHash_lawful
  have h2 := merge_seq affHash affHash_lawful _ _ (w 8 2) (w 1 2)
  have h1 := merge_seq affHash affHash_lawful _ _ (w 3 5) h2.2
  rw [(tagRoot_seq affHash affHash_lawful _ _ h1.2).1, h1.1, h2.1]
  decide

-- a history inside the domain: tags, a split by a monotone predicate, merges, on two live treaps
example : runInDomB (G := Int × Int) affHash []
    [.item 1 7, .item 5 7, .merge 0 1, .tag 0 (1, 10), .splitBy 0 (fun e => e < 12), .tag 1 (0, 3),
     .merge 1 0, .collect 0, .agg 0, .removeAt 0 1, .first 0] = true := by decide

example : (runS (G := Int × Int) affHash []
    [.item 1 7, .item 5 7, .merge 0 1, .tag 0 (1, 10), .splitBy 0 (fun e => e < 12), .tag 1 (0, 3),
     .merge 1 0, .collect 0]).map (·.1) = some [[3, 11]] := by decide

-- re-use of returned items: move inside a treap, move between treaps, take out into a new treap, clone the
-- only element, collect two treaps into one vector — in the stated domain, and what the lists become
example : runStatedB (G := Int × Int) affHash []
    [.item 1 7, .item 5 7, .item 9 2, .merge 0 1, .merge 0 1, .tag 0 (-1, 0), .moveAt 0 0 0 2 4, .takeAt 0 1 9,
     .moveAt 0 0 1 1 3, .dup 0 1 6, .collect2 1 0] = true := by decide

example : (runS (G := Int × Int) affHash []
    [.item 1 7, .item 5 7, .item 9 2, .merge 0 1, .merge 0 1, .tag 0 (-1, 0), .moveAt 0 0 0 2 4, .takeAt 0 1 9,
     .moveAt 0 0 1 1 3, .dup 0 1 6, .collect2 1 0]).map (·.1) = some [[-1], [-9, -5], [-1]] := by decide

-- items that carry a PENDING modification handed to `insert_at` (hand-built, taken from / cloned off the root of a
-- modified one-element treap): in the stated domain; the neighbours of the inserted element are not modified
example : runStatedB (G := Int × Int) affHash []
    [.item 1 7, .item 5 3, .merge 0 1, .insertTag 0 1 9 (-1, 4) 0, .item 2 6, .tag 1 (0, 8), .tag 1 (1, 1),
     .moveRoot 1 1 0 0 2, .moveRoot 1 0 0 4 1, .moveRoot 1 0 0 0 5, .collect 0] = true := by decide

example : (runS (G := Int × Int) affHash []
    [.item 1 7, .item 5 3, .merge 0 1, .insertTag 0 1 9 (-1, 4) 0, .item 2 6, .tag 1 (0, 8), .tag 1 (1, 1),
     .moveRoot 1 1 0 0 2, .moveRoot 1 0 0 4 1, .moveRoot 1 0 0 0 5, .collect 0]).map (·.1) = some [[9, 1, -5, 5, 9], []] := by decide

-- the hand-built item really carries a pending modification (it is not the identity) …
example : affHash.pa (affHash.tag (-1, 4) (affHash.new 9)) 7 = -3 := by decide
-- … and so does the root item of a modified one-element treap, which `onlyItem?` hands out
example : onlyItem? affHash (tagRoot affHash (1, 1) (tagRoot affHash (0, 8) (single (affHash.new 2) 6)))
    = some ⟨9, 2, 9, 0, 9, 1⟩ := by decide
example : affHash.pa (⟨9, 2, 9, 0, 9, 1⟩ : AffIt) 5 = 9 := by decide

-- `removeAt_seq`'s hypotheses are satisfiable and what it returns exists: a two-node treap with a pending tag
example : ∃ it, (removeAt affHash (tagRoot affHash (1, 4) (merge affHash (single (affHash.new 3) 5) (single (affHash.new 8) 2))) 1).1
    = .ok it ∧ Singleton affHash it ∧ affHash.own it = 12 := by
  have w := WFt_single affHash affHash_lawful
  have hm := merge_seq affHash affHash_lawful _ _ (w 3 5) (w 8 2)
  have ht := tagRoot_seq affHash affHash_lawful (1, 4) _ hm.2
  have hs : seq affHash (tagRoot affHash (1, 4) (merge affHash (single (affHash.new 3) 5) (single (affHash.new 8) 2))) = [7, 12] := by
    rw [ht.1, hm.1]; decide
  have hk : 1 < (seq affHash (tagRoot affHash (1, 4) (merge affHash (single (affHash.new 3) 5) (single (affHash.new 8) 2)))).length := by
    rw [hs]; decide
  obtain ⟨h1, _, _, ⟨it, hit⟩, h5⟩ := removeAt_seq affHash affHash_lawful _ 1 ht.2 hk
  refine ⟨it, hit, (h5 it hit).1, ?_⟩
  rw [hit] at h1
  have : affHash.own it = (seq affHash (tagRoot affHash (1, 4) (merge affHash (single (affHash.new 3) 5) (single (affHash.new 8) 2))))[1] := by
    simpa [Except.map] using h1
  rw [this]; simp [hs]

-- a predicate that is not prefix-monotone is outside the domain (and is reported as `any`)
example : prefixMonoB (fun e : Int => e < 2) [1, 5, 0] = false := by decide

end Rlib.C03
