import RlibModel.Lemmas.FftSpectral
/-!
# C04 — FFT multiplication exact inside the precision envelope, independent of the object's history

Property theorems only.  Model: `Model/Fft.lean` (polymorphic in an arithmetic record `Arith K` with NO
laws; the driver runs it on IEEE binary64/binary32, `Model/FftFloat.lean`), lemmas: `Lemmas/Fft.lean`.

**Level A** — everything in the first section holds for EVERY carrier `K` and EVERY `Arith K`, hence bit for
bit for `f32`/`f64` with whatever `sin`/`cos` the platform provides.

**Level B** — the second section instantiates the same model with exact complex arithmetic (`arithC`:
`K = ℂ`, `tw i cur = (cos x, sin x)`, `x = π·i/cur`, `round` exact on integers) and proves that the iterative
transform is the DFT and that `multiply` / `multiply_into` return / add exactly the integer convolution.

`multiply_into` splits very unbalanced operands into blocks of the shorter operand's length (repair of finding F11):
`multiply_into_blocks` is the recursion, `multiply_into_adds` / `multiply_into_value_independent_of_destination`
(Level A) and `conv_block_additive`, `multiply_blocks_exact`, `multiply_into_exact` (Level B) are about it.

**Not proved (tested, see `checks/C04.py`)**: that the IEEE rounding error of this operation sequence stays
below 0.5 inside the envelope, and the accuracy of libm `sin`/`cos`.
-/
namespace Rlib.C04
open Rlib.Fft
variable {K : Type}

/-- After `FFT::new()` and any sequence of `update_n(2^e)` requests the object is exactly the
    canonical object (doubling recursion `wC`/`revC`) of size `2^max(2, e₁, e₂, …)`: the tables never
    depend on the order or the number of requests. -/
theorem tables_canonical (A : Arith K) (es : List Nat) :
    es.foldl (fun s e => updateNCore A s (2^e)) (new A) = canonState A (es.foldl max 2) #[] := by
  rw [new_eq]
  suffices ∀ k, es.foldl (fun s e => updateNCore A s (2^e)) (canonState A k #[]) = canonState A (es.foldl max k) #[]
    from this 2
  induction es with
  | nil => intro k; rfl
  | cons e es ih =>
    intro k
    rw [List.foldl_cons, List.foldl_cons, updateNCore_canon A k e _ (canon_canonState A k _)]
    by_cases h : e ≤ k
    · rw [if_pos h, show max k e = k by omega]; exact ih k
    · rw [if_neg h, show max k e = e by omega]; exact ih e

/-- Bit-reversal table of a grown object read with the shift `fft_internal` uses = the table of a
    `2^m` object. -/
theorem stride_rev (m e i : Nat) (hi : i < 2^m) :
    (revArr (m + e)).getD i 0 >>> ((2^(m+e)).log2 - (2^m).log2) = (revArr m).getD i 0 := by
  rw [Nat.log2_two_pow, Nat.log2_two_pow, show m + e - m = e by omega,
    getD_revArr _ _ (Nat.lt_of_lt_of_le hi (Nat.pow_le_pow_right (by omega) (by omega))),
    getD_revArr _ _ hi, revC_stride m e i hi]

/-- Twiddle table of a grown object read with stride `N/n` = the table of a `2^m` object (even
    entries are copies, never recomputed). -/
theorem stride_w (A : Arith K) (m e j : Nat) (hj : j ≤ 2^m) :
    (wArr A (m + e)).getD (j * (2^(m+e) / 2^m)) A.zero = (wArr A m).getD j A.zero := by
  rw [Nat.pow_div (by omega) (by omega), show m + e - m = e by omega, wArr_read A m e j hj, getD_wArr A m j hj]

/-- `fft_internal` of size `2^m` gives the same buffer on any two objects, whatever their histories
    (it equals the transform run on the canonical table of size exactly `2^m`). -/
theorem fft_internal_table_indep (A : Arith K) (h₁ h₂ : List (Op K)) (m : Nat) (inv : Bool) (buf : Array K) :
    (fftInternal A { after A h₁ with buf := buf } (2^m) inv).buf
      = (fftInternal A { after A h₂ with buf := buf } (2^m) inv).buf := by
  obtain ⟨k₁, _, c₁⟩ := reach_after A h₁
  obtain ⟨k₂, _, c₂⟩ := reach_after A h₂
  rw [fftInternal_canon A k₁ m _ (canon_withBuf c₁ buf), fftInternal_canon A k₂ m _ (canon_withBuf c₂ buf)]
  rfl

/-- **History independence, all calls.** For every call history `h` (any sequence of `update_n`,
    `multiply`, `multiply_into`, `fft`, `fft_into`, `fft_inv`, `fft_inv_into`, forward·pointwise·inverse, of
    any sizes, including calls that panic) every call returns on the used object exactly what it returns
    on a brand-new object — including the panic it raises, if any. -/
theorem call_history_independent (A : Arith K) (h : List (Op K)) (op : Op K) :
    result A (after A h) op = result A (new A) op := by
  rw [(call_reach A _ (reach_after A h) op).1, (call_reach A _ (reach_new A) op).1]

/-- **History independence for every way of obtaining the object.** An object built by `FFT::new()`, by
    `FFT::default()`, by `.clone()` of any object, or by any calls on any of these (arbitrarily nested: clone of a
    used object, calls on the clone, …) answers every call exactly like a brand-new `FFT::new()`. -/
theorem built_object_independent (A : Arith K) (b : Build K) (op : Op K) :
    result A (b.state A) op = result A (new A) op := by
  rw [(call_reach A _ (reach_build A b) op).1, (call_reach A _ (reach_new A) op).1]

/-- The "reused object versus fresh object" clause for `multiply`. -/
theorem multiply_history_independent (A : Arith K) (h : List (Op K)) (a b : Array Int) :
    (multiply A (after A h) a b).2 = (multiply A (new A) a b).2 := by
  rw [(multiply_reach A _ (reach_after A h) a b).1, (multiply_reach A _ (reach_new A) a b).1]

theorem multiply_into_history_independent (A : Arith K) (h : List (Op K)) (a b : Array Int) (res : List Int) :
    (multiplyInto A (after A h) a b res).2 = (multiplyInto A (new A) a b res).2 := by
  rw [(multiplyInto_reach A _ (reach_after A h) a b res).1, (multiplyInto_reach A _ (reach_new A) a b res).1]

/-- `fft` (bit patterns of the complex output included) does not depend on the history. -/
theorem fft_history_independent (A : Arith K) (h : List (Op K)) (v : Array Int) (n : Nat) :
    (fft? A (after A h) v n).map (·.2) = (fft? A (new A) v n).map (·.2) := by
  unfold fft?
  rw [fftInto?_result A _ (reach_after A h), fftInto?_result A _ (reach_new A)]

/-- `fft_inv` does not depend on the history (true since /repo 3d98b12; before, a fresh object
    returned garbage for transforms larger than its tables). -/
theorem fft_inv_history_independent (A : Arith K) (h : List (Op K)) (v : Array K) :
    (fftInv? A (after A h) v).map (·.2) = (fftInv? A (new A) v).map (·.2) := by
  unfold fftInv?
  rw [fftInvInto?_result A _ (reach_after A h), fftInvInto?_result A _ (reach_new A)]

/-- forward transforms, pointwise product, inverse transform: the same result whether everything
    happens on one used object or the inverse is taken on a brand-new object. -/
theorem fft_mul_inv_object_independent (A : Arith K) (h : List (Op K)) (a b : Array Int) (n : Nat) :
    result A (after A h) (.fftMulInv a b n) = result A (new A) (.fftMulInvFresh a b n) := by
  rw [(call_reach A _ (reach_after A h) _).1, (call_reach A _ (reach_new A) _).1]
  rfl

/-- Length of the product. -/
theorem multiply_len (A : Arith K) (s : State K) (a b : Array Int) (ha : a.size ≠ 0) (hb : b.size ≠ 0) :
    (multiply A s a b).2.length = a.size + b.size - 1 :=
  multiply_length A s a b ha hb

/-- Empty operand: empty product, and `multiply_into` leaves the destination alone. -/
theorem multiply_empty (A : Arith K) (s : State K) (a b : Array Int) (h : a.size = 0 ∨ b.size = 0) (res : List Int) :
    (multiply A s a b).2 = [] ∧ (multiplyInto A s a b res).2 = res := by
  unfold multiply multiplyInto
  rw [if_pos h, mulBlocks_eq, if_pos h]
  exact ⟨rfl, rfl⟩

/-- `multiply_into` ADDS the product to the destination, position by position, on the common prefix
    (`zip … take`): destination shorter or longer than `|a|+|b|-1` included. -/
theorem multiply_into_adds (A : Arith K) (s : State K) (a b : Array Int) (res : List Int) :
    (multiplyInto A s a b res).2 = addPrefix res (multiply A s a b).2 :=
  multiplyInto_adds A s a b res

/-- **The block recursion of `multiply_into`** (repair of F11: unbalanced operands).  With `(short, long)` = the operands
    ordered by length (`a.len() <= b.len()` keeps `(a, b)`) and `long.len() > 2 * short.len()`, `multiply_into` is the
    loop over `long.chunks(short.len())` that calls `multiply_into(short, block, &mut res[offset..])` recursively
    (`blockLoop`: offset `k * short.len()`, `break` when the offset reaches `res.len()`); otherwise it is the
    single-transform code `multiplyDirect` with the operands in the caller's order.  Any state, any arithmetic. -/
theorem multiply_into_blocks (A : Arith K) (s : State K) (a b : Array Int) (res : List Int)
    (ha : a.size ≠ 0) (hb : b.size ≠ 0) :
    (a.size ≤ b.size → 2 * a.size < b.size →
      multiplyInto A s a b res = blockLoop a b (fun blk _ s' r' => multiplyInto A s' a blk r') 0 s #[] res)
    ∧ (b.size < a.size → 2 * b.size < a.size →
      multiplyInto A s a b res = blockLoop b a (fun blk _ s' r' => multiplyInto A s' b blk r') 0 s #[] res)
    ∧ (b.size ≤ 2 * a.size → a.size ≤ 2 * b.size → multiplyInto A s a b res = multiplyDirect A s a b res) := by
  refine ⟨fun h1 h2 => ?_, fun h1 h2 => ?_, fun h1 h2 => ?_⟩
  · show mulBlocks (multiplyDirect A) s a b res = _
    rw [mulBlocks_eq, if_neg (by omega), if_pos h1, if_pos (by omega)]
    rfl
  · show mulBlocks (multiplyDirect A) s a b res = _
    rw [mulBlocks_eq, if_neg (by omega), if_neg (by omega), if_pos (by omega)]
    rfl
  · exact mulBlocks_balanced (multiplyDirect A) s a b res ha hb h1 h2

/-- `multiply_into` never changes the length of the destination (any state, any arithmetic, any operand shapes). -/
theorem multiply_into_keeps_length (A : Arith K) (s : State K) (a b : Array Int) (res : List Int) :
    (multiplyInto A s a b res).2.length = res.length :=
  multiplyInto_length A s a b res

/-- What `multiply_into` adds does not depend on the destination: there is a list `V s` of at most `|a|+|b|-1`
    entries (depending on the object and the operands only) such that EVERY destination — shorter than a block,
    ending inside, at or before a block boundary, longer than the product — receives `addPrefix res (V s)`. -/
theorem multiply_into_value_independent_of_destination (A : Arith K) (a b : Array Int) (ha : a.size ≠ 0) (hb : b.size ≠ 0) :
    ∃ V : State K → List Int, (∀ s, (V s).length ≤ a.size + b.size - 1) ∧
      ∀ s res, (multiplyInto A s a b res).2 = addPrefix res (V s) :=
  multiplyInto_value A a b ha hb

/-- **C04, the part that is proved (Level A).** For every arithmetic (IEEE `f32`/`f64` included,
    bit for bit), every call history `h` and all inputs: `multiply` on the used object returns what a
    brand-new object returns, a list of length `|a|+|b|-1` (empty if an operand is empty), and
    `multiply_into` adds exactly that list to the destination.

    What is NOT covered by this theorem: that this common value is the integer convolution.  In exact
    arithmetic that is `Rlib.C04.multiply_exact` below (Level B) when present; the IEEE rounding-error
    bound (error < 0.5 inside the envelope) is tested by the correspondence check, not proved. -/
theorem multiply_exact_partial (A : Arith K) (h : List (Op K)) (a b : Array Int) (res : List Int) :
    (multiply A (after A h) a b).2 = (multiply A (new A) a b).2
    ∧ (multiplyInto A (after A h) a b res).2 = addPrefix res (multiply A (new A) a b).2
    ∧ ((a.size = 0 ∨ b.size = 0) → (multiply A (after A h) a b).2 = [])
    ∧ (a.size ≠ 0 → b.size ≠ 0 → (multiply A (after A h) a b).2.length = a.size + b.size - 1) := by
  refine ⟨multiply_history_independent A h a b, ?_, fun he => (multiply_empty A _ a b he []).1,
    fun ha hb => multiply_len A _ a b ha hb⟩
  rw [multiply_into_adds, multiply_history_independent]

/-- **Every accumulate-into inverse transform adds what the plain one returns**, at every size including the
    one-bin transform (`n == 1` has its own branch in `fft_inv_into`), for every destination length, every arithmetic
    and every call history: `fft_inv_into(v, res)` = `res` + `fft_inv(v)` on the common prefix, `res` unchanged beyond;
    and it raises the same panic. -/
theorem fft_inv_into_adds (A : Arith K) (h : List (Op K)) (v : Array K) (res : List Int) :
    (fftInvInto? A (after A h) v res).map (·.2) = (fftInv? A (new A) v).map (fun r => addPrefix res r.2) := by
  have e : (fftInv? A (new A) v).map (fun r => addPrefix res r.2)
      = ((fftInv? A (new A) v).map (·.2)).map (addPrefix res) := by
    cases fftInv? A (new A) v <;> rfl
  rw [e]
  unfold fftInv?
  rw [fftInvInto?_result A _ (reach_after A h), fftInvInto?_result A _ (reach_new A)]
  unfold fftInvIntoRef?
  by_cases hp : isPow2 v.size = true
  · obtain ⟨m, hm⟩ := exists_of_isPow2 _ hp
    rw [hp]
    simp only [Bool.not_true, Bool.false_eq_true, if_false, Except.map]
    rw [fftInvIntoRef_adds A m v hm res]
  · have : isPow2 v.size = false := by simpa using hp
    rw [this]
    rfl

/-- **`fft_into` adds what `fft` returns** (`Complex +=`, common prefix; the rest of a longer destination is untouched —
    `accC`), any history, every arithmetic in which adding `ZERO + y` equals adding `y`: exact arithmetic, and IEEE
    arithmetic whenever the destination entry is not `-0.0` (destinations built from integers never are). -/
theorem fft_into_adds (A : Arith K) (hz : ∀ x y, A.add x (A.add A.zero y) = A.add x y)
    (h : List (Op K)) (v : Array Int) (n : Nat) (res : Array K) :
    (fftInto? A (after A h) v n res).map (·.2) = (fft? A (new A) v n).map (fun r => accC A res r.2) := by
  have e : (fft? A (new A) v n).map (fun r => accC A res r.2) = ((fft? A (new A) v n).map (·.2)).map (accC A res) := by
    cases fft? A (new A) v n <;> rfl
  rw [e]
  unfold fft?
  rw [fftInto?_result A _ (reach_after A h), fftInto?_result A _ (reach_new A)]
  unfold fftIntoRef?
  simp only []
  by_cases h1 : v.size > fftSize v.size n
  · rw [if_pos h1, if_pos h1]; rfl
  · rw [if_neg h1, if_neg h1]
    by_cases hp : isPow2 (fftSize v.size n) = true
    · obtain ⟨m, hm⟩ := exists_of_isPow2 _ hp
      rw [hp]
      simp only [Bool.not_true, Bool.false_eq_true, if_false, Except.map]
      rw [hm, Nat.log2_two_pow, fftIntoRef_adds A hz v m res]
    · have : isPow2 (fftSize v.size n) = false := by simpa using hp
      rw [this]
      rfl

/-- `fft(v, 0)` is `fft(v, n)` for `n` = the smallest power of two `≥ v.len()` (1 for an empty or one-element input):
    the auto-sized forward / pointwise / inverse route is the explicit-size route. Any state, any arithmetic. -/
theorem fft_autosize (A : Arith K) (s : State K) (v : Array Int) :
    fft? A s v 0 = fft? A s v (ceilPow2 1 v.size) :=
  fft?_autosize A s v

/-- **Several live objects.** A program over a pool of objects — calls on any of them in any interleaving, `clone`,
    `clone_from`, `default()`, `new()`, `std::mem::take` between them, starting from objects obtained in any way
    (`Build`) — leaves every object answering every call
    exactly like a brand-new `FFT::new()`: nothing is shared between objects, and a copy made mid-history is as good as
    its original. -/
theorem pool_objects_independent (A : Arith K) (builds : Array (Build K)) (prog : List (PoolOp K)) (k : Nat) (op : Op K) :
    result A ((poolAfter A (builds.map (·.state A)) prog).getD k (new A)) op = result A (new A) op := by
  have h0 : PoolOk A (builds.map (·.state A)) := by
    intro i
    rw [Array.getD_eq_getD_getElem?, Array.getElem?_map]
    cases builds[i]? with
    | none => exact reach_new A
    | some b => exact reach_build A b
  rw [(call_reach A _ (poolAfter_ok A prog _ h0 k) op).1, (call_reach A _ (reach_new A) op).1]

/-- Whatever the caller does to the spectra with the operators of `Complex<F>` between the forward transforms and
    `fft_inv_into` (`SExpr`: `+ - * /`, their assign forms, `neg`, `conj`, `abs2`, `abs`, scaling, `ZERO`/`ONE`/`I`),
    the result does not depend on the object's history (instance of `call_history_independent`). -/
theorem spectral_history_independent (A : Arith K) (h : List (Op K)) (e : SExpr) (vs : List (Array Int)) (n : Nat)
    (res : List Int) :
    result A (after A h) (.spectral e vs n res) = result A (new A) (.spectral e vs n res) :=
  call_history_independent A h _

/-! ## Level B — exact arithmetic -/

section LevelB
open Complex

/-- The executable convolution the driver prints as the specification is the mathematical one:
    coefficient `u` is `∑_{s+t=u} a_s b_t`. -/
theorem conv_spec (a b : Array Int) : conv a b = convSpec a b := conv_eq_convSpec a b

/-- In exact arithmetic the canonical twiddle table consists of the roots of unity `e^{2πi·j/2^k}`. -/
theorem twiddles_are_roots_of_unity (k j : Nat) (hj : j ≤ 2^k) :
    (wArr arithC k).getD j arithC.zero = Complex.exp (2 * Real.pi * I / ((2^k : Nat) : ℂ)) ^ j := by
  rw [getD_wArr arithC k j hj, wC_eq k j hj]; rfl

/-- **`fft_internal` is the discrete Fourier transform** (iterative Cooley–Tukey over the bit-reversal table),
    on an object with ANY call history: forward `∑ₛ vₛ ζ^{ps}`, inverse `(1/n) ∑ₛ vₛ ζ^{-ps}`, `ζ = e^{2πi/n}`. -/
theorem fft_internal_is_dft (h : List (Op ℂ)) (m : Nat) (inv : Bool) (buf : Array ℂ) (hb : buf.size = 2^m)
    (p : Nat) (hp : p < 2^m) :
    rdA arithC (fftInternal arithC { after arithC h with buf := buf } (2^m) inv).buf p
      = if inv then dft (zeta m)⁻¹ (2^m) (rdA arithC buf) p * (1 / ((2^m : Nat) : ℂ))
        else dft (zeta m) (2^m) (rdA arithC buf) p := by
  obtain ⟨k, _, c⟩ := reach_after arithC h
  rw [fftInternal_canon arithC k m _ (canon_withBuf c buf)]
  exact (fftRef_dft m inv buf hb).2 p hp

/-- **Additivity of the convolution in the long operand** (the identity behind the block recursion): coefficient `i`
    of `short · long[off..]` is coefficient `i` of `short · long[off..off+ss]` plus, from position `ss` on,
    coefficient `i - ss` of `short · long[off+ss..]`. -/
theorem conv_block_additive (short long : Array Int) (off ss i : Nat) :
    convAt short (long.extract off long.size) i
      = convAt short (long.extract off (off + ss)) i
        + if ss ≤ i then convAt short (long.extract (off + ss) long.size) (i - ss) else 0 :=
  convAt_block_split short long off ss i

/-- The integer convolution is commutative (`multiply_into` reorders its operands by length). -/
theorem conv_comm (a b : Array Int) : convSpec a b = convSpec b a := convSpec_comm a b

/-- **The block recursion around ANY exact single-transform code is exact**: operand ordering, blocks of the longer
    operand, ragged last block, recursion on the ragged block, early `break`, destination of any length. -/
theorem multiply_blocks_exact {σ : Type} (direct : σ → Array Int → Array Int → List Int → σ × List Int)
    (hd : ∀ s a b res, a.size ≠ 0 → b.size ≠ 0 → (direct s a b res).2 = addPrefix res (convSpec a b))
    (s : σ) (a b : Array Int) (res : List Int) :
    (mulBlocks direct s a b res).2 = addPrefix res (convSpec a b) :=
  mulBlocks_exact direct hd _ a b rfl s res

/-- **`multiply_into` adds exactly the integer convolution** (exact arithmetic, any call history). -/
theorem multiply_into_exact (h : List (Op ℂ)) (a b : Array Int) (res : List Int) :
    (multiplyInto arithC (after arithC h) a b res).2 = addPrefix res (convSpec a b) := by
  rw [(multiplyInto_reach arithC _ (reach_after arithC h) a b res).1, multiplyIntoRef_exact]

/-- **`multiply` returns exactly the integer convolution** (exact arithmetic, any call history, positive and
    negative coefficients alike, all lengths). -/
theorem multiply_exact (h : List (Op ℂ)) (a b : Array Int) :
    (multiply arithC (after arithC h) a b).2 = convSpec a b := by
  by_cases he : a.size = 0 ∨ b.size = 0
  · rw [(multiply_empty arithC _ a b he []).1]
    unfold convSpec; rw [if_pos he]
  · have hl : (multiply arithC (after arithC h) a b).2.length = (convSpec a b).length := by
      rw [multiply_len arithC _ a b (by omega) (by omega)]
      unfold convSpec; rw [if_neg he]; simp
    have := multiply_into_adds arithC (after arithC h) a b (List.replicate (a.size + b.size - 1) 0)
    rw [multiply_into_exact] at this
    -- 0 + x = x on both sides
    have z : ∀ (l : List Int), addPrefix (List.replicate l.length 0) l = l := by
      intro l
      induction l with
      | nil => rfl
      | cons x l ih => rw [List.length_cons, List.replicate_succ, addPrefix, ih]; simp
    have hc : (convSpec a b).length = a.size + b.size - 1 := by
      unfold convSpec; rw [if_neg he]; simp
    rw [← hc, z, ← hl, z] at this
    exact this.symm

/-- **Forward transform of both operands, pointwise product, inverse transform yields the coefficients of the
    direct `multiply`** (followed by zeros up to the transform size `2^m ≥ |a|+|b|-1`), in exact arithmetic, on an
    object with any call history — and also when the inverse transform is taken on a brand-new object. -/
theorem fft_mul_inv_eq_multiply (h : List (Op ℂ)) (a b : Array Int) (m : Nat) (ha : a.size ≠ 0) (hb : b.size ≠ 0)
    (hlen : a.size + b.size - 1 ≤ 2^m) :
    result arithC (after arithC h) (.fftMulInv a b (2^m))
      = .ok (.ints ((multiply arithC (after arithC h) a b).2 ++ List.replicate (2^m - (a.size + b.size - 1)) 0))
    ∧ result arithC (after arithC h) (.fftMulInvFresh a b (2^m))
      = .ok (.ints ((multiply arithC (after arithC h) a b).2 ++ List.replicate (2^m - (a.size + b.size - 1)) 0)) := by
  rw [multiply_exact, (call_reach arithC _ (reach_after arithC h) _).1,
    (call_reach arithC _ (reach_after arithC h) _).1]
  simp only [resultRef]
  rw [fftMulInvRef?_exact a b m ha hb hlen, range_map_convAt a b (2^m) ha hb hlen]
  exact ⟨rfl, rfl⟩

/-- **The accumulate-into variant of the inverse transform adds exactly that convolution to the destination**:
    forward transforms, pointwise product, `fft_inv_into(…, dest)` adds `multiply a b` (followed by zeros up to the
    transform size `2^m`) to `dest` on the common prefix and leaves every further entry of `dest` unchanged —
    destination shorter than, equal to or longer than `2^m`, any call history. -/
theorem fft_mul_inv_into_adds (h : List (Op ℂ)) (a b : Array Int) (m : Nat) (ha : a.size ≠ 0) (hb : b.size ≠ 0)
    (hlen : a.size + b.size - 1 ≤ 2^m) (dest : List Int) :
    result arithC (after arithC h) (.fftMulInvInto a b (2^m) dest)
      = .ok (.ints (addPrefix dest
          ((multiply arithC (after arithC h) a b).2 ++ List.replicate (2^m - (a.size + b.size - 1)) 0))) := by
  rw [multiply_exact, (call_reach arithC _ (reach_after arithC h) _).1]
  simp only [resultRef]
  rw [fftMulInvIntoRef?_exact a b m ha hb hlen, range_map_convAt a b (2^m) ha hb hlen]
  rfl

/-- **Everything a caller can do to the spectra with the operators of `Complex<F>`** — products in operator or assign
    form, sums and differences of products, negation, scaling and division by a scalar, `conj`, `abs2`, `abs`, division by
    the spectrum of a unit monomial, `ZERO`/`default()`, `ONE`, `I`, nested at will (`SExpr`) — between the forward
    transforms of any number of operands and `fft_inv_into`: the destination receives exactly the integer sequence the
    SAME expression denotes in `ℤ[i][x]/(xⁿ - 1)` (`*` = cyclic convolution, `conj` = index reversal, …: `SExpr.expected`),
    whenever that sequence is defined and real.  Exact arithmetic, any call history, any destination length. -/
theorem spectral_exact (h : List (Op ℂ)) (e : SExpr) (vs : List (Array Int)) (m : Nat) (hvs : ∀ v ∈ vs, v.size ≤ 2^m)
    (c : List Int) (hc : e.expected (2^m) vs = some c) (dest : List Int) :
    result arithC (after arithC h) (.spectral e vs (2^m) dest) = .ok (.ints (addPrefix dest c)) := by
  rw [(call_reach arithC _ (reach_after arithC h) _).1]
  simp only [resultRef]
  rw [spectralRef?_exact m e vs hvs c hc]
  rfl

end LevelB

/-! ### non-vacuity -/

/-- A deliberately lawless arithmetic on `Int` (nothing is associative, `tw` is arbitrary). -/
def junk : Arith Int where
  zero := 0
  one := 1
  i8 := 7
  add a b := a + 2 * b
  sub a b := a - 3 * b + 1
  mul a b := a * b + a
  conj a := 5 - a
  half a := a / 2
  scaleInv n a := a * n + 1
  tw i cur := 1000 * i + cur
  setRe c v := c + v
  setIm c v := c - 2 * v
  roundRe c := c
  roundIm c := c + 1
  neg a := 3 - a
  scale k a := a * k + 2
  divS k a := a / (k + 1)
  div a b := a - b * b
  abs2 a := a * a + 1
  absq a := a * a - 1
  ci := 11

/-- Histories do change the object: after `update_n(16)` the tables have 16 / 17 entries … -/
example : (after junk [.updateN 16]).rev.size = 16 ∧ (after junk [.updateN 16]).w.size = 17 := by
  have h : after junk [.updateN 16] = canonState junk 4 #[] := by
    show step junk (new junk) (.updateN 16) = _
    rw [new_eq]
    simp only [step, call, updateN?]
    have : isPow2 16 = true := isPow2_two_pow 4
    simp only [this]
    have := updateNCore_canon junk 2 4 (canonState junk 2 #[]) (canon_canonState junk 2 #[])
    rw [if_neg (by omega)] at this
    simp only [show (2:Nat)^4 = 16 from rfl] at this
    simp only [Except.map, Bool.not_true, Bool.false_eq_true, if_false, show (16 : Nat) ≠ 0 by decide]
    exact this
  rw [h]
  simp [canonState]

/-- … and a fresh object has 4 / 5; yet `multiply` cannot tell them apart. -/
example : (new junk).rev.size = 4 := by rw [new_eq]; simp [canonState]

example : (multiply junk (after junk [.updateN 16, .multiply #[1, 2, 3] #[4, 5]]) #[1, -2] #[3]).2
    = (multiply junk (new junk) #[1, -2] #[3]).2 :=
  multiply_history_independent junk _ _ _

example : result junk ((Build.call (.clone (.call .default (.updateN 16))) (.multiply #[1] #[2, 3])).state junk) (.multiply #[3] #[4, 5])
    = result junk (new junk) (.multiply #[3] #[4, 5]) :=
  built_object_independent junk _ _

example : (multiply junk (new junk) #[1, -2, 5] #[3, 4]).2.length = 4 :=
  multiply_len junk _ _ _ (by decide) (by decide)

/-- The one-bin inverse transform (`n == 1` branch) ADDS: 1000 becomes 1005, not 5 … -/
example : (fftInvIntoCore junk (new junk) #[5] [1000, 7]).2 = [1005, 7] := rfl

/-- … and that is what `fft_inv_into_adds` says for it, on an object with a history. -/
example : (fftInvInto? junk (after junk [.updateN 16]) #[5] [1000, 7]).map (·.2)
    = (fftInv? junk (new junk) #[5]).map (fun r => addPrefix [1000, 7] r.2) :=
  fft_inv_into_adds junk _ _ _

/-- The hypothesis of `fft_into_adds` holds in exact arithmetic. -/
example : ∀ x y : ℂ, arithC.add x (arithC.add arithC.zero y) = arithC.add x y := by
  intro x y; simp [arithC]

example : (fftInto? arithC (after arithC [.updateN 16]) #[1, 2] 2 #[5, 6, 7]).map (·.2)
    = (fft? arithC (new arithC) #[1, 2] 2).map (fun r => accC arithC #[5, 6, 7] r.2) :=
  fft_into_adds arithC (by intro x y; simp [arithC]) _ _ _ _

/-- three coefficients: `fft(v, 0)` is the transform of size 4 -/
example : fft? junk (new junk) #[1, 2, 3] 0 = fft? junk (new junk) #[1, 2, 3] 4 := by
  rw [fft_autosize]
  have : ceilPow2 1 (#[1, 2, 3] : Array Int).size = 4 := by
    show ceilPow2 1 3 = 4
    rw [ceilPow2, dif_pos (by omega), ceilPow2, dif_pos (by omega), ceilPow2, dif_neg (by omega)]
  rw [this]

/-- four live objects: calls interleaved, a clone taken mid-history with both copies used afterwards, `mem::take` -/
example : result junk ((poolAfter junk ((#[.new, .default, .clone .new, .new] : Array (Build Int)).map (·.state junk))
      [.call 1 (.updateN 16), .clone 1 2, .call 1 (.multiply #[1] #[2, 3]), .call 2 (.updateN 64), .take 2 0,
       .cloneFrom 0 3, .default 1]).getD 0 (new junk)) (.multiply #[3] #[4, 5])
    = result junk (new junk) (.multiply #[3] #[4, 5]) :=
  pool_objects_independent junk _ _ _ _

example : result junk (after junk [.updateN 32]) (.spectral (.add (.mul (.leaf 0) (.leaf 1)) (.conj (.leaf 0))) [#[1, 2], #[3]] 4 [9])
    = result junk (new junk) (.spectral (.add (.mul (.leaf 0) (.leaf 1)) (.conj (.leaf 0))) [#[1, 2], #[3]] 4 [9]) :=
  spectral_history_independent junk _ _ _ _ _

/-- `fa *= fb` then `fft_inv_into`: (1 + 2x)(3 + 4x) = 3 + 10x + 8x² added to a destination of five sevens -/
example : result arithC (after arithC [.updateN 64]) (.spectral (.mul (.leaf 0) (.leaf 1)) [#[1, 2], #[3, 4]] (2^2) [7, 7, 7, 7, 7])
    = .ok (.ints [10, 17, 15, 7, 7]) :=
  spectral_exact _ _ _ 2 (by decide) [3, 10, 8, 0] (by decide +kernel) _

/-- `fa * fb.conj()` is the cyclic correlation, `-(fa / fc)` with `c = x` a shift with a sign -/
example : result arithC (after arithC []) (.spectral (.mul (.leaf 0) (.conj (.leaf 1))) [#[1, 2], #[3, 4]] (2^2) [])
    = .ok (.ints []) :=
  spectral_exact _ _ _ 2 (by decide) [11, 6, 0, 4] (by decide +kernel) _

example : (SExpr.neg (.div (.leaf 0) (.leaf 1))).expected 4 [#[1, 2, 3], #[0, 1]] = some [-2, -3, 0, -1] := by decide +kernel

/-- Level B on a concrete input with negative coefficients and a history: (1 - 2x + 3x²)(4 + 5x) . -/
example : (multiply arithC (after arithC [.updateN 64, .multiply #[7] #[9, 9]]) #[1, -2, 3] #[4, 5]).2 = [4, -3, 2, 15] := by
  rw [multiply_exact]; decide

example : result arithC (after arithC [.fft #[1, 1] 16]) (.fftMulInv #[1, -2, 3] #[4, 5] (2^2))
    = .ok (.ints [4, -3, 2, 15]) := by
  rw [(fft_mul_inv_eq_multiply _ _ _ 2 (by decide) (by decide) (by decide)).1, multiply_exact]
  have : convSpec #[1, -2, 3] #[4, 5] ++ List.replicate (2^2 - ((#[1, -2, 3] : Array Int).size + (#[4, 5] : Array Int).size - 1)) 0
      = [4, -3, 2, 15] := by decide
  rw [this]

/-- The block recursion is taken (1 against 7: seven blocks of one entry) and the result has the destination's length … -/
example : (multiplyInto junk (new junk) #[2] #[1, 2, 3, 4, 5, 6, 7] [10, 20, 30]).2.length = 3 :=
  multiply_into_keeps_length junk _ _ _ _

example : multiplyInto junk (new junk) #[2] #[1, 2, 3, 4, 5, 6, 7] [10, 20, 30]
    = blockLoop #[2] #[1, 2, 3, 4, 5, 6, 7] (fun blk _ s' r' => multiplyInto junk s' #[2] blk r') 0 (new junk) #[] [10, 20, 30] :=
  (multiply_into_blocks junk _ _ _ _ (by decide) (by decide)).1 (by decide) (by decide)

/-- … and in exact arithmetic it is the convolution: 3 against 8 (blocks 3, 3, 2 — a ragged last block), the longer
    operand first, destination ending inside the second block. -/
example : (multiplyInto arithC (after arithC [.updateN 32]) #[1, 2, 3, 4, 5, 6, 7, 8] #[1, -1, 2] [100, 100, 100, 100, 100]).2
    = [101, 101, 103, 105, 107] := by
  rw [multiply_into_exact]; decide

example : (multiply arithC (after arithC []) #[3] #[1, 2, 3, 4, 5, 6, 7]).2 = [3, 6, 9, 12, 15, 18, 21] := by
  rw [multiply_exact]; decide

example : convAt #[1, -1, 2] (#[1, 2, 3, 4, 5, 6, 7, 8].extract 0 8) 4
    = convAt #[1, -1, 2] (#[1, 2, 3, 4, 5, 6, 7, 8].extract 0 (0 + 3)) 4
      + convAt #[1, -1, 2] (#[1, 2, 3, 4, 5, 6, 7, 8].extract (0 + 3) 8) (4 - 3) := by
  have := conv_block_additive #[1, -1, 2] #[1, 2, 3, 4, 5, 6, 7, 8] 0 3 4
  rw [if_pos (by decide)] at this
  exact this

end Rlib.C04
