import RlibModel.Lemmas.TreapShape
import RlibModel.Lemmas.TreapItems
/-!
# C16 — a treap stays heap-ordered for any operation order; its shape is canonical

The proved part of C16 (model: `Model/Treap.lean`; helper lemmas: `Lemmas/TreapHeap.lean`).
`Heap t` = along every parent-child edge the child's priority is `≥` the parent's (one
direction over the whole tree). `HeapR t` = the invariant rlib's tie rule ("ties → the right root
wins") actually maintains: left child `≥` parent, right child `>` parent. None of the heap theorems
needs a lawful item, a monotone predicate or any assumption on the priorities, and **ties are allowed
everywhere** — rlib's 32-bit priorities do repeat in big trees (about 116 repeated values among 10^6
draws), so the shape theorems must not assume distinctness: `shape_canonical_ties`, `history_shape`.

**Not a theorem** (measured by the correspondence harness, see `checks/C16.py`): that the
priorities rlib's generator draws are random enough for `height ≤ 5·log2(n+1)+20`.
`history_shape` says what that measurement is about: the shape (hence the height) after *any*
history is the Cartesian tree (`cartShape`; among equal minima the last one is the root, as `merge` breaks
ties) of the priorities of the sequence's elements in sequence order.
-/
namespace Rlib.C16
open Rlib.Treap
variable {T E G M V : Type} (I : TItem T E G M V)

/-- `merge` of two heap-ordered treaps is heap-ordered (ties: the right root wins). -/
theorem heap_merge (a b : Tree T) (ha : Heap a) (hb : Heap b) : Heap (merge I a b) :=
  (merge_heap I a b ha hb).1

/-- `split_at` only cuts edges: both parts are heap-ordered, for every position. -/
theorem heap_splitAt (t : Tree T) (k : Nat) (h : Heap t) :
    Heap (splitAt I t k).1 ∧ Heap (splitAt I t k).2 :=
  ⟨(splitAt_heap I t k h).1, (splitAt_heap I t k h).2.1⟩

/-- the same for `split_by` with an arbitrary predicate -/
theorem heap_splitBy (pred : T → Bool) (t : Tree T) (h : Heap t) :
    Heap (splitBy I pred t).1 ∧ Heap (splitBy I pred t).2 :=
  ⟨(splitBy_heap I pred t h).1, (splitBy_heap I pred t h).2.1⟩

theorem heap_insertAt (t : Tree T) (k : Nat) (it : T) (p : Nat) (h : Heap t) : Heap (insertAt I t k it p) :=
  insertAt_heap I t k it p h

theorem heap_removeAt (t : Tree T) (k : Nat) (h : Heap t) : Heap (removeAt I t k).2 :=
  removeAt_heap I t k h

/-- walks that push (`first`, `last`, `collect`) and root modifiers do not change the shape -/
theorem shape_walks (m : M) (t : Tree T) :
    skel (first I t).2 = skel t ∧ skel (last I t).2 = skel t ∧ skel (collect I t).2 = skel t ∧
    skel (tagRoot I m t) = skel t :=
  ⟨skel_first I t, skel_last I t, skel_collect I t, skel_tagRoot I m t⟩

/-- **After any history** (the operation language of C03, any number of live treaps, every new
    node a single node of arbitrary priority) every live treap is heap-ordered. -/
theorem heap_history (ops : List (Op E M V)) (r : List (Tree T) × List (Obs E G))
    (h : runM I [] ops = some r) : ∀ t ∈ r.1, Heap t :=
  run_heap I ops [] (fun _ ht => by cases ht) r h

/-- the same from any heap-ordered starting state -/
theorem heap_history_from (ops : List (Op E M V)) (ts : List (Tree T)) (hts : ∀ t ∈ ts, Heap t)
    (r : List (Tree T) × List (Obs E G)) (h : runM I ts ops = some r) : ∀ t ∈ r.1, Heap t :=
  run_heap I ops ts hts r h

/-- the executable check the driver prints is the stated predicate -/
theorem isHeap_spec (t : Tree T) : isHeap t = true ↔ Heap t := isHeap_iff t

theorem nodupB_spec (l : List Nat) : nodupB l = true ↔ l.Nodup := nodupB_iff l

/-- `merge`, `split_at`, `split_by` (any predicate) keep the tie-tolerant invariant. -/
theorem heapR_merge (a b : Tree T) (ha : HeapR a) (hb : HeapR b) : HeapR (merge I a b) :=
  (merge_heapR I a b ha hb).1

theorem heapR_splitAt (t : Tree T) (k : Nat) (h : HeapR t) : HeapR (splitAt I t k).1 ∧ HeapR (splitAt I t k).2 :=
  ⟨(splitAt_heapR I t k h).1, (splitAt_heapR I t k h).2.1⟩

theorem heapR_splitBy (pred : T → Bool) (t : Tree T) (h : HeapR t) :
    HeapR (splitBy I pred t).1 ∧ HeapR (splitBy I pred t).2 :=
  ⟨(splitBy_heapR I pred t h).1, (splitBy_heapR I pred t h).2.1⟩

/-- After any history every live treap satisfies `HeapR` (hence `Heap`): no hypothesis at all. -/
theorem heapR_history (ops : List (Op E M V)) (r : List (Tree T) × List (Obs E G))
    (h : runM I [] ops = some r) : ∀ t ∈ r.1, HeapR t :=
  run_inv I (heapR_inv I) ops [] (fun _ ht => by cases ht) r h

/-- **The shape is canonical, ties included.** `HeapR` alone fixes the shape: the tree is the
    Cartesian tree of its in-order priority sequence (`cartShape`: among equal minima the *last*
    one is the root... exactly `merge`'s rule), so its height is a function of that sequence. -/
theorem shape_canonical_ties (t : Tree T) (h : HeapR t) :
    skel t = cartShape (prios t) ∧ height t = height (cartShape (prios t)) := by
  have e := skel_eq_cartShape_of_heapR t h
  exact ⟨e, by rw [← height_skel t, e]⟩

/-- the special case of pairwise distinct priorities, where plain heap order is enough -/
theorem shape_canonical (t : Tree T) (h : Heap t) (hd : (prios t).Nodup) : skel t = cartShape (prios t) :=
  skel_eq_cartShape_of_heapR t (HeapR_of_heap_nodup t h hd)

/-- **Shape after any history (trees).** Whatever the operations, predicates and priorities
    (repeated or not): every live treap is the Cartesian tree of its in-order priorities. -/
theorem history_shape_trees (ops : List (Op E M V)) (r : List (Tree T) × List (Obs E G))
    (h : runM I [] ops = some r) : ∀ t ∈ r.1, skel t = cartShape (prios t) ∧ height t = height (cartShape (prios t)) :=
  fun t ht => shape_canonical_ties t (heapR_history I ops r h t ht)

/-- **Shape after any history (lists).** For a lawful item: the in-order priority lists of the live
    treaps are `runP` of the operations and of the sizes they reported — plain list operations
    (`++`, `take`/`drop`, insert at `k`, `eraseIdx`; walks and tags change nothing; `split_by` cuts
    where its reported left size says, for **every** predicate) — and the shapes of the live treaps
    are the Cartesian trees of those lists. The history can only choose *positions*. -/
theorem history_shape (hI : Lawful I) (ops : List (Op E M V)) (r : List (Tree T) × List (Obs E G))
    (h : runM I [] ops = some r) :
    ∃ ps, runP [] ops r.2 = some ps ∧ r.1.map prios = ps ∧ r.1.map skel = ps.map cartShape := by
  have hp := run_prios I hI ops [] (fun _ ht => by cases ht) r h
  refine ⟨r.1.map prios, hp, rfl, ?_⟩
  rw [List.map_map]
  apply List.map_congr_left
  intro t ht
  exact (history_shape_trees I ops r h t ht).1

/-- priorities through the remaining operations: `split_by` with **any** predicate keeps them in
    order across the two parts, `remove_at` erases position `k`, walks and root tags keep them -/
theorem prios_other_ops (hI : Lawful I) (pred : T → Bool) (m : M) (t : Tree T) (k : Nat) (h : WFt I t) :
    prios (splitBy I pred t).1 ++ prios (splitBy I pred t).2 = prios t ∧
    prios (removeAt I t k).2 = (prios t).eraseIdx k ∧
    prios (first I t).2 = prios t ∧ prios (last I t).2 = prios t ∧ prios (collect I t).2 = prios t ∧
    prios (tagRoot I m t) = prios t :=
  ⟨prios_splitBy I pred t, prios_removeAt I hI t k h, prios_of_skel_eq (skel_first I t),
    prios_of_skel_eq (skel_last I t), prios_of_skel_eq (skel_collect I t), prios_of_skel_eq (skel_tagRoot I m t)⟩

/-- Hence two treaps holding the same priorities in the same in-order positions — whatever
    histories produced them — have the same shape, in particular the same height: adversarial
    operation orders have no power beyond choosing positions. -/
theorem height_canonical (t₁ t₂ : Tree T) (h₁ : Heap t₁) (h₂ : Heap t₂) (hd : (prios t₁).Nodup)
    (he : prios t₁ = prios t₂) : skel t₁ = skel t₂ ∧ height t₁ = height t₂ := by
  have e : skel t₁ = skel t₂ := by
    rw [shape_canonical t₁ h₁ hd, shape_canonical t₂ h₂ (he ▸ hd), he]
  exact ⟨e, by rw [← height_skel t₁, ← height_skel t₂, e]⟩

/-- Priorities travel with their elements: the in-order priority sequence is concatenated by
    `merge`, cut by `split_at` and extended at position `k` by `insert_at` — so, together with
    `shape_canonical`, the shape after a history is the Cartesian tree of the priorities of the
    *sequence's elements*, in sequence order. (`WFt`: stored sizes are right, as C03 maintains.) -/
theorem prios_follow_elements (hI : Lawful I) (a b t : Tree T) (k : Nat) (it : T) (p : Nat) (h : WFt I t) :
    prios (merge I a b) = prios a ++ prios b ∧
    prios (splitAt I t k).1 = (prios t).take k ∧ prios (splitAt I t k).2 = (prios t).drop k ∧
    prios (insertAt I t k it p) = (prios t).take k ++ p :: (prios t).drop k :=
  ⟨prios_merge I a b, (prios_splitAt I hI t k h).1, (prios_splitAt I hI t k h).2, prios_insertAt I hI t k it p h⟩

/-- **Why the height half is about subsequences of the draws** (wave 3, seeded C16_m10). A priority list that is
    strictly monotone has a path as its Cartesian tree: height = number of elements. -/
theorem monotone_prios_path (ps : List Nat) (h : ps.Pairwise (· < ·) ∨ ps.Pairwise (· > ·)) :
    height (cartShape ps) = ps.length := by
  cases h with
  | inl h => exact (cartShape_increasing ps h).1
  | inr h => exact (cartShape_decreasing ps h).1

/-- … hence, after **any** history, a live treap whose in-order priorities are strictly monotone is a path — whatever
    the operations were. Together with `history_shape` (the in-order priorities are those of the elements, which keep the
    priority drawn at their creation): the logarithmic-height claim is exactly a claim about the priorities of the
    nodes that end up in one treap, i.e. about SUBSEQUENCES of the thread's stream of draws (every k-th draw when k
    treaps are filled round-robin, or when scratch nodes are created in between). The harness measures it on those. -/
theorem history_monotone_path (ops : List (Op E M V)) (r : List (Tree T) × List (Obs E G))
    (h : runM I [] ops = some r) (t : Tree T) (ht : t ∈ r.1)
    (hm : (prios t).Pairwise (· < ·) ∨ (prios t).Pairwise (· > ·)) : height t = (prios t).length := by
  rw [(history_shape_trees I ops r h t ht).2]
  exact monotone_prios_path _ hm

/-! ### non-vacuity -/


-- a heap-ordered tree with ties, produced by the model's own `merge`
example : Heap (merge sumAdd (single (sumAdd.new 3) 5) (merge sumAdd (single (sumAdd.new 8) 2) (single (sumAdd.new 1) 2))) :=
  heap_merge _ _ _ (Heap_single _ _) (heap_merge _ _ _ (Heap_single _ _) (Heap_single _ _))

-- distinct priorities: the canonical shape of the in-order priorities 5 2 9 7 is ((.5.)2((.9.)7.))
example : cartShape [5, 2, 9, 7] =
    .node () 2 (.node () 5 .nil .nil) (.node () 7 (.node () 9 .nil .nil) .nil) := by decide
example : Heap (cartShape [5, 2, 9, 7]) ∧ (prios (cartShape [5, 2, 9, 7])).Nodup := by
  refine ⟨(isHeap_spec _).1 (by decide), (nodupB_spec _).1 (by decide)⟩
-- ties: `HeapR` holds for what `merge` builds, and the canonical shape of 1 1 is the right-rooted one
example : HeapR (merge sumAdd (single (sumAdd.new 3) 1) (single (sumAdd.new 8) 1)) :=
  heapR_merge _ _ _ (HeapR_single _ _) (HeapR_single _ _)
example : cartShape [1, 1] = .node () 1 (.node () 1 .nil .nil) .nil := by decide
example : cartShape [2, 1, 1, 3] = .node () 1 (.node () 1 (.node () 2 .nil .nil) .nil) (.node () 3 .nil .nil) := by decide
-- with ties plain heap order does *not* determine the shape (that is why `HeapR` is needed)
example : ∃ a b : Tree Unit, Heap a ∧ Heap b ∧ prios a = prios b ∧ a ≠ b :=
  ⟨.node () 1 .nil (.node () 1 .nil .nil), .node () 1 (.node () 1 .nil .nil) .nil,
    (isHeap_spec _).1 (by decide), (isHeap_spec _).1 (by decide), by decide, by decide⟩
-- a history exists (the hypothesis of `heap_history` is satisfiable)
example : (runM (G := Nat × Int) sumAdd [] [.item 1 7, .item 5 3, .merge 0 1, .tag 0 10, .splitAt 0 1]).isSome = true := by
  simp [runM, stepM]

-- monotone priorities give paths (both directions); a non-monotone list of the same length does not
example : height (cartShape [3, 5, 8, 13, 21]) = 5 := monotone_prios_path _ (Or.inl (by decide))
example : height (cartShape [21, 13, 8, 5, 3]) = 5 := monotone_prios_path _ (Or.inr (by decide))
example : height (cartShape [8, 3, 21, 5, 13]) = 3 := by decide
-- three appends with increasing priorities through the model's own `merge`: a path of height 3
example : height (merge sumAdd (merge sumAdd (single (sumAdd.new 1) 2) (single (sumAdd.new 5) 3)) (single (sumAdd.new 7) 9)) = 3 := by
  have hp : prios (merge sumAdd (merge sumAdd (single (sumAdd.new 1) 2) (single (sumAdd.new 5) 3)) (single (sumAdd.new 7) 9)) = [2, 3, 9] := by
    simp [prios_merge, single, prios]
  rw [(shape_canonical_ties _ (heapR_merge _ _ _ (heapR_merge _ _ _ (HeapR_single _ _) (HeapR_single _ _)) (HeapR_single _ _))).2, hp]
  exact monotone_prios_path _ (Or.inl (by decide))

end Rlib.C16
