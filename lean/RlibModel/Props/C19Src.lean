import RlibModel.Props.C19
import RlibModel.Lemmas.TensorSrc
/-
C19, second tie: theorems about the definitions REGENERATED from the Rust source text on every run.
Kept in their own module so that a source the translator cannot read (or an equivalence proof that no longer goes
through) leaves the property theorems of Props/C19.lean — and their audit — untouched; `./check` then decides
between `second tie unavailable` (translator subset; the correspondence tie still stands) and a broken obligation.
-/
namespace Rlib.C19
open Rlib Rlib.Tensor

/-! ### Second tie: the definitions regenerated from the source text of this run

`Rlib.TensorSrc.from_vec / from_slice / new / get_index / dims / dim / index / index_mut / eq` are written by `tools/rs2lean_typed.py`
from `rlib/tensor/src/lib.rs` on every run of `./check C19` (`Generated/TensorSrc.lean`): `[usize; D]` values are `Array Int`s with
checked indexing (their length `D` is an invariant of the Rust type — a hypothesis here), `Vec<T>` is an `Array E0` over an abstract
element type, `dims.contains(&0)` and `dims.iter().product()` are `SrcVec.contains` / `SrcVec.product` (checked `usize`
multiplications, `Generated/ArrPrelude.lean`), the `for i in (0..D).rev()` loop of `get_index` runs on `fuel` with `sz * idx[i]`,
`result += …`, `sz *= dims[i]` checked.  `embl : List Nat → Array Int` embeds the model's lists, `outT t = (embl t.dims, t.data.toArray)`.

`src_<f>_eq_model`: the regenerated definition returns exactly what the hand-written model returns — the value or the same panic
(`assert`, `overflow`, `index`) — for EVERY shape, index, data and magnitude; `get_index` needs `D + 1 ≤ fuel` and lists of length `D`;
`index` / `index_mut` are stated against the model's `index` (unchecked arithmetic) and therefore for positive extents whose product
fits `usize` (`getIndex_no_overflow`).  Hence the theorems of `Props/C19.lean` about `getIndexU`, `fromVecU`, `fromSliceU`, `newU`,
`dim`, `index`, `eq` speak about what the source text of this very run says.  NOT covered by this tie (differential tie only):
`read`, `iter/iter_mut/into_iter`, `Writable::write`, `Debug::fmt`, the derived `Clone`. -/

open Rlib.SrcVec (embl)
open Rlib.TensorSrc (outT)

theorem src_from_vec_eq_model {α : Type} (fuel : Nat) (D : Int) (dims : List Nat) (data : Array α) :
    Rlib.TensorSrc.from_vec fuel D (embl dims) data = (fromVecU dims data.toList).map outT :=
  Rlib.TensorSrc.from_vec_eq_model fuel D dims data

theorem src_from_slice_eq_model {α : Type} (fuel : Nat) (D : Int) (dims : List Nat) (data : Array α) :
    Rlib.TensorSrc.from_slice fuel D (embl dims) data = (fromSliceU dims data.toList).map outT :=
  Rlib.TensorSrc.from_slice_eq_model fuel D dims data

theorem src_new_eq_model {α : Type} (fuel : Nat) (D : Int) (dims : List Nat) (value : α) :
    Rlib.TensorSrc.new fuel D (embl dims) value = (newU dims value).map outT :=
  Rlib.TensorSrc.new_eq_model fuel D dims value

theorem src_get_index_eq_model {α : Type} (fuel D : Nat) (dims idx : List Nat) (data : Array α)
    (hd : dims.length = D) (hi : idx.length = D) (hf : D + 1 ≤ fuel) :
    Rlib.TensorSrc.get_index fuel (D : Int) (embl dims) data (embl idx) =
      (getIndexU dims idx).map (fun (x : Nat) => (x : Int)) :=
  Rlib.TensorSrc.get_index_eq_model fuel D dims idx data hd hi hf

theorem src_dims_eq_model {α : Type} (fuel : Nat) (D : Int) (t : Tensor α) :
    Rlib.TensorSrc.dims fuel D (embl t.dims) t.data.toArray = .ok (embl t.dims) :=
  Rlib.TensorSrc.dims_eq_model fuel D t

theorem src_dim_eq_model {α : Type} (fuel : Nat) (D : Int) (t : Tensor α) (i : Nat) :
    Rlib.TensorSrc.dim fuel D (embl t.dims) t.data.toArray (i : Int) = (Tensor.dim t i).map (fun (x : Nat) => (x : Int)) :=
  Rlib.TensorSrc.dim_eq_model fuel D t i

theorem src_index_eq_model {α : Type} (fuel D : Nat) (t : Tensor α) (idx : List Nat)
    (hd : t.dims.length = D) (hi : idx.length = D) (hf : D + 1 ≤ fuel)
    (hpos : ∀ d ∈ t.dims, 0 < d) (hb : prod t.dims < 2 ^ 64) :
    Rlib.TensorSrc.index fuel (D : Int) (embl t.dims) t.data.toArray (embl idx) = Tensor.index t idx :=
  Rlib.TensorSrc.index_eq_model fuel D t idx hd hi hf hpos hb

/-- `index_mut` returns a `&mut` place: the translator reads it as (the struct, unchanged; the current value of the place); the
    write through the reference happens in the caller. -/
theorem src_index_mut_eq_model {α : Type} (fuel D : Nat) (t : Tensor α) (idx : List Nat)
    (hd : t.dims.length = D) (hi : idx.length = D) (hf : D + 1 ≤ fuel)
    (hpos : ∀ d ∈ t.dims, 0 < d) (hb : prod t.dims < 2 ^ 64) :
    Rlib.TensorSrc.index_mut fuel (D : Int) (embl t.dims) t.data.toArray (embl idx) =
      (Tensor.index t idx).map (fun a => (embl t.dims, t.data.toArray, a)) :=
  Rlib.TensorSrc.index_mut_eq_model fuel D t idx hd hi hf hpos hb

theorem src_eq_eq_model {α : Type} [BEq α] (fuel : Nat) (D : Int) (t u : Tensor α) :
    Rlib.TensorSrc.eq fuel D (embl t.dims) t.data.toArray (embl u.dims) u.data.toArray = .ok (Tensor.eq t u) :=
  Rlib.TensorSrc.eq_eq_model fuel D t u

/-- The property stated directly about the regenerated `get_index`: in range ⇒ the row-major offset (below the product), out of
    range in some dimension ⇒ `panic:assert`, for positive extents whose product fits `usize`. -/
theorem src_get_index_spec {α : Type} (fuel D : Nat) (dims idx : List Nat) (data : Array α)
    (hd : dims.length = D) (hi : idx.length = D) (hf : D + 1 ≤ fuel)
    (hpos : ∀ d ∈ dims, 0 < d) (hb : prod dims < 2 ^ 64) :
    (InRange dims idx → Rlib.TensorSrc.get_index fuel (D : Int) (embl dims) data (embl idx) = .ok ((flat dims idx : Nat) : Int) ∧
        flat dims idx < prod dims) ∧
    (SomeOob dims idx → Rlib.TensorSrc.get_index fuel (D : Int) (embl dims) data (embl idx) = .error .assert) := by
  rw [src_get_index_eq_model fuel D dims idx data hd hi hf, getIndex_no_overflow dims idx hpos hb]
  refine ⟨fun h => ?_, fun h => ?_⟩
  · rw [(getIndex_ok dims idx h).1]; exact ⟨rfl, (getIndex_ok dims idx h).2⟩
  · rw [getIndex_oob dims idx (by omega) h]; rfl

/-- The constructors' property stated directly about the regenerated `from_vec` / `from_slice`: every bad shape (zero extent, wrong
    length, product that does not fit) is rejected with a panic. -/
theorem src_ctor_rejects {α : Type} (fuel : Nat) (D : Int) (dims : List Nat) (data : Array α)
    (h : 0 ∈ dims ∨ prod dims ≠ data.size) :
    ∃ e, Rlib.TensorSrc.from_vec fuel D (embl dims) data = .error e ∧ Rlib.TensorSrc.from_slice fuel D (embl dims) data = .error e := by
  obtain ⟨e, h1, h2⟩ := ctorU_rejects_all dims data.toList (by simpa using h)
  exact ⟨e, by rw [src_from_vec_eq_model, h1]; rfl, by rw [src_from_slice_eq_model, h2]; rfl⟩

/-! non-vacuity: the regenerated definitions evaluated on concrete values -/
example : Rlib.TensorSrc.get_index 3 2 (embl [2, 3]) (#[10, 11, 12, 13, 14, 15] : Array Int) (embl [1, 2]) = .ok 5 := by decide
example : Rlib.TensorSrc.get_index 3 2 (embl [2, 3]) (#[10, 11, 12, 13, 14, 15] : Array Int) (embl [0, 3]) = .error .assert := by decide
example := src_get_index_eq_model 3 2 [2, 3] [1, 2] (#[10, 11, 12, 13, 14, 15] : Array Int) rfl rfl (by decide)
example := (src_get_index_spec 3 2 [2, 3] [1, 2] (#[10, 11, 12, 13, 14, 15] : Array Int) rfl rfl (by decide) (by decide) (by decide)).1 (by decide)
example : Rlib.TensorSrc.from_vec 0 2 (embl [2, 2]) (#[1, 2, 3, 4] : Array Int) = .ok (embl [2, 2], #[1, 2, 3, 4]) := by
  rw [src_from_vec_eq_model]; decide
example : Rlib.TensorSrc.from_vec 0 2 (embl [2, 0]) (#[] : Array Int) = .error .assert := by
  rw [src_from_vec_eq_model]; decide
example : Rlib.TensorSrc.from_slice 0 2 (embl [2, 2]) (#[1, 2, 3] : Array Int) = .error .assert := by
  rw [src_from_slice_eq_model]; decide
example : Rlib.TensorSrc.from_vec 0 2 (embl [4294967296, 4294967296]) (#[] : Array Int) = .error .overflow := by
  rw [src_from_vec_eq_model]; decide
example : Rlib.TensorSrc.new 0 2 (embl [2, 2]) (7 : Int) = .ok (embl [2, 2], #[7, 7, 7, 7]) := by
  rw [src_new_eq_model]; decide
example : Rlib.TensorSrc.dim 0 2 (embl [2, 3]) (#[] : Array Int) 1 = .ok 3 ∧ Rlib.TensorSrc.dim 0 2 (embl [2, 3]) (#[] : Array Int) 2 = .error .index := by decide
example : Rlib.TensorSrc.dims 0 2 (embl [2, 3]) (#[] : Array Int) = .ok (embl [2, 3]) := rfl
example : Rlib.TensorSrc.index 3 2 (embl [2, 3]) (#[10, 11, 12, 13, 14, 15] : Array Int) (embl [1, 2]) = .ok 15 := by decide
example := src_index_eq_model 3 2 (⟨[2, 3], [10, 11, 12, 13, 14, (15 : Int)]⟩ : Tensor Int) [1, 2] rfl rfl (by decide) (by decide) (by decide)
example := src_index_mut_eq_model 3 2 (⟨[2, 3], [10, 11, 12, 13, 14, (15 : Int)]⟩ : Tensor Int) [1, 2] rfl rfl (by decide) (by decide) (by decide)
example : Rlib.TensorSrc.eq 0 2 (embl [2, 3]) (#[1, 2, 3, 4, 5, 6] : Array Int) (embl [3, 2]) #[1, 2, 3, 4, 5, 6] = .ok false := by decide
example := src_eq_eq_model 0 2 (⟨[2, 3], [1, 2, 3, 4, 5, (6 : Int)]⟩ : Tensor Int) ⟨[3, 2], [1, 2, 3, 4, 5, 6]⟩
example := src_ctor_rejects 0 2 [2, 2] (#[1, 2, 3] : Array Int) (Or.inr (by decide))
example := src_from_vec_eq_model 0 2 [2, 2] (#[1, 2, 3, 4] : Array Int)
example := src_from_slice_eq_model 0 2 [2, 2] (#[1, 2, 3, 4] : Array Int)
example := src_new_eq_model 0 2 [2, 2] (7 : Int)
example := src_dims_eq_model 0 2 (⟨[2, 3], [10, 11, 12, 13, 14, (15 : Int)]⟩ : Tensor Int)
example := src_dim_eq_model 0 2 (⟨[2, 3], [10, 11, 12, 13, 14, (15 : Int)]⟩ : Tensor Int) 1

end Rlib.C19
