import RlibModel.Lemmas.Lambda
/-!
# C20 — `rec_lambda!` closures equal explicit recursion for every supported macro shape

Property theorems only; the model (macro rules as a step function on token streams, semantics of the
emitted wiring, explicit recursion) is in `Model/Lambda.lean`, helper lemmas in `Lemmas/Lambda.lean`.

All theorems are for ANY number of captures in any `&`/`&mut` interleaving (including none), any
number ≥ 1 of arguments, with or without return type; `Supported inv` = at least one argument and all
capture/argument names pairwise distinct (rustc requires the latter too).

Partial proof: rustc's macro matcher, type checker and borrow checker are not modelled; that the shapes
compile, and that the model's wiring is the wiring of the real expansion, is checked by `./check C20`
on generated programs.
-/
namespace Rlib.C20
open Rlib.Lambda

/-- The expansion never gets stuck and terminates: starting from the invocation's token stream, every one
    of the first `|caps| + |args| + 2` macro steps finds an arm that matches, and after exactly that many
    steps `_rec_lambda_2_` has emitted `specExpansion inv`. The executable `expandSteps` (what the driver
    runs) returns the same expansion and the same step count. No distinctness of names is needed here. -/
theorem expand_total (inv : Inv) (h : inv.args ≠ []) :
    (∀ k, k ≤ inv.caps.length + inv.args.length + 2 → ∃ st, iter k (.entry (invTokens inv)) = some st) ∧
    iter (inv.caps.length + inv.args.length + 2) (.entry (invTokens inv)) = some (.done (specExpansion inv)) ∧
    expandSteps inv = some (specExpansion inv, inv.caps.length + inv.args.length + 2) ∧
    expand inv = some (specExpansion inv) := by
  refine ⟨?_, iter_tokens inv h, expandSteps_eq inv h, expand_eq inv h⟩
  intro k hk
  have ht := iter_tokens inv h
  obtain ⟨j, hj⟩ : ∃ j, inv.caps.length + inv.args.length + 2 = k + j := ⟨_, (Nat.add_sub_cancel' hk).symm⟩
  rw [hj, iter_add'] at ht
  cases hi : iter k (.entry (invTokens inv)) with
  | none => simp [hi] at ht
  | some st => exact ⟨st, rfl⟩

/-- Both call syntaxes of the local macro `name!`, for ANY number of argument expressions: running the two arms
    (as matchers, in source order) on the token stream of `name!(e₁,…,eₙ)` resp. `name!(e₁,…,eₙ,)` reaches the call of
    the inner fn with the user's expressions unchanged and in order, followed by `recCallTail` — the same inner call
    for both syntaxes. With a trailing comma arm 1 fails (it runs out of tokens inside `$(,$x:expr)*`) and arm 2 fires:
    1 step; without, arm 1 re-invokes the macro with the comma added, then arm 2 fires: 2 steps. `runG` (hence
    `generated_eq_explicit`) evaluates every recursive call through this `expandCall`. -/
theorem call_total {α : Type} (e : Expansion) (exprs : List α) :
    (∀ tc, expandCall e exprs tc = some (exprs, e.recCallTail)) ∧
    (exprs ≠ [] →
      callIter e 1 (.inv (callToks exprs true)) = some (.done exprs e.recCallTail) ∧
      callStep e (.inv (callToks exprs false)) = some (.inv (callToks exprs true)) ∧
      callIter e 2 (.inv (callToks exprs false)) = some (.done exprs e.recCallTail)) := by
  refine ⟨fun tc => expandCall_eq e exprs tc, fun h => ?_⟩
  cases exprs with
  | nil => exact absurd rfl h
  | cons x xs =>
    rw [callToks_true]
    refine ⟨by simp [callIter, callStep_terminated], callStep_callToks_false e x xs, ?_⟩
    simp [callIter, callStep_callToks_false, callStep_terminated]

/-- The inner fn's parameter list is the arguments followed by a capture tail; the tail appended to every
    recursive call and the tail passed by the closure are that *same* list in the same order (shared captures
    in reverse declared order, then mutable captures in reverse declared order); the closure takes and
    passes on the arguments in declared order; the tail is a permutation of the declared captures with their
    declared mutability, so every declared capture occurs in it exactly once. -/
theorem wiring_consistent (inv : Inv) (hs : Supported inv) :
    ∃ e, expand inv = some e ∧
      e.params = inv.args.map (·, Kind.arg) ++ e.recCallTail ∧
      e.closureCallTail = e.recCallTail ∧
      e.closureParams = inv.args ∧ e.closureCallArgs = inv.args ∧
      e.recCallTail = specTail inv.caps ∧
      e.recCallTail.Perm (inv.caps.map capParam) ∧
      (∀ c ∈ inv.caps, e.recCallTail.count (capParam c) = 1 ∧ (e.recCallTail.map (·.1)).count c.1 = 1) := by
  refine ⟨specExpansion inv, expand_eq inv hs.1, rfl, rfl, rfl, rfl, rfl, specTail_perm inv.caps, ?_⟩
  intro c hc
  have hnames : (inv.caps.map (·.1)).Nodup := (List.nodup_append.mp hs.2).1
  show (specTail inv.caps).count (capParam c) = 1 ∧ ((specTail inv.caps).map (·.1)).count c.1 = 1
  have hkeys : ((specTail inv.caps).map (·.1)).Nodup := by
    rw [specTail_keys]
    exact (capKeys_perm inv.caps).nodup_iff.mpr hnames
  constructor
  · have hnd : (specTail inv.caps).Nodup :=
      List.Pairwise.of_map (·.1) (fun a b hab heq => hab (by rw [heq])) hkeys
    rw [hnd.count, if_pos ((specTail_perm inv.caps).mem_iff.mpr (List.mem_map_of_mem hc))]
  · rw [hkeys.count, if_pos]
    rw [specTail_keys]
    exact (capKeys_perm inv.caps).mem_iff.mpr (List.mem_map_of_mem hc)

/-- Positional binding gives every captured name back to that very variable. For the expansion `e` of a
    supported invocation and any argument values of the right number:
    * binding the inner fn's parameters to what the closure passes (`args…, &c…, &mut m…`) succeeds, and in the
      resulting frame every captured name `c` holds a reference to the enclosing variable named `c`, mutable
      exactly if declared `&mut` — and the i-th argument name holds the i-th value;
    * in such a frame the names the local macro appends to a recursive call evaluate to exactly the references
      the closure passed, so the callee's frame (for any new argument values `ws`) is wired the same way. -/
theorem rebinds_self (inv : Inv) (hs : Supported inv) (e : Expansion) (he : expand inv = some e)
    (vs ws : List Val) (hv : vs.length = inv.args.length) (hw : ws.length = inv.args.length) (s : Store) :
    ∃ fr tail fr',
      bind e.params (vs.map Slot.val ++ e.closureCallTail.map (borrowOuter s)) = .ok fr ∧
      (∀ c ∈ inv.caps, fr.lookup c.1 = some (Slot.ref c.1 c.2)) ∧
      (∀ p ∈ inv.args.zip vs, fr.lookup p.1 = some (Slot.val p.2)) ∧
      passNames fr e.recCallTail = .ok tail ∧
      tail = e.closureCallTail.map (borrowOuter s) ∧
      bind e.params (ws.map Slot.val ++ tail) = .ok fr' ∧
      (∀ c ∈ inv.caps, fr'.lookup c.1 = some (Slot.ref c.1 c.2)) ∧
      (∀ p ∈ inv.args.zip ws, fr'.lookup p.1 = some (Slot.val p.2)) := by
  have hee : e = specExpansion inv := by
    have := expand_eq inv hs.1
    rw [he] at this
    exact Option.some.inj this
  subst hee
  have hcaps : (inv.caps.map (·.1)).Nodup := (List.nodup_append.mp hs.2).1
  have hargs : inv.args.Nodup := (List.nodup_append.mp hs.2).2.1
  have harg : ∀ (us : List Val), us.length = inv.args.length →
      ∀ p ∈ inv.args.zip us, (canonFrame inv us).lookup p.1 = some (Slot.val p.2) := by
    intro us hu p hp
    have hk : ((inv.args.zip us).map (·.1)).Nodup := by
      rw [List.map_fst_zip (by omega)]
      exact hargs
    rw [lookup_canon inv hcaps, (lookup_iff_mem_of_nodup _ hk p.1 p.2).mpr hp]
    rfl
  refine ⟨canonFrame inv vs, refs inv.caps, canonFrame inv ws, ?_, ?_, harg vs hv, ?_, ?_, ?_, ?_, harg ws hw⟩
  · show bind (specExpansion inv).params (vs.map Slot.val ++ (specTail inv.caps).map (borrowOuter s)) = _
    rw [specTail_map_borrowOuter, bind_canon, if_pos hv.symm]
  · intro c hc
    exact lookup_canon_cap inv hs vs c.1 c.2 hc
  · exact passNames_canon inv hs vs
  · exact (specTail_map_borrowOuter inv.caps s).symm
  · rw [bind_canon, if_pos hw.symm]
  · intro c hc
    exact lookup_canon_cap inv hs ws c.1 c.2 hc

/-- The generated closure equals the explicit recursion: for every supported invocation, every abstract body
    (any interaction tree that reads arguments and captures, assigns through mutable captures, calls itself any
    number of times with any values and continues depending on the results), every fuel, every argument list and
    every initial state of the enclosing variables, the closure returned by the macro and the explicit recursive
    function return the same value and leave the same final state — or fail in the same way (out of fuel,
    unbound name, assignment through a shared reference, wrong number of arguments). -/
theorem generated_eq_explicit (inv : Inv) (hs : Supported inv) (e : Expansion) (he : expand inv = some e)
    (body : Body) (fuel : Nat) (vs : List Val) (s : Store) :
    closureG e body fuel vs s = evalE inv body fuel vs s := by
  have hee : e = specExpansion inv := by
    have := expand_eq inv hs.1
    rw [he] at this
    exact Option.some.inj this
  subst hee
  exact closureG_eq_evalE inv hs body fuel vs s

/-- Names keep their meaning. In the generated code an identifier `x` written by the user in the body (with any `let`s of the
    body in scope) denotes what it denotes in the explicit recursion - a `let`, one of the fn's own arguments/captures, or else
    whatever `x` means in the enclosing scope (free function, const, prelude name, …) - for EVERY `x` other than the one name
    the expansion gives its inner fn. The recursion's name chosen by the user does not occur: it names a macro. So a program is
    outside this guarantee only if it uses the identifier of the hidden fn (`hiddenName`, fixed) as a value of its own. -/
theorem names_resolve_as_written (inv : Inv) (h : inv.args ≠ []) (e : Expansion) (he : expand inv = some e)
    (hidden : Name) (locals : List Name) (x : Name) (hx : x ≠ hidden) :
    resolveG hidden e locals x = resolveE inv locals x := by
  have hee : e = specExpansion inv := by
    have := expand_eq inv h
    rw [he] at this
    exact Option.some.inj this
  subst hee
  exact resolveG_spec inv hidden locals x hx

/-- The tokens of the local macro resolve as intended whatever the body declares: if no argument or capture is called like the
    hidden fn, the callee of every recursive call is the hidden fn, and every name appended to the call (and every argument name)
    is the inner fn's own parameter of that name - `let`s of the body cannot capture them (they are resolved at the macro's
    definition, the top of the body). -/
theorem call_resolves (inv : Inv) (h : inv.args ≠ []) (e : Expansion) (he : expand inv = some e)
    (hidden : Name) (hh : hidden ∉ inv.args ++ inv.caps.map (·.1)) :
    resolveCallG hidden e hidden = .hiddenFn ∧
    (∀ p ∈ e.recCallTail, resolveCallG hidden e p.1 = .param p.1) ∧
    (∀ a ∈ inv.args, resolveCallG hidden e a = .param a) := by
  have hee : e = specExpansion inv := by
    have := expand_eq inv h
    rw [he] at this
    exact Option.some.inj this
  subst hee
  refine ⟨?_, ?_, ?_⟩
  · unfold resolveCallG resolveG
    rw [if_neg (by simp), if_neg (fun hm => hh ((mem_specParams inv hidden).mp hm)), if_pos rfl]
  · intro p hp
    have hm : p.1 ∈ (specExpansion inv).params.map (·.1) :=
      List.mem_map_of_mem (f := (·.1)) (show p ∈ (specExpansion inv).params from List.mem_append_right _ hp)
    unfold resolveCallG resolveG
    rw [if_neg (by simp), if_pos hm]
  · intro a ha
    have hm : a ∈ (specExpansion inv).params.map (·.1) :=
      (mem_specParams inv a).mpr (List.mem_append_left _ ha)
    unfold resolveCallG resolveG
    rw [if_neg (by simp), if_pos hm]

/-- Long-running use. For ANY number of closures alive at once (each a supported invocation with any abstract body - early exits
    included, `ret` may sit at any node - and any recursion budget) and ANY history of outer calls of any length, in any
    interleaving, started in any store: the generated closures and the explicit recursive functions return the same results
    in the same order and leave the same final store, or the history ends at the same call with the same error (out of fuel =
    the recursion is too deep for the stack: at the same depth on both sides). -/
theorem history_eq_explicit (ls : List Live) (h : ∀ l ∈ ls, Supported l.inv) (evs : List Event) (s : Store) :
    histG ls evs s = histE ls evs s :=
  histG_eq_histE ls h evs s

/-- No hidden state. What a history of generated closures does after a prefix `evs₁` depends on the prefix only through the
    store (the captured variables) it left: running `evs₁ ++ evs₂` is running `evs₁` and then `evs₂` from that store - however
    long `evs₁` was and however its calls ended (at whatever node of the body). So nothing can be accumulated across calls
    outside the captured variables: no counter, guard or cache of the expansion survives a call. The same holds (by definition)
    for the explicit recursion. -/
theorem history_no_hidden_state (ls : List Live) (evs₁ evs₂ : List Event) (s : Store) :
    histG ls (evs₁ ++ evs₂) s = histThen (histG ls evs₁ s) (histG ls evs₂) ∧
    histE ls (evs₁ ++ evs₂) s = histThen (histE ls evs₁ s) (histE ls evs₂) :=
  ⟨histG_append ls evs₂ evs₁ s, histE_append ls evs₂ evs₁ s⟩

/-- Same depth: the generated closure runs out of recursion budget exactly when the explicit recursion does - the expansion
    adds no activation of its own and no limit of its own - and with any larger budget both succeed alike. -/
theorem same_depth (inv : Inv) (hs : Supported inv) (e : Expansion) (he : expand inv = some e)
    (body : Body) (fuel : Nat) (vs : List Val) (s : Store) :
    (closureG e body fuel vs s = .error .fuel ↔ evalE inv body fuel vs s = .error .fuel) ∧
    (∀ r, closureG e body fuel vs s = .ok r ↔ evalE inv body fuel vs s = .ok r) := by
  rw [generated_eq_explicit inv hs e he body fuel vs s]
  exact ⟨Iff.rfl, fun _ => Iff.rfl⟩

/-! ## Non-vacuity: concrete non-trivial instances of the hypotheses and of the conclusions -/

/-- `rec_lambda!(f, |x: &mut X, y: &Y, z: &mut Z, w: &W| { |a: A, b: B| -> i64 { … } })`. -/
def sampleInv : Inv := { caps := [("x", true), ("y", false), ("z", true), ("w", false)], args := ["a", "b"], ret := some "i64" }

example : Supported sampleInv := by decide

-- expand_total / wiring_consistent: 8 steps; both lists come out reversed.
example : expandSteps sampleInv =
    some ({ params := [("a", .arg), ("b", .arg), ("w", .shared), ("y", .shared), ("z", .mutable), ("x", .mutable)]
            ret := "i64"
            recCallTail := [("w", .shared), ("y", .shared), ("z", .mutable), ("x", .mutable)]
            closureParams := ["a", "b"], closureCallArgs := ["a", "b"]
            closureCallTail := [("w", .shared), ("y", .shared), ("z", .mutable), ("x", .mutable)] }, 8) := by decide

-- the hypothesis `args ≠ []` is needed: without an argument (`|| { … }`) no arm matches.
example : expand { caps := [("x", true)], args := [], ret := none } = none := by decide
example : expand { caps := [], args := [], ret := some "i64" } = none := by decide

-- call_total: both syntaxes of `f!(p, q)`.
example : expandCall (specExpansion sampleInv) ["p", "q", "r"] false =
    some (["p", "q", "r"], [("w", .shared), ("y", .shared), ("z", .mutable), ("x", .mutable)]) := by decide
example : expandCall (specExpansion sampleInv) ["p", "q", "r"] true =
    some (["p", "q", "r"], [("w", .shared), ("y", .shared), ("z", .mutable), ("x", .mutable)]) := by decide
-- the matcher does reject what is not a call: `f!(,)`, `f!(p q)`, `f!(p,,)`.
example : callStep (α := String) (specExpansion sampleInv) (.inv [.comma]) = none := by decide
example : callStep (specExpansion sampleInv) (.inv [.expr "p", .expr "q"]) = none := by decide
example : callStep (specExpansion sampleInv) (.inv [.expr "p", .comma, .comma]) = none := by decide

-- rebinds_self: in the frame of an activation `z` is the enclosing `z` (mutable), `y` the enclosing `y` (shared), `b` the
-- second argument; and the names appended to a recursive call evaluate to the very references the closure passed.
def sampleFrame : Except Err Frame :=
  bind (specExpansion sampleInv).params
    ([5, 1].map Slot.val ++ (specExpansion sampleInv).closureCallTail.map (borrowOuter fun _ => 0))

example : sampleFrame.toOption.bind (·.lookup "z") = some (Slot.ref "z" true) := by decide
example : sampleFrame.toOption.bind (·.lookup "y") = some (Slot.ref "y" false) := by decide
example : sampleFrame.toOption.bind (·.lookup "b") = some (Slot.val 1) := by decide
example : (sampleFrame.toOption.bind fun fr => (passNames fr (specExpansion sampleInv).recCallTail).toOption) =
    some [Slot.ref "w" false, Slot.ref "y" false, Slot.ref "z" true, Slot.ref "x" true] := by decide

/-- A body that reads both arguments and a shared capture, updates two mutable captures before and after
    the recursive calls, and calls itself twice, once or not at all. -/
def sampleBody : Body :=
  .read "a" fun a => .read "b" fun b => .read "y" fun y => .read "x" fun x =>
  .write "x" (x * 3 + a + y) <|
  if a ≤ 0 then .ret (b + y)
  else if a % 2 = 0 then
    .call true [a - 1, b + 1] fun r => .read "z" fun z => .write "z" (z + r) (.ret (r + 1))
  else
    .call false [a - 1, b] fun r1 => .call true [a - 2, b * 2] fun r2 =>
    .read "z" fun z => .write "z" (z * 2 + r1 - r2) (.ret (r1 * 7 + r2))

def sampleStore : Store := fun n => if n = "x" then 1 else if n = "y" then 10 else if n = "z" then 100 else if n = "w" then 1000 else 0

def observe (r : Res) : Option (Val × Val × Val × Val × Val) :=
  match r with
  | .ok (v, st) => some (v, st "x", st "y", st "z", st "w")
  | .error _ => none

-- generated_eq_explicit is about runs that really compute something: value, and both mutable captures changed.
example : observe (evalE sampleInv sampleBody 10 [5, 1] sampleStore) = some (6983, 3196501194, 10, 33953, 1000) := by decide
example : observe (closureG (specExpansion sampleInv) sampleBody 10 [5, 1] sampleStore) = some (6983, 3196501194, 10, 33953, 1000) := by
  decide

-- The semantics does tell a wrong wiring from the right one: passing the mutable captures in DECLARED order at the
-- closure site only (the mutant of DESIGN §11) silently swaps `x` and `z`.
def miswired : Expansion :=
  { specExpansion sampleInv with closureCallTail := [("w", .shared), ("y", .shared), ("x", .mutable), ("z", .mutable)] }

example : observe (closureG miswired sampleBody 10 [5, 1] sampleStore) ≠ observe (evalE sampleInv sampleBody 10 [5, 1] sampleStore) := by
  decide

-- … and a shared reference where a mutable one is expected is rejected (rustc: type error).
example : (match closureG { specExpansion sampleInv with closureCallTail := [("w", .shared), ("z", .mutable), ("y", .shared), ("x", .mutable)] }
              sampleBody 10 [5, 1] sampleStore with | .error (.kind _) => true | _ => false) = true := by decide

-- names_resolve_as_written / call_resolves: with the fixed hidden name a helper `tr`, a const, a local and the parameters all
-- keep their meaning, and the recursive call reaches the hidden fn with the parameters `w, y, z, x` appended.
example : hiddenName ∉ sampleInv.args ++ sampleInv.caps.map (·.1) := by decide
example : ["tr", "LIM", "t", "b", "z"].map (resolveG hiddenName (specExpansion sampleInv) ["t"]) =
    [.outer "tr", .outer "LIM", .loc "t", .param "b", .param "z"] := by decide
example : ["tr", "LIM", "t", "b", "z"].map (resolveE sampleInv ["t"]) =
    [.outer "tr", .outer "LIM", .loc "t", .param "b", .param "z"] := by decide
example : resolveCallG hiddenName (specExpansion sampleInv) hiddenName = .hiddenFn := by decide
-- The hypotheses are needed. If the inner fn were called like the user's recursion (seeded change C20_m10: `fn $name`) and the
-- program also has a helper of that name, the helper's name is captured by the inner fn inside the body ...
example : resolveG "tr" (specExpansion sampleInv) [] "tr" = .hiddenFn ∧ resolveE sampleInv [] "tr" = .outer "tr" := by decide
-- ... and if it is called like a capture or an argument, the callee of the recursive call is that parameter (rustc: E0618);
example : resolveCallG "z" (specExpansion sampleInv) "z" = .param "z" := by decide
example : resolveCallG "a" (specExpansion sampleInv) "a" = .param "a" := by decide
-- a `let` of the body called like the inner fn shadows it for the user's own uses only, not for the recursive call.
example : resolveG "t" (specExpansion sampleInv) ["t"] "t" = .loc "t" ∧ resolveCallG "t" (specExpansion sampleInv) "t" = .hiddenFn := by
  decide

-- history_eq_explicit / history_no_hidden_state: two closures alive at once (the second one over captures of its own, `p`/`q`,
-- with a body that leaves EARLY - `ret` before the write - for even arguments), five outer calls interleaved.
def secondInv : Inv := { caps := [("p", true), ("q", false)], args := ["n"], ret := some "i64" }

def earlyBody : Body :=
  .read "n" fun n => .read "q" fun q =>
  if n ≤ 0 then .ret q                                            -- early exit in the base case
  else .read "p" fun p =>
    if n % 2 = 0 then .call false [n - 1] fun r => .ret (r + 1)    -- early exit: leaves before the write below
    else .write "p" (p + n) (.call true [n - 1] fun r => .ret (r * 2))

def sampleLive : List Live := [⟨sampleInv, sampleBody, 10⟩, ⟨secondInv, earlyBody, 10⟩]
def sampleEvents : List Event := [(1, [3]), (0, [2, 1]), (1, [4]), (0, [3, 0]), (1, [0])]
def sampleStore2 : Store := fun n => if n = "p" then 5 else if n = "q" then 7 else sampleStore n

def observeH (r : Except Err (List Val × Store)) : Option (List Val × Val × Val × Val) :=
  match r with
  | .ok (rs, st) => some (rs, st "x", st "z", st "p")
  | .error _ => none

example : ∀ l ∈ sampleLive, Supported l.inv := by decide
example : observeH (histE sampleLive sampleEvents sampleStore2) = some ([30, 99, 31, 710, 7], 3603666, 2730, 13) := by decide
example : observeH (histG sampleLive sampleEvents sampleStore2) = some ([30, 99, 31, 710, 7], 3603666, 2730, 13) := by decide
-- a history really ends where the stack budget does, for both alike (same_depth): depth 4 needs fuel 5.
example : (match histG [⟨secondInv, earlyBody, 4⟩] [(0, [1]), (0, [4])] sampleStore2 with | .error .fuel => true | _ => false) = true := by decide
example : (match histE [⟨secondInv, earlyBody, 4⟩] [(0, [1]), (0, [4])] sampleStore2 with | .error .fuel => true | _ => false) = true := by decide
-- ... and the model does tell a closure with hidden state from one without: nothing but the store is threaded through `histG`,
-- so a call's result is a function of the store it starts in - the same call in the same store twice gives the same result,
example : observeH (histG sampleLive [(1, [0]), (1, [0])] sampleStore2) = some ([7, 7], 1, 100, 5) := by decide

end Rlib.C20
