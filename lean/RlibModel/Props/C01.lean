import RlibModel.Lemmas.SegtreeHistory
import RlibModel.Lemmas.SegtreeItems
/-!
# C01 — segment-tree range query = in-order fold of the logical array

Property theorems only.  Model: `Model/Segtree.lean` (tree, `build`/`setI`/`ask`/`modifyI`, the public API `Seg.*`,
the plain-list `Spec.*`, histories `Seg.run` / `Spec.run`) and `Model/SegtreeItems.lean` (the concrete items the
native driver runs).  Lemmas: `Lemmas/Segtree*.lean`.

`Lawful I` is the only assumption on an item: `op` associative, modifiers and pending tags distribute over `op`,
`merge`/`modify`/`push` act on the observable value as stated.  Nothing is commutative.
`den I t` is the logical content of a tree (observable values, left to right, pending tags applied), `WF I t`
says every cached aggregate is the fold of what is below it, `Shaped t vl vr` that the tree splits `[vl, vr]`
at `(vl+vr)/2` like the code.
-/
namespace Rlib.C01
open Rlib.Segtree
variable {T M A : Type}

/-! ## constructors -/

/-- `Segtree::new(n, v)`, `n ≥ 1`: succeeds and represents `n` copies of `v`. -/
theorem build_spec_new (I : Item T M A) (L : Lawful I) (n : Nat) (v : T) (hn : 1 ≤ n) :
    ∃ s, Seg.new I n v = .ok s ∧ s.n = n ∧ WF I s.t ∧ Shaped s.t 0 (n - 1) ∧
      den I s.t = (List.replicate n v).map I.val := by
  obtain ⟨s, e, h⟩ := new_refines I L n v hn
  have hn' : s.n = n := by simpa using h.len
  exact ⟨s, e, hn', h.wf, hn' ▸ h.shaped, h.den⟩

/-- `Segtree::from_slice(xs)`, `xs` non-empty: succeeds and represents `xs`. -/
theorem build_spec_from_slice (I : Item T M A) (L : Lawful I) (xs : List T) (hx : xs ≠ []) :
    ∃ s, Seg.fromSlice I xs = .ok s ∧ s.n = xs.length ∧ WF I s.t ∧ Shaped s.t 0 (xs.length - 1) ∧
      den I s.t = xs.map I.val := by
  obtain ⟨s, e, h⟩ := fromSlice_refines I L xs hx
  exact ⟨s, e, h.len, h.wf, h.len ▸ h.shaped, h.den⟩

/-- `Segtree::from_iter(xs)`, `xs` non-empty: succeeds and represents `xs`. -/
theorem build_spec_from_iter (I : Item T M A) (L : Lawful I) (xs : List T) (hx : xs ≠ []) :
    ∃ s, Seg.fromIter I xs = .ok s ∧ s.n = xs.length ∧ WF I s.t ∧ Shaped s.t 0 (xs.length - 1) ∧
      den I s.t = xs.map I.val := by
  obtain ⟨s, e, h⟩ := fromIter_refines I L xs hx
  exact ⟨s, e, h.len, h.wf, h.len ▸ h.shaped, h.den⟩

/-! ## the three mutators / queries on a well-formed tree of any size -/

/-- `ask_internal`: the answer observes the in-order fold of exactly `[l, r]`; the pushes it performs change
    neither the logical contents nor well-formedness nor the shape. -/
theorem ask_spec (I : Item T M A) (L : Lawful I) (t : Tree T) (l r vl vr : Nat) (hwf : WF I t) (hs : Shaped t vl vr)
    (h1 : vl ≤ l) (h2 : l ≤ r) (h3 : r ≤ vr) :
    some (I.val (ask I t l r vl vr).1) = foldO I (slice (den I t) (l - vl) (r + 1 - vl)) ∧
    den I (ask I t l r vl vr).2 = den I t ∧ WF I (ask I t l r vl vr).2 ∧
    Shaped (ask I t l r vl vr).2 vl vr := Segtree.ask_spec I L t l r vl vr hwf hs h1 h2 h3

/-- `modify_internal`: the modifier is applied to each covered element individually, to nothing else. -/
theorem modify_spec (I : Item T M A) (L : Lawful I) (md : M) (t : Tree T) (l r vl vr : Nat) (hwf : WF I t)
    (hs : Shaped t vl vr) (h1 : vl ≤ l) (h2 : l ≤ r) (h3 : r ≤ vr) :
    den I (modifyI I t l r md vl vr) = mapRange (I.act md) (l - vl) (r + 1 - vl) (den I t) ∧
    WF I (modifyI I t l r md vl vr) ∧ Shaped (modifyI I t l r md vl vr) vl vr :=
  Segtree.modify_spec I L md t l r vl vr hwf hs h1 h2 h3

/-- `set_internal`: exactly position `ind` is overwritten (pending tags above it are pushed first). -/
theorem set_spec (I : Item T M A) (L : Lawful I) (x : T) (t : Tree T) (ind vl vr : Nat) (hwf : WF I t)
    (hs : Shaped t vl vr) (h1 : vl ≤ ind) (h2 : ind ≤ vr) :
    den I (setI I t ind x vl vr) = (den I t).set (ind - vl) (I.val x) ∧
    WF I (setI I t ind x vl vr) ∧ Shaped (setI I t ind x vl vr) vl vr :=
  Segtree.set_spec I L x t ind vl vr hwf hs h1 h2

/-! ## the property: every history answers like the plain list -/

/-- From any state that represents `xs`, every finite history of `set` / `modify` / `ask` / `lower_bound` /
    `lower_bound_rev` / `debug` (out-of-range `set`/`modify`/`ask` included: both sides assert; searches with an
    admissible predicate, `OpsOK`) yields the same list of observable answers on the model and on the plain list. -/
theorem history_refines (I : Item T M A) (L : Lawful I) (s : Seg T) (xs : List T) (hI : Inv I s xs)
    (ops : List (Op T M)) (hok : OpsOK I xs ops) :
    s.run I ops = Spec.run I xs ops := run_refines I L ops s xs hI hok

/-- …starting from `Segtree::new(n, v)`, any `n ≥ 1`. -/
theorem history_refines_new (I : Item T M A) (L : Lawful I) (n : Nat) (v : T) (hn : 1 ≤ n)
    (ops : List (Op T M)) (hok : OpsOK I (List.replicate n v) ops) :
    ∃ s, Seg.new I n v = .ok s ∧ s.run I ops = Spec.run I (List.replicate n v) ops := by
  obtain ⟨s, e, h⟩ := new_refines I L n v hn
  exact ⟨s, e, run_refines I L ops s _ h hok⟩

/-- …starting from `Segtree::from_slice(xs)`. -/
theorem history_refines_from_slice (I : Item T M A) (L : Lawful I) (xs : List T) (hx : xs ≠ [])
    (ops : List (Op T M)) (hok : OpsOK I xs ops) :
    ∃ s, Seg.fromSlice I xs = .ok s ∧ s.run I ops = Spec.run I xs ops := by
  obtain ⟨s, e, h⟩ := fromSlice_refines I L xs hx
  exact ⟨s, e, run_refines I L ops s _ h hok⟩

/-- …starting from `Segtree::from_iter(xs)`. -/
theorem history_refines_from_iter (I : Item T M A) (L : Lawful I) (xs : List T) (hx : xs ≠ [])
    (ops : List (Op T M)) (hok : OpsOK I xs ops) :
    ∃ s, Seg.fromIter I xs = .ok s ∧ s.run I ops = Spec.run I xs ops := by
  obtain ⟨s, e, h⟩ := fromIter_refines I L xs hx
  exact ⟨s, e, run_refines I L ops s _ h hok⟩

/-- What the specification's `ask` means: the in-order fold (`foldO`, defined with `op` only) of the observable
    values of exactly the elements `l..r`. -/
theorem spec_ask_is_fold (I : Item T M A) (L : Lawful I) (xs : List T) (l r : Nat) (hlr : l ≤ r) (hr : r < xs.length) :
    ∃ a, Spec.ask I xs l r = .ok a ∧ some a = foldO I (slice (xs.map I.val) l (r + 1)) := by
  refine ⟨I.val ((slice xs (l + 1) (r + 1)).foldl I.merge (xs[l]'(by omega))), ?_, ?_⟩
  · simp only [Spec.ask, hlr, hr, not_true_eq_false, dite_false]
  · rw [slice_map, slice_cons xs l (r + 1) (by omega) (by omega), List.map_cons, foldO_cons_foldl I L,
      ← val_foldl_merge I L]

/-- "Range modification = the modifier applied to each covered element": merging the individually modified
    elements observes the fold of the individually acted-on values. -/
theorem spec_is_elementwise (I : Item T M A) (L : Lawful I) (x : T) (xs : List T) (m : M) :
    some (I.val ((xs.map (fun y => I.modify y m)).foldl I.merge (I.modify x m))) =
      foldO I (((x :: xs).map I.val).map (I.act m)) := by
  rw [List.map_cons, List.map_cons, foldO_cons_foldl I L, val_foldl_merge I L, L.val_modify, List.map_map, List.map_map]
  congr 2
  apply List.map_congr_left; intro y _; exact L.val_modify y m

/-! ## lawfulness of the items that exist -/

theorem min_lawful : Lawful minItem := minItem_lawful
theorem max_lawful : Lawful maxItem := maxItem_lawful
theorem sum_lawful : Lawful sumItem := sumItem_lawful
theorem minAdd_lawful : Lawful minAddItem := minAddItem_lawful
theorem maxAdd_lawful : Lawful maxAddItem := maxAddItem_lawful
theorem sumAdd_lawful : Lawful sumAddItem := sumAddItem_lawful

/-- `Combinator<U, V>` of two lawful items is lawful — hence, by structural recursion, every nesting. -/
theorem combinator_lawful {U B : Type} {I : Item T M A} {J : Item U M B} (LI : Lawful I) (LJ : Lawful J) :
    Lawful (prodItem I J) := prodItem_lawful LI LJ

/-- the nestings the harness runs (the last one has two non-commutative components) -/
theorem harness_combinators_lawful :
    Lawful (prodItem minAddItem maxAddItem) ∧ Lawful (prodItem (prodItem sumAddItem minAddItem) maxAddItem) ∧
    Lawful (prodItem affHashItem affHashItem) :=
  ⟨prodItem_lawful minAddItem_lawful maxAddItem_lawful,
   prodItem_lawful (prodItem_lawful sumAddItem_lawful minAddItem_lawful) maxAddItem_lawful,
   prodItem_lawful affHashItem_lawful affHashItem_lawful⟩

/-- the harness's non-commutative item with non-commuting (affine) modifiers -/
theorem affHash_lawful : Lawful affHashItem := affHashItem_lawful
/-- the harness's string-concatenation item with shift / overwrite modifiers -/
theorem strCat_lawful : Lawful strCatItem := strCatItem_lawful

/-- `Combinator` behaves like its two components run side by side: merges, modifications and therefore every
    answer of the plain-list specification (hence, by `history_refines`, of the tree) are componentwise. -/
theorem prod_runs_side_by_side {U B : Type} (I : Item T M A) (J : Item U M B) (z : T × U) (zs : List (T × U)) (m : M) :
    (prodItem I J).val (zs.foldl (prodItem I J).merge z) =
      (I.val ((zs.map Prod.fst).foldl I.merge z.1), J.val ((zs.map Prod.snd).foldl J.merge z.2)) ∧
    (zs.map fun y => (prodItem I J).modify y m) =
      List.zip ((zs.map Prod.fst).map fun y => I.modify y m) ((zs.map Prod.snd).map fun y => J.modify y m) := by
  constructor
  · induction zs generalizing z with
    | nil => rfl
    | cons y ys ih => simp only [List.foldl_cons, List.map_cons]; rw [ih]; rfl
  · induction zs with
    | nil => rfl
    | cons y ys ih => simp only [List.map_cons, List.zip_cons_cons, ih]; rfl

/-! ## non-vacuity -/

section examples

/-- the modifiers of `affHash` really do not commute, its merge really is not commutative -/
example : affHashItem.act (2, 1) (affHashItem.act (0, 5) (3, 131, 1)) ≠
          affHashItem.act (0, 5) (affHashItem.act (2, 1) (3, 131, 1)) := by decide
example : affHashItem.op (1, 131, 1) (2, 131, 1) ≠ affHashItem.op (2, 131, 1) (1, 131, 1) := by decide

/-- a 5-element `MinAdd` tree after two overlapping modifications (hypotheses of `history_refines_from_slice`
    are satisfiable, the conclusion is not trivial) -/
example : ∃ s, Seg.fromSlice minAddItem [⟨3, 0⟩, ⟨1, 0⟩, ⟨4, 0⟩, ⟨1, 0⟩, ⟨5, 0⟩] = .ok s ∧
    s.run minAddItem [.modify 0 3 10, .modify 2 4 (-7), .ask 1 3, .set 3 ⟨100, 0⟩, .ask 0 4, .ask 3 1, .dbg] =
      [.done, .done, .val 4, .done, .val (-2), .panic .assert, .vals [13, 11, 7, 100, -2]] := by
  obtain ⟨s, e, h⟩ := history_refines_from_slice minAddItem minAdd_lawful
    [⟨3, 0⟩, ⟨1, 0⟩, ⟨4, 0⟩, ⟨1, 0⟩, ⟨5, 0⟩] (by simp)
    [.modify 0 3 10, .modify 2 4 (-7), .ask 1 3, .set 3 ⟨100, 0⟩, .ask 0 4, .ask 3 1, .dbg]
    (by simp [OpsOK, OpOK])
  exact ⟨s, e, by rw [h]; decide⟩

/-- the same for `affHash` built by `from_iter`: assign-then-affine on overlapping ranges -/
example : ∃ s, Seg.fromIter affHashItem [affLeaf 1, affLeaf 2, affLeaf 3] = .ok s ∧
    s.run affHashItem [.modify 0 1 (0, 5), .modify 1 2 (2, 1), .ask 0 2, .dbg] =
      [.done, .done, .val (87253, 2248091, 17293), .vals [(5, 131, 1), (11, 131, 1), (7, 131, 1)]] := by
  obtain ⟨s, e, h⟩ := history_refines_from_iter affHashItem affHash_lawful [affLeaf 1, affLeaf 2, affLeaf 3] (by simp)
    [.modify 0 1 (0, 5), .modify 1 2 (2, 1), .ask 0 2, .dbg] (by simp [OpsOK, OpOK])
  exact ⟨s, e, by rw [h]; decide⟩

/-- `new` on a size that is not a power of two, product item -/
example : ∃ s, Seg.new (prodItem minAddItem maxAddItem) 3 (⟨2, 0⟩, ⟨2, 0⟩) = .ok s ∧
    s.run (prodItem minAddItem maxAddItem) [.modify 1 2 5, .ask 0 2] = [.done, .val (2, 7)] := by
  obtain ⟨s, e, h⟩ := history_refines_new (prodItem minAddItem maxAddItem) harness_combinators_lawful.1 3
    (⟨2, 0⟩, ⟨2, 0⟩) (by omega) [.modify 1 2 5, .ask 0 2] (by simp [OpsOK, OpOK])
  exact ⟨s, e, by rw [h]; decide⟩

/-- the tree-level lemmas apply to a concrete lazily modified tree: `build_spec_from_slice` provides `WF`/`Shaped`,
    `modify_spec` keeps them, `ask_spec`/`set_spec` then apply (here: existence of such a tree with a pending tag). -/
example : ∃ t : Tree MinAdd, WF minAddItem t ∧ Shaped t 0 4 ∧ den minAddItem t = [13, 11, 14, 11, 5] ∧
    (∀ l r, l ≤ r → r ≤ 4 →
      some (minAddItem.val (ask minAddItem t l r 0 4).1) = foldO minAddItem (slice [13, 11, 14, 11, 5] l (r + 1))) := by
  obtain ⟨s, _, _, w, sh, d⟩ := build_spec_from_slice minAddItem minAdd_lawful
    [⟨3, 0⟩, ⟨1, 0⟩, ⟨4, 0⟩, ⟨1, 0⟩, ⟨5, 0⟩] (by simp)
  obtain ⟨d', w', sh'⟩ := modify_spec minAddItem minAdd_lawful 10 s.t 0 3 0 4 w sh (by omega) (by omega) (by omega)
  refine ⟨_, w', sh', ?_, ?_⟩
  · rw [d', d]; decide
  · intro l r h1 h2
    have := (ask_spec minAddItem minAdd_lawful _ l r 0 4 w' sh' (by omega) h1 h2).1
    rw [this, d', d]; rfl

end examples

end Rlib.C01
