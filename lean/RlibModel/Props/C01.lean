import RlibModel.Lemmas.SegtreeProd
/-!
# C01 — segment-tree range query = in-order fold of the logical array

Property theorems only.  Model: `Model/Segtree.lean` (tree, `build`/`setI`/`ask`/`modifyI`, the public API `Seg.*`,
the plain-list `Spec.*`, histories `Seg.run` / `Spec.run`) and `Model/SegtreeItems.lean` (the concrete items the
native driver runs).  Lemmas: `Lemmas/Segtree*.lean`.

`Lawful I` is the only assumption on an item: `op` associative, modifiers and pending tags distribute over `op`,
`merge`/`update`/`modify`/`push` act on the observable value as stated.  Nothing is commutative.  `update` is the
overridable trait method `merge_at` / `rebuild_empty` really call (default: `*self = merge(l, r)`); its law is
"observes `op (val l) (val r)` and leaves no pending tag, whatever `self` was".
`den I t` is the logical content of a tree (observable values, left to right, pending tags applied), `WF I t`
says every cached aggregate is the fold of what is below it, `Shaped t vl vr` that the tree splits `[vl, vr]`
at `(vl+vr)/2` like the code.
-/
namespace Rlib.C01
open Rlib.Segtree
variable {T M A : Type}

/-! ## constructors -/

/-- `Segtree::new(n, v)`, `n ≥ 1`: succeeds and represents `n` copies of `v`. -/
theorem build_spec_new (I : Item T M A) (L : Lawful I) (n : Nat) (v : T) (hn : 1 ≤ n) :
    ∃ s, Seg.new I n v = .ok s ∧ s.n = n ∧ WF I s.t ∧ Shaped s.t 0 (n - 1) ∧
      den I s.t = (List.replicate n v).map I.val := by
  obtain ⟨s, e, h⟩ := new_refines I L n v hn
  have hn' : s.n = n := by simpa using h.len
  exact ⟨s, e, hn', h.wf, hn' ▸ h.shaped, h.den⟩

/-- `Segtree::from_slice(xs)`, `xs` non-empty: succeeds and represents `xs`. -/
theorem build_spec_from_slice (I : Item T M A) (L : Lawful I) (xs : List T) (hx : xs ≠ []) :
    ∃ s, Seg.fromSlice I xs = .ok s ∧ s.n = xs.length ∧ WF I s.t ∧ Shaped s.t 0 (xs.length - 1) ∧
      den I s.t = xs.map I.val := by
  obtain ⟨s, e, h⟩ := fromSlice_refines I L xs hx
  exact ⟨s, e, h.len, h.wf, h.len ▸ h.shaped, h.den⟩

/-- `Segtree::from_iter(xs)`, `xs` non-empty: succeeds and represents `xs`. -/
theorem build_spec_from_iter (I : Item T M A) (L : Lawful I) (xs : List T) (hx : xs ≠ []) :
    ∃ s, Seg.fromIter I xs = .ok s ∧ s.n = xs.length ∧ WF I s.t ∧ Shaped s.t 0 (xs.length - 1) ∧
      den I s.t = xs.map I.val := by
  obtain ⟨s, e, h⟩ := fromIter_refines I L xs hx
  exact ⟨s, e, h.len, h.wf, h.len ▸ h.shaped, h.den⟩

/-! ## the three mutators / queries on a well-formed tree of any size -/

/-- `ask_internal`: the answer observes the in-order fold of exactly `[l, r]`; the pushes it performs change
    neither the logical contents nor well-formedness nor the shape. -/
theorem ask_spec (I : Item T M A) (L : Lawful I) (t : Tree T) (l r vl vr : Nat) (hwf : WF I t) (hs : Shaped t vl vr)
    (h1 : vl ≤ l) (h2 : l ≤ r) (h3 : r ≤ vr) :
    some (I.val (ask I t l r vl vr).1) = foldO I (slice (den I t) (l - vl) (r + 1 - vl)) ∧
    den I (ask I t l r vl vr).2 = den I t ∧ WF I (ask I t l r vl vr).2 ∧
    Shaped (ask I t l r vl vr).2 vl vr := Segtree.ask_spec I L t l r vl vr hwf hs h1 h2 h3

/-- `modify_internal`: the modifier is applied to each covered element individually, to nothing else. -/
theorem modify_spec (I : Item T M A) (L : Lawful I) (md : M) (t : Tree T) (l r vl vr : Nat) (hwf : WF I t)
    (hs : Shaped t vl vr) (h1 : vl ≤ l) (h2 : l ≤ r) (h3 : r ≤ vr) :
    den I (modifyI I t l r md vl vr) = mapRange (I.act md) (l - vl) (r + 1 - vl) (den I t) ∧
    WF I (modifyI I t l r md vl vr) ∧ Shaped (modifyI I t l r md vl vr) vl vr :=
  Segtree.modify_spec I L md t l r vl vr hwf hs h1 h2 h3

/-- `set_internal`: exactly position `ind` is overwritten (pending tags above it are pushed first). -/
theorem set_spec (I : Item T M A) (L : Lawful I) (x : T) (t : Tree T) (ind vl vr : Nat) (hwf : WF I t)
    (hs : Shaped t vl vr) (h1 : vl ≤ ind) (h2 : ind ≤ vr) :
    den I (setI I t ind x vl vr) = (den I t).set (ind - vl) (I.val x) ∧
    WF I (setI I t ind x vl vr) ∧ Shaped (setI I t ind x vl vr) vl vr :=
  Segtree.set_spec I L x t ind vl vr hwf hs h1 h2

/-! ## the property: every history answers like the plain list -/

/-- From any state that represents `xs`, every finite history of `set` / `modify` / `ask` / `lower_bound` /
    `lower_bound_rev` / `debug` (out-of-range `set`/`modify`/`ask` included: both sides assert; searches with an
    admissible predicate, `OpsOK`) yields the same list of observable answers on the model and on the plain list. -/
theorem history_refines (I : Item T M A) (L : Lawful I) (s : Seg T) (xs : List T) (hI : Inv I s xs)
    (ops : List (Op T M)) (hok : OpsOK I xs ops) :
    s.run I ops = Spec.run I xs ops := run_refines I L ops s xs hI hok

/-- …starting from `Segtree::new(n, v)`, any `n ≥ 1`. -/
theorem history_refines_new (I : Item T M A) (L : Lawful I) (n : Nat) (v : T) (hn : 1 ≤ n)
    (ops : List (Op T M)) (hok : OpsOK I (List.replicate n v) ops) :
    ∃ s, Seg.new I n v = .ok s ∧ s.run I ops = Spec.run I (List.replicate n v) ops := by
  obtain ⟨s, e, h⟩ := new_refines I L n v hn
  exact ⟨s, e, run_refines I L ops s _ h hok⟩

/-- …starting from `Segtree::from_slice(xs)`. -/
theorem history_refines_from_slice (I : Item T M A) (L : Lawful I) (xs : List T) (hx : xs ≠ [])
    (ops : List (Op T M)) (hok : OpsOK I xs ops) :
    ∃ s, Seg.fromSlice I xs = .ok s ∧ s.run I ops = Spec.run I xs ops := by
  obtain ⟨s, e, h⟩ := fromSlice_refines I L xs hx
  exact ⟨s, e, run_refines I L ops s _ h hok⟩

/-- …starting from `Segtree::from_iter(xs)`. -/
theorem history_refines_from_iter (I : Item T M A) (L : Lawful I) (xs : List T) (hx : xs ≠ [])
    (ops : List (Op T M)) (hok : OpsOK I xs ops) :
    ∃ s, Seg.fromIter I xs = .ok s ∧ s.run I ops = Spec.run I xs ops := by
  obtain ⟨s, e, h⟩ := fromIter_refines I L xs hx
  exact ⟨s, e, run_refines I L ops s _ h hok⟩

/-- What the specification's `ask` means: the in-order fold (`foldO`, defined with `op` only) of the observable
    values of exactly the elements `l..r`. -/
theorem spec_ask_is_fold (I : Item T M A) (L : Lawful I) (xs : List T) (l r : Nat) (hlr : l ≤ r) (hr : r < xs.length) :
    ∃ a, Spec.ask I xs l r = .ok a ∧ some a = foldO I (slice (xs.map I.val) l (r + 1)) := by
  refine ⟨I.val ((slice xs (l + 1) (r + 1)).foldl I.merge (xs[l]'(by omega))), ?_, ?_⟩
  · simp only [Spec.ask, hlr, hr, not_true_eq_false, dite_false]
  · rw [slice_map, slice_cons xs l (r + 1) (by omega) (by omega), List.map_cons, foldO_cons_foldl I L,
      ← val_foldl_merge I L]

/-- "Range modification = the modifier applied to each covered element": merging the individually modified
    elements observes the fold of the individually acted-on values. -/
theorem spec_is_elementwise (I : Item T M A) (L : Lawful I) (x : T) (xs : List T) (m : M) :
    some (I.val ((xs.map (fun y => I.modify y m)).foldl I.merge (I.modify x m))) =
      foldO I (((x :: xs).map I.val).map (I.act m)) := by
  rw [List.map_cons, List.map_cons, foldO_cons_foldl I L, val_foldl_merge I L, L.val_modify, List.map_map, List.map_map]
  congr 2
  apply List.map_congr_left; intro y _; exact L.val_modify y m

/-! ## lawfulness of the items that exist -/

/-! The built-in items at **every** integer element type `ty` (the type only fixes `Default`, i.e. `<T as MinMax>::MAX` /
`MIN`; values are mathematical integers, machine overflow is outside the domain — see `guarded_lawful`). -/
theorem min_lawful (ty : IntTy) : Lawful (minItem ty) := minItem_lawful ty
theorem max_lawful (ty : IntTy) : Lawful (maxItem ty) := maxItem_lawful ty
theorem sum_lawful : Lawful sumItem := sumItem_lawful
theorem minAdd_lawful (ty : IntTy) : Lawful (minAddItem ty) := minAddItem_lawful ty
theorem maxAdd_lawful (ty : IntTy) : Lawful (maxAddItem ty) := maxAddItem_lawful ty
theorem sumAdd_lawful : Lawful sumAddItem := sumAddItem_lawful

/-- An item run together with the overflow flag (`guardItem`, what the driver executes for the narrow / unsigned element
    types) is lawful whenever the item is — so every theorem of this file and of C02 applies to the guarded run — and the
    guard changes nothing: every operation projects to the item's own operation, the observable algebra is the item's. -/
theorem guarded_lawful (I : Item T M A) (L : Lawful I) (G : Guard T M) :
    Lawful (guardItem I G) ∧
    (∀ l r, ((guardItem I G).merge l r).1 = I.merge l.1 r.1) ∧
    (∀ p l r, ((guardItem I G).update p l r).1 = I.update p.1 l.1 r.1) ∧
    (∀ x m, ((guardItem I G).modify x m).1 = I.modify x.1 m) ∧
    (∀ p l r, (((guardItem I G).push p l r).1.1, ((guardItem I G).push p l r).2.1.1, ((guardItem I G).push p l r).2.2.1) =
      I.push p.1 l.1 r.1) ∧
    ((guardItem I G).dflt.1 = I.dflt) ∧ (∀ x, (guardItem I G).val x = I.val x.1) ∧ (guardItem I G).op = I.op ∧
    (guardItem I G).act = I.act :=
  ⟨guardItem_lawful L G, fun _ _ => rfl, fun _ _ _ => rfl, fun _ _ => rfl, fun _ _ _ => rfl, rfl, fun _ => rfl, rfl, rfl⟩

/-- The specification the driver prints for a guarded item (plain list of `(item, flag)` pairs) **is** the specification of
    the item itself on the first components: `ask`, range modification and the aggregates `[l, k]` / `[k, r]` the boundary
    searches are specified with do not depend on the flags.  Together with `guarded_lawful` + `history_refines`: the guarded
    model run answers exactly what the plain list of the *unguarded* item answers. -/
theorem guarded_spec_is_item_spec (I : Item T M A) (G : Guard T M) (zs : List (T × Bool)) (l r : Nat) (m : M) :
    Spec.ask (guardItem I G) zs l r = Spec.ask I (zs.map Prod.fst) l r ∧
    (match Spec.modify (guardItem I G) zs l r m with
     | .ok zs' => Except.ok (zs'.map Prod.fst)
     | .error e => .error e) = Spec.modify I (zs.map Prod.fst) l r m ∧
    (Spec.aggFwd (guardItem I G) zs l r).1 = Spec.aggFwd I (zs.map Prod.fst) l r ∧
    (Spec.aggBwd (guardItem I G) zs l r).1 = Spec.aggBwd I (zs.map Prod.fst) l r :=
  ⟨guard_spec_ask I G zs l r, guard_spec_modify I G zs l r m, (guard_spec_agg I G zs l r).1, (guard_spec_agg I G zs l r).2⟩

/-- the flag is sticky and conjunctive: a value computed from a flagged (`false`) operand, or by a call the guard rejects,
    is flagged — so one overflow anywhere on the way to a node stays visible in the tree and in every answer built from it -/
theorem guard_flag_sticky (I : Item T M A) (G : Guard T M) :
    (∀ l r, ((guardItem I G).merge l r).2 = (l.2 && r.2 && G.okMerge l.1 r.1)) ∧
    (∀ p l r, ((guardItem I G).update p l r).2 = (p.2 && l.2 && r.2 && G.okMerge l.1 r.1)) ∧
    (∀ x m, ((guardItem I G).modify x m).2 = (x.2 && G.okModify x.1 m)) ∧
    (∀ p l r, ((guardItem I G).push p l r).1.2 = (p.2 && G.okPush p.1 l.1 r.1) ∧
      ((guardItem I G).push p l r).2.1.2 = (l.2 && (p.2 && G.okPush p.1 l.1 r.1)) ∧
      ((guardItem I G).push p l r).2.2.2 = (r.2 && (p.2 && G.okPush p.1 l.1 r.1))) :=
  ⟨fun _ _ => rfl, fun _ _ _ => rfl, fun _ _ => rfl, fun _ _ _ => ⟨rfl, rfl, rfl⟩⟩

/-- `Combinator<U, V>` of two lawful items is lawful — hence, by structural recursion, every nesting. -/
theorem combinator_lawful {U B : Type} {I : Item T M A} {J : Item U M B} (LI : Lawful I) (LJ : Lawful J) :
    Lawful (prodItem I J) := prodItem_lawful LI LJ

/-- the nestings the harness runs, at every element type (the last one has two non-commutative components) -/
theorem harness_combinators_lawful (ty : IntTy) :
    Lawful (prodItem (minAddItem ty) (maxAddItem ty)) ∧
    Lawful (prodItem (prodItem sumAddItem (minAddItem ty)) (maxAddItem ty)) ∧
    Lawful (prodItem affHashItem affHashItem) :=
  ⟨prodItem_lawful (minAddItem_lawful ty) (maxAddItem_lawful ty),
   prodItem_lawful (prodItem_lawful sumAddItem_lawful (minAddItem_lawful ty)) (maxAddItem_lawful ty),
   prodItem_lawful affHashItem_lawful affHashItem_lawful⟩

/-- the harness's non-commutative item with non-commuting (affine) modifiers -/
theorem affHash_lawful : Lawful affHashItem := affHashItem_lawful
/-- the harness's string-concatenation item with shift / overwrite modifiers -/
theorem strCat_lawful : Lawful strCatItem := strCatItem_lawful

/-- the harness's flip-a-range / count-ones item, lazy with the **zero-sized** modifier `()` (`flipZItem`) and with a
    one-byte modifier (`flipBItem`): non-idempotent, self-inverse modifier -/
theorem flip_lawful : Lawful flipZItem ∧ Lawful flipBItem := ⟨flipZItem_lawful, flipBItem_lawful⟩

/-- Wave 4: the harness's "add an arithmetic progression to a range" item `ap` (range sum; the pending tag is relative to the
    node's first element, so `push` hands the right child a DIFFERENT tag than the left one) is lawful — alone, as both
    components of a `Combinator`, and run together with the correspondence guard `apGuard`.  So every theorem of this file
    and of C02 applies to a lazy item that is asymmetric in its children. -/
theorem ap_lawful :
    Lawful apItem ∧ Lawful (prodItem apItem apItem) ∧ Lawful (guardItem apItem apGuard) ∧
    Lawful (guardItem (prodItem apItem apItem) (prodGuard apGuard apGuard)) :=
  ⟨apItem_lawful, prodItem_lawful apItem_lawful apItem_lawful, guardItem_lawful apItem_lawful _,
   guardItem_lawful (prodItem_lawful apItem_lawful apItem_lawful) _⟩

/-- The `push` of the harness's Rust item — `left.apply(ta, td); right.apply(ta + td * left.len, td)`, the way such an item is
    normally written — is the model's `push` at every node whose left child starts where the node starts and whose right
    child starts `left.len` positions later (every node of a tree whose `i`-th element has position `i`).  The driver checks
    the equation itself on every `push` of a history (`apGuard`; a history with a call on which it fails gets `S any`). -/
theorem ap_push_is_code_push (p l r : Ap) (q : Int) (hp : p.lo = some q) (hl : l.lo = some q) (hr : r.lo = some (q + l.len)) :
    apPushCode p l r = apItem.push p l r ∧ apGuard.okPush p l r = true :=
  ⟨ap_push_code_eq p l r q hp hl hr, by simp [apGuard, ap_push_code_eq p l r q hp hl hr]⟩

/-- … and it is NOT symmetric in the children: handed over in the wrong order (seeded `C02_m11`: `push_at`; `C02_m13`:
    `Combinator::push` for its second component) the progression restarts in the right half. -/
theorem ap_swapped_push_differs :
    let p : Ap := ⟨0, 2, 1, some 0, 1, 1⟩
    let l := apLeaf 0 0
    let r := apLeaf 1 0
    apPushCode p l r = apItem.push p l r ∧
    ((apPushCode p r l).2.2, (apPushCode p r l).2.1) ≠ ((apItem.push p l r).2.1, (apItem.push p l r).2.2) :=
  ap_push_code_swapped_differs

/-- `Combinator` does not forward `update` to its components (it keeps the trait's default): the product's `update` is the
    componentwise **merge**; for lawful components that observes the same as the components' own `update`. -/
theorem combinator_update_is_merge {U B : Type} (I : Item T M A) (J : Item U M B) (LI : Lawful I) (LJ : Lawful J)
    (p l r : T × U) :
    (prodItem I J).update p l r = (I.merge l.1 r.1, J.merge l.2 r.2) ∧
    (prodItem I J).val ((prodItem I J).update p l r) = (I.val (I.update p.1 l.1 r.1), J.val (J.update p.2 l.2 r.2)) :=
  ⟨rfl, by
    rw [LI.val_update, LJ.val_update]
    show (I.val (I.merge l.1 r.1), J.val (J.merge l.2 r.2)) = _
    rw [LI.val_merge, LJ.val_merge]⟩

/-- `Combinator` behaves exactly like its two components run side by side, on the trees, for every history of
    `set` / `modify` / `ask` / `debug` (in and out of range): the answers of the product tree are the pairs of the answers of
    the two component trees.  (Searches are excluded: a predicate on the pair need not factor through a component.) -/
theorem prod_runs_side_by_side {U B : Type} (I : Item T M A) (J : Item U M B) (LI : Lawful I) (LJ : Lawful J)
    (s : Seg (T × U)) (s1 : Seg T) (s2 : Seg U) (zs : List (T × U))
    (h : Inv (prodItem I J) s zs) (h1 : Inv I s1 (zs.map Prod.fst)) (h2 : Inv J s2 (zs.map Prod.snd))
    (ops : List (Op (T × U) M)) (hns : ops.all Op.noSearch = true) :
    s.run (prodItem I J) ops = Ans.pairs (s1.run I (ops.map Op.proj1)) (s2.run J (ops.map Op.proj2)) :=
  run_prod I J LI LJ s s1 s2 zs h h1 h2 ops hns

/-- …in particular for the three trees built by `from_slice` from a list of pairs and from its two projections. -/
theorem prod_runs_side_by_side_from_slice {U B : Type} (I : Item T M A) (J : Item U M B) (LI : Lawful I) (LJ : Lawful J)
    (zs : List (T × U)) (hz : zs ≠ []) (ops : List (Op (T × U) M)) (hns : ops.all Op.noSearch = true) :
    ∃ s s1 s2, Seg.fromSlice (prodItem I J) zs = .ok s ∧ Seg.fromSlice I (zs.map Prod.fst) = .ok s1 ∧
      Seg.fromSlice J (zs.map Prod.snd) = .ok s2 ∧
      s.run (prodItem I J) ops = Ans.pairs (s1.run I (ops.map Op.proj1)) (s2.run J (ops.map Op.proj2)) := by
  obtain ⟨s, e, h⟩ := fromSlice_refines (prodItem I J) (prodItem_lawful LI LJ) zs hz
  obtain ⟨s1, e1, h1⟩ := fromSlice_refines I LI (zs.map Prod.fst) (by simpa using hz)
  obtain ⟨s2, e2, h2⟩ := fromSlice_refines J LJ (zs.map Prod.snd) (by simpa using hz)
  exact ⟨s, s1, s2, e, e1, e2, run_prod I J LI LJ s s1 s2 zs h h1 h2 ops hns⟩

/-- Element types whose order ignores part of the value (`KV`: a record ordered by its key, a float with its two zeros): the
    keyed `Min` / `Max` / `MinAdd` / `MaxAdd` (`Default` = any element `d`) are lawful **with the whole element as observable
    value** — so `ask_spec` / `history_refines` fix *which* of several equal-comparing minima a query returns: the one the
    left-to-right `merge` fold returns. -/
theorem keyed_lawful (d : KV) :
    Lawful (minKItem d) ∧ Lawful (maxKItem d) ∧ Lawful (minAddKItem d) ∧ Lawful (maxAddKItem d) :=
  ⟨minKItem_lawful d, maxKItem_lawful d, minAddKItem_lawful d, maxAddKItem_lawful d⟩

/-- `Combinator<MinAdd<T>, MaxAdd<T>>` over such an element type (what the harness runs as `mm:rec`, `mm:f64`, `mm:f32`) -/
theorem keyed_combinator_lawful (d e : KV) : Lawful (prodItem (minAddKItem d) (maxAddKItem e)) :=
  prodItem_lawful (minAddKItem_lawful d) (maxAddKItem_lawful e)

/-- the tie rule of `Min::merge` / `Max::merge`: of two equal-comparing elements the RIGHT one is returned (the left operand
    wins only when strictly smaller / greater), so the fold over a range returns its LAST minimal / maximal element -/
theorem keyed_ties_go_right (d a b : KV) (h : a.k = b.k) : (minKItem d).op a b = b ∧ (maxKItem d).op a b = b := by
  refine ⟨minK_tie_right d a b h, ?_⟩
  show (if a.k > b.k then a else b) = b
  rw [if_neg (by omega)]

/-- an `update` override that resolves ties the other way round (`if right.v < left.v { right } else { left }`, seeded
    change C01_m10) is **not** a lawful override: inner nodes would hold the first of equal minima, the straddling branch of
    `ask` (which calls `merge`) the last, and the answer would depend on the node decomposition -/
theorem min_left_tie_update_not_lawful (d : KV) :
    ¬ Lawful { minKItem d with update := fun _ l r => if r.k < l.k then r else l } :=
  minK_left_tie_update_not_lawful d

/-- Feeding a value the API returned back into the API — `dst.set(i, src.ask(l, r))`, `dst` another live tree of the type
    (`x i l r` in the correspondence) or `src` itself (`cp i l r`, second part) — is an ordinary `ask` followed by an ordinary
    `set` of the returned item: the source still represents `xs`, the destination represents `ys` with element `i` replaced
    by that item, whose observable value is the plain list's left-to-right fold of `xs[l..=r]`. -/
theorem transfer_refines (I : Item T M A) (L : Lawful I) (s d : Seg T) (xs ys : List T) (hs : Inv I s xs) (hd : Inv I d ys)
    (i l r : Nat) (hlr : l ≤ r) (hr : r < xs.length) :
    ∃ x s' a, s.ask I l r = .ok (x, s') ∧ Spec.ask I xs l r = .ok a ∧ I.val x = a ∧ Inv I s' xs ∧
      (i < ys.length → ∃ d', d.set I i x = .ok d' ∧ Spec.set ys i x = .ok (ys.set i x) ∧ Inv I d' (ys.set i x)) ∧
      (i < xs.length → ∃ s'', s'.set I i x = .ok s'' ∧ Spec.set xs i x = .ok (xs.set i x) ∧ Inv I s'' (xs.set i x)) := by
  obtain ⟨x, s', a, e1, e2, e3, h'⟩ := ask_refines I L s xs hs l r hlr hr
  exact ⟨x, s', a, e1, e2, e3, h', fun hi => set_refines I L d ys hd i x hi, fun hi => set_refines I L s' xs h' i x hi⟩

/-- Feeding returned values back into a **constructor**: the `n` single-element asks (`debug()` without the formatting) observe
    the plain list and leave the tree representing it; `from_slice` / `from_iter` of the items read back, and `new(n, ask(0, n-1))`,
    build trees that represent exactly those items (`y slice | iter | new` in the correspondence). -/
theorem rebuild_refines (I : Item T M A) (L : Lawful I) (s : Seg T) (xs : List T) (hI : Inv I s xs) :
    (s.debug I).1.map I.val = xs.map I.val ∧ Inv I (s.debug I).2 xs ∧
    (∃ d, Seg.fromSlice I (s.debug I).1 = .ok d ∧ Inv I d (s.debug I).1) ∧
    (∃ d, Seg.fromIter I (s.debug I).1 = .ok d ∧ Inv I d (s.debug I).1) ∧
    (∃ x s' a d, s.ask I 0 (s.n - 1) = .ok (x, s') ∧ Spec.ask I xs 0 (s.n - 1) = .ok a ∧ I.val x = a ∧ Inv I s' xs ∧
      Seg.new I s.n x = .ok d ∧ Inv I d (List.replicate s.n x)) := by
  have hI' : Inv I ⟨s.n, s.t⟩ xs := by cases s; exact hI
  obtain ⟨e1, e2⟩ := debugLoop_spec I L s.n xs s.n 0 s.t hI' (by omega)
  have hne : (s.debug I).1 ≠ [] := by
    intro h
    have : ((s.debug I).1.map I.val).length = (xs.map I.val).length := by
      show ((debugLoop I s.n s.t 0 s.n).1.map I.val).length = _
      rw [e1, List.drop_zero]
    rw [h] at this
    have hp := hI.pos
    simp at this
    omega
  have hn : 0 < s.n := by rw [hI.len]; exact hI.pos
  refine ⟨by show (debugLoop I s.n s.t 0 s.n).1.map I.val = _; rw [e1, List.drop_zero], e2,
    fromSlice_refines I L _ hne, fromIter_refines I L _ hne, ?_⟩
  obtain ⟨x, s', a, a1, a2, a3, a4⟩ := ask_refines I L s xs hI 0 (s.n - 1) (Nat.zero_le _) (by rw [← hI.len]; omega)
  obtain ⟨d, d1, d2⟩ := new_refines I L s.n x hn
  exact ⟨x, s', a, d, a1, a2, a3, a4, d1, d2⟩


/-- `Sum<T>` over an element type whose `+` is associative but not commutative (harness type `Cat`, `sum:cat`): lawful, so
    `ask` is the concatenation in array order -/
theorem sum_noncommutative_lawful : Lawful catSumItem := catSumItem_lawful

/-! ## non-vacuity -/

section examples

/-- the modifiers of `affHash` really do not commute, its merge really is not commutative -/
example : affHashItem.act (2, 1) (affHashItem.act (0, 5) (3, 131, 1)) ≠
          affHashItem.act (0, 5) (affHashItem.act (2, 1) (3, 131, 1)) := by decide
example : affHashItem.op (1, 131, 1) (2, 131, 1) ≠ affHashItem.op (2, 131, 1) (1, 131, 1) := by decide

/-- an in-place `update` for `SumAdd` that recomputes `v`, `len` but keeps `md` (seeded change C01_m1) violates the law -/
example : ¬ Lawful { sumAddItem with update := fun p l r => ⟨l.v + r.v, l.len + r.len, p.md⟩ } := by
  intro h
  have := h.pa_update ⟨0, 0, 1⟩ ⟨0, 0, 0⟩ ⟨0, 0, 0⟩ (0, 1)
  revert this; decide

/-- a `Combinator::update` that delegates with the second component's arguments swapped (seeded change C01_m2)
    violates the law as soon as that component's merge is not commutative -/
example : ¬ Lawful { prodItem affHashItem affHashItem with
    update := fun p l r => (affHashItem.update p.1 l.1 r.1, affHashItem.update p.2 r.2 l.2) } := by
  intro h
  have := h.val_update (affLeaf 0, affLeaf 0) (affLeaf 1, affLeaf 1) (affLeaf 2, affLeaf 2)
  revert this; decide

/-- product and components side by side on a concrete history -/
example : ∃ s s1 s2, Seg.fromSlice (prodItem (minAddItem .i64) (maxAddItem .i64)) [(⟨3, 0⟩, ⟨3, 0⟩), (⟨1, 0⟩, ⟨1, 0⟩), (⟨4, 0⟩, ⟨4, 0⟩)] = .ok s ∧
    Seg.fromSlice (minAddItem .i64) [⟨3, 0⟩, ⟨1, 0⟩, ⟨4, 0⟩] = .ok s1 ∧ Seg.fromSlice (maxAddItem .i64) [⟨3, 0⟩, ⟨1, 0⟩, ⟨4, 0⟩] = .ok s2 ∧
    s.run (prodItem (minAddItem .i64) (maxAddItem .i64)) [.modify 0 1 10, .ask 0 2, .ask 5 1] =
      Ans.pairs (s1.run (minAddItem .i64) [.modify 0 1 10, .ask 0 2, .ask 5 1]) (s2.run (maxAddItem .i64) [.modify 0 1 10, .ask 0 2, .ask 5 1]) :=
  prod_runs_side_by_side_from_slice (minAddItem .i64) (maxAddItem .i64) (minAdd_lawful .i64) (maxAdd_lawful .i64) _ (by simp)
    [.modify 0 1 10, .ask 0 2, .ask 5 1] (by decide)

/-- a 5-element `MinAdd` tree after two overlapping modifications (hypotheses of `history_refines_from_slice`
    are satisfiable, the conclusion is not trivial) -/
example : ∃ s, Seg.fromSlice (minAddItem .i64) [⟨3, 0⟩, ⟨1, 0⟩, ⟨4, 0⟩, ⟨1, 0⟩, ⟨5, 0⟩] = .ok s ∧
    s.run (minAddItem .i64) [.modify 0 3 10, .modify 2 4 (-7), .ask 1 3, .set 3 ⟨100, 0⟩, .ask 0 4, .ask 3 1, .dbg] =
      [.done, .done, .val 4, .done, .val (-2), .panic .assert, .vals [13, 11, 7, 100, -2]] := by
  obtain ⟨s, e, h⟩ := history_refines_from_slice (minAddItem .i64) (minAdd_lawful .i64)
    [⟨3, 0⟩, ⟨1, 0⟩, ⟨4, 0⟩, ⟨1, 0⟩, ⟨5, 0⟩] (by simp)
    [.modify 0 3 10, .modify 2 4 (-7), .ask 1 3, .set 3 ⟨100, 0⟩, .ask 0 4, .ask 3 1, .dbg]
    (by simp [OpsOK, OpOK])
  exact ⟨s, e, by rw [h]; decide⟩

/-- the same for `affHash` built by `from_iter`: assign-then-affine on overlapping ranges -/
example : ∃ s, Seg.fromIter affHashItem [affLeaf 1, affLeaf 2, affLeaf 3] = .ok s ∧
    s.run affHashItem [.modify 0 1 (0, 5), .modify 1 2 (2, 1), .ask 0 2, .dbg] =
      [.done, .done, .val (87253, 2248091, 17293), .vals [(5, 131, 1), (11, 131, 1), (7, 131, 1)]] := by
  obtain ⟨s, e, h⟩ := history_refines_from_iter affHashItem affHash_lawful [affLeaf 1, affLeaf 2, affLeaf 3] (by simp)
    [.modify 0 1 (0, 5), .modify 1 2 (2, 1), .ask 0 2, .dbg] (by simp [OpsOK, OpOK])
  exact ⟨s, e, by rw [h]; decide⟩

/-- the asymmetric lazy item: eight zeros, `a[i] += 1 + i` as one range modification that stays pending in the root, a second
    progression on a part that straddles the middle; the answers are those of the plain list -/
example : ∃ s, Seg.fromIter apItem ((List.range 8).map fun i => apLeaf (i : Nat) 0) = .ok s ∧
    s.run apItem [.modify 0 7 (0, 1, 1), .ask 0 3, .modify 2 5 (2, 10, -1), .ask 4 7, .dbg] =
      [.done, .val (10, 4, 6, some 0), .done, .val (41, 4, 22, some 4),
       .vals [(1, 1, 0, some 0), (2, 1, 1, some 1), (13, 1, 2, some 2), (13, 1, 3, some 3), (13, 1, 4, some 4),
              (13, 1, 5, some 5), (7, 1, 6, some 6), (8, 1, 7, some 7)]] := by
  obtain ⟨s, e, h⟩ := history_refines_from_iter apItem ap_lawful.1 ((List.range 8).map fun i => apLeaf (i : Nat) 0) (by decide)
    [.modify 0 7 (0, 1, 1), .ask 0 3, .modify 2 5 (2, 10, -1), .ask 4 7, .dbg] (by simp [OpsOK, OpOK])
  exact ⟨s, e, by rw [h]; decide⟩

/-- a lazy item whose modifier type is `Unit`: two overlapping flips, queries crossing the pending flips -/
example : ∃ s, Seg.fromSlice flipZItem [⟨1, 1, false⟩, ⟨0, 1, false⟩, ⟨1, 1, false⟩, ⟨1, 1, false⟩, ⟨0, 1, false⟩] = .ok s ∧
    s.run flipZItem [.modify 0 3 (), .modify 2 4 (), .ask 0 4, .ask 1 2, .dbg] =
      [.done, .done, .val (4, 5), .val (2, 2), .vals [(0, 1), (1, 1), (1, 1), (1, 1), (1, 1)]] := by
  obtain ⟨s, e, h⟩ := history_refines_from_slice flipZItem flip_lawful.1
    [⟨1, 1, false⟩, ⟨0, 1, false⟩, ⟨1, 1, false⟩, ⟨1, 1, false⟩, ⟨0, 1, false⟩] (by simp)
    [.modify 0 3 (), .modify 2 4 (), .ask 0 4, .ask 1 2, .dbg] (by simp [OpsOK, OpOK])
  exact ⟨s, e, by rw [h]; decide⟩

/-- `new` on a size that is not a power of two, product item -/
example : ∃ s, Seg.new (prodItem (minAddItem .i64) (maxAddItem .i64)) 3 (⟨2, 0⟩, ⟨2, 0⟩) = .ok s ∧
    s.run (prodItem (minAddItem .i64) (maxAddItem .i64)) [.modify 1 2 5, .ask 0 2] = [.done, .val (2, 7)] := by
  obtain ⟨s, e, h⟩ := history_refines_new (prodItem (minAddItem .i64) (maxAddItem .i64)) (harness_combinators_lawful .i64).1 3
    (⟨2, 0⟩, ⟨2, 0⟩) (by omega) [.modify 1 2 5, .ask 0 2] (by simp [OpsOK, OpOK])
  exact ⟨s, e, by rw [h]; decide⟩

/-- the tree-level lemmas apply to a concrete lazily modified tree: `build_spec_from_slice` provides `WF`/`Shaped`,
    `modify_spec` keeps them, `ask_spec`/`set_spec` then apply (here: existence of such a tree with a pending tag). -/
example : ∃ t : Tree MinAdd, WF (minAddItem .i64) t ∧ Shaped t 0 4 ∧ den (minAddItem .i64) t = [13, 11, 14, 11, 5] ∧
    (∀ l r, l ≤ r → r ≤ 4 →
      some ((minAddItem .i64).val (ask (minAddItem .i64) t l r 0 4).1) = foldO (minAddItem .i64) (slice [13, 11, 14, 11, 5] l (r + 1))) := by
  obtain ⟨s, _, _, w, sh, d⟩ := build_spec_from_slice (minAddItem .i64) (minAdd_lawful .i64)
    [⟨3, 0⟩, ⟨1, 0⟩, ⟨4, 0⟩, ⟨1, 0⟩, ⟨5, 0⟩] (by simp)
  obtain ⟨d', w', sh'⟩ := modify_spec (minAddItem .i64) (minAdd_lawful .i64) 10 s.t 0 3 0 4 w sh (by omega) (by omega) (by omega)
  refine ⟨_, w', sh', ?_, ?_⟩
  · rw [d', d]; decide
  · intro l r h1 h2
    have := (ask_spec (minAddItem .i64) (minAdd_lawful .i64) _ l r 0 4 w' sh' (by omega) h1 h2).1
    rw [this, d', d]; rfl

/-- the guard at a narrow unsigned type: `MaxAdd<u8>` elements equal to `u8::MIN = 0` receive a range add like every
    other element and stay inside the domain (flag `true`); an add that leaves `u8` is flagged, and the flag survives a
    later `update` of the node (sticky) -/
example : (guardItem (maxAddItem ⟨false, 8⟩) (maxAddGuard ⟨false, 8⟩)).modify (⟨0, 0⟩, true) 5 = (⟨5, 5⟩, true) ∧
    (guardItem (maxAddItem ⟨false, 8⟩) (maxAddGuard ⟨false, 8⟩)).modify (⟨250, 0⟩, true) 6 = (⟨256, 6⟩, false) ∧
    ((guardItem (maxAddItem ⟨false, 8⟩) (maxAddGuard ⟨false, 8⟩)).update (⟨256, 6⟩, false) (⟨1, 0⟩, true) (⟨2, 0⟩, true)).2 = false ∧
    ((guardItem sumAddItem (sumAddGuard ⟨true, 8⟩)).modify (⟨-100, 13, 0⟩, true) 10).2 = false := by decide

/-- a guarded history at `u8` (what the driver runs for `maxadd:u8`): zeros under `MaxAdd` move with the range add -/
example : ∃ s, Seg.new (guardItem (maxAddItem ⟨false, 8⟩) (maxAddGuard ⟨false, 8⟩)) 3 (⟨0, 0⟩, true) = .ok s ∧
    s.run (guardItem (maxAddItem ⟨false, 8⟩) (maxAddGuard ⟨false, 8⟩)) [.modify 0 1 5, .ask 0 2, .ask 2 2, .dbg] =
      [.done, .val 5, .val 0, .vals [5, 5, 0]] := by
  obtain ⟨s, e, h⟩ := history_refines_new _ (guarded_lawful _ (maxAdd_lawful ⟨false, 8⟩) (maxAddGuard ⟨false, 8⟩)).1 3
    (⟨0, 0⟩, true) (by omega) [.modify 0 1 5, .ask 0 2, .ask 2 2, .dbg] (by simp [OpsOK, OpOK])
  exact ⟨s, e, by rw [h]; decide⟩

/-- `guarded_spec_is_item_spec` on a concrete list: the flags (here one `false`) do not show in the specification -/
example : Spec.ask (guardItem sumAddItem (sumAddGuard ⟨false, 8⟩)) [(⟨3, 1, 0⟩, true), (⟨200, 1, 0⟩, false), (⟨7, 1, 0⟩, true)] 0 2 =
    .ok (210, 3) ∧ Spec.ask sumAddItem [⟨3, 1, 0⟩, ⟨200, 1, 0⟩, ⟨7, 1, 0⟩] 0 2 = .ok (210, 3) := by decide

/-- duplicated minima with distinct payloads: the queries return the LAST minimal record of the range (whatever the node
    decomposition), also after a `set` that creates a new tie; `Max` likewise -/
example : ∃ s, Seg.fromSlice (minKItem ⟨i64Max, 0⟩) [⟨1, 0⟩, ⟨1, 1⟩, ⟨1, 2⟩, ⟨3, 3⟩, ⟨2, 4⟩] = .ok s ∧
    s.run (minKItem ⟨i64Max, 0⟩) [.ask 0 2, .ask 0 1, .ask 0 4, .set 4 ⟨1, 9⟩, .ask 0 4, .ask 1 3, .dbg] =
      [.val ⟨1, 2⟩, .val ⟨1, 1⟩, .val ⟨1, 2⟩, .done, .val ⟨1, 9⟩, .val ⟨1, 2⟩, .vals [⟨1, 0⟩, ⟨1, 1⟩, ⟨1, 2⟩, ⟨3, 3⟩, ⟨1, 9⟩]] := by
  obtain ⟨s, e, h⟩ := history_refines_from_slice (minKItem ⟨i64Max, 0⟩) (keyed_lawful _).1
    [⟨1, 0⟩, ⟨1, 1⟩, ⟨1, 2⟩, ⟨3, 3⟩, ⟨2, 4⟩] (by simp)
    [.ask 0 2, .ask 0 1, .ask 0 4, .set 4 ⟨1, 9⟩, .ask 0 4, .ask 1 3, .dbg] (by simp [OpsOK, OpOK])
  exact ⟨s, e, by rw [h]; decide⟩

/-- `Min<f64>` over `[1.5, +0.0, -0.0, 2.0]` (bit patterns, keys by `ordKey`): the two zeros tie, the answer is `-0.0` -/
example : f64Fmt.ordKey 0x8000000000000000 = f64Fmt.ordKey 0 ∧
    Spec.ask (minKItem ⟨f64Fmt.ordKey f64Fmt.maxBits, f64Fmt.maxBits⟩)
      [⟨f64Fmt.ordKey 0x3FF8000000000000, 0x3FF8000000000000⟩, ⟨f64Fmt.ordKey 0, 0⟩,
       ⟨f64Fmt.ordKey 0x8000000000000000, 0x8000000000000000⟩, ⟨f64Fmt.ordKey 0x4000000000000000, 0x4000000000000000⟩] 0 3 =
      .ok ⟨0, 0x8000000000000000⟩ := by decide

/-- a lazy keyed item: `MinAdd` over records, a range add (key and tag), a tie created by it, a copy-back -/
example : ∃ s, Seg.fromSlice (minAddKItem ⟨i64Max, 0⟩) [⟨⟨2, 0⟩, kvZero⟩, ⟨⟨1, 1⟩, kvZero⟩, ⟨⟨1, 2⟩, kvZero⟩] = .ok s ∧
    s.run (minAddKItem ⟨i64Max, 0⟩) [.modify 0 0 ⟨-1, 5⟩, .ask 0 2, .ask 0 1, .modify 0 2 ⟨10, 0⟩, .ask 0 1, .dbg] =
      [.done, .val ⟨1, 2⟩, .val ⟨1, 1⟩, .done, .val ⟨11, 1⟩, .vals [⟨11, 5⟩, ⟨11, 1⟩, ⟨11, 2⟩]] := by
  obtain ⟨s, e, h⟩ := history_refines_from_slice (minAddKItem ⟨i64Max, 0⟩) (keyed_lawful _).2.2.1
    [⟨⟨2, 0⟩, kvZero⟩, ⟨⟨1, 1⟩, kvZero⟩, ⟨⟨1, 2⟩, kvZero⟩] (by simp)
    [.modify 0 0 ⟨-1, 5⟩, .ask 0 2, .ask 0 1, .modify 0 2 ⟨10, 0⟩, .ask 0 1, .dbg] (by simp [OpsOK, OpOK])
  exact ⟨s, e, by rw [h]; decide⟩

/-- `transfer_refines` is not vacuous: two trees built from the same list satisfy its hypotheses -/
example : ∃ s d : Seg MinAdd, Inv (minAddItem .i64) s [⟨3, 0⟩, ⟨1, 0⟩] ∧ Inv (minAddItem .i64) d [⟨3, 0⟩, ⟨1, 0⟩] := by
  obtain ⟨s, _, h⟩ := fromSlice_refines (minAddItem .i64) (minAdd_lawful .i64) [⟨3, 0⟩, ⟨1, 0⟩] (by simp)
  exact ⟨s, s, h, h⟩

/-- `rebuild_refines` is not vacuous, and `Sum` over a non-commutative `+` answers in array order -/
example : ∃ s, Seg.fromSlice catSumItem [[0], [1], [2, 3]] = .ok s ∧ Inv catSumItem s [[0], [1], [2, 3]] ∧
    s.run catSumItem [.ask 0 2, .ask 1 2, .set 0 [5, 5], .ask 0 1] = [.val [0, 1, 2, 3], .val [1, 2, 3], .done, .val [5, 5, 1]] := by
  obtain ⟨s, e, h⟩ := fromSlice_refines catSumItem sum_noncommutative_lawful [[0], [1], [2, 3]] (by simp)
  refine ⟨s, e, h, ?_⟩
  rw [run_refines catSumItem sum_noncommutative_lawful _ s _ h (by simp [OpsOK, OpOK])]
  decide

end examples

end Rlib.C01
