import RlibModel.Lemmas.Bitset
/-!
# C12 — bitset operations agree with a set of indices

Property theorems only; the model is `Model/Bitset.lean` (the definitions the driver `drv_bitset`
executes), helper lemmas are in `Lemmas/Bitset.lean`.

Vocabulary (all from the model file):
* `Bits` — the `N` words of a `Bitset<N>`; `WF n b` — `n` words, each `< 2^64`;
* `Spec` — a set of indices given by its membership function `mem`;
* `Abs n b m` — `WF n b` and `test b y = ok (m.mem y)` for every `y < 64 n`
  (so every theorem below also states that the representation invariant is preserved);
* `Cap n` — `64 n + 64 ≤ 2^64`, the guard under which no `usize` computation of the code overflows.

All statements are for every capacity `n` (with `1 ≤ n` only where `from_u64` indexes word 0) and every
position `< 64 n`; word boundaries are ordinary instances (see the examples at the end).
-/
namespace Rlib.C12
open Rlib.Bitset

/-! ### constructors and point operations -/

/-- `Bitset::new()` is the empty set. -/
theorem test_new (n : Nat) : Abs n (new n) Spec.empty := new_abs n

/-- `Bitset::from_u64(v)` is the set of bit positions of `v` (all below 64). -/
theorem test_fromU64 {n v : Nat} (hn : 1 ≤ n) (hv : v < 2 ^ 64) :
    ∃ b, fromU64 n v = .ok b ∧ Abs n b (Spec.fromU64 v) := fromU64_abs hn hv

/-- `set(x)` inserts `x` and nothing else changes. -/
theorem test_set {n : Nat} {b : Bits} {m : Spec} {x : Nat} (h : Abs n b m) (hx : x < 64 * n) :
    ∃ b', set b x = .ok b' ∧ Abs n b' (m.set x) := set_abs h hx

/-- The same in the form of DESIGN §6: `test (set b x) y = (y = x ∨ test b y)`. -/
theorem test_set_point {n : Nat} {b : Bits} {m : Spec} {x y : Nat} (h : Abs n b m) (hx : x < 64 * n)
    (hy : y < 64 * n) : ∃ b', set b x = .ok b' ∧ test b' y = .ok (decide (y = x) || m.mem y) := by
  obtain ⟨b', e, h'⟩ := set_abs h hx
  exact ⟨b', e, h'.2 y hy⟩

/-- `remove(x)` deletes `x` and nothing else changes. -/
theorem test_remove {n : Nat} {b : Bits} {m : Spec} {x : Nat} (h : Abs n b m) (hx : x < 64 * n) :
    ∃ b', remove b x = .ok b' ∧ Abs n b' (m.remove x) := remove_abs h hx

/-- `flip(x)` toggles `x` and nothing else changes. -/
theorem test_flip {n : Nat} {b : Bits} {m : Spec} {x : Nat} (h : Abs n b m) (hx : x < 64 * n) :
    ∃ b', flip b x = .ok b' ∧ Abs n b' (m.flip x) := flip_abs h hx

/-- `clear()` gives the empty set. -/
theorem test_clear {n : Nat} {b : Bits} {m : Spec} (h : Abs n b m) : Abs n (clear b) Spec.empty :=
  clear_abs h

/-- Outside `[0, 64 n)` every point operation is an index panic (and the bitset is not touched). -/
theorem index_panics {n : Nat} {b : Bits} {x : Nat} (hw : WF n b) (hx : 64 * n ≤ x) :
    set b x = .error .index ∧ remove b x = .error .index ∧ flip b x = .error .index ∧
      test b x = .error .index := by
  have h : b[x / 64]? = none := List.getElem?_eq_none (by rw [hw.1]; omega)
  simp only [Bitset.set, Bitset.remove, Bitset.flip, Bitset.test, h, and_self]

/-! ### word-wise operators -/

/-- `&a & &b` is the intersection. -/
theorem test_and {n : Nat} {a b : Bits} {ma mb : Spec} (ha : Abs n a ma) (hb : Abs n b mb) :
    Abs n (band a b) (ma.inter mb) := band_abs ha hb

/-- `&a | &b` is the union. -/
theorem test_or {n : Nat} {a b : Bits} {ma mb : Spec} (ha : Abs n a ma) (hb : Abs n b mb) :
    Abs n (bor a b) (ma.union mb) := bor_abs ha hb

/-- `&a ^ &b` is the symmetric difference. -/
theorem test_xor {n : Nat} {a b : Bits} {ma mb : Spec} (ha : Abs n a ma) (hb : Abs n b mb) :
    Abs n (bxor a b) (ma.symm mb) := bxor_abs ha hb

/-- `a &= &b`. -/
theorem test_andAssign {n : Nat} {a b : Bits} {ma mb : Spec} (ha : Abs n a ma) (hb : Abs n b mb) :
    Abs n (bandAssign a b) (ma.inter mb) := band_abs ha hb

/-- `a |= &b`. -/
theorem test_orAssign {n : Nat} {a b : Bits} {ma mb : Spec} (ha : Abs n a ma) (hb : Abs n b mb) :
    Abs n (borAssign a b) (ma.union mb) := bor_abs ha hb

/-- `a ^= &b`. -/
theorem test_xorAssign {n : Nat} {a b : Bits} {ma mb : Spec} (ha : Abs n a ma) (hb : Abs n b mb) :
    Abs n (bxorAssign a b) (ma.symm mb) := bxor_abs ha hb

/-- `!a` is the complement inside `[0, 64 n)` — every word, the last one included. -/
theorem test_not {n : Nat} {b : Bits} {m : Spec} (h : Abs n b m) : Abs n (bnot b) m.compl := bnot_abs h

/-! ### count, iterator, equality, rendering -/

/-- The bit-recursive `count_ones` counts the set bits below 64. -/
theorem popcnt_spec (w : Nat) : popcnt w = ((List.range 64).filter (fun i => w.testBit i)).length :=
  popGo_spec 64 w

/-- The bit-recursive `trailing_zeros` is the position of the least set bit of a non-zero `u64`. -/
theorem tz_spec {w : Nat} (h0 : w ≠ 0) (hw : w < 2 ^ 64) :
    w.testBit (tz w) = true ∧ ∀ j, j < tz w → w.testBit j = false := tzGo_spec 64 w h0 hw

/-- `count()` is the number of members. -/
theorem count_spec {n : Nat} {b : Bits} {m : Spec} (h : Abs n b m) (hcap : Cap n) :
    count b = .ok (((List.range (64 * n)).filter m.mem).length) := count_abs h hcap

/-- One call of `BitsIter::next` from position `idx ≤ 64 n`: it returns the least member at or after
    `idx` and moves just past it, or returns `None` when there is no such member.  Its `while` loop
    finishes within the `N + 1` steps of fuel (no `fuel` error). -/
theorem next_spec {n : Nat} {b : Bits} {m : Spec} (h : Abs n b m) (hcap : Cap n) {idx : Nat}
    (hidx : idx ≤ 64 * n) :
    (∃ j, idx ≤ j ∧ j < 64 * n ∧ m.mem j = true ∧ (∀ y, idx ≤ y → y < j → m.mem y = false) ∧
        next b idx = .ok (some j, j + 1)) ∨
    ((∀ y, idx ≤ y → y < 64 * n → m.mem y = false) ∧ ∃ i, next b idx = .ok (none, i)) := by
  obtain ⟨hw, hb⟩ := abs_iff.1 h
  rcases Rlib.Bitset.next_spec hw hcap idx hidx with ⟨j, j1, j2, j3, j4, e⟩ | ⟨hn, i, e, _, _⟩
  · exact .inl ⟨j, j1, j2, by rw [← hb j j2]; exact j3, fun y a c => by rw [← hb y (by omega)]; exact j4 y a c, e⟩
  · exact .inr ⟨fun y a c => by rw [← hb y c]; exact hn y a c, i, e⟩

/-- `iter_bits().collect()` is exactly the list of members in ascending order, each once; the
    iteration terminates (the result is `ok`, so neither fuel bound is hit) — trailing empty words
    and bit 63 of the last word included. -/
theorem iter_spec {n : Nat} {b : Bits} {m : Spec} (h : Abs n b m) (hcap : Cap n) :
    iterBits b = .ok ((List.range (64 * n)).filter m.mem) := iter_abs h hcap

/-- The iterator used as an `Iterator`: after `k` calls of `next` (for every `k`, also past the end)
    the iterator yields exactly the members above the `k`-th one, ascending — the list of all members
    with its first `k` entries dropped.  `count()`, `last()`, `nth(j)`, `peek()`, `skip(k)` on a
    partially consumed iterator are functions of this list (`showProbe`). -/
theorem iter_remaining {n : Nat} {b : Bits} {m : Spec} (h : Abs n b m) (hcap : Cap n) (k : Nat) :
    restAfter b k = .ok (((List.range (64 * n)).filter m.mem).drop k) := restAfter_abs h hcap k

/-- The collected iterator is strictly ascending (so no index is produced twice). -/
theorem iter_ascending {n : Nat} {b : Bits} {m : Spec} (h : Abs n b m) (hcap : Cap n) :
    ∃ l, iterBits b = .ok l ∧ l.Pairwise (· < ·) ∧ ∀ y, y ∈ l ↔ (y < 64 * n ∧ m.mem y = true) := by
  refine ⟨_, iter_abs h hcap, List.Pairwise.filter _ List.pairwise_lt_range, fun y => ?_⟩
  simp [Spec.members, List.mem_filter, List.mem_range]

/-- Derived `==`: two bitsets are equal exactly when they have the same members. -/
theorem eq_spec {n : Nat} {a b : Bits} {ma mb : Spec} (ha : Abs n a ma) (hb : Abs n b mb) :
    (a = b ↔ ∀ y, y < 64 * n → ma.mem y = mb.mem y) ∧ beq a b = Spec.eq (64 * n) ma mb := by
  refine ⟨?_, beq_abs ha hb⟩
  have := beq_abs ha hb
  unfold beq Spec.eq at this
  rw [← table_eq_iff]
  exact decide_eq_decide.1 this

/-- The provided `!=` is the negation of `==`: two bitsets are unequal exactly when some index below `64 n`
    is a member of one and not of the other. -/
theorem ne_spec {n : Nat} {a b : Bits} {ma mb : Spec} (ha : Abs n a ma) (hb : Abs n b mb) :
    bitsNe a b = !Spec.eq (64 * n) ma mb := by
  unfold bitsNe; rw [beq_abs ha hb]

/-- `Display` is the 0/1 string of `test`, index 0 first. -/
theorem display_spec {n : Nat} {b : Bits} {m : Spec} (h : Abs n b m) (hcap : Cap n) :
    display b = .ok (String.join ((List.range (64 * n)).map (fun y => digit (m.mem y)))) :=
  display_abs h hcap

/-- `Debug` prints the same string. -/
theorem debug_spec {n : Nat} {b : Bits} {m : Spec} (h : Abs n b m) (hcap : Cap n) :
    debug b = .ok (String.join ((List.range (64 * n)).map (fun y => digit (m.mem y)))) :=
  display_abs h hcap

/-! ### histories -/

/-- The harness's `load` (fresh bitset, `set` every listed bit) builds the set with those words. -/
theorem load_spec {n : Nat} {ws : List Nat} (hl : ws.length ≤ n) :
    ∃ b, loadBits n ws = .ok b ∧ Abs n b (Spec.ofWords ws) := loadBits_abs hl

/-- Any history of operations over `k` named bitsets, all positions in range: the model does not
    panic, every register stays well-formed and refines the register of the same history run on
    sets, and the `test` log is the membership log. -/
theorem history_refines {n k : Nat} (hn : 1 ≤ n) (ops : List Op) {s : St} {t : SpecSt}
    (hr : RegsAbs n s.regs t.regs) (hl : s.log = t.log) (hk : s.regs.length = k)
    (hd : ∀ op, op ∈ ops → op.inDomain n k = true) :
    ∃ s', run n s ops = .ok s' ∧ RegsAbs n s'.regs (specRun t ops).regs ∧ s'.log = (specRun t ops).log ∧
      s'.regs.length = k := run_refines hn ops hr hl hk hd

/-- One mid-history observation (`obs r`, wave 3): the state is not touched and the record appended to the observation
    log — `test` on all indices, `count`, collected iterator, `Display`, `Debug`, the iterator probes of the register as
    it is at that moment — is the specification's observation of the set the register holds at that moment. -/
theorem obs_spec {n k : Nat} {s : St} {t : SpecSt} {r : Nat} (hr : RegsAbs n s.regs t.regs) (hk : s.regs.length = k)
    (hrk : r < k) (hcap : Cap n) :
    step n s (.obs r) = .ok { s with olog := s.olog ++ [specObserveReg n (specGet t.regs r)] } := by
  obtain ⟨b, e, hb⟩ := getReg_abs hr (r := r) (by omega)
  simp only [step, e, observeReg_abs hb hcap]

/-- `history_refines` with the observation log: after any in-domain history (an `obs` step is in the domain when
    the capacity guard holds) the model's mid-history observations are, one by one, the specification's
    observations of the sets the registers held at those moments. -/
theorem history_refines_obs {n k : Nat} (hn : 1 ≤ n) (ops : List Op) {s : St} {t : SpecSt}
    (hr : RegsAbs n s.regs t.regs) (hl : s.log = t.log) (ho : s.olog = t.olog.map (specObserveReg n))
    (hk : s.regs.length = k) (hd : ∀ op, op ∈ ops → op.inDomain n k = true) :
    ∃ s', run n s ops = .ok s' ∧ RegsAbs n s'.regs (specRun t ops).regs ∧ s'.log = (specRun t ops).log ∧
      s'.olog = (specRun t ops).olog.map (specObserveReg n) ∧ s'.regs.length = k :=
  run_refines_obs hn ops hr hl ho hk hd

/-- What the driver prints: on every in-domain case the model's observation (`M`) of the final
    registers — `test` on all indices, `count`, collected iterator, `Display`, `Debug`, the iterator probes
    (what is left after 0, 1, 2, l/2, l-1, l, l+1 calls of `next`), the `==` and `!=` matrices, the `test` log, the
    mid-history observations — is the specification's observation (`S`). -/
theorem history_observed {n k : Nat} (hn : 1 ≤ n) (hcap : Cap n) (ops : List Op)
    (hd : ops.all (Op.inDomain n k) = true) : runCase n k ops = .ok (specRunCase n k ops) :=
  runCase_refines hn hcap ops (fun op ho => List.all_eq_true.1 hd op ho)

/-! ### wave 4: the array-backed observation path the driver executes -/

/-- The functions the driver executes (`runCaseFast`, `specRunCaseFast` in `Model/Bitset.lean`: the words of a register, and the words of a
    `load`ed set, are converted to an array once per observation instead of being walked as a list for every index) are the model's `runCase`
    and the specification's `specRunCase` — for every capacity, register count and history, in the stated domain or not (panics included). -/
theorem fast_path_eq (n k : Nat) (ops : List Op) :
    runCaseFast n k ops = runCase n k ops ∧ specRunCaseFast n k ops = specRunCase n k ops :=
  ⟨runCaseFast_eq n k ops, specRunCaseFast_eq n k ops⟩

/-- One register observation through the array (`test` on every index, the collected iterator, the probes, the rendering) is `observeReg`. -/
theorem observeRegFast_eq (n : Nat) (b : Bits) : observeRegFast n b = observeReg n b := by
  rw [observeReg_eq_fast]

/-- **The driver's tie for what the driver literally runs**: `M = S` whenever the driver prints `S ≠ any`. -/
theorem history_observed_fast {n k : Nat} (hn : 1 ≤ n) (hcap : Cap n) (ops : List Op)
    (hd : ops.all (Op.inDomain n k) = true) : runCaseFast n k ops = .ok (specRunCaseFast n k ops) := by
  rw [runCaseFast_eq, specRunCaseFast_eq]
  exact history_observed hn hcap ops hd

/-- The representation invariant (`n` words, each a `u64`) holds after every in-domain history. -/
theorem invariant_preserved {n k : Nat} (hn : 1 ≤ n) (ops : List Op)
    (hd : ∀ op, op ∈ ops → op.inDomain n k = true) :
    ∃ s', run n ⟨List.replicate k (new n), [], []⟩ ops = .ok s' ∧ ∀ b, b ∈ s'.regs → WF n b := by
  obtain ⟨s', e, hr, _, _⟩ := run_refines (k := k) hn ops (s := ⟨List.replicate k (new n), [], []⟩)
    (t := ⟨List.replicate k Spec.empty, [], []⟩) (regsAbs_replicate n k) rfl (by simp) hd
  refine ⟨s', e, fun b hb => ?_⟩
  obtain ⟨i, hi, rfl⟩ := List.mem_iff_getElem.1 hb
  obtain ⟨b', e', ha⟩ := regsAbs_get hr hi
  rw [List.getElem?_eq_getElem hi] at e'
  cases e'
  exact ha.1

/-! ### non-vacuity: the hypotheses are met by concrete states at the word boundaries -/

deriving instance DecidableEq for Except   -- only used to evaluate the closed examples below

/-- A two-word bitset with members 0, 63, 64: `Abs` holds (it is what `load` builds). -/
example : Abs 2 [2 ^ 63 + 1, 1] (Spec.ofWords [2 ^ 63 + 1, 1]) := by
  obtain ⟨b, e, h⟩ := load_spec (n := 2) (ws := [2 ^ 63 + 1, 1]) (by decide)
  have : loadBits 2 [2 ^ 63 + 1, 1] = .ok [2 ^ 63 + 1, 1] := by decide +kernel
  rw [this] at e; cases e; exact h

example : Cap 10 := by unfold Cap; omega
example : Cap (2 ^ 57) := by unfold Cap; omega

-- point operations at 63 / 64 / 64N-1 (N = 2) and just outside
example : set (new 2) 63 = .ok [2 ^ 63, 0] := by decide +kernel
example : set (new 2) 64 = .ok [0, 1] := by decide +kernel
example : set (new 2) 127 = .ok [0, 2 ^ 63] := by decide +kernel
example : set (new 2) 128 = .error .index := by decide +kernel
example : remove [2 ^ 64 - 1, 2 ^ 64 - 1] 127 = .ok [2 ^ 64 - 1, 2 ^ 63 - 1] := by decide +kernel
example : flip [2 ^ 63, 1] 63 = .ok [0, 1] := by decide +kernel
example : test [2 ^ 63, 1] 63 = .ok true ∧ test [2 ^ 63, 1] 64 = .ok true ∧ test [2 ^ 63, 1] 65 = .ok false := by
  decide +kernel
example : fromU64 3 (2 ^ 64 - 1) = .ok [2 ^ 64 - 1, 0, 0] := by decide +kernel
example : bnot [0, 2 ^ 63] = [2 ^ 64 - 1, 2 ^ 63 - 1] := by decide +kernel
example : bxorAssign [2 ^ 63, 3] [2 ^ 63 + 1, 1] = [1, 2] := by decide +kernel
-- count / iterator: bit 63 of the last word, empty inner and trailing words
example : count [2 ^ 64 - 1, 1] = .ok 65 := by decide +kernel
example : iterBits [2 ^ 63, 0, 2 ^ 63] = .ok [63, 191] := by decide +kernel
example : iterBits [1, 0, 0] = .ok [0] := by decide +kernel
example : iterBits [2 ^ 63 + 1, 1] = .ok [0, 63, 64] := by decide +kernel
example : next [2 ^ 63, 1] 64 = .ok (some 64, 65) := by decide +kernel
example : next [2 ^ 63, 1] 65 = .ok (none, 128) := by decide +kernel
example : restAfter [2 ^ 3 + 2 ^ 10, 2 ^ 6] 1 = .ok [10, 70] := by decide +kernel     -- {3,10,70}.skip(1)
example : restAfter [2 ^ 63, 0, 2 ^ 63] 2 = .ok [] ∧ restAfter [2 ^ 63, 0, 2 ^ 63] 5 = .ok [] := by decide +kernel
example : beq [2 ^ 63, 1] [2 ^ 63, 1] = true ∧ beq [2 ^ 63, 1] [2 ^ 63, 0] = false := by decide +kernel
example : display [5] = .ok "1010000000000000000000000000000000000000000000000000000000000000" := by decide +kernel
-- a history in the domain of `history_observed` (N = 2, three registers, boundaries 63/64/127)
example : ([Op.set 0 63, .set 0 64, .set 1 127, .xor 2 0 1, .not 1 2, .test 1 127, .orA 0 1]).all (Op.inDomain 2 3) = true := by
  decide +kernel

-- wave 3: a history with mid-history observations, capacities at and beyond the 64-word boundary
example : ([Op.set 0 4095, .obs 0, .set 1 4096, .obs 1, .xor 2 0 1, .obs 2, .flip 0 4159]).all (Op.inDomain 65 3) = true := by
  decide +kernel
example : ([Op.set 0 8255, .obs 0, .not 1 0, .obs 1]).all (Op.inDomain 129 2) = true := by decide +kernel
example : Cap 65 ∧ Cap 128 ∧ Cap 129 := by unfold Cap; omega
example : (runCase 2 2 [.set 0 63, .obs 0, .set 0 64, .obs 0, .xor 1 0 0]).map (fun o => (o.olog.map (·.iter), o.nes)) =
    .ok ([[63], [63, 64]], [[false, true], [true, false]]) := by decide +kernel
example : bitsNe [2 ^ 63, 1] [2 ^ 63, 1] = false ∧ bitsNe [2 ^ 63, 1] [2 ^ 63, 0] = true := by decide +kernel
example : probeKs 0 = [0, 1, 2] ∧ probeKs 1 = [0, 1, 2] ∧ probeKs 9 = [0, 1, 2, 4, 8, 9, 10] := by decide +kernel
-- the provided Iterator methods as functions of the remaining list {3, 63, 64, 70, 127}
example : cmpLex [3, 63] [63] = .lt ∧ cmpLex [3] [] = .gt ∧ cmpLex [] [] = .eq := by decide +kernel
example : maxByKey (· % 64) [3, 63, 64, 70, 127] = some 127 ∧ minByKey (· % 64) [3, 63, 64, 70, 128] = some 64 := by
  decide +kernel
example : leftAfter (fun x => decide (64 ≤ x)) [3, 63, 64, 70, 127] = 2 ∧ leftAfter (fun x => decide (200 ≤ x)) [3, 63] = 0 := by
  decide +kernel
example : everyThird 0 [3, 63, 64, 70, 127] = [3, 70] ∧ reduce3 [3, 63, 64] = some 280 ∧ foldHash [] = 7 := by decide +kernel

-- wave 4: the array-backed path evaluates (non-vacuity of `fast_path_eq`), capacities at and beyond the 256-word / 512-word boundaries are in the domain
example : (runCaseFast 2 2 [.set 0 63, .obs 0, .set 0 64, .obs 0, .xor 1 0 0]).map (fun o => (o.olog.map (·.iter), o.nes)) =
    .ok ([[63], [63, 64]], [[false, true], [true, false]]) := by decide +kernel
example : (observeRegFast 3 [2 ^ 63, 0, 2 ^ 63]).map (fun o => (o.count, o.iter, o.probes.map (·.rest))) =
    .ok (2, [63, 191], [[63, 191], [191], [], []]) := by decide +kernel
example : (specRunCaseFast 2 1 [.load 0 [2 ^ 63, 1]]).regs.map (·.iter) = [[63, 64]] := by decide +kernel
example : ([Op.set 0 16383, .obs 0, .set 1 16384, .xor 2 0 1, .flip 0 16447]).all (Op.inDomain 257 3) = true := by decide +kernel
example : ([Op.set 0 32767, .set 0 32768, .obs 0, .set 1 32831, .or 1 0 1]).all (Op.inDomain 513 2) = true := by decide +kernel
example : Cap 256 ∧ Cap 257 ∧ Cap 512 ∧ Cap 513 := by unfold Cap; omega

end Rlib.C12
