import RlibModel.Lemmas.Writer
import RlibModel.Props.C09Bridge
import RlibModel.Lemmas.IoMulti
/-!
# C09 — Writer delivers exactly the formatted bytes in order; round-trips with Reader

Property theorems only.  Model: `Model/Writer.lean` (buffer, `reserve` / `write_bytes` / `flush` /
`Drop`, every `Writable` instance as the list of calls it makes), `Model/Decimal.lean` (digit loop,
`BASE_10_LEN`, decimal spec, tokenizer and parsers).  Helper lemmas: `Lemmas/{Decimal,Writer}.lean`.

Everything is stated for an arbitrary configuration `c : Cfg` — both values of `c.dbg`
(flush-per-write = debug build, buffered = optimised build), every `c.buf ≥ 39` — and an arbitrary
start state with any fill level `s0.pend.size ≤ c.buf`.

The last section ("Round trip through the Reader model") re-exports the theorems of
`Props/C09Bridge.lean` (lemmas: `Lemmas/IoBridge.lean`), which join this model to the Reader model
of C08 (`Model/Reader.lean`), so that they are audited as C09 obligations.
-/
namespace Rlib.C09
open Rlib.Writer Rlib.Decimal

/-! ### `BASE_10_LEN` and the digit loop -/

/-- The `base_10_len!` loop computes the number of decimal digits of `uW::MAX`:
    `10^(len-1) ≤ 2^w − 1 < 10^len`, and it is the length of Lean's own decimal rendering. -/
theorem base10len_spec (w : Nat) (hw : 1 ≤ w) :
    10 ^ (base10len w - 1) ≤ 2 ^ w - 1 ∧ 2 ^ w - 1 < 10 ^ base10len w ∧
    base10len w = (Nat.toDigits 10 (2 ^ w - 1)).length := by
  have hp : 2 ≤ 2 ^ w := by
    have : 2 ^ 1 ≤ 2 ^ w := Nat.pow_le_pow_right (by omega) hw
    simpa using this
  have hne : 2 ^ w - 1 ≠ 0 := by omega
  rw [base10len_eq]
  refine ⟨pow_ndig_le _ hne, lt_pow_ndig _, ?_⟩
  have := length_decimalU _ hne
  rw [decimalU, List.length_map] at this
  exact this.symm

/-- The five values the twelve integer types use. -/
theorem base10len_table :
    base10len 8 = 3 ∧ base10len 16 = 5 ∧ base10len 32 = 10 ∧ base10len 64 = 20 ∧ base10len 128 = 39 := by
  refine ⟨?_, ?_, ?_, ?_, base10len_128⟩ <;> rw [base10len_eq] <;>
    exact ndig_unique (by decide) (by decide) (by decide)

/-- Unsigned rendering: for every width `w` and every value of that width the backward digit loop
    in a buffer of `BASE_10_LEN` bytes never underflows its index and produces exactly the standard
    decimal text (`Nat.toDigits 10`, i.e. what `Nat.repr` / `format!("{}")` print). -/
theorem renderU_spec (w v : Nat) (h : v < 2 ^ w) : renderU (base10len w) v = .ok (decimalU v) :=
  renderU_of_room _ _ (ndig_le_base10len h)

/-- Tightness: a buffer one byte shorter than the digit count panics (`index -= 1` at zero) — the
    `BASE_10_LEN − 1` mutant is wrong exactly on the values with the maximal number of digits. -/
theorem renderU_short_panics (L v : Nat) (h : L < (decimalU v).length) (hv : v ≠ 0) :
    renderU L v = .error .overflow := by
  rw [length_decimalU v hv] at h
  rw [renderU, if_neg hv, renderDigits, renderLoop_underflow v _ L h (by simp)]

/-- Signed rendering for every value of every width, `MIN` included (`unsigned_abs` of `MIN` is
    `2^(w-1)`, which still has at most `BASE_10_LEN` digits). -/
theorem renderS_spec (w : Nat) (hw : 1 ≤ w) (v : Int) (hlo : -(2 ^ (w - 1) : Int) ≤ v) (hhi : v < (2 ^ (w - 1) : Int)) :
    renderS (base10len w) v = .ok (decimalS v) := by
  have hn : v.natAbs < 2 ^ w := by
    have e : (2 : Int) ^ w = 2 * 2 ^ (w - 1) := by
      have : w = (w - 1) + 1 := by omega
      conv => lhs; rw [this, Int.pow_succ]
      omega
    have hc : ((2 ^ w : Nat) : Int) = (2 : Int) ^ w := by simp
    have hp : (0 : Int) < 2 ^ (w - 1) := Int.pow_pos (by omega)
    have : (v.natAbs : Int) < ((2 ^ w : Nat) : Int) := by rw [hc]; omega
    exact Int.ofNat_lt.mp this
  rw [renderS, renderU_spec w _ hn, decimalS]

/-- The specification text is Lean's own standard formatting: `decimalU n` are the bytes of
    `Nat.repr n` and `decimalS z` the bytes of `toString z` (sign, then digits). -/
theorem decimal_is_repr (n : Nat) (z : Int) :
    decimalU n = (Nat.repr n).toList.map (fun c => UInt8.ofNat c.toNat) ∧
    decimalS z = (toString z).toList.map (fun c => UInt8.ofNat c.toNat) := by
  refine ⟨by simp [decimalU, Nat.repr], ?_⟩
  unfold decimalS
  cases z with
  | ofNat n => simp [decimalU, Nat.repr, toString, Int.repr]
  | negSucc n => simp [decimalU, Nat.repr, toString, Int.repr]

/-! ### No piece is ever larger than the buffer -/

/-- Every call a public operation makes on the writer is harmless: each `write_bytes` piece has at
    most `BUF` bytes (integers at most 39, string chunks at most `BUF`), and the digit loop does not
    panic — so `panic:index` in `write_bytes` is unreachable when `39 ≤ BUF`. -/
theorem pieces_fit (buf : Nat) (hb : 39 ≤ buf) (o : Op) (hv : o.valid = true) :
    ∀ a ∈ opActs buf o, a.ok buf :=
  (opActs_good hb o hv).1

/-- … and the pieces of an operation, concatenated, are the standard formatting of its arguments. -/
theorem pieces_concat (buf : Nat) (hb : 39 ≤ buf) (o : Op) (hv : o.valid = true) :
    piecesConcat (opActs buf o) = specOp o :=
  (opActs_good hb o hv).2

/-! ### Nothing lost, duplicated or reordered -/

/-- After any sequence of operations, from any fill level: no panic, delivered ++ pending bytes are
    the old ones followed by the concatenation of the formatted arguments, and the buffer is not
    over-full. Holds for both values of `c.dbg`. -/
theorem writer_inv (c : Cfg) (hb : 39 ≤ c.buf) (ops : List Op) (hv : Op.validAll ops = true)
    (s0 : WState) (h0 : s0.pend.size ≤ c.buf) :
    ∃ s, runOps c ops s0 = .ok s ∧ s.sink ++ s.pend = s0.sink ++ s0.pend ++ specOps ops ∧
      s.pend.size ≤ c.buf :=
  runOps_spec c hb ops s0 hv h0

/-- After a `flush` the sink holds exactly everything written, and nothing is pending. -/
theorem flush_delivers (c : Cfg) (hb : 39 ≤ c.buf) (ops : List Op) (hv : Op.validAll ops = true)
    (s0 : WState) (h0 : s0.pend.size ≤ c.buf) :
    ∃ s, runOps c ops s0 = .ok s ∧ (flush s).sink = s0.sink ++ s0.pend ++ specOps ops ∧
      (flush s).pend = ByteArray.empty := by
  obtain ⟨s, e, t, _⟩ := runOps_spec c hb ops s0 hv h0
  exact ⟨s, e, by rw [flush_sink]; exact t, flush_pend s⟩

/-- Dropping the writer delivers everything as well. -/
theorem drop_delivers (c : Cfg) (hb : 39 ≤ c.buf) (ops : List Op) (hv : Op.validAll ops = true)
    (s0 : WState) (h0 : s0.pend.size ≤ c.buf) :
    ∃ s, runOps c ops s0 = .ok s ∧ (drop s).sink = s0.sink ++ s0.pend ++ specOps ops ∧
      (drop s).pend = ByteArray.empty :=
  flush_delivers c hb ops hv s0 h0

/-- The usual case: a fresh writer, a script, then drop — the sink is the expected text. -/
theorem fresh_writer_delivers (c : Cfg) (hb : 39 ≤ c.buf) (ops : List Op) (hv : Op.validAll ops = true) :
    ∃ s, runOps c ops WState.init = .ok s ∧ (drop s).sink = specOps ops := by
  obtain ⟨s, e, t, _⟩ := drop_delivers c hb ops hv WState.init (by simp [WState.init])
  refine ⟨s, e, ?_⟩
  rw [t]; simp [WState.init, ByteArray.empty_append]

/-- In a flush-per-write (debug) build nothing stays pending: after every script the sink already
    holds the whole text, without any final `flush` or drop. -/
theorem debug_unbuffered (c : Cfg) (hd : c.dbg = true) (hb : 39 ≤ c.buf) (ops : List Op)
    (hv : Op.validAll ops = true) :
    ∃ s, runOps c ops WState.init = .ok s ∧ s.pend = ByteArray.empty ∧ s.sink = specOps ops := by
  obtain ⟨s, e, t, _⟩ := runOps_spec c hb ops WState.init hv (by simp [WState.init])
  have hp : s.pend = ByteArray.empty :=
    ByteArray.size_eq_zero_iff.mp (runOps_debug_empty c hd ops WState.init s (by simp [WState.init]) e)
  refine ⟨s, e, hp, ?_⟩
  unfold total at t
  rw [hp, ByteArray.append_empty] at t
  rw [t]; simp [WState.init, ByteArray.empty_append]

/-- What the model's `panic:index` stands for: a piece larger than the whole buffer cannot be copied
    (`pieces_fit` shows that no public operation ever produces one). -/
theorem oversize_piece_panics (c : Cfg) (bs : ByteArray) (s : WState) (h : c.buf < bs.size) :
    writeBytes c bs s = .error .index :=
  writeBytes_too_big c bs s h

/-- The two build profiles deliver the same bytes. -/
theorem profiles_agree (buf : Nat) (hb : 39 ≤ buf) (ops : List Op) (hv : Op.validAll ops = true) :
    ∃ s1 s2, runOps ⟨buf, false⟩ ops WState.init = .ok s1 ∧ runOps ⟨buf, true⟩ ops WState.init = .ok s2 ∧
      (drop s1).sink = (drop s2).sink := by
  obtain ⟨s1, e1, t1⟩ := fresh_writer_delivers ⟨buf, false⟩ hb ops hv
  obtain ⟨s2, e2, t2⟩ := fresh_writer_delivers ⟨buf, true⟩ hb ops hv
  exact ⟨s1, s2, e1, e2, by rw [t1, t2]⟩

/-! ### "However the sink accepts them" -/

/-- std's provided `write_all` loop (modelled as `writeAll`) over a sink that accepts at most `k`
    bytes per call (`k = 0`: all) and answers every `j`-th call with `Interrupted` (`j = 0`: never;
    `j = 1` would never accept anything) terminates and delivers exactly the slice, in order, from any
    call phase — this is what the model's `flush` (`sink := sink ++ pend`) abstracts.  The loop is
    std's, not rlib's: that `Write::write_all` *is* this loop stays trusted, and the harness runs the
    real one over exactly these sinks. -/
theorem write_all_delivers (k j : Nat) (hj : j ≠ 1) (st : SinkSt) (buf : ByteArray) :
    ∃ st', writeAll k j (2 * buf.size + 2) st buf = .ok st' ∧ st'.data = st.data ++ buf :=
  writeAll_spec k j hj _ st buf (by split <;> omega)

/-! ### Round trip -/

/-- Reading an integer back: parsing the rendered text returns the value (every width, `MIN`
    included; the unsigned core is the spike `parse_render`). -/
theorem parse_render (v : Nat) (z : Int) : parseU (decimalU v) = v ∧ parseS (decimalS z) = z :=
  ⟨parseU_decimalU v, parseS_decimalS z⟩

/-- Write → read: for a script whose values are readable words/integers and which separates them
    the way the library does (`outln!` lines; `out!`/`write` followed by a whitespace character),
    the text the sink receives after drop tokenises into exactly the texts of the written leaves, in
    order, and every leaf is recovered from its token (integers by decimal parsing, words verbatim). -/
theorem roundtrip (c : Cfg) (hb : 39 ≤ c.buf) (ops : List Op) (hv : Op.validAll ops = true)
    (hs : sepOK ops = true) :
    ∃ s, runOps c ops WState.init = .ok s ∧
      tokenize (txt (drop s).sink) = (opsLeaves ops).map leafText ∧
      ∀ l ∈ opsLeaves ops, leafReadsBack l (leafText l) = true := by
  obtain ⟨s, e, t⟩ := fresh_writer_delivers c hb ops hv
  exact ⟨s, e, by rw [t]; exact tokenize_ops ops hs, opsLeaves_read_back ops hv⟩

/-! ### Round trip through the Reader model (C08's model; proofs in `Props/C09Bridge.lean`)

`roundtrip` above is stated against this engine's own spec tokenizer. The theorems below are about the
*Reader model* of `Model/Reader.lean` — the definitions `drv_io` executes and C08's theorems are about — fed
the sink bytes of the dropped writer by any source: `src` is any event list (data chunks and `Interrupted`
errors) with `srcBytes src` = the sink text, `SrcOk src` = no empty data chunk (`Ok(0)` means end of input),
`BUF` any reader buffer size ≥ 1, `fuel` any loop fuel above the number of bytes. -/

/-- The Writer's decimal text of `v : t` — by the digit loop, as the calls of the `Writable` instance, and as
    specification text — is `Reader.render v`, the byte string C08's `parse_render`/`read_rendered_int` invert. -/
theorem render_agree (t : IntTy) (v : Int) (hv : (Writer.Val.int t v).valid = true) :
    (if t.signed then renderS (base10len t.bits) v else renderU (base10len t.bits) v.toNat) = .ok (Reader.render v) ∧
    decimalS v = Reader.render v ∧
    specVal (.int t v) = (Reader.render v).toByteArray ∧
    ∀ buf, 39 ≤ buf → piecesConcat (acts buf (.int t v)) = (Reader.render v).toByteArray :=
  C09Bridge.render_agree t v hv

/-- A reader whose remaining bytes are whitespace, the Writer's text of `v`, then whitespace or nothing,
    returns `v` from `read::<t>()` — any delivery, any buffer size. -/
theorem read_written_int (t : IntTy) (v : Int) (hv : (Writer.Val.int t v).valid = true)
    (ws tail : List UInt8) (hws : ∀ c ∈ ws, Reader.isWs c = true)
    (htail : tail = [] ∨ ∃ c r, tail = c :: r ∧ Reader.isWs c = true)
    (BUF : Nat) (hB : 0 < BUF) (fuel : Nat) (s : Reader.RState) (hi : Reader.Inv BUF s)
    (hf : (Reader.R s).length < fuel) (hR : Reader.R s = ws ++ txt (specVal (.int t v)) ++ tail) :
    ∃ s', Reader.readInt t fuel s = .ok (v, s') ∧ Reader.R s' = tail ∧ Reader.Inv BUF s' :=
  C09Bridge.read_written_int t v hv ws tail hws htail BUF hB fuel s hi hf hR

/-- This file's spec tokenizer obeys the recursion of the Reader specification. -/
theorem tokenizers_agree (bs : List UInt8) :
    tokenize bs = if Reader.specSkipWs bs = [] then []
      else (Reader.specString bs).1 :: tokenize (Reader.specString bs).2 :=
  C09Bridge.tokenizers_agree bs

/-- Write → drop → deliver anyhow → read (integers and words mixed): every leaf comes back from
    `read::<its type>()`, in order, and then `is_eof()` is true. Same domain as `roundtrip`. -/
theorem write_then_read (c : Cfg) (hb : 39 ≤ c.buf) (ops : List Op) (hv : Op.validAll ops = true)
    (hs : sepOK ops = true) :
    ∃ s, runOps c ops WState.init = .ok s ∧ (drop s).sink = specOps ops ∧
      ∀ (src : List Reader.Event), Reader.SrcOk src → Reader.srcBytes src = txt (drop s).sink →
      ∀ (BUF : Nat), 0 < BUF → ∀ (fuel : Nat), (Reader.srcBytes src).length < fuel →
        Reader.runScript fuel ((opsLeaves ops).map IoBridge.readOf ++ [Reader.Op.eof]) (Reader.init BUF src)
          = (opsLeaves ops).map IoBridge.expect ++ [.out (.bool true)] :=
  C09Bridge.write_then_read c hb ops hv hs

/-- … for scripts whose leaves are the integers `xs`: `read::<t₁>(), read::<t₂>(), …, is_eof()` returns
    `v₁, v₂, …, true` (all 12 types, `MIN`/`MAX` included, both profiles, any `BUF_w ≥ 39`, `BUF_r ≥ 1`). -/
theorem write_then_read_ints (c : Cfg) (hb : 39 ≤ c.buf) (ops : List Op) (hv : Op.validAll ops = true)
    (hs : sepOK ops = true) (xs : List (IntTy × Int)) (hx : opsLeaves ops = xs.map C09Bridge.intLeaf) :
    ∃ s, runOps c ops WState.init = .ok s ∧ (drop s).sink = specOps ops ∧
      ∀ (src : List Reader.Event), Reader.SrcOk src → Reader.srcBytes src = txt (drop s).sink →
      ∀ (BUF : Nat), 0 < BUF → ∀ (fuel : Nat), (Reader.srcBytes src).length < fuel →
        Reader.runScript fuel (xs.map (fun p => Reader.Op.read (.int p.1)) ++ [Reader.Op.eof]) (Reader.init BUF src)
          = xs.map (fun p => Reader.Res.out (.val (.int p.2))) ++ [.out (.bool true)] :=
  C09Bridge.write_then_read_ints c hb ops hv hs xs hx

/-- … for scripts whose leaves are ASCII words: `read::<String>()` returns each word. -/
theorem write_then_read_words (c : Cfg) (hb : 39 ≤ c.buf) (ops : List Op) (hv : Op.validAll ops = true)
    (hs : sepOK ops = true) (ws : List ByteArray) (hx : opsLeaves ops = ws.map Writer.Val.str) :
    ∃ s, runOps c ops WState.init = .ok s ∧ (drop s).sink = specOps ops ∧
      ∀ (src : List Reader.Event), Reader.SrcOk src → Reader.srcBytes src = txt (drop s).sink →
      ∀ (BUF : Nat), 0 < BUF → ∀ (fuel : Nat), (Reader.srcBytes src).length < fuel →
        Reader.runScript fuel (ws.map (fun _ => Reader.Op.read .str) ++ [Reader.Op.eof]) (Reader.init BUF src)
          = ws.map (fun w => Reader.Res.out (.val (.str (txt w)))) ++ [.out (.bool true)] :=
  C09Bridge.write_then_read_words c hb ops hv hs ws hx

/-- Every list of rows of in-range integers, one `outln!` of a tuple / `Vec` per row: no further hypothesis. -/
theorem write_rows_then_read_ints (c : Cfg) (hb : 39 ≤ c.buf) (tuple : Bool) (rows : List (List (IntTy × Int)))
    (hfit : ∀ r ∈ rows, ∀ p ∈ r, (C09Bridge.intLeaf p).valid = true) :
    ∃ s, runOps c (C09Bridge.rowsOps tuple rows) WState.init = .ok s ∧
      ∀ (src : List Reader.Event), Reader.SrcOk src → Reader.srcBytes src = txt (drop s).sink →
      ∀ (BUF : Nat), 0 < BUF → ∀ (fuel : Nat), (Reader.srcBytes src).length < fuel →
        Reader.runScript fuel (rows.flatten.map (fun p => Reader.Op.read (.int p.1)) ++ [Reader.Op.eof])
            (Reader.init BUF src)
          = rows.flatten.map (fun p => Reader.Res.out (.val (.int p.2))) ++ [.out (.bool true)] :=
  C09Bridge.write_rows_then_read_ints c hb tuple rows hfit

/-- Every read plan `gs` over the written leaves — single `read::<T>()` (`char` for one-byte words), tuple reads of any
    arity, `read_vec(n)` of rows of one shape — returns the written values grouped as the plan groups them, then `is_eof()`
    is true. `ht` (implied by `sepOK`): the text splits at whitespace into the leaf texts. -/
theorem write_then_read_plan (c : Cfg) (hb : 39 ≤ c.buf) (ops : List Op) (hv : Op.validAll ops = true)
    (ht : tokenize (txt (specOps ops)) = (opsLeaves ops).map leafText)
    (gs : List IoRT.Grp) (hg : ∀ g ∈ gs, g.okB = true)
    (hl : (gs.flatMap IoRT.Grp.leaves).map Prod.fst = opsLeaves ops) :
    ∃ s, runOps c ops WState.init = .ok s ∧ (drop s).sink = specOps ops ∧
      ∀ (src : List Reader.Event), Reader.SrcOk src → Reader.srcBytes src = txt (drop s).sink →
      ∀ (BUF : Nat), 0 < BUF → ∀ (fuel : Nat), (Reader.srcBytes src).length < fuel →
        Reader.runScript fuel (IoRT.script gs) (Reader.init BUF src) = IoRT.expected gs :=
  C09Bridge.write_then_read_plan c hb ops hv ht gs hg hl

/-- The read-back procedure of the harness (`IoRT.planOps alt`) is such a plan for every valid `sepOK` script. -/
theorem write_then_read_harness_plan (c : Cfg) (hb : 39 ≤ c.buf) (ops : List Op) (hv : Op.validAll ops = true)
    (hs : sepOK ops = true) (alt : Bool) :
    ∃ s, runOps c ops WState.init = .ok s ∧ (drop s).sink = specOps ops ∧
      ∀ (src : List Reader.Event), Reader.SrcOk src → Reader.srcBytes src = txt (drop s).sink →
      ∀ (BUF : Nat), 0 < BUF → ∀ (fuel : Nat), (Reader.srcBytes src).length < fuel →
        Reader.runScript fuel (IoRT.script (IoRT.planOps alt ops)) (Reader.init BUF src)
          = IoRT.expected (IoRT.planOps alt ops) :=
  C09Bridge.write_then_read_harness_plan c hb ops hv hs alt

/-- What `drv_writer` prints as `M` for an `r` line (`IoRT.readBack`: Reader model on the Writer model's sink under the
    harness schedule `rc`) is what it prints as `S`, for every eligible script. -/
theorem readback_driver (c : Cfg) (hb : 39 ≤ c.buf) (ops : List Op) (hv : Op.validAll ops = true)
    (he : IoRT.eligible ops = true) (rbuf : Nat) (hr : 0 < rbuf) (rc : Nat) (alt : Bool) :
    ∃ s, runOps c ops WState.init = .ok s ∧
      IoRT.readBack rbuf rc alt ops (txt (drop s).sink) = IoRT.expected (IoRT.planOps alt ops) :=
  C09Bridge.readback_driver c hb ops hv he rbuf hr rc alt

/-- Characters written with `write_char`: every non-whitespace byte comes back from one `read::<char>()`. -/
theorem write_chars_then_read (c : Cfg) (hb : 39 ≤ c.buf) (codes : List Nat) :
    ∃ s, runOps c (IoBridge.charOps codes) WState.init = .ok s ∧ (drop s).sink = specOps (IoBridge.charOps codes) ∧
      txt (drop s).sink = codes.map UInt8.ofNat ∧
      ∀ (src : List Reader.Event), Reader.SrcOk src → Reader.srcBytes src = txt (drop s).sink →
      ∀ (BUF : Nat), 0 < BUF → ∀ (fuel : Nat), (Reader.srcBytes src).length < fuel →
        Reader.runScript fuel
            (((codes.map UInt8.ofNat).filter (fun b => !Reader.isWs b)).map (fun _ => Reader.Op.read .chr) ++ [.eof])
            (Reader.init BUF src)
          = ((codes.map UInt8.ofNat).filter (fun b => !Reader.isWs b)).map (fun b => Reader.Res.out (.val (.chr b)))
              ++ [.out (.bool true)] :=
  C09Bridge.write_chars_then_read c hb codes

/-- Lines written with `outln!(line)`: `read_line()` returns each verbatim, then `None`; `read_lines()` all. -/
theorem write_lines_then_read (c : Cfg) (hb : 39 ≤ c.buf) (ls : List ByteArray)
    (hok : ∀ l ∈ ls, IoBridge.LineOK (txt l)) :
    ∃ s, runOps c (IoBridge.lineOps ls) WState.init = .ok s ∧ (drop s).sink = specOps (IoBridge.lineOps ls) ∧
      ∀ (src : List Reader.Event), Reader.SrcOk src → Reader.srcBytes src = txt (drop s).sink →
      ∀ (BUF : Nat), 0 < BUF → ∀ (fuel : Nat), (Reader.srcBytes src).length < fuel →
        Reader.runScript fuel (ls.map (fun _ => Reader.Op.line) ++ [.line, .eof]) (Reader.init BUF src)
          = ls.map (fun l => Reader.Res.out (.line (some (txt l)))) ++ [.out (.line none), .out (.bool true)] ∧
        Reader.runScript fuel [.lines, .eof] (Reader.init BUF src) = [.out (.lines (ls.map txt)), .out (.bool true)] :=
  C09Bridge.write_lines_then_read c hb ls hok

/-! ### Several live objects on one thread, the trait entry point, characters (wave 3; `Model/IoMulti.lean`)

`m` case lines: up to 8 objects — Writers over their own sinks, Readers over their own sources — created, used
interleaved, moved and dropped in any order; a writer is reached through its inherent API (`WCall.pub`) or through the
public trait method `Writable::write(&v, &mut w)` (`WCall.tr`: no debug flush). `c` case lines: `write_char` … drop …
`read::<char>()`. -/

/-- The trait entry point `Writable::write(&v, &mut w)` and every inherent call, from any fill level, in either
    profile: no panic, delivered ++ pending bytes grow by exactly the standard formatting, the buffer is not over-full. -/
theorem call_inv (c : Cfg) (hb : 39 ≤ c.buf) (cl : IoMulti.WCall) (hv : cl.valid = true) (s0 : WState)
    (h0 : s0.pend.size ≤ c.buf) :
    ∃ s, IoMulti.runCall c s0 cl = .ok s ∧ s.sink ++ s.pend = s0.sink ++ s0.pend ++ cl.spec ∧ s.pend.size ≤ c.buf :=
  IoMulti.runCall_spec c hb cl hv s0 h0

/-- Flush-per-write build: every inherent call leaves nothing pending **whatever was pending before it** — in
    particular the bytes a direct `Writable::write(&v, &mut w)` left in the buffer. -/
theorem call_debug_flushed (c : Cfg) (hd : c.dbg = true) (cl : IoMulti.WCall) (h : cl.flushesInDebug = true)
    (s s' : WState) (hr : IoMulti.runCall c s cl = .ok s') : s'.pend = ByteArray.empty :=
  ByteArray.size_eq_zero_iff.mp (IoMulti.runCall_debug_flushed c hd cl h s s' hr)

/-- What `drv_writer` prints as `M` for an `m` line is what it prints as `S`: for every history of valid calls on any
    number of live writers and readers (any interleaving, any order of flushes, moves and drops), every `BUF_w ≥ 39` and
    both profiles, the model (each object owns its buffer) shows exactly the specification trace — per writer the text of
    the calls addressed to it, per reader C08's specification on its own input — and in a flush-per-write build no
    inherent call leaves bytes pending. (`undef` = a `char` read with no byte left: outside C08's domain.) -/
theorem multi_driver (c : Cfg) (hb : 39 ≤ c.buf) (ops : List IoMulti.MOp) (hv : IoMulti.validAll ops = true)
    (hu : IoMulti.Ev.undef ∉ IoMulti.specMulti ops (fun _ => .none)) :
    IoMulti.runMulti c ops (fun _ => .none) 0 none = (IoMulti.specMulti ops (fun _ => .none), none) :=
  IoMulti.runMulti_spec c hb ops _ _ 0 (fun _ => by simp [IoMulti.Rel]) hv hu

/-- Isolation: every text a writer shows in the specification trace (after `flush()` or at its drop) is the
    concatenation of the standard formatting of the calls addressed to that writer since its creation, in a prefix of
    the history — whatever happened to the other objects in between. -/
theorem multi_isolated (ops : List IoMulti.MOp) (k : Nat) (t : ByteArray)
    (h : IoMulti.Shown (IoMulti.specMulti ops (fun _ => .none)) k t) :
    ∃ n, t = IoMulti.specCalls (IoMulti.callsOf k (ops.take n) []) :=
  IoMulti.specMulti_isolated ops _ (fun _ => []) (fun j t hj => by simp at hj) k t h

/-- What `drv_writer` prints as `M` for a `c` line (`IoMulti.readBackChars`: the Reader model, harness schedule `rc`,
    on the Writer model's sink after the characters `codes` were written with `write_char` and the writer dropped) is
    what it prints as `S`: one `read::<char>()` per non-whitespace byte returns it, then `is_eof()` is true. -/
theorem readback_chars_driver (c : Cfg) (hb : 39 ≤ c.buf) (codes : List Nat) (rbuf : Nat) (hr : 0 < rbuf) (rc : Nat) :
    ∃ s, runOps c (IoBridge.charOps codes) WState.init = .ok s ∧
      IoMulti.readBackChars rbuf rc (txt (drop s).sink) = IoMulti.expectedChars codes := by
  obtain ⟨s, e, _, ht, h⟩ := C09Bridge.write_chars_then_read c hb codes
  refine ⟨s, e, ?_⟩
  obtain ⟨h1, h2⟩ := IoBridge.harness_src rc (txt (drop s).sink)
  have := h _ h2 h1 rbuf hr ((txt (drop s).sink).length + 1) (by rw [h1]; exact Nat.lt_succ_self _)
  unfold IoMulti.readBackChars IoMulti.expectedChars
  rw [ht] at this ⊢
  exact this

/-! ### Non-vacuity: the hypotheses are met by concrete, non-trivial instances -/

-- the loop at the boundary of each width
example : renderU (base10len 8) 255 = .ok [50, 53, 53] := by rw [renderU_spec 8 255 (by decide)]; exact congrArg _ (by decide)
example : renderU (base10len 128) (2 ^ 128 - 1) = .ok (decimalU (2 ^ 128 - 1)) := renderU_spec 128 _ (by decide)
example : (decimalU (2 ^ 128 - 1)).length = 39 := by decide
-- `i8::MIN`
example : renderS (base10len 8) (-128) = .ok [45, 49, 50, 56] := by
  rw [renderS_spec 8 (by decide) (-128) (by decide) (by decide)]; exact congrArg _ (by decide)
-- one byte too few panics
example : renderU 2 255 = .error .overflow := renderU_short_panics 2 255 (by decide) (by decide)

/-- A script with a 39-digit integer, `i128::MIN`, a string longer than the buffer, a vector and a tuple. -/
def demoOps : List Op :=
  [ .write (.int ⟨false, 128⟩ (2 ^ 128 - 1)), .wchar 32, .write (.int ⟨true, 128⟩ (-(2 ^ 127))), .flush, .wchar 10,
    .out true [.int ⟨true, 8⟩ (-128), .str "word".toUTF8, .seq false [.int ⟨false, 16⟩ 65535, .int ⟨false, 16⟩ 0]],
    .write (.seq true [.int ⟨true, 64⟩ (-1), .str "x".toUTF8]) ]

example : Op.validAll demoOps = true := by decide
example : sepOK demoOps = true := by decide
-- smallest admissible buffer, buffered and flush-per-write, started at a full buffer
example : ∃ s, runOps ⟨39, false⟩ demoOps ⟨(List.replicate 39 65).toByteArray, ByteArray.empty, 0⟩ = .ok s ∧
    (drop s).sink = ByteArray.empty ++ (List.replicate 39 65).toByteArray ++ specOps demoOps ∧ (drop s).pend = ByteArray.empty :=
  drop_delivers ⟨39, false⟩ (by decide) demoOps (by decide) _ (by decide)
example : ∃ s, runOps ⟨39, true⟩ demoOps WState.init = .ok s ∧
    tokenize (txt (drop s).sink) = (opsLeaves demoOps).map leafText ∧
    ∀ l ∈ opsLeaves demoOps, leafReadsBack l (leafText l) = true :=
  roundtrip ⟨39, true⟩ (by decide) demoOps (by decide) (by decide)
example : ∃ s, runOps ⟨39, true⟩ demoOps WState.init = .ok s ∧ s.pend = ByteArray.empty ∧ s.sink = specOps demoOps :=
  debug_unbuffered ⟨39, true⟩ rfl (by decide) demoOps (by decide)
example : writeBytes ⟨39, false⟩ (List.replicate 40 65).toByteArray WState.init = .error .index :=
  oversize_piece_panics _ _ _ (by decide)
-- a string piece longer than the buffer is chunked, never a panic
example : (Op.write (.str (List.replicate 100 65).toByteArray)).valid = true := by decide

-- bridge (more in `Props/C09Bridge.lean`): `demoOps` written at `BUF = 39`, read back through the Reader model with a
-- 1-byte buffer from a source that delivers one byte per read with an `Interrupted` before each
example : ∃ s, runOps ⟨39, false⟩ demoOps WState.init = .ok s ∧
    Reader.runScript ((txt (drop s).sink).length + 1) ((opsLeaves demoOps).map IoBridge.readOf ++ [Reader.Op.eof])
      (Reader.init 1 (IoBridge.bytewise (txt (drop s).sink)))
    = (opsLeaves demoOps).map IoBridge.expect ++ [.out (.bool true)] := by
  obtain ⟨s, e, _, h⟩ := write_then_read ⟨39, false⟩ (by decide) demoOps (by decide) (by decide)
  have hb := IoBridge.bytewise_spec (txt (drop s).sink)
  exact ⟨s, e, h _ hb.2 hb.1 1 (by decide) _ (by rw [hb.1]; exact Nat.lt_succ_self _)⟩
example : (opsLeaves demoOps).map IoBridge.expect =
    [.out (.val (.int (2 ^ 128 - 1))), .out (.val (.int (-(2 ^ 127)))), .out (.val (.int (-128))),
     .out (.val (.str "word".toUTF8.data.toList)), .out (.val (.int 65535)), .out (.val (.int 0)),
     .out (.val (.int (-1))), .out (.val (.str "x".toUTF8.data.toList))] := by decide

-- the harness read-back procedure run on the models (what `drv_writer` does for `r` lines), `demoOps`, `alt` style
example : IoRT.eligible demoOps = true := by decide +kernel
example : ∃ s, runOps ⟨39, true⟩ demoOps WState.init = .ok s ∧
    IoRT.readBack 65536 3 true demoOps (txt (drop s).sink) = IoRT.expected (IoRT.planOps true demoOps) :=
  readback_driver ⟨39, true⟩ (by decide) demoOps (by decide) (by decide +kernel) 65536 (by decide) 3 true

-- a 100-byte slice through a sink that takes 3 bytes at a time and interrupts every 2nd call
example : ∃ st', writeAll 3 2 202 ⟨ByteArray.empty, 0⟩ (List.replicate 100 65).toByteArray = .ok st' ∧
    st'.data = ByteArray.empty ++ (List.replicate 100 65).toByteArray :=
  write_all_delivers 3 2 (by decide) _ _

-- several live objects: writer 0 gets "ab" through the trait method (pending in BOTH profiles), writer 1 is created and
-- written to meanwhile, a reader over "x 7" is alive and read from in between; writer 1 is dropped first
def demoMulti : List IoMulti.MOp :=
  [ .newW 0, .call 0 (.tr (.str "ab".toUTF8)), .newW 1, .newR 2 4 1 "x 7".toUTF8.data.toList,
    .call 1 (.pub (.write (.int ⟨true, 8⟩ (-128)))), .read 2 (.read .chr), .call 0 (.pub (.wchar 99)), .move 0,
    .call 1 (.tr (.seq false [.int ⟨false, 8⟩ 0, .int ⟨false, 8⟩ 255])), .read 2 (.read (.int ⟨false, 8⟩)),
    .call 0 (.pub .flush), .drop 1, .read 2 .eof, .call 0 (.tr (.int ⟨false, 128⟩ (2 ^ 128 - 1))) ]
example : IoMulti.validAll demoMulti = true := by decide
example : IoMulti.specMulti demoMulti (fun _ => .none) =
    [ .read 2 (.val (.chr 120)), .read 2 (.val (.int 7)), .flushed 0 "abc".toUTF8, .dropped 1 "-1280 255".toUTF8,
      .read 2 (.bool true), .dropped 0 ("abc".toUTF8 ++ (decimalU (2 ^ 128 - 1)).toByteArray) ] := by decide +kernel
example : IoMulti.runMulti ⟨39, true⟩ demoMulti (fun _ => .none) 0 none
    = (IoMulti.specMulti demoMulti (fun _ => .none), none) :=
  multi_driver ⟨39, true⟩ (by decide) demoMulti (by decide) (by decide +kernel)
example : ∃ n, "abc".toUTF8 = IoMulti.specCalls (IoMulti.callsOf 0 (demoMulti.take n) []) :=
  multi_isolated demoMulti 0 _ (Or.inl (by decide +kernel))
-- the trait method leaves bytes pending in the flush-per-write build; the next inherent call flushes them too
example : (match IoMulti.runCall ⟨39, true⟩ WState.init (.tr (.int ⟨false, 8⟩ 255)) with
    | .ok s => s.pend.size | .error _ => 0) = 3 := by decide +kernel
example : (IoMulti.WCall.pub (.wchar 99)).flushesInDebug = true := rfl
-- characters, NUL and DEL included, written with `write_char` and read back one `read::<char>()` each
example : ∃ s, runOps ⟨39, false⟩ (IoBridge.charOps [0, 32, 127, 65, 10, 1]) WState.init = .ok s ∧
    IoMulti.readBackChars 1 3 (txt (drop s).sink) = IoMulti.expectedChars [0, 32, 127, 65, 10, 1] :=
  readback_chars_driver ⟨39, false⟩ (by decide) _ 1 (by decide) 3
example : IoMulti.expectedChars [0, 32, 127, 65, 10, 1] =
    [.out (.val (.chr 0)), .out (.val (.chr 127)), .out (.val (.chr 65)), .out (.val (.chr 1)), .out (.bool true)] := by decide

end Rlib.C09
