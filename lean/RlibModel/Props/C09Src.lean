import RlibModel.Props.C09
import RlibModel.Lemmas.WriterSrc
/-
C09, second tie: theorems about the definitions REGENERATED from the Rust source text on every run.
Kept in their own module so that a source the translator cannot read (or an equivalence proof that no longer goes
through) leaves the property theorems of Props/C09.lean — and their audit — untouched; `./check` then decides
between `second tie unavailable` (translator subset; the correspondence tie still stands) and a broken obligation.
-/
namespace Rlib.C09
open Rlib Rlib.Writer Rlib.Decimal

/-! ### Second tie: the definitions regenerated from the source text of this run

`Rlib.WriterSrc.new/flush/reserve/write_bytes/write_char/write/drop/str_write/String_write/write_unsigned/write_signed/Vec_write/
tuple2_write … tuple8_write` are written by `tools/rs2lean_writer.py` from `rlib/io/src/writer.rs` on every run of `./check C09`
(`Generated/WriterSrc.lean`).  The Rust struct is the triple `St = (buf, end, stdout)`; `stdout` — the sink — is an explicit parameter:
the ORACLE `SrcIoW.writeAll` (`Generated/IoWritePrelude.lean`) answers one `write_all` call by appending the whole slice to the bytes the
sink holds and counting the call — the contract the hand-written model assumes.  `usize` arithmetic is checked (`SrcIo.uadd/usub`), every
definition takes `fuel` (loops) and `dbg` (`#[cfg(debug_assertions)]` statements are executed iff `dbg = true`), a bound `T: Writable` is
a dictionary parameter.

Vocabulary (`Lemmas/WriterSrc.lean`): `abs (buf, end, sink) = ⟨pend := buf[..end], sink := sink.data, flushes := sink.calls⟩` — the
model keeps only the pending prefix of the buffer; `Wf c st` = the buffer has `c.buf` bytes ∧ `end ≤ c.buf`;
`Sim c r m` = the generated call `r` and the model computation `m` agree: both panic with the same `Panic`, or `r = ok st'`, `Wf c st'`
and `m = ok (abs st')`.  So `src_<f>_eq_model : Sim c (<f> … st) (<model f> (abs st))` says: whatever the buffer content (stale bytes
included), `end ≤ len`, the sink, the profile `c.dbg` — the regenerated `<f>` does to the abstraction of the struct exactly what the
model's `<f>` does, panics included, and keeps the struct well formed.  Hypotheses, all explicit:
* `Wf c st` (established by `new`: `src_new_eq_model`; kept: part of `Sim`);
* `c.buf < 2^63` (and `bs.size < 2^63` for a raw `write_bytes`): the generated text checks `end + len` against `2^64`, the model adds
  naturals (a Rust slice has at most `isize::MAX` bytes; `BUF_SIZE` satisfies it: `src_buf_size_bound`);
* integers: the argument is a value of its type (`0 ≤ n ≤ t.maxVal`, resp. `t.fits v`), `t.bits ≤ 128` (the digit piece then has at most
  39 bytes); enough fuel for the digit loop (`ndig n < fuel`; 40 suffices for every instance);
* strings: `s.size + 1 ≤ fuel`; the chunk size is the regenerated constant `BUF_SIZE`, whatever its value (0 gives the `chunks(0)` panic
  on both sides);
* `Vec<T>` / tuples: the element writers are ANY dictionaries that refine some action lists (for `Vec`: from some fuel `N` on).
Nothing else: no hypothesis on the buffer content, on the sink, on the profile. -/

open Rlib.WriterSrc (St abs Wf Sim seqActs intWriter SOp runSrc)
open Rlib.SrcIoW (Sink)

/-- `Writer::new`: a zeroed buffer of `BUF_SIZE` bytes, `end = 0`, the sink as given — well formed, and it stands for the model's
    initial state (for a sink that has received nothing: `WState.init`). -/
theorem src_new_eq_model (fuel : Nat) (dbg : Bool) (k : Sink) :
    Rlib.WriterSrc.new fuel dbg k = .ok (Array.replicate Rlib.WriterSrc.BUF_SIZE 0, 0, k) ∧
    Wf ⟨Rlib.WriterSrc.BUF_SIZE, dbg⟩ (Array.replicate Rlib.WriterSrc.BUF_SIZE 0, 0, k) ∧
    abs (Array.replicate Rlib.WriterSrc.BUF_SIZE 0, 0, k) = ⟨ByteArray.empty, k.data, k.calls⟩ :=
  Rlib.WriterSrc.new_eq fuel dbg k

/-- The buffer size written in the source satisfies the size hypothesis of the theorems below and the side condition `39 ≤ BUF` of
    Props/C09.lean. -/
theorem src_buf_size_bound : Rlib.WriterSrc.BUF_SIZE < 2 ^ 63 ∧ 39 ≤ Rlib.WriterSrc.BUF_SIZE :=
  Rlib.WriterSrc.buf_size_bound

theorem src_flush_eq_model (c : Cfg) (fuel : Nat) (dbg : Bool) (st : St) (hg : Wf c st) :
    Sim c (Rlib.WriterSrc.flush fuel dbg st.1 st.2.1 st.2.2) (.ok (Writer.flush (abs st))) :=
  Rlib.WriterSrc.flush_sim c fuel dbg st.1 st.2.1 st.2.2 hg

theorem src_reserve_eq_model (c : Cfg) (hc : c.buf < 2 ^ 63) (fuel : Nat) (dbg : Bool) (st : St) (n : Nat) (hn : n < 2 ^ 63) (hg : Wf c st) :
    Sim c (Rlib.WriterSrc.reserve fuel dbg st.1 st.2.1 st.2.2 n) (.ok (Writer.reserve c n (abs st))) :=
  Rlib.WriterSrc.reserve_sim c hc fuel dbg st.1 st.2.1 st.2.2 n hn hg

/-- `write_bytes`, the oversize-piece panic included (`Panic.index` from the slice `buf[end..end + len]`, exactly when the model says so). -/
theorem src_write_bytes_eq_model (c : Cfg) (hc : c.buf < 2 ^ 63) (fuel : Nat) (dbg : Bool) (st : St) (bs : Array UInt8) (hb : bs.size < 2 ^ 63)
    (hg : Wf c st) :
    Sim c (Rlib.WriterSrc.write_bytes fuel dbg st.1 st.2.1 st.2.2 bs) (Writer.writeBytes c ⟨bs⟩ (abs st)) :=
  Rlib.WriterSrc.write_bytes_sim c hc fuel dbg st.1 st.2.1 st.2.2 bs hb hg

/-- `write_char(c)` for every code point (`c as u8` truncates), with the profile's flush. -/
theorem src_write_char_eq_model (c : Cfg) (hc : c.buf < 2 ^ 63) (fuel : Nat) (st : St) (code : Nat) (hg : Wf c st) :
    Sim c (Rlib.WriterSrc.write_char fuel c.dbg st.1 st.2.1 st.2.2 code) (runActs c (writeCharActs (UInt8.ofNat code)) (abs st)) :=
  Rlib.WriterSrc.write_char_sim c hc fuel st code hg

/-- `Writer::write::<T>`: for ANY `Writable` dictionary `w` whose `write(x)` does the actions `as`, `writer.write(&x)` does `as` and
    then the profile's flush. -/
theorem src_write_eq_model (c : Cfg) (fuel : Nat) {T : Type} (w : Rlib.WriterSrc.Writable_write T) (x : T) (as : List Act) (st : St) (hg : Wf c st)
    (hw : ∀ st, Wf c st → Sim c (w fuel c.dbg x st.1 st.2.1 st.2.2) (runActs c as (abs st))) :
    Sim c (Rlib.WriterSrc.write w fuel c.dbg st.1 st.2.1 st.2.2 x) (runActs c (as ++ [.dflush]) (abs st)) :=
  Rlib.WriterSrc.write_sim c fuel w x as st hg hw

theorem src_drop_eq_model (c : Cfg) (fuel : Nat) (dbg : Bool) (st : St) (hg : Wf c st) :
    Sim c (Rlib.WriterSrc.drop fuel dbg st.1 st.2.1 st.2.2) (.ok (Writer.drop (abs st))) :=
  Rlib.WriterSrc.drop_sim c fuel dbg st hg

/-- `impl Writable for &str`: the chunk loop over `chunks(BUF_SIZE)`. -/
theorem src_str_write_eq_model (c : Cfg) (hc : c.buf < 2 ^ 63) (fuel : Nat) (s : Array UInt8) (hf : s.size + 1 ≤ fuel) (st : St) (hg : Wf c st) :
    Sim c (Rlib.WriterSrc.str_write fuel c.dbg s st.1 st.2.1 st.2.2) (runActs c (chunkActs Rlib.WriterSrc.BUF_SIZE ⟨s⟩ 0) (abs st)) :=
  Rlib.WriterSrc.str_write_sim c hc src_buf_size_bound.1 fuel s hf st hg

/-- `impl Writable for String`. -/
theorem src_string_write_eq_model (c : Cfg) (hc : c.buf < 2 ^ 63) (fuel : Nat) (s : Array UInt8) (hf : s.size + 1 ≤ fuel) (st : St) (hg : Wf c st) :
    Sim c (Rlib.WriterSrc.String_write fuel c.dbg s st.1 st.2.1 st.2.2) (runActs c (chunkActs Rlib.WriterSrc.BUF_SIZE ⟨s⟩ 0) (abs st)) :=
  Rlib.WriterSrc.String_write_sim c hc src_buf_size_bound.1 fuel s hf st hg

/-- The backward digit loop of `write_unsigned!` on a `[u8; L]` stack buffer is the model's `renderLoop`: the same digits in the same
    cells, the same final index, the same panics (`overflow` from `index -= 1` at 0, `index` from the store) — none of the other checks
    of the generated text (`% 10`, `/ 10`, the `u8` addition of `b'0'`) can fire for a value `0 ≤ n ≤ t.maxVal`. -/
theorem src_digit_loop_eq_model (t : IntTy) (dbg : Bool) (fuel n idx : Nat) (buf : Array UInt8) (hmax : (n : Int) ≤ t.maxVal) (hf : ndig n < fuel) :
    Rlib.WriterSrc.write_unsigned_loop0 t fuel dbg (n : Int) idx buf =
      match renderLoop buf.toList idx n with
      | .ok (l, i) => .ok ((0 : Int), i, l.toArray)
      | .error e => .error e :=
  Rlib.WriterSrc.write_unsigned_loop0_eq t dbg fuel n idx buf hmax hf

/-- `write_unsigned!($t)`: the one translated macro body, at every type `t` of at most 128 bits and every value of it. -/
theorem src_write_unsigned_eq_model (c : Cfg) (hc : c.buf < 2 ^ 63) (t : IntTy) (hbits : t.bits ≤ 128) (fuel n : Nat)
    (hmax : (n : Int) ≤ t.maxVal) (hf : ndig n < fuel) (st : St) (hg : Wf c st) :
    Sim c (Rlib.WriterSrc.write_unsigned t fuel c.dbg (n : Int) st.1 st.2.1 st.2.2) (runActs c (unsignedActs t.bits n) (abs st)) :=
  Rlib.WriterSrc.write_unsigned_sim c hc t hbits fuel n hmax hf st hg

/-- `write_signed!($t)`: `-` through `write_char`, then `writer.write(&self.unsigned_abs())` — the generic `write` instantiated with the
    regenerated `write_unsigned` at `$t::Unsigned`; `MIN` included. -/
theorem src_write_signed_eq_model (c : Cfg) (hc : c.buf < 2 ^ 63) (t : IntTy) (hb1 : 1 ≤ t.bits) (hbits : t.bits ≤ 128) (fuel : Nat) (v : Int)
    (hfit : t.fits v = true) (hf : ndig v.natAbs < fuel) (st : St) (hg : Wf c st) :
    Sim c (Rlib.WriterSrc.write_signed t fuel c.dbg v st.1 st.2.1 st.2.2) (runActs c (signedActs t.bits v) (abs st)) :=
  Rlib.WriterSrc.write_signed_sim c hc t hb1 hbits fuel v hfit hf st hg

/-- The macro invocations found in the source: `write_signed!` at signed types only, each with its unsigned counterpart among the
    `write_unsigned!` invocations (that is the impl `writer.write(&self.unsigned_abs())` resolves to), `write_unsigned!` at unsigned types
    only, together exactly the twelve integer types of the model; `write_tuple!` at arities 2 … 8. -/
theorem src_instances_shape :
    (∀ t ∈ Rlib.WriterSrc.write_signed_instances, t.signed = true ∧ (⟨false, t.bits⟩ : IntTy) ∈ Rlib.WriterSrc.write_unsigned_instances) ∧
    (∀ t ∈ Rlib.WriterSrc.write_unsigned_instances, t.signed = false) ∧
    Rlib.WriterSrc.write_signed_instances ++ Rlib.WriterSrc.write_unsigned_instances =
      (["i8", "i16", "i32", "i64", "i128", "isize", "u8", "u16", "u32", "u64", "u128", "usize"].filterMap IntTy.parse?) ∧
    Rlib.WriterSrc.write_tuple_arities = [2, 3, 4, 5, 6, 7, 8] := by
  decide

/-- Every integer instance is the model's `acts` of that value: for `t` in the regenerated invocation lists and `v` a value of `t`. -/
theorem src_write_int_eq_model (c : Cfg) (hc : c.buf < 2 ^ 63) (t : IntTy) (v : Int) (hv : (Val.int t v).valid = true) (fuel : Nat) (hf : 40 ≤ fuel)
    (st : St) (hg : Wf c st) :
    (t ∈ Rlib.WriterSrc.write_signed_instances →
      Sim c (Rlib.WriterSrc.write_signed t fuel c.dbg v st.1 st.2.1 st.2.2) (runActs c (acts c.buf (.int t v)) (abs st))) ∧
    (t ∈ Rlib.WriterSrc.write_unsigned_instances →
      Sim c (Rlib.WriterSrc.write_unsigned t fuel c.dbg v st.1 st.2.1 st.2.2) (runActs c (acts c.buf (.int t v)) (abs st))) := by
  have h := Rlib.WriterSrc.intWriter_sim c hc t v hv fuel hf st hg
  constructor
  · intro ht
    have hs := (src_instances_shape.1 t ht).1
    simpa [intWriter, hs] using h
  · intro ht
    have hs := src_instances_shape.2.1 t ht
    simpa [intWriter, hs] using h

/-- `impl<T: Writable> Writable for Vec<T>`: for ANY element dictionary `w` that refines `toActs` from fuel `N` on (on the elements of
    the vector), the loop does `write_char(' ')` before every element but the first and `writer.write(elem)` — `seqActs`, the model's
    `actsSeq` over an arbitrary element type (`Rlib.WriterSrc.actsSeq_eq`). -/
theorem src_vec_write_eq_model (c : Cfg) (hc : c.buf < 2 ^ 63) {T : Type} (w : Rlib.WriterSrc.Writable_write T) (toActs : T → List Act) (N : Nat)
    (items : Array T)
    (hw : ∀ fuel, N ≤ fuel → ∀ (x : T), x ∈ items → ∀ (st : St), Wf c st → Sim c (w fuel c.dbg x st.1 st.2.1 st.2.2) (runActs c (toActs x) (abs st)))
    (fuel : Nat) (hf : items.size + 1 + N ≤ fuel) (st : St) (hg : Wf c st) :
    Sim c (Rlib.WriterSrc.Vec_write w fuel c.dbg items st.1 st.2.1 st.2.2) (runActs c (seqActs toActs true items.toList) (abs st)) :=
  Rlib.WriterSrc.Vec_write_sim c hc w toActs N items hw fuel hf st hg

/-- `seqActs` is the model's `actsSeq`. -/
theorem src_seq_acts_eq_model (buf : Nat) (first : Bool) (vs : List Val) : actsSeq buf first vs = seqActs (acts buf) first vs :=
  Rlib.WriterSrc.actsSeq_eq buf first vs

/-- `write_tuple!(A, B)` … `write_tuple!(A, …, H)`: each expansion, for ANY element dictionaries, is `seqActs` over the elements' actions. -/
theorem src_tuple2_write_eq_model (c : Cfg) (hc : c.buf < 2 ^ 63) (fuel : Nat) {T0 T1 : Type}
    (w0 : Rlib.WriterSrc.Writable_write T0) (w1 : Rlib.WriterSrc.Writable_write T1) (x0 : T0) (x1 : T1) (A0 A1 : List Act)
    (h0 : ∀ st, Wf c st → Sim c (w0 fuel c.dbg x0 st.1 st.2.1 st.2.2) (runActs c A0 (abs st)))
    (h1 : ∀ st, Wf c st → Sim c (w1 fuel c.dbg x1 st.1 st.2.1 st.2.2) (runActs c A1 (abs st)))
    (st : St) (hg : Wf c st) :
    Sim c (Rlib.WriterSrc.tuple2_write w0 w1 fuel c.dbg (x0, x1) st.1 st.2.1 st.2.2) (runActs c (seqActs id true [A0, A1]) (abs st)) :=
  Rlib.WriterSrc.tuple2_write_sim c hc fuel w0 w1 x0 x1 A0 A1 h0 h1 st hg

theorem src_tuple3_write_eq_model (c : Cfg) (hc : c.buf < 2 ^ 63) (fuel : Nat) {T0 T1 T2 : Type}
    (w0 : Rlib.WriterSrc.Writable_write T0) (w1 : Rlib.WriterSrc.Writable_write T1) (w2 : Rlib.WriterSrc.Writable_write T2)
    (x0 : T0) (x1 : T1) (x2 : T2) (A0 A1 A2 : List Act)
    (h0 : ∀ st, Wf c st → Sim c (w0 fuel c.dbg x0 st.1 st.2.1 st.2.2) (runActs c A0 (abs st)))
    (h1 : ∀ st, Wf c st → Sim c (w1 fuel c.dbg x1 st.1 st.2.1 st.2.2) (runActs c A1 (abs st)))
    (h2 : ∀ st, Wf c st → Sim c (w2 fuel c.dbg x2 st.1 st.2.1 st.2.2) (runActs c A2 (abs st)))
    (st : St) (hg : Wf c st) :
    Sim c (Rlib.WriterSrc.tuple3_write w0 w1 w2 fuel c.dbg (x0, x1, x2) st.1 st.2.1 st.2.2) (runActs c (seqActs id true [A0, A1, A2]) (abs st)) :=
  Rlib.WriterSrc.tuple3_write_sim c hc fuel w0 w1 w2 x0 x1 x2 A0 A1 A2 h0 h1 h2 st hg

/-- arities 4 … 8 (the statements are those of `Rlib.WriterSrc.tuple<n>_write_sim`, one per expansion, all of the shape above): each
    regenerated expansion refines `seqActs` over its elements' actions — here instantiated with one dictionary for all positions. -/
theorem src_tuple4to8_write_eq_model (c : Cfg) (hc : c.buf < 2 ^ 63) (fuel : Nat) {T : Type} (w : Rlib.WriterSrc.Writable_write T) (toActs : T → List Act)
    (hw : ∀ (x : T) (st : St), Wf c st → Sim c (w fuel c.dbg x st.1 st.2.1 st.2.2) (runActs c (toActs x) (abs st)))
    (a b d e f g h i : T) (st : St) (hg : Wf c st) :
    Sim c (Rlib.WriterSrc.tuple4_write w w w w fuel c.dbg (a, b, d, e) st.1 st.2.1 st.2.2) (runActs c (seqActs toActs true [a, b, d, e]) (abs st)) ∧
    Sim c (Rlib.WriterSrc.tuple5_write w w w w w fuel c.dbg (a, b, d, e, f) st.1 st.2.1 st.2.2) (runActs c (seqActs toActs true [a, b, d, e, f]) (abs st)) ∧
    Sim c (Rlib.WriterSrc.tuple6_write w w w w w w fuel c.dbg (a, b, d, e, f, g) st.1 st.2.1 st.2.2)
      (runActs c (seqActs toActs true [a, b, d, e, f, g]) (abs st)) ∧
    Sim c (Rlib.WriterSrc.tuple7_write w w w w w w w fuel c.dbg (a, b, d, e, f, g, h) st.1 st.2.1 st.2.2)
      (runActs c (seqActs toActs true [a, b, d, e, f, g, h]) (abs st)) ∧
    Sim c (Rlib.WriterSrc.tuple8_write w w w w w w w w fuel c.dbg (a, b, d, e, f, g, h, i) st.1 st.2.1 st.2.2)
      (runActs c (seqActs toActs true [a, b, d, e, f, g, h, i]) (abs st)) := by
  refine ⟨?_, ?_, ?_, ?_, ?_⟩
  · simpa [seqActs] using Rlib.WriterSrc.tuple4_write_sim c hc fuel w w w w a b d e _ _ _ _ (hw a) (hw b) (hw d) (hw e) st hg
  · simpa [seqActs] using Rlib.WriterSrc.tuple5_write_sim c hc fuel w w w w w a b d e f _ _ _ _ _ (hw a) (hw b) (hw d) (hw e) (hw f) st hg
  · simpa [seqActs] using Rlib.WriterSrc.tuple6_write_sim c hc fuel w w w w w w a b d e f g _ _ _ _ _ _ (hw a) (hw b) (hw d) (hw e) (hw f) (hw g) st hg
  · simpa [seqActs] using
      Rlib.WriterSrc.tuple7_write_sim c hc fuel w w w w w w w a b d e f g h _ _ _ _ _ _ _ (hw a) (hw b) (hw d) (hw e) (hw f) (hw g) (hw h) st hg
  · simpa [seqActs] using
      Rlib.WriterSrc.tuple8_write_sim c hc fuel w w w w w w w w a b d e f g h i _ _ _ _ _ _ _ _ (hw a) (hw b) (hw d) (hw e) (hw f) (hw g) (hw h) (hw i) st hg

/-! ### C09 stated directly about the regenerated definitions

`SOp` (`Lemmas/WriterSrc.lean`) is a call a user makes — `write` of an integer of any of the twelve types, of a `&str`, a `String`, a
`Vec` of integers, a pair of integers; `write_char`; `flush` — `SOp.run` executes it with the REGENERATED functions (`write` applied to the
regenerated instance), `runSrc` a whole script, `SOp.toOp` is the model operation it corresponds to. -/

/-- A script run with the regenerated functions refines the model's `runOps` (same panic or related states), both profiles. -/
theorem src_script_refines (c : Cfg) (hc : c.buf < 2 ^ 63) (hB : c.buf = Rlib.WriterSrc.BUF_SIZE) (fuel : Nat) (ops : List SOp)
    (hv : Op.validAll (ops.map SOp.toOp) = true) (hf : ∀ o ∈ ops, o.need ≤ fuel) (st : St) (hg : Wf c st) :
    Sim c (runSrc fuel c.dbg ops st) (runOps c (ops.map SOp.toOp) (abs st)) :=
  Rlib.WriterSrc.runSrc_sim c hc hB fuel ops hv hf st hg

/-- Delivery: `Writer::new(sink)`, any valid script, `drop` — all with the regenerated definitions, in either profile: no panic, the
    sink has received exactly the concatenation of the standard renderings (`specOps`), in order, and nothing is left in the buffer. -/
theorem src_script_delivers (dbg : Bool) (fuel : Nat) (ops : List SOp) (hv : Op.validAll (ops.map SOp.toOp) = true)
    (hf : ∀ o ∈ ops, o.need ≤ fuel) :
    ∃ st0 st1 st2, Rlib.WriterSrc.new fuel dbg ⟨ByteArray.empty, 0⟩ = .ok st0 ∧ runSrc fuel dbg ops st0 = .ok st1 ∧
      Rlib.WriterSrc.drop fuel dbg st1.1 st1.2.1 st1.2.2 = .ok st2 ∧
      st2.2.2.data = specOps (ops.map SOp.toOp) ∧ st2.2.1 = 0 := by
  obtain ⟨hnew, hwf, habs⟩ := src_new_eq_model fuel dbg ⟨ByteArray.empty, 0⟩
  let c : Cfg := ⟨Rlib.WriterSrc.BUF_SIZE, dbg⟩
  obtain ⟨s, hs, hsink⟩ := fresh_writer_delivers c src_buf_size_bound.2 (ops.map SOp.toOp) hv
  have hrun := src_script_refines c src_buf_size_bound.1 rfl fuel ops hv hf _ hwf
  rw [habs] at hrun
  change Sim c _ (runOps c _ WState.init) at hrun
  rw [hs] at hrun
  obtain ⟨st1, h1, hw1, ha1⟩ := Rlib.WriterSrc.Sim.ok_inv hrun
  obtain ⟨st2, h2, hw2, ha2⟩ := Rlib.WriterSrc.Sim.ok_inv (src_drop_eq_model c fuel dbg st1 hw1)
  refine ⟨_, st1, st2, hnew, h1, h2, ?_, ?_⟩
  · have : (abs st2).sink = specOps (ops.map SOp.toOp) := by rw [← ha2, ← ha1]; exact hsink
    exact this
  · have hp : (abs st2).pend.size = 0 := by rw [← ha2]; exact flush_pend_size _
    have hsz : (abs st2).pend.size = st2.2.1 := Rlib.WriterSrc.pend_size st2.1 st2.2.1 (by rw [hw2.1]; exact hw2.2)
    omega

/-- The debug profile (`dbg = true`) is flush-per-write also for the regenerated definitions: after every valid script the sink already
    holds the whole text and `end = 0`, without any `flush` or drop. -/
theorem src_debug_unbuffered (fuel : Nat) (ops : List SOp) (hv : Op.validAll (ops.map SOp.toOp) = true) (hf : ∀ o ∈ ops, o.need ≤ fuel) :
    ∃ st0 st1, Rlib.WriterSrc.new fuel true ⟨ByteArray.empty, 0⟩ = .ok st0 ∧ runSrc fuel true ops st0 = .ok st1 ∧
      st1.2.2.data = specOps (ops.map SOp.toOp) ∧ st1.2.1 = 0 := by
  obtain ⟨hnew, hwf, habs⟩ := src_new_eq_model fuel true ⟨ByteArray.empty, 0⟩
  let c : Cfg := ⟨Rlib.WriterSrc.BUF_SIZE, true⟩
  obtain ⟨s, hs, hpend, hsink⟩ := debug_unbuffered c rfl src_buf_size_bound.2 (ops.map SOp.toOp) hv
  have hrun := src_script_refines c src_buf_size_bound.1 rfl fuel ops hv hf _ hwf
  rw [habs] at hrun
  change Sim c _ (runOps c _ WState.init) at hrun
  rw [hs] at hrun
  obtain ⟨st1, h1, hw1, ha1⟩ := Rlib.WriterSrc.Sim.ok_inv hrun
  refine ⟨_, st1, hnew, h1, ?_, ?_⟩
  · have : (abs st1).sink = specOps (ops.map SOp.toOp) := by rw [← ha1]; exact hsink
    exact this
  · have hp : (abs st1).pend.size = 0 := by rw [← ha1, hpend]; rfl
    have hsz : (abs st1).pend.size = st1.2.1 := Rlib.WriterSrc.pend_size st1.1 st1.2.1 (by rw [hw1.1]; exact hw1.2)
    omega

/-! ### Non-vacuity -/

/-- a 4-byte writer holding `ab` (and two stale bytes), a sink that has received `xy` in one call -/
def demoSt : St := (#[97, 98, 7, 7], 2, ⟨[120, 121].toByteArray, 1⟩)

example : Wf ⟨4, true⟩ demoSt := ⟨rfl, by decide⟩
example : Wf ⟨Rlib.WriterSrc.BUF_SIZE, false⟩ (Array.replicate Rlib.WriterSrc.BUF_SIZE 0, 0, ⟨ByteArray.empty, 0⟩) := (src_new_eq_model 0 false _).2.1
example : Sim ⟨4, true⟩ (Rlib.WriterSrc.flush 0 true demoSt.1 demoSt.2.1 demoSt.2.2) (.ok (Writer.flush (abs demoSt))) :=
  src_flush_eq_model ⟨4, true⟩ 0 true demoSt ⟨rfl, by decide⟩
-- the regenerated flush really delivers: the sink then holds `xyab`, two calls
example : (Rlib.WriterSrc.flush 0 true demoSt.1 demoSt.2.1 demoSt.2.2).toOption.map (fun st => (st.2.1, st.2.2.data.data, st.2.2.calls)) =
    some (0, #[120, 121, 97, 98], 2) := by decide
example : Sim ⟨4, true⟩ (Rlib.WriterSrc.reserve 0 true demoSt.1 demoSt.2.1 demoSt.2.2 3) (.ok (Writer.reserve ⟨4, true⟩ 3 (abs demoSt))) :=
  src_reserve_eq_model ⟨4, true⟩ (by decide) 0 true demoSt 3 (by decide) ⟨rfl, by decide⟩
-- a piece that needs a flush first, and an oversize piece (5 bytes into a 4-byte buffer): the same `index` panic on both sides
example : Sim ⟨4, false⟩ (Rlib.WriterSrc.write_bytes 0 false demoSt.1 demoSt.2.1 demoSt.2.2 #[1, 2, 3])
    (Writer.writeBytes ⟨4, false⟩ ⟨#[1, 2, 3]⟩ (abs demoSt)) :=
  src_write_bytes_eq_model ⟨4, false⟩ (by decide) 0 false demoSt #[1, 2, 3] (by decide) ⟨rfl, by decide⟩
example : (match Rlib.WriterSrc.write_bytes 0 false demoSt.1 demoSt.2.1 demoSt.2.2 #[1, 2, 3, 4, 5] with | .error .index => true | _ => false) = true := by
  decide
example : Sim ⟨4, true⟩ (Rlib.WriterSrc.write_char 0 true demoSt.1 demoSt.2.1 demoSt.2.2 0x263A) (runActs ⟨4, true⟩ (writeCharActs 0x3A) (abs demoSt)) :=
  src_write_char_eq_model ⟨4, true⟩ (by decide) 0 demoSt 0x263A ⟨rfl, by decide⟩
example : Sim ⟨4, true⟩ (Rlib.WriterSrc.drop 0 true demoSt.1 demoSt.2.1 demoSt.2.2) (.ok (Writer.drop (abs demoSt))) :=
  src_drop_eq_model ⟨4, true⟩ 0 true demoSt ⟨rfl, by decide⟩
-- a 10-byte string through a 4-byte writer (chunks of BUF_SIZE, then the oversize-piece panic of the model: BUF_SIZE > 4)
example : Sim ⟨4, false⟩ (Rlib.WriterSrc.str_write 11 false #[1, 2, 3, 4, 5, 6, 7, 8, 9, 10] demoSt.1 demoSt.2.1 demoSt.2.2)
    (runActs ⟨4, false⟩ (chunkActs Rlib.WriterSrc.BUF_SIZE ⟨#[1, 2, 3, 4, 5, 6, 7, 8, 9, 10]⟩ 0) (abs demoSt)) :=
  src_str_write_eq_model ⟨4, false⟩ (by decide) 11 _ (by decide) demoSt ⟨rfl, by decide⟩
example : Sim ⟨4, false⟩ (Rlib.WriterSrc.String_write 3 false #[1, 2] demoSt.1 demoSt.2.1 demoSt.2.2)
    (runActs ⟨4, false⟩ (chunkActs Rlib.WriterSrc.BUF_SIZE ⟨#[1, 2]⟩ 0) (abs demoSt)) :=
  src_string_write_eq_model ⟨4, false⟩ (by decide) 3 _ (by decide) demoSt ⟨rfl, by decide⟩
-- `u8::MAX` in its 3-byte digit buffer, and in a 2-byte buffer (where `renderU_short_panics` of Props/C09.lean applies)
example : Rlib.WriterSrc.write_unsigned_loop0 ⟨false, 8⟩ 40 false ((255 : Nat) : Int) 3 #[0, 0, 0] =
    match renderLoop [0, 0, 0] 3 255 with | .ok (l, i) => .ok ((0 : Int), i, l.toArray) | .error e => .error e :=
  src_digit_loop_eq_model ⟨false, 8⟩ false 40 255 3 #[0, 0, 0] (by decide) (by have := Rlib.WriterSrc.ndig_le_39 (n := 255) (by decide); omega)
-- `u128::MAX` (39 digits) and `i128::MIN` at a full-size writer
example (st : St) (hg : Wf ⟨Rlib.WriterSrc.BUF_SIZE, false⟩ st) :
    Sim ⟨Rlib.WriterSrc.BUF_SIZE, false⟩ (Rlib.WriterSrc.write_unsigned ⟨false, 128⟩ 40 false ((2 ^ 128 - 1 : Nat) : Int) st.1 st.2.1 st.2.2)
      (runActs ⟨Rlib.WriterSrc.BUF_SIZE, false⟩ (unsignedActs 128 (2 ^ 128 - 1)) (abs st)) :=
  src_write_unsigned_eq_model ⟨Rlib.WriterSrc.BUF_SIZE, false⟩ src_buf_size_bound.1 ⟨false, 128⟩ (by decide) 40 _ (by decide)
    (by have := Rlib.WriterSrc.ndig_le_39 (n := 2 ^ 128 - 1) (by decide); omega) st hg
example (st : St) (hg : Wf ⟨Rlib.WriterSrc.BUF_SIZE, true⟩ st) :
    Sim ⟨Rlib.WriterSrc.BUF_SIZE, true⟩ (Rlib.WriterSrc.write_signed ⟨true, 128⟩ 40 true (-(2 ^ 127)) st.1 st.2.1 st.2.2)
      (runActs ⟨Rlib.WriterSrc.BUF_SIZE, true⟩ (signedActs 128 (-(2 ^ 127))) (abs st)) :=
  src_write_signed_eq_model ⟨Rlib.WriterSrc.BUF_SIZE, true⟩ src_buf_size_bound.1 ⟨true, 128⟩ (by decide) (by decide) 40 _ (by decide)
    (by have := Rlib.WriterSrc.ndig_le_39 (n := (-(2 ^ 127) : Int).natAbs) (by decide); omega) st hg
example : (⟨true, 64⟩ : IntTy) ∈ Rlib.WriterSrc.write_signed_instances ∧ (Val.int ⟨true, 64⟩ (-1)).valid = true := by decide
-- a `Vec<i8>` through the regenerated loop with the regenerated `i8` instance as the element dictionary, from `demoSt`
example : Sim ⟨4, false⟩ (Rlib.WriterSrc.Vec_write (intWriter ⟨true, 8⟩) 50 false #[-1, 0, 7] demoSt.1 demoSt.2.1 demoSt.2.2)
    (runActs ⟨4, false⟩ (seqActs (fun v => acts 4 (.int ⟨true, 8⟩ v)) true [-1, 0, 7]) (abs demoSt)) :=
  src_vec_write_eq_model ⟨4, false⟩ (by decide) (intWriter ⟨true, 8⟩) _ 40 #[-1, 0, 7]
    (fun fuel hf x hx st hg => Rlib.WriterSrc.intWriter_sim ⟨4, false⟩ (by decide) ⟨true, 8⟩ x
      (by simp at hx; rcases hx with rfl | rfl | rfl <;> decide) fuel hf st hg)
    50 (by decide) demoSt ⟨rfl, by decide⟩
-- a pair `(u8, &str)`: two different dictionaries
example : Sim ⟨4, false⟩ (Rlib.WriterSrc.tuple2_write (intWriter ⟨false, 8⟩) Rlib.WriterSrc.str_write 50 false ((200 : Int), (#[104, 105] : Array UInt8))
      demoSt.1 demoSt.2.1 demoSt.2.2)
    (runActs ⟨4, false⟩ (seqActs id true [acts 4 (.int ⟨false, 8⟩ 200), chunkActs Rlib.WriterSrc.BUF_SIZE ⟨#[104, 105]⟩ 0]) (abs demoSt)) :=
  src_tuple2_write_eq_model ⟨4, false⟩ (by decide) 50 _ _ _ _ _ _
    (fun st hg => Rlib.WriterSrc.intWriter_sim ⟨4, false⟩ (by decide) ⟨false, 8⟩ 200 (by decide) 50 (by decide) st hg)
    (fun st hg => src_str_write_eq_model ⟨4, false⟩ (by decide) 50 _ (by decide) st hg) demoSt ⟨rfl, by decide⟩

/-- a script with a 39-digit integer, `i128::MIN`, strings, a vector, a pair, characters and a flush -/
def demoScript : List SOp :=
  [.int ⟨false, 128⟩ (2 ^ 128 - 1), .chr 32, .int ⟨true, 128⟩ (-(2 ^ 127)), .flush, .chr 10, .str #[119, 111, 114, 100], .chr 32,
   .ints ⟨false, 16⟩ #[65535, 0], .chr 10, .pair ⟨true, 64⟩ ⟨true, 8⟩ (-1) (-128), .string #[120]]

example : Op.validAll (demoScript.map SOp.toOp) = true := by decide
example : ∀ o ∈ demoScript, o.need ≤ 50 := by decide
example : ∃ st0 st1 st2, Rlib.WriterSrc.new 50 false ⟨ByteArray.empty, 0⟩ = .ok st0 ∧ runSrc 50 false demoScript st0 = .ok st1 ∧
    Rlib.WriterSrc.drop 50 false st1.1 st1.2.1 st1.2.2 = .ok st2 ∧ st2.2.2.data = specOps (demoScript.map SOp.toOp) ∧ st2.2.1 = 0 :=
  src_script_delivers false 50 demoScript (by decide) (by decide)
example : ∃ st0 st1, Rlib.WriterSrc.new 50 true ⟨ByteArray.empty, 0⟩ = .ok st0 ∧ runSrc 50 true demoScript st0 = .ok st1 ∧
    st1.2.2.data = specOps (demoScript.map SOp.toOp) ∧ st1.2.1 = 0 :=
  src_debug_unbuffered 50 demoScript (by decide) (by decide)

end Rlib.C09
