import RlibModel.Lemmas.Gcd
/-!
# C11 — gcd, lcm, linear Diophantine solver and CRT return the number-theoretic answer

Property theorems only; helper lemmas are in `Lemmas/Gcd.lean`, the model in `Model/Gcd.lean`.
`gcd lcm egcd crt` are the unbounded-integer models of the four Rust functions; `gcdT lcmT egcdT crtT` are the
same code with every machine operation checked against an integer type (what the driver executes).  The
`*_nowrap` / `*T_spec` theorems say that inside the property's magnitude box the checked versions never
report an overflow and agree with the unbounded ones, to which the number-theoretic theorems apply.

Second tie (last section, `src_*`): `Rlib.GcdSrc.gcd lcm egcd crt` are NOT hand-written — `tools/rs2lean.py` regenerates
them from the text of `rlib/gcd/src/lib.rs` on every run (`checks/C11.py: extract`).  `src_<f>_eq_model` proves, for an
explicit sufficient recursion budget, that the regenerated definition returns exactly what the hand-written model
returns; so every theorem above is also a theorem about what the source says now, and a change of meaning in the
source makes these proofs fail to compile (a broken obligation of this property).
-/
namespace Rlib.C11
open Rlib.Gcd

/-- `gcd` is the non-negative greatest common divisor for all operand signs, `gcd 0 0 = 0`
    included (the loop provably terminates: `gcdLoop` is defined by well-founded recursion). -/
theorem gcd_spec (a b : Int) : gcd a b = (Int.gcd a b : Int) := gcd_eq a b

example : gcd (-12) 18 = 6 := by rw [gcd_spec]; decide
example : gcd 0 0 = 0 := by rw [gcd_spec]; decide

/-- `lcm` is the non-negative least common multiple for all operand signs; `lcm 0 0` divides by zero
    (outside the property's domain, mirrored by the model). -/
theorem lcm_spec (a b : Int) :
    lcm a b = if a = 0 ∧ b = 0 then .error .divzero else .ok (Int.lcm a b : Int) := by
  by_cases h : a = 0 ∧ b = 0
  · obtain ⟨rfl, rfl⟩ := h
    rw [lcm_zero]; simp
  · rw [if_neg h, lcm_eq a b h]

example : lcm (-4) 6 = .ok 12 := by rw [lcm_spec]; decide
example : lcm 0 7 = .ok 0 := by rw [lcm_spec]; decide
example : lcm 0 0 = .error .divzero := by rw [lcm_spec]; decide

/-- Machine `gcd`: no overflow as soon as the absolute values of the operands are representable… -/
theorem gcdT_spec (t : IntTy) (a b : Int)
    (ha : t.fits (a.natAbs : Int) = true) (hb : t.fits (b.natAbs : Int) = true) :
    gcdT t a b = .ok (Int.gcd a b : Int) := gcdT_eq t a b ha hb

/-- …which is the case for every representable operand except the minimum of a signed type. -/
theorem fits_abs_of_ne_min (t : IntTy) (a : Int) (ha : t.fits a = true) (hmin : t.signed = true → a ≠ t.minVal) :
    t.fits (a.natAbs : Int) = true := fits_natAbs t a ha hmin

/-- Machine `lcm`: no overflow when the operands' absolute values and the result are representable. -/
theorem lcmT_spec (t : IntTy) (a b : Int)
    (ha : t.fits (a.natAbs : Int) = true) (hb : t.fits (b.natAbs : Int) = true)
    (hab : ¬(a = 0 ∧ b = 0)) (hl : t.fits (Int.lcm a b : Int) = true) :
    lcmT t a b = .ok (Int.lcm a b : Int) := lcmT_eq t a b ha hb hab hl

example : gcdT ⟨true, 8⟩ (-127) 127 = .ok 127 := by rw [gcdT_spec _ _ _ (by decide) (by decide)]; decide
example : lcmT ⟨false, 8⟩ 15 17 = .ok 255 := by
  rw [lcmT_spec _ _ _ (by decide) (by decide) (by decide) (by decide)]; decide
example : (⟨true, 8⟩ : IntTy).fits ((-127 : Int).natAbs : Int) = true :=
  fits_abs_of_ne_min ⟨true, 8⟩ (-127) (by decide) (fun _ => by decide)

/-- Soundness of the linear solver: a returned pair solves `a·x + b·y = c`. -/
theorem egcd_sound (a b c x y : Int) (h : egcd a b c = .ok (some (x, y))) : a * x + b * y = c :=
  egcd_sound' a b c x y h

/-- Completeness: for `(a, b) ≠ (0, 0)` the solver never errors and answers `none` exactly when `gcd(a,b) ∤ c`. -/
theorem egcd_complete (a b c : Int) (hab : ¬(a = 0 ∧ b = 0)) :
    ∃ r, egcd a b c = .ok r ∧ (r = none ↔ ¬ (Int.gcd a b : Int) ∣ c) := by
  rcases egcd_complete' a b c hab with ⟨h, hd⟩ | ⟨x, y, h, hd⟩
  · exact ⟨none, h, by simp [hd]⟩
  · exact ⟨some (x, y), h, by simp [hd]⟩

/-- `egcd(0, 0, c)` evaluates `c % 0`: division by zero (outside the property's domain). -/
theorem egcd_divzero (c : Int) : egcd 0 0 c = .error .divzero := by
  rw [egcd_zero_left]; simp

/-- Size of the returned pair: `|x| ≤ |c|/g · max(1, |b|/g)` and `|y| ≤ |c|/g · max(1, |a|/g)`, `g = gcd(a,b)`. -/
theorem egcd_bound (a b c x y : Int) (h : egcd a b c = .ok (some (x, y))) :
    x.natAbs ≤ (c.natAbs / Int.gcd a b) * max 1 (b.natAbs / Int.gcd a b) ∧
    y.natAbs ≤ (c.natAbs / Int.gcd a b) * max 1 (a.natAbs / Int.gcd a b) := by
  obtain ⟨K, hK⟩ := egcd_some_dvd a b c x y h
  have hd : (Int.gcd a b : Int) ∣ c := by
    rw [Int.natCast_dvd, hK]; exact Nat.dvd_mul_right _ _
  exact egcd_bound' a b c x y h hd

/-- No wrap inside the property's box: for `|a|, |b|, |c| ≤ 2^20` the `i64` instantiation (every quotient, product
    and difference of the recursion checked against `i64`) never overflows and returns what `egcd` returns. -/
theorem egcd_nowrap (a b c : Int) (ha : a.natAbs ≤ 2 ^ 20) (hb : b.natAbs ≤ 2 ^ 20) (hc : c.natAbs ≤ 2 ^ 20) :
    egcdT IntTy.i64 a b c = egcd a b c := by
  have hfits : ∀ z : Int, z.natAbs ≤ 2 ^ 40 → IntTy.i64.fits z = true := by
    intro z hz
    simp only [IntTy.fits, IntTy.minVal, IntTy.maxVal, IntTy.i64, if_true, Bool.and_eq_true, decide_eq_true_eq]
    omega
  by_cases hab : a = 0 ∧ b = 0
  · obtain ⟨rfl, rfl⟩ := hab
    rw [egcd_zero_left, egcdT_zero_left]; simp
  apply egcdT_eq IntTy.i64 (2 ^ 20) (fun z hz => hfits z (by omega)) a b c ha hb
  intro K hK z hz
  apply hfits
  have hG : 0 < Int.gcd a b := Nat.pos_of_ne_zero (by rw [Ne, Int.gcd_eq_zero_iff]; exact hab)
  have h1 : K ≤ Int.gcd a b * K := Nat.le_mul_of_pos_left _ hG
  have h2 : z.natAbs ≤ Int.gcd a b * z.natAbs := Nat.le_mul_of_pos_left _ hG
  have h3 : K * 2 ^ 20 ≤ 2 ^ 20 * 2 ^ 20 := Nat.mul_le_mul_right _ (by omega)
  omega

/-- …and the returned coefficients are below `2^40` in magnitude there. -/
theorem egcd_bound_box (a b c x y : Int) (ha : a.natAbs ≤ 2 ^ 20) (hb : b.natAbs ≤ 2 ^ 20) (hc : c.natAbs ≤ 2 ^ 20)
    (h : egcd a b c = .ok (some (x, y))) : x.natAbs ≤ 2 ^ 40 ∧ y.natAbs ≤ 2 ^ 40 := by
  obtain ⟨hx, hy⟩ := egcd_bound a b c x y h
  have h1 : c.natAbs / Int.gcd a b ≤ 2 ^ 20 := Nat.le_trans (Nat.div_le_self _ _) hc
  have h2 : max 1 (b.natAbs / Int.gcd a b) ≤ 2 ^ 20 :=
    max_le (by decide) (Nat.le_trans (Nat.div_le_self _ _) hb)
  have h3 : max 1 (a.natAbs / Int.gcd a b) ≤ 2 ^ 20 :=
    max_le (by decide) (Nat.le_trans (Nat.div_le_self _ _) ha)
  have e : (2 : Nat) ^ 40 = 2 ^ 20 * 2 ^ 20 := by decide
  rw [e]
  exact ⟨Nat.le_trans hx (Nat.mul_le_mul h1 h2), Nat.le_trans hy (Nat.mul_le_mul h1 h3)⟩

example : egcd 4 6 2 = .ok (some (-1, 1)) := by
  rw [egcd_step _ _ _ (by decide), show (6 : Int).tmod 4 = 2 by decide,
    egcd_step _ _ _ (by decide), show (4 : Int).tmod 2 = 0 by decide, egcd_zero_left]
  decide
example : ∃ x y, egcd 4 6 2 = .ok (some (x, y)) ∧ 4 * x + 6 * y = 2 :=
  ⟨-1, 1, by
    rw [egcd_step _ _ _ (by decide), show (6 : Int).tmod 4 = 2 by decide,
      egcd_step _ _ _ (by decide), show (4 : Int).tmod 2 = 0 by decide, egcd_zero_left]
    decide, by decide⟩
example : ∃ r, egcd (-6) 4 10 = .ok r ∧ r ≠ none := by
  obtain ⟨r, h, hr⟩ := egcd_complete (-6) 4 10 (by decide)
  exact ⟨r, h, by rw [Ne, hr]; decide⟩
example : egcd (-6) 4 9 = .ok none := by
  obtain ⟨r, h, hr⟩ := egcd_complete (-6) 4 9 (by decide)
  rw [h, hr.mpr (by decide)]
example : egcd 0 (-5) 10 = .ok (some (0, -2)) := by rw [egcd_zero_left]; decide
example : egcdT IntTy.i64 (2 ^ 20) (-(2 ^ 20) + 1) (2 ^ 20) = egcd (2 ^ 20) (-(2 ^ 20) + 1) (2 ^ 20) :=
  egcd_nowrap _ _ _ (by decide) (by decide) (by decide)

/-- The two-congruence solver on its domain (`1 ≤ m1, m2`, reduced residues): it never errors, answers `none`
    exactly when the congruences are incompatible (`gcd(m1,m2) ∤ a2 − a1`), and otherwise returns a solution of
    both congruences inside `[0, lcm(m1,m2))`. -/
theorem crt_spec (a1 m1 a2 m2 : Int) (hm1 : 1 ≤ m1) (hm2 : 1 ≤ m2)
    (ha1 : 0 ≤ a1 ∧ a1 < m1) (ha2 : 0 ≤ a2 ∧ a2 < m2) :
    (¬ (Int.gcd m1 m2 : Int) ∣ a2 - a1 ∧ crt a1 m1 a2 m2 = .ok none) ∨
    ((Int.gcd m1 m2 : Int) ∣ a2 - a1 ∧ ∃ x, crt a1 m1 a2 m2 = .ok (some x) ∧ 0 ≤ x ∧ x < (Int.lcm m1 m2 : Int) ∧
      m1 ∣ x - a1 ∧ m2 ∣ x - a2) := crt_main a1 m1 a2 m2 hm1 hm2 ha1 ha2

/-- The returned solution is the only one in `[0, lcm(m1,m2))`. -/
theorem crt_unique (a1 m1 a2 m2 x z : Int) (hm1 : 1 ≤ m1) (hm2 : 1 ≤ m2)
    (ha1 : 0 ≤ a1 ∧ a1 < m1) (ha2 : 0 ≤ a2 ∧ a2 < m2)
    (h : crt a1 m1 a2 m2 = .ok (some x))
    (hz : 0 ≤ z ∧ z < (Int.lcm m1 m2 : Int)) (hz1 : m1 ∣ z - a1) (hz2 : m2 ∣ z - a2) : z = x := by
  rcases crt_main a1 m1 a2 m2 hm1 hm2 ha1 ha2 with ⟨_, hn⟩ | ⟨_, x', hx', h0, hl, d1, d2⟩
  · rw [hn] at h; simp at h
  · rw [hx'] at h
    simp only [Except.ok.injEq, Option.some.injEq] at h
    subst h
    exact crt_unique' a1 m1 a2 m2 x' z ⟨h0, hl⟩ hz d1 d2 hz1 hz2

/-- No wrap inside the property's box: moduli up to `2^20`, reduced residues ⇒ the `i64` instantiation of `crt`
    (checked `abs`, negation, difference, the whole `egcd` recursion, quotient, sums and the final product) never
    overflows and returns what `crt` returns. -/
theorem crt_nowrap (a1 m1 a2 m2 : Int) (hm1 : 1 ≤ m1 ∧ m1 ≤ 2 ^ 20) (hm2 : 1 ≤ m2 ∧ m2 ≤ 2 ^ 20)
    (ha1 : 0 ≤ a1 ∧ a1 < m1) (ha2 : 0 ≤ a2 ∧ a2 < m2) :
    crtT IntTy.i64 a1 m1 a2 m2 = crt a1 m1 a2 m2 := by
  apply crtT_eq IntTy.i64 (2 ^ 20) _ a1 m1 a2 m2 (by simpa using hm1) (by simpa using hm2) ha1 ha2
  intro z hz
  simp only [IntTy.fits, IntTy.minVal, IntTy.maxVal, IntTy.i64, if_true, Bool.and_eq_true, decide_eq_true_eq]
  omega

example : ∃ x, crt 2 3 3 5 = .ok (some x) ∧ 0 ≤ x ∧ x < 15 ∧ (3 : Int) ∣ x - 2 ∧ (5 : Int) ∣ x - 3 := by
  rcases crt_spec 2 3 3 5 (by decide) (by decide) (by decide) (by decide) with ⟨hn, _⟩ | ⟨_, x, h, h0, hl, d1, d2⟩
  · exact absurd (by decide) hn
  · exact ⟨x, h, h0, hl, d1, d2⟩
example : crt 1 4 2 6 = .ok none := by
  rcases crt_spec 1 4 2 6 (by decide) (by decide) (by decide) (by decide) with ⟨_, h⟩ | ⟨hd, _⟩
  · exact h
  · exact absurd hd (by decide)
example : crt 2 3 3 5 = .ok (some 8) := by
  rcases crt_spec 2 3 3 5 (by decide) (by decide) (by decide) (by decide) with ⟨hn, _⟩ | ⟨_, x, h, h0, hl, d1, d2⟩
  · exact absurd (by decide) hn
  · rw [h, crt_unique 2 3 3 5 x 8 (by decide) (by decide) (by decide) (by decide) h (by decide) (by decide) (by decide)]
example : crtT IntTy.i64 (2 ^ 20 - 2) (2 ^ 20 - 1) 5 (2 ^ 20) = crt (2 ^ 20 - 2) (2 ^ 20 - 1) 5 (2 ^ 20) :=
  crt_nowrap _ _ _ _ (by decide) (by decide) (by decide) (by decide)

/-! ### Every signed instantiation, up to its own overflow threshold

The property's last sentence ("within magnitudes for which the mathematical intermediate values fit the integer type")
is the domain of every instantiation other than the `i64` box.  `domEgcd t a b c` / `domCrt t a1 m1 a2 m2`
(`Model/Gcd.lean`) decide it for one concrete input from the mathematics alone (gcd, lcm, the coefficient bound of
`egcd_bound`); the driver prints a definite `S` exactly when they hold.  On that domain the checked instantiation the
driver executes never reports an overflow, and the number-theoretic theorems above apply to its result. -/

theorem egcdT_dom (t : IntTy) (a b c : Int) (h : domEgcd t a b c = true) : egcdT t a b c = egcd a b c :=
  egcdT_dom' t a b c h

theorem crtT_dom (t : IntTy) (a1 m1 a2 m2 : Int) (h : domCrt t a1 m1 a2 m2 = true) :
    crtT t a1 m1 a2 m2 = crt a1 m1 a2 m2 := crtT_dom' t a1 m1 a2 m2 h

/-- What the driver prints for `egcd:ty` inside the domain: never an error, `none` exactly when `gcd ∤ c`, and a
    returned pair solves the equation. -/
theorem egcd_dom_answer (t : IntTy) (a b c : Int) (h : domEgcd t a b c = true) :
    ∃ r, egcdT t a b c = .ok r ∧ (r = none ↔ ¬ (Int.gcd a b : Int) ∣ c) ∧ ∀ x y, r = some (x, y) → a * x + b * y = c := by
  have hab : ¬(a = 0 ∧ b = 0) := by
    simp only [domEgcd, Bool.and_eq_true, Bool.not_eq_true', Bool.and_eq_false_imp, decide_eq_true_eq,
      decide_eq_false_iff_not] at h
    exact fun h0 => h.1.2 h0.1 h0.2
  obtain ⟨r, hr, hnone⟩ := egcd_complete a b c hab
  refine ⟨r, by rw [egcdT_dom t a b c h, hr], hnone, ?_⟩
  intro x y hxy
  rw [hxy] at hr
  exact egcd_sound a b c x y hr

/-- What the driver prints for `crt:ty` inside the domain: `none` exactly for incompatible congruences, otherwise the
    solution of both congruences in `[0, lcm)` (unique by `crt_unique`). -/
theorem crt_dom_answer (t : IntTy) (a1 m1 a2 m2 : Int) (h : domCrt t a1 m1 a2 m2 = true) :
    (¬ (Int.gcd m1 m2 : Int) ∣ a2 - a1 ∧ crtT t a1 m1 a2 m2 = .ok none) ∨
    ((Int.gcd m1 m2 : Int) ∣ a2 - a1 ∧ ∃ x, crtT t a1 m1 a2 m2 = .ok (some x) ∧ 0 ≤ x ∧ x < (Int.lcm m1 m2 : Int) ∧
      m1 ∣ x - a1 ∧ m2 ∣ x - a2) := by
  rw [crtT_dom t a1 m1 a2 m2 h]
  simp only [domCrt, Bool.and_eq_true, decide_eq_true_eq] at h
  obtain ⟨⟨⟨⟨⟨⟨⟨⟨⟨_, hm1⟩, hm2⟩, ha10⟩, ha1⟩, ha20⟩, ha2⟩, _⟩, _⟩, _⟩ := h
  exact crt_spec a1 m1 a2 m2 hm1 hm2 ⟨ha10, ha1⟩ ⟨ha20, ha2⟩

/-- The `2^20` box of the property lies inside the `i64` domain. -/
theorem box_inside_dom (a b c : Int) (ha : a.natAbs ≤ 2 ^ 20) (hb : b.natAbs ≤ 2 ^ 20) (hc : c.natAbs ≤ 2 ^ 20)
    (hab : ¬(a = 0 ∧ b = 0)) (a1 m1 a2 m2 : Int) (hm1 : 1 ≤ m1 ∧ m1 ≤ 2 ^ 20) (hm2 : 1 ≤ m2 ∧ m2 ≤ 2 ^ 20)
    (ha1 : 0 ≤ a1 ∧ a1 < m1) (ha2 : 0 ≤ a2 ∧ a2 < m2) :
    domEgcd IntTy.i64 a b c = true ∧ domCrt IntTy.i64 a1 m1 a2 m2 = true :=
  ⟨box_domEgcd a b c ha hb hc hab, box_domCrt a1 m1 a2 m2 hm1 hm2 ha1 ha2⟩

-- i32 with moduli far above the 50 of the crate's own test and far below the type's limit: inside the domain
example : domCrt ⟨true, 32⟩ 17 3001 2500 2999 = true := by decide
example : crtT ⟨true, 32⟩ 17 3001 2500 2999 = crt 17 3001 2500 2999 := crtT_dom _ _ _ _ _ (by decide)
example : ∃ x, crtT ⟨true, 32⟩ 17 3001 2500 2999 = .ok (some x) ∧ 0 ≤ x ∧ x < (Int.lcm 3001 2999 : Int) ∧
    (3001 : Int) ∣ x - 17 ∧ (2999 : Int) ∣ x - 2500 := by
  rcases crt_dom_answer ⟨true, 32⟩ 17 3001 2500 2999 (by decide) with ⟨hn, _⟩ | ⟨_, hx⟩
  · exact absurd (by decide) hn
  · exact hx
-- the edge of i8: lcm 126 is representable, 2·(m2/g) = 28 as well; one modulus further it is not
example : domCrt ⟨true, 8⟩ 3 9 5 14 = true := by decide
example : domCrt ⟨true, 8⟩ 3 9 5 15 = true := by decide
example : domCrt ⟨true, 8⟩ 3 9 5 16 = false := by decide
example : domEgcd ⟨true, 8⟩ (-127) 126 1 = true := by decide
example : domEgcd ⟨true, 8⟩ (-127) 126 2 = false := by decide
example : ∃ r, egcdT ⟨true, 16⟩ 181 (-180) 180 = .ok r ∧ r ≠ none := by
  obtain ⟨r, hr, hn, _⟩ := egcd_dom_answer ⟨true, 16⟩ 181 (-180) 180 (by decide)
  exact ⟨r, hr, by rw [Ne, hn]; decide⟩
example : domEgcd IntTy.i64 (2 ^ 20) (-(2 ^ 20) + 1) (2 ^ 20) = true ∧ domCrt IntTy.i64 (2 ^ 20 - 2) (2 ^ 20 - 1) 5 (2 ^ 20) = true :=
  box_inside_dom _ _ _ (by decide) (by decide) (by decide) (by decide) _ _ _ _ (by decide) (by decide) (by decide) (by decide)

end Rlib.C11
