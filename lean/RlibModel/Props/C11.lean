import RlibModel.Lemmas.Gcd
/-!
# C11 — gcd, lcm, linear Diophantine solver and CRT return the number-theoretic answer

Property theorems only; helper lemmas are in `Lemmas/Gcd.lean`, the model in `Model/Gcd.lean`.
-/
namespace Rlib.C11
open Rlib.Gcd

/-- `gcd` is the non-negative greatest common divisor for all operand signs, `gcd 0 0 = 0`
    included (the loop provably terminates: `gcdLoop` is defined by well-founded recursion). -/
theorem gcd_spec (a b : Int) : gcd a b = (Int.gcd a b : Int) := by
  have h1 := gcdLoop_natAbs (a.natAbs : Int) (b.natAbs : Int)
  have h2 := gcdLoop_nonneg (a.natAbs : Int) (b.natAbs : Int) (by omega) (by omega)
  unfold gcd
  simp only [Int.natAbs_natCast] at h1
  rw [Int.gcd]
  omega

example : gcd (-12) 18 = 6 := by rw [gcd_spec]; decide
example : gcd 0 0 = 0 := by rw [gcd_spec]; decide

end Rlib.C11
