import RlibModel.Props.C08
import RlibModel.Lemmas.ReaderSrc
/-
C08, second tie: theorems about the definitions REGENERATED from the Rust source text on every run.
Kept in their own module so that a source the translator cannot read (or an equivalence proof that no longer goes
through) leaves the property theorems of Props/C08.lean — and their audit — untouched; `./check` then decides
between `second tie unavailable` (translator subset; the correspondence tie still stands) and a broken obligation.
-/
namespace Rlib.C08
open Rlib Rlib.Reader

/-! ### Second tie: the definitions regenerated from the source text of this run

`Rlib.ReaderSrc.new/refill/peek/skip_whitespace/read_line/is_eof/String_read/char_read/read_signed/read_unsigned` are written by
`tools/rs2lean_reader.py` from `rlib/io/src/reader.rs` on every run of `./check C08` (`Generated/ReaderSrc.lean`).  The Rust struct is
the tuple of its fields `(buf, begin, end, stdin, eof)`; `stdin` — the byte source — is an explicit parameter: the ORACLE
`SrcIo.read` (`Generated/IoPrelude.lean`) answers one `read` call from the same list of `Event`s (`data` chunks / `intr`) the
hand-written model uses.  `usize` arithmetic is checked (`SrcIo.uadd/usub`), `while` loops run on `fuel`, the retry `loop` of `refill`
on `SrcIo.retryBudget` (= events left + 1).

`src_<f>_eq_model`: the regenerated definition returns exactly what the hand-written model returns — components of the new state,
value, or the same panic — for EVERY buffer content, position pair, `eof` flag, source (schedule) and fuel, under these explicit
hypotheses only:
* `refill`, `peek`: `s.buf.size < 2^64` (the buffer length is a `usize`; otherwise `end += bytes` could overflow);
* everything else: `Bnd s` = `s.buf.size + 1 < 2^64 ∧ s.e ≤ s.buf.size` (`end` inside the buffer — established by `new`, kept by
  every operation; `begin` is NOT constrained: `char` read at end of input moves it past `end`, as in the model).  The model does not
  check the `usize` additions `begin += 1`, the generated text does (overflow-checks = true): `Bnd` is what makes them not fire.
No hypothesis on the source, on `begin ≤ end`, on `eof`, on the fuel (both sides run their loops on the same `fuel`; the retry loop's own
budget is proved sufficient inside `refill_loop0_eq`).  A `String` is compared through `Array.toList`.
Hence every theorem of Props/C08.lean about `refill/peek/skipWs/readLine/isEof/readString/readChar/readInt` speaks about what the source
text of this very run says; `src_read_line_refines`, `src_read_int_refines` and the two `…_delivery_independent` corollaries state the
property directly about the regenerated definitions. -/

open Rlib.ReaderSrc (out outV Bnd strOut lineOut)

theorem src_new_eq_model (fuel : Nat) (src : List Event) :
    Rlib.ReaderSrc.new fuel src = .ok (out (init Rlib.ReaderSrc.BUF_SIZE src)) :=
  Rlib.ReaderSrc.new_eq fuel src

/-- The buffer size written in the source satisfies the size hypothesis of the theorems below, and the state `new` builds satisfies `Bnd`. -/
theorem src_buf_size_bound (src : List Event) :
    Rlib.ReaderSrc.BUF_SIZE + 1 < 2 ^ 64 ∧ 0 < Rlib.ReaderSrc.BUF_SIZE ∧ Bnd (init Rlib.ReaderSrc.BUF_SIZE src) := by
  refine ⟨Rlib.ReaderSrc.buf_size_bound, by decide, ?_, ?_⟩
  · simp only [init, Array.size_replicate]; exact Rlib.ReaderSrc.buf_size_bound
  · simp [init]

theorem src_refill_eq_model (fuel : Nat) (s : RState) (hsz : s.buf.size < 2 ^ 64) :
    Rlib.ReaderSrc.refill fuel s.buf s.b s.e s.src s.eof = (refill s).map out :=
  Rlib.ReaderSrc.refill_eq_model fuel s hsz

theorem src_peek_eq_model (fuel : Nat) (s : RState) (hsz : s.buf.size < 2 ^ 64) :
    Rlib.ReaderSrc.peek fuel s.buf s.b s.e s.src s.eof = (peek s).map outV :=
  Rlib.ReaderSrc.peek_eq_model fuel s hsz

theorem src_skip_whitespace_eq_model (fuel : Nat) (s : RState) (hB : Bnd s) :
    Rlib.ReaderSrc.skip_whitespace fuel s.buf s.b s.e s.src s.eof = (skipWs fuel s).map out :=
  Rlib.ReaderSrc.skip_whitespace_eq fuel s.buf s.b s.e s.src s.eof hB

theorem src_read_line_eq_model (fuel : Nat) (s : RState) (hB : Bnd s) :
    (Rlib.ReaderSrc.read_line fuel s.buf s.b s.e s.src s.eof).map lineOut = (readLine fuel s).map outV :=
  Rlib.ReaderSrc.read_line_eq fuel s.buf s.b s.e s.src s.eof hB

theorem src_is_eof_eq_model (fuel : Nat) (s : RState) (hB : Bnd s) :
    Rlib.ReaderSrc.is_eof fuel s.buf s.b s.e s.src s.eof = (isEof fuel s).map outV :=
  Rlib.ReaderSrc.is_eof_eq fuel s.buf s.b s.e s.src s.eof hB

theorem src_read_string_eq_model (fuel : Nat) (s : RState) (hB : Bnd s) :
    (Rlib.ReaderSrc.String_read fuel s.buf s.b s.e s.src s.eof).map strOut = (readString fuel s).map outV :=
  Rlib.ReaderSrc.String_read_eq fuel s.buf s.b s.e s.src s.eof hB

theorem src_read_char_eq_model (fuel : Nat) (s : RState) (hB : Bnd s) :
    Rlib.ReaderSrc.char_read fuel s.buf s.b s.e s.src s.eof = (readChar fuel s).map outV :=
  Rlib.ReaderSrc.char_read_eq fuel s.buf s.b s.e s.src s.eof hB

/-- `read_signed!($t)`: for every signed `$t` (any width) the one translated macro body is the model's `readInt`. -/
theorem src_read_signed_eq_model (t : IntTy) (ht : t.signed = true) (fuel : Nat) (s : RState) (hB : Bnd s) :
    Rlib.ReaderSrc.read_signed fuel t s.buf s.b s.e s.src s.eof = (readInt t fuel s).map outV :=
  Rlib.ReaderSrc.read_signed_eq t ht fuel s.buf s.b s.e s.src s.eof hB

/-- `read_unsigned!($t)`: for every unsigned `$t`. -/
theorem src_read_unsigned_eq_model (t : IntTy) (ht : t.signed = false) (fuel : Nat) (s : RState) (hB : Bnd s) :
    Rlib.ReaderSrc.read_unsigned fuel t s.buf s.b s.e s.src s.eof = (readInt t fuel s).map outV :=
  Rlib.ReaderSrc.read_unsigned_eq t ht fuel s.buf s.b s.e s.src s.eof hB

/-- The macro invocations found in the source: `read_signed!` is instantiated at signed types only, `read_unsigned!` at unsigned types
    only, all of at least 8 bits — exactly the twelve `Readable` integer types of the model (`IntTy.parse?`).  An invocation such as
    `read_unsigned!(i32)` (a `-` would then be parsed as a digit) breaks this obligation. -/
theorem src_instances_shape :
    (∀ t ∈ Rlib.ReaderSrc.read_signed_instances, t.signed = true ∧ 8 ≤ t.bits) ∧
    (∀ t ∈ Rlib.ReaderSrc.read_unsigned_instances, t.signed = false ∧ 8 ≤ t.bits) ∧
    Rlib.ReaderSrc.read_signed_instances ++ Rlib.ReaderSrc.read_unsigned_instances =
      (["i8", "i16", "i32", "i64", "i128", "isize", "u8", "u16", "u32", "u64", "u128", "usize"].filterMap IntTy.parse?) := by
  decide

/-- Every instance of the two macros is the model's `readInt` at that type. -/
theorem src_read_int_eq_model (t : IntTy) (fuel : Nat) (s : RState) (hB : Bnd s) :
    (t ∈ Rlib.ReaderSrc.read_signed_instances →
      Rlib.ReaderSrc.read_signed fuel t s.buf s.b s.e s.src s.eof = (readInt t fuel s).map outV) ∧
    (t ∈ Rlib.ReaderSrc.read_unsigned_instances →
      Rlib.ReaderSrc.read_unsigned fuel t s.buf s.b s.e s.src s.eof = (readInt t fuel s).map outV) :=
  ⟨fun h => src_read_signed_eq_model t (src_instances_shape.1 t h).1 fuel s hB,
   fun h => src_read_unsigned_eq_model t (src_instances_shape.2.1 t h).1 fuel s hB⟩

/-- The reader invariant of Props/C08.lean implies `Bnd` as soon as the buffer length fits `usize`. -/
theorem bnd_of_inv (BUF : Nat) (hb : BUF + 1 < 2 ^ 64) (s : RState) (hi : Inv BUF s) : Bnd s := by
  refine ⟨?_, ?_⟩
  · rw [hi.len]; exact hb
  · rw [hi.len]; exact hi.eB

/-- C08 about the regenerated `read_line`: from any reachable state, whatever the buffer size, the chunking and the `Interrupted`
    answers of the source, the line returned and the bytes left are those of the pure function `specLine` of the remaining bytes. -/
theorem src_read_line_refines (BUF : Nat) (hB : 0 < BUF) (hb : BUF + 1 < 2 ^ 64) (fuel : Nat) (s : RState) (hi : Inv BUF s)
    (hf : (R s).length < fuel) :
    ∃ s', (Rlib.ReaderSrc.read_line fuel s.buf s.b s.e s.src s.eof).map lineOut = .ok (outV ((specLine (R s)).1, s')) ∧
      R s' = (specLine (R s)).2 ∧ Inv BUF s' := by
  obtain ⟨s', h1, h2, h3⟩ := read_line_refines BUF hB fuel s hi hf
  exact ⟨s', by rw [src_read_line_eq_model fuel s (bnd_of_inv BUF hb s hi), h1]; rfl, h2, h3⟩

/-- C08 about the regenerated integer readers (all twelve instances): value, overflow panic and remaining bytes are those of `specInt`. -/
theorem src_read_int_refines (t : IntTy) (BUF : Nat) (hB : 0 < BUF) (hb : BUF + 1 < 2 ^ 64) (fuel : Nat) (s : RState) (hi : Inv BUF s)
    (hf : (R s).length < fuel)
    (g : Except Panic (Array UInt8 × Nat × Nat × List Event × Bool × Int))
    (hg : (t ∈ Rlib.ReaderSrc.read_signed_instances ∧ g = Rlib.ReaderSrc.read_signed fuel t s.buf s.b s.e s.src s.eof) ∨
          (t ∈ Rlib.ReaderSrc.read_unsigned_instances ∧ g = Rlib.ReaderSrc.read_unsigned fuel t s.buf s.b s.e s.src s.eof)) :
    (∀ e, specInt t (R s) = .error e → g = .error e) ∧
    (∀ v r, specInt t (R s) = .ok (v, r) → ∃ s', g = .ok (outV (v, s')) ∧ R s' = r ∧ Inv BUF s') := by
  have hbnd := bnd_of_inv BUF hb s hi
  have hgm : g = (readInt t fuel s).map outV := by
    rcases hg with ⟨hm, rfl⟩ | ⟨hm, rfl⟩
    · exact (src_read_int_eq_model t fuel s hbnd).1 hm
    · exact (src_read_int_eq_model t fuel s hbnd).2 hm
  obtain ⟨he, ho⟩ := read_int_refines t BUF hB fuel s hi hf
  constructor
  · intro e h; rw [hgm, he e h]; rfl
  · intro v r h
    obtain ⟨s', k1, k2, k3⟩ := ho v r h
    exact ⟨s', by rw [hgm, k1]; rfl, k2, k3⟩

/-- **Delivery independence, stated about the regenerated text**: two sources that deliver the same bytes — any chunking, `Interrupted`
    answers anywhere — read through the regenerated `read_line` from fresh readers of any two buffer sizes give the same line: the one
    `specLine` computes from the bytes. -/
theorem src_read_line_delivery_independent (BUF₁ BUF₂ : Nat) (h₁ : 0 < BUF₁) (h₂ : 0 < BUF₂) (hb₁ : BUF₁ + 1 < 2 ^ 64) (hb₂ : BUF₂ + 1 < 2 ^ 64)
    (src₁ src₂ : List Event) (ok₁ : SrcOk src₁) (ok₂ : SrcOk src₂) (hsame : srcBytes src₁ = srcBytes src₂)
    (f₁ f₂ : Nat) (hf₁ : (srcBytes src₁).length < f₁) (hf₂ : (srcBytes src₁).length < f₂) :
    ((Rlib.ReaderSrc.read_line f₁ (Array.replicate BUF₁ 0) 0 0 src₁ false).map lineOut).map (·.2.2.2.2.2) = .ok (specLine (srcBytes src₁)).1 ∧
    ((Rlib.ReaderSrc.read_line f₂ (Array.replicate BUF₂ 0) 0 0 src₂ false).map lineOut).map (·.2.2.2.2.2) = .ok (specLine (srcBytes src₁)).1 := by
  constructor
  · obtain ⟨s', h, _, _⟩ := src_read_line_refines BUF₁ h₁ hb₁ f₁ (init BUF₁ src₁) (init_inv BUF₁ src₁ ok₁) (by rw [init_R]; exact hf₁)
    simp only [init] at h
    rw [h]; simp [Except.map, outV, R, window_eq]
  · obtain ⟨s', h, _, _⟩ := src_read_line_refines BUF₂ h₂ hb₂ f₂ (init BUF₂ src₂) (init_inv BUF₂ src₂ ok₂) (by rw [init_R, ← hsame]; exact hf₂)
    simp only [init] at h
    rw [h]; simp [Except.map, outV, R, window_eq, hsame]

/-- The same for the regenerated `read_signed!` body at any of its instances (value or overflow panic). -/
theorem src_read_signed_delivery_independent (t : IntTy) (ht : t ∈ Rlib.ReaderSrc.read_signed_instances)
    (BUF₁ BUF₂ : Nat) (h₁ : 0 < BUF₁) (h₂ : 0 < BUF₂) (hb₁ : BUF₁ + 1 < 2 ^ 64) (hb₂ : BUF₂ + 1 < 2 ^ 64)
    (src₁ src₂ : List Event) (ok₁ : SrcOk src₁) (ok₂ : SrcOk src₂) (hsame : srcBytes src₁ = srcBytes src₂)
    (f₁ f₂ : Nat) (hf₁ : (srcBytes src₁).length < f₁) (hf₂ : (srcBytes src₁).length < f₂) :
    (Rlib.ReaderSrc.read_signed f₁ t (Array.replicate BUF₁ 0) 0 0 src₁ false).map (·.2.2.2.2.2) = (specInt t (srcBytes src₁)).map (·.1) ∧
    (Rlib.ReaderSrc.read_signed f₂ t (Array.replicate BUF₂ 0) 0 0 src₂ false).map (·.2.2.2.2.2) = (specInt t (srcBytes src₁)).map (·.1) := by
  have key : ∀ (BUF : Nat) (hB : 0 < BUF) (hb : BUF + 1 < 2 ^ 64) (src : List Event) (ok : SrcOk src) (f : Nat) (hf : (srcBytes src).length < f),
      (Rlib.ReaderSrc.read_signed f t (Array.replicate BUF 0) 0 0 src false).map (·.2.2.2.2.2) = (specInt t (srcBytes src)).map (·.1) := by
    intro BUF hB hb src ok f hf
    obtain ⟨he, ho⟩ := src_read_int_refines t BUF hB hb f (init BUF src) (init_inv BUF src ok) (by rw [init_R]; exact hf) _ (Or.inl ⟨ht, rfl⟩)
    simp only [init_R] at he ho
    simp only [init] at he ho
    cases hs : specInt t (srcBytes src) with
    | error e => rw [he e hs]; rfl
    | ok p =>
      obtain ⟨v, r⟩ := p
      obtain ⟨s', k, _, _⟩ := ho v r hs
      rw [k]; rfl
  exact ⟨key BUF₁ h₁ hb₁ src₁ ok₁ f₁ hf₁, by rw [hsame]; exact key BUF₂ h₂ hb₂ src₂ ok₂ f₂ (by rw [← hsame]; exact hf₂)⟩

/-! ### non-vacuity of the second tie -/

deriving instance DecidableEq for Except
deriving instance DecidableEq for RState

-- `new`: the regenerated constructor builds the model's initial state for the buffer size written in the source (65536)
example : Rlib.ReaderSrc.BUF_SIZE = 65536 := by decide
example : Rlib.ReaderSrc.new 0 srcA = .ok (Array.replicate 65536 0, 0, 0, srcA, false) := by
  rw [src_new_eq_model]; rfl

-- `refill` on `midState` (window empty at the end of a 4-byte buffer, an `Interrupted` answer first): compaction, retry, two bytes arrive
example : Rlib.ReaderSrc.refill 0 #[49, 50, 51, 32] 4 4 [.intr, .data [52, 10]] false = .ok (#[52, 10, 51, 32], 0, 2, [], false) := by
  have h := src_refill_eq_model 0 midState (by decide)
  have e : refill midState = .ok ⟨#[52, 10, 51, 32], 0, 2, false, []⟩ := by decide +kernel
  rw [e] at h; exact h
-- … and both sides panic alike when `end` lies outside the buffer (no invariant is assumed)
example : Rlib.ReaderSrc.refill 0 #[1, 2] 0 3 [.data [7]] false = .error .index := by
  have h := src_refill_eq_model 0 ⟨#[1, 2], 0, 3, false, [.data [7]]⟩ (by decide)
  have e : refill ⟨#[1, 2], 0, 3, false, [.data [7]]⟩ = .error .index := by decide +kernel
  rw [e] at h; exact h

-- `peek` at end of input answers 0 and does not expose the stale byte `buf[0] = 10` (fix 30a182a)
example : Rlib.ReaderSrc.peek 0 #[10, 97] 1 1 [] false = .ok (#[10, 97], 0, 0, [], true, 0) := by
  have h := src_peek_eq_model 0 ⟨#[10, 97], 1, 1, false, []⟩ (by decide)
  have e : peek ⟨#[10, 97], 1, 1, false, []⟩ = .ok (0, ⟨#[10, 97], 0, 0, true, []⟩) := by decide +kernel
  rw [e] at h; exact h

example : Rlib.ReaderSrc.skip_whitespace 5 #[32, 9, 55, 0] 0 2 [.intr, .data [10, 13, 56]] false =
    .ok (#[10, 13, 56, 0], 2, 3, [], false) := by
  have h := src_skip_whitespace_eq_model 5 ⟨#[32, 9, 55, 0], 0, 2, false, [.intr, .data [10, 13, 56]]⟩ ⟨by decide, by decide⟩
  have e : skipWs 5 ⟨#[32, 9, 55, 0], 0, 2, false, [.intr, .data [10, 13, 56]]⟩ = .ok ⟨#[10, 13, 56, 0], 2, 3, false, []⟩ := by decide +kernel
  rw [e] at h; exact h

-- `read_line`: CR and LF arrive in different reads (buffer of 2 bytes)
example : (Rlib.ReaderSrc.read_line 9 #[0, 0] 0 0 [.data [120, 13], .intr, .data [10, 121]] false).map lineOut =
    .ok (#[10, 121], 1, 2, [], false, some [120]) := by
  have h := src_read_line_eq_model 9 ⟨#[0, 0], 0, 0, false, [.data [120, 13], .intr, .data [10, 121]]⟩ ⟨by decide, by decide⟩
  have e : readLine 9 ⟨#[0, 0], 0, 0, false, [.data [120, 13], .intr, .data [10, 121]]⟩ = .ok (some [120], ⟨#[10, 121], 1, 2, false, []⟩) := by decide +kernel
  rw [e] at h; exact h

example : Rlib.ReaderSrc.is_eof 5 midState.buf midState.b midState.e midState.src midState.eof = .ok (#[52, 10, 51, 32], 0, 2, [], false, false) := by
  have h := src_is_eof_eq_model 5 midState ⟨by decide, by decide⟩
  have e : isEof 5 midState = .ok (false, ⟨#[52, 10, 51, 32], 0, 2, false, []⟩) := by decide +kernel
  rw [e] at h; exact h

example : (Rlib.ReaderSrc.String_read 9 #[0, 0] 0 0 [.data [32, 104], .data [105, 10]] false).map strOut = .ok (#[105, 10], 1, 2, [], false, [104, 105]) := by
  have h := src_read_string_eq_model 9 ⟨#[0, 0], 0, 0, false, [.data [32, 104], .data [105, 10]]⟩ ⟨by decide, by decide⟩
  have e : readString 9 ⟨#[0, 0], 0, 0, false, [.data [32, 104], .data [105, 10]]⟩ = .ok ([104, 105], ⟨#[105, 10], 1, 2, false, []⟩) := by decide +kernel
  rw [e] at h; exact h

example : Rlib.ReaderSrc.char_read 9 #[0, 0] 0 0 [.data [32, 104]] false = .ok (#[32, 104], 2, 2, [], false, 104) := by
  have h := src_read_char_eq_model 9 ⟨#[0, 0], 0, 0, false, [.data [32, 104]]⟩ ⟨by decide, by decide⟩
  have e : readChar 9 ⟨#[0, 0], 0, 0, false, [.data [32, 104]]⟩ = .ok (104, ⟨#[32, 104], 2, 2, false, []⟩) := by decide +kernel
  rw [e] at h; exact h

-- `read_signed!(i8)` on `-128` split between the sign and the digits: the value; on `128`: the overflow panic
example : (Rlib.ReaderSrc.read_signed 9 ⟨true, 8⟩ #[0, 0] 0 0 [.data [45], .intr, .data [49, 50], .data [56]] false).map (·.2.2.2.2.2) = .ok (-128) := by
  have h := src_read_signed_eq_model ⟨true, 8⟩ rfl 9 ⟨#[0, 0], 0, 0, false, [.data [45], .intr, .data [49, 50], .data [56]]⟩ ⟨by decide, by decide⟩
  have e : (readInt ⟨true, 8⟩ 9 ⟨#[0, 0], 0, 0, false, [.data [45], .intr, .data [49, 50], .data [56]]⟩).map (·.1) = .ok (-128) := by decide +kernel
  simp only at h
  rw [h]
  revert e
  cases readInt ⟨true, 8⟩ 9 ⟨#[0, 0], 0, 0, false, [.data [45], .intr, .data [49, 50], .data [56]]⟩ <;> simp [Except.map, outV]
example : Rlib.ReaderSrc.read_signed 9 ⟨true, 8⟩ #[0, 0] 0 0 [.data [49, 50], .data [56]] false = .error .overflow := by
  have h := src_read_signed_eq_model ⟨true, 8⟩ rfl 9 ⟨#[0, 0], 0, 0, false, [.data [49, 50], .data [56]]⟩ ⟨by decide, by decide⟩
  have e : readInt ⟨true, 8⟩ 9 ⟨#[0, 0], 0, 0, false, [.data [49, 50], .data [56]]⟩ = .error .overflow := by decide +kernel
  rw [e] at h; exact h
example : Rlib.ReaderSrc.read_unsigned 9 ⟨false, 8⟩ #[0, 0] 0 0 [.data [50, 53], .data [53]] false = .ok (#[53, 53], 0, 0, [], true, 255) := by
  have h := src_read_unsigned_eq_model ⟨false, 8⟩ rfl 9 ⟨#[0, 0], 0, 0, false, [.data [50, 53], .data [53]]⟩ ⟨by decide, by decide⟩
  have e : readInt ⟨false, 8⟩ 9 ⟨#[0, 0], 0, 0, false, [.data [50, 53], .data [53]]⟩ = .ok (255, ⟨#[53, 53], 0, 0, true, []⟩) := by decide +kernel
  rw [e] at h; exact h

-- the instances: membership is decidable and non-empty
example : (⟨true, 64⟩ : IntTy) ∈ Rlib.ReaderSrc.read_signed_instances ∧ (⟨false, 128⟩ : IntTy) ∈ Rlib.ReaderSrc.read_unsigned_instances := by decide

example : Rlib.ReaderSrc.read_signed 5 ⟨true, 64⟩ midState.buf midState.b midState.e midState.src midState.eof =
    (readInt ⟨true, 64⟩ 5 midState).map outV :=
  (src_read_int_eq_model ⟨true, 64⟩ 5 midState ⟨by decide, by decide⟩).1 (by decide)
example : Bnd midState :=
  bnd_of_inv 4 (by decide) midState ⟨rfl, Nat.le_refl _, Nat.le_refl _, by simp [midState, SrcOk], by simp [midState]⟩

-- hypotheses of the corollaries: `Inv 4 midState` (Props/C08.lean), `4 + 1 < 2^64`; srcA / srcC deliver the same bytes
example : ∃ s', (Rlib.ReaderSrc.read_line 3 midState.buf midState.b midState.e midState.src midState.eof).map lineOut = .ok (outV (some [52], s')) :=  by
  obtain ⟨s', h, _, _⟩ := src_read_line_refines 4 (by decide) (by decide) 3 midState
    ⟨rfl, Nat.le_refl _, Nat.le_refl _, by simp [midState, SrcOk], by simp [midState]⟩ (by decide +kernel)
  have e : (specLine (R midState)).1 = some [52] := by decide +kernel
  rw [e] at h; exact ⟨s', h⟩
example : ((Rlib.ReaderSrc.read_line 10 (Array.replicate 4 0) 0 0 srcA false).map lineOut).map (·.2.2.2.2.2) = .ok (some [45, 49, 50, 32, 120]) ∧
    ((Rlib.ReaderSrc.read_line 10 (Array.replicate 1 0) 0 0 srcC false).map lineOut).map (·.2.2.2.2.2) = .ok (some [45, 49, 50, 32, 120]) := by
  have h := src_read_line_delivery_independent 4 1 (by decide) (by decide) (by decide) (by decide) srcA srcC (by simp [srcA, SrcOk]) (by simp [srcC, SrcOk])
    (by decide +kernel) 10 10 (by decide +kernel) (by decide +kernel)
  have e : (specLine (srcBytes srcA)).1 = some [45, 49, 50, 32, 120] := by decide +kernel
  rw [e] at h; exact h
example : (Rlib.ReaderSrc.read_signed 10 ⟨true, 32⟩ (Array.replicate 4 0) 0 0 srcA false).map (·.2.2.2.2.2) = .ok (-12) ∧
    (Rlib.ReaderSrc.read_signed 10 ⟨true, 32⟩ (Array.replicate 1 0) 0 0 srcC false).map (·.2.2.2.2.2) = .ok (-12) := by
  have h := src_read_signed_delivery_independent ⟨true, 32⟩ (by decide) 4 1 (by decide) (by decide) (by decide) (by decide) srcA srcC
    (by simp [srcA, SrcOk]) (by simp [srcC, SrcOk]) (by decide +kernel) 10 10 (by decide +kernel) (by decide +kernel)
  have e : (specInt ⟨true, 32⟩ (srcBytes srcA)).map (·.1) = .ok (-12) := by decide +kernel
  rw [e] at h; exact h

end Rlib.C08
