import RlibModel.Model.Common
/-
Model of `rlib/treap/src/{treap_node.rs, treap.rs}` (properties C03, C16), core Lean only.

* `TItem`    — the operations of a user item (`TreapItem + TreapItemSized` plus the user-level
               `modify` that rlib's own test calls through `root_mut()`), executable; the laws a
               *lawful* item satisfies are the `Prop`-valued record `Lawful` at the end of the file.
* `Tree`     — `Option<Box<TreapNode<T>>>` as a value: `nil | node item priority left right`.
* `merge`, `splitAt`, `splitBy`, `first`, `last`, `collect`, `insertAt`, `removeAt`, `size`,
  `tagRoot`, `rootAgg` — follow the Rust functions branch by branch (`push` before relinking,
  `update` after; `split_at` compares `pos` with the size stored in the *left child's item*).
* `seq`      — the sequence a tree represents (pending tags of all ancestors applied): the spec view.
* `Op`, `stepM`, `runM` — the operation language of the correspondence check on a vector of live
  treaps; `stepS`, `runS` — the same language on plain lists (the executable specification).
  `removeAt` returns the ITEM (not its value): `Op.moveAt` / `Op.takeAt` hand exactly that item to
  `insertAt` / `single` again, `Op.dup` clones the only element through `first`/`last`/`collect`
  (`pick`), `Op.collect2` is `collect_into` of two roots into one vector.
  `Op.insertTag` / `Op.moveRoot` hand `insert_at` an item that still CARRIES A PENDING MODIFICATION
  (built by hand with `new` + `modify`, or read off the root of a modified one-element treap through
  the public `root` field — taken out or cloned; `onlyItem?`).
* `isHeap`, `prios`, `skel`, `consLeft`, `cartShape`, `height` — C16.
-/
namespace Rlib.Treap

/-- Operations of a treap item.
    `T` item, `E` the element a user sees, `G` aggregate carrier, `M` user modifiers (tags),
    `V` what a fresh item is created from. -/
structure TItem (T E G M V : Type) where
  /-- `Item::new(v)` -/
  new : V → T
  /-- the element as currently visible (the node's own pending tag is already applied to it) -/
  own : T → E
  /-- what the pending tag of this item will do to every element of both subtrees -/
  pa : T → E → E
  /-- what the pending tag of this item will do to the aggregate of a subtree -/
  paG : T → G → G
  /-- `TreapItemSized::size` -/
  sz : T → Nat
  /-- the stored aggregate -/
  agg : T → G
  /-- `TreapItem::update(&mut self, left, right)` -/
  update : T → Option T → Option T → T
  /-- `TreapItem::push(&mut self, left, right)`: new self, new left, new right -/
  push : T → Option T → Option T → T × Option T × Option T
  /-- the user-level modifier applied to a subtree root (`root_mut().unwrap().modify(m)`) -/
  tag : M → T → T
  /-- a modifier on one element -/
  act : M → E → E
  /-- a modifier on an aggregate -/
  actG : M → G → G
  /-- aggregate of a one-element sequence -/
  inj : E → G
  one : G
  mul : G → G → G

inductive Tree (T : Type) where
  | nil : Tree T
  | node : T → Nat → Tree T → Tree T → Tree T
  deriving Inhabited, DecidableEq

variable {T E G M V : Type}

/-- `opt.as_ref().map(|x| &x.item)` -/
def Tree.item? : Tree T → Option T
  | .nil => none
  | .node it _ _ _ => some it

/-- write a child's item back after `push` handed out `&mut` to it -/
def Tree.setItem? : Tree T → Option T → Tree T
  | .node _ p l r, some it => .node it p l r
  | t, _ => t

/-- number of nodes -/
def Tree.count : Tree T → Nat
  | .nil => 0
  | .node _ _ l r => l.count + 1 + r.count

@[simp] theorem count_setItem (t : Tree T) (o : Option T) : (t.setItem? o).count = t.count := by
  cases t <;> cases o <;> rfl

def single (it : T) (p : Nat) : Tree T := .node it p .nil .nil

variable (I : TItem T E G M V)

/-- the sequence a treap represents, pending tags applied (spec view of a tree) -/
def seq : Tree T → List E
  | .nil => []
  | .node it _ l r => (seq l).map (I.pa it) ++ I.own it :: (seq r).map (I.pa it)

/-- the aggregate of a plain sequence: the in-order fold -/
def foldG (es : List E) : G := es.foldr (fun e g => I.mul (I.inj e) g) I.one

/-- `TreapNode::push` followed by taking the node apart -/
def pushParts (it : T) (l r : Tree T) : T × Tree T × Tree T :=
  let q := I.push it l.item? r.item?
  (q.1, l.setItem? q.2.1, r.setItem? q.2.2)

/-- relink the children and call `TreapNode::update` -/
def upd (it : T) (p : Nat) (l r : Tree T) : Tree T :=
  .node (I.update it l.item? r.item?) p l r

/-- `TreapNode::merge`: the root is the left root iff `left.priority < right.priority`. -/
def merge (a b : Tree T) : Tree T :=
  match a, b with
  | .nil, b => b
  | a, .nil => a
  | .node ia pa_ la ra, .node ib pb lb rb =>
    if pa_ < pb then
      let q := pushParts I ia la ra
      upd I q.1 pa_ q.2.1 (merge q.2.2 (.node ib pb lb rb))
    else
      let q := pushParts I ib lb rb
      upd I q.1 pb (merge (.node ia pa_ la ra) q.2.1) q.2.2
termination_by a.count + b.count
decreasing_by all_goals (simp [pushParts, Tree.count] <;> omega)

/-- `TreapNode::split_at` -/
def splitAt (t : Tree T) (pos : Nat) : Tree T × Tree T :=
  match t with
  | .nil => (.nil, .nil)
  | .node it p l r =>
    let q := pushParts I it l r
    let lsz := (q.2.1.item?.map I.sz).getD 0
    if pos > lsz then
      let s := splitAt q.2.2 (pos - lsz - 1)
      (upd I q.1 p q.2.1 s.1, s.2)
    else
      let s := splitAt q.2.1 pos
      (s.1, upd I q.1 p s.2 q.2.2)
termination_by t.count
decreasing_by all_goals (simp [pushParts, Tree.count] <;> omega)

/-- `TreapNode::split_by`: the predicate sees the node's item after its `push`. -/
def splitBy (pred : T → Bool) (t : Tree T) : Tree T × Tree T :=
  match t with
  | .nil => (.nil, .nil)
  | .node it p l r =>
    let q := pushParts I it l r
    if pred q.1 then
      let s := splitBy pred q.2.2
      (upd I q.1 p q.2.1 s.1, s.2)
    else
      let s := splitBy pred q.2.1
      (s.1, upd I q.1 p s.2 q.2.2)
termination_by t.count
decreasing_by all_goals (simp [pushParts, Tree.count] <;> omega)

/-- `Treap::first`: walk left, pushing every node that still has a left child.
    Returns the item found and the tree as the walk leaves it (`&mut self`). -/
def first (t : Tree T) : Option T × Tree T :=
  match t with
  | .nil => (none, .nil)
  | .node it p .nil r => (some it, .node it p .nil r)
  | .node it p (.node il pl ll rl) r =>
    let q := pushParts I it (.node il pl ll rl) r
    let s := first q.2.1
    (s.1, .node q.1 p s.2 q.2.2)
termination_by t.count
decreasing_by all_goals (simp [pushParts, Tree.count] <;> omega)

/-- `Treap::last` -/
def last (t : Tree T) : Option T × Tree T :=
  match t with
  | .nil => (none, .nil)
  | .node it p l .nil => (some it, .node it p l .nil)
  | .node it p l (.node ir pr lr rr) =>
    let q := pushParts I it l (.node ir pr lr rr)
    let s := last q.2.2
    (s.1, .node q.1 p q.2.1 s.2)
termination_by t.count
decreasing_by all_goals (simp [pushParts, Tree.count] <;> omega)

/-- `TreapNode::collect_into`: push, left, self, right. -/
def collect (t : Tree T) : List T × Tree T :=
  match t with
  | .nil => ([], .nil)
  | .node it p l r =>
    let q := pushParts I it l r
    let a := collect q.2.1
    let b := collect q.2.2
    (a.1 ++ q.1 :: b.1, .node q.1 p a.2 b.2)
termination_by t.count
decreasing_by all_goals (simp [pushParts, Tree.count] <;> omega)

/-- `Treap::size`: the size stored in the root item -/
def size (t : Tree T) : Nat := (t.item?.map I.sz).getD 0

/-- `Treap::root().map(|i| aggregate of i)` -/
def rootAgg (t : Tree T) : Option G := t.item?.map I.agg

/-- `if let Some(x) = t.root_mut() { x.modify(m) }` -/
def tagRoot (m : M) : Tree T → Tree T
  | .nil => .nil
  | .node it p l r => .node (I.tag m it) p l r

/-- `Treap::insert_at(pos, item)` with the priority `p` the new node gets -/
def insertAt (t : Tree T) (pos : Nat) (it : T) (p : Nat) : Tree T :=
  let s := splitAt I t pos
  merge I (merge I s.1 (single it p)) s.2

/-- `Treap::remove_at(pos)`: result (`unwrap` panics when `pos` is past the end) and the treap
    as it is left behind (the root is re-assigned *before* the `unwrap`). -/
def removeAt (t : Tree T) (pos : Nat) : Except Panic T × Tree T :=
  let s1 := splitAt I t pos
  let s2 := splitAt I s1.2 1
  let t' := merge I s1.1 s2.2
  match s2.1 with
  | .nil => (.error .unwrap, t')
  | .node it _ _ _ => (.ok it, t')

/-- which element of a treap a caller clones: `0` = `first()`, `1` = `last()`, otherwise
    `collect()[0]`. Returns the item seen and the tree the walk leaves. -/
def pick (w : Nat) (t : Tree T) : Option T × Tree T :=
  if w = 0 then first I t
  else if w = 1 then last I t
  else let r := collect I t; (r.1.head?, r.2)

/-- a treap made of an item a caller holds (`Treap::from_item(it)`), or the empty treap -/
def ofItem? (o : Option T) (p : Nat) : Tree T :=
  match o with
  | some it => single it p
  | none => .nil

/-- the item at the root of a ONE-element treap as a caller reads it through the public `root`
    field after checking `t.size() == 1` (it may carry a pending modification: nobody pushed it) -/
def onlyItem? (t : Tree T) : Option T :=
  match t with
  | .nil => none
  | .node it _ _ _ => if I.sz it = 1 then some it else none

/-! ### C16: heap order, canonical shape -/

/-- is the root priority at least `p` (true for the empty tree) -/
def rootGeB (p : Nat) : Tree T → Bool
  | .nil => true
  | .node _ q _ _ => p ≤ q

/-- min-heap order on every parent-child edge (executable; `Heap` in the lemma files is the `Prop`) -/
def isHeap : Tree T → Bool
  | .nil => true
  | .node _ p l r => rootGeB p l && rootGeB p r && isHeap l && isHeap r

/-- priorities in in-order position -/
def prios : Tree T → List Nat
  | .nil => []
  | .node _ p l r => prios l ++ p :: prios r

/-- the shape with priorities, items erased -/
def skel : Tree T → Tree Unit
  | .nil => .nil
  | .node _ p l r => .node () p (skel l) (skel r)

def height : Tree T → Nat
  | .nil => 0
  | .node _ _ l r => max (height l) (height r) + 1

/-- put a new leftmost element with priority `p` into a shape (= `merge (single p) t` without items) -/
def consLeft (p : Nat) : Tree Unit → Tree Unit
  | .nil => .node () p .nil .nil
  | .node _ q l r => if p < q then .node () p .nil (.node () q l r) else .node () q (consLeft p l) r

/-- the Cartesian tree of a priority sequence (first minimum... for distinct priorities: *the* heap-ordered
    tree with that in-order priority sequence) -/
def cartShape : List Nat → Tree Unit
  | [] => .nil
  | p :: ps => consLeft p (cartShape ps)

/-- are the priorities pairwise distinct (executable) -/
def nodupB : List Nat → Bool
  | [] => true
  | x :: xs => !xs.contains x && nodupB xs

/-! ### The operation language of the correspondence check -/

/-- One operation on a vector of live treaps (treaps are named by their index). -/
inductive Op (E M V : Type) where
  | new                                   -- push `Treap::new()`
  | item (v : V) (p : Nat)                -- push `Treap::from_item(Item::new(v))`, priority `p`
  | merge (i j : Nat)                     -- `ts[i] = merge(ts[i], ts[j])`, remove `ts[j]`
  | splitAt (i k : Nat)                   -- `(ts[i], new last) = ts[i].split_at(k)`
  | splitBy (i : Nat) (g : E → Bool)      -- same with `split_by(|it| g(own it))`
  | insertAt (i k : Nat) (v : V) (p : Nat)
  | removeAt (i k : Nat)
  | first (i : Nat)
  | last (i : Nat)
  | collect (i : Nat)
  | size (i : Nat)
  | agg (i : Nat)                         -- aggregate stored at the root
  | tag (i : Nat) (m : M)                 -- modifier attached lazily at the root
  | drop (i : Nat)                        -- forget `ts[i]`
  -- re-use of what the API hands back (the item itself, not a fresh `Item::new`):
  | moveAt (i k j pos p : Nat)            -- `let it = ts[i].remove_at(k); ts[j].insert_at(pos, it)` (new node: priority `p`)
  | takeAt (i k p : Nat)                  -- push `Treap::from_item(ts[i].remove_at(k))`, priority `p`
  | dup (i w p : Nat)                     -- if `ts[i].size() <= 1`: push `Treap::from_item(clone of first()/last()/collect()[0])`
                                          --   (`w` = 0/1/other; an empty treap gives `Treap::new()`); else push `Treap::new()`
  | collect2 (i j : Nat)                  -- `TreapNode::collect_into` of `ts[i]`, then of `ts[j]`, into ONE vector
  -- items that still carry a PENDING modification are handed to `insert_at`:
  | insertTag (i k : Nat) (v : V) (m : M) (p : Nat)
                                          -- `let mut it = Item::new(v); it.modify(m); ts[i].insert_at(k, it)`
  | moveRoot (i w j pos p : Nat)          -- if `ts[i].size() == 1`: the item at its root, read through the public `root` field
                                          --   (`w = 0`: `ts[i].root.take().unwrap().item`, `ts[i]` is left empty; otherwise
                                          --   `ts[i].root().unwrap().clone()`), goes to `ts[j].insert_at(pos, it)`; else nothing

/-- What an operation lets the caller observe. -/
inductive Obs (E G : Type) where
  | unit
  | nats (ns : List Nat)
  | optE (o : Option E)
  | listE (l : List E)
  | optG (o : Option G)
  | removed (r : Except Panic E)
  | moved (e : E) (n : Nat)               -- the element moved and the size of the receiving treap afterwards

/-- One step of the model. `none` = the operation names a treap that does not exist. -/
def stepM (ts : List (Tree T)) : Op E M V → Option (List (Tree T) × Obs E G)
  | .new => some (ts ++ [.nil], .unit)
  | .item v p => some (ts ++ [single (I.new v) p], .unit)
  | .merge i j =>
    if i = j then none else
    match ts[i]?, ts[j]? with
    | some a, some b =>
      let m := merge I a b
      some ((ts.set i m).eraseIdx j, .nats [size I m])
    | _, _ => none
  | .splitAt i k =>
    match ts[i]? with
    | some t =>
      let s := splitAt I t k
      some (ts.set i s.1 ++ [s.2], .nats [size I s.1, size I s.2])
    | none => none
  | .splitBy i g =>
    match ts[i]? with
    | some t =>
      let s := splitBy I (fun it => g (I.own it)) t
      some (ts.set i s.1 ++ [s.2], .nats [size I s.1, size I s.2])
    | none => none
  | .insertAt i k v p =>
    match ts[i]? with
    | some t =>
      let t' := insertAt I t k (I.new v) p
      some (ts.set i t', .nats [size I t'])
    | none => none
  | .removeAt i k =>
    match ts[i]? with
    | some t =>
      let r := removeAt I t k
      some (ts.set i r.2, .removed (r.1.map I.own))
    | none => none
  | .first i =>
    match ts[i]? with
    | some t => let r := first I t; some (ts.set i r.2, .optE (r.1.map I.own))
    | none => none
  | .last i =>
    match ts[i]? with
    | some t => let r := last I t; some (ts.set i r.2, .optE (r.1.map I.own))
    | none => none
  | .collect i =>
    match ts[i]? with
    | some t => let r := collect I t; some (ts.set i r.2, .listE (r.1.map I.own))
    | none => none
  | .size i =>
    match ts[i]? with
    | some t => some (ts, .nats [size I t])
    | none => none
  | .agg i =>
    match ts[i]? with
    | some t => some (ts, .optG (rootAgg I t))
    | none => none
  | .tag i m =>
    match ts[i]? with
    | some t => some (ts.set i (tagRoot I m t), .unit)
    | none => none
  | .drop i =>
    match ts[i]? with
    | some _ => some (ts.eraseIdx i, .unit)
    | none => none
  | .moveAt i k j pos p =>
    match ts[i]?, ts[j]? with
    | some t, some _ =>
      let r := removeAt I t k
      let ts1 := ts.set i r.2
      match r.1 with
      | .error e => some (ts1, .removed (.error e))
      | .ok it =>
        -- the SAME item the removal returned becomes the new node's item
        match ts1[j]? with
        | some u =>
          let u' := insertAt I u pos it p
          some (ts1.set j u', .moved (I.own it) (size I u'))
        | none => none
    | _, _ => none
  | .takeAt i k p =>
    match ts[i]? with
    | some t =>
      let r := removeAt I t k
      match r.1 with
      | .error e => some (ts.set i r.2, .removed (.error e))
      | .ok it => some (ts.set i r.2 ++ [single it p], .removed (.ok (I.own it)))
    | none => none
  | .dup i w p =>
    match ts[i]? with
    | some t =>
      if size I t ≤ 1 then
        let r := pick I w t
        some (ts.set i r.2 ++ [ofItem? r.1 p], .optE (r.1.map I.own))
      else some (ts ++ [.nil], .optE none)
    | none => none
  | .collect2 i j =>
    if i = j then none else
    match ts[i]?, ts[j]? with
    | some a, some b =>
      let ra := collect I a
      let rb := collect I b
      some ((ts.set i ra.2).set j rb.2, .listE ((ra.1 ++ rb.1).map I.own))
    | _, _ => none
  | .insertTag i k v m p =>
    match ts[i]? with
    | some t =>
      -- the item is modified BEFORE it is handed over: it carries the pending modification `m`
      let it := I.tag m (I.new v)
      let t' := insertAt I t k it p
      some (ts.set i t', .moved (I.own it) (size I t'))
    | none => none
  | .moveRoot i w j pos p =>
    match ts[i]?, ts[j]? with
    | some t, some _ =>
      match onlyItem? I t with
      | none => some (ts, .optE none)
      | some it =>
        let ts1 := ts.set i (if w = 0 then .nil else t)
        match ts1[j]? with
        | some u =>
          let u' := insertAt I u pos it p
          some (ts1.set j u', .moved (I.own it) (size I u'))
        | none => none
    | _, _ => none

/-- The same operation on plain lists: the specification. It never looks at priorities. -/
def stepS (ls : List (List E)) : Op E M V → Option (List (List E) × Obs E G)
  | .new => some (ls ++ [[]], .unit)
  | .item v _ => some (ls ++ [[I.own (I.new v)]], .unit)
  | .merge i j =>
    if i = j then none else
    match ls[i]?, ls[j]? with
    | some a, some b => some ((ls.set i (a ++ b)).eraseIdx j, .nats [(a ++ b).length])
    | _, _ => none
  | .splitAt i k =>
    match ls[i]? with
    | some l => some (ls.set i (l.take k) ++ [l.drop k], .nats [(l.take k).length, (l.drop k).length])
    | none => none
  | .splitBy i g =>
    match ls[i]? with
    | some l => some (ls.set i (l.takeWhile g) ++ [l.dropWhile g], .nats [(l.takeWhile g).length, (l.dropWhile g).length])
    | none => none
  | .insertAt i k v _ =>
    match ls[i]? with
    | some l =>
      let l' := l.take k ++ I.own (I.new v) :: l.drop k
      some (ls.set i l', .nats [l'.length])
    | none => none
  | .removeAt i k =>
    match ls[i]? with
    | some l =>
      match l[k]? with
      | some x => some (ls.set i (l.eraseIdx k), .removed (.ok x))
      | none => some (ls, .removed (.error .unwrap))
    | none => none
  | .first i =>
    match ls[i]? with
    | some l => some (ls, .optE l.head?)
    | none => none
  | .last i =>
    match ls[i]? with
    | some l => some (ls, .optE l.getLast?)
    | none => none
  | .collect i =>
    match ls[i]? with
    | some l => some (ls, .listE l)
    | none => none
  | .size i =>
    match ls[i]? with
    | some l => some (ls, .nats [l.length])
    | none => none
  | .agg i =>
    match ls[i]? with
    | some l => some (ls, .optG (if l.isEmpty then none else some (foldG I l)))
    | none => none
  | .tag i m =>
    match ls[i]? with
    | some l => some (ls.set i (l.map (I.act m)), .unit)
    | none => none
  | .drop i =>
    match ls[i]? with
    | some _ => some (ls.eraseIdx i, .unit)
    | none => none
  | .moveAt i k j pos _ =>
    match ls[i]?, ls[j]? with
    | some l, some _ =>
      match l[k]? with
      | none => some (ls, .removed (.error .unwrap))
      | some x =>
        let ls1 := ls.set i (l.eraseIdx k)
        match ls1[j]? with
        | some u =>
          let u' := u.take pos ++ x :: u.drop pos
          some (ls1.set j u', .moved x u'.length)
        | none => none
    | _, _ => none
  | .takeAt i k _ =>
    match ls[i]? with
    | some l =>
      match l[k]? with
      | none => some (ls, .removed (.error .unwrap))
      | some x => some (ls.set i (l.eraseIdx k) ++ [[x]], .removed (.ok x))
    | none => none
  | .dup i w _ =>
    match ls[i]? with
    | some l =>
      if l.length ≤ 1 then some (ls ++ [l], .optE (if w = 1 then l.getLast? else l.head?))
      else some (ls ++ [[]], .optE none)
    | none => none
  | .collect2 i j =>
    if i = j then none else
    match ls[i]?, ls[j]? with
    | some a, some b => some (ls, .listE (a ++ b))
    | _, _ => none
  | .insertTag i k v m _ =>
    match ls[i]? with
    | some l =>
      let x := I.act m (I.own (I.new v))
      let l' := l.take k ++ x :: l.drop k
      some (ls.set i l', .moved x l'.length)
    | none => none
  | .moveRoot i w j pos _ =>
    match ls[i]?, ls[j]? with
    | some l, some _ =>
      match l with
      | [x] =>
        let ls1 := ls.set i (if w = 0 then [] else l)
        match ls1[j]? with
        | some u =>
          let u' := u.take pos ++ x :: u.drop pos
          some (ls1.set j u', .moved x u'.length)
        | none => none
      | _ => some (ls, .optE none)
    | _, _ => none

/-- Run a history; `none` as soon as one operation is invalid. Observations in order. -/
def runM (ts : List (Tree T)) : List (Op E M V) → Option (List (Tree T) × List (Obs E G))
  | [] => some (ts, [])
  | op :: ops =>
    match stepM I ts op with
    | none => none
    | some (ts', o) =>
      match runM ts' ops with
      | none => none
      | some (ts'', os) => some (ts'', o :: os)

def runS (ls : List (List E)) : List (Op E M V) → Option (List (List E) × List (Obs E G))
  | [] => some (ls, [])
  | op :: ops =>
    match stepS I ls op with
    | none => none
    | some (ls', o) =>
      match runS ls' ops with
      | none => none
      | some (ls'', os) => some (ls'', o :: os)

/-- `g` is true on a prefix of `l` and false after it (executable). -/
def prefixMonoB (g : E → Bool) : List E → Bool
  | [] => true
  | x :: xs => (g x || xs.all (fun y => !g y)) && prefixMonoB g xs

/-- The stated domain of the property for one operation on the current spec state:
    `split_by` predicates must be prefix-monotone on the sequence they split. -/
def opInDomB (ls : List (List E)) : Op E M V → Bool
  | .splitBy i g => match ls[i]? with
    | some l => prefixMonoB g l
    | none => true
  | _ => true

/-- is the whole history inside the property's domain (checked along the spec run) -/
def runInDomB (ls : List (List E)) : List (Op E M V) → Bool
  | [] => true
  | op :: ops =>
    opInDomB ls op &&
    match stepS (G := G) I ls op with
    | none => true
    | some (ls', _) => runInDomB ls' ops

/-- The **stated** domain of C03 for one operation (what the driver uses to decide between a spec
    answer and `any`): positions of `split_at` / `insert_at` in `0..=len`, of `remove_at` in `0..len`,
    `split_by` predicates prefix-monotone. The theorems hold on the larger domain `opInDomB`. -/
def opStatedB (ls : List (List E)) : Op E M V → Bool
  | .splitBy i g => match ls[i]? with
    | some l => prefixMonoB g l
    | none => true
  | .splitAt i k | .insertAt i k _ _ | .insertTag i k _ _ _ => match ls[i]? with
    | some l => k ≤ l.length
    | none => true
  | .moveRoot i w j pos _ => match ls[i]?, ls[j]? with
    | some l, some u => l.length != 1 || decide (pos ≤ (if i = j ∧ w = 0 then 0 else u.length))
    | _, _ => true
  | .removeAt i k | .takeAt i k _ => match ls[i]? with
    | some l => k < l.length
    | none => true
  | .moveAt i k j pos _ => match ls[i]?, ls[j]? with
    | some l, some u => k < l.length && pos ≤ (if i = j then u.length - 1 else u.length)
    | _, _ => true
  | _ => true

def runStatedB (ls : List (List E)) : List (Op E M V) → Bool
  | [] => true
  | op :: ops =>
    opStatedB ls op &&
    match stepS (G := G) I ls op with
    | none => true
    | some (ls', _) => runStatedB ls' ops

/-! ### C16: how the in-order priority sequences evolve -/

/-- the first size an operation reports (the left part of a split) -/
def Obs.firstNat {E G : Type} : Obs E G → Nat
  | .nats (a :: _) => a
  | _ => 0

/-- One operation on the in-order **priority** lists of the live treaps. It is a function of the
    operation and of the sizes the operation reports (only `split_by` needs the report: where it
    cuts depends on the elements) — never of tree shapes. -/
def stepP (ps : List (List Nat)) (op : Op E M V) (o : Obs E G) : Option (List (List Nat)) :=
  match op with
  | .new => some (ps ++ [[]])
  | .item _ p => some (ps ++ [[p]])
  | .merge i j =>
    if i = j then none else
    match ps[i]?, ps[j]? with
    | some a, some b => some ((ps.set i (a ++ b)).eraseIdx j)
    | _, _ => none
  | .splitAt i k =>
    match ps[i]? with
    | some l => some (ps.set i (l.take k) ++ [l.drop k])
    | none => none
  | .splitBy i _ =>
    match ps[i]? with
    | some l => some (ps.set i (l.take o.firstNat) ++ [l.drop o.firstNat])
    | none => none
  | .insertAt i k _ p =>
    match ps[i]? with
    | some l => some (ps.set i (l.take k ++ p :: l.drop k))
    | none => none
  | .removeAt i k =>
    match ps[i]? with
    | some l => some (ps.set i (l.eraseIdx k))
    | none => none
  | .first i | .last i | .collect i | .size i | .agg i | .tag i _ =>
    match ps[i]? with
    | some _ => some ps
    | none => none
  | .drop i =>
    match ps[i]? with
    | some _ => some (ps.eraseIdx i)
    | none => none
  | .moveAt i k j pos p =>
    match ps[i]?, ps[j]? with
    | some l, some _ =>
      if k < l.length then
        let ps1 := ps.set i (l.eraseIdx k)
        match ps1[j]? with
        | some u => some (ps1.set j (u.take pos ++ p :: u.drop pos))
        | none => none
      else some ps
    | _, _ => none
  | .takeAt i k p =>
    match ps[i]? with
    | some l => if k < l.length then some (ps.set i (l.eraseIdx k) ++ [[p]]) else some ps
    | none => none
  | .dup i _ p =>
    match ps[i]? with
    | some l => some (ps ++ [if l.length = 1 then [p] else []])
    | none => none
  | .collect2 i j =>
    if i = j then none else
    match ps[i]?, ps[j]? with
    | some _, some _ => some ps
    | _, _ => none
  | .insertTag i k _ _ p =>
    match ps[i]? with
    | some l => some (ps.set i (l.take k ++ p :: l.drop k))
    | none => none
  | .moveRoot i w j pos p =>
    match ps[i]?, ps[j]? with
    | some l, some _ =>
      if l.length = 1 then
        let ps1 := ps.set i (if w = 0 then [] else l)
        match ps1[j]? with
        | some u => some (ps1.set j (u.take pos ++ p :: u.drop pos))
        | none => none
      else some ps
    | _, _ => none

def runP (ps : List (List Nat)) : List (Op E M V) → List (Obs E G) → Option (List (List Nat))
  | [], _ => some ps
  | _ :: _, [] => none
  | op :: ops, o :: os =>
    match stepP ps op o with
    | none => none
    | some ps' => runP ps' ops os

/-! ### Laws of a lawful item -/

/-- The laws the theorems of C03 assume of an item. Nothing is commutative: neither `mul`
    nor the composition of modifiers. -/
structure Lawful : Prop where
  mul_assoc : ∀ a b c, I.mul (I.mul a b) c = I.mul a (I.mul b c)
  one_mul : ∀ a, I.mul I.one a = a
  mul_one : ∀ a, I.mul a I.one = a
  -- a fresh item
  new_sz : ∀ v, I.sz (I.new v) = 1
  new_agg : ∀ v, I.agg (I.new v) = I.inj (I.own (I.new v))
  -- the pending action on aggregates is the pending action on elements, folded
  paG_one : ∀ x, I.paG x I.one = I.one
  paG_mul : ∀ x g h, I.paG x (I.mul g h) = I.mul (I.paG x g) (I.paG x h)
  paG_inj : ∀ x e, I.paG x (I.inj e) = I.inj (I.pa x e)
  actG_one : ∀ m, I.actG m I.one = I.one
  actG_mul : ∀ m g h, I.actG m (I.mul g h) = I.mul (I.actG m g) (I.actG m h)
  actG_inj : ∀ m e, I.actG m (I.inj e) = I.inj (I.act m e)
  -- update: keeps the element and the pending tag, recomputes size and aggregate from the children
  update_own : ∀ x l r, I.own (I.update x l r) = I.own x
  update_pa : ∀ x l r a, I.pa (I.update x l r) a = I.pa x a
  update_sz : ∀ x l r, I.sz (I.update x l r) = (l.map I.sz).getD 0 + 1 + (r.map I.sz).getD 0
  update_agg : ∀ x l r, I.agg (I.update x l r) =
      I.mul ((l.map I.agg).getD I.one) (I.mul (I.inj (I.own x)) ((r.map I.agg).getD I.one))
  -- push: the node keeps element, size, aggregate and loses its pending tag; a child that exists
  -- receives the tag on its element, (composed) on its own pending tag and on its aggregate
  push_own0 : ∀ p l r, I.own (I.push p l r).1 = I.own p
  push_pa0 : ∀ p l r a, I.pa (I.push p l r).1 a = a
  push_sz0 : ∀ p l r, I.sz (I.push p l r).1 = I.sz p
  push_agg0 : ∀ p l r, I.agg (I.push p l r).1 = I.agg p
  push_l : ∀ p l r, ∃ l', (I.push p (some l) r).2.1 = some l' ∧ I.own l' = I.pa p (I.own l) ∧
      (∀ a, I.pa l' a = I.pa p (I.pa l a)) ∧ I.sz l' = I.sz l ∧ I.agg l' = I.paG p (I.agg l)
  push_r : ∀ p l r, ∃ r', (I.push p l (some r)).2.2 = some r' ∧ I.own r' = I.pa p (I.own r) ∧
      (∀ a, I.pa r' a = I.pa p (I.pa r a)) ∧ I.sz r' = I.sz r ∧ I.agg r' = I.paG p (I.agg r)
  -- the user-level modifier
  tag_own : ∀ m x, I.own (I.tag m x) = I.act m (I.own x)
  tag_pa : ∀ m x a, I.pa (I.tag m x) a = I.act m (I.pa x a)
  tag_sz : ∀ m x, I.sz (I.tag m x) = I.sz x
  tag_agg : ∀ m x, I.agg (I.tag m x) = I.actG m (I.agg x)

end Rlib.Treap
