import RlibModel.Model.Reader
/-
Several `Reader`s alive at the same time on one thread, used interleaved (wave 3, class (B); motivated by the
seeded change C08_m10, which moved the 64 KiB buffer into a thread-local shared by every Reader of the thread).

The model of one reader is `RState` (Model/Reader.lean): it owns its buffer, so in the model readers cannot
interact.  A multi-reader script addresses reader `k` of a list of states; `Reader::new`, `drop` and a move of the
value have no result and do not change what reader `k` will return (`MOp.life`): the state of reader `k` is
`init BUF src_k` from the start, whenever the Rust object is created.  The specification is *independence*: the
results addressed to reader `k` are those of its own script run alone on its own input (`projOps`, `projRes`;
theorems in `Lemmas/ReaderMulti.lean`, `Props/C08.lean`).
-/
namespace Rlib.Reader

/-- One step of a script over several readers. -/
inductive MOp where
  | run (k : Nat) (op : Op)    -- a call of the public API on reader `k`
  | life (k : Nat)             -- `Reader::new` / `drop` / move of reader `k`: no result, no effect on later results
  deriving Repr, DecidableEq, Inhabited

/-- `none` = a lifecycle step (nothing is returned). -/
abbrev MRes := Option Res

/-- The model: every reader has its own state; the trace ends at the first panic. An index without a reader is
    `undef` (case lines with such an index are rejected by harness and driver). -/
def runMulti (fuel : Nat) : List MOp → List RState → List MRes
  | [], _ => []
  | .life _ :: ops, st => none :: runMulti fuel ops st
  | .run k op :: ops, st =>
    match st[k]? with
    | none => [some .undef]
    | some s =>
      match runOp fuel op s with
      | .error e => [some (.panic e)]
      | .ok (o, s') => some (.out o) :: runMulti fuel ops (st.set k s')

/-- The specification on the remaining byte strings of the readers. -/
def specMulti : List MOp → List (List UInt8) → List MRes
  | [], _ => []
  | .life _ :: ops, rest => none :: specMulti ops rest
  | .run k op :: ops, rest =>
    match rest[k]? with
    | none => [some .undef]
    | some r =>
      match specOp op r with
      | none => [some .undef]
      | some (.error e) => [some (.panic e)]
      | some (.ok (o, r')) => some (.out o) :: specMulti ops (rest.set k r')

/-- The script of reader `k` alone. -/
def projOps (k : Nat) : List MOp → List Op
  | [] => []
  | .life _ :: ops => projOps k ops
  | .run j op :: ops => if j = k then op :: projOps k ops else projOps k ops

/-- The results addressed to reader `k` (the trace may be shorter than the script: it ends at the first panic). -/
def projRes (k : Nat) : List MOp → List MRes → List Res
  | .run j _ :: ops, some r :: rs => if j = k then r :: projRes k ops rs else projRes k ops rs
  | _ :: ops, _ :: rs => projRes k ops rs
  | _, _ => []

/-- No panic and nothing undefined in a trace. -/
def cleanTrace : List MRes → Bool
  | [] => true
  | none :: rs => cleanTrace rs
  | some (.out _) :: rs => cleanTrace rs
  | some _ :: _ => false

/-- Number of leading steps inside the property's domain (each judged on the remaining input of its own reader). -/
def domPrefixM : List MOp → List (List UInt8) → Nat
  | [], _ => 0
  | .life _ :: ops, rest => 1 + domPrefixM ops rest
  | .run k op :: ops, rest =>
    match rest[k]? with
    | none => 0
    | some r =>
      if inDomOp op r then
        match specOp op r with
        | some (.ok (_, r')) => 1 + domPrefixM ops (rest.set k r')
        | _ => 0
      else 0

/-- Length of the longest input (the loops of every reader get `maxLen + 1` units of fuel). -/
def maxLen : List (List UInt8) → Nat
  | [] => 0
  | x :: xs => max x.length (maxLen xs)

/-- The initial states of a case line: one reader per (schedule, input). -/
def initMulti (BUF : Nat) (ins : List (Sched × List UInt8)) : List RState :=
  ins.map (fun p => init BUF (mkEvents p.1 p.2 #[]))

end Rlib.Reader
