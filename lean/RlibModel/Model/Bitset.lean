import RlibModel.Model.Common
/-
Model of `rlib/bitset/src/{bitset.rs, bits_iter.rs}`  (property C12).

`Bitset<N>` is `data : [u64; N]`.  Here: `Bits = List Nat`, one entry per word, every entry
`< 2^64` (invariant `WF`, proved to be preserved by every operation in `Lemmas/Bitset.lean`).

* word operations are `Nat.lor/land/xor/shiftLeft/shiftRight`; `!w` on a `u64` is `2^64 - 1 - w`;
* every slice index `self.data[i]` is `b[i]?` with `none ↦ panic:index` (`getW`);
* every `usize` addition / multiplication that the code performs goes through `ckU`
  (`panic:overflow` when the result does not fit 64 bits; the harness builds rlib with
  `overflow-checks = true`).  The theorems state the guard `64 * N + 64 ≤ 2^64` where it is needed;
* `count_ones` / `trailing_zeros` are `popcnt` / `tz`, defined by recursion over the 64 bits
  (their agreement with the intrinsics is std's, exercised by the correspondence run);
* the `while` loop of `BitsIter::next` takes fuel; `next_fuel`/`iter_spec` prove that
  `N + 1` steps are always enough, so termination is a theorem.

The second half of the file is the *specification*: a set of indices given by its membership
function `Spec = Nat → Bool` on `[0, 64 N)`, and the history runner used by the driver
(`Op`, `run`, `observe` and their spec-side twins).
-/
namespace Rlib.Bitset

/-- The words of a `Bitset<N>` (`data : [u64; N]`), least significant word first. -/
abbrev Bits := List Nat

/-- `!w` on a `u64`. -/
def not64 (w : Nat) : Nat := 2 ^ 64 - 1 - w

/-- A `usize` result of `+` / `*`: panics with overflow when it does not fit 64 bits. -/
def ckU (z : Nat) : Except Panic Nat := if z < 2 ^ 64 then .ok z else .error .overflow

/-- `self.data[i]` with Rust's bounds check. -/
def getW (b : Bits) (i : Nat) : Except Panic Nat :=
  match b[i]? with
  | some w => .ok w
  | none => .error .index

/-- `Bitset::new()`: `[0; N]`. -/
def new (n : Nat) : Bits := List.replicate n 0

/-- `Bitset::from_u64(x)`: `let mut data = [0; N]; data[0] = x;` (index panic when `N = 0`). -/
def fromU64 (n x : Nat) : Except Panic Bits :=
  if 0 < n then .ok (List.set (List.replicate n 0) 0 x) else .error .index

/-- `set`: `self.data[x / 64] |= 1u64 << (x % 64)`. -/
def set (b : Bits) (x : Nat) : Except Panic Bits :=
  match b[x / 64]? with
  | some w => .ok (List.set b (x / 64) (w ||| (1 <<< (x % 64))))
  | none => .error .index

/-- `remove`: `self.data[x / 64] &= !(1u64 << (x % 64))`. -/
def remove (b : Bits) (x : Nat) : Except Panic Bits :=
  match b[x / 64]? with
  | some w => .ok (List.set b (x / 64) (w &&& not64 (1 <<< (x % 64))))
  | none => .error .index

/-- `flip`: `self.data[x / 64] ^= 1u64 << (x % 64)`. -/
def flip (b : Bits) (x : Nat) : Except Panic Bits :=
  match b[x / 64]? with
  | some w => .ok (List.set b (x / 64) (w ^^^ (1 <<< (x % 64))))
  | none => .error .index

/-- `test`: `((self.data[x / 64] >> (x % 64)) & 1) > 0`. -/
def test (b : Bits) (x : Nat) : Except Panic Bool :=
  match b[x / 64]? with
  | some w => .ok (decide (((w >>> (x % 64)) &&& 1) > 0))
  | none => .error .index

/-- `clear`: `self.data.fill(0)`. -/
def clear (b : Bits) : Bits := b.map (fun _ => 0)

/-- `&a & &b` (macro `bin_op!`): word-wise over `self.data.iter().zip(rhs.data.iter())`. -/
def band (a b : Bits) : Bits := List.zipWith (· &&& ·) a b
/-- `&a | &b`. -/
def bor (a b : Bits) : Bits := List.zipWith (· ||| ·) a b
/-- `&a ^ &b`. -/
def bxor (a b : Bits) : Bits := List.zipWith (· ^^^ ·) a b

/-- `a &= &b` (macro `bin_op_assign!`): `for (x, y) in self.data.iter_mut().zip(rhs.data.iter())`. -/
def bandAssign (a b : Bits) : Bits := List.zipWith (fun x y => x &&& y) a b
/-- `a |= &b`. -/
def borAssign (a b : Bits) : Bits := List.zipWith (fun x y => x ||| y) a b
/-- `a ^= &b`. -/
def bxorAssign (a b : Bits) : Bits := List.zipWith (fun x y => x ^^^ y) a b

/-- `!a`: `for x in self.data.iter_mut() { *x = !*x }`. -/
def bnot (b : Bits) : Bits := b.map not64

/-- `u64::count_ones` by recursion over `k` bits. -/
def popGo : Nat → Nat → Nat
  | 0, _ => 0
  | k + 1, w => w % 2 + popGo k (w / 2)

def popcnt (w : Nat) : Nat := popGo 64 w

/-- `u64::trailing_zeros` by recursion over `k` bits (`tz 0 = 64`). -/
def tzGo : Nat → Nat → Nat
  | 0, _ => 0
  | k + 1, w => if w % 2 = 1 then 0 else 1 + tzGo k (w / 2)

def tz (w : Nat) : Nat := tzGo 64 w

/-- `count`: `self.data.iter().map(|x| x.count_ones() as usize).sum::<usize>()`.  All partial
    sums are bounded by the total, so one overflow check of the total is the same as one per step. -/
def count (b : Bits) : Except Panic Nat := ckU ((b.map popcnt).sum)

/-- The `while` loop of `BitsIter::next`:
    `while idx < len*64 && (data[idx/64] >> (idx%64)) == 0 { idx = (idx + 64) & !63 }`.
    `lim` is `self.data.len() * 64`. Returns the index at which the loop stops. -/
def skipLoop (d : Bits) (lim : Nat) : Nat → Nat → Except Panic Nat
  | 0, _ => .error .fuel
  | fuel + 1, idx =>
    if idx < lim then
      match getW d (idx / 64) with
      | .error e => .error e
      | .ok w =>
        if w >>> (idx % 64) = 0 then
          match ckU (idx + 64) with
          | .error e => .error e
          | .ok s => skipLoop d lim fuel (s &&& not64 63)
        else .ok idx
    else .ok idx

/-- `BitsIter::next` from iterator position `idx`: the yielded item (if any) and the new position.
    The loop gets fuel `len + 1` (proved sufficient). -/
def next (d : Bits) (idx : Nat) : Except Panic (Option Nat × Nat) :=
  match ckU (d.length * 64) with
  | .error e => .error e
  | .ok lim =>
    match skipLoop d lim (d.length + 1) idx with
    | .error e => .error e
    | .ok i =>
      if i ≥ lim then .ok (none, i)
      else
        match getW d (i / 64) with
        | .error e => .error e
        | .ok w =>
          match ckU (i + tz (w >>> (i % 64))) with     -- self.idx += trailing_zeros
          | .error e => .error e
          | .ok i1 =>
            match ckU (i1 + 1) with                    -- self.idx += 1
            | .error e => .error e
            | .ok i2 => .ok (some (i2 - 1), i2)        -- Some(self.idx - 1)

/-- `iter.collect::<Vec<_>>()`: call `next` until it returns `None` (at most `fuel` items). -/
def collect (d : Bits) : Nat → Nat → Except Panic (List Nat)
  | 0, _ => .error .fuel
  | fuel + 1, idx =>
    match next d idx with
    | .error e => .error e
    | .ok (none, _) => .ok []
    | .ok (some v, idx') =>
      match collect d fuel idx' with
      | .error e => .error e
      | .ok vs => .ok (v :: vs)

/-- `b.iter_bits().collect()` (`BitsIter::new` starts at `idx = 0`). -/
def iterBits (d : Bits) : Except Panic (List Nat) := collect d (d.length * 64 + 1) 0

/-- `for _ in 0..k { it.next(); }` from iterator position `idx`: the position afterwards
    (a call that returns `None` leaves the position where the loop stopped, as in the code). -/
def advance (d : Bits) : Nat → Nat → Except Panic Nat
  | 0, idx => .ok idx
  | k + 1, idx =>
    match next d idx with
    | .error e => .error e
    | .ok (_, idx') => advance d k idx'

/-- What a `BitsIter` still yields after `k` calls of `next`: `it.collect()` on the advanced iterator.
    Every provided `Iterator` method the harness applies to an advanced iterator (`count`, `last`,
    `nth`, `by_ref`, `peekable`, `skip`, `size_hint`) is, by its std contract, a function of this list. -/
def restAfter (d : Bits) (k : Nat) : Except Panic (List Nat) :=
  match advance d k 0 with
  | .error e => .error e
  | .ok idx => collect d (d.length * 64 + 1) idx

/-- `(self.test(i) as i32).to_string()`. -/
def digit (t : Bool) : String := if t then "1" else "0"

/-- `Display`: `(0..N*64).map(|i| (self.test(i) as i32).to_string()).collect::<Vec<_>>().join("")`. -/
def display (b : Bits) : Except Panic String :=
  match ckU (b.length * 64) with
  | .error e => .error e
  | .ok n =>
    match (List.range n).mapM (fun i => (test b i).map digit) with
    | .error e => .error e
    | .ok ds => .ok (String.join ds)

/-- `Debug` is the same code as `Display`. -/
def debug (b : Bits) : Except Panic String := display b

/-- derived `PartialEq` on `[u64; N]`. -/
def beq (a b : Bits) : Bool := decide (a = b)

/-- The representation invariant: `N` words, each a `u64`. -/
def WF (n : Nat) (b : Bits) : Prop := b.length = n ∧ ∀ w ∈ b, w < 2 ^ 64

/-! ## Specification: a set of indices in `[0, 64 N)` given by its membership function -/

/-- A set of indices, given by its membership function (a structure rather than a bare function so
    that compiled code evaluates register look-ups once, when the set is built). -/
structure Spec where
  mem : Nat → Bool

namespace Spec
def empty : Spec := ⟨fun _ => false⟩
def fromU64 (v : Nat) : Spec := ⟨fun y => decide (y < 64) && v.testBit y⟩
def set (m : Spec) (x : Nat) : Spec := ⟨fun y => decide (y = x) || m.mem y⟩
def remove (m : Spec) (x : Nat) : Spec := ⟨fun y => !decide (y = x) && m.mem y⟩
def flip (m : Spec) (x : Nat) : Spec := ⟨fun y => Bool.xor (decide (y = x)) (m.mem y)⟩
def inter (a b : Spec) : Spec := ⟨fun y => a.mem y && b.mem y⟩
def union (a b : Spec) : Spec := ⟨fun y => a.mem y || b.mem y⟩
def symm (a b : Spec) : Spec := ⟨fun y => Bool.xor (a.mem y) (b.mem y)⟩
/-- complement inside `[0, 64 N)` (outside the range membership is never looked at). -/
def compl (m : Spec) : Spec := ⟨fun y => !m.mem y⟩
/-- the set whose characteristic words are `ws` (bit `y % 64` of word `y / 64`). -/
def ofWords (ws : List Nat) : Spec := ⟨fun y => (ws.getD (y / 64) 0).testBit (y % 64)⟩
/-- the members below `n`, ascending. -/
def members (n : Nat) (m : Spec) : List Nat := (List.range n).filter m.mem
def count (n : Nat) (m : Spec) : Nat := (members n m).length
def display (n : Nat) (m : Spec) : String := String.join ((List.range n).map (fun y => digit (m.mem y)))
/-- the characteristic vector on `[0, n)`. -/
def table (n : Nat) (m : Spec) : List Bool := (List.range n).map m.mem
/-- two sets are equal when they have the same members below `n`. -/
def eq (n : Nat) (a b : Spec) : Bool := decide (table n a = table n b)
end Spec

/-! ## Histories over named bitsets (what the correspondence harness runs) -/

/-- One step of a history. Registers are numbered; `d` is the destination. -/
inductive Op where
  | new (d : Nat)                    -- regs[d] = Bitset::new()
  | fromU64 (d v : Nat)              -- regs[d] = Bitset::from_u64(v)
  | set (d x : Nat)                  -- regs[d].set(x)
  | remove (d x : Nat)
  | flip (d x : Nat)
  | clear (d : Nat)
  | and (d a b : Nat)                -- regs[d] = &regs[a] & &regs[b]
  | or (d a b : Nat)
  | xor (d a b : Nat)
  | andA (d s : Nat)                 -- regs[d] &= &regs[s].clone()
  | orA (d s : Nat)
  | xorA (d s : Nat)
  | not (d s : Nat)                  -- regs[d] = !regs[s].clone()
  | clone (d s : Nat)                -- regs[d] = regs[s].clone()
  | test (r x : Nat)                 -- log.push(regs[r].test(x))
  | load (d : Nat) (ws : List Nat)   -- regs[d] = new(); then regs[d].set(i) for every set bit i of the words, ascending
  | obs (r : Nat)                    -- olog.push(observation of regs[r] now): a mid-history observation, the state is not touched
  deriving Repr, DecidableEq

/-- `regs[r]` of the harness's `Vec<Bitset<N>>`. -/
def getReg (regs : List Bits) (r : Nat) : Except Panic Bits :=
  match regs[r]? with
  | some b => .ok b
  | none => .error .index

/-- `regs[d] = v` of the harness's vector. -/
def putReg (regs : List Bits) (d : Nat) (v : Bits) : Except Panic (List Bits) :=
  if d < regs.length then .ok (List.set regs d v) else .error .index

/-- `for x in xs { b.set(x) }`. -/
def setAll : Bits → List Nat → Except Panic Bits
  | b, [] => .ok b
  | b, x :: xs =>
    match set b x with
    | .error e => .error e
    | .ok b' => setAll b' xs

/-- The harness's `load`: a fresh bitset, then `set(64 j + i)` for every set bit `i` of word `j`, ascending. -/
def loadBits (n : Nat) (ws : List Nat) : Except Panic Bits :=
  setAll (new n) (Spec.members (64 * ws.length) (Spec.ofWords ws))

/-- One iterator probe: `k` elements were taken with `next`; `rest` is what the iterator yields afterwards. -/
structure Probe where
  k : Nat
  rest : List Nat
  deriving Repr, DecidableEq

/-- the prefix lengths probed for a set with `l` members: 0, 1, 2, half way, `l - 1`, `l` (just exhausted: the last
    `next` returned the last member) and `l + 1` (`next` has already answered `None` once). -/
def probeKs (l : Nat) : List Nat := [0, 1, 2, l / 2, l - 1, l, l + 1].eraseDups

/-- What the harness observes of one bitset: `test` on every index, `count`, the collected
    `iter_bits`, the `Display` and the `Debug` rendering, and the iterator probes. -/
structure RegObs where
  tests : List Bool
  count : Nat
  iter : List Nat
  disp : String
  dbg : String
  probes : List Probe
  deriving Repr, DecidableEq

def observeReg (n : Nat) (b : Bits) : Except Panic RegObs :=
  match (List.range (64 * n)).mapM (test b) with
  | .error e => .error e
  | .ok ts =>
    match count b with
    | .error e => .error e
    | .ok c =>
      match iterBits b with
      | .error e => .error e
      | .ok it =>
        match display b with
        | .error e => .error e
        | .ok ds =>
          match debug b with
          | .error e => .error e
          | .ok dg =>
            match (probeKs it.length).mapM (fun k => (restAfter b k).map (Probe.mk k)) with
            | .error e => .error e
            | .ok ps => .ok ⟨ts, c, it, ds, dg, ps⟩

/-- The state of a history: the register file, the `test` log, and the log of mid-history observations (`obs r`). -/
structure St where
  regs : List Bits
  log : List Bool
  olog : List RegObs
  deriving Repr, DecidableEq

def bin1 (s : St) (d r : Nat) (f : Bits → Except Panic Bits) : Except Panic St :=
  match getReg s.regs r with
  | .error e => .error e
  | .ok b =>
    match f b with
    | .error e => .error e
    | .ok b' =>
      match putReg s.regs d b' with
      | .error e => .error e
      | .ok regs' => .ok { s with regs := regs' }

def bin2 (s : St) (d a b : Nat) (f : Bits → Bits → Bits) : Except Panic St :=
  match getReg s.regs a with
  | .error e => .error e
  | .ok x =>
    match getReg s.regs b with
    | .error e => .error e
    | .ok y =>
      match putReg s.regs d (f x y) with
      | .error e => .error e
      | .ok regs' => .ok { s with regs := regs' }

/-- One step of the model on `Bitset<n>` registers. -/
def step (n : Nat) (s : St) : Op → Except Panic St
  | .new d => bin1 s d d (fun _ => .ok (new n))
  | .fromU64 d v => bin1 s d d (fun _ => fromU64 n v)
  | .set d x => bin1 s d d (fun b => set b x)
  | .remove d x => bin1 s d d (fun b => remove b x)
  | .flip d x => bin1 s d d (fun b => flip b x)
  | .clear d => bin1 s d d (fun b => .ok (clear b))
  | .and d a b => bin2 s d a b band
  | .or d a b => bin2 s d a b bor
  | .xor d a b => bin2 s d a b bxor
  | .andA d r => bin2 s d d r bandAssign
  | .orA d r => bin2 s d d r borAssign
  | .xorA d r => bin2 s d d r bxorAssign
  | .not d r => bin1 s d r (fun b => .ok (bnot b))
  | .clone d r => bin1 s d r (fun b => .ok b)
  | .test r x =>
    match getReg s.regs r with
    | .error e => .error e
    | .ok b =>
      match test b x with
      | .error e => .error e
      | .ok t => .ok { s with log := s.log ++ [t] }
  | .load d ws => bin1 s d d (fun _ => loadBits n ws)
  | .obs r =>
    match getReg s.regs r with
    | .error e => .error e
    | .ok b =>
      match observeReg n b with
      | .error e => .error e
      | .ok o => .ok { s with olog := s.olog ++ [o] }

def run (n : Nat) (s : St) : List Op → Except Panic St
  | [] => .ok s
  | op :: ops =>
    match step n s op with
    | .error e => .error e
    | .ok s' => run n s' ops

/-- derived `PartialEq::ne` (the provided method: `!(a == b)`). -/
def bitsNe (a b : Bits) : Bool := !beq a b

/-- Final observation of a history: every register, the `==` matrix, the `!=` matrix, the `test` log,
    the mid-history observations. -/
structure Obs where
  regs : List RegObs
  eqs : List (List Bool)
  nes : List (List Bool)
  log : List Bool
  olog : List RegObs
  deriving Repr, DecidableEq

def observe (n : Nat) (s : St) : Except Panic Obs :=
  match s.regs.mapM (observeReg n) with
  | .error e => .error e
  | .ok ros => .ok ⟨ros, s.regs.map (fun a => s.regs.map (fun b => beq a b)),
      s.regs.map (fun a => s.regs.map (fun b => bitsNe a b)), s.log, s.olog⟩

/-- The whole case: `k` registers `Bitset::<n>::new()`, run the history, observe. -/
def runCase (n k : Nat) (ops : List Op) : Except Panic Obs :=
  match run n ⟨List.replicate k (new n), [], []⟩ ops with
  | .error e => .error e
  | .ok s => observe n s

/-! ### The same on the specification side -/

structure SpecSt where
  regs : List Spec
  log : List Bool
  olog : List Spec      -- the sets observed mid-history by `obs r`, in order

def specGet (ms : List Spec) (r : Nat) : Spec := ms.getD r Spec.empty

def specObserveReg (n : Nat) (m : Spec) : RegObs :=
  let ms := Spec.members (64 * n) m
  let d := Spec.display (64 * n) m
  ⟨Spec.table (64 * n) m, ms.length, ms, d, d, (probeKs ms.length).map (fun k => ⟨k, ms.drop k⟩)⟩


def specStep (s : SpecSt) : Op → SpecSt
  | .new d => { s with regs := List.set s.regs d Spec.empty }
  | .fromU64 d v => { s with regs := List.set s.regs d (Spec.fromU64 v) }
  | .set d x => { s with regs := List.set s.regs d (Spec.set (specGet s.regs d) x) }
  | .remove d x => { s with regs := List.set s.regs d (Spec.remove (specGet s.regs d) x) }
  | .flip d x => { s with regs := List.set s.regs d (Spec.flip (specGet s.regs d) x) }
  | .clear d => { s with regs := List.set s.regs d Spec.empty }
  | .and d a b => { s with regs := List.set s.regs d (Spec.inter (specGet s.regs a) (specGet s.regs b)) }
  | .or d a b => { s with regs := List.set s.regs d (Spec.union (specGet s.regs a) (specGet s.regs b)) }
  | .xor d a b => { s with regs := List.set s.regs d (Spec.symm (specGet s.regs a) (specGet s.regs b)) }
  | .andA d r => { s with regs := List.set s.regs d (Spec.inter (specGet s.regs d) (specGet s.regs r)) }
  | .orA d r => { s with regs := List.set s.regs d (Spec.union (specGet s.regs d) (specGet s.regs r)) }
  | .xorA d r => { s with regs := List.set s.regs d (Spec.symm (specGet s.regs d) (specGet s.regs r)) }
  | .not d r => { s with regs := List.set s.regs d (Spec.compl (specGet s.regs r)) }
  | .clone d r => { s with regs := List.set s.regs d (specGet s.regs r) }
  | .test r x => { s with log := s.log ++ [(specGet s.regs r).mem x] }
  | .load d ws => { s with regs := List.set s.regs d (Spec.ofWords ws) }
  | .obs r => { s with olog := s.olog ++ [specGet s.regs r] }     -- the set as it is now; rendered at the end

def specRun (s : SpecSt) (ops : List Op) : SpecSt := ops.foldl specStep s

def specObserve (n : Nat) (s : SpecSt) : Obs :=
  let tabs := s.regs.map (Spec.table (64 * n))     -- each characteristic vector is computed once
  ⟨s.regs.map (specObserveReg n), tabs.map (fun a => tabs.map (fun b => decide (a = b))),
    tabs.map (fun a => tabs.map (fun b => !decide (a = b))), s.log, s.olog.map (specObserveReg n)⟩

def specRunCase (n k : Nat) (ops : List Op) : Obs :=
  specObserve n (specRun ⟨List.replicate k Spec.empty, [], []⟩ ops)

/-- The stated domain of C12 for one step: `N ≥ 1`, registers exist, positions below `64 N`,
    constructor words are `u64`s. -/
def Op.inDomain (n k : Nat) : Op → Bool
  | .new d => decide (d < k)
  | .fromU64 d v => decide (d < k) && decide (v < 2 ^ 64)
  | .set d x => decide (d < k) && decide (x < 64 * n)
  | .remove d x => decide (d < k) && decide (x < 64 * n)
  | .flip d x => decide (d < k) && decide (x < 64 * n)
  | .clear d => decide (d < k)
  | .and d a b => decide (d < k) && decide (a < k) && decide (b < k)
  | .or d a b => decide (d < k) && decide (a < k) && decide (b < k)
  | .xor d a b => decide (d < k) && decide (a < k) && decide (b < k)
  | .andA d r => decide (d < k) && decide (r < k)
  | .orA d r => decide (d < k) && decide (r < k)
  | .xorA d r => decide (d < k) && decide (r < k)
  | .not d r => decide (d < k) && decide (r < k)
  | .clone d r => decide (d < k) && decide (r < k)
  | .test r x => decide (r < k) && decide (x < 64 * n)
  | .load d ws => decide (d < k) && decide (ws.length ≤ n) && ws.all (fun w => decide (w < 2 ^ 64))
  | .obs r => decide (r < k) && decide (64 * n + 64 ≤ 2 ^ 64)    -- observing needs the capacity guard `Cap n`

/-- The capacity guard under which no `usize` computation of the code overflows
    (every `[u64; N]` that fits a 64-bit address space satisfies it with a wide margin). -/
def Cap (n : Nat) : Prop := 64 * n + 64 ≤ 2 ^ 64

/-- The refinement relation of C12: `b` is a well-formed `Bitset<n>` and `test` answers exactly the
    membership function `m` on `[0, 64 n)`. -/
def Abs (n : Nat) (b : Bits) (m : Spec) : Prop :=
  WF n b ∧ ∀ y, y < 64 * n → test b y = .ok (m.mem y)

/-- Register files related pointwise. -/
def RegsAbs (n : Nat) : List Bits → List Spec → Prop
  | [], [] => True
  | b :: bs, m :: ms => Abs n b m ∧ RegsAbs n bs ms
  | _, _ => False

/-! ### Rendering of observations (shared by model side and spec side of the driver) -/

/-- four booleans, least significant first, as one lower-case hex digit -/
def nibble (a b c d : Bool) : Char :=
  hexChar ((if a then 1 else 0) + (if b then 2 else 0) + (if c then 4 else 0) + (if d then 8 else 0))

def packHex : List Bool → List Char
  | a :: b :: c :: d :: rest => nibble a b c d :: packHex rest
  | [] => []
  | [a] => [nibble a false false false]
  | [a, b] => [nibble a b false false]
  | [a, b, c] => [nibble a b c false]

def showBits01 (bs : List Bool) : String := String.ofList (bs.map (fun b => if b then '1' else '0'))

/-- `l` is strictly ascending, starts at or above `lo`, and stays below `n`. -/
def isAscBelow (n : Nat) : Nat → List Nat → Bool
  | _, [] => true
  | lo, x :: xs => decide (lo ≤ x) && decide (x < n) && isAscBelow n (x + 1) xs

/-- membership flags of an ascending list on `[i, i + k)`. -/
def markAsc : Nat → Nat → List Nat → List Bool
  | _, 0, _ => []
  | i, k + 1, [] => false :: markAsc (i + 1) k []
  | i, k + 1, x :: xs => if x = i then true :: markAsc (i + 1) k xs else false :: markAsc (i + 1) k (x :: xs)

/-- `[a,b,c]`, or `^<hex of the member set>` when the list is strictly ascending and below `n`
    (a strictly ascending list is determined by its set of elements, so nothing is lost). -/
def showIter (n : Nat) (l : List Nat) : String :=
  if isAscBelow n 0 l then "^" ++ String.ofList (packHex (markAsc 0 n l)) else showNats l

def showOptNat : Option Nat → String
  | none => "-"
  | some x => toString x

/-- the `nth` arguments probed on an iterator with `rem` remaining elements -/
def probeJs (rem : Nat) : List Nat := [0, 1, rem - 1, rem].eraseDups

/-! #### std's provided `Iterator` methods as functions of the list the iterator still yields

The harness calls every consuming / short-circuiting provided method of `Iterator` on a partially consumed `BitsIter`.
Each is, by its std definition in terms of `next`, a function of `rest` (the list `next` still yields); these are the
definitions, executed on both the model side (`rest` computed by stepping the model's `next`) and the spec side
(`rest = members.drop k`; theorem `iter_remaining`). -/

/-- `Iterator::cmp`: lexicographic comparison. -/
def cmpLex : List Nat → List Nat → Ordering
  | [], [] => .eq
  | [], _ :: _ => .lt
  | _ :: _, [] => .gt
  | x :: xs, y :: ys => if x < y then .lt else if y < x then .gt else cmpLex xs ys

def showOrd : Ordering → String
  | .lt => "L"
  | .eq => "E"
  | .gt => "G"

def b01 (b : Bool) : String := if b then "1" else "0"

/-- number of elements left after a short-circuiting method stopped at the first element satisfying `p`
    (that element is consumed); nothing is left when no element satisfies `p`. -/
def leftAfter (p : Nat → Bool) (l : List Nat) : Nat := ((l.dropWhile (fun x => !p x)).drop 1).length

/-- `max_by_key(key)` / `max_by`: the LAST element with the maximal key. -/
def maxByKey (key : Nat → Nat) (l : List Nat) : Option Nat :=
  l.foldl (fun acc x => match acc with
    | none => some x
    | some a => if key a ≤ key x then some x else some a) none

/-- `min_by_key(key)` / `min_by`: the FIRST element with the minimal key. -/
def minByKey (key : Nat → Nat) (l : List Nat) : Option Nat :=
  l.foldl (fun acc x => match acc with
    | none => some x
    | some a => if key x < key a then some x else some a) none

/-- `min_by(|a, b| b.cmp(a))`: the FIRST element that is minimal in the reversed order, i.e. the first maximal element. -/
def minByRev (l : List Nat) : Option Nat :=
  l.foldl (fun acc x => match acc with
    | none => some x
    | some a => if a < x then some x else some a) none

/-- `step_by(3)`: the elements at positions 0, 3, 6, … (`c` = how many to skip before the next one taken). -/
def everyThird : Nat → List Nat → List Nat
  | _, [] => []
  | 0, x :: xs => x :: everyThird 2 xs
  | c + 1, _ :: xs => everyThird c xs

/-- `is_sorted()`: every element is `≤` its successor. -/
def isSortedLe : List Nat → Bool
  | x :: y :: r => decide (x ≤ y) && isSortedLe (y :: r)
  | _ => true

/-- the order-sensitive hash the harness folds: `a.wrapping_mul(31).wrapping_add(x + 1)` on `u64`, from 7. -/
def foldHash (l : List Nat) : Nat := (l.foldl (fun (a : UInt64) x => a * 31 + (x.toUInt64 + 1)) 7).toNat

/-- `reduce(|a, b| a.wrapping_mul(3).wrapping_add(b))` on `usize`. -/
def reduce3 : List Nat → Option Nat
  | [] => none
  | x :: xs => some (xs.foldl (fun (a : UInt64) b => a * 3 + b.toUInt64) x.toUInt64).toNat

/-- The provided methods on an iterator that still yields `rest`; `full` is what a fresh `iter_bits()` yields. -/
def showProvided (full rest : List Nat) : String :=
  let rem := rest.length
  let t := rest[rem / 2]?.getD 0                       -- pivot of the short-circuiting probes
  let ge := fun x => decide (t ≤ x)
  let c := cmpLex rest (rest.drop 1)                   -- against the same iterator advanced once more
  let third := everyThird 0 rest
  let ext := (2 ^ 64 - 1) :: rest                      -- `v = vec![usize::MAX]; v.extend(it)`
  let zipped := List.zip rest full
  let lg := toString (leftAfter ge rest)               -- what is left after stopping at the first element `≥ t`
  let fh := toString (foldHash rest)
  let anyGe := rest.any ge
  ":f=" ++ fh ++ ":fe=" ++ fh ++
  ":sm=" ++ toString rest.sum ++
  ":pr=" ++ (if rem ≤ 4 then toString (rest.foldl (· * ·) 1) else "-") ++
  ":mn=" ++ showOptNat rest.min? ++ ":mx=" ++ showOptNat rest.max? ++
  ":xk=" ++ showOptNat (maxByKey (· % 64) rest) ++ ":nk=" ++ showOptNat (minByKey (· % 64) rest) ++
  ":xb=" ++ showOptNat (maxByKey (· % 7) rest) ++ ":nb=" ++ showOptNat (minByRev rest) ++
  ":ps=" ++ showOptNat (rest.findIdx? ge) ++ ">" ++ lg ++
  ":fd=" ++ showOptNat (rest.find? (fun x => x % 64 = 63)) ++ ">" ++ toString (leftAfter (fun x => x % 64 = 63) rest) ++
  ":fm=" ++ showOptNat ((rest.find? (fun x => x % 2 = 1)).map (· * 2)) ++ ">" ++ toString (leftAfter (fun x => x % 2 = 1) rest) ++
  ":an=" ++ b01 anyGe ++ ">" ++ lg ++
  ":al=" ++ b01 (rest.all (fun x => !ge x)) ++ ">" ++ lg ++
  ":tf=" ++ (if anyGe then "-" else toString rem) ++ ">" ++ lg ++
  ":rd=" ++ showOptNat (reduce3 rest) ++
  ":cp=" ++ showOrd c ++ showOrd c ++ b01 (c == .eq) ++ b01 (c != .eq) ++ b01 (c == .lt) ++ b01 (c != .gt) ++
      b01 (c == .gt) ++ b01 (c != .lt) ++
  ":sb=" ++ toString third.length ++ ">" ++ showOptNat third.getLast? ++
  ":tk=" ++ showOptNat (rest.take 2).getLast? ++ ":sw=" ++ showOptNat (rest.dropWhile (fun x => !ge x)).head? ++
  ":ch=" ++ toString (rem + full.length) ++
  ":zp=" ++ (match zipped.getLast? with | some (a, b) => toString a ++ "&" ++ toString b | none => "-") ++
  ":en=" ++ (match rest.getLast? with | some x => toString (rem - 1) ++ "&" ++ toString x | none => "-") ++
  ":ex=" ++ toString ext.length ++ ">" ++ showOptNat ext.getLast? ++
  ":pt=" ++ toString (rest.filter (· % 2 = 0)).length ++ "&" ++ toString (rest.filter (· % 2 = 1)).length ++
  ":is=" ++ b01 (isSortedLe rest)

/-- the probes on which the harness also calls the methods of `showProvided`: the fresh iterator, one element taken
    (inside a word), half way, and just exhausted. -/
def providedKs (l : Nat) : List Nat := [0, 1, l / 2, l]

/-- One probe as the harness prints it.  With `rest` the remaining elements: `count()` is its length,
    `last()` its last element, `nth(j)` its `j`-th element leaving `rem - (j+1)` behind (`by_ref().count()`),
    `peekable().peek()` its head (and `count()` still the full length), `skip(k).count()` on a fresh
    iterator the same length, `size_hint` must bracket the length (`h=ok`), and (for the `k` of `providedKs`) the other
    provided methods as in `showProvided`.  `r=sfx` says that `rest` is the collected list `full` (printed as `i=`) without its first `k` entries. -/
def showProbe (n : Nat) (full : List Nat) (p : Probe) : String :=
  let rem := p.rest.length
  "k=" ++ toString p.k ++ ":c=" ++ toString rem ++ ":l=" ++ showOptNat p.rest.getLast? ++
  ":r=" ++ (if p.rest = full.drop p.k then "sfx" else showIter n p.rest) ++
  ":n=" ++ "/".intercalate ((probeJs rem).map (fun j =>
      toString j ++ ">" ++ showOptNat p.rest[j]? ++ ">" ++ toString (rem - (j + 1)))) ++
  ":p=" ++ showOptNat p.rest.head? ++ ">" ++ toString rem ++ ":s=" ++ toString rem ++ ":h=ok" ++
  (if (providedKs full.length).contains p.k then showProvided full p.rest else "")

def showRegObs (n : Nat) (o : RegObs) : String :=
  "t=" ++ String.ofList (packHex o.tests) ++ ",c=" ++ toString o.count ++ ",i=" ++ showIter (64 * n) o.iter ++
  ",d=" ++ o.disp ++ ",g=" ++ (if o.dbg = o.disp then "same" else o.dbg) ++
  ",x=ok" ++      -- the harness-side checks of the other trait entry points (not modelled: an oracle inside the harness)
  ",it=" ++ "+".intercalate (o.probes.map (showProbe (64 * n) o.iter))

def showObs (n : Nat) (o : Obs) : String :=
  " ".intercalate (o.regs.map (showRegObs n)) ++ " eq=" ++ "/".intercalate (o.eqs.map showBits01) ++
  " ne=" ++ "/".intercalate (o.nes.map showBits01) ++
  " log=" ++ (if o.log.isEmpty then "-" else showBits01 o.log) ++
  " obs=" ++ (if o.olog.isEmpty then "-" else "#".intercalate (o.olog.map (showRegObs n)))

/-! ### Array-backed twins of the observation path (what the driver executes; wave 4)

`Bits = List Nat`, so `b[x / 64]?` walks `x / 64` cells: observing one `Bitset<513>` (32832 indices, three passes on the model side and three on
the specification side) costs ~50 million list steps.  The definitions below are the same functions on `b.toArray` (constant-time indexing); nothing
above is changed.  `Lemmas/Bitset.lean` proves each equal to its list original (`test_eq_testA … observeReg_eq_fast`, `runCaseFast_eq`,
`specRunCaseFast_eq`), and `Props/C12.lean` restates the driver's tie for them (`fast_path_eq`, `history_observed_fast`); the driver calls
`runCaseFast` / `specRunCaseFast`. -/

/-- `test` on the words as an array. -/
def testA (a : Array Nat) (x : Nat) : Except Panic Bool :=
  match a[x / 64]? with
  | some w => .ok (decide (((w >>> (x % 64)) &&& 1) > 0))
  | none => .error .index

/-- `display` on the words as an array. -/
def displayA (a : Array Nat) : Except Panic String :=
  match ckU (a.size * 64) with
  | .error e => .error e
  | .ok n =>
    match (List.range n).mapM (fun i => (testA a i).map digit) with
    | .error e => .error e
    | .ok ds => .ok (String.join ds)

/-- `getW` on the words as an array. -/
def getWA (a : Array Nat) (i : Nat) : Except Panic Nat :=
  match a[i]? with
  | some w => .ok w
  | none => .error .index

/-- `skipLoop` on the words as an array. -/
def skipLoopA (d : Array Nat) (lim : Nat) : Nat → Nat → Except Panic Nat
  | 0, _ => .error .fuel
  | fuel + 1, idx =>
    if idx < lim then
      match getWA d (idx / 64) with
      | .error e => .error e
      | .ok w =>
        if w >>> (idx % 64) = 0 then
          match ckU (idx + 64) with
          | .error e => .error e
          | .ok s => skipLoopA d lim fuel (s &&& not64 63)
        else .ok idx
    else .ok idx

/-- `next` on the words as an array. -/
def nextA (d : Array Nat) (idx : Nat) : Except Panic (Option Nat × Nat) :=
  match ckU (d.size * 64) with
  | .error e => .error e
  | .ok lim =>
    match skipLoopA d lim (d.size + 1) idx with
    | .error e => .error e
    | .ok i =>
      if i ≥ lim then .ok (none, i)
      else
        match getWA d (i / 64) with
        | .error e => .error e
        | .ok w =>
          match ckU (i + tz (w >>> (i % 64))) with
          | .error e => .error e
          | .ok i1 =>
            match ckU (i1 + 1) with
            | .error e => .error e
            | .ok i2 => .ok (some (i2 - 1), i2)

/-- `collect` on the words as an array. -/
def collectA (d : Array Nat) : Nat → Nat → Except Panic (List Nat)
  | 0, _ => .error .fuel
  | fuel + 1, idx =>
    match nextA d idx with
    | .error e => .error e
    | .ok (none, _) => .ok []
    | .ok (some v, idx') =>
      match collectA d fuel idx' with
      | .error e => .error e
      | .ok vs => .ok (v :: vs)

/-- `advance` on the words as an array. -/
def advanceA (d : Array Nat) : Nat → Nat → Except Panic Nat
  | 0, idx => .ok idx
  | k + 1, idx =>
    match nextA d idx with
    | .error e => .error e
    | .ok (_, idx') => advanceA d k idx'

/-- `restAfter` on the words as an array. -/
def restAfterA (d : Array Nat) (k : Nat) : Except Panic (List Nat) :=
  match advanceA d k 0 with
  | .error e => .error e
  | .ok idx => collectA d (d.size * 64 + 1) idx

/-- `observeReg` with the words converted to an array once (`Debug` is the same code as `Display`: rendered once). -/
def observeRegFast (n : Nat) (b : Bits) : Except Panic RegObs :=
  let a := b.toArray
  match (List.range (64 * n)).mapM (testA a) with
  | .error e => .error e
  | .ok ts =>
    match count b with
    | .error e => .error e
    | .ok c =>
      match collectA a (a.size * 64 + 1) 0 with
      | .error e => .error e
      | .ok it =>
        match displayA a with
        | .error e => .error e
        | .ok ds =>
          match (probeKs it.length).mapM (fun k => (restAfterA a k).map (Probe.mk k)) with
          | .error e => .error e
          | .ok ps => .ok ⟨ts, c, it, ds, ds, ps⟩

/-- `Spec.ofWords` with the words converted to an array once. -/
def ofWordsA (ws : List Nat) : Spec :=
  let a := ws.toArray
  ⟨fun y => (a.getD (y / 64) 0).testBit (y % 64)⟩

/-- `loadBits` enumerating the members through `ofWordsA`. -/
def loadBitsFast (n : Nat) (ws : List Nat) : Except Panic Bits :=
  setAll (new n) (Spec.members (64 * ws.length) (ofWordsA ws))

/-- `step` with `observeRegFast` / `loadBitsFast` in the two places where `step` walks lists index by index. -/
def stepFast (n : Nat) (s : St) : Op → Except Panic St
  | .load d ws => bin1 s d d (fun _ => loadBitsFast n ws)
  | .obs r =>
    match getReg s.regs r with
    | .error e => .error e
    | .ok b =>
      match observeRegFast n b with
      | .error e => .error e
      | .ok o => .ok { s with olog := s.olog ++ [o] }
  | op => step n s op

def runFast (n : Nat) (s : St) : List Op → Except Panic St
  | [] => .ok s
  | op :: ops =>
    match stepFast n s op with
    | .error e => .error e
    | .ok s' => runFast n s' ops

def observeFast (n : Nat) (s : St) : Except Panic Obs :=
  match s.regs.mapM (observeRegFast n) with
  | .error e => .error e
  | .ok ros => .ok ⟨ros, s.regs.map (fun a => s.regs.map (fun b => beq a b)),
      s.regs.map (fun a => s.regs.map (fun b => bitsNe a b)), s.log, s.olog⟩

/-- `runCase` through the array-backed observation path (`runCaseFast_eq`: the same function). -/
def runCaseFast (n k : Nat) (ops : List Op) : Except Panic Obs :=
  match runFast n ⟨List.replicate k (new n), [], []⟩ ops with
  | .error e => .error e
  | .ok s => observeFast n s

/-- `specStep` with `ofWordsA` for `load`. -/
def specStepFast (s : SpecSt) : Op → SpecSt
  | .load d ws => { s with regs := List.set s.regs d (ofWordsA ws) }
  | op => specStep s op

def specRunFast (s : SpecSt) (ops : List Op) : SpecSt := ops.foldl specStepFast s

/-- `specRunCase` with array-backed `load`ed sets (`specRunCaseFast_eq`: the same function). -/
def specRunCaseFast (n k : Nat) (ops : List Op) : Obs :=
  specObserve n (specRunFast ⟨List.replicate k Spec.empty, [], []⟩ ops)

end Rlib.Bitset
