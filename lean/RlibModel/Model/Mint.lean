import RlibModel.Model.Common
/-
Model of `rlib/mint/src/lib.rs` (`Modular<const M: u32>`), core Lean only.

A `Modular<M>` value is represented by its only field `v : u32`, here a mathematical `Int`;
the modulus `M` (a `u32` const generic in Rust) is an explicit `Int` parameter.

Every machine step of the Rust code is written through an explicit width check:

* `x as T`   (never panics, wraps)                       : `wrapS 32`, `wrapU 32`
* `+ - *` and `/` in `u32`, `i32`, `i64`                  : `checked` / `fits`  ⇒ `panic:overflow`
  (the harness builds rlib with `overflow-checks = true`, so a wrapped intermediate shows up
   as a panic; the theorems of C06 say that for `2 ≤ M < 2^31` none of these ever fires)
* `%` / `/` by zero                                       : `panic:divzero`
* Rust `/`, `%` on signed integers truncate               : `Int.tdiv`, `Int.tmod`

The loops (`pow`, `inv`) are defined by well-founded recursion, so Lean has checked that they
terminate for *all* inputs (no fuel).
-/
namespace Rlib.Mint

def u32 : IntTy := ⟨false, 32⟩
def i32 : IntTy := ⟨true, 32⟩
def i64 : IntTy := ⟨true, 64⟩
def u64 : IntTy := ⟨false, 64⟩

/-- `pub fn new(v: i64) -> Self`
    ```
    let mut v = (v % M as i64) as i32;      // i64 remainder (M as i64 is lossless), narrowing cast
    if v < 0 { v += M as i32; }             // `M as i32` is a wrapping cast, `+=` is checked i32
    Self { v: v as u32 }                    // wrapping cast
    ``` -/
def new (M : Int) (v : Int) : Except Panic Int :=
  if M = 0 then .error .divzero
  else
    let r := wrapS 32 (v.tmod M)
    if r < 0 then do
      let r' ← checked i32 (r + wrapS 32 M)
      pure (wrapU 32 r')
    else
      pure (wrapU 32 r)

/-- `fn add(self, rhs)`: `let mut v = self.v + rhs.v; if v >= M { v -= M }` in `u32`. -/
def add (M : Int) (a b : Int) : Except Panic Int := do
  let v ← checked u32 (a + b)
  if v ≥ M then checked u32 (v - M) else pure v

/-- `fn sub(self, rhs)`: `let mut v = self.v + M - rhs.v; if v >= M { v -= M }` in `u32`. -/
def sub (M : Int) (a b : Int) : Except Panic Int := do
  let s ← checked u32 (a + M)
  let v ← checked u32 (s - b)
  if v ≥ M then checked u32 (v - M) else pure v

/-- `fn neg(self)`: `if self.v == 0 { self } else { M - self.v }` in `u32`. -/
def neg (M : Int) (a : Int) : Except Panic Int :=
  if a = 0 then pure a else checked u32 (M - a)

/-- `fn mul(self, rhs)`: `Self::new(self.v as i64 * rhs.v as i64)` (widening casts are lossless). -/
def mul (M : Int) (a b : Int) : Except Panic Int := do
  let p ← checked i64 (a * b)
  new M p

/-- The body of `pow`:
    ```
    while d != 0 { if d % 2 == 1 { res *= a; }  a *= a;  d /= 2; }   res
    ```
    (`a *= a` is executed in the last round too, exactly as in the Rust code). -/
def powLoop (M : Int) (res a : Int) (d : Nat) : Except Panic Int :=
  if _h : d = 0 then .ok res
  else
    match (if d % 2 = 1 then mul M res a else .ok res) with
    | .error e => .error e
    | .ok res' =>
      match mul M a a with
      | .error e => .error e
      | .ok a' => powLoop M res' a' (d / 2)
termination_by d
decreasing_by omega

/-- `pub fn pow(&self, d: u64)`; `res` starts as `Self::ONE = { v: 1 }`. -/
def pow (M : Int) (a : Int) (d : Nat) : Except Panic Int := powLoop M 1 a d

/-- The body of `inv` on `i32` values:
    ```
    while a != 0 { let k = b / a; b -= k * a; x -= k * y; swap(a, b); swap(x, y); }   x
    ```
    Each of the five arithmetic results is checked against `i32` (`b / a` overflows for
    `MIN / -1`).  Well-founded on `|a|`: the new `a` is `b - (b / a) * a = b % a`. -/
def invLoop (a b x y : Int) : Except Panic Int :=
  if _h : a = 0 then .ok x
  else
    let k := b.tdiv a
    if ¬ i32.fits k then .error .overflow else
    if ¬ i32.fits (k * a) then .error .overflow else
    if ¬ i32.fits (b - k * a) then .error .overflow else
    if ¬ i32.fits (k * y) then .error .overflow else
    if ¬ i32.fits (x - k * y) then .error .overflow else
    invLoop (b - k * a) a y (x - k * y)
termination_by a.natAbs
decreasing_by
  have e : b - b.tdiv a * a = b.tmod a := by rw [Int.tmod_def, Int.mul_comm]
  rw [e, Int.natAbs_tmod]
  exact Nat.mod_lt _ (by omega)

/-- `pub fn inv(&self)`: `a = self.v as i32; b = M as i32; x = 0; y = 1; loop; Self::new(x as i64)`. -/
def inv (M : Int) (a : Int) : Except Panic Int := do
  let x ← invLoop (wrapS 32 a) (wrapS 32 M) 0 1
  new M x

/-- `fn div(self, rhs)`: `self * rhs.inv()`. -/
def div (M : Int) (a b : Int) : Except Panic Int := do
  let i ← inv M b
  mul M a i

/-- derived `PartialEq`: compares the field. -/
def eq (a b : Int) : Bool := a == b

/-- `Display` / `Debug` / `Writable`: all three print the `u32` field in decimal. -/
def render (a : Int) : String := toString a.toNat

/-- `Readable`: `Self::new(reader.read::<i64>())`; `t` is the value of the decimal token
    (the token → `i64` step is `rlib_io`'s, property C08). -/
def readTok (M : Int) (t : Int) : Except Panic Int := new M t

/-! ### Executable specification: the integers modulo `M` -/

/-- canonical representative of `z` modulo `M` -/
def red (M z : Int) : Int := z % M

def specNew (M v : Int) : Int := red M v
def specAdd (M a b : Int) : Int := red M (a + b)
def specSub (M a b : Int) : Int := red M (a - b)
def specNeg (M a : Int) : Int := red M (-a)
def specMul (M a b : Int) : Int := red M (a * b)

/-- `a ^ d mod M` computed most-significant-bit first over plain integers (a different
    algorithm from the loop in `pow`, executable for exponents up to `u64::MAX`);
    `Lemmas/Mint.lean` proves `specPow M a d = a ^ d % M`. -/
def specPow (M a : Int) (d : Nat) : Int :=
  if _h : d = 0 then red M 1
  else
    let h := specPow M a (d / 2)
    if d % 2 = 1 then red M (red M (h * h) * a) else red M (h * h)
termination_by d
decreasing_by omega

/-- Is `r` a canonical Bézout inverse of `a`: `0 ≤ r < M` and `r·a ≡ gcd(a, M) (mod M)`?
    (For `gcd = 1` this says `r` is *the* inverse.) -/
def isInvOf (M a r : Int) : Bool :=
  0 ≤ r && r < M && (r * a) % M == (Int.gcd a M : Int) % M

/-- Is `z` a canonical quotient: `0 ≤ z < M` and `z·y ≡ x·gcd(y, M) (mod M)`?
    (For `gcd(y, M) = 1` this says `z·y ≡ x`.) -/
def isQuotOf (M x y z : Int) : Bool :=
  0 ≤ z && z < M && (z * y) % M == (x * (Int.gcd y M : Int)) % M

end Rlib.Mint
