import RlibModel.Model.Common
/-
Model of `rlib/mint/src/lib.rs` (`Modular<const M: u32>`), core Lean only.

A `Modular<M>` value is represented by its only field `v : u32`, here a mathematical `Int`;
the modulus `M` (a `u32` const generic in Rust) is an explicit `Int` parameter.

Every machine step of the Rust code is written through an explicit width check:

* `x as T`   (never panics, wraps)                       : `wrapS 32`, `wrapU 32`
* `+ - *` and `/` in `u32`, `i32`, `i64`                  : `checked` / `fits`  ⇒ `panic:overflow`
  (the harness builds rlib with `overflow-checks = true`, so a wrapped intermediate shows up
   as a panic; the theorems of C06 say that for `2 ≤ M < 2^31` none of these ever fires)
* `%` / `/` by zero                                       : `panic:divzero`
* Rust `/`, `%` on signed integers truncate               : `Int.tdiv`, `Int.tmod`

The loops (`pow`, `inv`) are defined by well-founded recursion, so Lean has checked that they
terminate for *all* inputs (no fuel).
-/
namespace Rlib.Mint

def u32 : IntTy := ⟨false, 32⟩
def i32 : IntTy := ⟨true, 32⟩
def i64 : IntTy := ⟨true, 64⟩
def u64 : IntTy := ⟨false, 64⟩

/-- `pub fn new(v: i64) -> Self`
    ```
    let mut v = (v % M as i64) as i32;      // i64 remainder (M as i64 is lossless), narrowing cast
    if v < 0 { v += M as i32; }             // `M as i32` is a wrapping cast, `+=` is checked i32
    Self { v: v as u32 }                    // wrapping cast
    ``` -/
def new (M : Int) (v : Int) : Except Panic Int :=
  if M = 0 then .error .divzero
  else
    let r := wrapS 32 (v.tmod M)
    if r < 0 then do
      let r' ← checked i32 (r + wrapS 32 M)
      pure (wrapU 32 r')
    else
      pure (wrapU 32 r)

/-- `fn add(self, rhs)`: `let mut v = self.v + rhs.v; if v >= M { v -= M }` in `u32`. -/
def add (M : Int) (a b : Int) : Except Panic Int := do
  let v ← checked u32 (a + b)
  if v ≥ M then checked u32 (v - M) else pure v

/-- `fn sub(self, rhs)`: `let mut v = self.v + M - rhs.v; if v >= M { v -= M }` in `u32`. -/
def sub (M : Int) (a b : Int) : Except Panic Int := do
  let s ← checked u32 (a + M)
  let v ← checked u32 (s - b)
  if v ≥ M then checked u32 (v - M) else pure v

/-- `fn neg(self)`: `if self.v == 0 { self } else { M - self.v }` in `u32`. -/
def neg (M : Int) (a : Int) : Except Panic Int :=
  if a = 0 then pure a else checked u32 (M - a)

/-- `fn mul(self, rhs)`: `Self::new(self.v as i64 * rhs.v as i64)` (widening casts are lossless). -/
def mul (M : Int) (a b : Int) : Except Panic Int := do
  let p ← checked i64 (a * b)
  new M p

/-- The body of `pow`:
    ```
    while d != 0 { if d % 2 == 1 { res *= a; }  a *= a;  d /= 2; }   res
    ```
    (`a *= a` is executed in the last round too, exactly as in the Rust code). -/
def powLoop (M : Int) (res a : Int) (d : Nat) : Except Panic Int :=
  if _h : d = 0 then .ok res
  else
    match (if d % 2 = 1 then mul M res a else .ok res) with
    | .error e => .error e
    | .ok res' =>
      match mul M a a with
      | .error e => .error e
      | .ok a' => powLoop M res' a' (d / 2)
termination_by d
decreasing_by omega

/-- `pub fn pow(&self, d: u64)`; `res` starts as `Self::ONE = { v: 1 }`. -/
def pow (M : Int) (a : Int) (d : Nat) : Except Panic Int := powLoop M 1 a d

/-- The body of `inv` on `i32` values:
    ```
    while a != 0 { let k = b / a; b -= k * a; x -= k * y; swap(a, b); swap(x, y); }   x
    ```
    Each of the five arithmetic results is checked against `i32` (`b / a` overflows for
    `MIN / -1`).  Well-founded on `|a|`: the new `a` is `b - (b / a) * a = b % a`. -/
def invLoop (a b x y : Int) : Except Panic Int :=
  if _h : a = 0 then .ok x
  else
    let k := b.tdiv a
    if ¬ i32.fits k then .error .overflow else
    if ¬ i32.fits (k * a) then .error .overflow else
    if ¬ i32.fits (b - k * a) then .error .overflow else
    if ¬ i32.fits (k * y) then .error .overflow else
    if ¬ i32.fits (x - k * y) then .error .overflow else
    invLoop (b - k * a) a y (x - k * y)
termination_by a.natAbs
decreasing_by
  have e : b - b.tdiv a * a = b.tmod a := by rw [Int.tmod_def, Int.mul_comm]
  rw [e, Int.natAbs_tmod]
  exact Nat.mod_lt _ (by omega)

/-- `pub fn inv(&self)`: `a = self.v as i32; b = M as i32; x = 0; y = 1; loop; Self::new(x as i64)`. -/
def inv (M : Int) (a : Int) : Except Panic Int := do
  let x ← invLoop (wrapS 32 a) (wrapS 32 M) 0 1
  new M x

/-- `fn div(self, rhs)`: `self * rhs.inv()`. -/
def div (M : Int) (a b : Int) : Except Panic Int := do
  let i ← inv M b
  mul M a i

/-- derived `PartialEq`: compares the field. -/
def eq (a b : Int) : Bool := a == b

/-- `Display` / `Debug` / `Writable`: all three print the `u32` field in decimal. -/
def render (a : Int) : String := toString a.toNat

/-- `Readable`: `Self::new(reader.read::<i64>())`; `t` is the value of the decimal token
    (the token → `i64` step is `rlib_io`'s, property C08). -/
def readTok (M : Int) (t : Int) : Except Panic Int := new M t

/-! ### Executable specification: the integers modulo `M` -/

/-- canonical representative of `z` modulo `M` -/
def red (M z : Int) : Int := z % M

def specNew (M v : Int) : Int := red M v
def specAdd (M a b : Int) : Int := red M (a + b)
def specSub (M a b : Int) : Int := red M (a - b)
def specNeg (M a : Int) : Int := red M (-a)
def specMul (M a b : Int) : Int := red M (a * b)

/-- `a ^ d mod M` computed most-significant-bit first over plain integers (a different
    algorithm from the loop in `pow`, executable for exponents up to `u64::MAX`);
    `Lemmas/Mint.lean` proves `specPow M a d = a ^ d % M`. -/
def specPow (M a : Int) (d : Nat) : Int :=
  if _h : d = 0 then red M 1
  else
    let h := specPow M a (d / 2)
    if d % 2 = 1 then red M (red M (h * h) * a) else red M (h * h)
termination_by d
decreasing_by omega

/-- Is `r` a canonical Bézout inverse of `a`: `0 ≤ r < M` and `r·a ≡ gcd(a, M) (mod M)`?
    (For `gcd = 1` this says `r` is *the* inverse.) -/
def isInvOf (M a r : Int) : Bool :=
  0 ≤ r && r < M && (r * a) % M == (Int.gcd a M : Int) % M

/-- Is `z` a canonical quotient: `0 ≤ z < M` and `z·y ≡ x·gcd(y, M) (mod M)`?
    (For `gcd(y, M) = 1` this says `z·y ≡ x`.) -/
def isQuotOf (M x y z : Int) : Bool :=
  0 ≤ z && z < M && (z * y) % M == (x * (Int.gcd y M : Int)) % M

/-! ### Wave 3: associated constants, an independent spec for the inverse, histories that feed results back -/

/-- `pub const ZERO: Self = Self { v: 0 }` -/
def zero : Int := 0
/-- `pub const ONE: Self = Self { v: 1 }` -/
def one : Int := 1
/-- `pub fn md() -> u32 { M }` -/
def md (M : Int) : Int := M

/-- Bézout coefficients by the textbook recursion over unbounded naturals (a different algorithm
    from the iterative `i32` loop of `inv`): `a·x + b·y = gcd(a, b)` for `(x, y) = bez a b`. -/
def bez (a b : Nat) : Int × Int :=
  if _h : a = 0 then (0, 1)
  else
    let p := bez (b % a) a
    (p.2 - (b / a : Nat) * p.1, p.1)
termination_by a
decreasing_by exact Nat.mod_lt _ (by omega)

/-- executable spec of the inverse: the canonical representative of the Bézout coefficient -/
def specInv (M a : Int) : Int := red M (bez a.toNat M.toNat).1

/-- One step of a history on an accumulator `acc : Modular<M>` (the harness keeps ONE live value and
    feeds every result back into the next operation; `v` is an `i64` constructor argument). -/
inductive Op where
  | add (v : Int)      -- acc = acc + new(v)          (also `+=`)
  | sub (v : Int)      -- acc = acc - new(v)
  | rsub (v : Int)     -- acc = new(v) - acc
  | mul (v : Int)      -- acc = acc * new(v)
  | div (v : Int)      -- acc = acc / new(v)          (domain: gcd(v, M) = 1)
  | rdiv (v : Int)     -- acc = new(v) / acc          (domain: gcd(acc, M) = 1)
  | neg                -- acc = -acc
  | inv                -- acc = acc.inv()             (domain: gcd(acc, M) = 1)
  | pow (d : Nat)      -- acc = acc.pow(d)
  | sq                 -- acc = acc * acc             (the same object on both sides; `acc *= acc`)
  | dbl                -- acc = acc + acc
  | selfsub            -- acc = acc - acc
  | selfdiv            -- acc = acc / acc             (domain: gcd(acc, M) = 1)
  | ident              -- clone / clone_from / Copy / containers / Writer→Reader round trip: the value is unchanged
  | renew              -- acc = new(acc.inner() as i64)
  | zero               -- acc = ZERO
  | one                -- acc = ONE
  | eqv (v : Int)      -- acc = acc + (if acc == new(v) { ONE } else { ZERO })

/-- the model's step (every machine check of the called functions included) -/
def Op.stepM (M acc : Int) : Op → Except Panic Int
  | .add v => do let y ← new M v; Mint.add M acc y
  | .sub v => do let y ← new M v; Mint.sub M acc y
  | .rsub v => do let y ← new M v; Mint.sub M y acc
  | .mul v => do let y ← new M v; Mint.mul M acc y
  | .div v => do let y ← new M v; Mint.div M acc y
  | .rdiv v => do let y ← new M v; Mint.div M y acc
  | .neg => Mint.neg M acc
  | .inv => Mint.inv M acc
  | .pow d => Mint.pow M acc d
  | .sq => Mint.mul M acc acc
  | .dbl => Mint.add M acc acc
  | .selfsub => Mint.sub M acc acc
  | .selfdiv => Mint.div M acc acc
  | .ident => .ok acc
  | .renew => new M acc
  | .zero => .ok Mint.zero
  | .one => .ok Mint.one
  | .eqv v => do let y ← new M v; Mint.add M acc (if eq acc y then Mint.one else Mint.zero)

/-- the spec's step: plain integer arithmetic followed by one reduction -/
def Op.stepS (M acc : Int) : Op → Int
  | .add v => red M (acc + v)
  | .sub v => red M (acc - v)
  | .rsub v => red M (v - acc)
  | .mul v => red M (acc * v)
  | .div v => red M (acc * specInv M (red M v))
  | .rdiv v => red M (v * specInv M acc)
  | .neg => red M (-acc)
  | .inv => specInv M acc
  | .pow d => specPow M acc d
  | .sq => red M (acc * acc)
  | .dbl => red M (acc + acc)
  | .selfsub => 0
  | .selfdiv => red M (acc * specInv M acc)
  | .ident => acc
  | .renew => red M acc
  | .zero => 0
  | .one => red M 1
  | .eqv v => red M (acc + (if acc = red M v then 1 else 0))

/-- the step lies in the property's domain (inverses only of values coprime to `M`) -/
def Op.dom (M acc : Int) : Op → Bool
  | .div v => Int.gcd (red M v) M == 1
  | .rdiv _ => Int.gcd acc M == 1
  | .inv => Int.gcd acc M == 1
  | .selfdiv => Int.gcd acc M == 1
  | _ => true

/-- the model's history: the accumulator after every step; stops at the first panic -/
def runM (M : Int) : Int → List Op → List (Except Panic Int)
  | _, [] => []
  | acc, op :: ops =>
    match op.stepM M acc with
    | .ok a => .ok a :: runM M a ops
    | .error e => [.error e]

def runS (M : Int) : Int → List Op → List Int
  | _, [] => []
  | acc, op :: ops => op.stepS M acc :: runS M (op.stepS M acc) ops

def domS (M : Int) : Int → List Op → Bool
  | _, [] => true
  | acc, op :: ops => op.dom M acc && domS M (op.stepS M acc) ops

end Rlib.Mint
