import RlibModel.Model.Fft
/-!
The two IEEE instances of `Arith` executed by the driver: `Complex<f64>` (Lean `Float`) and
`Complex<f32>` (Lean `Float32`).  Every field is the operation sequence of `complex.rs` /
`num_traits` (`impl_float!`): e.g. `Mul` is `(x1*x2 - y1*y2, x1*y2 + y1*x2)`, `conj` negates `y`,
`to_i64` is `self.round() as i64` (saturating, NaN ↦ 0 — `Float.toInt64` has the same semantics).
-/
namespace Rlib.Fft

structure C64 where
  re : Float
  im : Float

structure C32 where
  re : Float32
  im : Float32

/-- `std::f64::consts::PI`. -/
def pi64 : Float := Float.ofBits 0x400921FB54442D18
/-- `std::f32::consts::PI`. -/
def pi32 : Float32 := Float32.ofBits 0x40490FDB

/-- `x as f64` for `usize`/`i32` (exact below 2^53). -/
@[inline] def f64OfNat (n : Nat) : Float := Float.ofNat n
@[inline] def f64OfInt (z : Int) : Float := Float.ofInt z
/-- `x as f32`: the value is first represented exactly in binary64 (|x| < 2^53), then rounded once. -/
@[inline] def f32OfNat (n : Nat) : Float32 := (Float.ofNat n).toFloat32
@[inline] def f32OfInt (z : Int) : Float32 := (Float.ofInt z).toFloat32

/-- `x.round().to_i64()` = `x.round().round() as i64`. -/
@[inline] def roundI64 (x : Float) : Int := x.round.round.toInt64.toInt
@[inline] def roundI64f (x : Float32) : Int := x.round.round.toInt64.toInt

def arith64 : Arith C64 where
  zero := ⟨0.0, 0.0⟩
  one := ⟨1.0, 0.0⟩
  i8 := ⟨0.0 / f64OfNat 8, 1.0 / f64OfNat 8⟩
  add a b := ⟨a.re + b.re, a.im + b.im⟩
  sub a b := ⟨a.re - b.re, a.im - b.im⟩
  mul a b := ⟨a.re * b.re - a.im * b.im, a.re * b.im + a.im * b.re⟩
  conj a := ⟨a.re, -a.im⟩
  half a := let i2 := 1.0 / f64OfNat 2; ⟨a.re * i2, a.im * i2⟩
  scaleInv n a := let invn := 1.0 / f64OfNat n; ⟨a.re * invn, a.im * invn⟩
  tw i cur :=
    let icur := 1.0 / f64OfNat cur
    let x := pi64 * f64OfNat i * icur
    ⟨x.cos, x.sin⟩
  setRe c v := ⟨f64OfInt v, c.im⟩
  setIm c v := ⟨c.re, f64OfInt v⟩
  roundRe c := roundI64 c.re
  roundIm c := roundI64 c.im
  neg a := ⟨-a.re, -a.im⟩
  scale k a := let r := f64OfInt k; ⟨a.re * r, a.im * r⟩
  divS k a := let r := f64OfInt k; ⟨a.re / r, a.im / r⟩
  div a b :=
    -- self * rhs.conj() / rhs.abs2()
    let cr := b.re; let ci := -b.im
    let pr := a.re * cr - a.im * ci
    let pi := a.re * ci + a.im * cr
    let d := b.re * b.re + b.im * b.im
    ⟨pr / d, pi / d⟩
  abs2 a := ⟨a.re * a.re + a.im * a.im, 0.0⟩
  absq a := let r := (a.re * a.re + a.im * a.im).sqrt; ⟨r * r, 0.0⟩
  ci := ⟨0.0, 1.0⟩

def arith32 : Arith C32 where
  zero := ⟨0.0, 0.0⟩
  one := ⟨1.0, 0.0⟩
  i8 := ⟨0.0 / f32OfNat 8, 1.0 / f32OfNat 8⟩
  add a b := ⟨a.re + b.re, a.im + b.im⟩
  sub a b := ⟨a.re - b.re, a.im - b.im⟩
  mul a b := ⟨a.re * b.re - a.im * b.im, a.re * b.im + a.im * b.re⟩
  conj a := ⟨a.re, -a.im⟩
  half a := let i2 := 1.0 / f32OfNat 2; ⟨a.re * i2, a.im * i2⟩
  scaleInv n a := let invn := 1.0 / f32OfNat n; ⟨a.re * invn, a.im * invn⟩
  tw i cur :=
    let icur := 1.0 / f32OfNat cur
    let x := pi32 * f32OfNat i * icur
    ⟨x.cos, x.sin⟩
  setRe c v := ⟨f32OfInt v, c.im⟩
  setIm c v := ⟨c.re, f32OfInt v⟩
  roundRe c := roundI64f c.re
  roundIm c := roundI64f c.im
  neg a := ⟨-a.re, -a.im⟩
  scale k a := let r := f32OfInt k; ⟨a.re * r, a.im * r⟩
  divS k a := let r := f32OfInt k; ⟨a.re / r, a.im / r⟩
  div a b :=
    let cr := b.re; let ci := -b.im
    let pr := a.re * cr - a.im * ci
    let pi := a.re * ci + a.im * cr
    let d := b.re * b.re + b.im * b.im
    ⟨pr / d, pi / d⟩
  abs2 a := ⟨a.re * a.re + a.im * a.im, 0.0⟩
  absq a := let r := (a.re * a.re + a.im * a.im).sqrt; ⟨r * r, 0.0⟩
  ci := ⟨0.0, 1.0⟩

end Rlib.Fft
