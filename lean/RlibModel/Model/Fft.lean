import RlibModel.Model.Common
/-!
Model of `rlib/fft/src/fft.rs` (`FFT<F>`), polymorphic in the arithmetic.

Lean's kernel knows nothing about IEEE floats, so every function below is written over an
arithmetic record `Arith K` that carries NO laws: `K` is the carrier of `Complex<F>`, the fields
are exactly the operations `fft.rs` performs on it.  `Model/FftFloat.lean` instantiates the record
with Lean `Float` / `Float32` (the driver executes that instance: same IEEE operations in the same
order as the Rust code), `Lemmas/FftExact.lean` instantiates it with an exact field.

Rust function            | Lean definition
-------------------------|----------------------------------------------
`FFT::new`               | `new`  (= `updateNCore (init) 4`)
`update_n`               | `updateN?` (assert) / `updateNCore` (`growLoop`, `growStep`)
`fft_internal::<0>(0,n)` | `fftInternal` (`fftCore` = `bitrev`, `stages`/`stage`/`innerLoop`, scaling)
`fft`, `fft_into`        | `fft?`, `fftInto?` / `fftIntoCore`
`fft_inv`, `fft_inv_into`| `fftInv?`, `fftInvInto?` / `fftInvIntoCore`
`multiply`, `multiply_into` | `multiply`, `multiplyInto` = `mulBlocks (multiplyDirect A)` (block recursion for unbalanced operands: `mulBlocks`, `blockLoop`; single transform: `multiplyDirect`)

State that survives a call: `w`, `reversed`, `bufs[0]` (`bufs[1]` is never touched by any method).
`&mut self` methods return the new state.  Loops are `forRange` (a `for i in lo..hi`) or
well-founded recursion (termination is therefore proved).  Index expressions are written with
`getD`/`setIfInBounds`; `Lemmas/Fft.lean` shows that on reachable states the table reads are
exactly the canonical-table reads (`fftInternal_eq_ref`), so no default value is ever observed.
-/
namespace Rlib.Fft

/-- The operations `fft.rs` performs on `Complex<F>`; no laws. -/
structure Arith (K : Type) where
  zero : K                      -- `Complex::ZERO`
  one : K                       -- `Complex::ONE`
  i8 : K                        -- `Complex::I / F::from_usize(8)`
  add : K → K → K
  sub : K → K → K
  mul : K → K → K
  conj : K → K
  half : K → K                  -- `· * i2`, `i2 = F::ONE / F::from_usize(2)`
  scaleInv : Nat → K → K        -- `· *= invn`, `invn = F::ONE / F::from_usize(n)`
  tw : Nat → Nat → K            -- `tw i cur = Complex::new(x.cos(), x.sin())`, `x = PI * from_usize(i) * (ONE / from_usize(cur))`
  setRe : K → Int → K           -- `c.x = F::from_i32(v)`
  setIm : K → Int → K           -- `c.y = F::from_i32(v)`
  roundRe : K → Int             -- `c.x.round().to_i64()`
  roundIm : K → Int             -- `c.y.round().to_i64()`
  -- the further operators of `complex.rs` a CALLER can apply to spectra (not used by `fft.rs` itself):
  neg : K → K                   -- `-c` (`Neg`)
  scale : Int → K → K           -- `c * F::from_i32(k)` (`Mul<F>`, `MulAssign<F>`: the same two products)
  divS : Int → K → K            -- `c / F::from_i32(k)` (`Div<F>`, `DivAssign<F>`)
  div : K → K → K               -- `a / b` = `a * b.conj() / b.abs2()` (`Div`, `DivAssign`)
  abs2 : K → K                  -- `Complex::new_real(c.abs2())`
  absq : K → K                  -- `let r = c.abs(); Complex::new_real(r * r)`
  ci : K                        -- `Complex::I`

/-- `w`, `reversed`, `bufs[0]`. -/
structure State (K : Type) where
  w : Array K
  rev : Array Nat
  buf : Array K

variable {K : Type}

/-- `for i in lo..hi { a = f i a }`. -/
@[specialize] def forRange {α : Type} (lo hi : Nat) (f : Nat → α → α) (a : α) : α :=
  if _h : lo < hi then forRange (lo + 1) hi f (f lo a) else a
termination_by hi - lo

/-- `Vec::resize`. -/
def resize {α : Type} (a : Array α) (n : Nat) (v : α) : Array α :=
  if n ≤ a.size then a.extract 0 n else a ++ Array.replicate (n - a.size) v

/-! ### `update_n` -/

/-- One round of the `while cur < n` loop of `update_n` (arrays already resized). -/
def growStep (A : Arith K) (cur : Nat) (s : State K) : State K :=
  -- for i in 0..cur { reversed[i] <<= 1 }
  let rev := forRange 0 cur (fun i r => r.modify i (· <<< 1)) s.rev
  -- for i in cur..(cur << 1) { reversed[i] = reversed[i - cur] ^ 1 }
  let rev := forRange cur (cur <<< 1) (fun i r => r.setIfInBounds i (r.getD (i - cur) 0 ^^^ 1)) rev
  -- (1..=(cur << 1) - 2).rev().step_by(2): i = 2cur-2, 2cur-4, …, 2:  w[i] = w[i / 2]
  let w := forRange 0 (cur - 1) (fun t w =>
    let i := (cur <<< 1) - 2 - 2 * t
    w.setIfInBounds i (w.getD (i / 2) A.zero)) s.w
  -- (1..(cur << 1)).step_by(2): i = 1, 3, …, 2cur-1:  w[i] = (cos x, sin x)
  let w := forRange 0 cur (fun t w =>
    let i := 2 * t + 1
    w.setIfInBounds i (A.tw i cur)) w
  { s with rev := rev, w := w }

/-- `while cur < n { …; cur *= 2 }`. -/
def growLoop (A : Arith K) (cur n : Nat) (s : State K) : State K :=
  if _h : cur < n ∧ 0 < cur then growLoop A (cur * 2) n (growStep A cur s) else s
termination_by n - cur
decreasing_by omega

/-- `update_n` after its `assert_eq!(n & (n - 1), 0)`. -/
def updateNCore (A : Arith K) (s : State K) (n : Nat) : State K :=
  let cur := s.rev.size
  if n ≤ cur then s
  else
    let s1 : State K := { s with rev := resize s.rev n 0, w := resize s.w (n + 1) A.zero }
    let s2 := growLoop A cur n s1
    -- *self.w.last_mut().unwrap() = Complex::ONE
    { s2 with w := s2.w.setIfInBounds (s2.w.size - 1) A.one }

/-- `n & (n - 1) == 0` for `n ≥ 1`. -/
def isPow2 (n : Nat) : Bool := n ≠ 0 && n &&& (n - 1) == 0

/-- `pub fn update_n` (with `n = 0` the subtraction `n - 1` overflows: `overflow-checks`). -/
def updateN? (A : Arith K) (s : State K) (n : Nat) : Except Panic (State K) :=
  if n = 0 then .error .overflow
  else if !isPow2 n then .error .assert
  else .ok (updateNCore A s n)

/-- The two-element tables `new` starts from. -/
def init (A : Arith K) : State K := { w := #[A.one, A.one], rev := #[0], buf := #[] }

/-- `FFT::new`. -/
def new (A : Arith K) : State K := updateNCore A (init A) 4

/-- `impl Default for FFT`: `Self::new()`. -/
def default (A : Arith K) : State K := new A

/-- `#[derive(Clone)]`: a field-by-field copy. -/
def clone (s : State K) : State K := { w := s.w, rev := s.rev, buf := s.buf }

/-! ### `fft_internal` -/

/-- `for j in 0..ln { y = v[i+j+ln] * w[ind]; ind += step; v[i+j+ln] = v[i+j] - y; v[i+j] += y }`
    (`rd` reads the twiddle table). -/
def innerLoop (A : Arith K) (rd : Nat → K) (i ln : Nat) (step : Int) (j : Nat) (ind : Int)
    (v : Array K) : Array K :=
  if _h : j < ln then
    let y := A.mul (v.getD (i + j + ln) A.zero) (rd ind.toNat)
    let v := v.setIfInBounds (i + j + ln) (A.sub (v.getD (i + j) A.zero) y)
    let v := v.setIfInBounds (i + j) (A.add (v.getD (i + j) A.zero) y)
    innerLoop A rd i ln step (j + 1) (ind + step) v
  else v
termination_by ln - j

/-- One pass of the `while ln < n` loop: `(0..n).step_by(ln << 1).for_each(|i| …)`. -/
def stage (A : Arith K) (rd : Nat → K) (maxN n ln : Nat) (inv : Bool) (v : Array K) : Array K :=
  let step : Int := (if inv then -(maxN : Int) else (maxN : Int)).tdiv ((ln : Int) * 2)
  let ind0 : Int := if inv then (maxN : Int) else 0
  forRange 0 ((n + 2 * ln - 1) / (2 * ln)) (fun b v => innerLoop A rd (b * (2 * ln)) ln step 0 ind0 v) v

/-- `let mut ln = 1; while ln < n { …; ln <<= 1 }`. -/
def stages (A : Arith K) (rd : Nat → K) (maxN n : Nat) (inv : Bool) (ln : Nat) (v : Array K) : Array K :=
  if _h : ln < n ∧ 0 < ln then stages A rd maxN n inv (ln * 2) (stage A rd maxN n ln inv v) else v
termination_by n - ln
decreasing_by omega

/-- `for i in 1..n { if i < rev(i) { v.swap(i, rev(i)) } }` (`rv i = reversed[i] >> d`). -/
def bitrev (A : Arith K) (rv : Nat → Nat) (n : Nat) (v : Array K) : Array K :=
  forRange 1 n (fun i v =>
    let r := rv i
    if i < r then
      let x := v.getD i A.zero
      let y := v.getD r A.zero
      (v.setIfInBounds i y).setIfInBounds r x
    else v) v

/-- Body of `fft_internal` after `update_n`, table reads abstracted (`rd`, `rv`). -/
def fftCore (A : Arith K) (rd : Nat → K) (rv : Nat → Nat) (maxN n : Nat) (inv : Bool) (v : Array K) : Array K :=
  let v := bitrev A rv n v
  let v := stages A rd maxN n inv 1 v
  if inv then forRange 0 v.size (fun i v => v.modify i (A.scaleInv n)) v else v

/-- `fft_internal::<0>(0, n, inv)`; every call site has `bufs[0].len() == n`, so the slice
    `bufs[0][0..n]` is the whole buffer. `n` is a power of two (callers guarantee it; otherwise
    `update_n` asserts). -/
def fftInternal (A : Arith K) (s : State K) (n : Nat) (inv : Bool) : State K :=
  let s := updateNCore A s n
  let maxN := s.rev.size
  let d := Nat.log2 maxN - Nat.log2 n
  { s with buf := fftCore A (fun i => s.w.getD i A.zero) (fun i => s.rev.getD i 0 >>> d) maxN n inv s.buf }

/-! ### public API -/

/-- `while n < len { n <<= 1 }` starting from `start`. -/
def ceilPow2 (start len : Nat) : Nat :=
  if _h : start < len ∧ 0 < start then ceilPow2 (start * 2) len else start
termination_by len - start
decreasing_by omega

/-- `for (i, &x) in v.iter().enumerate() { buf[i].x = F::from_i32(x) }`. -/
def fillRe (A : Arith K) (v : Array Int) (buf : Array K) : Array K :=
  forRange 0 v.size (fun i b => b.modify i (fun c => A.setRe c (v.getD i 0))) buf

def fillIm (A : Arith K) (v : Array Int) (buf : Array K) : Array K :=
  forRange 0 v.size (fun i b => b.modify i (fun c => A.setIm c (v.getD i 0))) buf

/-- `res.iter_mut().zip(buf.iter()).for_each(|(x, &y)| *x += y)`. -/
def accC (A : Arith K) (res buf : Array K) : Array K :=
  forRange 0 (min res.size buf.size) (fun i r => r.modify i (fun x => A.add x (buf.getD i A.zero))) res

/-- `fft_into` for a valid size `n` (power of two, `v.len() <= n`). -/
def fftIntoCore (A : Arith K) (s : State K) (v : Array Int) (n : Nat) (res : Array K) : State K × Array K :=
  let buf := fillRe A v (Array.replicate n A.zero)
  let s := fftInternal A { s with buf := buf } n false
  (s, accC A res s.buf)

def fftSize (len n : Nat) : Nat := if n = 0 then ceilPow2 1 len else n

/-- `pub fn fft_into`. `debug_assert!(v.len() <= n)` is a precondition (`assert`);
    a size that is not a power of two makes `update_n` assert. -/
def fftInto? (A : Arith K) (s : State K) (v : Array Int) (n : Nat) (res : Array K) : Except Panic (State K × Array K) :=
  let n := fftSize v.size n
  if v.size > n then .error .assert
  else if !isPow2 n then .error .assert
  else .ok (fftIntoCore A s v n res)

/-- `pub fn fft`. -/
def fft? (A : Arith K) (s : State K) (v : Array Int) (n : Nat) : Except Panic (State K × Array K) :=
  fftInto? A s v n (Array.replicate (fftSize v.size n) A.zero)

/-- `res.iter_mut().zip(vals).for_each(|(x, y)| *x += y)` on `i64`s. -/
def addPrefix : List Int → List Int → List Int
  | r :: rs, v :: vs => (r + v) :: addPrefix rs vs
  | rs, [] => rs
  | [], _ :: _ => []

/-- `buf.iter().flat_map(|c| [c.x.round().to_i64(), c.y.round().to_i64()])`. -/
def roundPairs (A : Arith K) (buf : Array K) : List Int :=
  buf.toList.flatMap (fun c => [A.roundRe c, A.roundIm c])

/-- The loop `buf[i] = f(buf[i] + buf[j] - (buf[i] - buf[j]) * w[start - step * i])`, `j = i + n/2`,
    shared by `fft_inv_into` (`f = · * i2`) and `multiply_into` (`f = id`). -/
def foldHalf (A : Arith K) (f : K → K) (w : Array K) (maxN n : Nat) (buf : Array K) : Array K :=
  let step := maxN / n
  let start := maxN - (maxN >>> 2)
  forRange 0 (n >>> 1) (fun i b =>
    let j := i + (n >>> 1)
    let bi := b.getD i A.zero
    let bj := b.getD j A.zero
    b.setIfInBounds i (f (A.sub (A.add bi bj) (A.mul (A.sub bi bj) (w.getD (start - step * i) A.zero))))) buf

/-- `fft_inv_into` for a valid input (`v.len()` a power of two).  `self.update_n(n)` precedes the
    table reads since commit 3d98b12 (before it a fresh or smaller object read `w` with stride 0:
    finding F9 in `docs/notes/C04.md`). -/
def fftInvIntoCore (A : Arith K) (s : State K) (v : Array K) (res : List Int) : State K × List Int :=
  let n := v.size
  if n = 1 then
    (s, match res with
        | [] => []
        | r :: rs => (r + A.roundRe (v.getD 0 A.zero)) :: rs)
  else
    let s := updateNCore A s n
    -- buf.clear(); buf.resize(n, ZERO); buf[i] = v[i]
    let buf := foldHalf A A.half s.w s.rev.size n v
    let buf := buf.extract 0 (n >>> 1)           -- buf.truncate(n >> 1)
    let s := fftInternal A { s with buf := buf } (n >>> 1) true
    (s, addPrefix res (roundPairs A s.buf))

/-- `pub fn fft_inv_into` (`debug_assert!`s are preconditions). -/
def fftInvInto? (A : Arith K) (s : State K) (v : Array K) (res : List Int) : Except Panic (State K × List Int) :=
  if !isPow2 v.size then .error .assert
  else .ok (fftInvIntoCore A s v res)

/-- `pub fn fft_inv`. -/
def fftInv? (A : Arith K) (s : State K) (v : Array K) : Except Panic (State K × List Int) :=
  fftInvInto? A s v (List.replicate v.size 0)

/-- The unpacking loop of `multiply_into`:
    `for i in 0..=(n >> 1) { j = (n - i) & (n - 1); v = (buf[i] + buf[j].conj()) * (buf[j].conj() - buf[i]) * i8; buf[i] = v; buf[j] = v.conj() }`. -/
def unpack (A : Arith K) (n : Nat) (buf : Array K) : Array K :=
  forRange 0 ((n >>> 1) + 1) (fun i b =>
    let j := (n - i) &&& (n - 1)
    let bi := b.getD i A.zero
    let cj := A.conj (b.getD j A.zero)
    let v := A.mul (A.mul (A.add bi cj) (A.sub cj bi)) A.i8
    (b.setIfInBounds i v).setIfInBounds j (A.conj v)) buf

/-- The single-transform part of `multiply_into` (everything after the block split; both operands non-empty):
    `a + i·b` packed into one transform of size `n`, unpacked, folded, inverse transform of size `n/2`,
    `res.iter_mut().zip(…).take(a.len() + b.len() - 1).for_each(|(x, y)| *x += y)`. -/
def multiplyDirect (A : Arith K) (s : State K) (a b : Array Int) (res : List Int) : State K × List Int :=
  let len := a.size + b.size - 1
  let n := ceilPow2 2 len
  let buf := fillIm A b (fillRe A a (Array.replicate n A.zero))
  let s := fftInternal A { s with buf := buf } n false
  let buf := unpack A n s.buf
  let buf := foldHalf A id s.w s.rev.size n buf
  let buf := buf.extract 0 (n >>> 1)
  let s := fftInternal A { s with buf := buf } (n >>> 1) true
  (s, addPrefix res ((roundPairs A s.buf).take len))

/-- The block loop of `multiply_into` for unbalanced operands:
    ```
    for (k, block) in long.chunks(short.len()).enumerate() {
        let offset = k * short.len();
        if offset >= res.len() { break; }
        self.multiply_into(short, block, &mut res[offset..]);
    }
    ```
    `rec blk _ s r` is the recursive call `self.multiply_into(short, blk, r)`.  The destination is carried as
    `done ++ rest` with `rest = res[offset..]` (so `offset >= res.len()` is `rest = []`) and `done = res[..offset]`,
    which no later block touches; the `k`-th chunk is `long[offset .. min(offset + short.len(), long.len())]` and exists
    iff `offset < long.len()`.  `σ` is the object (`&mut self`). -/
def blockLoop {σ : Type} (short long : Array Int)
    (rec : (blk : Array Int) → blk.size ≤ short.size → σ → List Int → σ × List Int)
    (k : Nat) (s : σ) (done : Array Int) (rest : List Int) : σ × List Int :=
  let off := k * short.size
  if _h : off < long.size ∧ 0 < short.size then
    if rest.isEmpty then (s, done.toList ++ rest)                       -- break
    else
      let blk := long.extract off (off + short.size)
      let r := rec blk (by simp only [blk, Array.size_extract]; omega) s rest
      blockLoop short long rec (k + 1) r.1 (done ++ r.2.take short.size) (r.2.drop short.size)
  else (s, done.toList ++ rest)
termination_by long.size - k * short.size
decreasing_by rw [Nat.add_mul]; omega

/-- The control structure of `multiply_into`: the emptiness check, the ordering of the operands by length
    (`a.len() <= b.len()` keeps `(a, b)`), the block split when `long.len() > 2 * short.len()` (each block by a
    recursive call with the operands `(short, block)`, in this order) and otherwise the single-transform code
    `direct` with the operands in the caller's order.  Generic in the object type `σ` and in `direct` so that the
    same recursion can be run without an object (`Lemmas/Fft.lean`: `multiplyIntoRef`).
    Terminates because `short.len() + block.len() <= 2 * short.len() < long.len()`. -/
def mulBlocks {σ : Type} (direct : σ → Array Int → Array Int → List Int → σ × List Int)
    (s : σ) (a b : Array Int) (res : List Int) : σ × List Int :=
  if a.size = 0 ∨ b.size = 0 then (s, res)
  else if _hab : a.size ≤ b.size then
    if _h : b.size > 2 * a.size then
      blockLoop a b (fun blk _ s' r' => mulBlocks direct s' a blk r') 0 s #[] res
    else direct s a b res
  else
    if _h : a.size > 2 * b.size then
      blockLoop b a (fun blk _ s' r' => mulBlocks direct s' b blk r') 0 s #[] res
    else direct s a b res
termination_by a.size + b.size
decreasing_by all_goals omega

/-- `pub fn multiply_into`. -/
def multiplyInto (A : Arith K) (s : State K) (a b : Array Int) (res : List Int) : State K × List Int :=
  mulBlocks (multiplyDirect A) s a b res

/-- `pub fn multiply`. -/
def multiply (A : Arith K) (s : State K) (a b : Array Int) : State K × List Int :=
  if a.size = 0 ∨ b.size = 0 then (s, [])
  else multiplyInto A s a b (List.replicate (a.size + b.size - 1) 0)

/-- `fa.iter().zip(fb).map(|(x, y)| x * y)`: the user's pointwise product. -/
def pointwise (A : Arith K) (fa fb : Array K) : Array K :=
  Array.ofFn (n := min fa.size fb.size) (fun i => A.mul (fa.getD i A.zero) (fb.getD i A.zero))

/-- forward transform of both, pointwise product (`Complex * Complex`), inverse transform — the
    user-level composition the property mentions.  The inverse is taken on the object `sInv`
    if given (a different object, e.g. a fresh one), else on the object that did the forward
    transforms. -/
def fftMulInv? (A : Arith K) (s : State K) (sInv : Option (State K)) (a b : Array Int) (n : Nat) :
    Except Panic (State K × List Int) :=
  match fft? A s a n with
  | .error e => .error e
  | .ok (s, fa) =>
    match fft? A s b n with
    | .error e => .error e
    | .ok (s, fb) =>
      match sInv with
      | none => fftInv? A s (pointwise A fa fb)
      | some s' =>
        match fftInv? A s' (pointwise A fa fb) with
        | .error e => .error e
        | .ok (_, r) => .ok (s, r)

/-- forward transforms, pointwise product, `fft_inv_into` with a caller-supplied destination (any length). -/
def fftMulInvInto? (A : Arith K) (s : State K) (a b : Array Int) (n : Nat) (res : List Int) :
    Except Panic (State K × List Int) :=
  match fft? A s a n with
  | .error e => .error e
  | .ok (s, fa) =>
    match fft? A s b n with
    | .error e => .error e
    | .ok (s, fb) => fftInvInto? A s (pointwise A fa fb) res

/-! ### Spectral expressions: everything a caller can do to spectra with the operators of `complex.rs` -/

/-- A per-bin expression over forward transforms, built from the public operators of `Complex<F>`.
    The operator form (`a * b`), the assign form (`a *= b`), `Copy` and `.clone()` of an operand are the same node:
    `complex.rs` computes the same formula for each pair (`Complex::default()` and `ZeroOne::ZERO` are both `zero`). -/
inductive SExpr where
  | leaf (i : Nat)              -- bin of the `i`-th forward transform
  | zero | one | ci             -- `Complex::ZERO` / `Complex::default()`, `Complex::ONE`, `Complex::I`
  | add (a b : SExpr) | sub (a b : SExpr) | mul (a b : SExpr) | div (a b : SExpr)
  | neg (a : SExpr) | conj (a : SExpr) | abs2 (a : SExpr) | absq (a : SExpr)
  | scale (k : Int) (a : SExpr) | divS (k : Int) (a : SExpr)

/-- Value of the expression at bin `p`. -/
def SExpr.eval (A : Arith K) (leaves : List (Array K)) (p : Nat) : SExpr → K
  | .leaf i => (leaves.getD i #[]).getD p A.zero
  | .zero => A.zero
  | .one => A.one
  | .ci => A.ci
  | .add a b => A.add (a.eval A leaves p) (b.eval A leaves p)
  | .sub a b => A.sub (a.eval A leaves p) (b.eval A leaves p)
  | .mul a b => A.mul (a.eval A leaves p) (b.eval A leaves p)
  | .div a b => A.div (a.eval A leaves p) (b.eval A leaves p)
  | .neg a => A.neg (a.eval A leaves p)
  | .conj a => A.conj (a.eval A leaves p)
  | .abs2 a => A.abs2 (a.eval A leaves p)
  | .absq a => A.absq (a.eval A leaves p)
  | .scale k a => A.scale k (a.eval A leaves p)
  | .divS k a => A.divS k (a.eval A leaves p)

/-- `(0..n).map(|p| expr(fa[p], fb[p], …)).collect()`. -/
def spectrum (A : Arith K) (e : SExpr) (leaves : List (Array K)) (n : Nat) : Array K :=
  Array.ofFn (n := n) (fun p => e.eval A leaves p.val)

/-- `vs.iter().map(|v| self.fft(v, n)).collect()`: the forward transforms, one after the other on this object. -/
def fftAll? (A : Arith K) (s : State K) : List (Array Int) → Nat → Except Panic (State K × List (Array K))
  | [], _ => .ok (s, [])
  | v :: vs, n =>
    match fft? A s v n with
    | .error e => .error e
    | .ok (s', f) =>
      match fftAll? A s' vs n with
      | .error e => .error e
      | .ok (s'', fs) => .ok (s'', f :: fs)

/-- forward transforms of all operands (size `n`), the expression bin by bin, `fft_inv_into` with the destination `res`. -/
def spectral? (A : Arith K) (s : State K) (e : SExpr) (vs : List (Array Int)) (n : Nat) (res : List Int) :
    Except Panic (State K × List Int) :=
  match fftAll? A s vs n with
  | .error e' => .error e'
  | .ok (s', fs) => fftInvInto? A s' (spectrum A e fs n) res

/-! ### Call histories -/

/-- One call of the public API (the composite `fftMulInv` is the user-level
    "forward transforms, pointwise product, inverse transform" on this object;
    `fftMulInvFresh` takes the inverse transform on a brand-new object). -/
inductive Op (K : Type) where
  | updateN (n : Nat)
  | multiply (a b : Array Int)
  | multiplyInto (a b : Array Int) (res : List Int)
  | fft (v : Array Int) (n : Nat)
  | fftInto (v : Array Int) (n : Nat) (res : Array K)
  | fftInv (v : Array K)
  | fftInvInto (v : Array K) (res : List Int)
  | fftMulInv (a b : Array Int) (n : Nat)
  | fftMulInvFresh (a b : Array Int) (n : Nat)
  | fftMulInvInto (a b : Array Int) (n : Nat) (res : List Int)
  | spectral (e : SExpr) (vs : List (Array Int)) (n : Nat) (res : List Int)

/-- What a call returns. -/
inductive Out (K : Type) where
  | unit
  | ints (xs : List Int)
  | cplx (xs : Array K)

/-- Perform one call: new state and result, or the panic it raises. -/
def call (A : Arith K) (s : State K) : Op K → Except Panic (State K × Out K)
  | .updateN n => (updateN? A s n).map (fun s' => (s', .unit))
  | .multiply a b => let r := multiply A s a b; .ok (r.1, .ints r.2)
  | .multiplyInto a b res => let r := multiplyInto A s a b res; .ok (r.1, .ints r.2)
  | .fft v n => (fft? A s v n).map (fun r => (r.1, .cplx r.2))
  | .fftInto v n res => (fftInto? A s v n res).map (fun r => (r.1, .cplx r.2))
  | .fftInv v => (fftInv? A s v).map (fun r => (r.1, .ints r.2))
  | .fftInvInto v res => (fftInvInto? A s v res).map (fun r => (r.1, .ints r.2))
  | .fftMulInv a b n => (fftMulInv? A s none a b n).map (fun r => (r.1, .ints r.2))
  | .fftMulInvFresh a b n => (fftMulInv? A s (some (new A)) a b n).map (fun r => (r.1, .ints r.2))
  | .fftMulInvInto a b n res => (fftMulInvInto? A s a b n res).map (fun r => (r.1, .ints r.2))
  | .spectral e vs n res => (spectral? A s e vs n res).map (fun r => (r.1, .ints r.2))

/-- State of the object after a call; a call that panics (before touching the tables: the only
    panics are the assertion of `update_n` and violated preconditions) leaves the tables as they were. -/
def step (A : Arith K) (s : State K) (op : Op K) : State K :=
  match call A s op with
  | .ok r => r.1
  | .error _ => s

/-- The object after a whole call history, starting from `FFT::new()`. -/
def after (A : Arith K) (h : List (Op K)) : State K := h.foldl (step A) (new A)

/-- Every way to obtain an object: `FFT::new()`, `FFT::default()`, `.clone()` of an object, and an object after one
    more call — arbitrarily nested (clone of a used object, calls on a clone, …). -/
inductive Build (K : Type) where
  | new
  | default
  | clone (b : Build K)
  | call (b : Build K) (op : Op K)

/-- The object a construction yields. -/
def Build.state (A : Arith K) : Build K → State K
  | .new => Fft.new A
  | .default => Fft.default A
  | .clone b => Fft.clone (b.state A)
  | .call b op => step A (b.state A) op

/-! ### Several objects alive at the same time -/

/-- One step of a program over a POOL of objects: a call on object `k`, `dst = src.clone()`, `dst.clone_from(&src)`,
    `dst = FFT::default()`, `dst = FFT::new()`, `dst = std::mem::take(&mut src)` (which leaves `FFT::default()` in `src`). -/
inductive PoolOp (K : Type) where
  | call (k : Nat) (op : Op K)
  | clone (src dst : Nat)
  | cloneFrom (src dst : Nat)
  | default (dst : Nat)
  | fresh (dst : Nat)
  | take (src dst : Nat)

/-- The objects are separate values: a step touches only the objects it names. -/
def poolStep (A : Arith K) (pool : Array (State K)) : PoolOp K → Array (State K)
  | .call k op => pool.setIfInBounds k (step A (pool.getD k (new A)) op)
  | .clone src dst => pool.setIfInBounds dst (clone (pool.getD src (new A)))
  | .cloneFrom src dst => pool.setIfInBounds dst (clone (pool.getD src (new A)))
  | .default dst => pool.setIfInBounds dst (Fft.default A)
  | .fresh dst => pool.setIfInBounds dst (new A)
  | .take src dst =>
    let v := pool.getD src (new A)
    (pool.setIfInBounds src (Fft.default A)).setIfInBounds dst v

/-- The pool after a whole program, starting from the given objects. -/
def poolAfter (A : Arith K) (pool : Array (State K)) (prog : List (PoolOp K)) : Array (State K) :=
  prog.foldl (poolStep A) pool

/-- Result of a call (the part the caller sees). -/
def result (A : Arith K) (s : State K) (op : Op K) : Except Panic (Out K) := (call A s op).map (·.2)

/-! ### Specification: integer convolution -/

/-- `∑_{s<n} f s`. -/
def sumTo (n : Nat) (f : Nat → Int) : Int :=
  match n with
  | 0 => 0
  | n + 1 => sumTo n f + f n

/-- Coefficient `u` of the product: `∑_{s+t=u} a_s b_t` — the mathematical definition. -/
def convAt (a b : Array Int) (u : Nat) : Int :=
  sumTo a.size (fun s => if s ≤ u ∧ u - s < b.size then a.getD s 0 * b.getD (u - s) 0 else 0)

/-- The integer convolution, coefficient by coefficient (`[]` if either side is empty). -/
def convSpec (a b : Array Int) : List Int :=
  if a.size = 0 ∨ b.size = 0 then [] else (List.range (a.size + b.size - 1)).map (convAt a b)

/-- `acc[k + j] += x * b[j]` for all `j`. -/
def convRow (x : Int) (b : Array Int) (k : Nat) (acc : Array Int) : Array Int :=
  forRange 0 b.size (fun j acc => acc.modify (k + j) (· + x * b.getD j 0)) acc

/-- Schoolbook convolution (`[]` if either side is empty); rows of zero coefficients skipped.
    This is the form the driver executes; `Lemmas/FftLoops.lean` proves `conv = convSpec`. -/
def conv (a b : Array Int) : List Int :=
  if a.size = 0 ∨ b.size = 0 then []
  else
    (forRange 0 a.size (fun i acc =>
      let x := a.getD i 0
      if x = 0 then acc else convRow x b i acc) (Array.replicate (a.size + b.size - 1) 0)).toList

/-! ### Specification of spectral expressions: arithmetic in `ℤ[i][x] / (xⁿ - 1)` -/

/-- Product of two Gaussian integers `(re, im)`. -/
def gmul (x y : Int × Int) : Int × Int := (x.1 * y.1 - x.2 * y.2, x.1 * y.2 + x.2 * y.1)

/-- Entry `u` of a coefficient sequence (zero beyond its end). -/
def gget (x : Array (Int × Int)) (u : Nat) : Int × Int := x.getD u (0, 0)

/-- Cyclic convolution of size `n`: coefficient `u` is `∑_{s<n} x_s · y_{(u - s) mod n}` — the product in `ℤ[i][x]/(xⁿ-1)`. -/
def cycConv (n : Nat) (x y : Array (Int × Int)) : Array (Int × Int) :=
  Array.ofFn (n := n) (fun u =>
    (sumTo n (fun s => (gmul (gget x s) (gget y ((u.val + n - s) % n))).1),
     sumTo n (fun s => (gmul (gget x s) (gget y ((u.val + n - s) % n))).2)))

/-- The sequence whose transform is the complex conjugate of the transform of `x`: `conj(x_{(n-u) mod n})`. -/
def conjSeq (n : Nat) (x : Array (Int × Int)) : Array (Int × Int) :=
  Array.ofFn (n := n) (fun u => ((gget x ((n - u.val) % n)).1, -(gget x ((n - u.val) % n)).2))

/-- `±1·x^j` or `±i·x^j` (`j < n`): one coefficient of norm 1, all others zero (its transform has modulus 1 in every bin). -/
def isUnitMonomial (n : Nat) (x : Array (Int × Int)) : Bool :=
  (List.range n).any (fun j =>
    (gget x j).1 * (gget x j).1 + (gget x j).2 * (gget x j).2 == 1
      && (List.range n).all (fun u => u == j || ((gget x u).1 == 0 && (gget x u).2 == 0)))

/-- `f x y` when both are defined. -/
def lift2 {α : Type} (f : α → α → Option α) : Option α → Option α → Option α
  | some x, some y => f x y
  | _, _ => none

/-- The coefficient sequence (length `n`, Gaussian integers) whose transform of size `n` the expression computes from the
    transforms of the operands `vs`; `none` where the property says nothing (a division by `k` that is not exact, a
    division by a spectrum that is not a unit monomial's). -/
def SExpr.den (n : Nat) (vs : List (Array Int)) : SExpr → Option (Array (Int × Int))
  | .leaf i => some (Array.ofFn (n := n) (fun u => ((vs.getD i #[]).getD u.val 0, 0)))
  | .zero => some (Array.ofFn (n := n) (fun _ => (0, 0)))
  | .one => some (Array.ofFn (n := n) (fun u => if u.val = 0 then (1, 0) else (0, 0)))
  | .ci => some (Array.ofFn (n := n) (fun u => if u.val = 0 then (0, 1) else (0, 0)))
  | .add a b => lift2 (fun x y =>
      some (Array.ofFn (n := n) (fun u => ((gget x u.val).1 + (gget y u.val).1, (gget x u.val).2 + (gget y u.val).2))))
      (a.den n vs) (b.den n vs)
  | .sub a b => lift2 (fun x y =>
      some (Array.ofFn (n := n) (fun u => ((gget x u.val).1 - (gget y u.val).1, (gget x u.val).2 - (gget y u.val).2))))
      (a.den n vs) (b.den n vs)
  | .mul a b => lift2 (fun x y => some (cycConv n x y)) (a.den n vs) (b.den n vs)
  | .div a b => lift2 (fun x y => if isUnitMonomial n y then some (cycConv n x (conjSeq n y)) else none) (a.den n vs) (b.den n vs)
  | .neg a => (a.den n vs).map (fun x => Array.ofFn (n := n) (fun u => (-(gget x u.val).1, -(gget x u.val).2)))
  | .conj a => (a.den n vs).map (conjSeq n)
  | .abs2 a => (a.den n vs).map (fun x => cycConv n x (conjSeq n x))
  | .absq a => (a.den n vs).map (fun x => cycConv n x (conjSeq n x))
  | .scale k a => (a.den n vs).map (fun x => Array.ofFn (n := n) (fun u => (k * (gget x u.val).1, k * (gget x u.val).2)))
  | .divS k a =>
    match a.den n vs with
    | some x =>
      if k ≠ 0 ∧ (List.range n).all (fun u => (gget x u).1 % k == 0 && (gget x u).2 % k == 0) then
        some (Array.ofFn (n := n) (fun u => ((gget x u.val).1 / k, (gget x u.val).2 / k)))
      else none
    | none => none

/-- The integer coefficients the inverse transform of the expression must deliver: defined when the sequence is real. -/
def SExpr.expected (n : Nat) (vs : List (Array Int)) (e : SExpr) : Option (List Int) :=
  match e.den n vs with
  | some x => if (List.range n).all (fun u => (gget x u).2 == 0) then some ((List.range n).map (fun u => (gget x u).1)) else none
  | none => none

end Rlib.Fft
