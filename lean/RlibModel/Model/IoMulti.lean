import RlibModel.Model.IoRoundTrip
/-!
Several live `io` objects on one thread (C09, wave 3; core Lean only, linked into `drv_writer`).

A history (`m` case line of `drv_writer` / `e_writer`) creates up to `slots` objects — Writers, each over its own
sink, and Readers, each over its own source — and uses them **interleaved**: calls on one object happen while
others hold pending output / buffered unread input; writers are flushed, moved, dropped and leaked (`mem::forget`) in any order.

Two entry points reach a writer (`WCall`):
* `pub o`  — the inherent API of `Model/Writer.lean` (`Writer::write`, `write_char`, `flush`, `out!`, `outln!`);
* `tr v`   — the public trait method called directly, `Writable::write(&v, &mut writer)` (what composite `Writable`
             impls use for their parts). It performs `acts buf v` **without** the `#[cfg(debug_assertions)] flush` that
             closes `Writer::write`, so bytes stay pending in the debug profile too.

* `runMulti`  — the model: every slot holds its own `WState` / `RState`; nothing is shared (that *is* the claim the
  differential run tests against the code: the Rust structs own their buffers).
* `specMulti` — the specification: per writer the text written to it so far (`WCall.spec`), per reader the bytes not
  yet consumed (C08's `Reader.specOp`). A flush / drop of writer `k` shows exactly the text of the calls addressed to
  `k`; a read on reader `k` answers from `k`'s own input.

`Lemmas/IoMulti.lean: runMulti_spec` proves `runMulti = specMulti` for every history of valid calls.
-/
namespace Rlib.IoMulti
open Rlib.Writer

/-- One call on a live writer. -/
inductive WCall where
  | pub (o : Op)        -- inherent API: `write`, `write_char`, `flush`, `out!`, `outln!`
  | tr (v : Val)        -- `Writable::write(&v, &mut writer)` called directly

/-- The calls it makes on the writer. -/
def WCall.acts (buf : Nat) : WCall → List Act
  | .pub o => opActs buf o
  | .tr v => Writer.acts buf v

/-- The bytes the user expects it to contribute. -/
def WCall.spec : WCall → ByteArray
  | .pub o => specOp o
  | .tr v => specVal v

def WCall.valid : WCall → Bool
  | .pub o => o.valid
  | .tr v => v.valid

/-- An explicit `flush()`: the sink is observed afterwards. -/
def WCall.isFlush : WCall → Bool
  | .pub .flush => true
  | _ => false

/-- Calls after which a flush-per-write (debug) build holds nothing pending: every inherent call that does
    anything at all (`out!()` without arguments does not exist in Rust and performs no call in the model). -/
def WCall.flushesInDebug : WCall → Bool
  | .pub (.out false []) => false
  | .pub _ => true
  | .tr _ => false

def runCall (c : Cfg) (s : WState) (k : WCall) : Except Panic WState := runActs c (k.acts c.buf) s

/-- What a slot holds in the model. A reader carries its loop fuel (`|input| + 1`, fixed at creation). -/
inductive Obj where
  | none
  | writer (s : WState)
  | reader (fuel : Nat) (s : Reader.RState)

/-- What a slot holds in the specification. -/
inductive SObj where
  | none
  | writer (text : ByteArray)          -- everything written to it so far
  | reader (rest : List UInt8)         -- input bytes not yet consumed

/-- One step of a history; `k` is the slot addressed. -/
inductive MOp where
  | newW (k : Nat)                                     -- `Writer::new(Box::new(fresh sink))`
  | newR (k rbuf rc : Nat) (text : List UInt8)         -- `Reader::new(Box::new(source))`: `text` in chunks of `rc` (harness schedule)
  | call (k : Nat) (c : WCall)
  | read (k : Nat) (op : Reader.Op)
  | move (k : Nat)                                     -- the object is moved to another address (no call)
  | drop (k : Nat)
  | leak (k : Nat)                                     -- `std::mem::forget`: the object ceases to exist without `Drop`; nothing is shown

def MOp.valid : MOp → Bool
  | .call _ c => c.valid
  | _ => true

def validAll : List MOp → Bool
  | [] => true
  | o :: os => o.valid && validAll os

/-- What a history shows. -/
inductive Ev where
  | flushed (k : Nat) (sink : ByteArray)      -- contents of writer `k`'s sink after an explicit `flush()`
  | dropped (k : Nat) (sink : ByteArray)      -- … after the writer was dropped
  | read (k : Nat) (o : Reader.Out)           -- result of a call on reader `k`
  | panic (e : Panic)                         -- ends the trace
  | undef                                     -- specification only: `char` read with no byte left
  | invalid                                   -- the step addresses a slot that does not hold such an object
  deriving DecidableEq

def slots : Nat := 8

def upd {α : Type} (f : Nat → α) (k : Nat) (v : α) : Nat → α := fun j => if j = k then v else f j

def consEv (e : Ev) (r : List Ev × Option Nat) : List Ev × Option Nat := (e :: r.1, r.2)

/-- End of the history: the writers still alive are dropped in slot order. -/
def closeFrom (st : Nat → Obj) : Nat → Nat → List Ev
  | 0, _ => []
  | n + 1, k =>
    match st k with
    | .writer s => .dropped k (drop s).sink :: closeFrom st n (k + 1)
    | _ => closeFrom st n (k + 1)

def closeSpecFrom (st : Nat → SObj) : Nat → Nat → List Ev
  | 0, _ => []
  | n + 1, k =>
    match st k with
    | .writer t => .dropped k t :: closeSpecFrom st n (k + 1)
    | _ => closeSpecFrom st n (k + 1)

/-- `behind` bookkeeping of the debug profile: index of the first inherent call after which its writer still held
    pending bytes (`none` = never; only tracked when `c.dbg`). -/
def noteBehind (c : Cfg) (cl : WCall) (s' : WState) (i : Nat) (b : Option Nat) : Option Nat :=
  if b.isNone && c.dbg && cl.flushesInDebug && s'.pend.size != 0 then some i else b

/-- **The model.** `i` = index of the step, `b` = `behind` so far. -/
def runMulti (c : Cfg) : List MOp → (Nat → Obj) → Nat → Option Nat → List Ev × Option Nat
  | [], st, _, b => (closeFrom st slots 0, b)
  | .newW k :: ops, st, i, b =>
    match decide (k < slots), st k with
    | true, .none => runMulti c ops (upd st k (.writer WState.init)) (i + 1) b
    | _, _ => ([.invalid], b)
  | .newR k rbuf rc text :: ops, st, i, b =>
    match decide (k < slots ∧ 0 < rbuf), st k with
    | true, .none =>
      runMulti c ops (upd st k (.reader (text.length + 1)
        (Reader.init rbuf (Reader.mkEvents (IoRT.harnessSched rc text.length) text #[])))) (i + 1) b
    | _, _ => ([.invalid], b)
  | .call k cl :: ops, st, i, b =>
    match st k with
    | .writer s =>
      match runCall c s cl with
      | .error e => ([.panic e], b)
      | .ok s' =>
        let r := runMulti c ops (upd st k (.writer s')) (i + 1) (noteBehind c cl s' i b)
        if cl.isFlush then consEv (.flushed k s'.sink) r else r
    | _ => ([.invalid], b)
  | .read k op :: ops, st, i, b =>
    match st k with
    | .reader fuel s =>
      match Reader.runOp fuel op s with
      | .error e => ([.panic e], b)
      | .ok (o, s') => consEv (.read k o) (runMulti c ops (upd st k (.reader fuel s')) (i + 1) b)
    | _ => ([.invalid], b)
  | .move k :: ops, st, i, b =>
    match st k with
    | .none => ([.invalid], b)
    | _ => runMulti c ops st (i + 1) b
  | .drop k :: ops, st, i, b =>
    match st k with
    | .writer s => consEv (.dropped k (drop s).sink) (runMulti c ops (upd st k .none) (i + 1) b)
    | .reader _ _ => runMulti c ops (upd st k .none) (i + 1) b
    | .none => ([.invalid], b)
  | .leak k :: ops, st, i, b =>
    match st k with
    | .none => ([.invalid], b)
    | _ => runMulti c ops (upd st k .none) (i + 1) b

/-- **The specification.** -/
def specMulti : List MOp → (Nat → SObj) → List Ev
  | [], st => closeSpecFrom st slots 0
  | .newW k :: ops, st =>
    match decide (k < slots), st k with
    | true, .none => specMulti ops (upd st k (.writer ByteArray.empty))
    | _, _ => [.invalid]
  | .newR k rbuf _ text :: ops, st =>
    match decide (k < slots ∧ 0 < rbuf), st k with
    | true, .none => specMulti ops (upd st k (.reader text))
    | _, _ => [.invalid]
  | .call k cl :: ops, st =>
    match st k with
    | .writer t =>
      let r := specMulti ops (upd st k (.writer (t ++ cl.spec)))
      if cl.isFlush then .flushed k (t ++ cl.spec) :: r else r
    | _ => [.invalid]
  | .read k op :: ops, st =>
    match st k with
    | .reader rest =>
      match Reader.specOp op rest with
      | none => [.undef]
      | some (.error e) => [.panic e]
      | some (.ok (o, r)) => .read k o :: specMulti ops (upd st k (.reader r))
    | _ => [.invalid]
  | .move k :: ops, st =>
    match st k with
    | .none => [.invalid]
    | _ => specMulti ops st
  | .drop k :: ops, st =>
    match st k with
    | .writer t => .dropped k t :: specMulti ops (upd st k .none)
    | .reader _ => specMulti ops (upd st k .none)
    | .none => [.invalid]
  | .leak k :: ops, st =>
    match st k with
    | .none => [.invalid]
    | _ => specMulti ops (upd st k .none)

/-- Reader calls inside C08's domain (valid tokens, no token read past the end); `true` for everything else. -/
def readsInDom : List MOp → (Nat → SObj) → Bool
  | [], _ => true
  | .newW k :: ops, st => readsInDom ops (upd st k (.writer ByteArray.empty))
  | .newR k _ _ text :: ops, st => readsInDom ops (upd st k (.reader text))
  | .call _ _ :: ops, st => readsInDom ops st
  | .read k op :: ops, st =>
    match st k with
    | .reader rest =>
      Reader.inDomOp op rest &&
      match Reader.specOp op rest with
      | some (.ok (_, r)) => readsInDom ops (upd st k (.reader r))
      | _ => false
    | _ => true
  | .move _ :: ops, st => readsInDom ops st
  | .drop k :: ops, st => readsInDom ops (upd st k .none)
  | .leak k :: ops, st => readsInDom ops (upd st k .none)

/-! ### What one object sees of a history (the isolation statement is about these) -/

/-- The calls addressed to slot `k` since it was last (re)created as a writer. -/
def callsOf (k : Nat) : List MOp → List WCall → List WCall
  | [], acc => acc
  | .newW j :: ops, acc => callsOf k ops (if j = k then [] else acc)
  | .call j cl :: ops, acc => callsOf k ops (if j = k then acc ++ [cl] else acc)
  | _ :: ops, acc => callsOf k ops acc

def specCalls : List WCall → ByteArray
  | [] => ByteArray.empty
  | cl :: cls => cl.spec ++ specCalls cls

/-! ### Characters: `write_char` … drop … `read::<char>()` (the `c` case lines) -/

/-- What `drv_writer` runs for a `c` line: every non-whitespace byte of the dropped writer's sink is read with one
    `read::<char>()`, then `is_eof()`; delivery by the harness schedule `rc`, reader buffer `rbuf`. -/
def readBackChars (rbuf rc : Nat) (text : List UInt8) : List Reader.Res :=
  Reader.runScript (text.length + 1)
    ((text.filter (fun b => !Reader.isWs b)).map (fun _ => Reader.Op.read .chr) ++ [.eof])
    (Reader.init rbuf (Reader.mkEvents (IoRT.harnessSched rc text.length) text #[]))

def expectedChars (codes : List Nat) : List Reader.Res :=
  ((codes.map UInt8.ofNat).filter (fun b => !Reader.isWs b)).map (fun b => Reader.Res.out (.val (.chr b)))
    ++ [.out (.bool true)]

end Rlib.IoMulti
