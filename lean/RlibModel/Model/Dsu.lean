import RlibModel.Model.Common
/-
Model of `rlib/dsu/src/lib.rs` (`DSU::{new, reset, par, un, check, size}`, derived `Clone`).

State: the two vectors `p` (parent pointers) and `sz` (sizes, meaningful at roots) as `Array Nat`.
Every Rust slice index is a *checked* access here: out of range = `panic:index`, like the code.
`par` is the recursive find with full path compression; the recursion depth is the model's fuel
(`fuel = 0` = "stack exhausted", reported as `fuel`); every find of a history runs with only
`fuelFor s = log2 n + 1` frames, and `C05.par_spec` proves that this is always enough (`fuel > log2 n`),
so a forest deeper than `log2 n` would be a `fuel` error of the executed model as well.
`usize` overflow of `sz[v] += sz[u]` is not modelled (sizes are bounded by `n`; residue of §6 C05).

A history (`Op` list) runs on a pair of structures (`Sys`): the current one and a saved clone, so
that `clone` (deep copy of both vectors in Rust, the identity on values here), `swap`, and the two
directions of `Clone::clone_from` between the two live structures (`cloneFrom`: the saved one is overwritten by
the current one, `restore`: the current one is rolled back to the saved one; whatever the destination held before
- fresh, used, shorter, longer - is gone, as std's contract `a.clone_from(&b)` = `a = b.clone()` says) are part
of the histories the theorem `C05.history_refines` quantifies over.
-/
namespace Rlib.Dsu

structure S where
  p : Array Nat
  sz : Array Nat

/-- `DSU::new(n)`: `p = (0..n).collect()`, `sz = vec![1; n]`. -/
def new (n : Nat) : S := ⟨Array.range n, Array.replicate n 1⟩

/-- `Vec::resize(n, d)`. -/
def resize (a : Array Nat) (n d : Nat) : Array Nat :=
  if a.size ≤ n then a ++ Array.replicate (n - a.size) d else a.take n

/-- `for i in 0..n { a[i] = f(i) }` (every index is in range after the `resize`). -/
def fillWith (a : Array Nat) (n : Nat) (f : Nat → Nat) : Array Nat :=
  (List.range n).foldl (fun a i => a.setIfInBounds i (f i)) a

/-- `reset(n)`: resize both vectors and re-initialise the first `n` entries. -/
def reset (s : S) (n : Nat) : S :=
  ⟨fillWith (resize s.p n 0) n (fun i => i), fillWith (resize s.sz n 0) n (fun _ => 1)⟩

/-- `par(v)`: `if self.p[v] != v { self.p[v] = self.par(self.p[v]); } self.p[v]`. -/
def par : Nat → S → Nat → Except Panic (S × Nat)
  | 0, s, v => if v < s.p.size then .error .fuel else .error .index   -- the index check comes first in the code
  | f + 1, s, v =>
    if h : v < s.p.size then
      if s.p[v] = v then .ok (s, v)
      else
        match par f s s.p[v] with
        | .error e => .error e
        | .ok (⟨p', sz'⟩, r) =>
          if h' : v < p'.size then .ok (⟨p'.set v r h', sz'⟩, r) else .error .index
    else .error .index

/-- `un(u, v)`: two finds, swap so that the smaller root `u` goes below `v`, accumulate the size. -/
def un (fuel : Nat) (s : S) (u v : Nat) : Except Panic (S × Bool) :=
  match par fuel s u with
  | .error e => .error e
  | .ok (s1, ru) =>
    match par fuel s1 v with
    | .error e => .error e
    | .ok (⟨p2, sz2⟩, rv) =>
      if ru = rv then .ok (⟨p2, sz2⟩, false)
      else
        if h : (ru < sz2.size ∧ rv < sz2.size) ∧ (ru < p2.size ∧ rv < p2.size) then
          if sz2[ru]'h.1.1 > sz2[rv]'h.1.2 then
            -- swapped: `rv` goes below `ru`
            .ok (⟨p2.set rv ru h.2.2, sz2.set ru (sz2[ru]'h.1.1 + sz2[rv]'h.1.2) h.1.1⟩, true)
          else
            .ok (⟨p2.set ru rv h.2.1, sz2.set rv (sz2[rv]'h.1.2 + sz2[ru]'h.1.1) h.1.2⟩, true)
        else .error .index

/-- `check(u, v)`: `self.par(u) == self.par(v)`. -/
def check (fuel : Nat) (s : S) (u v : Nat) : Except Panic (S × Bool) :=
  match par fuel s u with
  | .error e => .error e
  | .ok (s1, ru) =>
    match par fuel s1 v with
    | .error e => .error e
    | .ok (s2, rv) => .ok (s2, ru == rv)

/-- `size(v)`: `let v = self.par(v); self.sz[v]`. -/
def size (fuel : Nat) (s : S) (v : Nat) : Except Panic (S × Nat) :=
  match par fuel s v with
  | .error e => .error e
  | .ok (s1, r) => if h : r < s1.sz.size then .ok (s1, s1.sz[r]) else .error .index

/-! ### histories -/

inductive Op where
  | un (u v : Nat)
  | par (v : Nat)
  | check (u v : Nat)
  | size (v : Nat)
  | reset (n : Nat)
  | clone            -- saved := current.clone()
  | swap             -- exchange current and saved
  | cloneFrom        -- saved.clone_from(&current)   (std: equivalent to `saved = current.clone()`, may reuse saved's allocations)
  | restore          -- current.clone_from(&saved)   (roll the structure back to the snapshot; the snapshot stays)
  deriving Repr, DecidableEq

inductive Res where
  | bool (b : Bool)
  | nat (k : Nat)
  | unit
  deriving Repr, DecidableEq

/-- the structure under test and a saved clone -/
structure Sys where
  cur : S
  saved : S

/-- the stack budget of every find in a history: `log2 n + 1` frames -/
def fuelFor (s : S) : Nat := Nat.log2 s.p.size + 1

/-- one operation; every find gets only `log2 n + 1` frames. -/
def step : Sys → Op → Except Panic (Sys × Res)
  | ⟨cur, saved⟩, .un u v =>
    match un (fuelFor cur) cur u v with
    | .error e => .error e
    | .ok (s, b) => .ok (⟨s, saved⟩, .bool b)
  | ⟨cur, saved⟩, .par v =>
    match par (fuelFor cur) cur v with
    | .error e => .error e
    | .ok (s, r) => .ok (⟨s, saved⟩, .nat r)
  | ⟨cur, saved⟩, .check u v =>
    match check (fuelFor cur) cur u v with
    | .error e => .error e
    | .ok (s, b) => .ok (⟨s, saved⟩, .bool b)
  | ⟨cur, saved⟩, .size v =>
    match size (fuelFor cur) cur v with
    | .error e => .error e
    | .ok (s, k) => .ok (⟨s, saved⟩, .nat k)
  | ⟨cur, saved⟩, .reset n => .ok (⟨reset cur n, saved⟩, .unit)
  | ⟨cur, _⟩, .clone => .ok (⟨cur, cur⟩, .unit)
  | ⟨cur, saved⟩, .swap => .ok (⟨saved, cur⟩, .unit)
  | ⟨cur, _⟩, .cloneFrom => .ok (⟨cur, cur⟩, .unit)
  | ⟨_, saved⟩, .restore => .ok (⟨saved, saved⟩, .unit)

/-- a whole history; the first panic ends it. -/
def run (y : Sys) : List Op → Except Panic (Sys × List Res)
  | [] => .ok (y, [])
  | op :: ops =>
    match step y op with
    | .error e => .error e
    | .ok (y1, r) =>
      match run y1 ops with
      | .error e => .error e
      | .ok (y2, rs) => .ok (y2, r :: rs)

/-- `DSU::new(n)` and a clone of it. -/
def initSys (n : Nat) : Sys := ⟨new n, new n⟩

/-! ### Executable specification: the partition itself (quick-find with member lists)

`label[x]` names the class of `x`; `members[l]` lists the class named `l`.  A union relabels the
smaller class.  Nothing here looks like the forest of the implementation. -/

structure Part where
  n : Nat
  label : Array Nat
  members : Array (List Nat)
  csize : Array Nat            -- csize[l] = length of members[l] (kept so that `size` is O(1))

def Part.new (n : Nat) : Part :=
  ⟨n, Array.range n, (Array.range n).map (fun i => [i]), Array.replicate n 1⟩

def Part.conn (q : Part) (u v : Nat) : Bool := q.label.getD u u == q.label.getD v v

def Part.size (q : Part) (v : Nat) : Nat := q.csize.getD (q.label.getD v v) 0

/-- join the classes of `u` and `v`; `true` iff they were different. -/
def Part.union : Part → Nat → Nat → Part × Bool
  | ⟨n, label, members, csize⟩, u, v =>
    let a := label.getD u u
    let b := label.getD v v
    if a = b then (⟨n, label, members, csize⟩, false)
    else
      let ca := csize.getD a 0
      let cb := csize.getD b 0
      if ca ≤ cb then
        let ma := members.getD a []
        let members := members.setIfInBounds a []
        let mb := members.getD b []
        let members := members.setIfInBounds b []
        (⟨n, ma.foldl (fun l x => l.setIfInBounds x b) label,
          members.setIfInBounds b (ma ++ mb), (csize.setIfInBounds b (ca + cb)).setIfInBounds a 0⟩, true)
      else
        let mb := members.getD b []
        let members := members.setIfInBounds b []
        let ma := members.getD a []
        let members := members.setIfInBounds a []
        (⟨n, mb.foldl (fun l x => l.setIfInBounds x a) label,
          members.setIfInBounds a (mb ++ ma), (csize.setIfInBounds a (ca + cb)).setIfInBounds b 0⟩, true)

end Rlib.Dsu
