import RlibModel.Model.Common
/-
Model of `rlib/io/src/reader.rs` (`Reader`, `Readable` instances), core Lean only.

* The byte source handed to `Reader::new` is a list of `Event`s: a data chunk the source is
  willing to hand over in one `read` call (the remainder of a chunk that does not fit stays at
  the head), or `intr` = `Err(ErrorKind::Interrupted)`. The empty list answers every `read`
  with `Ok(0)`.
* `RState` keeps the whole buffer *including stale contents* (bytes left over from earlier
  refills), `begin`, `end`, `eof`, exactly the fields of the Rust struct. `BUF` is not a
  constant of the model: it is the size of `buf` in the initial state (`init BUF src`).
* Every Rust function is mirrored by a function of the same name; `while` loops take a fuel
  argument (`Lemmas/Reader.lean` proves that `|remaining bytes| + 1` is enough, so `fuel`
  errors are unreachable). Slice-index panics are explicit (`Panic.index`), arithmetic on the
  integer types is checked (`Panic.overflow`: the harness builds rlib with overflow checks).
  `debug_assert!`s are off (release profile), which is what the harness builds.
* The *specification* (`spec…`) is the same API as pure functions of the remaining byte string.
-/
namespace Rlib.Reader

/-! ### Source -/

inductive Event where
  | data (bs : List UInt8)   -- a non-empty chunk the source hands over in one read (if it fits)
  | intr                     -- `Err(ErrorKind::Interrupted)`
  deriving Repr, DecidableEq, Inhabited

/-- All data bytes of an event list, in order (what the source will ever deliver). -/
def srcBytes : List Event → List UInt8
  | [] => []
  | .data bs :: t => bs ++ srcBytes t
  | .intr :: t => srcBytes t

/-- The `loop { match stdin.read(&mut buf[end..]) { Err(Interrupted) => continue, r => break r.unwrap() } }`
    of `refill`, for a buffer with `room` free bytes: skips `intr` events, takes
    `min room |chunk|` bytes of the first data chunk, `[]` (= `Ok(0)`) when the source is exhausted. -/
def readRetry (room : Nat) : List Event → List UInt8 × List Event
  | [] => ([], [])
  | .intr :: t => readRetry room t
  | .data bs :: t =>
    let k := min room bs.length
    (bs.take k, if k < bs.length then .data (bs.drop k) :: t else t)

/-! ### Delivery schedules (how the harness and the driver describe a source) -/

/-- A schedule: items `(none, n)` = `n` Interrupted errors, `(some k, n)` = `n` chunks of up to `k` bytes. -/
abbrev Sched := List (Option Nat × Nat)

/-- `n` chunks of up to `k` bytes each (stops when the data is exhausted). -/
def chunkN (k : Nat) : Nat → List UInt8 → Array Event → List UInt8 × Array Event
  | 0, data, acc => (data, acc)
  | n + 1, data, acc =>
    if data.isEmpty then (data, acc)
    else chunkN k n (data.drop k) (acc.push (.data (data.take k)))

def pushN (acc : Array Event) (ev : Event) : Nat → Array Event
  | 0 => acc
  | n + 1 => pushN (acc.push ev) ev n

/-- The event list of (schedule, data): chunk items met when no data is left are skipped, Interrupted items
    are kept, and after the schedule all remaining data is one chunk. -/
def mkEvents : Sched → List UInt8 → Array Event → List Event
  | [], data, acc => if data.isEmpty then acc.toList else (acc.push (.data data)).toList
  | (none, n) :: t, data, acc => mkEvents t data (pushN acc .intr n)
  | (some k, n) :: t, data, acc =>
    let r := chunkN k n data acc
    mkEvents t r.1 r.2

/-! ### Reader state -/

structure RState where
  buf : Array UInt8      -- `[u8; BUF_SIZE]`, stale contents kept
  b : Nat                -- `begin`
  e : Nat                -- `end`
  eof : Bool
  src : List Event       -- `stdin`
  deriving Repr

/-- `Reader::new`. -/
def init (BUF : Nat) (src : List Event) : RState :=
  { buf := Array.replicate BUF 0, b := 0, e := 0, eof := false, src := src }

/-- The unread part of the buffer, `buf[begin..end]`. -/
def window (s : RState) : List UInt8 := (s.buf.extract s.b s.e).toList

/-- Everything that is still to be read: the abstraction function of the refinement. -/
def R (s : RState) : List UInt8 := window s ++ srcBytes s.src

/-- Store `bs` into `buf[i..]` (what `read` does to the slice it is given; `copy_within`). -/
def writeAt (buf : Array UInt8) (i : Nat) : List UInt8 → Array UInt8
  | [] => buf
  | x :: xs => writeAt (buf.setIfInBounds i x) (i + 1) xs

/-- `fn refill(&mut self)`. -/
def refill (s : RState) : Except Panic RState :=
  if s.eof then .ok s else
  -- `self.buf.copy_within(self.begin..self.end, 0)` panics on an invalid range
  if s.b ≠ 0 ∧ (s.e < s.b ∨ s.buf.size < s.e) then .error .index else
  let buf1 := if s.b ≠ 0 then writeAt s.buf 0 (window s) else s.buf
  let e1 := if s.b ≠ 0 then s.e - s.b else s.e
  -- `&mut self.buf[self.end..]`
  if buf1.size < e1 then .error .index else
  let r := readRetry (buf1.size - e1) s.src
  .ok { buf := writeAt buf1 e1 r.1, b := 0, e := e1 + r.1.length, eof := r.1.isEmpty, src := r.2 }

/-- The recurring `if self.begin == self.end { self.refill(); }`. -/
def ensure (s : RState) : Except Panic RState :=
  if s.b = s.e then refill s else .ok s

/-- `fn peek(&mut self) -> u8` (after fix 30a182a: 0 when the input is exhausted). -/
def peek (s : RState) : Except Panic (UInt8 × RState) :=
  match ensure s with
  | .error e => .error e
  | .ok s =>
    if s.b = s.e then .ok (0, s)
    else match s.buf[s.b]? with
      | some c => .ok (c, s)
      | none => .error .index

/-- `self.begin += 1`. -/
def adv (s : RState) : RState := { s with b := s.b + 1 }

/-- `u8::is_ascii_whitespace`: space, tab, LF, FF, CR. -/
def isWs (c : UInt8) : Bool := c == 32 || c == 9 || c == 10 || c == 12 || c == 13

/-- `fn skip_whitespace(&mut self)`. -/
def skipWs : Nat → RState → Except Panic RState
  | 0, _ => .error .fuel
  | fuel + 1, s =>
    match ensure s with
    | .error e => .error e
    | .ok s =>
      if s.eof then .ok s else
      match peek s with
      | .error e => .error e
      | .ok (c, s) =>
        if isWs c then
          match ensure (adv s) with
          | .error e => .error e
          | .ok s => skipWs fuel s
        else .ok s

/-- The token loop shared by `String` and the integer types:
    `while { if begin == end { refill } ; !eof && !peek().is_ascii_whitespace() } { acc = step acc byte; begin += 1 }`.
    `step` may panic (integer arithmetic). -/
def tokenLoop {α : Type} (step : α → UInt8 → Except Panic α) : Nat → RState → α → Except Panic (α × RState)
  | 0, _, _ => .error .fuel
  | fuel + 1, s, acc =>
    match ensure s with
    | .error e => .error e
    | .ok s =>
      if s.eof then .ok (acc, s) else
      match peek s with
      | .error e => .error e
      | .ok (c, s) =>
        if isWs c then .ok (acc, s) else
        match step acc c with
        | .error e => .error e
        | .ok acc => tokenLoop step fuel (adv s) acc

/-- `impl Readable for String` (`result.push(peek() as char)`; the result is kept as bytes). -/
def readString (fuel : Nat) (s : RState) : Except Panic (List UInt8 × RState) :=
  match skipWs fuel s with
  | .error e => .error e
  | .ok s =>
    match tokenLoop (fun (acc : Array UInt8) c => .ok (acc.push c)) fuel s #[] with
    | .error e => .error e
    | .ok (acc, s) => .ok (acc.toList, s)

/-- `impl Readable for char`: no emptiness test in a release build — at end of input `peek`
    yields 0 and `begin` moves past `end` (outside the property's domain; the spec is undefined there). -/
def readChar (fuel : Nat) (s : RState) : Except Panic (UInt8 × RState) :=
  match skipWs fuel s with
  | .error e => .error e
  | .ok s =>
    match peek s with
    | .error e => .error e
    | .ok (c, s) => .ok (c, adv s)

/-- One iteration of the digit loops of `read_signed!` / `read_unsigned!`:
    `result = result * 10 ± (byte - b'0') as $t` with overflow checks on `*`, on the `u8`
    subtraction and on `±`; the cast `as $t` wraps (only `i8` can be affected). -/
def digitStep (t : IntTy) (neg : Bool) (acc : Int) (c : UInt8) : Except Panic Int :=
  match checked t (acc * 10) with
  | .error e => .error e
  | .ok m =>
    if c < 48 then .error .overflow else
    let d := t.wrap ((c.toNat - 48 : Nat) : Int)
    checked t (if neg then m - d else m + d)

/-- `read_signed!($t)` / `read_unsigned!($t)`. -/
def readInt (t : IntTy) (fuel : Nat) (s : RState) : Except Panic (Int × RState) :=
  match skipWs fuel s with
  | .error e => .error e
  | .ok s =>
    if t.signed then
      match peek s with
      | .error e => .error e
      | .ok (c, s) =>
        if c = 45 then tokenLoop (digitStep t true) fuel (adv s) 0
        else tokenLoop (digitStep t false) fuel s 0
    else tokenLoop (digitStep t false) fuel s 0

/-- The loop of `read_line`; returns the line and `read_something`. -/
def lineLoop : Nat → RState → Array UInt8 → Bool → Except Panic (Array UInt8 × Bool × RState)
  | 0, _, _, _ => .error .fuel
  | fuel + 1, s, acc, rs =>
    match ensure s with
    | .error e => .error e
    | .ok s =>
      if s.eof then .ok (acc, rs, s) else
      match peek s with
      | .error e => .error e
      | .ok (c, s) =>
        let acc := acc.push c          -- `result.push(c)`
        let s := adv s                 -- `self.begin += 1; read_something = true`
        if c = 13 then
          -- `c == '\r' && self.peek() == b'\n'`
          match peek s with
          | .error e => .error e
          | .ok (c2, s) =>
            if c2 = 10 then .ok (acc.pop, true, adv s)    -- `result.pop(); self.begin += 1; break`
            else lineLoop fuel s acc true
        else if c = 10 then .ok (acc.pop, true, s)       -- `result.pop(); break`
        else lineLoop fuel s acc true

/-- `pub fn read_line(&mut self) -> Option<String>`. -/
def readLine (fuel : Nat) (s : RState) : Except Panic (Option (List UInt8) × RState) :=
  match lineLoop fuel s #[] false with
  | .error e => .error e
  | .ok (acc, rs, s) => .ok (if rs then some acc.toList else none, s)

/-- `pub fn read_lines(&mut self) -> Vec<String>`: `(0..).map_while(|_| self.read_line()).collect()`. -/
def readLines (fuel : Nat) : Nat → RState → Array (List UInt8) → Except Panic (List (List UInt8) × RState)
  | 0, _, _ => .error .fuel
  | n + 1, s, acc =>
    match readLine fuel s with
    | .error e => .error e
    | .ok (none, s) => .ok (acc.toList, s)
    | .ok (some l, s) => readLines fuel n s (acc.push l)

/-- `pub fn is_eof(&mut self) -> bool`. -/
def isEof (fuel : Nat) (s : RState) : Except Panic (Bool × RState) :=
  match skipWs fuel s with
  | .error e => .error e
  | .ok s => .ok (s.eof, s)

/-! ### Values, operations, scripts -/

/-- The `Readable` types that are not tuples. -/
inductive Atom where
  | int (t : IntTy)
  | str
  | chr
  deriving Repr, DecidableEq, Inhabited

inductive Val where
  | int (v : Int)
  | str (bs : List UInt8)
  | chr (c : UInt8)
  deriving Repr, DecidableEq, Inhabited

/-- `T::read(reader)` for a non-tuple `T`. -/
def readAtom (fuel : Nat) : Atom → RState → Except Panic (Val × RState)
  | .int t, s => match readInt t fuel s with
    | .error e => .error e
    | .ok (v, s) => .ok (.int v, s)
  | .str, s => match readString fuel s with
    | .error e => .error e
    | .ok (v, s) => .ok (.str v, s)
  | .chr, s => match readChar fuel s with
    | .error e => .error e
    | .ok (v, s) => .ok (.chr v, s)

/-- `read_tuple!`: `($($t::read(reader)),*)`, components left to right. -/
def readTuple (fuel : Nat) : List Atom → RState → Except Panic (List Val × RState)
  | [], s => .ok ([], s)
  | a :: as, s =>
    match readAtom fuel a s with
    | .error e => .error e
    | .ok (v, s) =>
      match readTuple fuel as s with
      | .error e => .error e
      | .ok (vs, s) => .ok (v :: vs, s)

/-- `pub fn read_vec<T>(&mut self, n)`: `n` times `self.read()`; `T` an atom (`[a]`) or a tuple. -/
def readVec (fuel : Nat) (as : List Atom) : Nat → RState → Except Panic (List (List Val) × RState)
  | 0, s => .ok ([], s)
  | n + 1, s =>
    match readTuple fuel as s with
    | .error e => .error e
    | .ok (row, s) =>
      match readVec fuel as n s with
      | .error e => .error e
      | .ok (rows, s) => .ok (row :: rows, s)

/-- One call of the public API. -/
inductive Op where
  | read (a : Atom)                    -- `reader.read::<T>()`, `T` not a tuple
  | tuple (as : List Atom)             -- `reader.read::<(A, B, …)>()`
  | vec (as : List Atom) (n : Nat)     -- `reader.read_vec::<T>(n)`; `as = [a]` for an atom, else a tuple
  | line                               -- `reader.read_line()`
  | lines                              -- `reader.read_lines()`
  | eof                                -- `reader.is_eof()`
  deriving Repr, DecidableEq, Inhabited

inductive Out where
  | val (v : Val)
  | tup (vs : List Val)
  | vec (rows : List (List Val))
  | line (l : Option (List UInt8))
  | lines (ls : List (List UInt8))
  | bool (b : Bool)
  deriving Repr, DecidableEq, Inhabited

def runOp (fuel : Nat) : Op → RState → Except Panic (Out × RState)
  | .read a, s => match readAtom fuel a s with
    | .error e => .error e
    | .ok (v, s) => .ok (.val v, s)
  | .tuple as, s => match readTuple fuel as s with
    | .error e => .error e
    | .ok (vs, s) => .ok (.tup vs, s)
  | .vec as n, s => match readVec fuel as n s with
    | .error e => .error e
    | .ok (rows, s) => .ok (.vec rows, s)
  | .line, s => match readLine fuel s with
    | .error e => .error e
    | .ok (l, s) => .ok (.line l, s)
  | .lines, s => match readLines fuel fuel s #[] with
    | .error e => .error e
    | .ok (ls, s) => .ok (.lines ls, s)
  | .eof, s => match isEof fuel s with
    | .error e => .error e
    | .ok (b, s) => .ok (.bool b, s)

/-- What a script shows to its caller: the results in order, ended by the first panic. `undef`
    only occurs in specification traces (`char` read with no byte left). -/
inductive Res where
  | out (o : Out)
  | panic (e : Panic)
  | undef
  deriving Repr, DecidableEq, Inhabited

def runScript (fuel : Nat) : List Op → RState → List Res
  | [], _ => []
  | op :: ops, s =>
    match runOp fuel op s with
    | .error e => [.panic e]
    | .ok (o, s) => .out o :: runScript fuel ops s

/-! ### Specification: the same API on the remaining byte string -/

/-- Fold a possibly panicking step over a token. -/
def foldE {α : Type} (step : α → UInt8 → Except Panic α) : α → List UInt8 → Except Panic α
  | acc, [] => .ok acc
  | acc, c :: cs =>
    match step acc c with
    | .error e => .error e
    | .ok acc => foldE step acc cs

def specSkipWs (rest : List UInt8) : List UInt8 := rest.dropWhile isWs

/-- The next token: maximal run of non-whitespace bytes, and what follows it. -/
def specTok (rest : List UInt8) : List UInt8 × List UInt8 :=
  (rest.takeWhile (fun c => !isWs c), rest.dropWhile (fun c => !isWs c))

def specString (rest : List UInt8) : List UInt8 × List UInt8 := specTok (specSkipWs rest)

/-- Undefined (`none`) when only whitespace is left. -/
def specChar (rest : List UInt8) : Option (UInt8 × List UInt8) :=
  match specSkipWs rest with
  | [] => none
  | c :: r => some (c, r)

/-- Fold `step` over the next token of `rest`; the result (or the panic) and what follows the token. -/
def specFoldTok {α : Type} (step : α → UInt8 → Except Panic α) (acc : α) (rest : List UInt8) :
    Except Panic (α × List UInt8) :=
  match foldE step acc (specTok rest).1 with
  | .error e => .error e
  | .ok v => .ok (v, (specTok rest).2)

/-- Integer of type `t`: skip whitespace, an optional `-` (signed types only), then the decimal
    fold `digitStep` over the token. -/
def specInt (t : IntTy) (rest : List UInt8) : Except Panic (Int × List UInt8) :=
  let r1 := specSkipWs rest
  let neg := t.signed && r1.head? == some 45
  specFoldTok (digitStep t neg) 0 (if neg then r1.tail else r1)

/-- `read_line`: `none` at end of input; otherwise the bytes before the first LF (the LF is consumed,
    one CR directly before it is dropped); without LF everything that is left, verbatim. -/
def specLine (rest : List UInt8) : Option (List UInt8) × List UInt8 :=
  if rest = [] then (none, []) else
  let line := rest.takeWhile (fun c => c != 10)
  match rest.dropWhile (fun c => c != 10) with
  | [] => (some line, [])
  | _ :: r => (some (if line.getLast? = some 13 then line.dropLast else line), r)

def specLines : Nat → List UInt8 → List (List UInt8)
  | 0, _ => []
  | n + 1, rest =>
    match specLine rest with
    | (none, _) => []
    | (some l, r) => l :: specLines n r

def specIsEof (rest : List UInt8) : Bool × List UInt8 :=
  ((specSkipWs rest).isEmpty, specSkipWs rest)

/-- `none` = outside the domain (a `char` is read with no byte left). -/
def specAtom : Atom → List UInt8 → Option (Except Panic (Val × List UInt8))
  | .int t, rest => some (match specInt t rest with
    | .error e => .error e
    | .ok (v, r) => .ok (.int v, r))
  | .str, rest => some (.ok (.str (specString rest).1, (specString rest).2))
  | .chr, rest => match specChar rest with
    | none => none
    | some (c, r) => some (.ok (.chr c, r))

def specTuple : List Atom → List UInt8 → Option (Except Panic (List Val × List UInt8))
  | [], rest => some (.ok ([], rest))
  | a :: as, rest =>
    match specAtom a rest with
    | none => none
    | some (.error e) => some (.error e)
    | some (.ok (v, r)) =>
      match specTuple as r with
      | none => none
      | some (.error e) => some (.error e)
      | some (.ok (vs, r)) => some (.ok (v :: vs, r))

def specVec (as : List Atom) : Nat → List UInt8 → Option (Except Panic (List (List Val) × List UInt8))
  | 0, rest => some (.ok ([], rest))
  | n + 1, rest =>
    match specTuple as rest with
    | none => none
    | some (.error e) => some (.error e)
    | some (.ok (row, r)) =>
      match specVec as n r with
      | none => none
      | some (.error e) => some (.error e)
      | some (.ok (rows, r)) => some (.ok (row :: rows, r))

def specOp : Op → List UInt8 → Option (Except Panic (Out × List UInt8))
  | .read a, rest => match specAtom a rest with
    | none => none
    | some (.error e) => some (.error e)
    | some (.ok (v, r)) => some (.ok (.val v, r))
  | .tuple as, rest => match specTuple as rest with
    | none => none
    | some (.error e) => some (.error e)
    | some (.ok (vs, r)) => some (.ok (.tup vs, r))
  | .vec as n, rest => match specVec as n rest with
    | none => none
    | some (.error e) => some (.error e)
    | some (.ok (rows, r)) => some (.ok (.vec rows, r))
  | .line, rest => some (.ok (.line (specLine rest).1, (specLine rest).2))
  | .lines, rest => some (.ok (.lines (specLines (rest.length + 1) rest), []))
  | .eof, rest => some (.ok (.bool (specIsEof rest).1, (specIsEof rest).2))

def specScript : List Op → List UInt8 → List Res
  | [], _ => []
  | op :: ops, rest =>
    match specOp op rest with
    | none => [.undef]
    | some (.error e) => [.panic e]
    | some (.ok (o, r)) => .out o :: specScript ops r

/-! ### The property's domain: valid tokens, no read past the end

C08 quantifies over inputs built from *valid* tokens and scripts that never read a token past the end. The
specification above also answers outside that domain (garbage or overflowing integer tokens, token reads with
nothing left), because the model mirrors what the release build does there; those answers are *not* part of the
property. `inDomOp` says whether an operation is inside the domain; the driver constrains (`S`) only the prefix of
a script that is, and prints `~` from the first operation outside it. The definitions are independent of
`digitStep` (plain positional value, range test). -/

/-- Positional value of a digit string (no checks). -/
def decVal (ds : List UInt8) : Nat := ds.foldl (fun a c => a * 10 + (c.toNat - 48)) 0

/-- Non-empty and all ASCII digits. -/
def allDigits (ds : List UInt8) : Bool := !ds.isEmpty && ds.all (fun c => 48 ≤ c && c ≤ 57)

/-- `tok` is `-?[0-9]+` (`-` only for signed types) and its value is representable in `t`. -/
def validIntTok (t : IntTy) (tok : List UInt8) : Bool :=
  match tok with
  | 45 :: ds => t.signed && allDigits ds && t.fits (-(decVal ds : Int))
  | ds => allDigits ds && t.fits (decVal ds : Int)

/-- The value the property promises for a valid integer token. -/
def tokValue (tok : List UInt8) : Int :=
  match tok with
  | 45 :: ds => -(decVal ds : Int)
  | ds => (decVal ds : Int)

def inDomAtom : Atom → List UInt8 → Bool
  | .int t, rest => validIntTok t (specString rest).1
  | .str, rest => !(specString rest).1.isEmpty
  | .chr, rest => !(specSkipWs rest).isEmpty

def inDomTuple : List Atom → List UInt8 → Bool
  | [], _ => true
  | a :: as, rest =>
    inDomAtom a rest &&
    match specAtom a rest with
    | some (.ok (_, r)) => inDomTuple as r
    | _ => false

def inDomVec (as : List Atom) : Nat → List UInt8 → Bool
  | 0, _ => true
  | n + 1, rest =>
    inDomTuple as rest &&
    match specTuple as rest with
    | some (.ok (_, r)) => inDomVec as n r
    | _ => false

def inDomOp : Op → List UInt8 → Bool
  | .read a, rest => inDomAtom a rest
  | .tuple as, rest => inDomTuple as rest
  | .vec as n, rest => inDomVec as n rest
  | .line, _ => true
  | .lines, _ => true
  | .eof, _ => true

/-- Number of leading operations of a script that are inside the domain. -/
def domPrefix : List Op → List UInt8 → Nat
  | [], _ => 0
  | op :: ops, rest =>
    if inDomOp op rest then
      match specOp op rest with
      | some (.ok (_, r)) => 1 + domPrefix ops r
      | _ => 0
    else 0

end Rlib.Reader
