import RlibModel.Model.Decimal
/-
Model of `rlib/io/src/writer.rs` (+ `output_macro.rs`) — core Lean only.

```
pub struct Writer { buf: [u8; BUF_SIZE], end: usize, stdout: Box<dyn Write> }
write<T: Writable>(&mut self, t)  { t.write(self); #[cfg(debug_assertions)] self.flush(); }
write_char(&mut self, c)          { self.write_bytes(&[c as u8]); #[cfg(debug_assertions)] self.flush(); }
flush(&mut self)                  { if self.end == 0 { return; } self.stdout.write_all(&self.buf[..self.end]).unwrap(); self.end = 0; }
reserve(&mut self, size)          { if self.end + size > self.buf.len() { self.flush(); } }
write_bytes(&mut self, buf)       { self.reserve(buf.len()); self.buf[self.end..self.end + buf.len()].copy_from_slice(buf); self.end += buf.len(); }
impl Drop                         { self.flush() }
```

State: `pend` = `buf[..end]` (bytes accepted but not yet handed to the sink), `sink` = everything
the sink has received (std's `write_all` is trusted to deliver a whole slice whatever the sink's
partial-write / `Interrupted` behaviour), `flushes` = number of `write_all` calls.

Parameters: `Cfg.buf` = `BUF_SIZE` (extracted from the source on every run), `Cfg.dbg` = "built
with `debug_assertions`", i.e. `write` / `write_char` flush after every call.

A `Writable::write` body is mirrored as the list of *actions* it performs on the writer, in order:
`piece bs` = `write_bytes(bs)`, `dflush` = the `#[cfg(debug_assertions)] self.flush()` that ends
every `write`/`write_char`, `flush` = an explicit `flush()`, `fail p` = a panic raised by the
instance's own code (digit loop).  `runActs` executes them on the state.
-/
namespace Rlib.Writer
open Rlib.Decimal

structure Cfg where
  buf : Nat
  dbg : Bool
  deriving Repr

structure WState where
  pend : ByteArray
  sink : ByteArray
  flushes : Nat

def WState.init : WState := ⟨ByteArray.empty, ByteArray.empty, 0⟩

/-- `flush`: nothing when the buffer is empty, else one `write_all` of the pending bytes. -/
def flush (s : WState) : WState :=
  if s.pend.size = 0 then s
  else { pend := ByteArray.empty, sink := s.sink ++ s.pend, flushes := s.flushes + 1 }

/-- `reserve(size)`. -/
def reserve (c : Cfg) (size : Nat) (s : WState) : WState :=
  if s.pend.size + size > c.buf then flush s else s

/-- `write_bytes(bs)`: reserve, then copy into `buf[end .. end+len]` — a slice-index panic when
    that range does not fit in the buffer. -/
def writeBytes (c : Cfg) (bs : ByteArray) (s : WState) : Except Panic WState :=
  let s := reserve c bs.size s
  if s.pend.size + bs.size > c.buf then .error .index
  else .ok { s with pend := s.pend ++ bs }

/-- `Drop`. -/
def drop (s : WState) : WState := flush s

/-! ### Values and what their `Writable` instances do -/

/-- A writable value: one of the 12 integer types (`IntTy`; `isize`/`usize` are 64-bit), a string
    (`&str` or `String`: the two instances are the same code), or a `Vec`/tuple of values
    (`tuple = true` for tuples; the two families of instances perform the same calls). -/
inductive Val where
  | int (t : IntTy) (v : Int)
  | str (bs : ByteArray)
  | seq (tuple : Bool) (xs : List Val)

inductive Act where
  | piece (bs : ByteArray)
  | dflush
  | flush
  | fail (p : Panic)

/-- `write_char(c)`: `write_bytes(&[c as u8])`, then the debug flush. -/
def writeCharActs (b : UInt8) : List Act := [.piece [b].toByteArray, .dflush]

/-- `impl Writable for uW`. -/
def unsignedActs (bits : Nat) (n : Nat) : List Act :=
  if n = 0 then writeCharActs 48
  else match renderDigits (base10len bits) n with
    | .ok ds => [.piece ds.toByteArray]
    | .error e => [.fail e]

/-- `impl Writable for iW`: `-` via `write_char`, then `writer.write(&self.unsigned_abs())`. -/
def signedActs (bits : Nat) (v : Int) : List Act :=
  (if v < 0 then writeCharActs 45 else []) ++ (unsignedActs bits v.natAbs ++ [.dflush])

/-- `for chunk in self.as_bytes().chunks(BUF_SIZE) { writer.write_bytes(chunk) }`, from offset `off`.
    (`chunks(0)` panics in std; `BUF_SIZE = 0` is excluded by the side condition `39 ≤ BUF`.) -/
def chunkActs (n : Nat) (bs : ByteArray) (off : Nat) : List Act :=
  if _h : n = 0 then [.fail .assert]
  else if off < bs.size then .piece (bs.extract off (min (off + n) bs.size)) :: chunkActs n bs (off + n)
  else []
termination_by bs.size - off
decreasing_by omega

mutual
/-- The calls `t.write(writer)` makes, for a writer with `BUF_SIZE = buf`. -/
def acts (buf : Nat) : Val → List Act
  | .int t v => if t.signed then signedActs t.bits v else unsignedActs t.bits v.toNat
  | .str bs => chunkActs buf bs 0
  | .seq _ xs => actsSeq buf true xs
/-- `Vec<T>` / tuples: `write_char(' ')` before every element but the first, `writer.write(elem)`. -/
def actsSeq (buf : Nat) (first : Bool) : List Val → List Act
  | [] => []
  | x :: xs => (if first then [] else writeCharActs 32) ++ (acts buf x ++ (.dflush :: actsSeq buf false xs))
end

/-- The public operations a user performs on a writer. `out nl vs` is the `out!(…)` (`nl = false`)
    or `outln!(…)` (`nl = true`) macro of `output_macro.rs`. -/
inductive Op where
  | write (v : Val)
  | wchar (code : Nat)
  | flush
  | out (nl : Bool) (vs : List Val)

/-- `out_impl!`: `write(x)` for one argument; `write(x); write_char(' '); out_impl!(rest)` otherwise. -/
def outActs (buf : Nat) : List Val → List Act
  | [] => []
  | [x] => acts buf x ++ [.dflush]
  | x :: y :: rest => acts buf x ++ (.dflush :: (writeCharActs 32 ++ outActs buf (y :: rest)))

def opActs (buf : Nat) : Op → List Act
  | .write v => acts buf v ++ [.dflush]
  | .wchar code => writeCharActs (UInt8.ofNat code)          -- `c as u8` truncates the code point
  | .flush => [.flush]
  | .out nl vs => outActs buf vs ++ (if nl then writeCharActs 10 else [])

def step (c : Cfg) (s : WState) : Act → Except Panic WState
  | .piece bs => writeBytes c bs s
  | .dflush => .ok (if c.dbg then flush s else s)
  | .flush => .ok (flush s)
  | .fail p => .error p

def runActs (c : Cfg) : List Act → WState → Except Panic WState
  | [], s => .ok s
  | a :: as, s =>
    match step c s a with
    | .ok s' => runActs c as s'
    | .error e => .error e

def runOp (c : Cfg) (s : WState) (o : Op) : Except Panic WState := runActs c (opActs c.buf o) s

def runOps (c : Cfg) : List Op → WState → Except Panic WState
  | [], s => .ok s
  | o :: os, s =>
    match runOp c s o with
    | .ok s' => runOps c os s'
    | .error e => .error e

/-! ### Specification: the byte string a user expects -/

/-- The bytes of all pieces of an action list, concatenated. -/
def piecesConcat : List Act → ByteArray
  | [] => ByteArray.empty
  | .piece bs :: as => bs ++ piecesConcat as
  | .dflush :: as => piecesConcat as
  | .flush :: as => piecesConcat as
  | .fail _ :: as => piecesConcat as

mutual
/-- Standard formatting: decimal text, strings verbatim, sequences separated by one space. -/
def specVal : Val → ByteArray
  | .int _ v => (decimalS v).toByteArray
  | .str bs => bs
  | .seq _ xs => specSeq true xs
def specSeq (first : Bool) : List Val → ByteArray
  | [] => ByteArray.empty
  | x :: xs => (if first then ByteArray.empty else [32].toByteArray) ++ (specVal x ++ specSeq false xs)
end

def specOp : Op → ByteArray
  | .write v => specVal v
  | .wchar code => [UInt8.ofNat code].toByteArray
  | .flush => ByteArray.empty
  | .out nl vs => specSeq true vs ++ (if nl then [10].toByteArray else ByteArray.empty)

def specOps : List Op → ByteArray
  | [] => ByteArray.empty
  | o :: os => specOp o ++ specOps os

/-! ### Domain -/

mutual
/-- Values that exist in Rust: the integer fits its type, the width is one of the five, tuples
    have arity 2..8 (any arity is fine for the theorems; the driver insists on 2..8). -/
def Val.valid : Val → Bool
  | .int t v => (t.bits == 8 || t.bits == 16 || t.bits == 32 || t.bits == 64 || t.bits == 128) && t.fits v
  | .str _ => true
  | .seq _ xs => Val.validList xs
def Val.validList : List Val → Bool
  | [] => true
  | x :: xs => x.valid && Val.validList xs
end

def Op.valid : Op → Bool
  | .write v => v.valid
  | .wchar _ => true
  | .flush => true
  | .out _ vs => Val.validList vs

def Op.validAll : List Op → Bool
  | [] => true
  | o :: os => o.valid && Op.validAll os

/-! ### Vocabulary of the theorems -/

/-- Everything the writer has accepted so far: delivered bytes followed by pending bytes. -/
def total (s : WState) : ByteArray := s.sink ++ s.pend

/-- An action that cannot panic on a writer with `buf` bytes of buffer: a piece that fits; never a `fail`. -/
def Act.ok (buf : Nat) : Act → Prop
  | .piece bs => bs.size ≤ buf
  | .fail _ => False
  | .dflush => True
  | .flush => True

/-- No `fail`, every piece fits the buffer. -/
def ActsOK (buf : Nat) (as : List Act) : Prop := ∀ a ∈ as, a.ok buf

/-- The bytes of a byte array as a list (the tokenizer and the parsers work on lists). -/
def txt (b : ByteArray) : List UInt8 := b.data.toList

/-! ### Reading back (for the round trip) -/

mutual
/-- The scalar leaves of a value, left to right. -/
def leaves : Val → List Val
  | .int t v => [.int t v]
  | .str bs => [.str bs]
  | .seq _ xs => leavesList xs
def leavesList : List Val → List Val
  | [] => []
  | x :: xs => leaves x ++ leavesList xs
end

/-- A string that the reader returns as exactly one token and as itself: non-empty, ASCII
    (the reader turns every byte into the character with that code), no whitespace. -/
def isWord (bs : List UInt8) : Bool := !bs.isEmpty && bs.all (fun b => !isWs b && b < 128)

mutual
/-- Values whose text can be read back token by token: every string leaf is a word. -/
def Val.wordy : Val → Bool
  | .int _ _ => true
  | .str bs => isWord bs.data.toList
  | .seq _ xs => Val.wordyList xs
def Val.wordyList : List Val → Bool
  | [] => true
  | x :: xs => x.wordy && Val.wordyList xs
end

/-- The text of one leaf as the reader must see it. -/
def leafText : Val → List UInt8
  | .int _ v => decimalS v
  | .str bs => bs.data.toList
  | .seq _ _ => []

/-- Reading a leaf back from its token: integers are parsed, words are returned as they are. -/
def leafReadsBack (leaf : Val) (tok : List UInt8) : Bool :=
  match leaf with
  | .int t v => if t.signed then parseS tok == v else (parseU tok : Int) == v
  | .str bs => tok == bs.data.toList
  | .seq _ _ => false

/-- All leaves of the values written by a list of operations (characters are not values). -/
def opLeaves : Op → List Val
  | .write v => leaves v
  | .out _ vs => leavesList vs
  | _ => []

/-- After the current op: only flushes until the end, or until a whitespace `write_char`. -/
def nextBoundary : List Op → Bool
  | [] => true
  | .flush :: os => nextBoundary os
  | .wchar code :: _ => isWs (UInt8.ofNat code)
  | _ => false

/-- A script whose output can be read back token by token (a sufficient syntactic condition):
    values are wordy, `write` / `out!` are followed by a whitespace character (or nothing),
    `outln!` lines are always fine, characters written directly are whitespace. -/
def sepOK : List Op → Bool
  | [] => true
  | .flush :: os => sepOK os
  | .wchar code :: os => isWs (UInt8.ofNat code) && sepOK os
  | .out true vs :: os => Val.wordyList vs && sepOK os
  | .out false vs :: os => Val.wordyList vs && nextBoundary os && sepOK os
  | .write v :: os => v.wordy && nextBoundary os && sepOK os

def opsLeaves : List Op → List Val
  | [] => []
  | o :: os => opLeaves o ++ opsLeaves os

/-! ### std's `write_all` over the harness's sinks (stand-alone: `flush` above hands a whole slice over) -/


/-- The harness's sink: bytes received so far and number of `write` calls answered. -/
structure SinkSt where
  data : ByteArray
  calls : Nat

/-- One `Write::write` call on a sink that answers every `j`-th call (`j > 0`) with
    `ErrorKind::Interrupted` and otherwise accepts at most `k` bytes (`k = 0`: everything).
    `none` = interrupted, `some n` = `Ok(n)`. -/
def sinkWrite (k j : Nat) (st : SinkSt) (buf : ByteArray) : SinkSt × Option Nat :=
  let calls := st.calls + 1
  if j > 0 ∧ calls % j = 0 then (⟨st.data, calls⟩, none)
  else
    let n := if k = 0 then buf.size else min buf.size k
    (⟨st.data ++ buf.extract 0 n, calls⟩, some n)

/-- std's provided `Write::write_all`: `while !buf.is_empty() { match self.write(buf) { Ok(0) => return
    Err(WriteZero), Ok(n) => buf = &buf[n..], Err(Interrupted) => {}, Err(e) => return Err(e) } }`
    (the writer `unwrap`s the result: `panic:unwrap`). -/
def writeAll (k j : Nat) : Nat → SinkSt → ByteArray → Except Panic SinkSt
  | 0, _, _ => .error .fuel
  | fuel + 1, st, buf =>
    if buf.size = 0 then .ok st
    else match sinkWrite k j st buf with
      | (st', none) => writeAll k j fuel st' buf
      | (_, some 0) => .error .unwrap
      | (st', some n) => writeAll k j fuel st' (buf.extract n buf.size)

end Rlib.Writer
