import RlibModel.Model.Common
/-
Model of `rlib/rand/src/{randomable.rs, lcg.rs, mrand.rs}` — integer part (property C14).

* `genRange`, `genIncl`, `gen`  — `Randomable::gen_from_u64` for the five range forms of every
  integer type (`IntTy` = signedness + width; one definition, generic in the width). Casts are
  explicit: `x as $ut` = `wrapU w x`, `x as $it` = `wrapS w x`; `wrapping_sub/add` = `wrapU` of
  the mathematical result; plain `+`/`-` are `checked` (the harness builds rlib with
  `overflow-checks = true`); `assert!(!self.is_empty())` = `Panic.assert`; `% 0` = `Panic.divzero`.
* `lcgStep`, `mix`, `nextRaw`, `rawStream` — `LinearCongruentialGenerator64::next_raw`: the state
  transition `state*A + C (mod 2^64)` and the output scramble
  `z = state; z = (z ^ (z >> s1)) * M (mod 2^64); z ^ (z >> s2)`. The constants `A, C, s1, M, s2`
  are parameters (`Gen`); `checks/C14.py` extracts them from lib.rs / lcg.rs into
  `Generated/RandParams.lean` on every run.
* `swap`, `shuffleLoop`, `shuffle` — `Rand::shuffle`: `for i in 1..v.len() { v.swap(i, self.next(0..=i)) }`
  over lists, for an arbitrary stream `draw k` of raw 64-bit words (`draw k` = the k-th word the
  generator returns from its current state).
-/
namespace Rlib.Rand

/-! ### `Randomable::gen_from_u64` for integer ranges -/

/-- `impl Randomable<$it> for Range<$it>` / `impl Randomable<$ut> for Range<$ut>`
    (randomable.rs, `make_randomable!`).  `raw` is the `u64` argument. -/
def genRange (t : IntTy) (s e : Int) (raw : Nat) : Except Panic Int :=
  if ¬ (s < e) then .error .assert                     -- assert!(!self.is_empty())
  else if t.signed then
    let us := wrapU t.bits s                           -- self.start as $ut
    let ue := wrapU t.bits e                           -- self.end as $ut
    let len := wrapU t.bits (ue - us)                  -- .wrapping_sub(..)
    if len = 0 then .error .divzero                    -- rng % (len as u64)
    else
      let k := wrapU t.bits ((raw : Int) % len)        -- (rng % len as u64) as $ut
      .ok (wrapS t.bits (wrapU t.bits (k + us)))       -- .wrapping_add(self.start as $ut) as $it
  else
    match checked t (e - s) with                       -- let len = self.end - self.start;
    | .error p => .error p
    | .ok len =>
      if len = 0 then .error .divzero
      else checked t (wrapU t.bits ((raw : Int) % len) + s)   -- (rng % len as u64) as $ut + self.start

/-- `impl Randomable<$t> for RangeInclusive<$t>` (`implement_ranges!`). -/
def genIncl (t : IntTy) (s e : Int) (raw : Nat) : Except Panic Int :=
  if s ≠ t.minVal then
    match checked t (s - 1) with                       -- *self.start() - 1
    | .error p => .error p
    | .ok s1 =>
      match genRange t s1 e raw with
      | .error p => .error p
      | .ok r => checked t (r + 1)                     -- (..).gen_from_u64(rng) + 1
  else if e ≠ t.maxVal then
    match checked t (e + 1) with                       -- *self.end() + 1
    | .error p => .error p
    | .ok e1 => genRange t s e1 raw
  else .ok (t.wrap raw)                                -- rng as $t

/-- The five range forms a draw can be requested for. -/
inductive Form where
  | range (s e : Int)     -- `s..e`
  | incl (s e : Int)      -- `s..=e`
  | upTo (e : Int)          -- `..e`
  | upToIncl (e : Int)     -- `..=e`
  | full                  -- `..`
  deriving Repr, DecidableEq, Inhabited

/-- `range.gen_from_u64(raw)` at type `t`. -/
def gen (t : IntTy) : Form → Nat → Except Panic Int
  | .range s e, raw => genRange t s e raw
  | .incl s e, raw => genIncl t s e raw
  | .upTo e, raw => genRange t 0 e raw                   -- (0..self.end).gen_from_u64(rng)
  | .upToIncl e, raw => genIncl t 0 e raw                -- (0..=self.end).gen_from_u64(rng)
  | .full, raw => .ok (t.wrap raw)                     -- rng as $t

/-! #### Specification side: the set of values a form denotes -/

/-- least value of the range (as a mathematical integer) -/
def Form.lo (t : IntTy) : Form → Int
  | .range s _ => s
  | .incl s _ => s
  | .upTo _ => 0
  | .upToIncl _ => 0
  | .full => t.minVal

/-- greatest value of the range (inclusive) -/
def Form.hi (t : IntTy) : Form → Int
  | .range _ e => e - 1
  | .incl _ e => e
  | .upTo e => e - 1
  | .upToIncl e => e
  | .full => t.maxVal

/-- the bounds written in the source are values of the type -/
def Form.wellTyped (t : IntTy) : Form → Bool
  | .range s e => t.fits s && t.fits e
  | .incl s e => t.fits s && t.fits e
  | .upTo e => t.fits e
  | .upToIncl e => t.fits e
  | .full => true

/-! ### The generator -/

/-- Constants of `Rng` (lib.rs: the two const parameters; lcg.rs: the output scramble). -/
structure Gen where
  A : Nat
  C : Nat
  sh1 : Nat
  mul : Nat
  sh2 : Nat
  deriving Repr, DecidableEq, Inhabited

/-- `self.state.wrapping_mul(A).wrapping_add(C)` -/
def lcgStep (g : Gen) (s : Nat) : Nat := (s * g.A + g.C) % 2 ^ 64

/-- `z ^ (z >> k)` -/
def xorShift (k : Nat) (z : Nat) : Nat := z ^^^ (z >>> k)

/-- `x.wrapping_mul(m)` on `u64` -/
def mulW (m : Nat) (z : Nat) : Nat := (z * m) % 2 ^ 64

/-- the output function of `next_raw`: `z = (z ^ (z >> sh1)).wrapping_mul(mul); z ^ (z >> sh2)` -/
def mix (g : Gen) (z : Nat) : Nat := xorShift g.sh2 (mulW g.mul (xorShift g.sh1 z))

/-- `next_raw`: new state and the word returned. -/
def nextRaw (g : Gen) (s : Nat) : Nat × Nat :=
  let s' := lcgStep g s
  (s', mix g s')

/-- the first `n` words returned by `next_raw` starting from state `s`, and the final state -/
def rawStream (g : Gen) : Nat → Nat → List Nat × Nat
  | 0, s => ([], s)
  | n + 1, s =>
    let (s', o) := nextRaw g s
    let (os, sf) := rawStream g n s'
    (o :: os, sf)

/-- `n`-fold application (`iter f (n+1) x = iter f n (f x)`, the same recursion as Mathlib's `f^[n]`) -/
def iter {α} (f : α → α) : Nat → α → α
  | 0, x => x
  | n + 1, x => iter f n (f x)

/-- the `k`-th (0-based) word `next_raw` returns from state `s` -/
def rawAt (g : Gen) (s : Nat) (k : Nat) : Nat := mix g (iter (lcgStep g) (k + 1) s)

/-- `Rand::next(range)`: one draw; new state and result. -/
def next (g : Gen) (t : IntTy) (f : Form) (s : Nat) : Nat × Except Panic Int :=
  let (s', o) := nextRaw g s
  (s', gen t f o)

/-- `n` consecutive `next(range)` calls (stops at the first panic, which it returns). -/
def draws (g : Gen) (t : IntTy) (f : Form) : Nat → Nat → Except Panic (List Int)
  | 0, _ => .ok []
  | n + 1, s =>
    match next g t f s with
    | (_, .error p) => .error p
    | (s', .ok v) =>
      match draws g t f n s' with
      | .error p => .error p
      | .ok vs => .ok (v :: vs)

/-! ### shuffle -/

/-- `usize` -/
def usizeTy : IntTy := ⟨false, 64⟩

/-- `v.swap(i, j)` (slice method of std: exchanges the two elements; out of bounds panics). -/
def swap {α} (v : List α) (i j : Nat) : Except Panic (List α) :=
  if h : i < v.length ∧ j < v.length then .ok ((v.set i v[j]).set j v[i]) else .error .index

/-- `n` iterations of the loop body starting at index `i`; `draw k` is the raw word of the `k`-th
    `next` call of this `shuffle` (the call in iteration `i` is number `i - 1`). -/
def shuffleLoop {α} (draw : Nat → Nat) : Nat → Nat → List α → Except Panic (List α)
  | 0, _, v => .ok v
  | n + 1, i, v =>
    match gen usizeTy (.incl 0 i) (draw (i - 1)) with      -- self.next(0..=i)
    | .error p => .error p
    | .ok j =>
      match swap v i j.toNat with                          -- v.swap(i, ..)
      | .error p => .error p
      | .ok v' => shuffleLoop draw n (i + 1) v'

/-- `Rand::shuffle`: `for i in 1..v.len() { v.swap(i, self.next(0..=i)); }` -/
def shuffle {α} (draw : Nat → Nat) (v : List α) : Except Panic (List α) :=
  shuffleLoop draw (v.length - 1) 1 v

/-- `shuffle` driven by the generator itself: result and the state left behind. -/
def shuffleRng {α} (g : Gen) (s : Nat) (v : List α) : Except Panic (List α) × Nat :=
  let (outs, sf) := rawStream g (v.length - 1) s
  let arr := outs.toArray
  (shuffle (fun k => arr.getD k 0) v, sf)

end Rlib.Rand
