/-
Shared vocabulary of all models (core Lean only, so that drivers link natively).

* `Panic`  — the small enum every Rust panic is mapped to (the harness maps the real panic
             messages to the same names).
* `wrapU` / `wrapS` — two's-complement reduction of a mathematical integer to a machine width.
* line-protocol helpers used by the `Driver/*.lean` executables.
-/

namespace Rlib

/-- The kinds of panic the modelled Rust code can raise. -/
inductive Panic where
  | index      -- slice / array index out of bounds
  | assert     -- `assert!` / `debug_assert!` failed
  | overflow   -- arithmetic overflow in a debug build
  | unwrap     -- `unwrap` on `None` / `Err`
  | divzero    -- division or remainder by zero
  | fuel       -- the model's fuel ran out (never a property verdict; a theorem excludes it)
  deriving Repr, DecidableEq, Inhabited

def Panic.toString : Panic → String
  | .index => "panic:index"
  | .assert => "panic:assert"
  | .overflow => "panic:overflow"
  | .unwrap => "panic:unwrap"
  | .divzero => "panic:divzero"
  | .fuel => "fuel"

instance : ToString Panic := ⟨Panic.toString⟩

/-- Reduce to an unsigned `w`-bit value. -/
def wrapU (w : Nat) (z : Int) : Int := z % (2 ^ w : Int)

/-- Reduce to a signed two's-complement `w`-bit value. -/
def wrapS (w : Nat) (z : Int) : Int :=
  let m := z % (2 ^ w : Int)
  if m < 2 ^ (w - 1) then m else m - 2 ^ w

/-- `true` iff `z` is representable in a signed `w`-bit integer. -/
def fitsS (w : Nat) (z : Int) : Bool := -(2 ^ (w - 1) : Int) ≤ z && z < (2 ^ (w - 1) : Int)

/-- `true` iff `z` is representable in an unsigned `w`-bit integer. -/
def fitsU (w : Nat) (z : Int) : Bool := 0 ≤ z && z < (2 ^ w : Int)

/-- A Rust primitive integer type: signedness and width (`isize`/`usize` are 64-bit here). -/
structure IntTy where
  signed : Bool
  bits : Nat
  deriving Repr, DecidableEq, Inhabited

namespace IntTy
def minVal (t : IntTy) : Int := if t.signed then -(2 ^ (t.bits - 1) : Int) else 0
def maxVal (t : IntTy) : Int := if t.signed then (2 ^ (t.bits - 1) : Int) - 1 else (2 ^ t.bits : Int) - 1
def fits (t : IntTy) (z : Int) : Bool := t.minVal ≤ z && z ≤ t.maxVal
def wrap (t : IntTy) (z : Int) : Int := if t.signed then wrapS t.bits z else wrapU t.bits z
def parse? : String → Option IntTy
  | "i8" => some ⟨true, 8⟩ | "i16" => some ⟨true, 16⟩ | "i32" => some ⟨true, 32⟩
  | "i64" => some ⟨true, 64⟩ | "i128" => some ⟨true, 128⟩ | "isize" => some ⟨true, 64⟩
  | "u8" => some ⟨false, 8⟩ | "u16" => some ⟨false, 16⟩ | "u32" => some ⟨false, 32⟩
  | "u64" => some ⟨false, 64⟩ | "u128" => some ⟨false, 128⟩ | "usize" => some ⟨false, 64⟩
  | _ => none
def i64 : IntTy := ⟨true, 64⟩
end IntTy

/-- Result of a checked machine operation: the value if it fits the type, else `overflow`
    (the harness builds rlib with `overflow-checks = true`). -/
def checked (t : IntTy) (z : Int) : Except Panic Int :=
  if t.fits z then .ok z else .error .overflow

/-! ### Line protocol helpers -/

/-- Split a protocol line into blank-separated tokens (empty tokens dropped). -/
def tokens (line : String) : List String :=
  (line.trimAscii.toString.splitOn " ").filter (· ≠ "")

/-- Split `"op:ty"` into the operation name and an optional type suffix. -/
def splitTy (tok : String) : String × Option IntTy :=
  match tok.splitOn ":" with
  | [op, ty] => (op, IntTy.parse? ty)
  | _ => (tok, none)

/-- Parse a decimal integer token (optional leading `-`). -/
def parseInt? (s : String) : Option Int := s.toInt?

def parseNat? (s : String) : Option Nat := s.toNat?

/-- Parse every token as an integer, or fail. -/
def parseInts? (ts : List String) : Option (List Int) := ts.mapM parseInt?

def parseNats? (ts : List String) : Option (List Nat) := ts.mapM parseNat?

def showOptInt : Option Int → String
  | none => "none"
  | some x => s!"some {x}"

def showOptPair : Option (Int × Int) → String
  | none => "none"
  | some (x, y) => s!"some {x} {y}"

def showExcept {α} (f : α → String) : Except Panic α → String
  | .ok a => f a
  | .error e => e.toString

def showBool : Bool → String
  | true => "true"
  | false => "false"

def showListWith {α} (f : α → String) (xs : List α) : String :=
  "[" ++ ",".intercalate (xs.map f) ++ "]"

/-- Split an op-sequence case `hdr ; op ; op ...` into trimmed parts. -/
def splitOps (line : String) : List String :=
  (line.splitOn ";").map (fun p => p.trimAscii.toString)

/-- Parse `"1,2,3"` (no blanks) as a list of integers; `""` or `"-"` is the empty list. -/
def parseIntsComma? (s : String) : Option (List Int) :=
  if s = "" ∨ s = "-" then some [] else (s.splitOn ",").mapM parseInt?

def parseNatsComma? (s : String) : Option (List Nat) :=
  if s = "" ∨ s = "-" then some [] else (s.splitOn ",").mapM parseNat?

/-- `[1,2,3]`-style rendering without blanks (the harnesses print the same). -/
def showInts (xs : List Int) : String := showListWith toString xs
def showNats (xs : List Nat) : String := showListWith toString xs

def showOpt {α} (f : α → String) : Option α → String
  | none => "none"
  | some a => "some " ++ f a

def hexDigit? (c : Char) : Option Nat :=
  if '0' ≤ c ∧ c ≤ '9' then some (c.toNat - '0'.toNat)
  else if 'a' ≤ c ∧ c ≤ 'f' then some (c.toNat - 'a'.toNat + 10)
  else if 'A' ≤ c ∧ c ≤ 'F' then some (c.toNat - 'A'.toNat + 10)
  else none

/-- Parse a hexadecimal token (no `0x` prefix). -/
def parseHex? (s : String) : Option Nat :=
  if s.isEmpty then none else
  s.toList.foldlM (fun acc c => (hexDigit? c).map (fun d => acc * 16 + d)) 0

def hexChar (d : Nat) : Char := if d < 10 then Char.ofNat (48 + d) else Char.ofNat (87 + d)

/-- Render as lower-case hexadecimal, at least `width` digits. -/
def toHex (n : Nat) (width : Nat := 1) : String :=
  let rec go (fuel n : Nat) (acc : List Char) : List Char :=
    match fuel with
    | 0 => acc
    | fuel + 1 => if n = 0 then acc else go fuel (n / 16) (hexChar (n % 16) :: acc)
  let ds := go 64 n []
  String.ofList (List.replicate (width - ds.length) '0' ++ ds)

/-- One answer line of a driver: raw model result, its spec-level view, and the spec's answer.
    `check` compares the implementation's raw result with `M`, its view with `S`, and insists
    that `V = S` (model and spec agree, which the theorems promise).  `S any` = the property
    does not constrain this case (out of its stated domain). -/
def answer3 (m v s : String) : String := s!"M {m} | V {v} | S {s}"

/-- Answer line for cases whose spec-level view is the raw result itself. -/
def answer (m s : String) : String := answer3 m m s

/-- Answer for a malformed protocol line (a machinery error, never a verdict). -/
def badLine (line : String) : String := s!"BAD-LINE {line.trimAscii.toString}"

/-- Generic driver loop: read stdin line by line, answer every line with `f`. -/
partial def driverLoop (h : IO.FS.Stream) (out : IO.FS.Stream) (f : String → String) : IO Unit := do
  let line ← h.getLine
  if line.isEmpty then
    out.flush
    return ()
  out.putStrLn (f line)
  driverLoop h out f

def driverMain (f : String → String) : IO Unit := do
  driverLoop (← IO.getStdin) (← IO.getStdout) f

end Rlib
