import RlibModel.Model.Writer
import RlibModel.Model.Reader
/-!
Executable composition of the two `io` models (core Lean only, so the native driver `drv_writer` links it):
run a Writer script, hand the dropped writer's sink bytes to the **Reader model** under a delivery schedule,
and read the written values back the way the harness `e_writer` reads them back through the real
`rlib_io::Reader` (`read_show` in `harness/e_writer/src/main.rs`):

* an integer leaf of type `$t` with `read::<$t>()`;
* a string leaf with `read::<String>()`, or — when `alt` and it has exactly one byte — with `read::<char>()`;
* a sequence whose elements are all integers of one type, when `alt`: a tuple (arity 2..8) with
  `read::<($t,…,$t)>()`, anything else with `read_vec::<$t>(n)`; every other sequence element by element;
* finally `is_eof()`.

A *read plan* is a list of groups (`Grp`); the theorems (`Lemmas/IoBridge.lean`, `Props/C09Bridge.lean`) hold
for **every** plan whose leaves are the written leaves (any grouping into single reads, tuples of any arity,
`read_vec` of rows of any one shape, any choice of `char` for one-byte words); `planOps` is the particular
plan of the harness.
-/
namespace Rlib.IoRT

/-- A written leaf and whether a one-byte string is to be read as `char`. -/
abbrev P := Writer.Val × Bool

/-- The `Readable` type a leaf is read with. -/
def atomA : P → Reader.Atom
  | (.int t _, _) => .int t
  | (.str bs, true) => match bs.data.toList with
    | [_] => .chr
    | _ => .str
  | _ => .str

/-- The value the reader has to return for it. -/
def valA : P → Reader.Val
  | (.int _ v, _) => .int v
  | (.str bs, true) => match bs.data.toList with
    | [c] => .chr c
    | l => .str l
  | (.str bs, false) => .str bs.data.toList
  | (.seq _ _, _) => .str []

/-- One call of the reader's API and the leaves it consumes. -/
inductive Grp where
  | one (p : P)                                            -- `read::<T>()`
  | tup (ps : List P)                                      -- `read::<(A, B, …)>()`
  | vec (as : List Reader.Atom) (rows : List (List P))     -- `read_vec::<T>(rows.length)`, `T` = atom or tuple `as`

def Grp.leaves : Grp → List P
  | .one p => [p]
  | .tup ps => ps
  | .vec _ rows => rows.flatten

def Grp.op : Grp → Reader.Op
  | .one p => .read (atomA p)
  | .tup ps => .tuple (ps.map atomA)
  | .vec as rows => .vec as rows.length

def Grp.out : Grp → Reader.Out
  | .one p => .val (valA p)
  | .tup ps => .tup (ps.map valA)
  | .vec _ rows => .vec (rows.map (fun r => r.map valA))

/-- Well-formed: every row of a `read_vec` has the declared element type. -/
def Grp.okB : Grp → Bool
  | .vec as rows => rows.all (fun r => r.map atomA == as)
  | _ => true

/-- `some t` iff the list is non-empty and consists of integers of the one type `t`. -/
def homog : List Writer.Val → Option IntTy
  | .int t _ :: xs => if xs.all (fun x => match x with | .int t' _ => t' == t | _ => false) then some t else none
  | _ => none

mutual
/-- The harness's read plan for one written value. -/
def planVal (alt : Bool) : Writer.Val → List Grp
  | .int t v => [.one (.int t v, alt)]
  | .str bs => [.one (.str bs, alt)]
  | .seq tuple xs =>
    match (if alt then homog xs else none) with
    | some t =>
      if tuple && decide (2 ≤ xs.length) && decide (xs.length ≤ 8) then [.tup (xs.map (fun x => (x, alt)))]
      else [.vec [.int t] (xs.map (fun x => [(x, alt)]))]
    | none => planList alt xs
def planList (alt : Bool) : List Writer.Val → List Grp
  | [] => []
  | x :: xs => planVal alt x ++ planList alt xs
end

def planOp (alt : Bool) : Writer.Op → List Grp
  | .write v => planVal alt v
  | .out _ vs => planList alt vs
  | _ => []

def planOps (alt : Bool) : List Writer.Op → List Grp
  | [] => []
  | o :: os => planOp alt o ++ planOps alt os

/-- The source `Src` of the harness as a schedule: chunks of `rc` bytes (`0` = one piece), and when `rc` is odd
    every third `read` call answers `Interrupted` (calls 1, 2 deliver, call 3 is interrupted, …). -/
def harnessSched (rc len : Nat) : Reader.Sched :=
  if rc = 0 then []
  else
    (List.replicate ((len + rc - 1) / rc / 2) [(some rc, 2), (none, if rc % 2 = 1 then 1 else 0)]).flatten
      ++ [(some rc, 1)]

/-- The script `plan ++ [is_eof]`. -/
def script (gs : List Grp) : List Reader.Op := gs.map Grp.op ++ [Reader.Op.eof]

/-- What it has to answer. -/
def expected (gs : List Grp) : List Reader.Res := gs.map (fun g => Reader.Res.out g.out) ++ [.out (.bool true)]

/-- **What `drv_writer` runs for an `r` line**: the Reader model on `text`, delivered by the harness schedule
    `rc`, buffer of `rbuf` bytes, plan of the harness. -/
def readBack (rbuf rc : Nat) (alt : Bool) (ops : List Writer.Op) (text : List UInt8) : List Reader.Res :=
  Reader.runScript (text.length + 1) (script (planOps alt ops))
    (Reader.init rbuf (Reader.mkEvents (harnessSched rc text.length) text #[]))

/-- Domain of the read-back (decided by harness and driver alike): the text splits at ASCII whitespace into
    exactly the texts of the written leaves, and string leaves are ASCII words. -/
def eligible (ops : List Writer.Op) : Bool :=
  Decimal.tokenize (Writer.txt (Writer.specOps ops)) == (Writer.opsLeaves ops).map Writer.leafText
    && Writer.Val.wordyList (Writer.opsLeaves ops)

end Rlib.IoRT
