import RlibModel.Model.F80Soft
/-
Executable *specification* of the f80 arithmetic, independent of the bit-level algorithm of the model
(`addC mulC divC` in `F80Soft.lean` align exponents / multiply significands / pass `(m₁, m₂, e₁-e₂)`):

  every finite operand is turned into an ordinary fraction `num / den` of unbounded integers, the operation is
  done with school-book fraction arithmetic (no exponents anywhere), and the resulting fraction is rounded
  **once** by the specification rounding function `roundQ` (about which `round_*` in `Props/C18.lean` speak).

The driver prints `M` from the model (`add sub mul div toF64`) and `S` from these functions; `Props/C18.lean`
proves they agree (`specAddC_eq` …) and that the fraction is the exact rational result (`add_exact` …).
Core Lean only.
-/
namespace Rlib.F80

/-- the dyadic `(-1)^neg * m * 2^e` as a fraction `num / den` (`den > 0`) -/
def Dy.frac (x : Dy) : Int × Nat :=
  let s : Int := if x.neg then -(x.m : Int) else (x.m : Int)
  if 0 ≤ x.e then (s * (2 ^ x.e.toNat : Nat), 1) else (s, 2 ^ (-x.e).toNat)

/-- Round the fraction `num / den` once to format `f`; an exact zero gets the sign `negZero`. -/
def roundFrac (f : Fmt) (negZero : Bool) (num : Int) (den : Nat) : Class :=
  if num = 0 then .fin ⟨negZero, 0, 0⟩ else roundQ f (decide (num < 0)) num.natAbs den 0

def Class.isInf : Class → Bool
  | .inf _ => true
  | _ => false

def Class.isZero : Class → Bool
  | .fin x => x.m == 0
  | _ => false

/-- sign bit of a non-NaN class -/
def Class.sign : Class → Bool
  | .nan => false
  | .inf s => s
  | .fin x => x.neg

/-- IEEE-754 addition: NaN in ⇒ NaN; `∞ + (-∞)` invalid ⇒ NaN; `∞ + x = ∞`; finite operands: exact sum of the
    two fractions rounded once; an exact zero sum is `-0` only when both operands are negative (round to nearest). -/
def specAddC (f : Fmt) (a b : Class) : Class :=
  match a, b with
  | .nan, _ => .nan
  | _, .nan => .nan
  | a, b =>
    if a.isInf && b.isInf then (if a.sign == b.sign then .inf a.sign else .nan)
    else if a.isInf then .inf a.sign
    else if b.isInf then .inf b.sign
    else match a, b with
      | .fin x, .fin y =>
        let (p, q) := x.frac
        let (r, s) := y.frac
        roundFrac f (x.neg && y.neg) (p * s + r * q) (q * s)
      | _, _ => .nan

/-- IEEE-754 subtraction: `a + (-b)`. -/
def specSubC (f : Fmt) (a b : Class) : Class := specAddC f a (negC b)

/-- IEEE-754 multiplication: NaN in ⇒ NaN; `0 * ∞` invalid ⇒ NaN; `∞ * x = ±∞`; finite: exact product of the
    fractions rounded once; the sign (also of a zero product) is the xor of the operand signs. -/
def specMulC (f : Fmt) (a b : Class) : Class :=
  match a, b with
  | .nan, _ => .nan
  | _, .nan => .nan
  | a, b =>
    if a.isInf || b.isInf then (if a.isZero || b.isZero then .nan else .inf (a.sign != b.sign))
    else match a, b with
      | .fin x, .fin y =>
        let (p, q) := x.frac
        let (r, s) := y.frac
        roundFrac f (x.neg != y.neg) (p * r) (q * s)
      | _, _ => .nan

/-- IEEE-754 division: NaN in ⇒ NaN; `∞/∞`, `0/0` invalid ⇒ NaN; `x/0 = ±∞` (masked divide-by-zero), `∞/x = ±∞`,
    `x/∞ = ±0`; finite, non-zero divisor: exact quotient of the fractions rounded once; sign = xor. -/
def specDivC (f : Fmt) (a b : Class) : Class :=
  match a, b with
  | .nan, _ => .nan
  | _, .nan => .nan
  | a, b =>
    let sg := a.sign != b.sign
    if a.isInf then (if b.isInf then .nan else .inf sg)
    else if b.isInf then .fin ⟨sg, 0, 0⟩
    else if b.isZero then (if a.isZero then .nan else .inf sg)
    else match a, b with
      | .fin x, .fin y =>
        let (p, q) := x.frac
        let (r, s) := y.frac
        -- (p/q) / (r/s) = (p*s) / (q*r), with the sign of r moved into the numerator
        roundFrac f sg (if r < 0 then -(p * s) else p * s) (q * r.natAbs)
      | _, _ => .nan

/-- conversion to a narrower format: the operand's exact fraction rounded once -/
def specRoundClass (f : Fmt) : Class → Class
  | .nan => .nan
  | .inf s => .inf s
  | .fin x => let (p, q) := x.frac; roundFrac f x.neg p q

def specAdd (a b : F80) : F80 := encode80 (specAddC fmt80 (classify a) (classify b))
def specSub (a b : F80) : F80 := encode80 (specSubC fmt80 (classify a) (classify b))
def specMul (a b : F80) : F80 := encode80 (specMulC fmt80 (classify a) (classify b))
def specDiv (a b : F80) : F80 := encode80 (specDivC fmt80 (classify a) (classify b))
def specToF64 (a : F80) : F64 := encode64 (specRoundClass fmt64 (classify a))
def specOfF64 (x : F64) : F80 := encode80 (specRoundClass fmt80 (classify64 x))

end Rlib.F80
