import RlibModel.Model.Common
/-
Model of `rlib/gcd/src/lib.rs` (gcd, lcm, egcd, crt) over mathematical integers.

Rust's `/` and `%` on signed integers truncate towards zero: `Int.tdiv`, `Int.tmod`.
Division or remainder by zero panics: `Panic.divzero`.
The property (C11) restricts magnitudes so that no machine operation wraps; `fitsAll`-style
range checks for the i64 instantiation live in `Lemmas/Gcd.lean` (`egcd_bound`).
-/
namespace Rlib.Gcd

/-- `while b != 0 { a %= b; swap(a, b) }` on the already `into_abs`-ed operands.
    Well-founded on `|b|`: Lean checks that the loop terminates. -/
def gcdLoop (a b : Int) : Int :=
  if _h : b = 0 then a else gcdLoop b (a.tmod b)
termination_by b.natAbs
decreasing_by
  rw [Int.natAbs_tmod]
  exact Nat.mod_lt _ (by omega)

/-- `pub fn gcd(a, b)`: `into_abs` both, then the Euclid loop. -/
def gcd (a b : Int) : Int := gcdLoop (a.natAbs : Int) (b.natAbs : Int)

/-- `pub fn lcm(a, b)`: `a.abs() / gcd(a, b) * b.abs()`; division by zero when `a = b = 0`. -/
def lcm (a b : Int) : Except Panic Int :=
  let g := gcd a b
  if g = 0 then .error .divzero
  else .ok ((a.natAbs : Int).tdiv g * (b.natAbs : Int))

/-- `lcm` at a machine type: `a.abs()`, `b.abs()` and the final product are checked
    (the quotient cannot overflow). -/
def lcmT (t : IntTy) (a b : Int) : Except Panic Int := do
  let _ ← checked t (a.natAbs : Int)
  let _ ← checked t (b.natAbs : Int)
  let r ← lcm a b
  checked t r

/-- `gcd` at a machine type (`into_abs` is the only step that can overflow: `MIN`). -/
def gcdT (t : IntTy) (a b : Int) : Except Panic Int := do
  let _ ← checked t (a.natAbs : Int)
  let _ ← checked t (b.natAbs : Int)
  pure (gcd a b)

/-- `pub fn egcd(a, b, c)`: recursive extended Euclid solving `a*x + b*y = c`. -/
def egcd (a b c : Int) : Except Panic (Option (Int × Int)) :=
  if _h : a = 0 then
    if b = 0 then .error .divzero            -- `c % b` with `b == 0`
    else if c.tmod b ≠ 0 then .ok none
    else .ok (some (0, c.tdiv b))
  else
    match egcd (b.tmod a) a c with
    | .error e => .error e
    | .ok none => .ok none
    | .ok (some (y0, x0)) => .ok (some (x0 - (b.tdiv a) * y0, y0))
termination_by a.natAbs
decreasing_by
  rw [Int.natAbs_tmod]
  exact Nat.mod_lt _ (by omega)

/-- `pub fn crt(a1, m1, a2, m2)`. -/
def crt (a1 m1 a2 m2 : Int) : Except Panic (Option Int) :=
  let g := gcd m1 m2
  match egcd m1 (-m2) (a2 - a1) with
  | .error e => .error e
  | .ok none => .ok none
  | .ok (some (x, _)) =>
    if g = 0 then .error .divzero
    else
      let m2' := m2.tdiv g
      if m2' = 0 then .error .divzero
      else
        let x' := ((x.tmod m2') + m2').tmod m2'
        .ok (some (m1 * x' + a1))

/-! ### Machine instantiations of `egcd` and `crt`

The same recursion with every operation that can leave the type passed through `checked t`
(quotients — `MIN / -1` —, products, differences, sums, the negation in `crt`).  The driver executes these at
`i64`; `egcdT_eq_egcd` / `crtT_eq_crt` (`Props/C11.lean`) show that inside the property's `2^20` box they
never report an overflow and return exactly what the unbounded functions return. -/

/-- `egcd::<T>` with checked arithmetic. -/
def egcdT (t : IntTy) (a b c : Int) : Except Panic (Option (Int × Int)) :=
  if _h : a = 0 then
    if b = 0 then .error .divzero            -- `c % b` with `b == 0`
    else if c.tmod b ≠ 0 then .ok none
    else
      match checked t (c.tdiv b) with         -- `c / &b`
      | .error e => .error e
      | .ok q => .ok (some (0, q))
  else
    match egcdT t (b.tmod a) a c with
    | .error e => .error e
    | .ok none => .ok none
    | .ok (some (y0, x0)) =>
      match checked t (b.tdiv a) with         -- `b / &a`
      | .error e => .error e
      | .ok q =>
      match checked t (q * y0) with           -- `(b / &a) * &y0`
      | .error e => .error e
      | .ok p =>
      match checked t (x0 - p) with           -- `x0 - &(…)`
      | .error e => .error e
      | .ok x => .ok (some (x, y0))
termination_by a.natAbs
decreasing_by
  rw [Int.natAbs_tmod]
  exact Nat.mod_lt _ (by omega)

/-- `crt::<T>` with checked arithmetic (argument evaluation order of the Rust source). -/
def crtT (t : IntTy) (a1 m1 a2 m2 : Int) : Except Panic (Option Int) :=
  match gcdT t m1 m2 with
  | .error e => .error e
  | .ok g =>
  match checked t (-m2) with                  -- `-m2.clone()`
  | .error e => .error e
  | .ok nm2 =>
  match checked t (a2 - a1) with              -- `a2 - &a1`
  | .error e => .error e
  | .ok d =>
  match egcdT t m1 nm2 d with
  | .error e => .error e
  | .ok none => .ok none
  | .ok (some (x, _)) =>
    if g = 0 then .error .divzero             -- `m2 / &g`
    else
      match checked t (m2.tdiv g) with
      | .error e => .error e
      | .ok m2' =>
      if m2' = 0 then .error .divzero         -- `x % &m2`
      else
        match checked t (x.tmod m2' + m2') with
        | .error e => .error e
        | .ok s =>
        let x' := s.tmod m2'
        match checked t (m1 * x') with
        | .error e => .error e
        | .ok p =>
        match checked t (p + a1) with
        | .error e => .error e
        | .ok r => .ok (some r)

/-! ### The property's domain at an arbitrary signed type ("the mathematical intermediate values fit the integer type")

The property names a `2^20` box for `i64`; its last sentence defines the domain for every other instantiation.  The
predicates below decide it for ONE concrete input, in terms of the mathematics only (gcd, lcm, the size bound of the
Bézout coefficients `|x|,|y| ≤ (|c|/g)·max(|a|,|b|)/g` that `egcd_bound` proves), so the driver can give a definite `S`
for `i8 … i128` up to the overflow threshold of each type.  `Props/C11.lean` (`egcdT_dom`, `crtT_dom`) proves that on this
domain the checked instantiation never reports an overflow and equals the unbounded function. -/

/-- `|z| ≤ MAX` of the type: `z`, `-z`, `|z|` all representable (the minimum of a signed type is excluded). -/
def absFits (t : IntTy) (z : Int) : Bool := -t.maxVal ≤ z && z ≤ t.maxVal

/-- Domain of `egcd::<t>(a, b, c)`: a signed type, operands of magnitude `≤ MAX`, not both coefficients zero, and - when a
    solution exists - `(|c|/g)·max(|a|,|b|) ≤ g·MAX`, the bound on every coefficient and intermediate product. -/
def domEgcd (t : IntTy) (a b c : Int) : Bool :=
  t.signed && absFits t a && absFits t b && absFits t c && !(a = 0 && b = 0) &&
  (c.natAbs % Int.gcd a b ≠ 0 ||
    (c.natAbs / Int.gcd a b) * max a.natAbs b.natAbs ≤ Int.gcd a b * t.maxVal.toNat)

/-- Domain of `crt::<t>(a1, m1, a2, m2)`: positive moduli `≤ MAX`, reduced residues, and - when the congruences are
    compatible - the solver's bound for `m1·x − m2·y = a2 − a1`, room for `x mod (m2/g) + m2/g`, and a representable lcm
    (the answer lies in `[0, lcm)`). -/
def domCrt (t : IntTy) (a1 m1 a2 m2 : Int) : Bool :=
  t.signed && 1 ≤ m1 && 1 ≤ m2 && 0 ≤ a1 && a1 < m1 && 0 ≤ a2 && a2 < m2 && m1 ≤ t.maxVal && m2 ≤ t.maxVal &&
  ((a2 - a1).natAbs % Int.gcd m1 m2 ≠ 0 ||
    (((a2 - a1).natAbs / Int.gcd m1 m2) * max m1.natAbs m2.natAbs ≤ Int.gcd m1 m2 * t.maxVal.toNat &&
      2 * (m2 / (Int.gcd m1 m2 : Int)) ≤ t.maxVal && (Int.lcm m1 m2 : Int) ≤ t.maxVal))

/-! ### Executable specifications (what the user relies on) -/

/-- gcd by definition: the largest common divisor found by downward search (0 for (0,0)). -/
def specGcd (a b : Int) : Int := (Int.gcd a b : Int)

def specLcm (a b : Int) : Int := (Int.lcm a b : Int)

/-- Is `a*x + b*y = c` solvable?  Decided by divisibility. -/
def specSolvable (a b c : Int) : Bool := c % (Int.gcd a b : Int) = 0

/-- Does the pair solve the equation? -/
def specSolves (a b c : Int) (r : Option (Int × Int)) : Bool :=
  match r with
  | none => !(specSolvable a b c)
  | some (x, y) => a * x + b * y = c

/-- Are the two congruences compatible? -/
def specCrtSolvable (a1 m1 a2 m2 : Int) : Bool := (a2 - a1) % (Int.gcd m1 m2 : Int) = 0

/-- Is `x` the canonical solution: in `[0, lcm)` and congruent to both residues? -/
def specCrtIsSolution (a1 m1 a2 m2 x : Int) : Bool :=
  0 ≤ x && x < (Int.lcm m1 m2 : Int) && (x - a1) % m1 = 0 && (x - a2) % m2 = 0

/-- CRT by linear search over `[0, lcm)` (executable definition used for small moduli). -/
def specCrt (a1 m1 a2 m2 : Int) : Option Int :=
  let l := Int.lcm m1 m2
  ((List.range l).find? (fun (x : Nat) => decide ((x : Int) % m1 = a1 % m1 ∧ (x : Int) % m2 = a2 % m2))).map (fun (x : Nat) => (x : Int))

end Rlib.Gcd
