import RlibModel.Model.Segtree
/-
Executable item records for the segment-tree model (core Lean only).

* the six built-in items of `rlib/segtree/src/segtree_items.rs` (values are mathematical integers: the property's
  domain excludes overflow).  The items whose `Default` is a trait constant of the element type (`Min`/`MinAdd`:
  `<T as MinMax>::MAX`, `Max`/`MaxAdd`: `<T as MinMax>::MIN`) take the element type `ty : IntTy` as a parameter, so the
  identity the boundary searches start from is the instantiated type's real bound;
* `guardItem`: any item run together with a "no machine overflow so far" flag per node (`Guard`: which `merge` /
  `modify` / `push` calls stay inside the element type) — the driver uses it to decide whether a history at a
  narrow / unsigned element type is inside the property's domain (no overflow) at all;
* `prodItem` = `Combinator<U, V>`;
* `KV` items: `Min` / `Max` / `MinAdd` / `MaxAdd` over an element type whose order ignores part of the value (a record ordered
  by key, floats with `+0.0` / `-0.0`), `catSumItem` (`Sum` over a non-commutative `+`), `FloatFmt` (IEEE bit patterns in pure
  integer arithmetic);
* the exotic lawful items of the correspondence harness (`harness/e_segtree/src/items.rs`):
  `affHash` (polynomial hash of the concatenation, affine modifiers — merge not commutative, modifiers do not
  commute), `strCat` (string concatenation with "shift every letter" / "overwrite every letter"), the flip / count-ones
  items, and `ap` (add an arithmetic progression to a range: `push` hands its two children different tags; `apPushCode`,
  `apGuard`).

The law proofs are in `Lemmas/SegtreeItems.lean`.
-/
namespace Rlib.Segtree

def i64Max : Int := 9223372036854775807
def i64Min : Int := -9223372036854775808

/-! ### `Min<T>`, `Max<T>`, `Sum<T>` (modifier type `()`, default `modify`/`push` do nothing); `ty` = the element type `T` -/

structure MinI where
  v : Int
  deriving Repr, DecidableEq

/-- `Min<T>`; `Default` is `<T as MinMax>::MAX` -/
def minItem (ty : IntTy) : Item MinI Unit Int where
  merge l r := if l.v < r.v then l else r
  -- the trait's default `update`: `*self = merge(left, right)`
  update _ l r := if l.v < r.v then l else r
  modify x _ := x
  push p l r := (p, l, r)
  dflt := ⟨ty.maxVal⟩
  op a b := if a < b then a else b
  val x := x.v
  pa _ a := a
  act _ a := a

structure MaxI where
  v : Int
  deriving Repr, DecidableEq

/-- `Max<T>`; `Default` is `<T as MinMax>::MIN` -/
def maxItem (ty : IntTy) : Item MaxI Unit Int where
  merge l r := if l.v > r.v then l else r
  -- the trait's default `update`: `*self = merge(left, right)`
  update _ l r := if l.v > r.v then l else r
  modify x _ := x
  push p l r := (p, l, r)
  dflt := ⟨ty.minVal⟩
  op a b := if a > b then a else b
  val x := x.v
  pa _ a := a
  act _ a := a

structure SumI where
  v : Int
  deriving Repr, DecidableEq

def sumItem : Item SumI Unit Int where
  merge l r := ⟨l.v + r.v⟩
  -- the trait's default `update`: `*self = merge(left, right)`
  update _ l r := ⟨l.v + r.v⟩
  modify x _ := x
  push p l r := (p, l, r)
  dflt := ⟨0⟩
  op a b := a + b
  val x := x.v
  pa _ a := a
  act _ a := a

/-! ### `MinAdd<T>`, `MaxAdd<T>`, `SumAdd<T>` (modifier type `T`) -/

structure MinAdd where
  v : Int
  md : Int
  deriving Repr, DecidableEq

/-- `MinAdd<T>`; `Default` is `{ v: <T as MinMax>::MAX, md: 0 }` -/
def minAddItem (ty : IntTy) : Item MinAdd Int Int where
  merge l r := ⟨if l.v < r.v then l.v else r.v, 0⟩
  -- the trait's default `update`: `*self = merge(left, right)`
  update _ l r := ⟨if l.v < r.v then l.v else r.v, 0⟩
  modify x m := ⟨x.v + m, x.md + m⟩
  push p l r := (⟨p.v, 0⟩, ⟨l.v + p.md, l.md + p.md⟩, ⟨r.v + p.md, r.md + p.md⟩)
  dflt := ⟨ty.maxVal, 0⟩
  op a b := if a < b then a else b
  val x := x.v
  pa x a := a + x.md
  act m a := a + m

structure MaxAdd where
  v : Int
  md : Int
  deriving Repr, DecidableEq

/-- `MaxAdd<T>`; `Default` is `{ v: <T as MinMax>::MIN, md: 0 }` -/
def maxAddItem (ty : IntTy) : Item MaxAdd Int Int where
  merge l r := ⟨if l.v > r.v then l.v else r.v, 0⟩
  -- the trait's default `update`: `*self = merge(left, right)`
  update _ l r := ⟨if l.v > r.v then l.v else r.v, 0⟩
  modify x m := ⟨x.v + m, x.md + m⟩
  push p l r := (⟨p.v, 0⟩, ⟨l.v + p.md, l.md + p.md⟩, ⟨r.v + p.md, r.md + p.md⟩)
  dflt := ⟨ty.minVal, 0⟩
  op a b := if a > b then a else b
  val x := x.v
  pa x a := a + x.md
  act m a := a + m

/-- `SumAdd<T>`: the observable value is `(sum, length)`; `Default` is all `T::default()` = 0 for every integer type -/
structure SumAdd where
  v : Int
  len : Int
  md : Int
  deriving Repr, DecidableEq

def sumAddItem : Item SumAdd Int (Int × Int) where
  merge l r := ⟨l.v + r.v, l.len + r.len, 0⟩
  -- the trait's default `update`: `*self = merge(left, right)`
  update _ l r := ⟨l.v + r.v, l.len + r.len, 0⟩
  modify x m := ⟨x.v + m * x.len, x.len, x.md + m⟩
  push p l r := (⟨p.v, p.len, 0⟩, ⟨l.v + p.md * l.len, l.len, l.md + p.md⟩, ⟨r.v + p.md * r.len, r.len, r.md + p.md⟩)
  dflt := ⟨0, 0, 0⟩
  op a b := (a.1 + b.1, a.2 + b.2)
  val x := (x.v, x.len)
  pa x a := (a.1 + x.md * a.2, a.2)
  act m a := (a.1 + m * a.2, a.2)

/-! ### `Combinator<U, V>` -/

def prodItem {T U M A B : Type} (I : Item T M A) (J : Item U M B) : Item (T × U) M (A × B) where
  merge l r := (I.merge l.1 r.1, J.merge l.2 r.2)
  -- `Combinator` does not override `update`: the trait default merges, the components' own `update` is NOT called
  update _ l r := (I.merge l.1 r.1, J.merge l.2 r.2)
  modify x m := (I.modify x.1 m, J.modify x.2 m)
  push p l r :=
    let a := I.push p.1 l.1 r.1
    let b := J.push p.2 l.2 r.2
    ((a.1, b.1), (a.2.1, b.2.1), (a.2.2, b.2.2))
  dflt := (I.dflt, J.dflt)
  op a b := (I.op a.1 b.1, J.op a.2 b.2)
  val x := (I.val x.1, J.val x.2)
  pa x a := (I.pa x.1 a.1, J.pa x.2 a.2)
  act m a := (I.act m a.1, J.act m a.2)

/-! ### Overflow guard: an item run together with a flag "no machine arithmetic overflowed on the way to this value"

The items above compute over unbounded `Int`; the code computes in the element type `T` with overflow checks on
(the harness is built with `overflow-checks = true`), and a history on which some `+` / `*` / `+=` leaves `T` is outside
the property's domain.  `Guard` says which calls stay inside `T` (every intermediate result of the call is
representable); `guardItem I G` runs `I` unchanged in the first component and keeps the conjunction of all guards that
contributed to a value in the second.  The flag is sticky (`update` keeps the old node's flag), so a tree in which any
call ever overflowed contains a `false` flag, and so does every value computed from such a node. -/

structure Guard (T M : Type) where
  /-- no overflow inside `merge(l, r)` -/
  okMerge : T → T → Bool
  /-- no overflow inside `x.modify(m)` -/
  okModify : T → M → Bool
  /-- no overflow inside `p.push(l, r)` -/
  okPush : T → T → T → Bool

def guardItem {T M A : Type} (I : Item T M A) (G : Guard T M) : Item (T × Bool) M A where
  merge l r := (I.merge l.1 r.1, l.2 && r.2 && G.okMerge l.1 r.1)
  -- the trait's default `update` = `merge`; an overriding item must not introduce arithmetic of its own
  update p l r := (I.update p.1 l.1 r.1, p.2 && l.2 && r.2 && G.okMerge l.1 r.1)
  modify x m := (I.modify x.1 m, x.2 && G.okModify x.1 m)
  push p l r :=
    let q := I.push p.1 l.1 r.1
    let ok := p.2 && G.okPush p.1 l.1 r.1
    ((q.1, ok), (q.2.1, l.2 && ok), (q.2.2, r.2 && ok))
  dflt := (I.dflt, true)
  op := I.op
  val x := I.val x.1
  pa x a := I.pa x.1 a
  act := I.act

/-- every node of the tree satisfies `p` -/
def Tree.all {T : Type} (p : T → Bool) : Tree T → Bool
  | .leaf v => p v
  | .node v l r => p v && l.all p && r.all p

/-- items without arithmetic (`Min`, `Max`: `merge` clones one side) -/
def noGuard {T M : Type} : Guard T M := ⟨fun _ _ => true, fun _ _ => true, fun _ _ _ => true⟩

/-- `Sum<T>::merge`: `left.v + right.v` -/
def sumGuard (ty : IntTy) : Guard SumI Unit := ⟨fun l r => ty.fits (l.v + r.v), fun _ _ => true, fun _ _ _ => true⟩

/-- `self.v += m; self.md += m` -/
def addOk (ty : IntTy) (v md m : Int) : Bool := ty.fits (v + m) && ty.fits (md + m)

/-- `MinAdd<T>`: `merge` has no arithmetic, `modify` two `+=`, `push` = `left.modify(md); right.modify(md)` -/
def minAddGuard (ty : IntTy) : Guard MinAdd Int :=
  ⟨fun _ _ => true, fun x m => addOk ty x.v x.md m, fun p l r => addOk ty l.v l.md p.md && addOk ty r.v r.md p.md⟩

def maxAddGuard (ty : IntTy) : Guard MaxAdd Int :=
  ⟨fun _ _ => true, fun x m => addOk ty x.v x.md m, fun p l r => addOk ty l.v l.md p.md && addOk ty r.v r.md p.md⟩

/-- `self.v + m * self.len` (product first), `self.md + m` -/
def sumAddOk (ty : IntTy) (x : SumAdd) (m : Int) : Bool :=
  ty.fits (m * x.len) && ty.fits (x.v + m * x.len) && ty.fits (x.md + m)

def sumAddGuard (ty : IntTy) : Guard SumAdd Int :=
  ⟨fun l r => ty.fits (l.v + r.v) && ty.fits (l.len + r.len), sumAddOk ty,
   fun p l r => sumAddOk ty l p.md && sumAddOk ty r p.md⟩

/-- `Combinator<U, V>`: both components -/
def prodGuard {T U M : Type} (G : Guard T M) (H : Guard U M) : Guard (T × U) M :=
  ⟨fun l r => G.okMerge l.1 r.1 && H.okMerge l.2 r.2, fun x m => G.okModify x.1 m && H.okModify x.2 m,
   fun p l r => G.okPush p.1 l.1 r.1 && H.okPush p.2 l.2 r.2⟩

/-! ### `AffHash` (harness item): polynomial hash of the concatenation, affine maps as modifiers -/

def hashP : Int := 1000000007
def hashB : Int := 131

/-- `h` = Σ xᵢ·B^(k-i) mod P, `pw` = B^k mod P, `s` = Σ B^j (j < k) mod P, `md` = pending affine map -/
structure AffHash where
  h : Int
  pw : Int
  s : Int
  md : Option (Int × Int)
  deriving Repr, DecidableEq

/-- the map `x ↦ a·x + b` applied to every element: on the aggregate `(h, pw, s)` -/
def affApply (m : Int × Int) (a : Int × Int × Int) : Int × Int × Int :=
  ((m.1 * a.1 + m.2 * a.2.2) % hashP, a.2.1, a.2.2)

/-- `m` after `o` -/
def affCompose (m o : Int × Int) : Int × Int := ((m.1 * o.1) % hashP, (m.1 * o.2 + m.2) % hashP)

def affModify (x : AffHash) (m : Int × Int) : AffHash :=
  ⟨(m.1 * x.h + m.2 * x.s) % hashP, x.pw, x.s,
   some (match x.md with
         | none => m
         | some o => affCompose m o)⟩

def affHashItem : Item AffHash (Int × Int) (Int × Int × Int) where
  merge l r := ⟨(l.h * r.pw + r.h) % hashP, (l.pw * r.pw) % hashP, (l.s * r.pw + r.s) % hashP, none⟩
  -- the trait's default `update`: `*self = merge(left, right)`
  update _ l r := ⟨(l.h * r.pw + r.h) % hashP, (l.pw * r.pw) % hashP, (l.s * r.pw + r.s) % hashP, none⟩
  modify := affModify
  push p l r :=
    match p.md with
    | none => (p, l, r)
    | some m => (⟨p.h, p.pw, p.s, none⟩, affModify l m, affModify r m)
  dflt := ⟨0, 1, 0, none⟩
  op a b := ((a.1 * b.2.1 + b.1) % hashP, (a.2.1 * b.2.1) % hashP, (a.2.2 * b.2.1 + b.2.2) % hashP)
  val x := (x.h, x.pw, x.s)
  pa x a := match x.md with
    | none => a
    | some m => affApply m a
  act m a := affApply m a

/-- the leaf item for the element `x` (`AffHash::from(x)`) -/
def affLeaf (x : Int) : AffHash := ⟨x % hashP, hashB, 1, none⟩

/-! ### `StrCat` (harness item): concatenation of lower-case strings; modifier `(0, k)` shifts every letter
by `k` (mod 26), `(k, c)` with `k ≠ 0` overwrites every letter with `c` -/

structure StrCat where
  s : List Nat          -- letters as numbers 0..25
  md : Option (Nat × Nat)
  deriving Repr, DecidableEq

def chApply (m : Nat × Nat) (c : Nat) : Nat := if m.1 = 0 then (c + m.2) % 26 else m.2 % 26

/-- `m` after `o` -/
def chCompose (m o : Nat × Nat) : Nat × Nat :=
  if m.1 = 0 then (if o.1 = 0 then (0, (o.2 + m.2) % 26) else (1, (o.2 % 26 + m.2) % 26)) else (1, m.2 % 26)

def strModify (x : StrCat) (m : Nat × Nat) : StrCat :=
  ⟨x.s.map (chApply m),
   some (match x.md with
         | none => m
         | some o => chCompose m o)⟩

def strCatItem : Item StrCat (Nat × Nat) (List Nat) where
  merge l r := ⟨l.s ++ r.s, none⟩
  -- the trait's default `update`: `*self = merge(left, right)`
  update _ l r := ⟨l.s ++ r.s, none⟩
  modify := strModify
  push p l r :=
    match p.md with
    | none => (p, l, r)
    | some m => (⟨p.s, none⟩, strModify l m, strModify r m)
  dflt := ⟨[], none⟩
  op a b := a ++ b
  val x := x.s
  pa x a := match x.md with
    | none => a
    | some m => a.map (chApply m)
  act m a := a.map (chApply m)

/-! ### `FlipZ` / `FlipB` (harness items): flip-a-range / count-ones.  Value `(ones, len)`, the modifier flips every
bit of the range (non-idempotent, self-inverse).  `flipZItem` is lazy with the zero-sized modifier `()`;
`flipBItem` has the same algebra with a one-byte modifier (odd = flip, even = nothing). -/

structure Flip where
  ones : Int
  len : Int
  fl : Bool
  deriving Repr, DecidableEq

def flipObs (a : Int × Int) : Int × Int := (a.2 - a.1, a.2)

def Flip.flip (x : Flip) : Flip := ⟨x.len - x.ones, x.len, !x.fl⟩

def flipZItem : Item Flip Unit (Int × Int) where
  merge l r := ⟨l.ones + r.ones, l.len + r.len, false⟩
  -- the trait's default `update`: `*self = merge(left, right)`
  update _ l r := ⟨l.ones + r.ones, l.len + r.len, false⟩
  modify x _ := x.flip
  push p l r := if p.fl then (⟨p.ones, p.len, false⟩, l.flip, r.flip) else (p, l, r)
  dflt := ⟨0, 0, false⟩
  op a b := (a.1 + b.1, a.2 + b.2)
  val x := (x.ones, x.len)
  pa x a := if x.fl then flipObs a else a
  act _ a := flipObs a

def flipBItem : Item Flip Nat (Int × Int) where
  merge l r := ⟨l.ones + r.ones, l.len + r.len, false⟩
  -- the trait's default `update`: `*self = merge(left, right)`
  update _ l r := ⟨l.ones + r.ones, l.len + r.len, false⟩
  modify x m := if m % 2 = 1 then x.flip else x
  push p l r := if p.fl then (⟨p.ones, p.len, false⟩, l.flip, r.flip) else (p, l, r)
  dflt := ⟨0, 0, false⟩
  op a b := (a.1 + b.1, a.2 + b.2)
  val x := (x.ones, x.len)
  pa x a := if x.fl then flipObs a else a
  act m a := if m % 2 = 1 then flipObs a else a

/-! ### Element types whose order ignores part of the value (`KV`): records ordered by key, floats with `+0.0` / `-0.0`

`Min<T>` / `Max<T>` / `MinAdd<T>` / `MaxAdd<T>` only need `T: PartialOrd + Clone`; the order may ignore part of the value
(a record compared by its key only; `+0.0 == -0.0`), and then *which* of two equal-comparing values `merge` returns is
observable.  `KV` is such an element: `k` is what the order looks at, `t` is what it ignores.  The observable value of
the items below is the **whole** element, so the specification (`Spec.ask` = left-to-right `merge` fold) fixes the tie
rule: `Min::merge` / `Max::merge` return the LEFT operand only when it is strictly smaller / greater, i.e. the fold
returns the LAST minimal (maximal) element of the range.

* harness type `Rec { key, tag }` (`harness/e_segtree/src/keyed.rs`): `k = key`, `t = tag`, `+=` adds both fields;
* `f64` / `f32` under `Min` / `Max` (no arithmetic): `k = FloatFmt.ordKey bits` (order-preserving integer image of a
  non-NaN bit pattern, both zeros ↦ 0), `t = bits`;
* `f64` / `f32` under the additive items: integer-valued floats far below `2^mbits`, where `+` is exact: `k` = the
  integer, `t = 0` (`-0.0` is never produced by sums of such values, and is not fed in: `-0.0 + 0.0 = +0.0`, so the
  additive items do not preserve the sign of a zero through a push of the identity tag). -/

structure KV where
  k : Int
  t : Int
  deriving Repr, DecidableEq

/-- `Min<T>` on an element type ordered by `k` only; `d` = `Default` (`<T as MinMax>::MAX`) -/
def minKItem (d : KV) : Item KV Unit KV where
  merge l r := if l.k < r.k then l else r
  -- the trait's default `update`: `*self = merge(left, right)`
  update _ l r := if l.k < r.k then l else r
  modify x _ := x
  push p l r := (p, l, r)
  dflt := d
  op a b := if a.k < b.k then a else b
  val x := x
  pa _ a := a
  act _ a := a

/-- `Max<T>` on an element type ordered by `k` only; `d` = `Default` (`<T as MinMax>::MIN`) -/
def maxKItem (d : KV) : Item KV Unit KV where
  merge l r := if l.k > r.k then l else r
  -- the trait's default `update`: `*self = merge(left, right)`
  update _ l r := if l.k > r.k then l else r
  modify x _ := x
  push p l r := (p, l, r)
  dflt := d
  op a b := if a.k > b.k then a else b
  val x := x
  pa _ a := a
  act _ a := a

/-- `+=` of the element type: both fields (`Rec`); for the integer-valued floats `t` is 0 throughout -/
def kvAdd (a b : KV) : KV := ⟨a.k + b.k, a.t + b.t⟩

/-- `T::default()` -/
def kvZero : KV := ⟨0, 0⟩

/-- `MinAdd<T>` / `MaxAdd<T>` on such an element type: value and pending modifier -/
structure KL where
  v : KV
  md : KV
  deriving Repr, DecidableEq

/-- `MinAdd<T>`; `merge` is `Self::new(if left.v < right.v { left.v } else { right.v })`, `Default` is `{ v: T::MAX, md: T::default() }` -/
def minAddKItem (d : KV) : Item KL KV KV where
  merge l r := ⟨if l.v.k < r.v.k then l.v else r.v, kvZero⟩
  -- the trait's default `update`: `*self = merge(left, right)`
  update _ l r := ⟨if l.v.k < r.v.k then l.v else r.v, kvZero⟩
  modify x m := ⟨kvAdd x.v m, kvAdd x.md m⟩
  push p l r := (⟨p.v, kvZero⟩, ⟨kvAdd l.v p.md, kvAdd l.md p.md⟩, ⟨kvAdd r.v p.md, kvAdd r.md p.md⟩)
  dflt := ⟨d, kvZero⟩
  op a b := if a.k < b.k then a else b
  val x := x.v
  pa x a := kvAdd a x.md
  act m a := kvAdd a m

/-- `MaxAdd<T>`; `Default` is `{ v: T::MIN, md: T::default() }` -/
def maxAddKItem (d : KV) : Item KL KV KV where
  merge l r := ⟨if l.v.k > r.v.k then l.v else r.v, kvZero⟩
  -- the trait's default `update`: `*self = merge(left, right)`
  update _ l r := ⟨if l.v.k > r.v.k then l.v else r.v, kvZero⟩
  modify x m := ⟨kvAdd x.v m, kvAdd x.md m⟩
  push p l r := (⟨p.v, kvZero⟩, ⟨kvAdd l.v p.md, kvAdd l.md p.md⟩, ⟨kvAdd r.v p.md, kvAdd r.md p.md⟩)
  dflt := ⟨d, kvZero⟩
  op a b := if a.k > b.k then a else b
  val x := x.v
  pa x a := kvAdd a x.md
  act m a := kvAdd a m

/-- `Sum<T>` over an element type whose `+` is associative but NOT commutative (harness type `Cat`: string concatenation,
    letters as numbers): `merge` is `left.v + right.v` in this order -/
def catSumItem : Item (List Nat) Unit (List Nat) where
  merge l r := l ++ r
  -- the trait's default `update`: `*self = merge(left, right)`
  update _ l r := l ++ r
  modify x _ := x
  push p l r := (p, l, r)
  dflt := []
  op a b := a ++ b
  val x := x
  pa _ a := a
  act _ a := a

/-! ### `Ap` (harness item): range sum with "add an arithmetic progression to a range" — a lawful lazy item whose `push` does
NOT treat its two children alike

An element knows its position; a node stores the sum, the number of elements, the sum of their positions (`ps`) and the
position of its first element (`lo`, `none` for the empty aggregate `Default`).  The pending tag `(ta, td)` is RELATIVE
to the node's own first element: "the element at position `q` still has to receive `ta + td * (q - lo)`".  The modifier
`(from, a, d)` adds `a + d * (q - from)` to the element at position `q`.

`apItem.push` hands every child the tag re-based to the child's own first position (`ta + td * (child.lo - lo)`): this is
the form in which all laws hold for arbitrary operands.  The harness's Rust item (`harness/e_segtree/src/items.rs`) is
written as such an item normally is, `left.apply(ta, td); right.apply(ta + td * left.len, td)` — `apPushCode` below —,
which is the same function exactly when the left child starts where the node starts and the right child starts
`left.len` later (`ap_push_code_eq`); this holds at every node of a tree whose `i`-th element has position `i` (what the
harness builds).  The driver runs the item together with the guard "the code's `push` and the model's `push` agree on
this call" (`apGuard`), so a history on which they would differ is reported as outside the domain (`S any`), never
compared. -/

structure Ap where
  sum : Int
  len : Int
  /-- sum of the positions of the elements -/
  ps : Int
  /-- position of the first element -/
  lo : Option Int
  ta : Int
  td : Int
  deriving Repr, DecidableEq

/-- observable value `(sum, number of elements, sum of positions, first position)` -/
abbrev ApV := Int × Int × Int × Option Int

/-- every element (position `q`) of the aggregate receives `a + d * (q - base)` -/
def apShift (base a d : Int) (v : ApV) : ApV :=
  (v.1 + a * v.2.1 + d * (v.2.2.1 - base * v.2.1), v.2.1, v.2.2.1, v.2.2.2)

def optOr (a b : Option Int) : Option Int :=
  match a with
  | some x => some x
  | none => b

/-- `Ap::apply(a, d)`: the progression has the value `a` at the node's own first element -/
def Ap.apply (x : Ap) (a d : Int) : Ap :=
  ⟨x.sum + a * x.len + d * (x.ps - x.lo.getD 0 * x.len), x.len, x.ps, x.lo, x.ta + a, x.td + d⟩

def apItem : Item Ap (Int × Int × Int) ApV where
  merge l r := ⟨l.sum + r.sum, l.len + r.len, l.ps + r.ps, optOr l.lo r.lo, 0, 0⟩
  -- the trait's default `update`: `*self = merge(left, right)`
  update _ l r := ⟨l.sum + r.sum, l.len + r.len, l.ps + r.ps, optOr l.lo r.lo, 0, 0⟩
  modify x m := x.apply (m.2.1 + m.2.2 * (x.lo.getD 0 - m.1)) m.2.2
  push p l r :=
    (⟨p.sum, p.len, p.ps, p.lo, 0, 0⟩,
     l.apply (p.ta + p.td * (l.lo.getD 0 - p.lo.getD 0)) p.td,
     r.apply (p.ta + p.td * (r.lo.getD 0 - p.lo.getD 0)) p.td)
  dflt := ⟨0, 0, 0, none, 0, 0⟩
  op a b := (a.1 + b.1, a.2.1 + b.2.1, a.2.2.1 + b.2.2.1, optOr a.2.2.2 b.2.2.2)
  val x := (x.sum, x.len, x.ps, x.lo)
  pa x a := apShift (x.lo.getD 0) x.ta x.td a
  act m a := apShift m.1 m.2.1 m.2.2 a

/-- `push` as the harness's Rust item computes it: the left child starts where the node starts, the right child
    `left.len` positions later -/
def apPushCode (p l r : Ap) : Ap × Ap × Ap :=
  (⟨p.sum, p.len, p.ps, p.lo, 0, 0⟩, l.apply p.ta p.td, r.apply (p.ta + p.td * l.len) p.td)

/-- the element with value `v` at position `q` (`Ap::leaf`) -/
def apLeaf (q v : Int) : Ap := ⟨v, 1, q, some q, 0, 0⟩

/-- guard of the correspondence: the code's `push` is the model's `push` on this call -/
def apGuard : Guard Ap (Int × Int × Int) :=
  ⟨fun _ _ => true, fun _ _ => true, fun p l r => decide (apPushCode p l r = apItem.push p l r)⟩

/-! ### IEEE binary formats: bit patterns, their order, exactly representable integers (pure integer arithmetic) -/

structure FloatFmt where
  ebits : Nat
  mbits : Nat
  deriving Repr, DecidableEq

def f64Fmt : FloatFmt := ⟨11, 52⟩
def f32Fmt : FloatFmt := ⟨8, 23⟩

namespace FloatFmt
/-- the sign bit as a number -/
def signBit (f : FloatFmt) : Nat := 2 ^ (f.ebits + f.mbits)
/-- exponent bias -/
def bias (f : FloatFmt) : Nat := 2 ^ (f.ebits - 1) - 1
/-- bit pattern of `+∞` -/
def infBits (f : FloatFmt) : Nat := (2 ^ f.ebits - 1) * 2 ^ f.mbits
/-- a bit pattern of the format that is not a NaN -/
def valid (f : FloatFmt) (bits : Nat) : Bool := bits < 2 * f.signBit && bits % f.signBit ≤ f.infBits
/-- Order-preserving integer image of a non-NaN bit pattern: IEEE `<` on non-NaN values is `<` on these keys, and
    `+0.0`, `-0.0` (which compare equal) both get 0.  (Sign-magnitude: the magnitude bits of a non-negative float are
    increasing in its value.) -/
def ordKey (f : FloatFmt) (bits : Nat) : Int :=
  if bits < f.signBit then (bits : Int) else -((bits - f.signBit : Nat) : Int)
/-- the type's `MAX` (largest finite value), `MIN` (= `-MAX`), `1.0` -/
def maxBits (f : FloatFmt) : Nat := (2 ^ f.ebits - 2) * 2 ^ f.mbits + (2 ^ f.mbits - 1)
def minBits (f : FloatFmt) : Nat := f.signBit + f.maxBits
def oneBits (f : FloatFmt) : Nat := f.bias * 2 ^ f.mbits
/-- the integer `MAX` is -/
def maxInt (f : FloatFmt) : Int := ((2 ^ (f.mbits + 1) - 1 : Nat) : Int) * ((2 ^ (f.bias - f.mbits) : Nat) : Int)
/-- bit pattern of the integer `z` (meaningful when `z` is exactly representable: `|z| < 2^(mbits+1)`, or more
    generally an `(mbits+1)`-bit integer times a power of two below the overflow threshold, such as `maxInt`) -/
def ofInt (f : FloatFmt) (z : Int) : Nat :=
  if z = 0 then 0 else
  let a := z.natAbs
  let e := Nat.log2 a
  let mant := if e ≤ f.mbits then a * 2 ^ (f.mbits - e) - 2 ^ f.mbits else a / 2 ^ (e - f.mbits) - 2 ^ f.mbits
  (if z < 0 then f.signBit else 0) + (e + f.bias) * 2 ^ f.mbits + mant
end FloatFmt

/-! ### `{:?}` renderings (what `debug()` and the harness print) -/

def showOptPairI : Option (Int × Int) → String
  | none => "None"
  | some (a, b) => s!"Some(({a}, {b}))"

def showOptPairN : Option (Nat × Nat) → String
  | none => "None"
  | some (a, b) => s!"Some(({a}, {b}))"

def letters (s : List Nat) : String := String.ofList (s.map fun c => Char.ofNat (97 + c % 26))

def MinI.dbg (x : MinI) : String := s!"Min \{ v: {x.v} }"
def MaxI.dbg (x : MaxI) : String := s!"Max \{ v: {x.v} }"
def SumI.dbg (x : SumI) : String := s!"Sum \{ v: {x.v} }"
def MinAdd.dbg (x : MinAdd) : String := s!"MinAdd \{ v: {x.v}, md: {x.md} }"
def MaxAdd.dbg (x : MaxAdd) : String := s!"MaxAdd \{ v: {x.v}, md: {x.md} }"
def SumAdd.dbg (x : SumAdd) : String := s!"SumAdd \{ v: {x.v}, len: {x.len}, md: {x.md} }"
def AffHash.dbg (x : AffHash) : String :=
  s!"AffHash \{ h: {x.h}, pw: {x.pw}, s: {x.s}, md: {showOptPairI x.md} }"
def StrCat.dbg (x : StrCat) : String := s!"StrCat \{ s: \"{letters x.s}\", md: {showOptPairN x.md} }"
def Flip.dbg (name : String) (x : Flip) : String :=
  s!"{name} \{ ones: {x.ones}, len: {x.len}, fl: {x.fl} }"
def showOptI : Option Int → String
  | none => "None"
  | some a => s!"Some({a})"
def Ap.dbg (x : Ap) : String :=
  s!"Ap \{ sum: {x.sum}, len: {x.len}, ps: {x.ps}, lo: {showOptI x.lo}, ta: {x.ta}, td: {x.td} }"
def KV.dbgRec (x : KV) : String := s!"{x.k}/{x.t}"
def combDbg {T U : Type} (f : T → String) (g : U → String) (x : T × U) : String :=
  s!"Combinator({f x.1}, {g x.2})"

end Rlib.Segtree
