import RlibModel.Model.Treap
/-
The concrete items the correspondence harness runs (`harness/e_treap/src/items.rs` defines
the same two items in Rust, field by field), as `TItem` instances. Their laws are proved in
`Lemmas/TreapItems.lean` and are obligations of C03.

* `sumAdd`  — rlib's own test item (`ItemSized`: value, subtree sum, pending addend, size) over
              mathematical integers (the harness keeps magnitudes far below `i64` overflow).
* `affHash` — elements are integers, tags are affine maps `e ↦ a*e + b` (assign = `(0,c)`, add =
              `(1,c)`, negate = `(-1,0)`: they do **not** commute), the aggregate is the positional
              hash `(2^len, Σ e_i·2^(len-1-i))`, whose monoid is **not** commutative either, so a
              swapped child order or a tag applied in the wrong order changes the result.
-/
namespace Rlib.Treap

/-! ### sumAdd -/

structure SumIt where
  x : Int
  sm : Int
  md : Int
  sz : Nat
  deriving Repr, DecidableEq, Inhabited

/-- `ItemSized::modify` -/
def SumIt.modify (m : Int) (a : SumIt) : SumIt :=
  { a with md := a.md + m, x := a.x + m, sm := a.sm + m * (a.sz : Int) }

def sumAdd : TItem SumIt Int (Nat × Int) Int Int where
  new v := ⟨v, v, 0, 1⟩
  own a := a.x
  pa a e := e + a.md
  paG a g := (g.1, g.2 + a.md * (g.1 : Int))
  sz a := a.sz
  agg a := (a.sz, a.sm)
  update a l r :=
    { a with
      sm := (l.map (·.sm)).getD 0 + (r.map (·.sm)).getD 0 + a.x
      sz := (l.map (·.sz)).getD 0 + (r.map (·.sz)).getD 0 + 1 }
  push a l r := ({ a with md := 0 }, l.map (SumIt.modify a.md), r.map (SumIt.modify a.md))
  tag := SumIt.modify
  act m e := e + m
  actG m g := (g.1, g.2 + m * (g.1 : Int))
  inj e := (1, e)
  one := (0, 0)
  mul a b := (a.1 + b.1, a.2 + b.2)

/-! ### affHash -/

structure AffIt where
  x : Int
  pw : Int
  h : Int
  ma : Int
  mb : Int
  sz : Nat
  deriving Repr, DecidableEq, Inhabited

/-- apply the affine map `e ↦ a*e + b` to a whole subtree, lazily -/
def AffIt.modify (m : Int × Int) (t : AffIt) : AffIt :=
  { t with
    x := m.1 * t.x + m.2
    h := m.1 * t.h + m.2 * (t.pw - 1)
    ma := m.1 * t.ma
    mb := m.1 * t.mb + m.2 }

def hashMul (a b : Int × Int) : Int × Int := (a.1 * b.1, a.2 * b.1 + b.2)

def affHash : TItem AffIt Int (Int × Int) (Int × Int) Int where
  new v := ⟨v, 2, v, 1, 0, 1⟩
  own t := t.x
  pa t e := t.ma * e + t.mb
  paG t g := (g.1, t.ma * g.2 + t.mb * (g.1 - 1))
  sz t := t.sz
  agg t := (t.pw, t.h)
  update t l r :=
    let gl : Int × Int := (l.map (fun i => (i.pw, i.h))).getD (1, 0)
    let gr : Int × Int := (r.map (fun i => (i.pw, i.h))).getD (1, 0)
    let g := hashMul gl (hashMul (2, t.x) gr)
    { t with pw := g.1, h := g.2, sz := (l.map (·.sz)).getD 0 + (r.map (·.sz)).getD 0 + 1 }
  push t l r := ({ t with ma := 1, mb := 0 }, l.map (AffIt.modify (t.ma, t.mb)), r.map (AffIt.modify (t.ma, t.mb)))
  tag := AffIt.modify
  act m e := m.1 * e + m.2
  actG m g := (g.1, m.1 * g.2 + m.2 * (g.1 - 1))
  inj e := (2, e)
  one := (1, 0)
  mul := hashMul

/-! ### keyOnly -/

/-- An item that relies on the DEFAULT (empty) bodies of `TreapItem::update` and `TreapItem::push`
    and does not implement `TreapItemSized` (the item of rlib's own `set` test; Rust twin `KeyIt` in
    `harness/e_treap/src/items.rs` has the single field `x`). `sz` is a ghost field: rlib stores no
    size for such an item; the harness reports the number of nodes it counts through the public
    `left`/`right` fields, which is what this ghost size is at every root (`WFt`). -/
structure KeyIt where
  x : Int
  sz : Nat
  deriving Repr, DecidableEq, Inhabited

def keyOnly : TItem KeyIt Int Unit Unit Int where
  new v := ⟨v, 1⟩
  own a := a.x
  pa _ e := e
  paG _ g := g
  sz a := a.sz
  agg _ := ()
  update a l r := { a with sz := (l.map (·.sz)).getD 0 + (r.map (·.sz)).getD 0 + 1 }
  push a l r := (a, l, r)
  tag _ a := a
  act _ e := e
  actG _ g := g
  inj _ := ()
  one := ()
  mul _ _ := ()

end Rlib.Treap
