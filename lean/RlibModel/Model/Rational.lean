import RlibModel.Model.Gcd
/-
Model of `rlib/rational/src/lib.rs` (`Rational<T>` for a signed primitive `T`).

One definition serves both purposes:
* `t = some ty`  — the machine instantiation: every `abs`, negation, product, sum, difference and
  quotient is passed through `checked ty` (the harness builds rlib with `overflow-checks = true`,
  so a wrapped intermediate is `panic:overflow` on both sides);
* `t = none`     — the same code over unbounded integers (no overflow possible).
The theorems of C07 are stated for `none` (value in ℚ, canonical form) and `nowrap_*` lemmas show that
under the property's magnitude guard `some ty` computes exactly what `none` computes.

Rust's `/` and `%` truncate: `Int.tdiv`, `Int.tmod`; division by zero is `Panic.divzero`.
Evaluation order (which decides *which* panic is seen) follows the Rust source:
arguments of `Self::new(…, …)` left to right, `gcd` (`into_abs` of both operands) first inside `norm`.
-/
namespace Rlib.Rational
open Rlib.Gcd

/-- `struct Rational<T> { pub a: T, pub b: T }` (derived `Eq`, `Hash`: structural). -/
structure Q where
  a : Int
  b : Int
  deriving DecidableEq, Repr, Inhabited

/-- A machine operation result: checked against the type, or unbounded when `t = none`. -/
def chk (t : Option IntTy) (z : Int) : Except Panic Int :=
  match t with
  | none => .ok z
  | some ty => checked ty z

/-- Truncating division `x / y` as Rust performs it: zero divisor panics, `MIN / -1` overflows. -/
def divT (t : Option IntTy) (x y : Int) : Except Panic Int :=
  if y = 0 then .error .divzero else chk t (x.tdiv y)

/-- `fn norm(&mut self)`: divide both fields by `gcd`, then move the sign to the numerator. -/
def norm (t : Option IntTy) (a b : Int) : Except Panic Q := do
  let _ ← chk t (a.natAbs : Int)            -- gcd: a.into_abs()
  let _ ← chk t (b.natAbs : Int)            -- gcd: b.into_abs()
  let g := gcd a b
  let a' ← divT t a g                        -- self.a /= &g
  let b' ← divT t b g                        -- self.b /= &g
  if b' < 0 then
    let nb ← chk t (-b')                     -- self.b = -x
    let na ← chk t (-a')                     -- self.a = -x
    pure ⟨na, nb⟩
  else
    pure ⟨a', b'⟩

/-- `pub fn new(a, b)`. -/
def new (t : Option IntTy) (a b : Int) : Except Panic Q := norm t a b

/-- `pub fn new_int(a)`. -/
def newInt (a : Int) : Q := ⟨a, 1⟩

/-- `Add<&Self>`: `new(a*d + b*c, b*d)`. -/
def add (t : Option IntTy) (x y : Q) : Except Panic Q := do
  let p1 ← chk t (x.a * y.b)
  let p2 ← chk t (x.b * y.a)
  let n ← chk t (p1 + p2)
  let d ← chk t (x.b * y.b)
  new t n d

/-- `Sub<&Self>`: `new(a*d - b*c, b*d)`. -/
def sub (t : Option IntTy) (x y : Q) : Except Panic Q := do
  let p1 ← chk t (x.a * y.b)
  let p2 ← chk t (x.b * y.a)
  let n ← chk t (p1 - p2)
  let d ← chk t (x.b * y.b)
  new t n d

/-- `Mul<&Self>`: `new(a*c, b*d)`. -/
def mul (t : Option IntTy) (x y : Q) : Except Panic Q := do
  let n ← chk t (x.a * y.a)
  let d ← chk t (x.b * y.b)
  new t n d

/-- `Div<&Self>`: `new(a*d, b*c)`. -/
def div (t : Option IntTy) (x y : Q) : Except Panic Q := do
  let n ← chk t (x.a * y.b)
  let d ← chk t (x.b * y.a)
  new t n d

/-- `Neg`: flips `a` only. -/
def neg (t : Option IntTy) (x : Q) : Except Panic Q := do
  let na ← chk t (-x.a)
  pure ⟨na, x.b⟩

/-- `Ord::cmp`: the sign of the numerator of the normalised difference. -/
def cmp (t : Option IntTy) (x y : Q) : Except Panic Ordering := do
  let d ← sub t x y
  pure (compare d.a 0)

/-- `pub fn floor(&self)`. -/
def floor (t : Option IntTy) (x : Q) : Except Panic Q :=
  if 0 ≤ x.a then do
    let q ← divT t x.a x.b
    pure ⟨q, 1⟩
  else do
    let s1 ← chk t (x.a - x.b)
    let s2 ← chk t (s1 + 1)
    let q ← divT t s2 x.b
    pure ⟨q, 1⟩

/-- `pub fn ceil(&self)`. -/
def ceil (t : Option IntTy) (x : Q) : Except Panic Q :=
  if 0 ≤ x.a then do
    let s1 ← chk t (x.a + x.b)
    let s2 ← chk t (s1 - 1)
    let q ← divT t s2 x.b
    pure ⟨q, 1⟩
  else do
    let q ← divT t x.a x.b
    pure ⟨q, 1⟩

/-- `Display` / `Debug`: `"{a}/{b}"`. -/
def render (x : Q) : String := s!"{x.a}/{x.b}"

/-! ### Executable specification: the rational numbers of core Lean (`Rat`, always in lowest terms) -/

/-- The value a fraction denotes. -/
def toRat (x : Q) : Rat := Rat.divInt x.a x.b

/-- The canonical form the property promises: lowest terms, positive denominator. -/
def Canon (x : Q) : Prop := 0 < x.b ∧ Int.gcd x.a x.b = 1

instance (x : Q) : Decidable (Canon x) := by unfold Canon; exact inferInstance

/-- The unique canonical representative of a rational value. -/
def ofRat (q : Rat) : Q := ⟨q.num, (q.den : Int)⟩

def specCmp (p q : Rat) : Ordering := if p < q then .lt else if p = q then .eq else .gt

/-- The property's magnitude guard: `|z| ≤ 2^(bits/2 − 2)` (2^14 for i32, 2^30 for i64, 2^62 for i128). -/
def guardBound (ty : IntTy) : Int := 2 ^ (ty.bits / 2 - 2)

def inGuard (ty : IntTy) (z : Int) : Bool := -(guardBound ty) ≤ z && z ≤ guardBound ty

/-! ### The property's domain up to the true edge of the integer type ("the mathematical intermediate values fit")

The guard above is a box that is easy to state; the property itself speaks of operands "below the overflow threshold".
The predicates below say, for one concrete pair of canonical operands, that the cross products the operators are
specified to form (`a·d`, `b·c`, their sum / difference, `b·d`, …) are representable and — where the value is handed to
`norm`, whose gcd takes absolute values — of magnitude at most `MAX` (the minimum of the type has no absolute value).
`Props/C07.lean` (`*_edge_machine`) proves that on this domain the checked machine pipeline returns exactly the value
of core Lean's `Rat` arithmetic, for every signed integer type; the driver uses these predicates to decide between a
definite `S` and `any`, so `i8 … i128` are all compared with the specification right up to the limit of the type. -/

/-- `|z| ≤ MAX` of the type: `z`, `-z` and `|z|` are all representable. -/
def magOk (ty : IntTy) (z : Int) : Bool := -ty.maxVal ≤ z && z ≤ ty.maxVal

/-- Domain of `new(a, b)`: non-zero denominator, both fields of magnitude `≤ MAX` (gcd takes `abs` of both). -/
def domNew (ty : IntTy) (a b : Int) : Bool := b ≠ 0 && magOk ty a && magOk ty b

def domAdd (ty : IntTy) (x y : Q) : Bool :=
  ty.fits (x.a * y.b) && ty.fits (x.b * y.a) && magOk ty (x.a * y.b + x.b * y.a) && magOk ty (x.b * y.b)

def domSub (ty : IntTy) (x y : Q) : Bool :=
  ty.fits (x.a * y.b) && ty.fits (x.b * y.a) && magOk ty (x.a * y.b - x.b * y.a) && magOk ty (x.b * y.b)

def domMul (ty : IntTy) (x y : Q) : Bool := magOk ty (x.a * y.a) && magOk ty (x.b * y.b)

/-- `/`: non-zero divisor, both cross products of magnitude `≤ MAX`. -/
def domDiv (ty : IntTy) (x y : Q) : Bool := y.a ≠ 0 && magOk ty (x.a * y.b) && magOk ty (x.b * y.a)

/-- `floor` moves a negative numerator by `b − 1` away from zero before the truncating division. -/
def domFloor (ty : IntTy) (x : Q) : Bool := 0 ≤ x.a || ty.fits (x.a - x.b)

/-- `ceil` moves a non-negative numerator by `b − 1` away from zero before the truncating division. -/
def domCeil (ty : IntTy) (x : Q) : Bool := x.a < 0 || ty.fits (x.a + x.b)

/-- The four binary operators as data (case lines `chain:ty op1 op2 …` name them). -/
inductive BinOp where
  | add | sub | mul | div
  deriving DecidableEq, Repr, Inhabited

namespace BinOp
def parse? : String → Option BinOp
  | "add" => some .add | "sub" => some .sub | "mul" => some .mul | "div" => some .div | _ => none
/-- the model function (machine instantiation for `t = some ty`) -/
def apply (t : Option IntTy) : BinOp → Q → Q → Except Panic Q
  | .add => Rational.add t | .sub => Rational.sub t | .mul => Rational.mul t | .div => Rational.div t
/-- the specification: arithmetic of core Lean's `Rat` -/
def spec : BinOp → Rat → Rat → Rat
  | .add => (· + ·) | .sub => (· - ·) | .mul => (· * ·) | .div => (· / ·)
/-- the edge domain on canonical operands -/
def dom (ty : IntTy) : BinOp → Q → Q → Bool
  | .add => domAdd ty | .sub => domSub ty | .mul => domMul ty | .div => domDiv ty
end BinOp

/-- Specification of every order-based observation on several values at once (`sort`, `min`, `max`, `BTreeSet`, …):
    the values in non-decreasing numeric order. -/
def sortSpec (ps : List Rat) : List Rat := ps.mergeSort (fun p q => decide (p ≤ q))

/-- Every ordered pair of the listed values (a value with itself included) is inside the domain of `cmp`. -/
def domPairs (ty : IntTy) (xs : List Q) : Bool := xs.all (fun x => xs.all (fun y => domSub ty x y))

end Rlib.Rational
