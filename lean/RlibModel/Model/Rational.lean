import RlibModel.Model.Gcd
/-
Model of `rlib/rational/src/lib.rs` (`Rational<T>` for a signed primitive `T`).

One definition serves both purposes:
* `t = some ty`  — the machine instantiation: every `abs`, negation, product, sum, difference and
  quotient is passed through `checked ty` (the harness builds rlib with `overflow-checks = true`,
  so a wrapped intermediate is `panic:overflow` on both sides);
* `t = none`     — the same code over unbounded integers (no overflow possible).
The theorems of C07 are stated for `none` (value in ℚ, canonical form) and `nowrap_*` lemmas show that
under the property's magnitude guard `some ty` computes exactly what `none` computes.

Rust's `/` and `%` truncate: `Int.tdiv`, `Int.tmod`; division by zero is `Panic.divzero`.
Evaluation order (which decides *which* panic is seen) follows the Rust source:
arguments of `Self::new(…, …)` left to right, `gcd` (`into_abs` of both operands) first inside `norm`.
-/
namespace Rlib.Rational
open Rlib.Gcd

/-- `struct Rational<T> { pub a: T, pub b: T }` (derived `Eq`, `Hash`: structural). -/
structure Q where
  a : Int
  b : Int
  deriving DecidableEq, Repr, Inhabited

/-- A machine operation result: checked against the type, or unbounded when `t = none`. -/
def chk (t : Option IntTy) (z : Int) : Except Panic Int :=
  match t with
  | none => .ok z
  | some ty => checked ty z

/-- Truncating division `x / y` as Rust performs it: zero divisor panics, `MIN / -1` overflows. -/
def divT (t : Option IntTy) (x y : Int) : Except Panic Int :=
  if y = 0 then .error .divzero else chk t (x.tdiv y)

/-- `fn norm(&mut self)`: divide both fields by `gcd`, then move the sign to the numerator. -/
def norm (t : Option IntTy) (a b : Int) : Except Panic Q := do
  let _ ← chk t (a.natAbs : Int)            -- gcd: a.into_abs()
  let _ ← chk t (b.natAbs : Int)            -- gcd: b.into_abs()
  let g := gcd a b
  let a' ← divT t a g                        -- self.a /= &g
  let b' ← divT t b g                        -- self.b /= &g
  if b' < 0 then
    let nb ← chk t (-b')                     -- self.b = -x
    let na ← chk t (-a')                     -- self.a = -x
    pure ⟨na, nb⟩
  else
    pure ⟨a', b'⟩

/-- `pub fn new(a, b)`. -/
def new (t : Option IntTy) (a b : Int) : Except Panic Q := norm t a b

/-- `pub fn new_int(a)`. -/
def newInt (a : Int) : Q := ⟨a, 1⟩

/-- `Add<&Self>`: `new(a*d + b*c, b*d)`. -/
def add (t : Option IntTy) (x y : Q) : Except Panic Q := do
  let p1 ← chk t (x.a * y.b)
  let p2 ← chk t (x.b * y.a)
  let n ← chk t (p1 + p2)
  let d ← chk t (x.b * y.b)
  new t n d

/-- `Sub<&Self>`: `new(a*d - b*c, b*d)`. -/
def sub (t : Option IntTy) (x y : Q) : Except Panic Q := do
  let p1 ← chk t (x.a * y.b)
  let p2 ← chk t (x.b * y.a)
  let n ← chk t (p1 - p2)
  let d ← chk t (x.b * y.b)
  new t n d

/-- `Mul<&Self>`: `new(a*c, b*d)`. -/
def mul (t : Option IntTy) (x y : Q) : Except Panic Q := do
  let n ← chk t (x.a * y.a)
  let d ← chk t (x.b * y.b)
  new t n d

/-- `Div<&Self>`: `new(a*d, b*c)`. -/
def div (t : Option IntTy) (x y : Q) : Except Panic Q := do
  let n ← chk t (x.a * y.b)
  let d ← chk t (x.b * y.a)
  new t n d

/-- `Neg`: flips `a` only. -/
def neg (t : Option IntTy) (x : Q) : Except Panic Q := do
  let na ← chk t (-x.a)
  pure ⟨na, x.b⟩

/-- `Ord::cmp`: the sign of the numerator of the normalised difference. -/
def cmp (t : Option IntTy) (x y : Q) : Except Panic Ordering := do
  let d ← sub t x y
  pure (compare d.a 0)

/-- `pub fn floor(&self)`. -/
def floor (t : Option IntTy) (x : Q) : Except Panic Q :=
  if 0 ≤ x.a then do
    let q ← divT t x.a x.b
    pure ⟨q, 1⟩
  else do
    let s1 ← chk t (x.a - x.b)
    let s2 ← chk t (s1 + 1)
    let q ← divT t s2 x.b
    pure ⟨q, 1⟩

/-- `pub fn ceil(&self)`. -/
def ceil (t : Option IntTy) (x : Q) : Except Panic Q :=
  if 0 ≤ x.a then do
    let s1 ← chk t (x.a + x.b)
    let s2 ← chk t (s1 - 1)
    let q ← divT t s2 x.b
    pure ⟨q, 1⟩
  else do
    let q ← divT t x.a x.b
    pure ⟨q, 1⟩

/-- `Display` / `Debug`: `"{a}/{b}"`. -/
def render (x : Q) : String := s!"{x.a}/{x.b}"

/-! ### Executable specification: the rational numbers of core Lean (`Rat`, always in lowest terms) -/

/-- The value a fraction denotes. -/
def toRat (x : Q) : Rat := Rat.divInt x.a x.b

/-- The canonical form the property promises: lowest terms, positive denominator. -/
def Canon (x : Q) : Prop := 0 < x.b ∧ Int.gcd x.a x.b = 1

instance (x : Q) : Decidable (Canon x) := by unfold Canon; exact inferInstance

/-- The unique canonical representative of a rational value. -/
def ofRat (q : Rat) : Q := ⟨q.num, (q.den : Int)⟩

def specCmp (p q : Rat) : Ordering := if p < q then .lt else if p = q then .eq else .gt

/-- The property's magnitude guard: `|z| ≤ 2^(bits/2 − 2)` (2^14 for i32, 2^30 for i64, 2^62 for i128). -/
def guardBound (ty : IntTy) : Int := 2 ^ (ty.bits / 2 - 2)

def inGuard (ty : IntTy) (z : Int) : Bool := -(guardBound ty) ≤ z && z ≤ guardBound ty

end Rlib.Rational
